/-
C06, prefix mode — part 2: the invariant of the end-of-input phase under the admission rule of the code.

`InvB pc pm`: every state of the last column has an item of the core item space and its children in the level
`KB pc (lrP …)` of its rank; the keys (item, children, incomplete?) of the last column are pairwise different; the
columns before the last hold atoms; the completed state of an active `complete` call was not cut.  `advanceP_psb`:
the two states a forced completion combines both rank below the new state — the completed one because its derivation
`(nonterminal, finished?)` is not in its own covering set (the cut of 73e5ffe3) but is in the new state's, or because
it starts later; the advanced one because its dot is smaller and its covering set no larger.  `stepB_inv`: every step
of the end-of-input phase keeps the invariant.  `lastLen_le`: the last column holds at most `capP pc` states.
-/
import Proofs.EarleyPrefixK
namespace FV.Earley

/-- the last column -/
abbrev PCfg.L (pc : PCfg) : Nat := pc.c.ncols - 1

/-- a state of the last column: item in the item space, children in the level of its rank -/
structure PSB (pc : PCfg) (s : PSt) : Prop where
  ok : Item.ok pc.c pc.L s.item
  kid : s.kids ∈ KB pc (lrP pc.c pc.L s)

/-! ### the rank argument for forced completions -/

theorem rankP_advance {c : Cfg} {L : Nat} {t s : PSt} (cs : Bool) (htok : Item.ok c L t.item)
    (hsok : Item.ok c t.item.origin s.item) (hcy : (t.item.lhs, t.fin) ∉ t.cov) :
    lrP c L t < lrP c L (advanceP cs .acyclic L t s)
      ∧ (t.item.origin = L → lrP c L s < lrP c L (advanceP cs .acyclic L t s)) := by
  have hdt : t.item.dot < DD c + 1 := by have := ok_dot_le htok; omega
  have htk : t.item.origin ≤ L := htok.2.2
  have hso : s.item.origin ≤ t.item.origin := hsok.2.2
  have hder : (t.item.lhs, t.fin) ∈ derList c := mem_derList (mem_ntList htok) _
  unfold lrP advanceP
  simp only [Item.next]
  by_cases hA : s.item.origin = t.item.origin
  · simp only [hA, ↓reduceIte]
    constructor
    · apply enc_lt_of_snd _ _ _ _ _ _ _ hdt
      apply covP_strict c _ (t.item.lhs, t.fin) hder hcy (by simp)
      intro x hx
      simp [hx]
    · intro hp
      simp only [hp, ↓reduceIte]
      have := enc_le_snd (L - L) (2 * NN c + 1) (DD c + 1) (covP c s.cov)
        (covP c ((t.item.lhs, t.fin) :: t.cov ++ s.cov)) (covP_mono c (by intro x hx; simp [hx]))
      omega
  · simp only [hA, ↓reduceIte, List.nil_append]
    constructor
    · apply enc_lt_of_fst _ _ _ _ _ _ _ _ _ hdt
      all_goals (have := covP_le c t.cov; omega)
    · intro hp
      simp only [hp, ↓reduceIte]
      omega

/-- a forced completion keeps the property of the states of the last column -/
theorem advanceP_psb {pc : PCfg} {t s : PSt} (cs : Bool) (ht : PSB pc t) (hcut : cutP .acyclic t = false)
    (hsok : Item.ok pc.c t.item.origin s.item) (hdot : s.item.dotNT? = some t.item.lhs)
    (hskid : if t.item.origin = pc.L then s.kids ∈ KB pc (lrP pc.c pc.L s) else s.kids ∈ atoms pc) :
    PSB pc (advanceP cs .acyclic pc.L t s) := by
  have htok := ht.ok
  obtain ⟨a, r, hsym⟩ := dotNT?_sym?' hdot
  have hcy : (t.item.lhs, t.fin) ∉ t.cov := by
    unfold cutP at hcut
    simpa using hcut
  obtain ⟨hrt, hrs⟩ := rankP_advance (c := pc.c) (L := pc.L) (t := t) (s := s) cs htok hsok hcy
  obtain ⟨n, hn⟩ : ∃ n, lrP pc.c pc.L (advanceP cs .acyclic pc.L t s) = n + 1 :=
    ⟨lrP pc.c pc.L (advanceP cs .acyclic pc.L t s) - 1, by omega⟩
  have hT : t.kids ∈ KB pc n := KB_mono ht.kid (by omega)
  have hS : s.kids ∈ KB pc n := by
    by_cases hp : t.item.origin = pc.L
    · rw [if_pos hp] at hskid
      exact KB_mono hskid (by have := hrs hp; omega)
    · rw [if_neg hp] at hskid
      exact KB_atoms hskid n
  refine ⟨?_, ?_⟩
  · have : (advanceP cs .acyclic pc.L t s).item = s.item.next := rfl
    rw [this]
    exact ok_next hsok hsym htok.2.2
  · rw [hn]
    have hk : (advanceP cs .acyclic pc.L t s).kids =
        if t.item.lhs.explicit then s.kids ++ [PT.node t.item.lhs a r t.kids] else s.kids ++ t.kids := by
      unfold advanceP
      simp only [hsym]
    rw [hk]
    split
    · exact KB_node (p := (a, r)) hS hT (mem_ntList htok) (mem_paramList' hsok hsym)
    · exact KB_app hS hT

/-! ### the invariant -/

/-- the chart in the end-of-input phase -/
structure ChartB (pc : PCfg) (cols : List Col) (last ldots : List PSt) : Prop where
  len : cols.length = pc.c.ncols
  pos : 0 < pc.c.ncols
  old : ∀ j s, j < pc.L → s ∈ (colAt cols j).dots → Item.ok pc.c j s.item ∧ s.kids ∈ atoms0 pc
  oldLen : ∀ j, j < pc.L → (colAt cols j).dots.length ≤ 2 * chartBound pc.c
  lastOk : ∀ s, s ∈ last → PSB pc s
  dotsOk : ∀ s, s ∈ ldots → PSB pc s
  nd : (last.map keyP).Pairwise (· ≠ ·)
  dlen : ldots.length ≤ last.length

structure InvB (pc : PCfg) (pm : PM) : Prop where
  ph : pm.phaseB = true
  ch : ChartB pc pm.m.cols pm.last pm.ldots
  fr : ∀ t j, pm.frame = some (t, j) → PSB pc t ∧ cutP .acyclic t = false

theorem psb_top {pc : PCfg} {s : PSt} (h : PSB pc s) (hpos : 0 < pc.c.ncols) :
    s.item ∈ pc.c.U ∧ s.kids ∈ KB pc (RRP pc.c) := by
  have hL : pc.L < pc.c.ncols := by unfold PCfg.L; omega
  exact ⟨ok_mem_U h.ok (by omega), KB_mono h.kid (Nat.le_of_lt (lrP_lt h.ok hL))⟩

/-- **the last column is bounded** -/
theorem lastLen_le {pc : PCfg} {cols : List Col} {last ldots : List PSt} (h : ChartB pc cols last ldots) :
    last.length ≤ capP pc :=
  length_le_capP last h.nd (fun s hs => psb_top (h.lastOk s hs) h.pos)

/-! ### admission to the last column -/

theorem addLast_cases (p : Policy) (pm : PM) (s : PSt) :
    addLast p pm s = pm ∨
    (pm.last.any (fun x => PSt.dup p x s) = false ∧
      ((addLast p pm s) = { pm with last := pm.last ++ [s], ldots := pm.ldots ++ [s] }
        ∨ (addLast p pm s) = { pm with last := pm.last ++ [s] })) := by
  unfold addLast
  split
  · exact Or.inl rfl
  · rename_i h
    right
    refine ⟨by simpa using h, ?_⟩
    split
    · exact Or.inl rfl
    · exact Or.inr rfl

theorem chartB_add {pc : PCfg} {cols : List Col} {last ldots : List PSt} {s : PSt}
    (h : ChartB pc cols last ldots) (hs : PSB pc s) (hnd : last.any (fun x => PSt.dup .acyclic x s) = false) :
    ChartB pc cols (last ++ [s]) (ldots ++ [s]) ∧ ChartB pc cols (last ++ [s]) ldots := by
  have hnd' : ((last ++ [s]).map keyP).Pairwise (· ≠ ·) := by
    rw [List.map_append, List.pairwise_append]
    refine ⟨h.nd, by simp, ?_⟩
    intro a ha b hb
    simp only [List.map_cons, List.map_nil, List.mem_singleton] at hb
    subst hb
    obtain ⟨x, hx, rfl⟩ := List.mem_map.1 ha
    apply keyP_ne_of_not_dup
    cases hd : PSt.dup .acyclic x s with
    | false => rfl
    | true =>
      have : last.any (fun x => PSt.dup .acyclic x s) = true := List.any_eq_true.2 ⟨x, hx, hd⟩
      rw [hnd] at this; cases this
  have hl : ∀ x, x ∈ last ++ [s] → PSB pc x := by
    intro x hx
    simp only [List.mem_append, List.mem_singleton] at hx
    rcases hx with hx | hx
    · exact h.lastOk x hx
    · rw [hx]; exact hs
  constructor
  · refine ⟨h.len, h.pos, h.old, h.oldLen, hl, ?_, hnd', by simp; exact h.dlen⟩
    intro x hx
    simp only [List.mem_append, List.mem_singleton] at hx
    rcases hx with hx | hx
    · exact h.dotsOk x hx
    · rw [hx]; exact hs
  · exact ⟨h.len, h.pos, h.old, h.oldLen, hl, h.dotsOk, hnd', by simp; have := h.dlen; omega⟩

/-- what `complete` reads in the origin column of the completed state -/
theorem listOf_mem {pc : PCfg} {pm : PM} {t s : PSt} (hi : ChartB pc pm.m.cols pm.last pm.ldots)
    (ht : PSB pc t) (hs : s ∈ listOf pm pc.L t) :
    Item.ok pc.c t.item.origin s.item ∧ s.item.dotNT? = some t.item.lhs ∧
    (if t.item.origin = pc.L then s.kids ∈ KB pc (lrP pc.c pc.L s) else s.kids ∈ atoms pc) := by
  unfold listOf at hs
  by_cases hp : t.item.origin = pc.L
  · rw [if_pos hp] at hs
    have hm := List.mem_filter.1 hs
    have hps := hi.dotsOk s hm.1
    refine ⟨by rw [hp]; exact hps.ok, by simpa using hm.2, ?_⟩
    rw [if_pos hp]; exact hps.kid
  · rw [if_neg hp] at hs
    obtain ⟨s0, hs0, rfl⟩ := List.mem_map.1 hs
    have hlt : t.item.origin < pc.L := by have := ht.ok.2.2; omega
    have hd : s0 ∈ (colAt pm.m.cols t.item.origin).dots := mem_findDot hs0
    have ho := hi.old _ _ hlt hd
    have hdot : s0.item.dotNT? = some t.item.lhs := by
      unfold Col.findDot at hs0
      have := (List.mem_filter.1 hs0).2
      simpa using this
    refine ⟨ho.1, hdot, ?_⟩
    rw [if_neg hp]
    exact atoms_of_atoms0 ho.2

/-- **one step of the end-of-input phase keeps the invariant** -/
theorem stepB_inv {pc : PCfg} (hp : pc.c.policy = .acyclic) {pm pm' : PM} (hi : InvB pc pm)
    (h : stepB pc pm = .next pm') : InvB pc pm' := by
  unfold stepB at h
  simp only at h
  split at h
  · -- an active `complete`
    rename_i t j hfr
    obtain ⟨htps, htcut⟩ := hi.fr t j hfr
    split at h
    · cases h
      exact ⟨hi.ph, hi.ch, by intro t' j' hh; cases hh⟩
    · rename_i s hsome
      have hfr' : ∀ t' j', some (t, j + 1) = some (t', j') → PSB pc t' ∧ cutP .acyclic t' = false := by
        intro t' j' hh
        simp only [Option.some.injEq, Prod.mk.injEq] at hh
        rw [← hh.1]; exact ⟨htps, htcut⟩
      split at h
      · -- `if s.cut_short: continue`
        cases h
        exact ⟨hi.ph, hi.ch, hfr'⟩
      cases h
      have hsmem : s ∈ listOf pm pc.L t := List.mem_of_getElem? hsome
      obtain ⟨hsok, hdot, hskid⟩ := listOf_mem hi.ch htps hsmem
      have hnew := advanceP_psb pc.cutShort htps htcut hsok hdot hskid
      rw [hp]
      rcases addLast_cases .acyclic pm (advanceP pc.cutShort .acyclic pc.L t s) with he | ⟨hnd, he | he⟩
      · rw [he]
        refine ⟨hi.ph, hi.ch, ?_⟩
        intro t' j' hh
        simp only [Option.some.injEq, Prod.mk.injEq] at hh
        rw [← hh.1]; exact ⟨htps, htcut⟩
      · rw [he]
        refine ⟨hi.ph, (chartB_add hi.ch hnew hnd).1, ?_⟩
        intro t' j' hh
        simp only [Option.some.injEq, Prod.mk.injEq] at hh
        rw [← hh.1]; exact ⟨htps, htcut⟩
      · rw [he]
        refine ⟨hi.ph, (chartB_add hi.ch hnew hnd).2, ?_⟩
        intro t' j' hh
        simp only [Option.some.injEq, Prod.mk.injEq] at hh
        rw [← hh.1]; exact ⟨htps, htcut⟩
  · rename_i hfr
    split at h
    · cases h
    · rename_i s hsome
      have hsmem : s ∈ pm.last := List.mem_of_getElem? hsome
      split at h
      · cases h
        exact ⟨hi.ph, hi.ch, by intro t' j' hh; simp [hfr] at hh⟩
      · cases h
        refine ⟨hi.ph, hi.ch, ?_⟩
        intro t' j' hh
        simp only at hh
        split at hh
        · cases hh
        · rename_i hcy
          simp only [Option.some.injEq, Prod.mk.injEq] at hh
          rw [← hh.1]
          refine ⟨hi.ch.lastOk s hsmem, ?_⟩
          rw [hp] at hcy
          simpa using hcy

end FV.Earley
