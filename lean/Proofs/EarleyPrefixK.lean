/-
C06, prefix mode — part 1: the finite space of children lists of the end-of-input phase.

`atoms pc` is a finite list that holds the children of every state the chart holds when the end-of-input phase
begins: `K c (base c c.ncols)` (`Proofs/EarleyBoundK.lean`: everything phase A builds) and those lists extended by
one partial leaf (the incomplete states).  `KB pc n`: `n` rounds of the ways a forced completion builds children
(`a ++ b`, `a ++ [node x p b]`) on top of the atoms.  `lrP c L s` is the rank of a state of the last column `L`:
(`L - origin`, number of derivations `(nonterminal of the table, finished?)` in its covering set, dot),
lexicographically, `< RRP c`.
-/
import Proofs.EarleyBound
import Model.EarleyPrefix
namespace FV.Earley

/-! ### partial leaves and atoms -/

/-- every leaf a partial scan inside the table can build -/
def ileafList (pc : PCfg) : List Leaf :=
  (termList pc.c).flatMap (fun t => (List.range pc.c.ncols).filterMap (fun k => (pc.iscan t k).map (·.2)))

theorem mem_ileafList {pc : PCfg} {j k e : Nat} {it : Item} {term : Term} {l : Leaf} (h : Item.ok pc.c j it)
    (hs : it.sym? = some (.t term)) (hk : k < pc.c.ncols) (hscan : pc.iscan term k = some (e, l)) :
    l ∈ ileafList pc := by
  unfold ileafList termList
  simp only [List.mem_flatMap, List.mem_filterMap, List.mem_range]
  refine ⟨term, ⟨(it.lhs, it.rhs), h.1, .t term, sym?_mem hs, rfl⟩, k, hk, ?_⟩
  rw [hscan]; rfl

/-- children lists of the chart of phase A -/
def atoms0 (pc : PCfg) : List (List PT) := K pc.c (base pc.c pc.c.ncols)

/-- … and of the incomplete states -/
def atoms (pc : PCfg) : List (List PT) :=
  atoms0 pc ++ (atoms0 pc).flatMap (fun a => (ileafList pc).map (fun l => a ++ [PT.leaf l]))

theorem atoms_of_atoms0 {pc : PCfg} {a : List PT} (h : a ∈ atoms0 pc) : a ∈ atoms pc := by
  unfold atoms; simp [h]

theorem atoms_leaf {pc : PCfg} {a : List PT} {l : Leaf} (h : a ∈ atoms0 pc) (hl : l ∈ ileafList pc) :
    a ++ [PT.leaf l] ∈ atoms pc := by
  unfold atoms
  simp only [List.mem_append, List.mem_flatMap, List.mem_map]
  exact Or.inr ⟨a, h, l, hl, rfl⟩

/-- the children of a state of a column being built are atoms -/
theorem ps_atoms0 {pc : PCfg} {k j : Nat} {s : St} (h : PS pc.c k j s) (hj : j < pc.c.ncols)
    (hk : k ≤ pc.c.ncols) : s.kids ∈ atoms0 pc := by
  unfold atoms0
  by_cases hkj : k ≤ j
  · apply K_mono (ps_top h hkj hj)
    exact Nat.le_trans (base_succ_ge pc.c j) (base_mono pc.c (by omega))
  · have := h.kid
    rw [lvl_old s (by omega)] at this
    exact K_mono this (base_mono pc.c hk)

/-! ### levels -/

def KB (pc : PCfg) : Nat → List (List PT)
  | 0 => atoms pc
  | n + 1 => KB pc n ++ ops pc.c (KB pc n)

theorem KB_succ_of_mem {pc : PCfg} {n : Nat} {a : List PT} (h : a ∈ KB pc n) : a ∈ KB pc (n + 1) := by
  simp only [KB, List.mem_append]; exact Or.inl h

theorem KB_mono {pc : PCfg} {n m : Nat} {a : List PT} (h : a ∈ KB pc n) (hnm : n ≤ m) : a ∈ KB pc m := by
  induction m with
  | zero => have : n = 0 := by omega
            subst this; exact h
  | succ m ih =>
    by_cases hn : n = m + 1
    · subst hn; exact h
    · exact KB_succ_of_mem (ih (by omega))

theorem KB_atoms {pc : PCfg} {a : List PT} (h : a ∈ atoms pc) (n : Nat) : a ∈ KB pc n :=
  KB_mono (n := 0) h (Nat.zero_le _)

theorem KB_app {pc : PCfg} {n : Nat} {a b : List PT} (ha : a ∈ KB pc n) (hb : b ∈ KB pc n) :
    a ++ b ∈ KB pc (n + 1) := by
  simp only [KB, ops, List.mem_append, List.mem_flatMap, List.mem_cons]
  exact Or.inr (Or.inl ⟨a, ha, b, hb, Or.inl rfl⟩)

theorem KB_node {pc : PCfg} {n : Nat} {a b : List PT} {x : NT} {p : Option String × Option String}
    (ha : a ∈ KB pc n) (hb : b ∈ KB pc n) (hx : x ∈ ntList pc.c) (hp : p ∈ paramList pc.c) :
    a ++ [PT.node x p.1 p.2 b] ∈ KB pc (n + 1) := by
  simp only [KB, ops, List.mem_append, List.mem_flatMap, List.mem_cons, List.mem_map]
  exact Or.inr (Or.inl ⟨a, ha, b, hb, Or.inr ⟨x, hx, p, hp, rfl⟩⟩)

/-! ### rank of a state of the last column -/

/-- the derivations `(nonterminal of the table, finished?)` -/
def derList (c : Cfg) : List (NT × Bool) := (ntList c).flatMap (fun x => [(x, true), (x, false)])

theorem mem_derList {c : Cfg} {x : NT} (h : x ∈ ntList c) (b : Bool) : (x, b) ∈ derList c := by
  unfold derList
  simp only [List.mem_flatMap, List.mem_cons, Prod.mk.injEq, List.mem_nil_iff, or_false]
  refine ⟨x, h, ?_⟩
  cases b <;> simp

theorem derList_length (c : Cfg) : (derList c).length = 2 * NN c := by
  unfold derList NN
  rw [length_flatMap_const _ _ 2 (by intro a _; rfl)]
  omega

/-- how many derivations of the table a covering set holds -/
def covP (c : Cfg) (l : List (NT × Bool)) : Nat := ((derList c).filter (fun d => l.contains d)).length

theorem covP_le (c : Cfg) (l : List (NT × Bool)) : covP c l ≤ 2 * NN c := by
  rw [← derList_length]; exact List.length_filter_le _ _

theorem covP_mono (c : Cfg) {l1 l2 : List (NT × Bool)} (h : ∀ x, x ∈ l1 → x ∈ l2) : covP c l1 ≤ covP c l2 := by
  unfold covP
  apply filter_length_mono
  intro u _ hu
  simp only [List.contains_eq_mem, decide_eq_true_eq] at hu ⊢
  exact h u hu

theorem covP_strict (c : Cfg) {l1 l2 : List (NT × Bool)} (h : ∀ x, x ∈ l1 → x ∈ l2) (d0 : NT × Bool)
    (h0 : d0 ∈ derList c) (h1 : d0 ∉ l1) (h2 : d0 ∈ l2) : covP c l1 < covP c l2 := by
  unfold covP
  apply filter_length_strict _ _ _ _ d0 h0
  · simpa using h2
  · simpa using h1
  · intro u _ hu
    simp only [List.contains_eq_mem, decide_eq_true_eq] at hu ⊢
    exact h u hu

/-- rank of a state of the last column `L` in the end-of-input phase -/
def lrP (c : Cfg) (L : Nat) (s : PSt) : Nat :=
  ((L - s.item.origin) * (2 * NN c + 1) + covP c s.cov) * (DD c + 1) + s.item.dot

def RRP (c : Cfg) : Nat := c.ncols * (2 * NN c + 1) * (DD c + 1)

theorem lrP_lt {c : Cfg} {L : Nat} {s : PSt} (h : Item.ok c L s.item) (hL : L < c.ncols) : lrP c L s < RRP c := by
  unfold lrP RRP
  apply enc_lt
  · have := covP_le c s.cov; omega
  · have := ok_dot_le h; omega
  · omega

/-! ### the key space of the last column -/

/-- what tells two states of the last column apart: the admission test compares item and children; an incomplete
    state and an ordinary one may share both -/
def keyP (s : PSt) : Item × List PT × Bool := (s.item, s.kids, s.inc)

theorem keyP_ne_of_not_dup {a b : PSt} (h : PSt.dup .acyclic a b = false) : keyP a ≠ keyP b := by
  intro he
  unfold keyP at he
  simp only [Prod.mk.injEq] at he
  unfold PSt.dup at h
  simp only [he.1, decide_true, Bool.true_and] at h
  rw [he.2.1, PT.beqL_refl] at h
  cases h

def keySpaceP (pc : PCfg) (n : Nat) : List (Item × List PT × Bool) :=
  pc.c.U.flatMap (fun it => (KB pc n).flatMap (fun ks => [(it, ks, true), (it, ks, false)]))

/-- capacity of the last column in the end-of-input phase -/
def capP (pc : PCfg) : Nat := pc.c.U.length * ((KB pc (RRP pc.c)).length * 2)

theorem keySpaceP_length (pc : PCfg) : (keySpaceP pc (RRP pc.c)).length = capP pc := by
  unfold keySpaceP capP
  apply length_flatMap_const
  intro a _
  exact length_flatMap_const _ _ 2 (by intro b _; rfl)

theorem mem_keySpaceP {pc : PCfg} {n : Nat} {s : PSt} (h1 : s.item ∈ pc.c.U) (h2 : s.kids ∈ KB pc n) :
    keyP s ∈ keySpaceP pc n := by
  unfold keySpaceP keyP
  simp only [List.mem_flatMap, List.mem_cons, Prod.mk.injEq, List.mem_nil_iff, or_false]
  refine ⟨s.item, h1, s.kids, h2, ?_⟩
  cases s.inc <;> simp

/-- a list of states with pairwise different keys in the key space -/
theorem length_le_capP {pc : PCfg} (l : List PSt) (hp : (l.map keyP).Pairwise (· ≠ ·))
    (hk : ∀ s ∈ l, s.item ∈ pc.c.U ∧ s.kids ∈ KB pc (RRP pc.c)) : l.length ≤ capP pc := by
  rw [← keySpaceP_length]
  have h2 : ∀ a ∈ l.map keyP, a ∈ keySpaceP pc (RRP pc.c) := by
    intro a ha
    obtain ⟨s, hs, rfl⟩ := List.mem_map.1 ha
    exact mem_keySpaceP (hk s hs).1 (hk s hs).2
  have := length_le_of_pairwise_ne _ _ hp h2
  simpa using this

end FV.Earley
