/-
C04 carried over to prefix mode: chart-level soundness of the prefix-mode machine (`Model/EarleyPrefix.lean`).

`PreL rules scan iscan rhs ks i j` — "the parser-tree list `ks` is what the parser builds for a *prefix of an
expansion* of the symbol sequence `rhs` over the columns `i … j`": like `DerL` (`Proofs/C04Defs.lean`), plus
`stop` (the rest of the sequence is not reached) and `pterm` (the last child is the partial leaf of an incomplete
terminal match).  A child node is itself derived by `PreL` over one of its rules: every inner node's children are a
prefix of an expansion of one of its rules.  NOTE that this is weaker than "a prefix of a derivation" (only the
rightmost path cut short), and deliberately so: the real parser does yield partial trees in which a node that was cut
short is followed by a sibling (`<start> ::= <b> <c> | "x" <c> "z"; <b> ::= "x" "y"; <c> ::= "" "q"` on "x" yields
`<start>(<b>("x"), <c>(""))`: a state advanced over the unfinished `<b>` is advanced again, by a state of the last
column that starts there) — `findings/OBS-C04-prefix-sibling-after-unfinished`, theorem
`C04_prefix_rightmost_path_only_is_false_witness`; the stronger statement is false of the code WITHOUT
`ParseState.cut_short` (`PCfg.cutShort = false`).  For the source with it the strong form `PreS` is proved in
`Proofs/EarleyPrefixStrong.lean`; this file holds for both values (the skipped iterations of `complete` add nothing).

`GoodP` is the chart invariant of `Proofs/C04Chart.lean` in the same continuation form with `PreL` in place of `DerL`
(the proofs are those of `C04Chart`, line by line; no finishedness is needed any more: a state completed early is
still a prefix).  Phase B: every state of the last column satisfies the direct form `DerP` (its children are a `PreL`
derivation of its whole rule from its origin to the last column), every state `complete` may advance the continuation
form.  `prefix_chart_sound`: every tree the machine yields — complete (first loop) or partial (end-of-input phase) —
is the node of the start symbol over a `PreL` derivation of one of its rules spanning all columns.
-/
import Proofs.C04Chart
import Proofs.C04Compile
import Proofs.C04Collapse
import Proofs.EarleyPrefixTerm
namespace FV.Earley

inductive PreL (rules : List CRule) (scan iscan : Scan) : List ESym → List PT → Nat → Nat → Prop
  | stop (rhs : List ESym) (i : Nat) : PreL rules scan iscan rhs [] i i
  | term {t : Term} {i m j : Nat} {l : Leaf} {ss : List ESym} {ks : List PT} :
      scan t i = some (m, l) → PreL rules scan iscan ss ks m j →
      PreL rules scan iscan (.t t :: ss) (.leaf l :: ks) i j
  | pterm {t : Term} {i j : Nat} {l : Leaf} {ss : List ESym} :
      iscan t i = some (j, l) → PreL rules scan iscan (.t t :: ss) [.leaf l] i j
  | expl {x : NT} {a r : Option String} {rhs : List ESym} {kids : List PT} {ss : List ESym}
      {ks : List PT} {i m j : Nat} :
      x.explicit = true → (x, rhs) ∈ rules → PreL rules scan iscan rhs kids i m → PreL rules scan iscan ss ks m j →
      PreL rules scan iscan (.n x a r :: ss) (.node x a r kids :: ks) i j
  | impl {x : NT} {a r : Option String} {rhs : List ESym} {k1 : List PT} {ss : List ESym}
      {k2 : List PT} {i m j : Nat} :
      x.explicit = false → (x, rhs) ∈ rules → PreL rules scan iscan rhs k1 i m → PreL rules scan iscan ss k2 m j →
      PreL rules scan iscan (.n x a r :: ss) (k1 ++ k2) i j

/-- a complete derivation is a prefix of itself -/
theorem preL_of_derL {rules : List CRule} {scan iscan : Scan} {rhs : List ESym} {ks : List PT} {i j : Nat}
    (h : DerL rules scan rhs ks i j) : PreL rules scan iscan rhs ks i j := by
  induction h with
  | nil i => exact PreL.stop [] i
  | term hs _ ih => exact PreL.term hs ih
  | expl he hr _ _ ih1 ih2 => exact PreL.expl he hr ih1 ih2
  | impl he hr _ _ ih1 ih2 => exact PreL.impl he hr ih1 ih2

abbrev PCfg.P (pc : PCfg) : List ESym → List PT → Nat → Nat → Prop := PreL pc.c.rules' pc.c.scan pc.iscan

/-- continuation form: whatever continues the rest of the right-hand side from column `k` on (as far as it gets)
    continues the whole rule from the origin -/
def GoodIK (pc : PCfg) (it : Item) (kids : List PT) (k : Nat) : Prop :=
  (it.lhs, it.rhs) ∈ pc.c.rules' ∧
  (it.lhs = .start → it.origin = 0) ∧
  ∀ j ks, pc.P (it.rhs.drop it.dot) ks k j → pc.P it.rhs (kids ++ ks) it.origin j

/-- direct form: the children are a prefix of an expansion of the rule, from the origin to column `k` -/
def DerIK (pc : PCfg) (it : Item) (kids : List PT) (k : Nat) : Prop :=
  (it.lhs, it.rhs) ∈ pc.c.rules' ∧ (it.lhs = .start → it.origin = 0) ∧ pc.P it.rhs kids it.origin k

def GoodP (pc : PCfg) (s : St) (k : Nat) : Prop := GoodIK pc s.item s.kids k

theorem der_of_good {pc : PCfg} {it : Item} {kids : List PT} {k : Nat} (h : GoodIK pc it kids k) :
    DerIK pc it kids k := by
  refine ⟨h.1, h.2.1, ?_⟩
  have := h.2.2 k [] (PreL.stop _ k)
  simpa using this

def GoodPCols (pc : PCfg) (cols : List Col) : Prop :=
  (∀ j s, s ∈ (colAt cols j).states → GoodP pc s j) ∧ (∀ j s, s ∈ (colAt cols j).dots → GoodP pc s j)

/-- a yielded parser tree: the node of the requested start symbol over a prefix of an expansion of one of its rules,
    spanning all columns -/
def TopOkP (pc : PCfg) (pt : PT) : Prop :=
  ∃ kids rhs, pt = PT.node (.user pc.c.start) none none kids ∧ (NT.user pc.c.start, rhs) ∈ pc.c.rules ∧
    pc.P rhs kids 0 (pc.c.ncols - 1)

/-- the chart invariant of the embedded machine -/
structure SInv (pc : PCfg) (m : M) : Prop where
  states : ∀ j s, s ∈ (colAt m.cols j).states → GoodP pc s j
  dots : ∀ j s, s ∈ (colAt m.cols j).dots → GoodP pc s j
  frame : ∀ t i, m.frame = some (t, i) → GoodP pc t m.k
  pend : ∀ t, t ∈ m.pending → GoodP pc t m.k
  out : ∀ pt, pt ∈ m.out → TopOkP pc pt

/-! ### helpers (as in `Proofs/C04Chart.lean`) -/

theorem goodP_congr {pc : PCfg} {s s' : St} {k : Nat} (hi : s'.item = s.item) (hk : s'.kids = s.kids)
    (hg : GoodP pc s k) : GoodP pc s' k := by
  unfold GoodP at hg ⊢
  rw [hi, hk]; exact hg

theorem goodPCols_addAt {pc : PCfg} {cols : List Col} (p : Policy) (e : Nat) (s : St)
    (hg : GoodPCols pc cols) (hs : GoodP pc s e) : GoodPCols pc (addAt p cols e s) := by
  constructor
  · intro j x hx
    rw [colAt_addAt] at hx
    split at hx
    · rename_i hje
      rcases Col.add_states_mem hx with h | h
      · rw [hje.1]; exact hg.1 _ _ h
      · rw [h, hje.1]; exact hs
    · exact hg.1 _ _ hx
  · intro j x hx
    rw [colAt_addAt] at hx
    split at hx
    · rename_i hje
      rcases Col.add_dots_mem hx with h | h
      · rw [hje.1]; exact hg.2 _ _ h
      · rw [h, hje.1]; exact hs
    · exact hg.2 _ _ hx

theorem goodIK_next {pc : PCfg} {it : Item} {kids : List PT} {k e : Nat} {y : ESym} {X : List PT}
    (hg : GoodIK pc it kids k) (hy : it.sym? = some y)
    (hstep : ∀ j ks, pc.P (it.rhs.drop (it.dot + 1)) ks e j → pc.P (y :: it.rhs.drop (it.dot + 1)) (X ++ ks) k j) :
    GoodIK pc it.next (kids ++ X) e := by
  refine ⟨hg.1, hg.2.1, ?_⟩
  intro j ks hd
  have h1 := hg.2.2 j (X ++ ks) (by rw [drop_of_sym hy]; exact hstep j ks hd)
  simp only [Item.next, List.append_assoc]
  exact h1

theorem goodP_next {pc : PCfg} {s : St} {k e : Nat} {y : ESym} {X : List PT} {cov : Option (Nat × List NT)}
    (hg : GoodP pc s k) (hy : s.item.sym? = some y)
    (hstep : ∀ j ks, pc.P (s.item.rhs.drop (s.item.dot + 1)) ks e j →
      pc.P (y :: s.item.rhs.drop (s.item.dot + 1)) (X ++ ks) k j) :
    GoodP pc { item := s.item.next, kids := s.kids ++ X, cover := cov } e :=
  goodIK_next hg hy hstep

theorem goodIK_sym_ne_start {pc : PCfg} (hs : SaneS pc.c) {it : Item} {kids : List PT} {k : Nat} {x : NT}
    {a r : Option String} (hg : GoodIK pc it kids k) (hy : it.sym? = some (.n x a r)) : x ≠ .start := by
  intro hx
  subst hx
  unfold Item.sym? at hy
  have hmem : ESym.n .start a r ∈ it.rhs := List.mem_of_getElem? hy
  have h1 := hg.1
  unfold Cfg.rules' at h1
  rcases List.mem_cons.1 h1 with h | h
  · have h2 : it.rhs = [ESym.plain (.user pc.c.start)] := (Prod.mk.inj h).2
    rw [h2] at hmem
    simp [ESym.plain] at hmem
  · exact hs.start_fresh _ _ a r h hmem

theorem goodPCols_replicate (pc : PCfg) (n : Nat) : GoodPCols pc (List.replicate n {}) := by
  constructor <;> intro j s h <;> rw [colAt_replicate] at h <;> cases h

theorem goodP_start (pc : PCfg) : GoodP pc { item := startItem pc.c.start, kids := [] } 0 := by
  refine ⟨?_, fun _ => rfl, ?_⟩
  · unfold Cfg.rules' startItem; simp
  · intro j ks hd
    simpa [startItem] using hd

theorem sinv_init (pc : PCfg) : SInv pc (M.init pc.c) := by
  have hg : GoodPCols pc (M.init pc.c).cols :=
    goodPCols_addAt pc.c.policy 0 _ (goodPCols_replicate pc pc.c.ncols) (goodP_start pc)
  exact ⟨hg.1, hg.2, (by intro t i h; cases h), (by intro t h; cases h), (by intro pt h; cases h)⟩

theorem goodPCols_pred {pc : PCfg} {k : Nat} {x : NT} (hx : x ≠ .start) (alts : List (List ESym))
    (hal : ∀ rhs, rhs ∈ alts → (x, rhs) ∈ pc.c.rules) :
    ∀ cols : List Col, GoodPCols pc cols →
      GoodPCols pc (alts.foldl (fun cs rhs => addAt pc.c.policy cs k
        { item := { lhs := x, rhs := rhs, dot := 0, origin := k }, kids := [] }) cols) := by
  induction alts with
  | nil => intro cols hg; exact hg
  | cons rhs rest ih =>
    intro cols hg
    simp only [List.foldl_cons]
    apply ih (fun r hr => hal r (by simp [hr]))
    apply goodPCols_addAt _ _ _ hg
    refine ⟨rules_sub (hal rhs (by simp)), fun h => absurd h hx, ?_⟩
    intro j ks hd
    simpa using hd

/-- what the completed (finished or not) item `t` contributes to the state it advances -/
theorem completed_step {pc : PCfg} {tit : Item} {tkids : List PT} {k : Nat} (ht : DerIK pc tit tkids k)
    {rest : List ESym} {a r : Option String} :
    ∀ j ks, pc.P rest ks k j →
      pc.P (.n tit.lhs a r :: rest)
        ((if tit.lhs.explicit then [PT.node tit.lhs a r tkids] else tkids) ++ ks) tit.origin j := by
  intro j ks hd
  cases hx : tit.lhs.explicit with
  | true =>
    simp only [if_true]
    exact PreL.expl hx ht.1 ht.2.2 hd
  | false =>
    simp only [Bool.false_eq_true, if_false]
    exact PreL.impl hx ht.1 ht.2.2 hd

theorem advance_goodP {pc : PCfg} {p : Policy} {k : Nat} {t s s' : St}
    (ht : GoodP pc t k) (hsg : GoodP pc s t.item.origin)
    (hdot : s.item.dotNT? = some t.item.lhs) (h : advance p k t s = some s') : GoodP pc s' k := by
  obtain ⟨a, r, hy⟩ := dotNT?_n hdot
  obtain ⟨h1, h2⟩ := advance_shape hy h
  exact goodP_congr h1 h2 (goodP_next (cov := none) hsg hy (completed_step (der_of_good ht)))

/-! ### the yielded trees -/

theorem preL_nil_inv {rules : List CRule} {scan iscan : Scan} {ks : List PT} {i j : Nat}
    (h : PreL rules scan iscan [] ks i j) : ks = [] ∧ i = j := by
  cases h
  exact ⟨rfl, rfl⟩

theorem preL_single_expl {rules : List CRule} {scan iscan : Scan} {x : NT} {a r : Option String}
    {ks : List PT} {i j : Nat} (hx : x.explicit = true) (h : PreL rules scan iscan [.n x a r] ks i j) :
    ks = [] ∨ ∃ kids rhs, ks = [PT.node x a r kids] ∧ (x, rhs) ∈ rules ∧ PreL rules scan iscan rhs kids i j := by
  cases h with
  | stop => exact Or.inl rfl
  | expl h1 h2 h3 h4 =>
    obtain ⟨e1, e2⟩ := preL_nil_inv h4
    subst e1 e2
    exact Or.inr ⟨_, _, rfl, h2, h3⟩
  | impl h1 h2 h3 h4 =>
    rw [hx] at h1; cases h1

/-- the children of a `<*start*>` item of the last column are yielded trees -/
theorem top_of_der {pc : PCfg} (hs : SaneS pc.c) {it : Item} {kids : List PT} {k : Nat} (hg : DerIK pc it kids k)
    (hst : it.lhs = .start) (hk : k + 1 = pc.c.ncols) : ∀ pt, pt ∈ kids → TopOkP pc pt := by
  have hD := hg.2.2
  have ho := hg.2.1 hst
  have hrhs : it.rhs = [ESym.plain (.user pc.c.start)] := by
    have h1 := hg.1
    unfold Cfg.rules' at h1
    rcases List.mem_cons.1 h1 with h | h
    · exact (Prod.mk.inj h).2
    · rw [hst] at h; exact absurd h (hs.start_no_rule _)
  rw [hrhs, ho] at hD
  intro pt hpt
  rcases preL_single_expl (x := .user pc.c.start) (a := none) (r := none) rfl hD with hk0 | ⟨kids', rhs, hk1, hk2, hk3⟩
  · rw [hk0] at hpt; cases hpt
  · rw [hk1] at hpt
    simp only [List.mem_singleton] at hpt
    refine ⟨kids', rhs, hpt, ?_, ?_⟩
    · unfold Cfg.rules' at hk2
      rcases List.mem_cons.1 hk2 with h | h
      · cases h
      · exact h
    · have : pc.c.ncols - 1 = k := by omega
      rw [this]; exact hk3

/-! ### `place_repetition_shortcut` -/

theorem walk_goodP {pc : PCfg} (hs : SaneS pc.c) {cols : List Col} (hg : GoodPCols pc cols) {x : NT}
    (hx : LoopNT pc.c.rules x) {k : Nat} :
    ∀ (fuel : Nat) (new o res : St), GoodP pc new k → new.item.lhs = x → new.item.dotNT? = some x →
      GoodP pc o new.item.origin → o.item.dotNT? = some x →
      shortcutWalk cols x fuel new o = some res → GoodP pc res k := by
  intro fuel
  induction fuel with
  | zero => intro new o res _ _ _ _ _ h; simp [shortcutWalk] at h
  | succ f ih =>
    intro new o res hnew hnl hnd ho hod h
    unfold shortcutWalk at h
    split at h
    · cases h; exact hnew
    · rename_i hnb
      have hxs := loop_ne_start hs hx
      obtain ⟨hximp, hshape⟩ := hs.loop_shape x hx
      obtain ⟨a, r, hoy⟩ := dotNT?_n hod
      obtain ⟨a2, r2, hny⟩ := dotNT?_n hnd
      have hol : o.item.lhs ≠ .start := by
        intro he
        have h1 := ho.1
        unfold Cfg.rules' at h1
        rcases List.mem_cons.1 h1 with h2 | h2
        · have h3 : o.item.rhs = [ESym.plain (.user pc.c.start)] := (Prod.mk.inj h2).2
          have hmem : ESym.n x a r ∈ o.item.rhs := by
            unfold Item.sym? at hoy; exact List.mem_of_getElem? hoy
          rw [h3] at hmem
          simp only [ESym.plain, List.mem_singleton, ESym.n.injEq] at hmem
          rw [hmem.1] at hximp
          simp [NT.explicit] at hximp
        · rw [he] at h2; exact hs.start_no_rule _ h2
      have hor := rules_of_ne_start ho.1 hol
      have hoy' : o.item.rhs[o.item.dot]? = some (ESym.n x a r) := hoy
      rcases hshape o.item.lhs o.item.rhs o.item.dot a r hor hoy' with hb | ⟨hlx, hlen, huniq⟩
      · exact absurd hb hnb
      · have hnr : (x, new.item.rhs) ∈ pc.c.rules := by
          have := hnew.1
          rw [hnl] at this
          exact rules_of_ne_start this hxs
        have hny' : new.item.rhs[new.item.dot]? = some (ESym.n x a2 r2) := hny
        have hrhs : new.item.rhs = o.item.rhs := huniq _ _ _ _ hnr hny'
        have hodrop : o.item.rhs.drop o.item.dot = [ESym.n x a r] := by
          rw [drop_of_sym hoy, List.drop_eq_nil_of_le (by omega)]
        have hnew' : GoodP pc ({ item := { new.item with origin := o.item.origin },
                                 kids := o.kids ++ new.kids } : St) k := by
          refine ⟨hnew.1, fun he => absurd (hnl.symm.trans he) hxs, ?_⟩
          intro j ks hd
          have D1 := hnew.2.2 j ks hd
          have hnr' : (x, new.item.rhs) ∈ pc.c.rules' := rules_sub hnr
          have D2 : pc.P [ESym.n x a r] ((new.kids ++ ks) ++ []) new.item.origin j :=
            PreL.impl hximp hnr' D1 (PreL.stop [] j)
          rw [← hodrop] at D2
          have D3 := ho.2.2 j _ D2
          simp only [List.append_nil] at D3
          simp only [List.append_assoc]
          rw [hrhs]
          exact D3
        simp only at h
        split at h
        · rename_i o' heq
          have hmem : o' ∈ (colAt cols o.item.origin).findDot x := by rw [heq]; simp
          have ho' : GoodP pc o' o.item.origin := hg.2 _ _ (mem_findDot hmem)
          exact ih _ o' res hnew' hnl hnd ho' (findDot_dotNT? hmem) h
        · cases h

theorem goodPCols_set_replace {pc : PCfg} {cols : List Col} {k : Nat} (cur new : St)
    (hg : GoodPCols pc cols) (hn : GoodP pc new k) :
    GoodPCols pc (cols.set k ((colAt cols k).replace cur new)) := by
  constructor
  · intro j s h
    rw [colAt_set] at h
    split at h
    · rename_i hjk
      rcases Col.replace_states_mem h with h | h
      · rw [hjk.1]; exact hg.1 _ _ h
      · rw [h, hjk.1]; exact hn
    · exact hg.1 _ _ h
  · intro j s h
    rw [colAt_set] at h
    split at h
    · rename_i hjk
      rcases Col.replace_dots_mem h with h | h
      · rw [hjk.1]; exact hg.2 _ _ h
      · rw [h, hjk.1]; exact hn
    · exact hg.2 _ _ h

theorem goodPCols_shortcutOne {pc : PCfg} (hs : SaneS pc.c) {cols : List Col} (hg : GoodPCols pc cols) {x : NT}
    (hx : LoopNT pc.c.rules x) (k : Nat) : GoodPCols pc (shortcutOne cols k x) := by
  unfold shortcutOne
  simp only
  split
  · exact hg
  · rename_i cur hfind
    have hcm : cur ∈ (colAt cols k).states := List.mem_of_find?_eq_some hfind
    have hcp := List.find?_some hfind
    simp only [Bool.and_eq_true, decide_eq_true_eq, beq_iff_eq] at hcp
    obtain ⟨⟨⟨hcl, _⟩, _⟩, hcd⟩ := hcp
    have hcg := hg.1 _ _ hcm
    split
    · rename_i o heq
      have hmem : o ∈ (colAt cols cur.item.origin).findDot x := by rw [heq]; simp
      have ho : GoodP pc o cur.item.origin := hg.2 _ _ (mem_findDot hmem)
      split
      · rename_i new hw
        have hn := walk_goodP hs hg hx _ cur o new hcg hcl hcd ho (findDot_dotNT? hmem) hw
        exact goodPCols_set_replace cur new hg hn
      · exact hg
    · exact hg

theorem goodPCols_shortcut_fold {pc : PCfg} (hs : SaneS pc.c) {k : Nat} (l : List NT)
    (hl : ∀ x, x ∈ l → LoopNT pc.c.rules x) :
    ∀ cols : List Col, GoodPCols pc cols → GoodPCols pc (l.foldl (fun cs x => shortcutOne cs k x) cols) := by
  induction l with
  | nil => intro cols hg; exact hg
  | cons x xs ih =>
    intro cols hg
    simp only [List.foldl_cons]
    exact ih (fun y hy => hl y (by simp [hy])) _ (goodPCols_shortcutOne hs hg (hl x (by simp)) k)

theorem loop_of_beginnerP {pc : PCfg} {col : Col} {k : Nat} (hg : ∀ s, s ∈ col.states → GoodP pc s k) {x : NT}
    (h : x ∈ beginnersOf col) : LoopNT pc.c.rules x := by
  unfold beginnersOf at h
  have h1 := mem_dedupNT h
  obtain ⟨s, hsm, hsx⟩ := List.mem_filterMap.1 h1
  split at hsx
  · rename_i hb
    have hgs := hg s hsm
    have hne : s.item.lhs ≠ .start := by
      intro he; rw [he] at hb; simp [NT.beginner] at hb
    have hr := rules_of_ne_start hgs.1 hne
    cases hrhs : s.item.rhs with
    | nil => rw [hrhs] at hsx; simp at hsx
    | cons y ys =>
      rw [hrhs] at hsx
      simp only [List.head?_cons, Option.bind_some] at hsx
      cases y with
      | t tm => simp [ESym.nt?] at hsx
      | n z a r =>
        simp only [ESym.nt?, Option.some.injEq] at hsx
        subst hsx
        exact ⟨s.item.lhs, s.item.rhs, a, r, hr, hb, by rw [hrhs]; rfl⟩
  · cases hsx

theorem goodPCols_shortcut {pc : PCfg} (hs : SaneS pc.c) {cols : List Col} (hg : GoodPCols pc cols) (k : Nat) :
    GoodPCols pc (shortcut cols k) := by
  unfold shortcut
  exact goodPCols_shortcut_fold hs _ (fun x hx => loop_of_beginnerP (hg.1 k) hx) cols hg

/-! ### one step of the embedded machine -/

theorem sinv_step_mach (pc : PCfg) (hs : SaneS pc.c) (m : M) (hi : SInv pc m) : SInv pc (step pc.c m).mach := by
  have hg : GoodPCols pc m.cols := ⟨hi.states, hi.dots⟩
  unfold step
  split
  · exact hi
  · split
    · -- an active `complete`
      rename_i t j hfr
      have htg := hi.frame t j hfr
      split
      · exact ⟨hi.states, hi.dots, (by intro t' i' h; cases h), hi.pend, hi.out⟩
      · rename_i s hsome
        have hsmem : s ∈ (colAt m.cols t.item.origin).findDot t.item.lhs := List.mem_of_getElem? hsome
        have hsg : GoodP pc s t.item.origin := hi.dots _ _ (mem_findDot hsmem)
        have hdot := findDot_dotNT? hsmem
        split
        · rename_i s' hadv
          have hs'g := advance_goodP htg hsg hdot hadv
          have hg' := goodPCols_addAt pc.c.policy m.k s' hg hs'g
          refine ⟨hg'.1, hg'.2, ?_, hi.pend, hi.out⟩
          intro t' i' h
          simp only [Res.mach, Option.some.injEq, Prod.mk.injEq] at h
          rw [← h.1]; exact htg
        · refine ⟨hi.states, hi.dots, ?_, hi.pend, hi.out⟩
          intro t' i' h
          simp only [Res.mach, Option.some.injEq, Prod.mk.injEq] at h
          rw [← h.1]; exact htg
    · rename_i hfr
      split
      · -- the next pending `complete` of `predict`
        rename_i t rest hpend
        have hpt := hi.pend t (by rw [hpend]; exact List.mem_cons_self)
        refine ⟨hi.states, hi.dots, ?_, ?_, hi.out⟩
        · intro t' i' h
          simp only [Res.mach] at h
          split at h
          · cases h
          · have h2 : t = t' := (Prod.mk.inj (Option.some.inj h)).1
            rw [← h2]; exact hpt
        · intro t' ht'
          simp only [Res.mach] at ht'
          exact hi.pend t' (by rw [hpend]; exact List.mem_cons_of_mem _ ht')
      · rename_i hpend
        split
        · -- end of the column
          have hg' := goodPCols_shortcut hs hg m.k
          refine ⟨hg'.1, hg'.2, ?_, ?_, hi.out⟩
          · intro t' i' h
            simp only [Res.mach] at h
            rw [hfr] at h; cases h
          · intro t' ht'
            simp only [Res.mach] at ht'
            rw [hpend] at ht'; cases ht'
        · rename_i s hsome
          have hsmem : s ∈ (colAt m.cols m.k).states := List.mem_of_getElem? hsome
          have hsg := hi.states _ _ hsmem
          split
          · -- finished: open the frame, maybe yield
            rename_i hfin
            refine ⟨hi.states, hi.dots, ?_, hi.pend, ?_⟩
            · intro t' i' h
              simp only [Res.mach] at h
              have h2 : s = t' := by
                split at h
                · cases h
                · exact (Prod.mk.inj (Option.some.inj h)).1
              rw [← h2]; exact hsg
            · intro pt hpt
              simp only [Res.mach] at hpt
              split at hpt
              · rename_i hcond
                rcases List.mem_append.1 hpt with h | h
                · exact hi.out _ h
                · exact top_of_der hs (der_of_good hsg) hcond.1 hcond.2 pt h
              · exact hi.out _ hpt
          · split
            · exact ⟨hi.states, hi.dots, (by intro t' i' h; simp only [Res.mach] at h; rw [hfr] at h; cases h), hi.pend, hi.out⟩
            · -- predict
              rename_i x a r hsym
              have hx := goodIK_sym_ne_start hs hsg hsym
              have hg' := goodPCols_pred (pc := pc) (k := m.k) hx (pc.c.pred m.k x)
                (fun rhs hr => hs.pred_sub _ _ _ hr) m.cols hg
              refine ⟨hg'.1, hg'.2, (by intro t' i' h; simp only [Res.mach] at h; rw [hfr] at h; cases h), ?_, hi.out⟩
              intro t' ht'
              simp only [Res.mach] at ht'
              split at ht'
              · obtain ⟨h1, _⟩ := mem_doneOf' ht'
                exact hg'.1 _ _ h1
              · cases ht'
            · -- scan
              rename_i term hsym
              split
              · exact ⟨hi.states, hi.dots, (by intro t' i' h; simp only [Res.mach] at h; rw [hfr] at h; cases h), hi.pend, hi.out⟩
              · rename_i e l hscan
                split
                · exact hi
                · have hn : GoodP pc { item := s.item.next, kids := s.kids ++ [PT.leaf l], cover := s.cover } e := by
                    apply goodP_next hsg hsym
                    intro j ks hd
                    exact PreL.term hscan hd
                  have hg' := goodPCols_addAt pc.c.policy e _ hg hn
                  exact ⟨hg'.1, hg'.2, (by intro t' i' h; simp only [Res.mach] at h; rw [hfr] at h; cases h), hi.pend, hi.out⟩

/-! ### the prefix-mode machine -/

def DerB (pc : PCfg) (s : PSt) : Prop := DerIK pc s.item s.kids pc.L
def GoodB (pc : PCfg) (s : PSt) : Prop := GoodIK pc s.item s.kids pc.L

/-- the invariant of both phases -/
structure SInvP (pc : PCfg) (pm : PM) : Prop where
  /-- phase A: the chart invariant of the embedded machine -/
  machA : pm.phaseB = false → SInv pc pm.m
  /-- phase B: the columns before the last (they are not changed any more) -/
  old : pm.phaseB = true → ∀ j s, j ≠ pc.L → s ∈ (colAt pm.m.cols j).dots → GoodP pc s j
  mout : ∀ pt, pt ∈ pm.m.out → TopOkP pc pt
  incs : ∀ p, p ∈ pm.incs → DerIK pc p.2.item p.2.kids pc.L
  last : ∀ s, s ∈ pm.last → DerB pc s
  ldots : ∀ s, s ∈ pm.ldots → GoodB pc s
  frame : ∀ t j, pm.frame = some (t, j) → DerB pc t
  out : ∀ pt, pt ∈ pm.out → TopOkP pc pt
  pos : 0 < pc.c.ncols

def PRes.mach : PRes → PM
  | .next pm => pm
  | .done pm => pm
  | .raised pm => pm

theorem mem_newKids {seen kids : List PT} {pt : PT} (h : pt ∈ newKids seen kids) : pt ∈ kids := by
  induction kids generalizing seen with
  | nil => simp [newKids] at h
  | cons k ks ih =>
    unfold newKids at h
    split at h
    · exact List.mem_cons_of_mem _ (ih h)
    · rcases List.mem_cons.1 h with h | h
      · rw [h]; exact List.mem_cons_self
      · exact List.mem_cons_of_mem _ (ih h)

theorem advanceP_shape (cs : Bool) (p : Policy) (L : Nat) (t s : PSt) {x : NT} {a r : Option String}
    (hy : s.item.sym? = some (.n x a r)) :
    (advanceP cs p L t s).item = s.item.next ∧
    (advanceP cs p L t s).kids = s.kids ++ (if t.item.lhs.explicit then [PT.node t.item.lhs a r t.kids] else t.kids) := by
  refine ⟨rfl, ?_⟩
  unfold advanceP
  simp only [hy]
  split <;> rfl

theorem sinvP_init (pc : PCfg) (hpos : 0 < pc.c.ncols) : SInvP pc (PM.init pc) :=
  ⟨fun _ => sinv_init pc, (by intro h; cases h), (by intro pt h; cases h), (by intro p h; simp [PM.init] at h),
   (by intro s h; simp [PM.init] at h), (by intro s h; simp [PM.init] at h), (by intro t j h; simp [PM.init] at h),
   (by intro pt h; simp [PM.init] at h), hpos⟩

/-- one step of the end-of-input phase -/
theorem sinvP_stepB (pc : PCfg) (hs : SaneS pc.c) (pm : PM) (hph : pm.phaseB = true) (hi : SInvP pc pm) :
    SInvP pc (stepB pc pm).mach := by
  have hold := hi.old hph
  have hA : ∀ pm' : PM, pm'.phaseB = true → pm'.phaseB = false → SInv pc pm'.m := by
    intro pm' h1 h2; rw [h1] at h2; cases h2
  unfold stepB
  simp only
  split
  · -- an active `complete`
    rename_i t j hfr
    have htd := hi.frame t j hfr
    split
    · exact ⟨hA _ hph, fun _ => hold, hi.mout, hi.incs, hi.last, hi.ldots, (by intro t' j' h; cases h), hi.out, hi.pos⟩
    · rename_i s hsome
      have hfr' : ∀ t' j', some (t, j + 1) = some (t', j') → DerB pc t' := by
        intro t' j' h
        simp only [Option.some.injEq, Prod.mk.injEq] at h
        rw [← h.1]; exact htd
      split
      · -- `if s.cut_short: continue`
        exact ⟨hA _ hph, fun _ => hold, hi.mout, hi.incs, hi.last, hi.ldots, hfr', hi.out, hi.pos⟩
      have hsmem : s ∈ listOf pm pc.L t := List.mem_of_getElem? hsome
      -- the advanced state is good in the origin column of `t`
      have hsg : GoodIK pc s.item s.kids t.item.origin ∧ s.item.dotNT? = some t.item.lhs := by
        unfold listOf at hsmem
        split at hsmem
        · rename_i hp
          have hm := List.mem_filter.1 hsmem
          refine ⟨?_, by simpa using hm.2⟩
          rw [hp]; exact hi.ldots s hm.1
        · rename_i hp
          obtain ⟨s0, hs0, rfl⟩ := List.mem_map.1 hsmem
          exact ⟨hold _ _ hp (mem_findDot hs0), findDot_dotNT? hs0⟩
      obtain ⟨a, r, hy⟩ := dotNT?_n hsg.2
      obtain ⟨h1, h2⟩ := advanceP_shape pc.cutShort pc.c.policy pc.L t s hy
      have hnewG : GoodB pc (advanceP pc.cutShort pc.c.policy pc.L t s) := by
        unfold GoodB
        rw [h1, h2]
        exact goodIK_next hsg.1 hy (completed_step htd)
      have hnewD : DerB pc (advanceP pc.cutShort pc.c.policy pc.L t s) := der_of_good hnewG
      rcases addLast_cases pc.c.policy pm (advanceP pc.cutShort pc.c.policy pc.L t s) with he | ⟨_, he | he⟩
      · simp only [PRes.mach]
        rw [he]
        exact ⟨hA _ hph, fun _ => hold, hi.mout, hi.incs, hi.last, hi.ldots, hfr', hi.out, hi.pos⟩
      · simp only [PRes.mach]
        rw [he]
        refine ⟨hA _ hph, fun _ => hold, hi.mout, hi.incs, ?_, ?_, hfr', hi.out, hi.pos⟩
        · intro x hx
          simp only [List.mem_append, List.mem_singleton] at hx
          rcases hx with hx | hx
          · exact hi.last x hx
          · rw [hx]; exact hnewD
        · intro x hx
          simp only [List.mem_append, List.mem_singleton] at hx
          rcases hx with hx | hx
          · exact hi.ldots x hx
          · rw [hx]; exact hnewG
      · simp only [PRes.mach]
        rw [he]
        refine ⟨hA _ hph, fun _ => hold, hi.mout, hi.incs, ?_, hi.ldots, hfr', hi.out, hi.pos⟩
        intro x hx
        simp only [List.mem_append, List.mem_singleton] at hx
        rcases hx with hx | hx
        · exact hi.last x hx
        · rw [hx]; exact hnewD
  · rename_i hfr
    split
    · -- the end: only the last column is touched (`place_repetition_shortcut`), no tree is yielded any more
      refine ⟨hA _ hph, ?_, hi.mout, hi.incs, hi.last, hi.ldots,
        (by intro t j h; simp only [PRes.mach] at h; rw [hfr] at h; cases h), hi.out, hi.pos⟩
      intro _ j s hj hsd
      simp only [PRes.mach] at hsd
      rw [(ext_shortcut _ pc.L).2.2.1 j hj, colAt_set] at hsd
      have : ¬ (j = pc.L ∧ pc.L < pm.m.cols.length) := fun h => hj h.1
      rw [if_neg this] at hsd
      exact hold j s hj hsd
    · rename_i s hsome
      have hsmem : s ∈ pm.last := List.mem_of_getElem? hsome
      have hsd := hi.last s hsmem
      split
      · exact ⟨hA _ hph, fun _ => hold, hi.mout, hi.incs, hi.last, hi.ldots,
          (by intro t j h; simp only [PRes.mach] at h; rw [hfr] at h; cases h), hi.out, hi.pos⟩
      · refine ⟨hA _ hph, fun _ => hold, hi.mout, hi.incs, hi.last, hi.ldots, ?_, ?_, hi.pos⟩
        · intro t j h
          simp only [PRes.mach] at h
          split at h
          · cases h
          · simp only [Option.some.injEq, Prod.mk.injEq] at h
            rw [← h.1]; exact hsd
        · intro pt hpt
          simp only [PRes.mach] at hpt
          rcases List.mem_append.1 hpt with h | h
          · exact hi.out _ h
          · split at h
            · rename_i hst
              exact top_of_der hs hsd hst (by unfold PCfg.L; have := hi.pos; omega) pt (mem_newKids h)
            · cases h

theorem mem_addInc {p : Policy} {ord : List St} {incs : List (Nat × St)} {s : St} {x : Nat × St}
    (h : x ∈ addInc p ord incs s) : x ∈ incs ∨ x.2 = s := by
  unfold addInc at h
  split at h
  · exact Or.inl h
  · simp only [List.mem_append, List.mem_singleton] at h
    rcases h with h | h
    · exact Or.inl h
    · right; rw [h]

/-- the incomplete twin of a good state is a prefix derivation that ends with the partial leaf -/
theorem twin_der {pc : PCfg} {m : M} {e : Nat} {s : St} (hm : SInv pc m) (h : twinOf pc m = some (e, s))
    (he : e + 1 = pc.c.ncols) : DerIK pc s.item s.kids pc.L := by
  obtain ⟨s0, term, l, hs0, hsym, hscan, rfl⟩ := twinOf_some h
  have hg := hm.states _ _ (List.mem_of_getElem? hs0)
  have hL : pc.L = e := by unfold PCfg.L; omega
  refine ⟨hg.1, hg.2.1, ?_⟩
  have := hg.2.2 pc.L [PT.leaf l] (by rw [drop_of_sym hsym, hL]; exact PreL.pterm hscan)
  exact this

/-- the first loop over the last column is over -/
theorem sinvP_handover (pc : PCfg) (pm : PM) (hph : pm.phaseB = false) (hi : SInvP pc pm) :
    SInvP pc (handover pc pm) := by
  have hm := hi.machA hph
  refine ⟨(by intro h; cases h), fun _ j s _ hs => hm.dots j s hs, hm.out, hi.incs, ?_, ?_, hi.frame, hi.out, hi.pos⟩
  · intro s hs
    have hs' : s ∈ mergeInc pc.L 0 (colAt pm.m.cols pc.L).states pm.incs := hs
    have := (mergeInc_perm pc.L _ 0 pm.incs).mem_iff.1 hs'
    simp only [List.mem_append, List.mem_map] at this
    rcases this with ⟨o, ho, rfl⟩ | ⟨p, hp, rfl⟩
    · exact der_of_good (hm.states pc.L o ho)
    · exact hi.incs p hp
  · intro s hs
    have hs' : s ∈ (colAt pm.m.cols pc.L).dots.map (PSt.ofSt pc.L) := hs
    obtain ⟨o, ho, rfl⟩ := List.mem_map.1 hs'
    exact hm.dots pc.L o ho

/-- **one step of the prefix-mode machine keeps the soundness invariant** (every policy, prediction order, scanner) -/
theorem sinvP_step (pc : PCfg) (hs : SaneS pc.c) (pm : PM) (hi : SInvP pc pm) : SInvP pc (stepP pc pm).mach := by
  unfold stepP
  split
  · rename_i hph
    exact sinvP_stepB pc hs pm hph hi
  · rename_i hph
    have hphf : pm.phaseB = false := by
      cases h : pm.phaseB with
      | true => exact absurd h hph
      | false => rfl
    have hm := hi.machA hphf
    have hold : ∀ pm' : PM, pm'.phaseB = false → pm'.phaseB = true → ∀ j s, j ≠ pc.L →
        s ∈ (colAt pm'.m.cols j).dots → GoodP pc s j := by
      intro pm' h1 h2; rw [h1] at h2; cases h2
    simp only
    split
    · exact hi
    · split
      · exact sinvP_handover pc pm hphf hi
      · have hstep := sinv_step_mach pc hs pm.m hm
        split
        · rename_i m' heq
          rw [heq] at hstep
          exact ⟨fun _ => hstep, hold _ hphf, hstep.out, hi.incs, hi.last, hi.ldots, hi.frame, hi.out, hi.pos⟩
        · rename_i m' heq
          rw [heq] at hstep
          exact ⟨fun _ => hstep, hold _ hphf, hstep.out, hi.incs, hi.last, hi.ldots, hi.frame, hi.out, hi.pos⟩
        · rename_i m' heq
          rw [heq] at hstep
          split
          · exact ⟨fun _ => hstep, hold _ hphf, hstep.out, hi.incs, hi.last, hi.ldots, hi.frame, hi.out, hi.pos⟩
          · rename_i e s htwin
            split
            · rename_i he
              refine ⟨fun _ => hstep, hold _ hphf, hstep.out, ?_, hi.last, hi.ldots, hi.frame, hi.out, hi.pos⟩
              intro p hp
              rcases mem_addInc hp with h | h
              · exact hi.incs p h
              · rw [h]; exact twin_der hm htwin he
            · exact ⟨fun _ => hstep, hold _ hphf, hstep.out, hi.incs, hi.last, hi.ldots, hi.frame, hi.out, hi.pos⟩

theorem sinvP_run (pc : PCfg) (hs : SaneS pc.c) (fuel : Nat) :
    ∀ pm : PM, SInvP pc pm → SInvP pc (runP pc fuel pm).mach := by
  induction fuel with
  | zero => intro pm hi; exact hi
  | succ f ih =>
    intro pm hi
    have h := sinvP_step pc hs pm hi
    unfold runP
    cases hst : stepP pc pm with
    | next pm' => rw [hst] at h; exact ih pm' h
    | done pm' => rw [hst] at h; exact h
    | raised pm' => rw [hst] at h; exact h

/-- **chart soundness of prefix mode**: for every policy, prediction order, scanner, partial-match oracle and fuel, every
    tree the prefix-mode machine has yielded — in the first loop or in the end-of-input phase — is the node of the start
    symbol over a prefix of an expansion of one of its rules, spanning all columns, and so on below -/
theorem prefix_chart_sound (pc : PCfg) (hs : SaneS pc.c) (hpos : 0 < pc.c.ncols) (fuel : Nat) :
    ∀ pt, pt ∈ (runP pc fuel (PM.init pc)).mach.m.out ++ (runP pc fuel (PM.init pc)).mach.out → TopOkP pc pt := by
  have h := sinvP_run pc hs fuel (PM.init pc) (sinvP_init pc hpos)
  intro pt hpt
  rcases List.mem_append.1 hpt with h1 | h1
  · exact h.mout pt h1
  · exact h.out pt h1

/-! ### the leaves of a partial tree tile the whole input -/

/-- a partial match takes the whole rest of the input -/
theorem iscanV_some {v : Variant} {pi : PInput} {t : Term} {k m : Nat} {l : Leaf}
    (h : iscanV v pi t k = some (m, l)) :
    m = k + 8 * (pi.inp.cells.drop (k / 8)).length ∧ l = mkLeaf pi.inp.isBytes (pi.inp.cells.drop (k / 8)) := by
  unfold iscanV at h
  cases t with
  | regex id =>
    simp only at h
    split at h
    · cases h
    · split at h
      · simp only [Option.some.injEq, Prod.mk.injEq] at h
        exact ⟨h.1.symm, h.2.symm⟩
      · cases h
  | lit lf =>
    cases lf with
    | bit b => simp at h
    | text s =>
      simp only at h
      split at h
      · cases h
      · split at h
        · cases h
        · split at h
          · cases h
          · split at h
            · simp only [Option.some.injEq, Prod.mk.injEq] at h
              exact ⟨h.1.symm, h.2.symm⟩
            · cases h
    | bytes b =>
      simp only at h
      split at h
      · cases h
      · split at h
        · cases h
        · split at h
          · cases h
          · split at h
            · simp only [Option.some.injEq, Prod.mk.injEq] at h
              exact ⟨h.1.symm, h.2.symm⟩
            · cases h

theorem startsWith_self (xs : List Nat) : startsWith xs xs = true := by
  have := startsWith_take xs xs.length
  rwa [List.take_length] at this

/-- the partial leaf is as wide as the columns it covers and is what the input holds there -/
theorem iscanV_ok (v : Variant) (pi : PInput) (hc : CellsOk pi.inp) {t : Term} {k m : Nat} {l : Leaf}
    (h : iscanV v pi t k = some (m, l)) : m = k + l.width ∧ LeafAt pi.inp k l := by
  obtain ⟨rfl, rfl⟩ := iscanV_some h
  cases hb : pi.inp.isBytes with
  | false =>
    refine ⟨?_, ?_⟩
    · simp [mkLeaf, Leaf.width]
    · simp only [mkLeaf, Bool.false_eq_true, if_false, LeafAt]
      exact ⟨hb, startsWith_self _⟩
  | true =>
    have hlt : ∀ c ∈ pi.inp.cells.drop (k / 8), c < 256 := fun c hcm => hc hb c (List.mem_of_mem_drop hcm)
    refine ⟨?_, ?_⟩
    · simp [mkLeaf, Leaf.width]
    · simp only [mkLeaf, if_true, LeafAt]
      rw [map_val_mkByte _ hlt]
      exact ⟨hb, startsWith_self _⟩

/-- the leaves of a prefix derivation over the compiled table tile the columns it spans: complete leaves match the
    input at their column, the partial leaf is the rest of the input -/
theorem preL_tiles (G : Grammar) (cap : Option Nat) (start : String) (inp : Input) (scan iscan : Scan) (P : Term → Bool)
    (hP : ∀ x rhs t, (x, rhs) ∈ compile G cap → ESym.t t ∈ rhs → P t = true)
    (hscan : ∀ t, P t = true → ∀ i m l, scan t i = some (m, l) → m = i + l.width ∧ LeafAt inp i l)
    (hiscan : ∀ t i m l, iscan t i = some (m, l) → m = i + l.width ∧ LeafAt inp i l)
    {rhs : List ESym} {ks : List PT} {i j : Nat}
    (h : PreL (tableOf G cap start) scan iscan rhs ks i j) (hsub : InTable G cap start rhs) :
    TilesLoose inp (Tree.leavesL (collapseL ks)) i j := by
  induction h with
  | stop rhs i => simpa only [collapseL, Tree.leavesL] using TilesLoose.nil i
  | @term t i m j l ss ks hs hd ih =>
    obtain ⟨x, full, hm, ht⟩ := inTable_term hsub
    obtain ⟨rfl, hl⟩ := hscan t (hP x full t hm ht) i m l hs
    simp only [collapseL, collapse, Tree.leavesL, Tree.leaf, Tree.leaves, List.singleton_append]
    exact TilesLoose.cons hl (ih (inTable_tail hsub))
  | @pterm t i j l ss hs =>
    obtain ⟨rfl, hl⟩ := hiscan t i j l hs
    simp only [collapseL, collapse, Tree.leavesL, Tree.leaf, Tree.leaves, List.singleton_append, List.append_nil]
    exact TilesLoose.cons hl (TilesLoose.nil _)
  | @expl x a r rhs' kids ss ks i m j hx hr h1 h2 ih1 ih2 =>
    simp only [collapseL, leavesL_append, leavesL_collapse_node]
    exact tilesLoose_append (ih1 (inTable_rule hr)) (ih2 (inTable_tail hsub))
  | @impl x a r rhs' k1 ss k2 i m j hx hr h1 h2 ih1 ih2 =>
    rw [collapseL_append, leavesL_append]
    exact tilesLoose_append (ih1 (inTable_rule hr)) (ih2 (inTable_tail hsub))

/-- **what a prefix parse of the model yields**: every tree is the collapsed node of the start symbol over a prefix of
    an expansion of one of its rules in the compiled table (and so on below: `PreL`), spanning all columns; with a
    typed grammar its leaves tile the whole input, the last one possibly a partial match -/
theorem prefix_parse_sound (G : Grammar) (v : Variant) (cs : Bool) (pi : PInput) (start : String)
    (pred : Nat → NT → List (List ESym)) (R : RegexOracle)
    (hpred : ∀ k x rhs, rhs ∈ pred k x → (x, rhs) ∈ compile G v.cap)
    (hty : G.typed pi.inp.isBytes = true) (ho : OracleOk pi.inp R) (hc : CellsOk pi.inp)
    (fuel : Nat) (ts : List Tree) (h : parsePrefix (mkPCfg G v cs pi start pred) fuel = some (.ok ts)) :
    ∀ t ∈ ts, ∃ kids rhs, t = Tree.mk (.nt start) none none (collapseL kids) ∧ (NT.user start, rhs) ∈ compile G v.cap ∧
      PreL (tableOf G v.cap start) (scanV v pi.inp) (iscanV v pi) rhs kids 0 (8 * pi.inp.cells.length) ∧
      TilesLoose pi.inp t.leaves 0 (8 * pi.inp.cells.length) := by
  intro t ht
  let pc := mkPCfg G v cs pi start pred
  have hs : SaneS pc.c := saneS_of_rules pc.c G v.cap rfl hpred
  have hpos : 0 < pc.c.ncols := by
    show 0 < 8 * pi.inp.cells.length + 1
    omega
  have hn : pc.c.ncols - 1 = 8 * pi.inp.cells.length := by
    show (8 * pi.inp.cells.length + 1) - 1 = _
    omega
  unfold parsePrefix at h
  have hsound := prefix_chart_sound pc hs hpos fuel
  cases hrun : runP pc fuel (PM.init pc) with
  | next pm => rw [show runP (mkPCfg G v cs pi start pred) fuel (PM.init (mkPCfg G v cs pi start pred)) = _ from hrun] at h; cases h
  | raised pm => rw [show runP (mkPCfg G v cs pi start pred) fuel (PM.init (mkPCfg G v cs pi start pred)) = _ from hrun] at h; cases h
  | done pm =>
    rw [show runP (mkPCfg G v cs pi start pred) fuel (PM.init (mkPCfg G v cs pi start pred)) = _ from hrun] at h
    simp only [Option.some.injEq, Except.ok.injEq] at h
    subst h
    rw [hrun] at hsound
    obtain ⟨pt, hpt, htc⟩ := List.mem_flatMap.1 ht
    obtain ⟨kids, rhs, rfl, hr, hd⟩ := hsound pt hpt
    rw [hn] at hd
    have hd' : PreL (tableOf G v.cap start) (scanV v pi.inp) (iscanV v pi) rhs kids 0 (8 * pi.inp.cells.length) := hd
    have hr' : (NT.user start, rhs) ∈ compile G v.cap := hr
    have htiles := preL_tiles G v.cap start pi.inp (scanV v pi.inp) (iscanV v pi) (termTyped pi.inp.isBytes)
      (fun x full t hm hmem => compile_terms_typed G v.cap pi.inp.isBytes hty hm hmem)
      (fun t htt i m l hsc => by
        obtain ⟨_, h2, h3, _⟩ := scanV_ok v pi.inp R ho hc htt hsc
        exact ⟨h2, h3⟩)
      (fun t i m l hsc => iscanV_ok v pi hc hsc) hd' (inTable_rule (List.mem_cons_of_mem _ hr'))
    have hte : t = Tree.mk (.nt start) none none (collapseL kids) := by
      have hst : pc.c.start = start := rfl
      rw [hst] at htc
      simpa [collapse, ntName] using htc
    refine ⟨kids, rhs, hte, hr', hd', ?_⟩
    rw [hte]
    simpa [Tree.leaves] using htiles

end FV.Earley
