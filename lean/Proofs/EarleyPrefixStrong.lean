/-
C04 carried over to prefix mode, STRONG form — for the parser with `ParseState.cut_short` (`PCfg.cutShort = true`, the
repair of finding C19:F68): **only the rightmost path of a yielded partial tree is cut short**.

`PreS rules scan iscan rhs ks i j` — "the parser-tree list `ks` is what the parser builds for a *prefix of a DERIVATION*
of the symbol sequence `rhs` over the columns `i … j`": every child is a COMPLETE derivation (`DerL`, `Proofs/C04Defs.lean`)
of its symbol, except possibly the LAST one, which may be the partial leaf of an incomplete terminal match (`pterm`) or a
nonterminal whose own children are again such a prefix (`explCut` / `implCut`: a node cut short by the end of the input —
nothing follows it).  `preS_split` spells this out: `ks = ks1 ++ ks2`, `ks1` a complete derivation of the first `n` symbols,
`ks2` nothing / a partial leaf / ONE cut-short child.  `preL_of_preS`: it implies the weak form `PreL` of
`Proofs/EarleyPrefixSound.lean` (every node's children are a prefix of an expansion of one of its rules); the converse fails
(`<start>(<b>("x"), <c>(""))`: `<b>` cut short AND followed by `<c>`) and IS false of the parser without `cut_short`
(`C04_prefix_rightmost_path_only_is_false_witness`).

The invariant.  Phase A (= COMPLETE mode): next to the chart invariant `Inv` of `Proofs/C04Chart.lean` (continuation form
over `DerL`: a finished state's children are a complete derivation) every state satisfies the continuation form over `PreS`
(`GoodS`); a completion there is that of a FINISHED state (`Inv.frame`), so the completed child is complete (`PreS.expl`).
Phase B: `StB` — every state of the last column has children that are a `PreS` prefix of its rule (`der`); a state that is
NOT marked `cut_short` (and not incomplete) satisfies both continuation forms (`full`), in particular its children are a
complete derivation of the symbols before its dot.  A forced completion `complete(t)` advances only states `s` that are not
marked (this is the repair: `if s.cut_short: continue`): if `t` is finished and not marked, its children are a complete
derivation and the new state is again `full`; otherwise `t`'s children are a `PreS` prefix, the new state is built by
`explCut` / `implCut` on top of `s`'s continuation form — and it IS marked (`cut_short = state.cut_short or not
state.finished()`), so `full` is vacuous for it and nothing is ever appended behind the cut-short child.
-/
import Proofs.EarleyPrefixSound
namespace FV.Earley

inductive PreS (rules : List CRule) (scan iscan : Scan) : List ESym → List PT → Nat → Nat → Prop
  | stop (rhs : List ESym) (i : Nat) : PreS rules scan iscan rhs [] i i
  | term {t : Term} {i m j : Nat} {l : Leaf} {ss : List ESym} {ks : List PT} :
      scan t i = some (m, l) → PreS rules scan iscan ss ks m j →
      PreS rules scan iscan (.t t :: ss) (.leaf l :: ks) i j
  | pterm {t : Term} {i j : Nat} {l : Leaf} {ss : List ESym} :
      iscan t i = some (j, l) → PreS rules scan iscan (.t t :: ss) [.leaf l] i j
  /-- a COMPLETE child, then the rest -/
  | expl {x : NT} {a r : Option String} {rhs : List ESym} {kids : List PT} {ss : List ESym}
      {ks : List PT} {i m j : Nat} :
      x.explicit = true → (x, rhs) ∈ rules → DerL rules scan rhs kids i m → PreS rules scan iscan ss ks m j →
      PreS rules scan iscan (.n x a r :: ss) (.node x a r kids :: ks) i j
  /-- a child that is cut short: it is the last one -/
  | explCut {x : NT} {a r : Option String} {rhs : List ESym} {kids : List PT} {ss : List ESym} {i j : Nat} :
      x.explicit = true → (x, rhs) ∈ rules → PreS rules scan iscan rhs kids i j →
      PreS rules scan iscan (.n x a r :: ss) [.node x a r kids] i j
  | impl {x : NT} {a r : Option String} {rhs : List ESym} {k1 : List PT} {ss : List ESym}
      {k2 : List PT} {i m j : Nat} :
      x.explicit = false → (x, rhs) ∈ rules → DerL rules scan rhs k1 i m → PreS rules scan iscan ss k2 m j →
      PreS rules scan iscan (.n x a r :: ss) (k1 ++ k2) i j
  | implCut {x : NT} {a r : Option String} {rhs : List ESym} {k1 : List PT} {ss : List ESym} {i j : Nat} :
      x.explicit = false → (x, rhs) ∈ rules → PreS rules scan iscan rhs k1 i j →
      PreS rules scan iscan (.n x a r :: ss) k1 i j

/-- a complete derivation is a prefix of itself -/
theorem preS_of_derL {rules : List CRule} {scan iscan : Scan} {rhs : List ESym} {ks : List PT} {i j : Nat}
    (h : DerL rules scan rhs ks i j) : PreS rules scan iscan rhs ks i j := by
  induction h with
  | nil i => exact PreS.stop [] i
  | term hs _ ih => exact PreS.term hs ih
  | expl he hr h1 _ _ ih2 => exact PreS.expl he hr h1 ih2
  | impl he hr h1 _ _ ih2 => exact PreS.impl he hr h1 ih2

/-- the strong form implies the weak one -/
theorem preL_of_preS {rules : List CRule} {scan iscan : Scan} {rhs : List ESym} {ks : List PT} {i j : Nat}
    (h : PreS rules scan iscan rhs ks i j) : PreL rules scan iscan rhs ks i j := by
  induction h with
  | stop rhs i => exact PreL.stop rhs i
  | term hs _ ih => exact PreL.term hs ih
  | pterm hs => exact PreL.pterm hs
  | expl he hr h1 _ ih => exact PreL.expl he hr (preL_of_derL h1) ih
  | explCut he hr _ ih => exact PreL.expl he hr ih (PreL.stop _ _)
  | impl he hr h1 _ ih => exact PreL.impl he hr (preL_of_derL h1) ih
  | @implCut x a r rhs k1 ss i j he hr _ ih =>
    have := PreL.impl (a := a) (r := r) he hr ih (PreL.stop ss j)
    simpa using this

/-- what is cut short -/
inductive CutTail (rules : List CRule) (scan iscan : Scan) (rhs : List ESym) (n m j : Nat) : List PT → Prop
  /-- nothing: the children end where the input ends -/
  | none : m = j → CutTail rules scan iscan rhs n m j []
  /-- the partial leaf of the terminal at position `n` -/
  | leaf {t : Term} {l : Leaf} : rhs[n]? = some (.t t) → iscan t m = some (j, l) →
      CutTail rules scan iscan rhs n m j [.leaf l]
  /-- ONE child for the nonterminal at position `n` whose own children are a prefix of a derivation of one of its rules -/
  | node {x : NT} {a r : Option String} {rhs' : List ESym} {kids : List PT} : rhs[n]? = some (.n x a r) →
      (x, rhs') ∈ rules → PreS rules scan iscan rhs' kids m j →
      CutTail rules scan iscan rhs n m j (if x.explicit then [.node x a r kids] else kids)

theorem CutTail.shift {rules : List CRule} {scan iscan : Scan} {y : ESym} {ss : List ESym} {n m j : Nat} {ks : List PT}
    (h : CutTail rules scan iscan ss n m j ks) : CutTail rules scan iscan (y :: ss) (n + 1) m j ks := by
  cases h with
  | none he => exact CutTail.none he
  | leaf h1 h2 => exact CutTail.leaf (by simpa using h1) h2
  | node h1 h2 h3 => exact CutTail.node (by simpa using h1) h2 h3

/-- **only the rightmost path**: the children of a `PreS` prefix are a COMPLETE derivation of the first `n` symbols of
    the sequence, followed by nothing, by a partial leaf, or by one cut-short child (recursively of the same form) -/
theorem preS_split {rules : List CRule} {scan iscan : Scan} {rhs : List ESym} {ks : List PT} {i j : Nat}
    (h : PreS rules scan iscan rhs ks i j) :
    ∃ n ks1 ks2 m, ks = ks1 ++ ks2 ∧ DerL rules scan (rhs.take n) ks1 i m ∧ CutTail rules scan iscan rhs n m j ks2 := by
  induction h with
  | stop rhs i => exact ⟨0, [], [], i, rfl, by simpa using DerL.nil i, CutTail.none rfl⟩
  | @term t i m j l ss ks hs _ ih =>
    obtain ⟨n, ks1, ks2, m', he, hd, hc⟩ := ih
    exact ⟨n + 1, .leaf l :: ks1, ks2, m', by rw [he]; rfl, by simpa using DerL.term hs hd, hc.shift⟩
  | @pterm t i j l ss hs =>
    exact ⟨0, [], [.leaf l], i, rfl, by simpa using DerL.nil i, CutTail.leaf (by simp) hs⟩
  | @expl x a r rhs' kids ss ks i m j he hr h1 _ ih =>
    obtain ⟨n, ks1, ks2, m', hek, hd, hc⟩ := ih
    exact ⟨n + 1, .node x a r kids :: ks1, ks2, m', by rw [hek]; rfl, by simpa using DerL.expl he hr h1 hd, hc.shift⟩
  | @explCut x a r rhs' kids ss i j he hr h1 _ =>
    refine ⟨0, [], [.node x a r kids], i, rfl, by simpa using DerL.nil i, ?_⟩
    have := CutTail.node (rules := rules) (scan := scan) (iscan := iscan) (rhs := .n x a r :: ss) (n := 0) (m := i) (j := j)
      (x := x) (a := a) (r := r) (by simp) hr h1
    simpa [he] using this
  | @impl x a r rhs' k1 ss k2 i m j he hr h1 _ ih =>
    obtain ⟨n, ks1, ks2, m', hek, hd, hc⟩ := ih
    exact ⟨n + 1, k1 ++ ks1, ks2, m', by rw [hek, List.append_assoc], by simpa using DerL.impl he hr h1 hd, hc.shift⟩
  | @implCut x a r rhs' k1 ss i j he hr h1 _ =>
    refine ⟨0, [], k1, i, rfl, by simpa using DerL.nil i, ?_⟩
    have := CutTail.node (rules := rules) (scan := scan) (iscan := iscan) (rhs := .n x a r :: ss) (n := 0) (m := i) (j := j)
      (x := x) (a := a) (r := r) (by simp) hr h1
    simpa [he] using this

abbrev PCfg.S (pc : PCfg) : List ESym → List PT → Nat → Nat → Prop := PreS pc.c.rules' pc.c.scan pc.iscan
abbrev PCfg.D (pc : PCfg) : List ESym → List PT → Nat → Nat → Prop := DerL pc.c.rules' pc.c.scan

/-- continuation form over `PreS` -/
def GoodSIK (pc : PCfg) (it : Item) (kids : List PT) (k : Nat) : Prop :=
  (it.lhs, it.rhs) ∈ pc.c.rules' ∧
  (it.lhs = .start → it.origin = 0) ∧
  ∀ j ks, pc.S (it.rhs.drop it.dot) ks k j → pc.S it.rhs (kids ++ ks) it.origin j

/-- direct form: the children are a prefix of a derivation of the rule, from the origin to column `k` -/
def DerSIK (pc : PCfg) (it : Item) (kids : List PT) (k : Nat) : Prop :=
  (it.lhs, it.rhs) ∈ pc.c.rules' ∧ (it.lhs = .start → it.origin = 0) ∧ pc.S it.rhs kids it.origin k

def GoodS (pc : PCfg) (s : St) (k : Nat) : Prop := GoodSIK pc s.item s.kids k

theorem derS_of_goodS {pc : PCfg} {it : Item} {kids : List PT} {k : Nat} (h : GoodSIK pc it kids k) :
    DerSIK pc it kids k := by
  refine ⟨h.1, h.2.1, ?_⟩
  have := h.2.2 k [] (PreS.stop _ k)
  simpa using this

def GoodSCols (pc : PCfg) (cols : List Col) : Prop :=
  (∀ j s, s ∈ (colAt cols j).states → GoodS pc s j) ∧ (∀ j s, s ∈ (colAt cols j).dots → GoodS pc s j)

/-- a yielded parser tree: the node of the requested start symbol over a prefix of a derivation of one of its rules,
    spanning all columns -/
def TopOkS (pc : PCfg) (pt : PT) : Prop :=
  ∃ kids rhs, pt = PT.node (.user pc.c.start) none none kids ∧ (NT.user pc.c.start, rhs) ∈ pc.c.rules ∧
    pc.S rhs kids 0 (pc.c.ncols - 1)

theorem topOkS_of_topOk {pc : PCfg} {pt : PT} (h : TopOk pc.c pt) : TopOkS pc pt := by
  obtain ⟨kids, rhs, h1, h2, h3⟩ := h
  exact ⟨kids, rhs, h1, h2, preS_of_derL h3⟩

/-! ### helpers (as in `Proofs/EarleyPrefixSound.lean`) -/

theorem goodS_congr {pc : PCfg} {s s' : St} {k : Nat} (hi : s'.item = s.item) (hk : s'.kids = s.kids)
    (hg : GoodS pc s k) : GoodS pc s' k := by
  unfold GoodS at hg ⊢
  rw [hi, hk]; exact hg

theorem goodSCols_addAt {pc : PCfg} {cols : List Col} (p : Policy) (e : Nat) (s : St)
    (hg : GoodSCols pc cols) (hs : GoodS pc s e) : GoodSCols pc (addAt p cols e s) := by
  constructor
  · intro j x hx
    rw [colAt_addAt] at hx
    split at hx
    · rename_i hje
      rcases Col.add_states_mem hx with h | h
      · rw [hje.1]; exact hg.1 _ _ h
      · rw [h, hje.1]; exact hs
    · exact hg.1 _ _ hx
  · intro j x hx
    rw [colAt_addAt] at hx
    split at hx
    · rename_i hje
      rcases Col.add_dots_mem hx with h | h
      · rw [hje.1]; exact hg.2 _ _ h
      · rw [h, hje.1]; exact hs
    · exact hg.2 _ _ hx

theorem goodSIK_next {pc : PCfg} {it : Item} {kids : List PT} {k e : Nat} {y : ESym} {X : List PT}
    (hg : GoodSIK pc it kids k) (hy : it.sym? = some y)
    (hstep : ∀ j ks, pc.S (it.rhs.drop (it.dot + 1)) ks e j → pc.S (y :: it.rhs.drop (it.dot + 1)) (X ++ ks) k j) :
    GoodSIK pc it.next (kids ++ X) e := by
  refine ⟨hg.1, hg.2.1, ?_⟩
  intro j ks hd
  have h1 := hg.2.2 j (X ++ ks) (by rw [drop_of_sym hy]; exact hstep j ks hd)
  simp only [Item.next, List.append_assoc]
  exact h1

theorem goodS_next {pc : PCfg} {s : St} {k e : Nat} {y : ESym} {X : List PT} {cov : Option (Nat × List NT)}
    (hg : GoodS pc s k) (hy : s.item.sym? = some y)
    (hstep : ∀ j ks, pc.S (s.item.rhs.drop (s.item.dot + 1)) ks e j →
      pc.S (y :: s.item.rhs.drop (s.item.dot + 1)) (X ++ ks) k j) :
    GoodS pc { item := s.item.next, kids := s.kids ++ X, cover := cov } e :=
  goodSIK_next hg hy hstep

theorem goodSCols_replicate (pc : PCfg) (n : Nat) : GoodSCols pc (List.replicate n {}) := by
  constructor <;> intro j s h <;> rw [colAt_replicate] at h <;> cases h

theorem goodS_start (pc : PCfg) : GoodS pc { item := startItem pc.c.start, kids := [] } 0 := by
  refine ⟨?_, fun _ => rfl, ?_⟩
  · unfold Cfg.rules' startItem; simp
  · intro j ks hd
    simpa [startItem] using hd

theorem goodSCols_init (pc : PCfg) : GoodSCols pc (M.init pc.c).cols :=
  goodSCols_addAt pc.c.policy 0 _ (goodSCols_replicate pc pc.c.ncols) (goodS_start pc)

theorem goodSCols_pred {pc : PCfg} {k : Nat} {x : NT} (hx : x ≠ .start) (alts : List (List ESym))
    (hal : ∀ rhs, rhs ∈ alts → (x, rhs) ∈ pc.c.rules) :
    ∀ cols : List Col, GoodSCols pc cols →
      GoodSCols pc (alts.foldl (fun cs rhs => addAt pc.c.policy cs k
        { item := { lhs := x, rhs := rhs, dot := 0, origin := k }, kids := [] }) cols) := by
  induction alts with
  | nil => intro cols hg; exact hg
  | cons rhs rest ih =>
    intro cols hg
    simp only [List.foldl_cons]
    apply ih (fun r hr => hal r (by simp [hr]))
    apply goodSCols_addAt _ _ _ hg
    refine ⟨rules_sub (hal rhs (by simp)), fun h => absurd h hx, ?_⟩
    intro j ks hd
    simpa using hd

/-- what a COMPLETELY derived item `t` contributes to the continuation of the state it advances -/
theorem completeS_step {pc : PCfg} {tit : Item} {tkids : List PT} {k : Nat} (hr : (tit.lhs, tit.rhs) ∈ pc.c.rules')
    (hD : pc.D tit.rhs tkids tit.origin k) {rest : List ESym} {a r : Option String} :
    ∀ j ks, pc.S rest ks k j →
      pc.S (.n tit.lhs a r :: rest)
        ((if tit.lhs.explicit then [PT.node tit.lhs a r tkids] else tkids) ++ ks) tit.origin j := by
  intro j ks hd
  cases hx : tit.lhs.explicit with
  | true =>
    simp only [if_true]
    exact PreS.expl hx hr hD hd
  | false =>
    simp only [Bool.false_eq_true, if_false]
    exact PreS.impl hx hr hD hd

/-- the same over `DerL` (the step of `advance_good`, `Proofs/C04Chart.lean`) -/
theorem completeC_step {pc : PCfg} {tit : Item} {tkids : List PT} {k : Nat} (hr : (tit.lhs, tit.rhs) ∈ pc.c.rules')
    (hD : pc.D tit.rhs tkids tit.origin k) {rest : List ESym} {a r : Option String} :
    ∀ j ks, pc.D rest ks k j →
      pc.D (.n tit.lhs a r :: rest)
        ((if tit.lhs.explicit then [PT.node tit.lhs a r tkids] else tkids) ++ ks) tit.origin j := by
  intro j ks hd
  cases hx : tit.lhs.explicit with
  | true =>
    simp only [if_true]
    exact DerL.expl hx hr hD hd
  | false =>
    simp only [Bool.false_eq_true, if_false]
    exact DerL.impl hx hr hD hd

/-- what an item `t` that is cut short contributes: the LAST child -/
theorem cutS_step {pc : PCfg} {tit : Item} {tkids : List PT} {k : Nat} (hr : (tit.lhs, tit.rhs) ∈ pc.c.rules')
    (hS : pc.S tit.rhs tkids tit.origin k) {rest : List ESym} {a r : Option String} :
    pc.S (.n tit.lhs a r :: rest) (if tit.lhs.explicit then [PT.node tit.lhs a r tkids] else tkids) tit.origin k := by
  cases hx : tit.lhs.explicit with
  | true =>
    simp only [if_true]
    exact PreS.explCut hx hr hS
  | false =>
    simp only [Bool.false_eq_true, if_false]
    exact PreS.implCut hx hr hS

/-- a completion of phase A: the completed state is finished, its children are a complete derivation -/
theorem advance_goodS {pc : PCfg} {p : Policy} {k : Nat} {t s s' : St}
    (ht : Good pc.c t k) (hfin : t.item.finished = true) (hsg : GoodS pc s t.item.origin)
    (hdot : s.item.dotNT? = some t.item.lhs) (h : advance p k t s = some s') : GoodS pc s' k := by
  obtain ⟨a, r, hy⟩ := dotNT?_n hdot
  obtain ⟨h1, h2⟩ := advance_shape hy h
  exact goodS_congr h1 h2 (goodS_next (cov := none) hsg hy (completeS_step ht.1 (good_finished_der ht hfin)))

/-! ### `place_repetition_shortcut` -/

theorem walk_goodS {pc : PCfg} (hs : SaneS pc.c) {cols : List Col} (hg : GoodSCols pc cols) {x : NT}
    (hx : LoopNT pc.c.rules x) {k : Nat} :
    ∀ (fuel : Nat) (new o res : St), GoodS pc new k → new.item.lhs = x → new.item.dotNT? = some x →
      GoodS pc o new.item.origin → o.item.dotNT? = some x →
      shortcutWalk cols x fuel new o = some res → GoodS pc res k := by
  intro fuel
  induction fuel with
  | zero => intro new o res _ _ _ _ _ h; simp [shortcutWalk] at h
  | succ f ih =>
    intro new o res hnew hnl hnd ho hod h
    unfold shortcutWalk at h
    split at h
    · cases h; exact hnew
    · rename_i hnb
      have hxs := loop_ne_start hs hx
      obtain ⟨hximp, hshape⟩ := hs.loop_shape x hx
      obtain ⟨a, r, hoy⟩ := dotNT?_n hod
      obtain ⟨a2, r2, hny⟩ := dotNT?_n hnd
      have hol : o.item.lhs ≠ .start := by
        intro he
        have h1 := ho.1
        unfold Cfg.rules' at h1
        rcases List.mem_cons.1 h1 with h2 | h2
        · have h3 : o.item.rhs = [ESym.plain (.user pc.c.start)] := (Prod.mk.inj h2).2
          have hmem : ESym.n x a r ∈ o.item.rhs := by
            unfold Item.sym? at hoy; exact List.mem_of_getElem? hoy
          rw [h3] at hmem
          simp only [ESym.plain, List.mem_singleton, ESym.n.injEq] at hmem
          rw [hmem.1] at hximp
          simp [NT.explicit] at hximp
        · rw [he] at h2; exact hs.start_no_rule _ h2
      have hor := rules_of_ne_start ho.1 hol
      have hoy' : o.item.rhs[o.item.dot]? = some (ESym.n x a r) := hoy
      rcases hshape o.item.lhs o.item.rhs o.item.dot a r hor hoy' with hb | ⟨hlx, hlen, huniq⟩
      · exact absurd hb hnb
      · have hnr : (x, new.item.rhs) ∈ pc.c.rules := by
          have := hnew.1
          rw [hnl] at this
          exact rules_of_ne_start this hxs
        have hny' : new.item.rhs[new.item.dot]? = some (ESym.n x a2 r2) := hny
        have hrhs : new.item.rhs = o.item.rhs := huniq _ _ _ _ hnr hny'
        have hodrop : o.item.rhs.drop o.item.dot = [ESym.n x a r] := by
          rw [drop_of_sym hoy, List.drop_eq_nil_of_le (by omega)]
        have hnew' : GoodS pc ({ item := { new.item with origin := o.item.origin },
                                 kids := o.kids ++ new.kids } : St) k := by
          refine ⟨hnew.1, fun he => absurd (hnl.symm.trans he) hxs, ?_⟩
          intro j ks hd
          have D1 := hnew.2.2 j ks hd
          have hnr' : (x, new.item.rhs) ∈ pc.c.rules' := rules_sub hnr
          have D2 : pc.S [ESym.n x a r] (new.kids ++ ks) new.item.origin j := PreS.implCut hximp hnr' D1
          rw [← hodrop] at D2
          have D3 := ho.2.2 j _ D2
          simp only [List.append_assoc]
          rw [hrhs]
          exact D3
        simp only at h
        split at h
        · rename_i o' heq
          have hmem : o' ∈ (colAt cols o.item.origin).findDot x := by rw [heq]; simp
          have ho' : GoodS pc o' o.item.origin := hg.2 _ _ (mem_findDot hmem)
          exact ih _ o' res hnew' hnl hnd ho' (findDot_dotNT? hmem) h
        · cases h

theorem goodSCols_set_replace {pc : PCfg} {cols : List Col} {k : Nat} (cur new : St)
    (hg : GoodSCols pc cols) (hn : GoodS pc new k) :
    GoodSCols pc (cols.set k ((colAt cols k).replace cur new)) := by
  constructor
  · intro j s h
    rw [colAt_set] at h
    split at h
    · rename_i hjk
      rcases Col.replace_states_mem h with h | h
      · rw [hjk.1]; exact hg.1 _ _ h
      · rw [h, hjk.1]; exact hn
    · exact hg.1 _ _ h
  · intro j s h
    rw [colAt_set] at h
    split at h
    · rename_i hjk
      rcases Col.replace_dots_mem h with h | h
      · rw [hjk.1]; exact hg.2 _ _ h
      · rw [h, hjk.1]; exact hn
    · exact hg.2 _ _ h

theorem goodSCols_shortcutOne {pc : PCfg} (hs : SaneS pc.c) {cols : List Col} (hg : GoodSCols pc cols) {x : NT}
    (hx : LoopNT pc.c.rules x) (k : Nat) : GoodSCols pc (shortcutOne cols k x) := by
  unfold shortcutOne
  simp only
  split
  · exact hg
  · rename_i cur hfind
    have hcm : cur ∈ (colAt cols k).states := List.mem_of_find?_eq_some hfind
    have hcp := List.find?_some hfind
    simp only [Bool.and_eq_true, decide_eq_true_eq, beq_iff_eq] at hcp
    obtain ⟨⟨⟨hcl, _⟩, _⟩, hcd⟩ := hcp
    have hcg := hg.1 _ _ hcm
    split
    · rename_i o heq
      have hmem : o ∈ (colAt cols cur.item.origin).findDot x := by rw [heq]; simp
      have ho : GoodS pc o cur.item.origin := hg.2 _ _ (mem_findDot hmem)
      split
      · rename_i new hw
        have hn := walk_goodS hs hg hx _ cur o new hcg hcl hcd ho (findDot_dotNT? hmem) hw
        exact goodSCols_set_replace cur new hg hn
      · exact hg
    · exact hg

theorem goodSCols_shortcut_fold {pc : PCfg} (hs : SaneS pc.c) {k : Nat} (l : List NT)
    (hl : ∀ x, x ∈ l → LoopNT pc.c.rules x) :
    ∀ cols : List Col, GoodSCols pc cols → GoodSCols pc (l.foldl (fun cs x => shortcutOne cs k x) cols) := by
  induction l with
  | nil => intro cols hg; exact hg
  | cons x xs ih =>
    intro cols hg
    simp only [List.foldl_cons]
    exact ih (fun y hy => hl y (by simp [hy])) _ (goodSCols_shortcutOne hs hg (hl x (by simp)) k)

theorem goodSCols_shortcut {pc : PCfg} (hs : SaneS pc.c) {cols : List Col} (hg : GoodSCols pc cols) (k : Nat)
    (hC : ∀ s, s ∈ (colAt cols k).states → Good pc.c s k) : GoodSCols pc (shortcut cols k) := by
  unfold shortcut
  exact goodSCols_shortcut_fold hs _ (fun x hx => loop_of_beginner hC hx) cols hg

/-! ### one step of the embedded machine (phase A = COMPLETE mode) -/

theorem goodS_sym_ne_start {pc : PCfg} (hs : SaneS pc.c) {s : St} {k : Nat} {x : NT}
    {a r : Option String} (hg : GoodS pc s k) (hy : s.item.sym? = some (.n x a r)) : x ≠ .start := by
  intro hx
  subst hx
  unfold Item.sym? at hy
  have hmem : ESym.n .start a r ∈ s.item.rhs := List.mem_of_getElem? hy
  have h1 := hg.1
  unfold Cfg.rules' at h1
  rcases List.mem_cons.1 h1 with h | h
  · have h2 : s.item.rhs = [ESym.plain (.user pc.c.start)] := (Prod.mk.inj h).2
    rw [h2] at hmem
    simp [ESym.plain] at hmem
  · exact hs.start_fresh _ _ a r h hmem

theorem goodSCols_step_mach (pc : PCfg) (hs : SaneS pc.c) (m : M) (hI : Inv pc.c m) (hg : GoodSCols pc m.cols) :
    GoodSCols pc (step pc.c m).mach.cols := by
  unfold step
  split
  · exact hg
  · split
    · -- an active `complete`: of a FINISHED state
      rename_i t j hfr
      obtain ⟨htg, htfin⟩ := hI.frame t j hfr
      split
      · exact hg
      · rename_i s hsome
        have hsmem : s ∈ (colAt m.cols t.item.origin).findDot t.item.lhs := List.mem_of_getElem? hsome
        have hsg : GoodS pc s t.item.origin := hg.2 _ _ (mem_findDot hsmem)
        have hdot := findDot_dotNT? hsmem
        split
        · rename_i s' hadv
          exact goodSCols_addAt pc.c.policy m.k s' hg (advance_goodS htg htfin hsg hdot hadv)
        · exact hg
    · split
      · exact hg
      · split
        · -- end of the column
          exact goodSCols_shortcut hs hg m.k (hI.states m.k)
        · rename_i s hsome
          have hsmem : s ∈ (colAt m.cols m.k).states := List.mem_of_getElem? hsome
          have hsg := hg.1 _ _ hsmem
          split
          · exact hg
          · split
            · exact hg
            · -- predict
              rename_i x a r hsym
              have hx := goodS_sym_ne_start hs hsg hsym
              exact goodSCols_pred (pc := pc) (k := m.k) hx (pc.c.pred m.k x)
                (fun rhs hr => hs.pred_sub _ _ _ hr) m.cols hg
            · -- scan
              rename_i term hsym
              split
              · exact hg
              · rename_i e l hscan
                split
                · exact hg
                · have hn : GoodS pc { item := s.item.next, kids := s.kids ++ [PT.leaf l], cover := s.cover } e := by
                    apply goodS_next hsg hsym
                    intro j ks hd
                    exact PreS.term hscan hd
                  exact goodSCols_addAt pc.c.policy e _ hg hn

/-! ### the yielded trees -/

theorem preS_nil_inv {rules : List CRule} {scan iscan : Scan} {ks : List PT} {i j : Nat}
    (h : PreS rules scan iscan [] ks i j) : ks = [] ∧ i = j := by
  cases h
  exact ⟨rfl, rfl⟩

theorem preS_single_expl {rules : List CRule} {scan iscan : Scan} {x : NT} {a r : Option String}
    {ks : List PT} {i j : Nat} (hx : x.explicit = true) (h : PreS rules scan iscan [.n x a r] ks i j) :
    ks = [] ∨ ∃ kids rhs, ks = [PT.node x a r kids] ∧ (x, rhs) ∈ rules ∧ PreS rules scan iscan rhs kids i j := by
  cases h with
  | stop => exact Or.inl rfl
  | expl h1 h2 h3 h4 =>
    obtain ⟨e1, e2⟩ := preS_nil_inv h4
    subst e1 e2
    exact Or.inr ⟨_, _, rfl, h2, preS_of_derL h3⟩
  | explCut h1 h2 h3 => exact Or.inr ⟨_, _, rfl, h2, h3⟩
  | impl h1 h2 h3 h4 => rw [hx] at h1; cases h1
  | implCut h1 h2 h3 => rw [hx] at h1; cases h1

/-- the children of a `<*start*>` item of the last column are yielded trees -/
theorem topS_of_der {pc : PCfg} (hs : SaneS pc.c) {it : Item} {kids : List PT} {k : Nat} (hg : DerSIK pc it kids k)
    (hst : it.lhs = .start) (hk : k + 1 = pc.c.ncols) : ∀ pt, pt ∈ kids → TopOkS pc pt := by
  have hD := hg.2.2
  have ho := hg.2.1 hst
  have hrhs : it.rhs = [ESym.plain (.user pc.c.start)] := by
    have h1 := hg.1
    unfold Cfg.rules' at h1
    rcases List.mem_cons.1 h1 with h | h
    · exact (Prod.mk.inj h).2
    · rw [hst] at h; exact absurd h (hs.start_no_rule _)
  rw [hrhs, ho] at hD
  intro pt hpt
  rcases preS_single_expl (x := .user pc.c.start) (a := none) (r := none) rfl hD with hk0 | ⟨kids', rhs, hk1, hk2, hk3⟩
  · rw [hk0] at hpt; cases hpt
  · rw [hk1] at hpt
    simp only [List.mem_singleton] at hpt
    refine ⟨kids', rhs, hpt, ?_, ?_⟩
    · unfold Cfg.rules' at hk2
      rcases List.mem_cons.1 hk2 with h | h
      · cases h
      · exact h
    · have : pc.c.ncols - 1 = k := by omega
      rw [this]; exact hk3

/-! ### the prefix-mode machine -/

/-- the strong invariant of a state of the last column in the end-of-input phase -/
structure StB (pc : PCfg) (s : PSt) : Prop where
  /-- its children are a prefix of a derivation of its rule, from its origin to the end of the input -/
  der : DerSIK pc s.item s.kids pc.L
  /-- not marked `cut_short`, not incomplete: both continuation forms (its children are a COMPLETE derivation of the
      symbols before the dot) -/
  full : s.cut = false → s.inc = false → Good pc.c s.toSt pc.L ∧ GoodSIK pc s.item s.kids pc.L

/-- the invariant of both phases -/
structure SInvQ (pc : PCfg) (pm : PM) : Prop where
  machA : pm.phaseB = false → Inv pc.c pm.m ∧ GoodSCols pc pm.m.cols
  old : pm.phaseB = true → ∀ j s, j ≠ pc.L → s ∈ (colAt pm.m.cols j).dots → Good pc.c s j ∧ GoodS pc s j
  mout : ∀ pt, pt ∈ pm.m.out → TopOkS pc pt
  incs : ∀ p, p ∈ pm.incs → DerSIK pc p.2.item p.2.kids pc.L
  last : ∀ s, s ∈ pm.last → StB pc s
  ldots : ∀ s, s ∈ pm.ldots → StB pc s ∧ s.inc = false
  frame : ∀ t j, pm.frame = some (t, j) → StB pc t
  out : ∀ pt, pt ∈ pm.out → TopOkS pc pt
  pos : 0 < pc.c.ncols

theorem sinvQ_init (pc : PCfg) (hs : SaneS pc.c) (hpos : 0 < pc.c.ncols) : SInvQ pc (PM.init pc) :=
  ⟨fun _ => ⟨inv_init pc.c hs, goodSCols_init pc⟩, (by intro h; cases h), (by intro pt h; cases h),
   (by intro p h; simp [PM.init] at h), (by intro s h; simp [PM.init] at h), (by intro s h; simp [PM.init] at h),
   (by intro t j h; simp [PM.init] at h), (by intro pt h; simp [PM.init] at h), hpos⟩

theorem advanceP_flags (cs : Bool) (p : Policy) (L : Nat) (t s : PSt) :
    (advanceP cs p L t s).cut = (cs && (t.cut || !t.fin)) ∧ (advanceP cs p L t s).inc = false := ⟨rfl, rfl⟩

/-- **the forced completion of the repaired parser keeps the strong invariant**: `t` is the completed state, `s` a
    state of its origin column that is NOT marked `cut_short` -/
theorem advanceP_stB {pc : PCfg} {t s : PSt} {k : Nat} (hk : k = t.item.origin) (ht : StB pc t)
    (hsC : Good pc.c s.toSt k) (hsS : GoodSIK pc s.item s.kids k)
    (hdot : s.item.dotNT? = some t.item.lhs) :
    StB pc (advanceP true pc.c.policy pc.L t s) := by
  subst hk
  obtain ⟨a, r, hy⟩ := dotNT?_n hdot
  obtain ⟨h1, h2⟩ := advanceP_shape true pc.c.policy pc.L t s hy
  obtain ⟨hf1, hf2⟩ := advanceP_flags true pc.c.policy pc.L t s
  -- the new state when `t` is finished and not marked
  have hfull : (t.cut || !t.fin) = false →
      Good pc.c (advanceP true pc.c.policy pc.L t s).toSt pc.L
        ∧ GoodSIK pc (advanceP true pc.c.policy pc.L t s).item (advanceP true pc.c.policy pc.L t s).kids pc.L := by
    intro hc
    simp only [Bool.or_eq_false_iff, Bool.not_eq_false'] at hc
    obtain ⟨htc, htf⟩ := hc
    have hti : t.inc = false := by
      unfold PSt.fin at htf
      simp only [Bool.and_eq_true, Bool.not_eq_true'] at htf
      exact htf.2
    have htfin : t.toSt.item.finished = true := by
      unfold PSt.fin at htf
      simp only [Bool.and_eq_true] at htf
      exact htf.1
    have hD : pc.D t.item.rhs t.kids t.item.origin pc.L := good_finished_der (ht.full htc hti).1 htfin
    constructor
    · have hg := good_next (c := pc.c) (s := s.toSt) (cov := none) hsC hy (completeC_step ht.der.1 hD)
      exact good_congr (s := { item := s.item.next, kids := s.kids ++ _, cover := none }) h1 h2 hg
    · rw [h1, h2]
      exact goodSIK_next hsS hy (completeS_step ht.der.1 hD)
  constructor
  · cases hc : (t.cut || !t.fin) with
    | false => exact derS_of_goodS (hfull hc).2
    | true =>
      refine ⟨?_, ?_, ?_⟩
      · rw [h1]; exact hsS.1
      · rw [h1]; exact hsS.2.1
      · rw [h1, h2]
        have := hsS.2.2 pc.L _ (by rw [drop_of_sym hy]; exact cutS_step (a := a) (r := r) ht.der.1 ht.der.2.2)
        exact this
  · intro hcut _
    rw [hf1] at hcut
    simp only [Bool.true_and] at hcut
    exact hfull hcut

/-- one step of the end-of-input phase -/
theorem sinvQ_stepB (pc : PCfg) (hs : SaneS pc.c) (hcs : pc.cutShort = true) (pm : PM) (hph : pm.phaseB = true)
    (hi : SInvQ pc pm) : SInvQ pc (stepB pc pm).mach := by
  have hold := hi.old hph
  have hA : ∀ pm' : PM, pm'.phaseB = true → pm'.phaseB = false → Inv pc.c pm'.m ∧ GoodSCols pc pm'.m.cols := by
    intro pm' h1 h2; rw [h1] at h2; cases h2
  unfold stepB
  simp only
  split
  · -- an active `complete`
    rename_i t j hfr
    have htd := hi.frame t j hfr
    split
    · exact ⟨hA _ hph, fun _ => hold, hi.mout, hi.incs, hi.last, hi.ldots, (by intro t' j' h; cases h), hi.out, hi.pos⟩
    · rename_i s hsome
      have hfr' : ∀ t' j', some (t, j + 1) = some (t', j') → StB pc t' := by
        intro t' j' h
        simp only [Option.some.injEq, Prod.mk.injEq] at h
        rw [← h.1]; exact htd
      split
      · -- `if s.cut_short: continue`
        exact ⟨hA _ hph, fun _ => hold, hi.mout, hi.incs, hi.last, hi.ldots, hfr', hi.out, hi.pos⟩
      rename_i hskip
      have hscut : s.cut = false := by
        rw [hcs] at hskip
        simpa using hskip
      have hsmem : s ∈ listOf pm pc.L t := List.mem_of_getElem? hsome
      -- the advanced state satisfies both continuation forms in the origin column of `t`
      have hsg : Good pc.c s.toSt t.item.origin ∧ GoodSIK pc s.item s.kids t.item.origin
          ∧ s.item.dotNT? = some t.item.lhs := by
        unfold listOf at hsmem
        split at hsmem
        · rename_i hp
          have hm := List.mem_filter.1 hsmem
          obtain ⟨hst, hsi⟩ := hi.ldots s hm.1
          have := hst.full hscut hsi
          rw [hp]
          exact ⟨this.1, this.2, by simpa using hm.2⟩
        · rename_i hp
          obtain ⟨s0, hs0, rfl⟩ := List.mem_map.1 hsmem
          have := hold _ _ hp (mem_findDot hs0)
          exact ⟨good_congr (s := s0) rfl rfl this.1, this.2, findDot_dotNT? hs0⟩
      have hnew : StB pc (advanceP pc.cutShort pc.c.policy pc.L t s) := by
        rw [hcs]
        exact advanceP_stB rfl htd hsg.1 hsg.2.1 hsg.2.2
      have hninc : (advanceP pc.cutShort pc.c.policy pc.L t s).inc = false := rfl
      rcases addLast_cases pc.c.policy pm (advanceP pc.cutShort pc.c.policy pc.L t s) with he | ⟨_, he | he⟩
      · simp only [PRes.mach]
        rw [he]
        exact ⟨hA _ hph, fun _ => hold, hi.mout, hi.incs, hi.last, hi.ldots, hfr', hi.out, hi.pos⟩
      · simp only [PRes.mach]
        rw [he]
        refine ⟨hA _ hph, fun _ => hold, hi.mout, hi.incs, ?_, ?_, hfr', hi.out, hi.pos⟩
        · intro x hx
          simp only [List.mem_append, List.mem_singleton] at hx
          rcases hx with hx | hx
          · exact hi.last x hx
          · rw [hx]; exact hnew
        · intro x hx
          simp only [List.mem_append, List.mem_singleton] at hx
          rcases hx with hx | hx
          · exact hi.ldots x hx
          · rw [hx]; exact ⟨hnew, hninc⟩
      · simp only [PRes.mach]
        rw [he]
        refine ⟨hA _ hph, fun _ => hold, hi.mout, hi.incs, ?_, hi.ldots, hfr', hi.out, hi.pos⟩
        intro x hx
        simp only [List.mem_append, List.mem_singleton] at hx
        rcases hx with hx | hx
        · exact hi.last x hx
        · rw [hx]; exact hnew
  · rename_i hfr
    split
    · -- the end: only the last column is touched (`place_repetition_shortcut`), no tree is yielded any more
      refine ⟨hA _ hph, ?_, hi.mout, hi.incs, hi.last, hi.ldots,
        (by intro t j h; simp only [PRes.mach] at h; rw [hfr] at h; cases h), hi.out, hi.pos⟩
      intro _ j s hj hsd
      simp only [PRes.mach] at hsd
      rw [(ext_shortcut _ pc.L).2.2.1 j hj, colAt_set] at hsd
      have : ¬ (j = pc.L ∧ pc.L < pm.m.cols.length) := fun h => hj h.1
      rw [if_neg this] at hsd
      exact hold j s hj hsd
    · rename_i s hsome
      have hsmem : s ∈ pm.last := List.mem_of_getElem? hsome
      have hsd := hi.last s hsmem
      split
      · exact ⟨hA _ hph, fun _ => hold, hi.mout, hi.incs, hi.last, hi.ldots,
          (by intro t j h; simp only [PRes.mach] at h; rw [hfr] at h; cases h), hi.out, hi.pos⟩
      · refine ⟨hA _ hph, fun _ => hold, hi.mout, hi.incs, hi.last, hi.ldots, ?_, ?_, hi.pos⟩
        · intro t j h
          simp only [PRes.mach] at h
          split at h
          · cases h
          · simp only [Option.some.injEq, Prod.mk.injEq] at h
            rw [← h.1]; exact hsd
        · intro pt hpt
          simp only [PRes.mach] at hpt
          rcases List.mem_append.1 hpt with h | h
          · exact hi.out _ h
          · split at h
            · rename_i hst
              exact topS_of_der hs hsd.der hst (by unfold PCfg.L; have := hi.pos; omega) pt (mem_newKids h)
            · cases h

/-- the incomplete twin of a good state is a prefix of a derivation that ends with the partial leaf -/
theorem twin_derS {pc : PCfg} {m : M} {e : Nat} {s : St} (hg : GoodSCols pc m.cols) (h : twinOf pc m = some (e, s))
    (he : e + 1 = pc.c.ncols) : DerSIK pc s.item s.kids pc.L := by
  obtain ⟨s0, term, l, hs0, hsym, hscan, rfl⟩ := twinOf_some h
  have hg0 := hg.1 _ _ (List.mem_of_getElem? hs0)
  have hL : pc.L = e := by unfold PCfg.L; omega
  refine ⟨hg0.1, hg0.2.1, ?_⟩
  have := hg0.2.2 pc.L [PT.leaf l] (by rw [drop_of_sym hsym, hL]; exact PreS.pterm hscan)
  exact this

/-- the first loop over the last column is over: no state is marked, the ordinary ones satisfy both continuation forms -/
theorem sinvQ_handover (pc : PCfg) (pm : PM) (hph : pm.phaseB = false) (hi : SInvQ pc pm) :
    SInvQ pc (handover pc pm) := by
  obtain ⟨hI, hg⟩ := hi.machA hph
  have hofSt : ∀ o : St, Good pc.c o pc.L → GoodS pc o pc.L → StB pc (PSt.ofSt pc.L o) := by
    intro o h1 h2
    exact ⟨derS_of_goodS h2, fun _ _ => ⟨good_congr (s := o) rfl rfl h1, h2⟩⟩
  refine ⟨(by intro h; cases h), fun _ j s _ hs => ⟨hI.dots j s hs, hg.2 j s hs⟩, hi.mout, hi.incs, ?_, ?_,
    hi.frame, hi.out, hi.pos⟩
  · intro s hs
    have hs' : s ∈ mergeInc pc.L 0 (colAt pm.m.cols pc.L).states pm.incs := hs
    have := (mergeInc_perm pc.L _ 0 pm.incs).mem_iff.1 hs'
    simp only [List.mem_append, List.mem_map] at this
    rcases this with ⟨o, ho, rfl⟩ | ⟨p, hp, rfl⟩
    · exact hofSt o (hI.states pc.L o ho) (hg.1 pc.L o ho)
    · exact ⟨hi.incs p hp, fun _ h => by cases h⟩
  · intro s hs
    have hs' : s ∈ (colAt pm.m.cols pc.L).dots.map (PSt.ofSt pc.L) := hs
    obtain ⟨o, ho, rfl⟩ := List.mem_map.1 hs'
    exact ⟨hofSt o (hI.dots pc.L o ho) (hg.2 pc.L o ho), rfl⟩

/-- **one step of the prefix-mode machine of the repaired parser keeps the strong invariant** -/
theorem sinvQ_step (pc : PCfg) (hs : SaneS pc.c) (hcs : pc.cutShort = true) (pm : PM) (hi : SInvQ pc pm) :
    SInvQ pc (stepP pc pm).mach := by
  unfold stepP
  split
  · rename_i hph
    exact sinvQ_stepB pc hs hcs pm hph hi
  · rename_i hph
    have hphf : pm.phaseB = false := by
      cases h : pm.phaseB with
      | true => exact absurd h hph
      | false => rfl
    obtain ⟨hI, hg⟩ := hi.machA hphf
    have hold : ∀ pm' : PM, pm'.phaseB = false → pm'.phaseB = true → ∀ j s, j ≠ pc.L →
        s ∈ (colAt pm'.m.cols j).dots → Good pc.c s j ∧ GoodS pc s j := by
      intro pm' h1 h2; rw [h1] at h2; cases h2
    simp only
    split
    · exact hi
    · split
      · exact sinvQ_handover pc pm hphf hi
      · have hI' := inv_step_mach pc.c hs pm.m hI
        have hg' := goodSCols_step_mach pc hs pm.m hI hg
        have hmo : ∀ m' : M, Inv pc.c m' → ∀ pt, pt ∈ m'.out → TopOkS pc pt :=
          fun m' h pt hpt => topOkS_of_topOk (h.out pt hpt)
        split
        · rename_i m' heq
          rw [heq] at hI' hg'
          exact ⟨fun _ => ⟨hI', hg'⟩, hold _ hphf, hmo _ hI', hi.incs, hi.last, hi.ldots, hi.frame, hi.out, hi.pos⟩
        · rename_i m' heq
          rw [heq] at hI' hg'
          exact ⟨fun _ => ⟨hI', hg'⟩, hold _ hphf, hmo _ hI', hi.incs, hi.last, hi.ldots, hi.frame, hi.out, hi.pos⟩
        · rename_i m' heq
          rw [heq] at hI' hg'
          split
          · exact ⟨fun _ => ⟨hI', hg'⟩, hold _ hphf, hmo _ hI', hi.incs, hi.last, hi.ldots, hi.frame, hi.out, hi.pos⟩
          · rename_i e s htwin
            split
            · rename_i he
              refine ⟨fun _ => ⟨hI', hg'⟩, hold _ hphf, hmo _ hI', ?_, hi.last, hi.ldots, hi.frame, hi.out, hi.pos⟩
              intro p hp
              rcases mem_addInc hp with h | h
              · exact hi.incs p h
              · rw [h]; exact twin_derS hg htwin he
            · exact ⟨fun _ => ⟨hI', hg'⟩, hold _ hphf, hmo _ hI', hi.incs, hi.last, hi.ldots, hi.frame, hi.out, hi.pos⟩

theorem sinvQ_run (pc : PCfg) (hs : SaneS pc.c) (hcs : pc.cutShort = true) (fuel : Nat) :
    ∀ pm : PM, SInvQ pc pm → SInvQ pc (runP pc fuel pm).mach := by
  induction fuel with
  | zero => intro pm hi; exact hi
  | succ f ih =>
    intro pm hi
    have h := sinvQ_step pc hs hcs pm hi
    unfold runP
    cases hst : stepP pc pm with
    | next pm' => rw [hst] at h; exact ih pm' h
    | done pm' => rw [hst] at h; exact h
    | raised pm' => rw [hst] at h; exact h

/-- **strong chart soundness of prefix mode, repaired parser**: for every policy, prediction order, scanner,
    partial-match oracle and fuel, every tree the prefix-mode machine has yielded — in the first loop or in the
    end-of-input phase — is the node of the start symbol over a prefix of a DERIVATION of one of its rules spanning all
    columns: only its rightmost path is cut short -/
theorem prefix_chart_strong (pc : PCfg) (hs : SaneS pc.c) (hcs : pc.cutShort = true) (hpos : 0 < pc.c.ncols)
    (fuel : Nat) :
    ∀ pt, pt ∈ (runP pc fuel (PM.init pc)).mach.m.out ++ (runP pc fuel (PM.init pc)).mach.out → TopOkS pc pt := by
  have h := sinvQ_run pc hs hcs fuel (PM.init pc) (sinvQ_init pc hs hpos)
  intro pt hpt
  rcases List.mem_append.1 hpt with h1 | h1
  · exact h.mout pt h1
  · exact h.out pt h1

/-- **what a prefix parse of the model of the repaired parser yields**: every tree is the collapsed node of the start
    symbol over a prefix of a derivation (`PreS`) of one of its rules in the compiled table, spanning all columns -/
theorem prefix_parse_strong (G : Grammar) (v : Variant) (pi : PInput) (start : String)
    (pred : Nat → NT → List (List ESym))
    (hpred : ∀ k x rhs, rhs ∈ pred k x → (x, rhs) ∈ compile G v.cap)
    (fuel : Nat) (ts : List Tree) (h : parsePrefix (mkPCfg G v true pi start pred) fuel = some (.ok ts)) :
    ∀ t ∈ ts, ∃ kids rhs, t = Tree.mk (.nt start) none none (collapseL kids) ∧ (NT.user start, rhs) ∈ compile G v.cap ∧
      PreS (tableOf G v.cap start) (scanV v pi.inp) (iscanV v pi) rhs kids 0 (8 * pi.inp.cells.length) := by
  intro t ht
  let pc := mkPCfg G v true pi start pred
  have hs : SaneS pc.c := saneS_of_rules pc.c G v.cap rfl hpred
  have hpos : 0 < pc.c.ncols := by
    show 0 < 8 * pi.inp.cells.length + 1
    omega
  have hn : pc.c.ncols - 1 = 8 * pi.inp.cells.length := by
    show (8 * pi.inp.cells.length + 1) - 1 = _
    omega
  unfold parsePrefix at h
  have hsound := prefix_chart_strong pc hs rfl hpos fuel
  cases hrun : runP pc fuel (PM.init pc) with
  | next pm => rw [show runP (mkPCfg G v true pi start pred) fuel (PM.init (mkPCfg G v true pi start pred)) = _ from hrun] at h; cases h
  | raised pm => rw [show runP (mkPCfg G v true pi start pred) fuel (PM.init (mkPCfg G v true pi start pred)) = _ from hrun] at h; cases h
  | done pm =>
    rw [show runP (mkPCfg G v true pi start pred) fuel (PM.init (mkPCfg G v true pi start pred)) = _ from hrun] at h
    simp only [Option.some.injEq, Except.ok.injEq] at h
    subst h
    rw [hrun] at hsound
    obtain ⟨pt, hpt, htc⟩ := List.mem_flatMap.1 ht
    obtain ⟨kids, rhs, rfl, hr, hd⟩ := hsound pt hpt
    rw [hn] at hd
    have hd' : PreS (tableOf G v.cap start) (scanV v pi.inp) (iscanV v pi) rhs kids 0 (8 * pi.inp.cells.length) := hd
    have hr' : (NT.user start, rhs) ∈ compile G v.cap := hr
    have hte : t = Tree.mk (.nt start) none none (collapseL kids) := by
      have hst : pc.c.start = start := rfl
      rw [hst] at htc
      simpa [collapse, ntName] using htc
    exact ⟨kids, rhs, hte, hr', hd'⟩

/-! ### `cut_short` and COMPLETE mode -/

/-- the first loop of a prefix parse (phase A: the chart machine of COMPLETE mode plus the incomplete twins) does not
    look at `cutShort` -/
theorem stepP_phaseA_cutShort (G : Grammar) (v : Variant) (pi : PInput) (start : String)
    (pred : Nat → NT → List (List ESym)) (pm : PM) (hph : pm.phaseB = false) :
    stepP (mkPCfg G v true pi start pred) pm = stepP (mkPCfg G v false pi start pred) pm := by
  unfold stepP
  simp only [hph, Bool.false_eq_true, if_false]
  rfl

/-- every `complete` call of the COMPLETE-mode machine is that of a FINISHED state (and so is every call the loop that
    ends `predict` has queued): the flag `state.cut_short or not state.finished()` it hands on is `False` whenever the
    flag of `state` is -/
theorem complete_mode_calls_finished (c : Cfg) (hs : SaneS c) (fuel : Nat) :
    (∀ t i, (run c fuel (M.init c)).mach.frame = some (t, i) → (false || !t.item.finished) = false)
    ∧ (∀ t, t ∈ (run c fuel (M.init c)).mach.pending → (false || !t.item.finished) = false) := by
  have h := inv_run_mach c hs fuel (M.init c) (inv_init c hs)
  constructor
  · intro t i hf
    rw [(h.frame t i hf).2]; rfl
  · intro t ht
    rw [(h.pend t ht).2]; rfl

end FV.Earley
