/-
C06, prefix mode — part 3: the prefix-mode machine stops.

Phase A (the columns are built as in COMPLETE mode): `InvA` = the invariant `TInv` and the well-formedness `WfN` of the
embedded chart machine, plus: the incomplete states kept aside have items of the item space, atoms as children and
pairwise different keys.  Every step of phase A is a step of the embedded machine, so `muN` (capacity
`chartBound c`) drops (`step_any`, `step_inv`).  `handover_inv`: when the first loop over the last column is over,
the merged last column satisfies `InvB`.  Phase B: the measure `muB` — free capacity of the last column, states not
yet visited, rest of the active `complete` loop — drops with every step (`stepB_mu`).  `runP_finishes`: one
well-founded measure `muP` for both phases; `prefix_terminates`: `done`/`raised` within `prefixBound pc` steps.
-/
import Proofs.EarleyPrefixInv
namespace FV.Earley

/-! ### phase A -/

structure InvA (pc : PCfg) (pm : PM) : Prop where
  ph : pm.phaseB = false
  fr0 : pm.frame = none
  last0 : pm.last = []
  ti : TInv pc.c pm.m
  wf : WfN pc.c pm.m
  incOk : ∀ p, p ∈ pm.incs → Item.ok pc.c pc.L p.2.item ∧ p.2.kids ∈ atoms pc
  incNd : (pm.incs.map (fun p => stKey p.2)).Pairwise (· ≠ ·)

theorem invA_init {pc : PCfg} (hp : pc.c.policy = .acyclic) : InvA pc (PM.init pc) where
  ph := rfl
  fr0 := rfl
  last0 := rfl
  ti := tinv_init hp
  wf := wfN_init pc.c
  incOk := by intro p h; simp [PM.init] at h
  incNd := by simp [PM.init]

theorem twinOf_some {pc : PCfg} {m : M} {e : Nat} {s : St} (h : twinOf pc m = some (e, s)) :
    ∃ s0 term l, (colAt m.cols m.k).states[m.idx]? = some s0 ∧ s0.item.sym? = some (.t term)
      ∧ pc.iscan term m.k = some (e, l)
      ∧ s = { item := s0.item, kids := s0.kids ++ [PT.leaf l], cover := s0.cover } := by
  unfold twinOf at h
  split at h
  · cases h
  · split at h
    · cases h
    · rename_i s0 hs0
      split at h
      · cases h
      · split at h
        · rename_i term hsym
          split at h
          · rename_i e' l hscan
            simp only [Option.some.injEq, Prod.mk.injEq] at h
            refine ⟨s0, term, l, hs0, hsym, ?_, h.2.symm⟩
            rw [hscan, h.1]
          · cases h
        · cases h

theorem addInc_inv {pc : PCfg} {ord : List St} {incs : List (Nat × St)} {s : St}
    (hok : ∀ p, p ∈ incs → Item.ok pc.c pc.L p.2.item ∧ p.2.kids ∈ atoms pc)
    (hnd : (incs.map (fun p => stKey p.2)).Pairwise (· ≠ ·))
    (hs : Item.ok pc.c pc.L s.item ∧ s.kids ∈ atoms pc) :
    (∀ p, p ∈ addInc .acyclic ord incs s → Item.ok pc.c pc.L p.2.item ∧ p.2.kids ∈ atoms pc)
    ∧ ((addInc .acyclic ord incs s).map (fun p => stKey p.2)).Pairwise (· ≠ ·) := by
  unfold addInc
  split
  · exact ⟨hok, hnd⟩
  · rename_i hcond
    simp only [Bool.or_eq_true, not_or, Bool.not_eq_true] at hcond
    constructor
    · intro p hp
      simp only [List.mem_append, List.mem_singleton] at hp
      rcases hp with hp | hp
      · exact hok p hp
      · rw [hp]; exact hs
    · rw [List.map_append, List.pairwise_append]
      refine ⟨hnd, by simp, ?_⟩
      intro a ha b hb
      simp only [List.map_cons, List.map_nil, List.mem_singleton] at hb
      subst hb
      obtain ⟨x, hx, rfl⟩ := List.mem_map.1 ha
      apply stKey_ne_of_not_dup
      cases hd : St.dup .acyclic x.2 s with
      | false => rfl
      | true =>
        have : incs.any (fun x => St.dup .acyclic x.2 s) = true := List.any_eq_true.2 ⟨x, hx, hd⟩
        rw [hcond.2] at this; cases this

/-! ### the merged last column -/

theorem mergeInc_perm (L : Nat) : ∀ (ord : List St) (i : Nat) (incs : List (Nat × St)),
    (mergeInc L i ord incs).Perm (ord.map (PSt.ofSt L) ++ incs.map (fun p => PSt.ofInc L p.2))
  | [], i, incs => by simp [mergeInc]
  | o :: ord, i, incs => by
    simp only [mergeInc, List.map_cons, List.cons_append]
    have ih := mergeInc_perm L ord (i + 1) (incs.dropWhile (fun p => decide (p.1 ≤ i)))
    have hsplit : incs.map (fun p => PSt.ofInc L p.2)
        = (incs.takeWhile (fun p => decide (p.1 ≤ i))).map (fun p => PSt.ofInc L p.2)
          ++ (incs.dropWhile (fun p => decide (p.1 ≤ i))).map (fun p => PSt.ofInc L p.2) := by
      rw [← List.map_append, List.takeWhile_append_dropWhile]
    rw [hsplit]
    refine List.perm_middle.trans (List.Perm.cons _ ?_)
    refine (List.Perm.append_left _ ih).trans ?_
    rw [← List.append_assoc, ← List.append_assoc]
    exact List.Perm.append_right _ List.perm_append_comm

theorem keyP_ofSt (L : Nat) (s : St) : keyP (PSt.ofSt L s) = (s.item, s.kids, false) := rfl
theorem keyP_ofInc (L : Nat) (s : St) : keyP (PSt.ofInc L s) = (s.item, s.kids, true) := rfl

theorem mergeInc_nd (L : Nat) (ord : List St) (incs : List (Nat × St))
    (h1 : ord.Pairwise (fun a b => St.dup .acyclic a b = false))
    (h2 : (incs.map (fun p => stKey p.2)).Pairwise (· ≠ ·)) :
    ((mergeInc L 0 ord incs).map keyP).Pairwise (· ≠ ·) := by
  have hperm := (mergeInc_perm L ord 0 incs).map keyP
  rw [hperm.pairwise_iff (fun h => Ne.symm h)]
  rw [List.map_append, List.pairwise_append]
  refine ⟨?_, ?_, ?_⟩
  · rw [List.map_map, List.pairwise_map]
    apply h1.imp
    intro a b hab he
    simp only [Function.comp, keyP_ofSt, Prod.mk.injEq] at he
    exact stKey_ne_of_not_dup hab (by unfold stKey; rw [he.1, he.2.1])
  · rw [List.map_map, List.pairwise_map]
    rw [List.pairwise_map] at h2
    apply h2.imp
    intro a b hab he
    simp only [Function.comp, keyP_ofInc, Prod.mk.injEq] at he
    exact hab (by unfold stKey; rw [he.1, he.2.1])
  · intro a ha b hb
    simp only [List.map_map, List.mem_map, Function.comp] at ha hb
    obtain ⟨x, _, rfl⟩ := ha
    obtain ⟨y, _, rfl⟩ := hb
    rw [keyP_ofSt, keyP_ofInc]
    intro he
    simp at he

theorem handover_inv {pc : PCfg} {pm : PM} (hi : InvA pc pm) (hk : pm.m.k + 1 = pc.c.ncols) :
    InvB pc (handover pc pm) := by
  have hL : pc.L = pm.m.k := by unfold PCfg.L; omega
  have hkn : pm.m.k < pc.c.ncols := by omega
  have hlast : (handover pc pm).last = mergeInc pc.L 0 (colAt pm.m.cols pc.L).states pm.incs := rfl
  have hdots : (handover pc pm).ldots = (colAt pm.m.cols pc.L).dots.map (PSt.ofSt pc.L) := rfl
  have hcols : (handover pc pm).m = pm.m := rfl
  have hord : ∀ o, o ∈ (colAt pm.m.cols pc.L).states ∨ o ∈ (colAt pm.m.cols pc.L).dots → PSB pc (PSt.ofSt pc.L o) := by
    intro o ho
    have hps : PS pc.c pm.m.k pc.L o := by
      rcases ho with ho | ho
      · exact hi.ti.ch.stS _ _ ho
      · exact hi.ti.ch.stD _ _ ho
    refine ⟨hps.ok, ?_⟩
    exact KB_atoms (atoms_of_atoms0 (ps_atoms0 hps (by rw [hL]; exact hkn) (by omega))) _
  refine ⟨rfl, ?_, ?_⟩
  · rw [hlast, hdots, hcols]
    refine ⟨hi.ti.ch.len, by omega, ?_, ?_, ?_, ?_, ?_, ?_⟩
    · intro j s hj hs
      have hps := hi.ti.ch.stD j s hs
      exact ⟨hps.ok, ps_atoms0 hps (by omega) (by omega)⟩
    · intro j _
      have h1 := hi.wf.dots_le j
      have h2 := tinv_bounded hi.ti j
      omega
    · intro s hs
      have := (mergeInc_perm pc.L _ 0 pm.incs).mem_iff.1 hs
      simp only [List.mem_append, List.mem_map] at this
      rcases this with ⟨o, ho, rfl⟩ | ⟨p, hp, rfl⟩
      · exact hord o (Or.inl ho)
      · have := hi.incOk p hp
        exact ⟨this.1, KB_atoms this.2 _⟩
    · intro s hs
      obtain ⟨o, ho, rfl⟩ := List.mem_map.1 hs
      exact hord o (Or.inr ho)
    · exact mergeInc_nd pc.L _ pm.incs (hi.ti.ch.nd pc.L (by omega)) hi.incNd
    · have h1 := (mergeInc_perm pc.L (colAt pm.m.cols pc.L).states 0 pm.incs).length_eq
      have h2 := hi.wf.dotsNew pc.L (by omega)
      simp only [List.length_append, List.length_map] at h1 ⊢
      omega
  · intro t j hh
    have : (handover pc pm).frame = pm.frame := rfl
    rw [this, hi.fr0] at hh
    cases hh

/-! ### the measure of phase B -/

/-- capacity that bounds the last column and every list a `complete` call walks -/
def capN (pc : PCfg) : Nat := capP pc + 2 * chartBound pc.c

def frameRemB (pc : PCfg) (pm : PM) : Nat :=
  match pm.frame with
  | none => 0
  | some (t, j) => (listOf pm pc.L t).length - j + 1

def muB (pc : PCfg) (pm : PM) : Nat :=
  (capN pc - pm.last.length) * (capN pc + 3) + (pm.last.length - pm.idx) * (capN pc + 2) + frameRemB pc pm

/-- `listOf` as a function of what it reads -/
def listOfC (ldots : List PSt) (cols : List Col) (L : Nat) (t : PSt) : List PSt :=
  if t.item.origin = L then ldots.filter (fun s => s.item.dotNT? == some t.item.lhs)
  else ((colAt cols t.item.origin).findDot t.item.lhs).map (PSt.ofSt L)

theorem listOf_def (pm : PM) (L : Nat) (t : PSt) : listOf pm L t = listOfC pm.ldots pm.m.cols L t := rfl

theorem listOfC_append (ldots : List PSt) (cols : List Col) (L : Nat) (t s : PSt) :
    (listOfC (ldots ++ [s]) cols L t).length ≤ (listOfC ldots cols L t).length + 1 := by
  unfold listOfC
  split
  · rw [List.filter_append]
    have := List.length_filter_le (fun s => s.item.dotNT? == some t.item.lhs) [s]
    simp only [List.length_append, List.length_singleton] at this ⊢
    omega
  · omega

theorem listOf_len {pc : PCfg} {pm : PM} {t : PSt} (hi : ChartB pc pm.m.cols pm.last pm.ldots) (ht : PSB pc t) :
    (listOf pm pc.L t).length ≤ capN pc := by
  unfold listOf capN
  split
  · have h1 := List.length_filter_le (fun s => s.item.dotNT? == some t.item.lhs) pm.ldots
    have h2 := hi.dlen
    have h3 := lastLen_le hi
    omega
  · rename_i hp
    have hlt : t.item.origin < pc.L := by have := ht.ok.2.2; omega
    have h1 := hi.oldLen _ hlt
    simp only [List.length_map]
    unfold Col.findDot
    have h2 := List.length_filter_le (fun s => s.item.dotNT? == some t.item.lhs) (colAt pm.m.cols t.item.origin).dots
    omega

theorem muB_grow (N l idx f f' : Nat) (hl : l + 1 ≤ N) (hf : f' ≤ f) :
    (N - (l + 1)) * (N + 3) + (l + 1 - idx) * (N + 2) + f' < (N - l) * (N + 3) + (l - idx) * (N + 2) + f := by
  have e1 : N - l = (N - (l + 1)) + 1 := by omega
  have e2 : (l + 1 - idx) * (N + 2) ≤ (l - idx) * (N + 2) + (N + 2) := by
    have : l + 1 - idx ≤ (l - idx) + 1 := by omega
    have := Nat.mul_le_mul_right (N + 2) this
    rw [Nat.add_mul] at this
    omega
  rw [e1, Nat.add_mul]
  omega

theorem muB_visit (N l idx f : Nat) (hidx : idx < l) (hf : f ≤ N + 1) :
    (l - (idx + 1)) * (N + 2) + f < (l - idx) * (N + 2) := by
  have e1 : l - idx = (l - (idx + 1)) + 1 := by omega
  rw [e1, Nat.add_mul]
  omega

/-- **every step of the end-of-input phase lowers the measure** -/
theorem stepB_mu {pc : PCfg} (hp : pc.c.policy = .acyclic) {pm pm' : PM} (hi : InvB pc pm)
    (h : stepB pc pm = .next pm') : muB pc pm' < muB pc pm := by
  have hi' := stepB_inv hp hi h
  unfold stepB at h
  simp only at h
  split at h
  · rename_i t j hfr
    obtain ⟨htps, htcut⟩ := hi.fr t j hfr
    split at h
    · cases h
      unfold muB frameRemB
      simp only [hfr]
      omega
    · rename_i s hsome
      have hjlt : j < (listOf pm pc.L t).length := (List.getElem?_eq_some_iff.1 hsome).1
      split at h
      · -- `if s.cut_short: continue`
        cases h
        unfold muB frameRemB
        simp only [hfr, listOf_def] at hjlt ⊢
        omega
      cases h
      rw [hp] at hi' ⊢
      rcases addLast_cases .acyclic pm (advanceP pc.cutShort .acyclic pc.L t s) with he | ⟨_, he | he⟩
      · rw [he]
        unfold muB frameRemB
        simp only [hfr, listOf_def] at hjlt ⊢
        omega
      · rw [he] at hi' ⊢
        have hlen := lastLen_le hi'.ch
        simp only [List.length_append, List.length_singleton] at hlen
        unfold muB frameRemB
        simp only [hfr, List.length_append, List.length_singleton]
        have hcap : capP pc ≤ capN pc := by unfold capN; omega
        simp only [listOf_def] at hjlt ⊢
        apply muB_grow _ _ _ _ _ (by omega)
        have := listOfC_append pm.ldots pm.m.cols pc.L t (advanceP pc.cutShort .acyclic pc.L t s)
        omega
      · rw [he] at hi' ⊢
        have hlen := lastLen_le hi'.ch
        simp only [List.length_append, List.length_singleton] at hlen
        unfold muB frameRemB
        simp only [hfr, List.length_append, List.length_singleton]
        have hcap : capP pc ≤ capN pc := by unfold capN; omega
        simp only [listOf_def] at hjlt ⊢
        apply muB_grow _ _ _ _ _ (by omega)
        omega
  · rename_i hfr
    split at h
    · cases h
    · rename_i s hsome
      have hidx : pm.idx < pm.last.length := (List.getElem?_eq_some_iff.1 hsome).1
      have hsmem : s ∈ pm.last := List.mem_of_getElem? hsome
      split at h
      · cases h
        unfold muB frameRemB
        simp only [hfr]
        have := muB_visit (capN pc) pm.last.length pm.idx 0 hidx (by omega)
        omega
      · cases h
        unfold muB frameRemB
        simp only [hfr]
        have hl := listOf_len hi.ch (hi.ch.lastOk s hsmem)
        split
        · rename_i hnone
          split at hnone
          · have := muB_visit (capN pc) pm.last.length pm.idx 0 hidx (by omega)
            omega
          · cases hnone
        · rename_i t j hsome'
          split at hsome'
          · cases hsome'
          · simp only [Option.some.injEq, Prod.mk.injEq] at hsome'
            obtain ⟨rfl, rfl⟩ := hsome'
            simp only [listOf_def] at hl ⊢
            have := muB_visit (capN pc) pm.last.length pm.idx ((listOfC pm.ldots pm.m.cols pc.L s).length - 0 + 1)
              hidx (by omega)
            omega

/-! ### both phases -/

/-- the largest value of `muB` when the end-of-input phase begins -/
def maxB (pc : PCfg) : Nat := capN pc * (capN pc + 3) + capN pc * (capN pc + 2)

def muP (pc : PCfg) (pm : PM) : Nat :=
  if pm.phaseB then muB pc pm else muN pc.c (chartBound pc.c) pm.m + 1 + maxB pc

def InvP (pc : PCfg) (pm : PM) : Prop := InvA pc pm ∨ InvB pc pm

/-- **the step bound of a prefix parse**: a function of the configuration alone -/
def prefixBound (pc : PCfg) : Nat := stepBoundN pc.c (chartBound pc.c) + maxB pc + 2

theorem muB_handover {pc : PCfg} {pm : PM} (hi : InvA pc pm) (hb : InvB pc (handover pc pm)) :
    muB pc (handover pc pm) ≤ maxB pc := by
  unfold muB frameRemB maxB
  have hfr : (handover pc pm).frame = none := hi.fr0
  have hidx : (handover pc pm).idx = 0 := rfl
  rw [hfr, hidx]
  simp only
  have hlen := lastLen_le hb.ch
  have hcap : capP pc ≤ capN pc := by unfold capN; omega
  have h1 : (capN pc - (handover pc pm).last.length) * (capN pc + 3) ≤ capN pc * (capN pc + 3) :=
    Nat.mul_le_mul_right _ (by omega)
  have h2 : ((handover pc pm).last.length - 0) * (capN pc + 2) ≤ capN pc * (capN pc + 2) :=
    Nat.mul_le_mul_right _ (by omega)
  omega

/-- **one step of the prefix-mode machine**: the invariant is kept and the measure drops -/
theorem stepP_inv {pc : PCfg} (hs : Sane pc.c) (hp : pc.c.policy = .acyclic) {pm pm' : PM} (hi : InvP pc pm)
    (h : stepP pc pm = .next pm') : InvP pc pm' ∧ muP pc pm' < muP pc pm := by
  rcases hi with hi | hi
  · -- phase A
    have hph := hi.ph
    unfold stepP at h
    simp only [hph, Bool.false_eq_true, ↓reduceIte] at h
    split at h
    · cases h
    · rename_i hk
      split at h
      · -- the first loop over the last column is over
        rename_i hcond
        cases h
        simp only [Bool.and_eq_true, decide_eq_true_eq] at hcond
        have hb := handover_inv hi hcond.1.1.1
        refine ⟨Or.inr hb, ?_⟩
        unfold muP
        have : (handover pc pm).phaseB = true := rfl
        simp only [this, hph, ↓reduceIte, Bool.false_eq_true]
        have := muB_handover hi hb
        omega
      · split at h
        · cases h
        · cases h
        · rename_i m' hstep
          have hti' := step_inv hs hp hi.ti hstep
          obtain ⟨hwf', hmu⟩ := step_any (N := chartBound pc.c) (fun t k e l hh => hs.scan t k e l hh) hi.wf hstep
            (tinv_bounded hti')
          split at h
          · cases h
            refine ⟨Or.inl ⟨rfl, hi.fr0, hi.last0, hti', hwf', hi.incOk, hi.incNd⟩, ?_⟩
            unfold muP
            simp only [hph, Bool.false_eq_true, ↓reduceIte]
            omega
          · rename_i e s htwin
            split at h
            · cases h
              obtain ⟨s0, term, l, hs0, hsym, hscan, rfl⟩ := twinOf_some htwin
              have hs0mem : s0 ∈ (colAt pm.m.cols pm.m.k).states := List.mem_of_getElem? hs0
              have hps := hi.ti.ch.stS _ _ hs0mem
              have hkn : pm.m.k < pc.c.ncols := by omega
              have hnew : Item.ok pc.c pc.L s0.item ∧ s0.kids ++ [PT.leaf l] ∈ atoms pc :=
                ⟨Item.ok_mono hps.ok (by unfold PCfg.L; omega),
                 atoms_leaf (ps_atoms0 hps hkn (by omega)) (mem_ileafList hps.ok hsym hkn hscan)⟩
              rw [hp]
              obtain ⟨g1, g2⟩ := addInc_inv (ord := (colAt m'.cols e).states)
                (s := { item := s0.item, kids := s0.kids ++ [PT.leaf l], cover := s0.cover }) hi.incOk hi.incNd hnew
              refine ⟨Or.inl ⟨rfl, hi.fr0, hi.last0, hti', hwf', g1, g2⟩, ?_⟩
              unfold muP
              simp only [hph, Bool.false_eq_true, ↓reduceIte]
              omega
            · cases h
  · -- phase B
    have hph := hi.ph
    unfold stepP at h
    simp only [hph, ↓reduceIte] at h
    have hi' := stepB_inv hp hi h
    have hmu := stepB_mu hp hi h
    refine ⟨Or.inr hi', ?_⟩
    unfold muP
    simp only [hph, hi'.ph, ↓reduceIte]
    exact hmu

/-- a run that is given more fuel than the measure of its state does not run out of fuel -/
theorem runP_finishes {pc : PCfg} (hs : Sane pc.c) (hp : pc.c.policy = .acyclic) :
    ∀ (n : Nat) (pm : PM), InvP pc pm → muP pc pm < n →
      ∃ pm', runP pc n pm = .done pm' ∨ runP pc n pm = .raised pm' := by
  intro n
  induction n with
  | zero => intro pm _ h; omega
  | succ n ih =>
    intro pm hi hmu
    unfold runP
    cases hst : stepP pc pm with
    | next pm' =>
      obtain ⟨hi', hlt⟩ := stepP_inv hs hp hi hst
      exact ih pm' hi' (by omega)
    | done pm' => exact ⟨pm', Or.inl rfl⟩
    | raised pm' => exact ⟨pm', Or.inr rfl⟩

/-- **the prefix-mode machine of the code stops**: `done` or `raised` within `prefixBound pc` steps -/
theorem prefix_terminates {pc : PCfg} (hs : Sane pc.c) (hp : pc.c.policy = .acyclic) :
    ∃ pm', runP pc (prefixBound pc) (PM.init pc) = .done pm'
         ∨ runP pc (prefixBound pc) (PM.init pc) = .raised pm' := by
  apply runP_finishes hs hp _ _ (Or.inl (invA_init hp))
  unfold muP prefixBound stepBoundN
  have : (PM.init pc).phaseB = false := rfl
  simp only [this, Bool.false_eq_true, ↓reduceIte]
  have : (PM.init pc).m = M.init pc.c := rfl
  rw [this]
  omega

/-- the chart of the end-of-input phase is bounded: at most `capP pc` states in the last column -/
theorem runP_last_bounded {pc : PCfg} (hs : Sane pc.c) (hp : pc.c.policy = .acyclic) :
    ∀ (n : Nat) (pm0 pm : PM), InvP pc pm0 → runP pc n pm0 = .next pm → pm.last.length ≤ capP pc := by
  intro n
  induction n with
  | zero =>
    intro pm0 pm hi h
    unfold runP at h
    cases h
    rcases hi with hi | hi
    · -- phase A: the field `last` is not in use yet
      rw [hi.last0]; simp
    · exact lastLen_le hi.ch
  | succ n ih =>
    intro pm0 pm hi h
    unfold runP at h
    cases hst : stepP pc pm0 with
    | next pm1 =>
      rw [hst] at h
      exact ih pm1 pm (stepP_inv hs hp hi hst).1 h
    | done pm1 => rw [hst] at h; cases h
    | raised pm1 => rw [hst] at h; cases h

end FV.Earley
