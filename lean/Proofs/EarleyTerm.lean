/-
C06 helper lemmas: the chart machine started on any input is well formed, and under the core admission
policy `run` reaches `done`/`raised` within `mu (init) + 1` steps (no fuel parameter in the statement:
the bound is a function of the configuration).
-/
import Proofs.Earley
import Proofs.EarleyCols
namespace FV.Earley

/-- `predict` reading the alternatives off the rule table itself, in table order -/
def predOfRules (rules : List CRule) : Nat → NT → List (List ESym) :=
  fun _ x => (rules.filter (fun (r : CRule) => decide (r.1 = x))).map (·.2)

theorem predOfRules_mem {rules : List CRule} {k : Nat} {x : NT} {rhs : List ESym}
    (h : rhs ∈ predOfRules rules k x) : (x, rhs) ∈ rules := by
  unfold predOfRules at h
  obtain ⟨r, hr, he⟩ := List.mem_map.1 h
  have hf := List.mem_filter.1 hr
  have hx : r.1 = x := by simpa using hf.2
  have : r = (x, rhs) := by
    cases r with
    | mk a b => simp only at hx he; rw [hx, he]
  rw [← this]; exact hf.1

theorem scanV_mono (v : Variant) (inp : Input) (t : Term) (k e : Nat) (l : Leaf)
    (h : scanV v inp t k = some (e, l)) : k ≤ e := by
  unfold scanV at h
  split at h <;> dsimp only at h
  · split at h
    · cases h
    · split at h
      · cases h
      · split at h
        · simp only [Option.some.injEq, Prod.mk.injEq] at h; omega
        · cases h
  · split at h
    · cases h
    · split at h
      · simp only [Option.some.injEq, Prod.mk.injEq] at h; omega
      · cases h
  · split at h
    · cases h
    · split at h
      · simp only [Option.some.injEq, Prod.mk.injEq] at h; omega
      · cases h
  · split at h
    · cases h
    · split at h
      · cases h
      · split at h
        · cases h
        · simp only [Option.some.injEq, Prod.mk.injEq] at h; omega

theorem scanImpl_mono (inp : Input) (t : Term) (k e : Nat) (l : Leaf) (h : scanImpl inp t k = some (e, l)) :
    k ≤ e := scanV_mono Variant.now inp t k e l h

/-- the machine for a compiled rule table, a variant of the code and a concrete input, prediction in table
    order (`v.cap` is not used: the table is given) -/
def cfgOf (rules : List CRule) (v : Variant) (inp : Input) (start : String) : Cfg :=
  { rules := rules, pred := predOfRules rules, scan := scanV v inp, ncols := inp.ncols, policy := v.policy,
    start := start, predDone := v.predDone }

theorem sane_cfgOf (rules : List CRule) (v : Variant) (inp : Input) (start : String) :
    Sane (cfgOf rules v inp start) :=
  ⟨fun k x rhs h => predOfRules_mem (rules := rules) (k := k) (x := x) h, fun t k e l h => scanV_mono v inp t k e l h⟩

/-- `mkCfg` with any prediction order that only offers alternatives of the table is sane -/
theorem sane_mkCfg (G : Grammar) (v : Variant) (inp : Input) (start : String) (pred : Nat → NT → List (List ESym))
    (hpred : ∀ k x rhs, rhs ∈ pred k x → (x, rhs) ∈ compile G v.cap) : Sane (mkCfg G v inp start pred) :=
  ⟨hpred, fun t k e l h => scanV_mono v inp t k e l h⟩

theorem wfc_replicate (c : Cfg) : WfC c (List.replicate c.ncols {}) 0 where
  len := by simp
  okS := by intro j s h; rw [colAt_replicate] at h; cases h
  okD := by intro j s h; rw [colAt_replicate] at h; cases h
  cap := by intro j _; rw [colAt_replicate]; simp [free_nil]
  capOld := by intro j h; omega
  dotsNew := by intro j _; rw [colAt_replicate]; simp
  dotsOld := by intro j h; omega

theorem start_ok (c : Cfg) : Item.ok c 0 (startItem c.start) := by
  refine ⟨?_, ?_, ?_⟩
  · unfold Cfg.rules' startItem; simp
  · unfold startItem; simp
  · unfold startItem; simp

theorem wf_init {c : Cfg} (hp : c.policy = .core) : Wf c (M.init c) where
  cols := by
    unfold M.init
    rw [hp]
    exact wfc_addAt (s := { item := startItem c.start, kids := [] }) (wfc_replicate c) (Nat.le_refl 0) (start_ok c)
  frameOk := by intro t i h; unfold M.init at h; cases h
  pendOk := by intro t h; unfold M.init at h; cases h
  pendLen := by unfold M.init; simp

/-- a run that is given more fuel than the measure of its state does not run out of fuel -/
theorem run_core_finishes {c : Cfg} (hs : Sane c) (hp : c.policy = .core) :
    ∀ (n : Nat) (m : M), Wf c m → mu c m < n → ∃ m', run c n m = .done m' ∨ run c n m = .raised m' := by
  intro n
  induction n with
  | zero => intro m _ h; omega
  | succ n ih =>
    intro m hw hmu
    unfold run
    cases hst : step c m with
    | next m' =>
      obtain ⟨hw', hlt⟩ := step_core hs hp hw hst
      exact ih m' hw' (by omega)
    | done m' => exact ⟨m', Or.inl rfl⟩
    | raised m' => exact ⟨m', Or.inr rfl⟩

/-- the step bound of the core recogniser: a function of the configuration alone -/
def stepBound (c : Cfg) : Nat := mu c (M.init c) + 1

end FV.Earley
