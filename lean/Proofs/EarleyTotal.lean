import Proofs.EarleyComplete9
import Proofs.EarleyBound
namespace FV.Earley
end FV.Earley
