/-
C04 + C05 + C06 composed: the three families of theorems about ONE machine model (`Model/Earley.lean`, `Variant.now` =
the parser as it is) in one place, with no fuel parameter left free.

* soundness     `Proofs/C04*.lean`           every yielded tree is `Valid`, rooted at the start symbol, tiles the input;
* termination   `Proofs/EarleyBound.lean`    the run is over within `totalFuel c` steps (`Proofs/EarleyFuel.lean`: and the
                                             answer does not depend on the budget);
* completeness  `Proofs/EarleyComplete*.lean` a word of the scanner-level language (`Scan.accepts`) is parsed;
* the converse  `Proofs/EarleyTotalLang.lean` a parse that returns a tree only does so for a word of that language.

(The three families could not be imported together before: `Proofs/C04Chart.lean` and `Proofs/EarleyTerm.lean` /
`Proofs/EarleyBound.lean` both declared `FV.Earley.Inv`, `inv_init`, `colAt_replicate`.  The termination family's are
now `TInv`, `tinv_init`; `colAt_replicate` lives once in `Proofs/EarleyCols.lean`.)

Here: `parse_now_total` (the parser model is a total function into `ok ts`), `parse_now_decides` (… and `ts ≠ []` iff
the word is in the language: the Earley machine model DECIDES the scanner-level language), `now_trees_sound` (C04 for
the answer), and the concrete instance `("a"?)* "b"` / "ab" (a grammar with a same-span self-derivation: the
divergence class of the old parser) on which the Props files show that all hypotheses are met.
-/
import Proofs.EarleyComplete9
import Proofs.EarleyTotalLang
import Proofs.EarleyFuel
namespace FV.Earley
open FV.Scan (accepts)

/-- a prediction order with exactly the alternatives of the table only offers alternatives of the table -/
theorem PredExact.sub {G : Grammar} {pred : Nat → NT → List (List ESym)} (hp : PredExact G pred) :
    ∀ k x rhs, rhs ∈ pred k x → (x, rhs) ∈ compile G Variant.now.cap := fun k x rhs h => (hp k x rhs).1 h

/-- **the parser model is a total function** (the code as it is; every grammar, every input whose regex oracle never
    reports more than is left, every start symbol, every prediction order that only offers alternatives of the
    table): at `totalFuel` the parse has finished WITHOUT an exception, every larger budget returns the same trees,
    and no budget returns anything else -/
theorem parse_now_total (G : Grammar) (inp : Input) (ho : RlenOk inp) (start : String)
    (pred : Nat → NT → List (List ESym)) (hpred : ∀ k x rhs, rhs ∈ pred k x → (x, rhs) ∈ compile G none) :
    ∃ ts, parseComplete (mkCfg G Variant.now inp start pred) (totalFuel (mkCfg G Variant.now inp start pred))
          = some (.ok ts) ∧
      (∀ fuel, totalFuel (mkCfg G Variant.now inp start pred) ≤ fuel →
        parseComplete (mkCfg G Variant.now inp start pred) fuel = some (.ok ts)) ∧
      (∀ fuel r, parseComplete (mkCfg G Variant.now inp start pred) fuel = some r → r = .ok ts) :=
  parse_total_ok (sane_mkCfg G Variant.now inp start pred hpred) rfl
    (fun _ _ _ _ h hk => (scanNow_bounds inp ho h).2 hk)

/-- **the Earley machine model decides the scanner-level language**: the answer of the total parser is a non-empty
    list of trees iff some expansion of the grammar (some nesting depth, some bound on the repetition counts) is read
    by the scanners from the first to the last column.  (⇐: completeness, `accepts_parsed`; ⇒: chart soundness + the
    converse of the compilation, `parsed_accepts`.) -/
theorem parse_now_decides (G : Grammar) (hwf : G.wf = true) (inp : Input) (ho : RlenOk inp) (start : String)
    (pred : Nat → NT → List (List ESym)) (hp : PredExact G pred) :
    ∃ ts, parseComplete (mkCfg G Variant.now inp start pred) (totalFuel (mkCfg G Variant.now inp start pred))
          = some (.ok ts) ∧
      (∀ fuel, totalFuel (mkCfg G Variant.now inp start pred) ≤ fuel →
        parseComplete (mkCfg G Variant.now inp start pred) fuel = some (.ok ts)) ∧
      (ts ≠ [] ↔ ∃ c d, accepts G inp.toInp c d start = true) := by
  obtain ⟨ts, h1, h2, _⟩ := parse_now_total G inp ho start pred hp.sub
  refine ⟨ts, h1, h2, ?_, ?_⟩
  · intro hne
    exact parsed_accepts G hwf inp start pred hp.sub _ ts h1 hne
  · rintro ⟨c, d, hacc⟩
    exact (accepts_parsed G hwf inp ho start pred hp c d hacc _).2 ts h1

/-- C04 for the trees of a finished parse of the code as it is: valid derivations from the start symbol whose leaves
    tile the input, payload leaves on cell boundaries -/
theorem now_trees_sound (G : Grammar) (hwf : G.wf = true) (inp : Input) (R : RegexOracle)
    (hoR : OracleOk inp R) (hcells : CellsOk inp) (hty : G.typed inp.isBytes = true) (start : String)
    (pred : Nat → NT → List (List ESym)) (hpred : ∀ k x rhs, rhs ∈ pred k x → (x, rhs) ∈ compile G none)
    (fuel : Nat) (ts : List Tree)
    (h : parseComplete (mkCfg G Variant.now inp start pred) fuel = some (.ok ts)) :
    ∀ t ∈ ts, Valid G R t ∧ t.sym = .nt start ∧ Tiles inp t.leaves 0 (8 * inp.cells.length) := by
  intro t ht
  have h1 := parse_sound_of_scan G Variant.now inp start pred (scanV Variant.now inp) R hpred hwf hty
    (fun t hp' k m l hs => by
      have := scanV_ok Variant.now inp R hoR hcells hp' hs
      exact ⟨this.1, this.2.1, this.2.2.1⟩) fuel ts h t ht
  have h2 := parse_sound_of_aligned_scan G Variant.now inp start pred (scanV Variant.now inp) hpred hty
    (fun t hp' k m l hs => by
      have := scanV_ok Variant.now inp R hoR hcells hp' hs
      exact ⟨this.2.1, this.2.2.1, this.2.2.2.1 rfl⟩) fuel ts h t ht
  exact ⟨h1.1, h1.2.1, h2⟩

/-- the full-match oracle is only asked about what the length oracle returns: `OracleOk` gives `RlenOk` -/
theorem rlenOk_of_oracleOk {inp : Input} {R : RegexOracle} (h : OracleOk inp R) : RlenOk inp :=
  fun id w l hl => (h id w l hl).1

/-! ### the concrete instance the Props files use for non-vacuity -/

/-- `<start> ::= ("a"?)* "b"` — a nonterminal of the compiled table derives itself over the same span (the class on
    which the parser before /repo 73e5ffe3 diverged) -/
def totG : Grammar :=
  { rules := [("<start>", .cat "c" [.rep "s" .star (.rep "o" .opt (.term (.lit (.text [97]))) 0 (some 1)) 0 none,
                                    .term (.lit (.text [98]))])] }
/-- the `str` input "ab", no regexes -/
def totAB : Input := { isBytes := false, cells := [97, 98], rlen := fun _ _ => none }
/-- the `str` input "ba" (not a word of `totG`) -/
def totBA : Input := { isBytes := false, cells := [98, 97], rlen := fun _ _ => none }
def noRegex : RegexOracle := fun _ _ => false

theorem totG_wf : totG.wf = true := by decide
theorem totG_typed : totG.typed false = true := by decide
theorem totG_no_helper : ∀ q ∈ totG.rules, isHelperName q.1 = false := by decide +kernel
theorem totG_epsCycle : hasEpsCycle (compile totG none) = true := by decide +kernel
theorem tot_rlenOk (cells : List Nat) : RlenOk { isBytes := false, cells := cells, rlen := fun _ _ => none } := by
  intro id w l h; cases h
theorem tot_oracleOk (cells : List Nat) :
    OracleOk { isBytes := false, cells := cells, rlen := fun _ _ => none } noRegex := by
  intro id w l h; cases h
theorem tot_cellsOk (cells : List Nat) : CellsOk { isBytes := false, cells := cells, rlen := fun _ _ => none } := by
  intro h; cases h
/-- "ab" is in the scanner-level language of `totG` (one iteration of the star, one of the option: bounds 1 / 1);
    "ba" is not for the bounds 3 / 2 (`decide`) — and for no bounds at all, by `parse_now_decides` and a finite run of
    the machine (the last `example` of Props/C05.lean §2c (b)) -/
theorem totAB_accepted : accepts totG totAB.toInp 1 1 "<start>" = true := by decide +kernel
theorem totBA_not_accepted : accepts totG totBA.toInp 3 2 "<start>" = false := by decide +kernel

end FV.Earley
