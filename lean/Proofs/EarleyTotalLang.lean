/-
C05 / the CONVERSE of STAGE 1 (`compile_complete`), at the level of the scanner language: whatever the compiled
helper-rule table of the code as it is (`compile G none`) derives from column `p` to column `q`, every terminal read by
the scanner of the machine, is an expansion of the grammar IR (`Scan.ExpNT`, some nesting depth, some bound on the
repetition counts) that the scanners of `Model/Scan.lean` read from `p` to `q`.

Together with chart soundness (`Proofs/C04Chart.lean`: every yielded tree is a derivation over the table) this gives:
a parse that returns a tree ⇒ the word is in the parser's language (`parsed_accepts`), the converse of
`accepts_parsed`.  (`collapse_sound` of C04 maps the same derivations to `Valid` trees; `Valid` does not remember WHICH
terminal a leaf instantiates nor WHERE it was read, so the scanner-level statement cannot be read off the tree — it is
proved here on the derivation, with the same case analysis of the helper rules.)
-/
import Proofs.EarleyComplete1
import Proofs.C04Sound
namespace FV.Earley
open FV.Scan (scanT scanAll ExpWith ExpAny ExpCat ExpNT PowE scanAll_append accepts accepts_iff)

/-! ### monotonicity of the expansion relation in its bounds -/

theorem powE_mono {P Q : List Term → Prop} (h : ∀ w, P w → Q w) :
    ∀ (k : Nat) (w : List Term), PowE P k w → PowE Q k w
  | 0, w, hw => by simpa only [PowE] using hw
  | k + 1, w, hw => by
    simp only [PowE] at hw ⊢
    obtain ⟨a, b, ha, hb, rfl⟩ := hw
    exact ⟨a, b, h a ha, powE_mono h k b hb, rfl⟩

theorem powE_add {P : List Term → Prop} : ∀ (a b : Nat) (u v : List Term), PowE P a u → PowE P b v →
    PowE P (a + b) (u ++ v)
  | 0, b, u, v, hu, hv => by
    simp only [PowE] at hu
    subst hu
    simpa using hv
  | a + 1, b, u, v, hu, hv => by
    simp only [PowE] at hu
    obtain ⟨x, y, hx, hy, rfl⟩ := hu
    rw [Nat.succ_add]
    simp only [PowE]
    exact ⟨x, y ++ v, hx, powE_add a b y v hy hv, by simp⟩

theorem powE_one {P : List Term → Prop} {u : List Term} : PowE P 1 u ↔ P u := by
  simp only [PowE]
  constructor
  · rintro ⟨a, b, ha, rfl, rfl⟩; simpa using ha
  · intro h; exact ⟨u, [], h, rfl, by simp⟩

mutual
theorem expWith_mono {c c' : Nat} {ntP ntQ : String → List Term → Prop} (hc : c ≤ c')
    (hnt : ∀ s w, ntP s w → ntQ s w) : ∀ (n : Node) (w : List Term), ExpWith c ntP n w → ExpWith c' ntQ n w
  | .term t, w, h => by simpa only [ExpWith] using h
  | .nt name _ _, w, h => by
    simp only [ExpWith] at h ⊢
    exact hnt _ _ h
  | .alt _ ns, w, h => by
    simp only [ExpWith] at h ⊢
    exact expAny_mono hc hnt ns w h
  | .cat _ ns, w, h => by
    simp only [ExpWith] at h ⊢
    exact expCat_mono hc hnt ns w h
  | .rep _ _ n mn mx, w, h => by
    simp only [ExpWith] at h ⊢
    obtain ⟨k, hk, hb, hp⟩ := h
    exact ⟨k, by omega, hb, powE_mono (fun v hv => expWith_mono hc hnt n v hv) k w hp⟩
theorem expAny_mono {c c' : Nat} {ntP ntQ : String → List Term → Prop} (hc : c ≤ c')
    (hnt : ∀ s w, ntP s w → ntQ s w) : ∀ (ns : List Node) (w : List Term), ExpAny c ntP ns w → ExpAny c' ntQ ns w
  | [], w, h => by simp [ExpAny] at h
  | n :: ns, w, h => by
    simp only [ExpAny] at h ⊢
    rcases h with h | h
    · exact Or.inl (expWith_mono hc hnt n w h)
    · exact Or.inr (expAny_mono hc hnt ns w h)
theorem expCat_mono {c c' : Nat} {ntP ntQ : String → List Term → Prop} (hc : c ≤ c')
    (hnt : ∀ s w, ntP s w → ntQ s w) : ∀ (ns : List Node) (w : List Term), ExpCat c ntP ns w → ExpCat c' ntQ ns w
  | [], w, h => by simpa only [ExpCat] using h
  | n :: ns, w, h => by
    simp only [ExpCat] at h ⊢
    obtain ⟨a, b, ha, hb, rfl⟩ := h
    exact ⟨a, b, expWith_mono hc hnt n a ha, expCat_mono hc hnt ns b hb, rfl⟩
end

/-- more nesting depth and larger repetition counts only add expansions -/
theorem expNT_mono {G : Grammar} {c c' : Nat} (hc : c ≤ c') :
    ∀ (d d' : Nat) (s : String) (w : List Term), d ≤ d' → ExpNT G c d s w → ExpNT G c' d' s w
  | 0, _, _, _, _, h => by simp [ExpNT] at h
  | d + 1, 0, _, _, hd, _ => by omega
  | d + 1, d' + 1, s, w, hd, h => by
    simp only [ExpNT] at h ⊢
    obtain ⟨body, hr, hw⟩ := h
    exact ⟨body, hr, expWith_mono hc (fun s' w' h' => expNT_mono hc d d' s' w' (by omega) h') body w hw⟩

/-- `accepts` is monotone in both bounds -/
theorem accepts_mono (G : Grammar) (inp : Scan.Inp) {c c' d d' : Nat} (hc : c ≤ c') (hd : d ≤ d') (s : String)
    (h : accepts G inp c d s = true) : accepts G inp c' d' s = true := by
  obtain ⟨w, hw, hs⟩ := (accepts_iff G inp c d s).1 h
  exact (accepts_iff G inp c' d' s).2 ⟨w, expNT_mono hc d d' s w hd hw, hs⟩

/-! ### terminal-sequence semantics of the compiled symbols (bounds `N` on depth and counts) -/

/-- what a symbol of the compiled table expands to, as a terminal sequence of the IR; nesting depth and repetition
    counts `≤ N` (`implCount`, `bodyOf`: `Proofs/C04Collapse.lean`) -/
def SemSymT (G : Grammar) (start : String) (N : Nat) : ESym → List Term → Prop
  | .t t, w => w = [t]
  | .n .start _ _, w => ExpNT G N N start w
  | .n (.user s) _ _, w => ExpNT G N N s w
  | .n (.ctl n) _ _, w => ExpWith N (ExpNT G N N) n w
  | .n (.impl n j) _ _, w =>
    ∃ k, k ≤ N ∧ implCount none n j k ∧ PowE (fun v => ExpWith N (ExpNT G N N) (bodyOf n) v) k w

def SemLT (G : Grammar) (start : String) (N : Nat) : List ESym → List Term → Prop
  | [], w => w = []
  | s :: ss, w => ∃ w1 w2, w = w1 ++ w2 ∧ SemSymT G start N s w1 ∧ SemLT G start N ss w2

section sem
variable {G : Grammar} {start : String}

theorem semSymT_mono {N N' : Nat} (h : N ≤ N') : ∀ (s : ESym) (w : List Term),
    SemSymT G start N s w → SemSymT G start N' s w
  | .t t, w, hw => by simpa only [SemSymT] using hw
  | .n .start _ _, w, hw => by
    simp only [SemSymT] at hw ⊢
    exact expNT_mono h N N' _ _ h hw
  | .n (.user s) _ _, w, hw => by
    simp only [SemSymT] at hw ⊢
    exact expNT_mono h N N' _ _ h hw
  | .n (.ctl n) _ _, w, hw => by
    simp only [SemSymT] at hw ⊢
    exact expWith_mono h (fun s' w' h' => expNT_mono h N N' s' w' h h') n w hw
  | .n (.impl n j) _ _, w, hw => by
    simp only [SemSymT] at hw ⊢
    obtain ⟨k, hk, hc, hp⟩ := hw
    exact ⟨k, by omega, hc,
      powE_mono (fun v hv => expWith_mono h (fun s' w' h' => expNT_mono h N N' s' w' h h') _ v hv) k w hp⟩

theorem semLT_mono {N N' : Nat} (h : N ≤ N') : ∀ (ss : List ESym) (w : List Term),
    SemLT G start N ss w → SemLT G start N' ss w
  | [], w, hw => by simpa only [SemLT] using hw
  | s :: ss, w, hw => by
    simp only [SemLT] at hw ⊢
    obtain ⟨w1, w2, rfl, h1, h2⟩ := hw
    exact ⟨w1, w2, rfl, semSymT_mono h s w1 h1, semLT_mono h ss w2 h2⟩

theorem semLT_single {N : Nat} {s : ESym} {w : List Term} :
    SemLT G start N [s] w ↔ SemSymT G start N s w := by
  simp only [SemLT]
  constructor
  · rintro ⟨w1, w2, rfl, h, rfl⟩; simpa using h
  · intro h; exact ⟨w, [], by simp, h, rfl⟩

theorem semSymT_symOf {N : Nat} {n : Node} {w : List Term} :
    SemSymT G start N (symOf n) w ↔ ExpWith N (ExpNT G N N) n w := by
  cases n with
  | term t => simp only [symOf, SemSymT, ExpWith]
  | nt name s r => simp only [symOf, SemSymT, ExpWith]
  | alt i ns => simp only [symOf, ESym.plain, SemSymT]
  | cat i ns => simp only [symOf, ESym.plain, SemSymT]
  | rep i k b mn mx => simp only [symOf, ESym.plain, SemSymT]

theorem expAny_of_mem {c : Nat} {ntP : String → List Term → Prop} {ns : List Node} {n : Node} {w : List Term}
    (hm : n ∈ ns) (h : ExpWith c ntP n w) : ExpAny c ntP ns w := by
  induction ns with
  | nil => cases hm
  | cons x xs ih =>
    simp only [ExpAny]
    rcases List.mem_cons.mp hm with rfl | hm
    · exact Or.inl h
    · exact Or.inr (ih hm)

theorem expCat_of_semLT {N : Nat} {ns : List Node} {w : List Term}
    (h : SemLT G start N (ns.map symOf) w) : ExpCat N (ExpNT G N N) ns w := by
  induction ns generalizing w with
  | nil => simpa [SemLT, ExpCat] using h
  | cons x xs ih =>
    simp only [List.map_cons, SemLT] at h
    obtain ⟨w1, w2, rfl, h1, h2⟩ := h
    simp only [ExpCat]
    exact ⟨w1, w2, semSymT_symOf.mp h1, ih h2, rfl⟩

/-- the rules of a control-flow nonterminal spell out expansions of its node -/
theorem ctl_semT {N : Nat} (hN : 1 ≤ N) {n : Node} {rhs : List ESym} {w : List Term} (hwf : nodeWf n = true)
    (hr : rhs ∈ ctlRules none n) (h : SemLT G start N rhs w) : ExpWith N (ExpNT G N N) n w := by
  cases n with
  | term t => simp [ctlRules] at hr
  | nt name s r => simp [ctlRules] at hr
  | alt i ns =>
    simp only [ctlRules, List.mem_map] at hr
    obtain ⟨m, hm, rfl⟩ := hr
    simp only [ExpWith]
    exact expAny_of_mem hm (semSymT_symOf.mp (semLT_single.mp h))
  | cat i ns =>
    simp only [ctlRules, List.mem_singleton] at hr
    subst hr
    simp only [ExpWith]
    exact expCat_of_semLT h
  | rep i k b mn mx =>
    simp only [nodeWf, Bool.and_eq_true] at hwf
    obtain ⟨hb, _⟩ := hwf
    simp only [ExpWith]
    cases k with
    | star =>
      simp only [ctlRules, List.mem_singleton] at hr
      subst hr
      simp only [repWf, Bool.and_eq_true, beq_iff_eq] at hb
      obtain ⟨rfl, rfl⟩ := hb
      obtain ⟨k, hkN, _, hk⟩ := semLT_single.mp h
      exact ⟨k, hkN, ⟨Nat.zero_le _, by intro _ hc; cases hc⟩, hk⟩
    | plus =>
      simp only [ctlRules, List.mem_singleton] at hr
      subst hr
      simp only [repWf, Bool.and_eq_true, beq_iff_eq] at hb
      obtain ⟨rfl, rfl⟩ := hb
      obtain ⟨k, hkN, hc, hk⟩ := semLT_single.mp h
      simp only [implCount] at hc
      exact ⟨k, hkN, ⟨hc.2, by intro _ hc; cases hc⟩, hk⟩
    | opt =>
      simp only [repWf, Bool.and_eq_true, beq_iff_eq] at hb
      obtain ⟨rfl, rfl⟩ := hb
      simp only [ctlRules, List.mem_cons, List.not_mem_nil, or_false] at hr
      rcases hr with rfl | rfl
      · simp only [SemLT] at h
        subst h
        exact ⟨0, Nat.zero_le _, ⟨Nat.le_refl _, by intro _ hc; cases hc; omega⟩, by simp only [PowE]⟩
      · have hm := semSymT_symOf.mp (semLT_single.mp h)
        exact ⟨1, hN, ⟨by omega, by intro _ hc; cases hc; omega⟩, powE_one.mpr hm⟩
    | braces =>
      simp only [ctlRules] at hr
      split at hr
      · rename_i hot
        simp only [List.mem_singleton] at hr
        subst hr
        obtain ⟨k, hkN, hc, hk⟩ := semLT_single.mp h
        simp only [implCount] at hc
        rw [if_pos hot] at hc
        refine ⟨k, hkN, ⟨by omega, ?_⟩, hk⟩
        intro M hM
        subst hM
        simp [openTail] at hot
      · rename_i hot
        simp only [List.mem_singleton] at hr
        subst hr
        obtain ⟨k, hkN, hc, hk⟩ := semLT_single.mp h
        simp only [implCount] at hc
        rw [if_neg hot] at hc
        refine ⟨k, hkN, ⟨by omega, ?_⟩, hk⟩
        intro M hM
        subst hM
        simp only [repWf, boundsOk, decide_eq_true_eq] at hb
        simp only [hiOf, Option.getD_some] at hc
        omega

theorem semLT_replicate {N : Nat} {P : List Term → Prop} {w0 : ESym}
    (hw0 : ∀ v, SemSymT G start N w0 v → P v) (m : Nat) {rest : List ESym} {u : List Term}
    (h : SemLT G start N (List.replicate m w0 ++ rest) u) :
    ∃ u1 u2, u = u1 ++ u2 ∧ PowE P m u1 ∧ SemLT G start N rest u2 := by
  induction m generalizing u with
  | zero => exact ⟨[], u, by simp, by simp only [PowE], by simpa using h⟩
  | succ m ih =>
    simp only [List.replicate_succ, List.cons_append, SemLT] at h
    obtain ⟨w1, w2, rfl, h1, h2⟩ := h
    obtain ⟨u1, u2, rfl, h3, h4⟩ := ih h2
    refine ⟨w1 ++ u1, u2, by simp, ?_, h4⟩
    simp only [PowE]
    exact ⟨w1, u1, hw0 _ h1, h3, rfl⟩

/-- the rules of an implicit nonterminal derive the iteration counts `implCount` allows (the count is bounded by the
    bound of the parts plus the length of the rule) -/
theorem impl_semT {N : Nat} {n : Node} {j : Nat} {rhs : List ESym} {w : List Term}
    (hr : rhs ∈ implRules none n j) (h : SemLT G start N rhs w) :
    ∃ k, k ≤ N + rhs.length ∧ implCount none n j k ∧
      PowE (fun v => ExpWith N (ExpNT G N N) (bodyOf n) v) k w := by
  cases n with
  | term t => simp [implRules] at hr
  | nt name s r => simp [implRules] at hr
  | alt i ns => simp [implRules] at hr
  | cat i ns => simp [implRules] at hr
  | rep i kind b mn mx =>
    cases kind with
    | opt => simp [implRules] at hr
    | star =>
      cases j with
      | succ j => simp [implRules] at hr
      | zero =>
        simp only [implRules, List.mem_cons, List.not_mem_nil, or_false] at hr
        rcases hr with rfl | rfl
        · simp only [SemLT] at h
          subst h
          exact ⟨0, Nat.zero_le _, by simp only [implCount], by simp only [PowE]⟩
        · simp only [SemLT] at h
          obtain ⟨w1, w2, rfl, h1, w3, w4, rfl, h2, rfl⟩ := h
          obtain ⟨k, hkN, _, hk⟩ := h2
          refine ⟨1 + k, by simp only [List.length_cons, List.length_nil]; omega, by simp only [implCount], ?_⟩
          rw [List.append_nil]
          exact powE_add 1 k _ _ (powE_one.mpr (semSymT_symOf.mp h1)) hk
    | plus =>
      cases j with
      | succ j => simp [implRules] at hr
      | zero =>
        simp only [implRules, List.mem_cons, List.not_mem_nil, or_false] at hr
        rcases hr with rfl | rfl
        · have hm := semSymT_symOf.mp (semLT_single.mp h)
          exact ⟨1, by simp only [List.length_cons, List.length_nil]; omega, by simp [implCount], powE_one.mpr hm⟩
        · simp only [SemLT] at h
          obtain ⟨w1, w2, rfl, h1, w3, w4, rfl, h2, rfl⟩ := h
          obtain ⟨k, hkN, _, hk⟩ := h2
          refine ⟨1 + k, by simp only [List.length_cons, List.length_nil]; omega, by simp [implCount], ?_⟩
          rw [List.append_nil]
          exact powE_add 1 k _ _ (powE_one.mpr (semSymT_symOf.mp h1)) hk
    | braces =>
      -- the body wrapper `<impl 0>` derives exactly one iteration
      have hw0 : ∀ v, SemSymT G start N (.plain (.impl (.rep i .braces b mn mx) 0)) v →
          ExpWith N (ExpNT G N N) b v := by
        intro v hv
        obtain ⟨k, _, hc, hk⟩ := hv
        simp only [implCount] at hc
        have : k = 1 := by split at hc <;> omega
        subst this
        exact powE_one.mp hk
      simp only [implCount, bodyOf]
      simp only [implRules] at hr
      split at hr
      · -- open-ended `{n,}`: wrapper (j = 0), right-recursive tail (j = 1), head (j = 2)
        rename_i hot
        simp only [if_pos hot]
        split at hr
        · rename_i hj
          simp only [List.mem_singleton] at hr
          subst hr
          have hm := semSymT_symOf.mp (semLT_single.mp h)
          exact ⟨1, by simp only [List.length_cons, List.length_nil]; omega, by omega, powE_one.mpr hm⟩
        · split at hr
          · rename_i hj1
            simp only [List.mem_cons, List.not_mem_nil, or_false] at hr
            rcases hr with rfl | rfl
            · simp only [SemLT] at h
              subst h
              exact ⟨0, Nat.zero_le _, by omega, by simp only [PowE]⟩
            · simp only [SemLT] at h
              obtain ⟨w1, w2, rfl, h1, w3, w4, rfl, h2, rfl⟩ := h
              obtain ⟨k, hkN, _, hk⟩ := h2
              simp only [bodyOf] at hk
              refine ⟨1 + k, by simp only [List.length_cons, List.length_nil]; omega, by omega, ?_⟩
              rw [List.append_nil]
              exact powE_add 1 k _ _ (powE_one.mpr (hw0 _ h1)) hk
          · split at hr
            · rename_i hj2
              simp only [List.mem_singleton] at hr
              subst hr
              obtain ⟨u1, u2, rfl, h3, h4⟩ := semLT_replicate hw0 mn h
              obtain ⟨k, hkN, _, hk⟩ := semLT_single.mp h4
              simp only [bodyOf] at hk
              exact ⟨mn + k, by simp only [List.length_append, List.length_replicate, List.length_cons,
                List.length_nil]; omega, by omega, powE_add mn k _ _ h3 hk⟩
            · simp at hr
      · rename_i hot
        simp only [if_neg hot]
        generalize hd : hiOf none mx - mn = d at hr ⊢
        split at hr
        · -- j = 0
          rename_i hj
          simp only [List.mem_singleton] at hr
          subst hr
          have hm := semSymT_symOf.mp (semLT_single.mp h)
          exact ⟨1, by simp only [List.length_cons, List.length_nil]; omega, by omega, powE_one.mpr hm⟩
        · rename_i hj0
          split at hr
          · -- 1 ≤ j ≤ d
            rename_i hjd
            have h1case : ∀ u, SemLT G start N [.plain (.impl (.rep i .braces b mn mx) 0)] u →
                ∃ k, k ≤ N + 1 ∧
                  ((j = 0 ∧ k = 1) ∨ (1 ≤ j ∧ j ≤ d ∧ 1 ≤ k ∧ k ≤ j) ∨ (j = d + 1 ∧ mn ≤ k ∧ k ≤ mn + d)) ∧
                  PowE (fun v => ExpWith N (ExpNT G N N) b v) k u := by
              intro u hu
              exact ⟨1, by omega, by omega, powE_one.mpr (hw0 _ (semLT_single.mp hu))⟩
            split at hr
            · simp only [List.mem_singleton] at hr
              subst hr
              exact h1case _ h
            · rename_i hj1
              simp only [List.mem_cons, List.not_mem_nil, or_false] at hr
              rcases hr with rfl | rfl
              · exact h1case _ h
              · simp only [SemLT] at h
                obtain ⟨w1, w2, rfl, h1, w3, w4, rfl, h2, rfl⟩ := h
                obtain ⟨k, hkN, hc, hk⟩ := h2
                simp only [implCount, bodyOf] at hc hk
                rw [if_neg hot, hd] at hc
                refine ⟨1 + k, by simp only [List.length_cons, List.length_nil]; omega, by omega, ?_⟩
                rw [List.append_nil]
                exact powE_add 1 k _ _ (powE_one.mpr (hw0 _ h1)) hk
          · rename_i hjd
            split at hr
            · -- j = d + 1
              rename_i hjd1
              simp only [List.mem_cons] at hr
              rcases hr with rfl | hr
              · rw [← List.append_nil (List.replicate _ _)] at h
                obtain ⟨u1, u2, rfl, h3, h4⟩ := semLT_replicate hw0 mn h
                simp only [SemLT] at h4
                subst h4
                rw [List.append_nil]
                exact ⟨mn, by simp only [List.length_replicate]; omega, by omega, h3⟩
              · split at hr
                · simp at hr
                · rename_i hd0
                  simp only [List.mem_singleton] at hr
                  subst hr
                  obtain ⟨u1, u2, rfl, h3, h4⟩ := semLT_replicate hw0 mn h
                  obtain ⟨k, hkN, hc, hk⟩ := semLT_single.mp h4
                  simp only [implCount, bodyOf] at hc hk
                  rw [if_neg hot, hd] at hc
                  exact ⟨mn + k, by simp only [List.length_append, List.length_replicate, List.length_cons,
                    List.length_nil]; omega, by omega, powE_add mn k _ _ h3 hk⟩
            · simp at hr

/-! ### the main induction -/

/-- the scanner of the machine reads no more than the scanner-level model (converse of `ScanAgree`) -/
def ScanWithin (inp : Scan.Inp) (scan : Scan) : Prop :=
  ∀ t i m l, scan t i = some (m, l) → scanT inp t i = some m

/-- **the compiled table derives nothing but the language of the IR**: a derivation of a symbol sequence over the
    helper rules from column `i` to column `j` (every terminal read by the scanner) spells out terminal sequences the
    IR expands to, and the scanner-level model reads them from `i` to `j` -/
theorem drv_semT (hwf : G.wf = true) (inp : Scan.Inp) (scan : Scan) (hsc : ScanWithin inp scan)
    {rhs : List ESym} {i j : Nat} (h : Drv (tableOf G none start) scan rhs i j) :
    ∃ N w, SemLT G start N rhs w ∧ scanAll inp w i = some j := by
  induction h with
  | nil i => exact ⟨0, [], by simp only [SemLT], by simp only [scanAll]⟩
  | @term t i m j l ss hs _ ih =>
    obtain ⟨N, w2, hw2, hs2⟩ := ih
    refine ⟨N, [t] ++ w2, ?_, ?_⟩
    · simp only [SemLT]
      exact ⟨[t], w2, rfl, by simp only [SemSymT], hw2⟩
    · simp only [List.singleton_append, scanAll, hsc t i m l hs]
      exact hs2
  | @nt x a r rhs' ss i m j hr _ _ ih1 ih2 =>
    obtain ⟨N1, w1, hw1, hs1⟩ := ih1
    obtain ⟨N2, w2, hw2, hs2⟩ := ih2
    have hx : ∃ N', SemSymT G start N' (.n x a r) w1 := by
      rcases table_mem_cases hr with ⟨rfl, rfl⟩ | hc
      · exact ⟨N1, by simpa only [SemSymT, ESym.plain] using semLT_single.mp hw1⟩
      · have hro := mem_compile hc
        cases x with
        | start => simp [rulesOf] at hro
        | user s =>
          simp only [rulesOf] at hro
          cases hb : G.rule s with
          | none => simp [hb] at hro
          | some body =>
            simp only [hb, List.mem_singleton] at hro
            subst hro
            have hm := semSymT_symOf.mp (semLT_single.mp hw1)
            refine ⟨N1 + 1, ?_⟩
            simp only [SemSymT]
            have : ExpNT G N1 (N1 + 1) s w1 := by
              simp only [ExpNT]
              exact ⟨body, hb, hm⟩
            exact expNT_mono (Nat.le_succ N1) (N1 + 1) (N1 + 1) s w1 (Nat.le_refl _) this
        | ctl n =>
          simp only [rulesOf] at hro
          refine ⟨N1 + 1, ?_⟩
          simp only [SemSymT]
          exact ctl_semT (by omega) (ctl_wf hwf hc) hro (semLT_mono (Nat.le_succ N1) _ _ hw1)
        | impl n q =>
          simp only [rulesOf] at hro
          obtain ⟨k, hk, hcnt, hp⟩ := impl_semT hro hw1
          refine ⟨N1 + rhs'.length, ?_⟩
          simp only [SemSymT]
          have hle : N1 ≤ N1 + rhs'.length := Nat.le_add_right _ _
          exact ⟨k, hk, hcnt, powE_mono (fun v hv => expWith_mono hle
            (fun s' w' h' => expNT_mono hle N1 _ s' w' hle h') _ v hv) k w1 hp⟩
    obtain ⟨N', hx⟩ := hx
    refine ⟨max N' N2, w1 ++ w2, ?_, (scanAll_append inp w1 w2 i j).mpr ⟨m, hs1, hs2⟩⟩
    simp only [SemLT]
    exact ⟨w1, w2, rfl, semSymT_mono (Nat.le_max_left _ _) _ _ hx, semLT_mono (Nat.le_max_right _ _) _ _ hw2⟩

end sem

/-! ### the concrete machine -/

/-- the scanner of the code as it is reads nothing the scanner-level model does not read -/
theorem scanWithin_now (inp : Input) : ScanWithin inp.toInp (scanV Variant.now inp) := by
  intro t k e l h
  cases t with
  | lit lf =>
    cases lf with
    | bit b =>
      simp only [scanV, Variant.now] at h
      simp only [scanT, Input.toInp]
      cases hc : inp.cells[k / 8]? with
      | none => simp [hc] at h
      | some cell =>
        simp only [hc] at h ⊢
        by_cases h1 : 255 < cell
        · simp [h1] at h
        · by_cases h2 : (((cell >>> (7 - k % 8)) % 2 == 1) == b) = true
          · simp only [h1, h2, decide_false, Bool.and_false, Bool.false_eq_true, if_false, if_true,
              Option.some.injEq, Prod.mk.injEq] at h
            have hle : cell ≤ 255 := by omega
            simp [hle, h2, h.1]
          · simp [h1, h2] at h
    | text s =>
      simp only [scanV, Variant.now] at h
      simp only [scanT, Input.toInp]
      by_cases hal : k % 8 = 0
      · by_cases hsw : startsWith (inp.cells.drop (k / 8)) s = true
        · simp only [hal, hsw, decide_true, Bool.not_true, Bool.and_false, Bool.false_eq_true, if_false, if_true,
            Option.some.injEq, Prod.mk.injEq] at h
          simp [hal, startsWith_eq, hsw, h.1]
        · simp [hal, hsw] at h
      · simp [hal] at h
    | bytes bs =>
      simp only [scanV, Variant.now] at h
      simp only [scanT, Input.toInp]
      by_cases hal : k % 8 = 0
      · by_cases hsw : startsWith (inp.cells.drop (k / 8)) (bs.map (·.val)) = true
        · simp only [hal, hsw, decide_true, Bool.not_true, Bool.and_false, Bool.false_eq_true, if_false, if_true,
            Option.some.injEq, Prod.mk.injEq, List.length_map] at h
          simp [hal, startsWith_eq, hsw, h.1]
        · simp [hal, hsw] at h
      · simp [hal] at h
  | regex id =>
    simp only [scanV, Variant.now] at h
    simp only [scanT, Input.toInp]
    by_cases hal : k % 8 = 0
    · cases hr : inp.rlen id (k / 8) with
      | none => simp [hr, hal] at h
      | some l' =>
        simp only [hr, hal, decide_true, Bool.not_true, Bool.and_false, Bool.false_eq_true, if_false,
          Bool.false_and, Option.some.injEq, Prod.mk.injEq] at h
        simp [hal, h.1]
    · simp [hal] at h

/-- **a parse that returns a tree only does so for a word of the parser's language** (the converse of
    `accepts_parsed`; the code as it is, `Variant.now`; every prediction order that only offers alternatives of the
    table, every fuel): the word has an expansion of the grammar that the scanners read from the first to the last
    column, for some bound on nesting depth and repetition counts -/
theorem parsed_accepts (G : Grammar) (hwf : G.wf = true) (inp : Input) (start : String)
    (pred : Nat → NT → List (List ESym)) (hpred : ∀ k x rhs, rhs ∈ pred k x → (x, rhs) ∈ compile G none)
    (fuel : Nat) (ts : List Tree)
    (h : parseComplete (mkCfg G Variant.now inp start pred) fuel = some (.ok ts)) (hne : ts ≠ []) :
    ∃ c d, accepts G inp.toInp c d start = true := by
  cases ts with
  | nil => exact absurd rfl hne
  | cons t rest =>
    let cfg := mkCfg G Variant.now inp start pred
    have hs : SaneS cfg := saneS_of_rules cfg G none rfl hpred
    obtain ⟨kids, rhs, _, hr, hd⟩ := yielded_shape cfg hs fuel (t :: rest) h (t := t) (by simp)
    have hd' : Drv (tableOf G none start) (scanV Variant.now inp) rhs 0 (8 * inp.cells.length) := by
      have : cfg.ncols - 1 = 8 * inp.cells.length := by
        show (8 * inp.cells.length + 1) - 1 = _
        omega
      rw [← this]
      exact drv_of_derL hd
    obtain ⟨N, w, hw, hsc⟩ := drv_semT (G := G) (start := start) hwf inp.toInp _ (scanWithin_now inp) hd'
    have hr' : (NT.user start, rhs) ∈ compile G none := hr
    have hro := mem_compile hr'
    simp only [rulesOf] at hro
    cases hb : G.rule start with
    | none => simp [hb] at hro
    | some body =>
      simp only [hb, List.mem_singleton] at hro
      subst hro
      have hm := semSymT_symOf.mp (semLT_single.mp hw)
      refine ⟨N, N + 1, (accepts_iff G inp.toInp N (N + 1) start).2 ⟨w, ?_, hsc⟩⟩
      simp only [ExpNT]
      exact ⟨body, hb, hm⟩

end FV.Earley
