/-
Helper lemmas about `Model/Emit.lean` (used by Props/C03.lean).
-/
import Model.Emit
namespace FV
open FV.F FV.Generated

/-- the per-class results of an all-satisfied tree are lists of `some 1.0` -/
theorem allSatisfied_lists (ind : Individual) (hs : ind.allSatisfied) :
    ind.hard = List.replicate ind.hard.length (some one) ∧
    ind.rep = List.replicate ind.rep.length (some one) :=
  ⟨List.eq_replicate_iff.2 ⟨rfl, hs.1⟩, List.eq_replicate_iff.2 ⟨rfl, hs.2⟩⟩

theorem evaluateAll_cons (e : F) (st : EvalState) (x : Individual) (rest : List Individual) :
    evaluateAll e st (x :: rest) =
      ((evaluateAll e (evaluateIndividual e st x).state rest).1,
       (evaluateIndividual e st x).emitted ++ (evaluateAll e (evaluateIndividual e st x).state rest).2) := by
  simp [evaluateAll]

end FV
