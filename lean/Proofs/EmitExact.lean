/-
Helper lemmas for `Props/C02.lean`: the bookkeeping invariant `Fit.Wf` of every fitness value, and the
exact arithmetic of the acceptance test.
-/
import Model.EmitExact
import Proofs.Constraint
namespace FV

/-! ### sums of counters -/

theorem sumSolved_cons (f : Fit) (fs : List Fit) : sumSolved (f :: fs) = f.solved + sumSolved fs := by
  simp [sumSolved]
theorem sumTotal_cons (f : Fit) (fs : List Fit) : sumTotal (f :: fs) = f.total + sumTotal fs := by
  simp [sumTotal]
theorem sumSolved_nil : sumSolved [] = 0 := rfl
theorem sumTotal_nil : sumTotal [] = 0 := rfl

theorem sum_le (fs : List Fit) (h : ∀ f ∈ fs, f.solved ≤ f.total) : sumSolved fs ≤ sumTotal fs := by
  induction fs with
  | nil => simp [sumSolved_nil, sumTotal_nil]
  | cons f fs ih =>
    rw [sumSolved_cons, sumTotal_cons]
    have := h f (by simp)
    have := ih (fun g hg => h g (by simp [hg]))
    omega

theorem sum_eq_iff (fs : List Fit) (h : ∀ f ∈ fs, f.solved ≤ f.total) :
    sumSolved fs = sumTotal fs ↔ ∀ f ∈ fs, f.solved = f.total := by
  induction fs with
  | nil => simp [sumSolved_nil, sumTotal_nil]
  | cons f fs ih =>
    rw [sumSolved_cons, sumTotal_cons]
    have h1 := h f (by simp)
    have h2 := sum_le fs (fun g hg => h g (by simp [hg]))
    have ih' := ih (fun g hg => h g (by simp [hg]))
    constructor
    · intro he g hg
      have e1 : f.solved = f.total := by omega
      have e2 : sumSolved fs = sumTotal fs := by omega
      rcases List.mem_cons.1 hg with rfl | hg'
      · exact e1
      · exact ih'.1 e2 g hg'
    · intro hall
      have e1 := hall f (by simp)
      have e2 := ih'.2 (fun g hg => hall g (by simp [hg]))
      omega

theorem sumTotal_pos (fs : List Fit) (hne : fs ≠ []) (h : ∀ f ∈ fs, 0 < f.total) : 0 < sumTotal fs := by
  cases fs with
  | nil => exact absurd rfl hne
  | cons f fs =>
    rw [sumTotal_cons]
    have := h f (by simp)
    omega

theorem all_success_iff (fs : List Fit) (hw : ∀ f ∈ fs, f.Wf) :
    fs.all (·.success) = true ↔ ∀ f ∈ fs, f.solved = f.total := by
  simp only [List.all_eq_true]
  constructor
  · intro h f hf; exact (hw f hf).succ.1 (h f hf)
  · intro h f hf; exact (hw f hf).succ.2 (h f hf)

/-! ### every constructor of a fitness value keeps the invariant -/

theorem trivialFit_wf : trivialFit.Wf := ⟨by decide, by decide, by decide, by intro vs h; cases h⟩

theorem exprFit_wf (rs : List (Except EvErr Bool)) : (exprFit rs).Wf := by
  unfold exprFit
  cases rs with
  | nil => exact trivialFit_wf
  | cons r rs =>
    simp only [List.isEmpty_cons, Bool.false_eq_true, if_false]
    refine ⟨by simp, List.countP_le_length, by simp, by intro vs h; cases h⟩

theorem cmpValues_ne_nil (rs : List (Except EvErr Bool)) : cmpValues false rs ≠ [] := by
  unfold cmpValues
  cases rs with
  | nil => simp
  | cons r rs => simp

theorem cmpFit_wf (rs : List (Except EvErr Bool)) : (cmpFit false rs).Wf := by
  have hne := cmpValues_ne_nil rs
  unfold cmpFit
  refine ⟨?_, List.countP_le_length, ?_, ?_⟩
  · exact List.length_pos_iff.2 hne
  · simp only []
    rw [List.all_eq_true]
    exact (List.countP_eq_length (p := id)).symm
  · intro vs h
    simp only [Option.some.injEq] at h
    subst h
    exact ⟨hne, Iff.rfl⟩

theorem conjFit_wf (n : Nat) (fs : List Fit) (hne : fs ≠ []) (hw : ∀ f ∈ fs, f.Wf) : (conjFit n fs).Wf := by
  have hle := sum_le fs (fun f hf => (hw f hf).le)
  have heq := sum_eq_iff fs (fun f hf => (hw f hf).le)
  have hall := all_success_iff fs hw
  have hpos := sumTotal_pos fs hne (fun f hf => (hw f hf).pos)
  unfold conjFit
  split
  · refine ⟨by simp, ?_, ?_, by intro vs h; cases h⟩
    · simp only []; split <;> omega
    · simp only []
      constructor
      · intro ho; rw [if_pos ho]; have := heq.2 (hall.1 ho); omega
      · intro he
        by_cases ho : fs.all (·.success) = true
        · exact ho
        · rw [if_neg ho] at he; omega
  · exact ⟨hpos, hle, by simp only []; rw [hall, heq], by intro vs h; cases h⟩

theorem disjFit_wf (n : Nat) (fs : List Fit) (hne : fs ≠ []) (hlen : fs.length ≤ n) (hw : ∀ f ∈ fs, f.Wf) :
    (disjFit n fs).Wf := by
  have hle := sum_le fs (fun f hf => (hw f hf).le)
  unfold disjFit
  split
  · refine ⟨by simp, ?_, ?_, by intro vs h; cases h⟩
    · simp only []; split <;> omega
    · simp only []
      constructor
      · intro ho; rw [if_pos ho]
      · intro he
        by_cases ho : fs.any (·.success) = true
        · exact ho
        · rw [if_neg ho] at he; omega
  · rename_i hn
    cases fs with
    | nil => exact absurd rfl hne
    | cons f rest =>
      cases rest with
      | cons g rest' => simp at hlen; omega
      | nil =>
        have hf := hw f (by simp)
        refine ⟨?_, ?_, ?_, by intro vs h; cases h⟩
        · simpa [sumTotal] using hf.pos
        · simpa [sumTotal, sumSolved] using hf.le
        · simpa [sumTotal, sumSolved] using hf.succ

theorem implFit_wf (f : Fit) (hf : f.Wf) : (implFit f).Wf := by
  unfold implFit
  refine ⟨by simp, ?_, ?_, ?_⟩
  · have := hf.le; simp only []; split <;> omega
  · simp only []
    constructor
    · intro hs; rw [if_pos hs]; have := hf.succ.1 hs; omega
    · intro he
      by_cases hs : f.success = true
      · exact hs
      · rw [if_neg hs] at he; have := hf.le; omega
  · intro vs h; exact hf.dist vs h

theorem allFit_wf (fs : List Fit) (hw : ∀ f ∈ fs, f.Wf) : (allFit fs).Wf := by
  have hle := sum_le fs (fun f hf => (hw f hf).le)
  unfold allFit
  refine ⟨by simp, ?_, ?_, by intro vs h; cases h⟩
  · simp only []; split <;> omega
  · simp only []
    constructor
    · intro ho; rw [if_pos ho]
    · intro he
      by_cases ho : fs.all (·.success) = true
      · exact ho
      · rw [if_neg ho] at he; omega

theorem anyFit_wf (fs : List Fit) (hw : ∀ f ∈ fs, f.Wf) : (anyFit fs).Wf := by
  have hle := sum_le fs (fun f hf => (hw f hf).le)
  unfold anyFit
  refine ⟨by simp, ?_, ?_, by intro vs h; cases h⟩
  · simp only []; split <;> omega
  · simp only []
    constructor
    · intro ho; rw [if_pos ho]
    · intro he
      by_cases ho : fs.any (·.success) = true
      · exact ho
      · rw [if_neg ho] at he; omega

theorem repFit_wf (gs : List RepGroup) : (repFit gs).Wf := by
  unfold repFit
  cases gs with
  | nil => exact trivialFit_wf
  | cons g gs =>
    simp only [List.isEmpty_cons, Bool.false_eq_true, if_false]
    exact ⟨by simp, List.countP_le_length, by simp, by intro vs h; cases h⟩

theorem repFit_success (gs : List RepGroup) : (repFit gs).success = repDenote gs := by
  unfold repFit repDenote
  cases gs with
  | nil => simp
  | cons g gs =>
    simp only [List.isEmpty_cons, Bool.false_eq_true, if_false]
    rw [Bool.eq_iff_iff]
    simp only [beq_iff_eq, List.all_eq_true]
    exact List.countP_eq_length

/-! ### the loops -/

theorem runQ_wf (g : Tree → Scope → Locals → Except SErr St)
    (hg : ∀ v σc ρc f σ1 ρ1, g v σc ρc = .ok (f, σ1, ρ1) → f.Wf) (stop : Option Bool) :
    ∀ (vs : List Tree) (σc : Scope) (ρc : Locals) (fs : List Fit) (σ' : Scope) (ρ' : Locals),
      runQ g stop vs σc ρc = .ok (fs, σ', ρ') → ∀ f ∈ fs, f.Wf := by
  intro vs
  induction vs with
  | nil => intro σc ρc fs σ' ρ' h; simp only [runQ] at h; cases h; simp
  | cons v vs ih =>
    intro σc ρc fs σ' ρ' h
    simp only [runQ] at h
    cases hgv : g v σc ρc with
    | error e => simp [hgv] at h
    | ok r =>
      obtain ⟨f, σ1, ρ1⟩ := r
      simp only [hgv] at h
      have hf := hg v σc ρc f σ1 ρ1 hgv
      by_cases hs : stop = some f.success
      · simp only [hs, if_true] at h; cases h; simpa using hf
      · simp only [hs, if_false] at h
        cases hr : runQ g stop vs σ1 ρ1 with
        | error e => simp [hr] at h
        | ok r2 =>
          obtain ⟨fs2, σ2, ρ2⟩ := r2
          simp only [hr] at h
          cases h
          intro x hx
          rcases List.mem_cons.1 hx with rfl | hx'
          · exact hf
          · exact ih σ1 ρ1 fs2 σ' ρ' hr x hx'

mutual
theorem opFit_wf : ∀ (c : Cons) (t : Tree) (σ : Scope) (ρ : Locals) (f : Fit) (σ' : Scope) (ρ' : Locals),
    c.WF = true → opFit OpCfg.fixed c t σ ρ = .ok (f, σ', ρ') → f.Wf
  | .expr e ss, t, σ, ρ, f, σ', ρ', _, h => by
    simp only [opFit] at h
    cases hc : combinations ss t σ with
    | error x => simp [hc] at h
    | ok cbs => simp only [hc] at h; cases h; exact exprFit_wf _
  | .cmp c ss, t, σ, ρ, f, σ', ρ', _, h => by
    simp only [opFit] at h
    cases hc : combinations ss t σ with
    | error x => simp [hc] at h
    | ok cbs => simp only [hc] at h; cases h; exact cmpFit_wf _
  | .conj lz cs, t, σ, ρ, f, σ', ρ', hwf, h => by
    simp only [opFit] at h
    simp only [Cons.WF, Bool.and_eq_true, decide_eq_true_eq] at hwf
    cases hr : runL OpCfg.fixed (stopOf lz false) cs t σ ρ with
    | error x => simp [hr] at h
    | ok r =>
      obtain ⟨fs, σ1, ρ1⟩ := r
      simp only [hr] at h
      cases h
      have ⟨h1, _, h3⟩ := runL_wf cs _ t σ ρ fs σ' ρ' hwf.2 hr
      exact conjFit_wf _ fs (h3 hwf.1) h1
  | .disj lz cs, t, σ, ρ, f, σ', ρ', hwf, h => by
    simp only [opFit] at h
    simp only [Cons.WF, Bool.and_eq_true, decide_eq_true_eq] at hwf
    cases hr : runL OpCfg.fixed (stopOf lz true) cs t σ ρ with
    | error x => simp [hr] at h
    | ok r =>
      obtain ⟨fs, σ1, ρ1⟩ := r
      simp only [hr] at h
      cases h
      have ⟨h1, h2, h3⟩ := runL_wf cs _ t σ ρ fs σ' ρ' hwf.2 hr
      exact disjFit_wf _ fs (h3 hwf.1) h2 h1
  | .impl a c, t, σ, ρ, f, σ', ρ', hwf, h => by
    simp only [opFit] at h
    simp only [Cons.WF, Bool.and_eq_true] at hwf
    cases ha : opFit OpCfg.fixed a t σ ρ with
    | error x => simp [ha] at h
    | ok r =>
      obtain ⟨fa, σ1, ρ1⟩ := r
      simp only [ha] at h
      by_cases hs : fa.success = true
      · simp only [hs, if_true] at h
        cases hc : opFit OpCfg.fixed c t σ1 ρ1 with
        | error x => simp [hc] at h
        | ok r2 =>
          obtain ⟨fc, σ2, ρ2⟩ := r2
          simp only [hc] at h
          cases h
          exact implFit_wf fc (opFit_wf c t σ1 ρ1 fc σ' ρ' hwf.2 hc)
      · simp only [hs] at h
        cases h
        exact trivialFit_wf
  | .all lz b s body, t, σ, ρ, f, σ', ρ', hwf, h => by
    simp only [opFit] at h
    simp only [Cons.WF] at hwf
    cases hq : s.quantify t σ with
    | error x => simp [hq] at h
    | ok vs =>
      simp only [hq] at h
      cases hr : runQ (fun v σc ρc => opFit OpCfg.fixed body t (bindσ b v σc) (bindρ b v ρc)) (stopOf lz false) vs σ ρ with
      | error x => simp [hr] at h
      | ok r =>
        obtain ⟨fs, σ1, ρ1⟩ := r
        simp only [hr] at h
        cases h
        exact allFit_wf fs (runQ_wf _ (fun v σc ρc f σ1 ρ1 hg => opFit_wf body t _ _ f σ1 ρ1 hwf hg) _ vs σ ρ fs σ1 ρ1 hr)
  | .any lz b s body, t, σ, ρ, f, σ', ρ', hwf, h => by
    simp only [opFit] at h
    simp only [Cons.WF] at hwf
    cases hq : s.quantify t σ with
    | error x => simp [hq] at h
    | ok vs =>
      simp only [hq] at h
      cases hr : runQ (fun v σc ρc => opFit OpCfg.fixed body t (bindσ b v σc) (bindρ b v ρc)) (stopOf lz true) vs σ ρ with
      | error x => simp [hr] at h
      | ok r =>
        obtain ⟨fs, σ1, ρ1⟩ := r
        simp only [hr] at h
        cases h
        exact anyFit_wf fs (runQ_wf _ (fun v σc ρc f σ1 ρ1 hg => opFit_wf body t _ _ f σ1 ρ1 hwf hg) _ vs σ ρ fs σ1 ρ1 hr)
theorem runL_wf : ∀ (cs : ConsL) (stop : Option Bool) (t : Tree) (σ : Scope) (ρ : Locals)
    (fs : List Fit) (σ' : Scope) (ρ' : Locals),
    cs.WF = true → runL OpCfg.fixed stop cs t σ ρ = .ok (fs, σ', ρ') →
    (∀ f ∈ fs, f.Wf) ∧ fs.length ≤ cs.length ∧ (0 < cs.length → fs ≠ [])
  | .nil, stop, t, σ, ρ, fs, σ', ρ', _, h => by
    simp only [runL] at h; cases h; simp [ConsL.length]
  | .cons c cs, stop, t, σ, ρ, fs, σ', ρ', hwf, h => by
    simp only [runL] at h
    simp only [ConsL.WF, Bool.and_eq_true] at hwf
    cases hc : opFit OpCfg.fixed c t σ ρ with
    | error x => simp [hc] at h
    | ok r =>
      obtain ⟨f, σ1, ρ1⟩ := r
      simp only [hc] at h
      have hf := opFit_wf c t σ ρ f σ1 ρ1 hwf.1 hc
      by_cases hs : stop = some f.success
      · simp only [hs, if_true] at h
        cases h
        exact ⟨by simpa using hf, by simp [ConsL.length], by simp⟩
      · simp only [hs, if_false] at h
        cases hr : runL OpCfg.fixed stop cs t σ1 ρ1 with
        | error x => simp [hr] at h
        | ok r2 =>
          obtain ⟨fs2, σ2, ρ2⟩ := r2
          simp only [hr] at h
          cases h
          have ⟨g1, g2, _⟩ := runL_wf cs stop t σ1 ρ1 fs2 σ' ρ' hwf.2 hr
          refine ⟨?_, by simp [ConsL.length]; omega, by simp⟩
          intro x hx
          rcases List.mem_cons.1 hx with rfl | hx'
          · exact hf
          · exact g1 x hx'
end

/-! ### exact arithmetic -/

theorem rat_div_le_one (s t : Rat) (ht : 0 < t) (h : s ≤ t) : s / t ≤ 1 := by
  apply Rat.not_lt.1
  intro hc
  have := (Rat.lt_div_iff ht).1 hc
  grind

theorem rat_le_of_one_le_div (s t : Rat) (ht : 0 < t) (h : 1 ≤ s / t) : t ≤ s := by
  apply Rat.not_lt.1
  intro hc
  have := (Rat.div_lt_iff ht).2 (by grind : s < 1 * t)
  grind

theorem rat_div_nonneg (s t : Rat) (ht : 0 < t) (h : 0 ≤ s) : 0 ≤ s / t := by
  apply Rat.not_lt.1
  intro hc
  have := (Rat.div_lt_iff ht).1 hc
  grind

theorem natDiv_props (s t : Nat) (ht : 0 < t) (hle : s ≤ t) :
    0 ≤ ((s : Nat) : Rat) / ((t : Nat) : Rat) ∧ ((s : Nat) : Rat) / ((t : Nat) : Rat) ≤ 1 ∧
    (((s : Nat) : Rat) / ((t : Nat) : Rat) = 1 ↔ s = t) := by
  have ht' : (0 : Rat) < ((t : Nat) : Rat) := Rat.natCast_pos.2 ht
  have hs' : (0 : Rat) ≤ ((s : Nat) : Rat) := Rat.natCast_nonneg
  have hle' : ((s : Nat) : Rat) ≤ ((t : Nat) : Rat) := Rat.natCast_le_natCast.2 hle
  refine ⟨rat_div_nonneg _ _ ht' hs', rat_div_le_one _ _ ht' hle', ?_⟩
  constructor
  · intro h
    have : ((s : Nat) : Rat) = ((t : Nat) : Rat) := by grind
    exact_mod_cast this
  · intro h
    subst h
    grind

/-- the value of a well-formed fitness lies in `[0, 1]` and is `1` exactly on success -/
theorem Fit.Wf.value_props {f : Fit} (hf : f.Wf) :
    0 ≤ f.value ∧ f.value ≤ 1 ∧ (f.value = 1 ↔ f.success = true) := by
  unfold Fit.value
  cases hd : f.dist with
  | none =>
    simp only []
    have hne : f.total ≠ 0 := by have := hf.pos; omega
    simp only [hne, if_false]
    have ⟨a, b, c⟩ := natDiv_props f.solved f.total hf.pos hf.le
    exact ⟨a, b, c.trans hf.succ.symm⟩
  | some vs =>
    simp only []
    have ⟨hne, hiff⟩ := hf.dist vs hd
    have hemp : vs.isEmpty = false := by cases vs <;> simp_all
    simp only [hemp, Bool.false_eq_true, if_false]
    have hpos : 0 < vs.length := List.length_pos_iff.2 hne
    have ⟨a, b, c⟩ := natDiv_props (vs.countP id) vs.length hpos List.countP_le_length
    refine ⟨a, b, c.trans ?_⟩
    rw [hiff, List.all_eq_true]
    exact List.countP_eq_length (p := id)

/-- every constraint of the class reported a fitness (none raised), and each one succeeded -/
def AllSucceed (rs : List (Option Fit)) : Prop := ∀ r ∈ rs, ∃ f, r = some f ∧ f.success = true

def AllWf (rs : List (Option Fit)) : Prop := ∀ r ∈ rs, ∀ f, r = some f → f.Wf

theorem sumValues_le (rs : List (Option Fit)) (hw : AllWf rs) :
    0 ≤ sumValues rs ∧ sumValues rs ≤ ((rs.length : Nat) : Rat) := by
  induction rs with
  | nil => simp [sumValues]
  | cons r rs ih =>
    have ih' := ih (fun x hx f hf => hw x (by simp [hx]) f hf)
    have hc : (((r :: rs).length : Nat) : Rat) = ((rs.length : Nat) : Rat) + 1 := by
      simp only [List.length_cons]; push_cast; rfl
    rw [hc]
    cases r with
    | none => simp only [sumValues]; constructor <;> grind
    | some f =>
      have ⟨a, b, _⟩ := (hw (some f) (by simp) f rfl).value_props
      simp only [sumValues]
      constructor <;> grind

theorem sumValues_eq_length_iff (rs : List (Option Fit)) (hw : AllWf rs) :
    ((rs.length : Nat) : Rat) ≤ sumValues rs ↔ AllSucceed rs := by
  induction rs with
  | nil => simp [sumValues, AllSucceed]
  | cons r rs ih =>
    have hw' : AllWf rs := fun x hx f hf => hw x (by simp [hx]) f hf
    have ih' := ih hw'
    have hb := sumValues_le rs hw'
    have hc : (((r :: rs).length : Nat) : Rat) = ((rs.length : Nat) : Rat) + 1 := by
      simp only [List.length_cons]; push_cast; rfl
    rw [hc]
    cases r with
    | none =>
      simp only [sumValues]
      constructor
      · intro h; exfalso; grind
      · intro h
        obtain ⟨f, hf, _⟩ := h none (by simp)
        cases hf
    | some f =>
      have ⟨a, b, c⟩ := (hw (some f) (by simp) f rfl).value_props
      simp only [sumValues]
      constructor
      · intro h
        have h1 : f.value = 1 := by grind
        have h2 : ((rs.length : Nat) : Rat) ≤ sumValues rs := by grind
        intro x hx
        rcases List.mem_cons.1 hx with rfl | hx'
        · exact ⟨f, rfl, c.1 h1⟩
        · exact ih'.1 h2 x hx'
      · intro h
        have h1 : f.value = 1 := by
          obtain ⟨g, hg, hs⟩ := h (some f) (by simp)
          cases hg
          exact c.2 hs
        have h2 := ih'.2 (fun x hx => h x (by simp [hx]))
        grind

theorem classMeanQ_mul_length (rs : List (Option Fit)) (hne : rs ≠ []) :
    classMeanQ rs * ((rs.length : Nat) : Rat) = sumValues rs := by
  unfold classMeanQ
  have hemp : rs.isEmpty = false := by cases rs <;> simp_all
  have hpos : (0 : Rat) < ((rs.length : Nat) : Rat) := Rat.natCast_pos.2 (List.length_pos_iff.2 hne)
  simp only [hemp, Bool.false_eq_true, if_false]
  grind

/-- the numerator of the acceptance test: with at least one constraint, `fitnessQ` is the sum of all
    per-constraint values divided by the number of constraints -/
theorem fitnessQ_eq (hard rep : List (Option Fit)) (hpos : 0 < hard.length + rep.length) :
    fitnessQ hard rep = (sumValues hard + sumValues rep) / (((hard.length + rep.length : Nat)) : Rat) := by
  unfold fitnessQ
  simp only [hpos, if_true]
  have hH : classMeanQ hard * ((hard.length : Nat) : Rat) = sumValues hard := by
    by_cases hne : hard = []
    · subst hne; simp [sumValues, classMeanQ]
    · exact classMeanQ_mul_length hard hne
  by_cases hr : 0 < rep.length
  · have hne : rep ≠ [] := by intro h; subst h; simp at hr
    simp only [hr, if_true, hH, classMeanQ_mul_length rep hne]
  · have : rep = [] := by cases rep with
      | nil => rfl
      | cons x xs => simp at hr
    subst this
    simp [hH, sumValues, Rat.add_zero]

end FV
