/-
Helper lemmas for the binary64 half of `Props/C02.lean`: the generated fitness arithmetic
(`Generated/Fitness.lean` over `Model/Float53.lean`) on a tree with an unsatisfied constraint stays
strictly below 1.0.

* the per-constraint value is `rnd (numer / denom)`; when `numer < denom ≤ 2^B` it is at most the double
  `1 - 2^-B` (`valueF_le_defect`), and always at most 1;
* the running sum `fitness += …` of `n` such values never exceeds `n`, and once a defective value (or a
  constraint that raised) went in it never exceeds `k - 2^-B` after `k` steps: each bound is a double, and
  rounding is monotone against doubles (`foldOk_le`, `foldOk_le_defect`) — no error accumulates;
* the remaining 4 roundings (class mean, `* len`, `+`, `/ total`) each cost a factor `1 + 2^-53`
  (`formula_lt_one`), far less than the gap `2^-B / (h + r)` when `(h + r) * 2^B ≤ 2^50`.
-/
import Model.EmitFloat
import Proofs.EmitExact
import Proofs.Float53Mono
import Mathlib.Tactic.Linarith
import Mathlib.Tactic.Positivity
import Mathlib.Tactic.Ring
import Mathlib.Tactic.NormNum
import Mathlib.Tactic.FieldSimp
namespace FV
open FV.F

/-! ## integers below 2^53 in magnitude are doubles -/

namespace F

theorem toRat_rnd_neg_natCast (n : Nat) (h : n < 2 ^ 53) : (rnd (-(n : Rat))).toRat = -(n : Rat) := by
  by_cases h0 : n = 0
  · subst h0; simp [rnd_zero, toRat_zero]
  · have hpos : (0 : Rat) < (n : Rat) := by exact_mod_cast Nat.pos_of_ne_zero h0
    rw [toRat_rnd_neg _ (by linarith), neg_neg, toRat_rnd_natCast n h]

/-- `a - b + c = 0` computed as `(a - b) + c` is exactly `0.0` -/
theorem fadd_fsub_cancel (a b c : Nat) (ha : a < 2 ^ 53) (hb : b < 2 ^ 53) (hc : c < 2 ^ 53)
    (h : a + c = b) : fadd (fsub (ofNat a) (ofNat b)) (ofNat c) = zero := by
  unfold fadd fsub
  rw [toRat_ofNat a ha, toRat_ofNat b hb, toRat_ofNat c hc]
  have e : (a : Rat) - (b : Rat) = -(c : Rat) := by
    rw [← h]; push_cast; ring
  rw [e, toRat_rnd_neg_natCast c hc]
  have : -(c : Rat) + (c : Rat) = 0 := by ring
  rw [this, rnd_zero]

theorem fadd_zero_zero : fadd zero zero = zero := by decide +kernel

end F

theorem boolF_eq (b : Bool) : boolF b = ofNat (if b then 1 else 0) := by
  cases b
  · simp [boolF, ofNat_zero]
  · simp [boolF, ofNat_one]

/-! ## CPython's compensated `sum` over values 0.0 / 1.0 is exact -/

theorem neumaierLoop_bools (vs : List Bool) (k : Nat) (h : k + vs.length < 2 ^ 53) :
    neumaierLoop (vs.map boolF) (ofNat k) zero = (ofNat (k + vs.countP id), zero) := by
  induction vs generalizing k with
  | nil => simp [neumaierLoop]
  | cons b vs ih =>
    simp only [List.length_cons] at h
    simp only [List.map_cons, neumaierLoop]
    set c : Nat := if b then 1 else 0 with hc
    have hc1 : c ≤ 1 := by cases b <;> simp [hc]
    rw [boolF_eq b, ← hc]
    have ht : fadd (ofNat k) (ofNat c) = ofNat (k + c) := fadd_ofNat k c (by omega)
    have hA : fadd (fsub (ofNat k) (fadd (ofNat k) (ofNat c))) (ofNat c) = zero := by
      rw [ht]; exact fadd_fsub_cancel k (k + c) c (by omega) (by omega) (by omega) rfl
    have hB : fadd (fsub (ofNat c) (fadd (ofNat k) (ofNat c))) (ofNat k) = zero := by
      rw [ht]; exact fadd_fsub_cancel c (k + c) k (by omega) (by omega) (by omega) (by omega)
    rw [hA, hB, fadd_zero_zero, ht]
    simp only [ite_self]
    rw [ih (k + c) (by omega)]
    congr 2
    cases b
    · simp [hc]
    · simp [hc]; omega

theorem pySum_bools (vs : List Bool) (hne : vs ≠ []) (h : vs.length < 2 ^ 53) :
    pySum (vs.map boolF) = ofNat (vs.countP id) := by
  cases vs with
  | nil => exact absurd rfl hne
  | cons b vs =>
    simp only [List.length_cons] at h
    simp only [List.map_cons, pySum]
    set c : Nat := if b then 1 else 0 with hc
    have hc1 : c ≤ 1 := by cases b <;> simp [hc]
    rw [boolF_eq b, ← hc]
    have h0 : fadd zero (ofNat c) = ofNat c := by
      rw [← ofNat_zero, fadd_ofNat 0 c (by omega)]; simp
    rw [h0, neumaierLoop_bools vs c (by omega)]
    have hz : (zero.m != 0) = false := by decide +kernel
    simp only [hz]
    simp only [Bool.false_eq_true, if_false]
    congr 1
    cases b
    · simp [hc]
    · simp [hc]; omega

/-! ## the per-constraint value -/

/-- `result.fitness()` is the correctly rounded quotient `numer / denom` -/
theorem valueF_eq (f : Fit) (hf : f.Wf) (hb : f.denom < 2 ^ 53) :
    f.valueF = rnd ((f.numer : Rat) / (f.denom : Rat)) ∧ 0 < f.denom ∧ f.numer ≤ f.denom ∧
    (f.numer = f.denom ↔ f.success = true) := by
  unfold Fit.valueF Fit.denom Fit.numer at *
  cases hd : f.dist with
  | none =>
    simp only [hd] at hb ⊢
    have hne : f.total ≠ 0 := by have := hf.pos; omega
    have hle := hf.le
    refine ⟨?_, hf.pos, hle, hf.succ.symm⟩
    simp only [Generated.cfFitness, hne, ne_eq, not_false_eq_true, decide_true, if_true]
    unfold fdiv
    rw [toRat_ofNat _ (by omega), toRat_ofNat _ hb]
  | some vs =>
    simp only [hd] at hb ⊢
    have ⟨hne, hiff⟩ := hf.dist vs hd
    have hpos : 0 < vs.length := List.length_pos_iff.2 hne
    have hle : vs.countP id ≤ vs.length := List.countP_le_length
    refine ⟨?_, hpos, hle, ?_⟩
    · have hemp : (vs.map boolF).isEmpty = false := by cases vs <;> simp_all
      simp only [Generated.daFitness, hemp, Bool.not_false, if_true, List.length_map,
        pySum_bools vs hne hb]
      unfold fdiv
      rw [toRat_ofNat _ (by omega), toRat_ofNat _ hb]
    · rw [hiff, List.all_eq_true]
      exact (List.countP_eq_length (p := id))

/-- a per-constraint value lies in `[0, 1]` -/
theorem valueF_bounds (f : Fit) (hf : f.Wf) (hb : f.denom < 2 ^ 53) :
    0 ≤ f.valueF.toRat ∧ f.valueF.toRat ≤ 1 := by
  obtain ⟨he, hpos, hle, _⟩ := valueF_eq f hf hb
  have hd : (0 : Rat) < (f.denom : Rat) := by exact_mod_cast hpos
  have hq1 : (f.numer : Rat) / (f.denom : Rat) ≤ 1 := by
    rw [div_le_one hd]; exact_mod_cast hle
  have hq0 : (0 : Rat) ≤ (f.numer : Rat) / (f.denom : Rat) := by positivity
  rw [he]
  refine ⟨toRat_rnd_nonneg _ hq0, ?_⟩
  have := toRat_rnd_le_natCast _ 1 (by norm_num) (by simpa using hq1)
  simpa using this

/-- the value of a constraint that did not succeed, with at most `2^B` combinations, is at most the
    double `1 - 2^-B` -/
theorem valueF_le_defect (f : Fit) (hf : f.Wf) (B : Nat) (hB : B ≤ 52) (hb : f.denom ≤ 2 ^ B)
    (hs : f.success = false) :
    f.valueF.toRat ≤ ((2 ^ B - 1 : Nat) : Rat) / (2 : Rat) ^ B := by
  have hB53 : 2 ^ B < 2 ^ 53 := Nat.pow_lt_pow_right (by norm_num) (by omega)
  obtain ⟨he, hpos, hle, hiff⟩ := valueF_eq f hf (by omega)
  have hlt : f.numer < f.denom := by
    rcases Nat.lt_or_eq_of_le hle with h | h
    · exact h
    · rw [hiff.1 h] at hs; cases hs
  rw [he]
  apply toRat_rnd_le_dyadic _ _ _ (by omega)
  have hd : (0 : Rat) < (f.denom : Rat) := by exact_mod_cast hpos
  rw [div_le_div_iff₀ hd (by positivity)]
  have h2 : 0 < 2 ^ B := Nat.pow_pos (by norm_num)
  have key : f.numer * 2 ^ B ≤ (2 ^ B - 1) * f.denom := by
    have h1 : f.numer + 1 ≤ f.denom := hlt
    calc f.numer * 2 ^ B ≤ (f.denom - 1) * 2 ^ B := Nat.mul_le_mul_right _ (by omega)
      _ = f.denom * 2 ^ B - 2 ^ B := Nat.sub_one_mul _ _
      _ ≤ f.denom * 2 ^ B - f.denom := Nat.sub_le_sub_left hb _
      _ = (2 ^ B - 1) * f.denom := by rw [Nat.sub_one_mul, Nat.mul_comm]
  exact_mod_cast key

/-! ## the running sum of `_evaluate_constraints` -/

/-- every entry is a value in `[0, 1]` -/
def Unit01 (fs : List (Option F)) : Prop := ∀ x ∈ fs, ∀ f, x = some f → 0 ≤ f.toRat ∧ f.toRat ≤ 1

/-- the entry is a constraint that raised, or one whose value is at most `1 - 2^-B` -/
def Defect (B : Nat) (x : Option F) : Prop :=
  x = none ∨ ∃ f, x = some f ∧ f.toRat ≤ ((2 ^ B - 1 : Nat) : Rat) / (2 : Rat) ^ B

theorem Unit01.tail {x : Option F} {fs : List (Option F)} (h : Unit01 (x :: fs)) : Unit01 fs :=
  fun y hy f hf => h y (by simp [hy]) f hf

theorem foldOk_cons (step : F → F → F) (acc : F) (x : Option F) (fs : List (Option F)) :
    foldOk step acc (x :: fs) = foldOk step (match x with | some v => step acc v | none => acc) fs := rfl

theorem foldOk_nonneg (fs : List (Option F)) (acc : F) (h01 : Unit01 fs) (ha : 0 ≤ acc.toRat) :
    0 ≤ (foldOk (fun a x => fadd a x) acc fs).toRat := by
  induction fs generalizing acc with
  | nil => simpa [foldOk] using ha
  | cons x fs ih =>
    rw [foldOk_cons]
    apply ih _ h01.tail
    cases x with
    | none => exact ha
    | some v =>
      have := (h01 (some v) (by simp) v rfl).1
      exact toRat_rnd_nonneg _ (by linarith)

/-- in units of `2^-B`: after `len` more additions of values ≤ 1 the sum is at most `K/2^B + len`
    (the bound is a double; nothing accumulates) -/
theorem foldOk_le (B : Nat) (fs : List (Option F)) (acc : F) (K : Nat) (h01 : Unit01 fs)
    (ha : acc.toRat ≤ (K : Rat) / (2 : Rat) ^ B) (hK : K + fs.length * 2 ^ B < 2 ^ 53) :
    (foldOk (fun a x => fadd a x) acc fs).toRat ≤ ((K + fs.length * 2 ^ B : Nat) : Rat) / (2 : Rat) ^ B := by
  induction fs generalizing acc K with
  | nil => simpa [foldOk] using ha
  | cons x fs ih =>
    rw [foldOk_cons]
    simp only [List.length_cons] at hK ⊢
    have hp : (0 : Rat) < (2 : Rat) ^ B := by positivity
    have hK' : K + 2 ^ B + fs.length * 2 ^ B < 2 ^ 53 := by
      have : (fs.length + 1) * 2 ^ B = fs.length * 2 ^ B + 2 ^ B := Nat.succ_mul _ _
      omega
    have hstep : (match x with | some v => fadd acc v | none => acc).toRat ≤
        ((K + 2 ^ B : Nat) : Rat) / (2 : Rat) ^ B := by
      have hcast : ((K + 2 ^ B : Nat) : Rat) / (2 : Rat) ^ B = (K : Rat) / (2 : Rat) ^ B + 1 := by
        push_cast; rw [add_div, div_self (ne_of_gt hp)]
      cases x with
      | none =>
        simp only []
        rw [hcast]; linarith
      | some v =>
        simp only []
        have := (h01 (some v) (by simp) v rfl).2
        apply toRat_rnd_le_dyadic _ _ _ (by omega)
        rw [hcast]; linarith
    have := ih _ (K + 2 ^ B) h01.tail hstep hK'
    have e : K + 2 ^ B + fs.length * 2 ^ B = K + (fs.length + 1) * 2 ^ B := by
      rw [Nat.succ_mul]; omega
    rw [e] at this
    exact this

/-- … and once a defective entry went in, one unit `2^-B` is missing for good -/
theorem foldOk_le_defect (B : Nat) (fs : List (Option F)) (acc : F) (K : Nat) (h01 : Unit01 fs)
    (hdef : ∃ x ∈ fs, Defect B x)
    (ha : acc.toRat ≤ (K : Rat) / (2 : Rat) ^ B) (hK : K + fs.length * 2 ^ B < 2 ^ 53) :
    (foldOk (fun a x => fadd a x) acc fs).toRat ≤
      ((K + fs.length * 2 ^ B - 1 : Nat) : Rat) / (2 : Rat) ^ B := by
  induction fs generalizing acc K with
  | nil => obtain ⟨x, hx, _⟩ := hdef; cases hx
  | cons x fs ih =>
    rw [foldOk_cons]
    simp only [List.length_cons] at hK ⊢
    have hp : (0 : Rat) < (2 : Rat) ^ B := by positivity
    have h2 : 0 < 2 ^ B := Nat.pow_pos (by norm_num)
    have hsucc : (fs.length + 1) * 2 ^ B = fs.length * 2 ^ B + 2 ^ B := Nat.succ_mul _ _
    by_cases hx : Defect B x
    · -- the head is defective: bound the step by K + 2^B - 1, then plain summation
      have hcast : ((K + (2 ^ B - 1) : Nat) : Rat) / (2 : Rat) ^ B =
          (K : Rat) / (2 : Rat) ^ B + ((2 ^ B - 1 : Nat) : Rat) / (2 : Rat) ^ B := by
        push_cast; ring
      have hnn : (0 : Rat) ≤ ((2 ^ B - 1 : Nat) : Rat) / (2 : Rat) ^ B := by positivity
      have hstep : (match x with | some v => fadd acc v | none => acc).toRat ≤
          ((K + (2 ^ B - 1) : Nat) : Rat) / (2 : Rat) ^ B := by
        rcases hx with rfl | ⟨v, rfl, hv⟩
        · simp only []
          rw [hcast]; linarith
        · simp only []
          apply toRat_rnd_le_dyadic _ _ _ (by omega)
          rw [hcast]; linarith
      have := foldOk_le B fs _ (K + (2 ^ B - 1)) h01.tail hstep (by omega)
      have e : K + (2 ^ B - 1) + fs.length * 2 ^ B = K + (fs.length + 1) * 2 ^ B - 1 := by omega
      rw [e] at this
      exact this
    · have hdef' : ∃ y ∈ fs, Defect B y := by
        obtain ⟨y, hy, hyd⟩ := hdef
        rcases List.mem_cons.1 hy with rfl | hy'
        · exact absurd hyd hx
        · exact ⟨y, hy', hyd⟩
      have hcast : ((K + 2 ^ B : Nat) : Rat) / (2 : Rat) ^ B = (K : Rat) / (2 : Rat) ^ B + 1 := by
        push_cast; rw [add_div, div_self (ne_of_gt hp)]
      have hstep : (match x with | some v => fadd acc v | none => acc).toRat ≤
          ((K + 2 ^ B : Nat) : Rat) / (2 : Rat) ^ B := by
        cases x with
        | none => exact absurd (Or.inl rfl) hx
        | some v =>
          simp only []
          have := (h01 (some v) (by simp) v rfl).2
          apply toRat_rnd_le_dyadic _ _ _ (by omega)
          rw [hcast]; linarith
      have := ih _ (K + 2 ^ B) h01.tail hdef' hstep (by omega)
      have e : K + 2 ^ B + fs.length * 2 ^ B - 1 = K + (fs.length + 1) * 2 ^ B - 1 := by omega
      rw [e] at this
      exact this

/-! ## the class mean -/

theorem ofDecimal_zero' : ofDecimal 0 1 = zero := by decide +kernel
theorem ofDecimal_one' : ofDecimal 10 1 = one := by decide +kernel

/-- `_evaluate_constraints`: the mean times the class size is at most the class size (up to one
    rounding), and at most the class size minus `2^-B` when the class has a defective entry -/
theorem classMean_bounds (B : Nat) (fs : List (Option F)) (h01 : Unit01 fs)
    (hlen : fs.length * 2 ^ B < 2 ^ 53) :
    0 ≤ (Generated.classMean fs).toRat ∧
    (Generated.classMean fs).toRat * (fs.length : Rat) ≤ (fs.length : Rat) * (1 + u) ∧
    ((∃ x ∈ fs, Defect B x) →
      (Generated.classMean fs).toRat * (fs.length : Rat) ≤ ((fs.length : Rat) - 1 / (2 : Rat) ^ B) * (1 + u)) := by
  have hu : (0 : Rat) ≤ u := by norm_num [u]
  by_cases h0 : fs.length = 0
  · have hnil : fs = [] := List.eq_nil_of_length_eq_zero h0
    subst hnil
    simp [Generated.classMean, ofDecimal_one', toRat_one]
  · have hpos : 0 < fs.length := Nat.pos_of_ne_zero h0
    have h2 : 0 < 2 ^ B := Nat.pow_pos (by norm_num)
    have hlen53 : fs.length < 2 ^ 53 := by
      have : fs.length * 1 ≤ fs.length * 2 ^ B := Nat.mul_le_mul_left _ h2
      omega
    have hL : (0 : Rat) < (fs.length : Rat) := by exact_mod_cast hpos
    have hp : (0 : Rat) < (2 : Rat) ^ B := by positivity
    have hcm : Generated.classMean fs =
        rnd ((foldOk (fun a x => fadd a x) zero fs).toRat / (fs.length : Rat)) := by
      simp only [Generated.classMean, h0, decide_false, Bool.false_eq_true, if_false, ofDecimal_zero']
      unfold fdiv
      rw [toRat_ofNat _ hlen53]
    generalize hS : (foldOk (fun a x => fadd a x) zero fs).toRat = S at hcm
    have hS0 : 0 ≤ S := by
      rw [← hS]; exact foldOk_nonneg fs zero h01 (by rw [toRat_zero])
    have hz : zero.toRat ≤ ((0 : Nat) : Rat) / (2 : Rat) ^ B := by rw [toRat_zero]; simp
    have hS1 : S ≤ (fs.length : Rat) := by
      have := foldOk_le B fs zero 0 h01 hz (by omega)
      rw [hS] at this
      have e : ((0 + fs.length * 2 ^ B : Nat) : Rat) / (2 : Rat) ^ B = (fs.length : Rat) := by
        push_cast; rw [zero_add, mul_div_assoc, div_self (ne_of_gt hp), mul_one]
      rw [e] at this; exact this
    have hq0 : 0 ≤ S / (fs.length : Rat) := by positivity
    have hr1 := toRat_rnd_le_mul _ hq0
    have hr0 := toRat_rnd_nonneg _ hq0
    have hmul : (rnd (S / (fs.length : Rat))).toRat * (fs.length : Rat) ≤ S * (1 + u) := by
      have := mul_le_mul_of_nonneg_right hr1 (le_of_lt hL)
      have e : S / (fs.length : Rat) * (1 + u) * (fs.length : Rat) = S * (1 + u) := by
        field_simp
      rw [e] at this; exact this
    rw [hcm]
    refine ⟨hr0, ?_, ?_⟩
    · have : S * (1 + u) ≤ (fs.length : Rat) * (1 + u) :=
        mul_le_mul_of_nonneg_right hS1 (by linarith)
      linarith
    · intro hdef
      have hS2 : S ≤ (fs.length : Rat) - 1 / (2 : Rat) ^ B := by
        have := foldOk_le_defect B fs zero 0 h01 hdef hz (by omega)
        rw [hS] at this
        have hge : 1 ≤ fs.length * 2 ^ B := Nat.mul_pos hpos h2
        have e : ((0 + fs.length * 2 ^ B - 1 : Nat) : Rat) / (2 : Rat) ^ B =
            (fs.length : Rat) - 1 / (2 : Rat) ^ B := by
          rw [Nat.zero_add, Nat.cast_sub hge]
          push_cast
          rw [sub_div, mul_div_assoc, div_self (ne_of_gt hp), mul_one]
        rw [e] at this; exact this
      have : S * (1 + u) ≤ ((fs.length : Rat) - 1 / (2 : Rat) ^ B) * (1 + u) :=
        mul_le_mul_of_nonneg_right hS2 (by linarith)
      linarith

/-! ## the generated formula -/

/-- the four roundings after the class means cannot bridge a gap of `g` when `h + r ≤ 2^50 * g` -/
theorem formula_lt_one (hm rm soft : F) (h r : Nat) (g Dh Dr : Rat)
    (hm0 : 0 ≤ hm.toRat) (rm0 : 0 ≤ rm.toRat)
    (hmb : hm.toRat * (h : Rat) ≤ ((h : Rat) - Dh) * (1 + u))
    (rmb : rm.toRat * (r : Rat) ≤ ((r : Rat) - Dr) * (1 + u))
    (hg : g ≤ Dh + Dr) (hpos : 0 < h + r) (hn : h + r < 2 ^ 53)
    (hgap : ((h + r : Nat) : Rat) ≤ 2 ^ 50 * g) :
    (Generated.fitnessFormula hm rm soft h r 0).toRat < 1 := by
  have hN : (0 : Rat) < ((h + r : Nat) : Rat) := by exact_mod_cast hpos
  have hh0 : (0 : Rat) ≤ (h : Rat) := by positivity
  have hr0 : (0 : Rat) ≤ (r : Rat) := by positivity
  -- A = float(hardMean * h)
  have hA0 : 0 ≤ hm.toRat * (h : Rat) := by positivity
  have hA := toRat_rnd_le_mul _ hA0
  have hA' := toRat_rnd_nonneg _ hA0
  have hB0 : 0 ≤ rm.toRat * (r : Rat) := by positivity
  have hB := toRat_rnd_le_mul _ hB0
  have hB' := toRat_rnd_nonneg _ hB0
  have hc : decide (h + r + 0 > 0) = true := by simpa using hpos
  by_cases hr : r = 0
  · subst hr
    simp only [Nat.add_zero] at hc hn hpos hN hgap
    have hform : Generated.fitnessFormula hm rm soft h 0 0 =
        rnd ((rnd (hm.toRat * (h : Rat))).toRat / (h : Rat)) := by
      simp only [Generated.fitnessFormula, Nat.add_zero, hc, if_true, gt_iff_lt, Nat.lt_irrefl,
        decide_false, Bool.false_and, Bool.false_eq_true, if_false]
      unfold fdiv fmul
      rw [toRat_ofNat _ hn]
    rw [hform]
    generalize (rnd (hm.toRat * (h : Rat))).toRat = A at *
    have hq0 : 0 ≤ A / (h : Rat) := by positivity
    refine lt_of_le_of_lt (toRat_rnd_le_mul _ hq0) ?_
    rw [div_mul_eq_mul_div, div_lt_one hN]
    simp only [u] at *
    simp only [Nat.cast_zero, mul_zero] at rmb
    nlinarith
  · have hrpos : 0 < r := Nat.pos_of_ne_zero hr
    have hc2 : decide (r > 0) = true := by simpa using hrpos
    have hform : Generated.fitnessFormula hm rm soft h r 0 =
        rnd ((rnd ((rnd (hm.toRat * (h : Rat))).toRat + (rnd (rm.toRat * (r : Rat))).toRat)).toRat /
          ((h + r : Nat) : Rat)) := by
      have hc' : decide (0 < h + r) = true := by simpa using hpos
      simp only [Generated.fitnessFormula, Nat.add_zero, hc', hc2, if_true, gt_iff_lt, Nat.lt_irrefl,
        decide_false, Bool.false_and, Bool.false_eq_true, if_false]
      unfold fdiv fmul fadd
      rw [toRat_ofNat _ hn, toRat_ofNat h (by omega), toRat_ofNat r (by omega)]
    rw [hform]
    generalize (rnd (hm.toRat * (h : Rat))).toRat = A at *
    generalize (rnd (rm.toRat * (r : Rat))).toRat = Bq at *
    have hC0 : 0 ≤ A + Bq := by linarith
    have hC := toRat_rnd_le_mul _ hC0
    have hC' := toRat_rnd_nonneg _ hC0
    generalize (rnd (A + Bq)).toRat = C at *
    have hq0 : 0 ≤ C / ((h + r : Nat) : Rat) := by positivity
    refine lt_of_le_of_lt (toRat_rnd_le_mul _ hq0) ?_
    rw [div_mul_eq_mul_div, div_lt_one hN]
    have hsplit : ((h + r : Nat) : Rat) = (h : Rat) + (r : Rat) := by push_cast; rfl
    rw [hsplit] at hgap ⊢
    simp only [u] at *
    nlinarith

/-! ## from the constraint results to the float entries -/

/-- every per-constraint denominator (`total`, or the number of values of a comparison) is at most `2^B` -/
def DenomLe (B : Nat) (rs : List (Option Fit)) : Prop := ∀ r ∈ rs, ∀ f, r = some f → f.denom ≤ 2 ^ B

theorem unit01_map_toF (B : Nat) (hB : B ≤ 52) (rs : List (Option Fit)) (hw : AllWf rs) (hd : DenomLe B rs) :
    Unit01 (rs.map toF) := by
  intro x hx v hv
  obtain ⟨r, hr, rfl⟩ := List.mem_map.1 hx
  cases r with
  | none => simp [toF] at hv
  | some f =>
    simp only [toF, Option.map_some, Option.some.injEq] at hv
    subst hv
    have h1 := hd _ hr f rfl
    have h2 : 2 ^ B < 2 ^ 53 := Nat.pow_lt_pow_right (by norm_num) (by omega)
    exact valueF_bounds f (hw _ hr f rfl) (by omega)

theorem defect_of_not_allSucceed (B : Nat) (hB : B ≤ 52) (rs : List (Option Fit)) (hw : AllWf rs)
    (hd : DenomLe B rs) (hns : ¬ AllSucceed rs) : ∃ x ∈ rs.map toF, Defect B x := by
  unfold AllSucceed at hns
  simp only [not_forall] at hns
  obtain ⟨r, hr, hno⟩ := hns
  refine ⟨toF r, List.mem_map.2 ⟨r, hr, rfl⟩, ?_⟩
  cases r with
  | none => exact Or.inl rfl
  | some f =>
    right
    refine ⟨f.valueF, rfl, ?_⟩
    have hs : f.success = false := by
      cases h : f.success with
      | false => rfl
      | true => exact absurd ⟨f, rfl, h⟩ hno
    exact valueF_le_defect f (hw _ hr f rfl) B hB (hd _ hr f rfl) hs

/-- **acceptance only if everything succeeded, binary64**: the generated formula over the generated class
    means of the per-constraint values stays strictly below 1.0 as soon as one constraint raised or did
    not succeed — provided `(h + r) * 2^B ≤ 2^50`, `2^B` bounding every per-constraint denominator -/
theorem fitnessF_lt_one (B : Nat) (hard rep : List (Option Fit)) (soft : F)
    (hh : AllWf hard) (hr : AllWf rep) (dh : DenomLe B hard) (dr : DenomLe B rep)
    (hpos : 0 < hard.length + rep.length) (hbound : (hard.length + rep.length) * 2 ^ B ≤ 2 ^ 50)
    (hns : ¬ (AllSucceed hard ∧ AllSucceed rep)) :
    (Generated.fitnessFormula (Generated.classMean (hard.map toF)) (Generated.classMean (rep.map toF)) soft
      hard.length rep.length 0).toRat < 1 := by
  have h2 : 0 < 2 ^ B := Nat.pow_pos (by norm_num)
  have hB : B ≤ 50 := by
    by_contra hc
    have : 2 ^ 51 ≤ 2 ^ B := Nat.pow_le_pow_right (by norm_num) (by omega)
    have : 1 * 2 ^ B ≤ (hard.length + rep.length) * 2 ^ B := Nat.mul_le_mul_right _ hpos
    omega
  have hlh : hard.length * 2 ^ B ≤ (hard.length + rep.length) * 2 ^ B :=
    Nat.mul_le_mul_right _ (by omega)
  have hlr : rep.length * 2 ^ B ≤ (hard.length + rep.length) * 2 ^ B :=
    Nat.mul_le_mul_right _ (by omega)
  have hn1 : (hard.length + rep.length) * 1 ≤ (hard.length + rep.length) * 2 ^ B :=
    Nat.mul_le_mul_left _ h2
  have u1 := unit01_map_toF B (by omega) hard hh dh
  have u2 := unit01_map_toF B (by omega) rep hr dr
  obtain ⟨a0, a1, a2⟩ := classMean_bounds B (hard.map toF) u1 (by simp only [List.length_map]; omega)
  obtain ⟨b0, b1, b2⟩ := classMean_bounds B (rep.map toF) u2 (by simp only [List.length_map]; omega)
  simp only [List.length_map] at a1 a2 b1 b2
  have hp : (0 : Rat) < (2 : Rat) ^ B := by positivity
  have hgap : ((hard.length + rep.length : Nat) : Rat) ≤ 2 ^ 50 * (1 / (2 : Rat) ^ B) := by
    rw [mul_one_div, le_div_iff₀ hp]
    exact_mod_cast hbound
  have hg0 : (0 : Rat) ≤ 1 / (2 : Rat) ^ B := by positivity
  by_cases hsh : AllSucceed hard
  · have hsr : ¬ AllSucceed rep := fun h => hns ⟨hsh, h⟩
    have := b2 (defect_of_not_allSucceed B (by omega) rep hr dr hsr)
    exact formula_lt_one _ _ soft _ _ (1 / (2 : Rat) ^ B) 0 (1 / (2 : Rat) ^ B) a0 b0
      (by simpa using a1) this (by simp) hpos (by omega) hgap
  · have := a2 (defect_of_not_allSucceed B (by omega) hard hh dh hsh)
    exact formula_lt_one _ _ soft _ _ (1 / (2 : Rat) ^ B) (1 / (2 : Rat) ^ B) 0 a0 b0
      this (by simpa using b1) (by simp) hpos (by omega) hgap

/-! ## the other direction (exact, as in C03): everything succeeded ⇒ fitness is exactly 1.0 -/

theorem valueF_one_of_success (f : Fit) (hf : f.Wf) (hb : f.denom < 2 ^ 53) (hs : f.success = true) :
    f.valueF = one := by
  obtain ⟨he, hpos, _, hiff⟩ := valueF_eq f hf hb
  have hd : (f.denom : Rat) ≠ 0 := by
    have : (0 : Rat) < (f.denom : Rat) := by exact_mod_cast hpos
    exact ne_of_gt this
  rw [he, hiff.2 hs, div_self hd, rnd_one]

theorem map_toF_of_allSucceed (rs : List (Option Fit)) (hw : AllWf rs)
    (hd : ∀ r ∈ rs, ∀ f, r = some f → f.denom < 2 ^ 53) (hs : AllSucceed rs) :
    rs.map toF = List.replicate rs.length (some one) := by
  induction rs with
  | nil => rfl
  | cons r rs ih =>
    obtain ⟨f, rfl, hf⟩ := hs r (by simp)
    have h1 := valueF_one_of_success f (hw _ (by simp) f rfl) (hd _ (by simp) f rfl) hf
    have := ih (fun x hx g hg => hw x (by simp [hx]) g hg) (fun x hx g hg => hd x (by simp [hx]) g hg)
      (fun x hx => hs x (by simp [hx]))
    simp only [List.map_cons, List.length_cons, List.replicate_succ, this, toF, Option.map_some, h1]

theorem classMean_replicate_one (n : Nat) (h : n < 2 ^ 53) :
    Generated.classMean (List.replicate n (some one)) = one := by
  by_cases h0 : n = 0
  · subst h0; simp [Generated.classMean, ofDecimal_one']
  · have := foldOk_some_ones n 0 (by omega)
    simp only [Nat.zero_add, ofNat_zero] at this
    simp only [Generated.classMean, List.length_replicate, h0, decide_false, Bool.false_eq_true, if_false,
      ofDecimal_zero', this]
    exact fdiv_self_ofNat n (by omega) h

theorem fitnessFormula_one_one (h r : Nat) (hb : h + r < 2 ^ 53) (softMean : F) :
    Generated.fitnessFormula one one softMean h r 0 = one := by
  have hm := fmul_one_ofNat h (by omega)
  have hr := fmul_one_ofNat r (by omega)
  have ha := fadd_ofNat h r hb
  by_cases ht : h + r = 0
  · have h0 : h = 0 := by omega
    have r0 : r = 0 := by omega
    subst h0 r0
    simp [Generated.fitnessFormula]
  · have hd := fdiv_self_ofNat (h + r) (by omega) hb
    have hpos : 0 < h + r := by omega
    by_cases hr0 : r = 0
    · subst hr0
      simp only [Nat.add_zero] at hd hpos
      simp [Generated.fitnessFormula, hm, hd, hpos]
    · have hrpos : 0 < r := by omega
      simp [Generated.fitnessFormula, hm, hr, ha, hd, hpos, hrpos]

theorem fitnessF_eq_one (hard rep : List (Option Fit)) (soft : F) (hh : AllWf hard) (hr : AllWf rep)
    (dh : ∀ r ∈ hard, ∀ f, r = some f → f.denom < 2 ^ 53) (dr : ∀ r ∈ rep, ∀ f, r = some f → f.denom < 2 ^ 53)
    (hb : hard.length + rep.length < 2 ^ 53) (sh : AllSucceed hard) (sr : AllSucceed rep) :
    Generated.fitnessFormula (Generated.classMean (hard.map toF)) (Generated.classMean (rep.map toF)) soft
      hard.length rep.length 0 = one := by
  rw [map_toF_of_allSucceed hard hh dh sh, map_toF_of_allSucceed rep hr dr sr,
    classMean_replicate_one _ (by omega), classMean_replicate_one _ (by omega)]
  exact fitnessFormula_one_one _ _ hb _

theorem repFit_denom_le (B : Nat) (gs : List RepGroup) (h : gs.length ≤ 2 ^ B) : (repFit gs).denom ≤ 2 ^ B := by
  have h2 : 0 < 2 ^ B := Nat.pow_pos (by norm_num)
  unfold repFit Fit.denom
  cases gs with
  | nil => simp; omega
  | cons g gs => simpa using h

end FV
