/-
Soundness of the language enumerator of `Model/Enum.lean`: everything it lists is a derivation of the grammar
(`Valid`), its child tokens `Matches` the rule, and the tags name regex terminals that accept their leaves.
-/
import Model.Enum
import Proofs.IR
namespace FV
namespace Enum

/-- the instance table only holds leaves the regex oracle accepts -/
def InstOK (R : RegexOracle) (inst : Inst) : Prop := ∀ id l, l ∈ inst id → R id l = true

/-- tags and leaves line up, and a tag names a regex that accepts its leaf -/
def tagOK (R : RegexOracle) : List Leaf → List (Option Nat) → Prop
  | [], [] => True
  | l :: ls, t :: ts => (∀ id, t = some id → R id l = true) ∧ tagOK R ls ts
  | _, _ => False

theorem tagOK_append (R : RegexOracle) : ∀ (a : List Leaf) (ta : List (Option Nat)) (b : List Leaf)
    (tb : List (Option Nat)), tagOK R a ta → tagOK R b tb → tagOK R (a ++ b) (ta ++ tb)
  | [], [], _, _, _, h => by simpa using h
  | [], _ :: _, _, _, h, _ => by simp [tagOK] at h
  | _ :: _, [], _, _, h, _ => by simp [tagOK] at h
  | l :: ls, t :: ts, b, tb, h, h' => by
    simp only [List.cons_append, tagOK] at h ⊢
    exact ⟨h.1, tagOK_append R ls ts b tb h.2 h'⟩

theorem tagOK_length (R : RegexOracle) : ∀ (a : List Leaf) (ta : List (Option Nat)),
    tagOK R a ta → ta.length = a.length
  | [], [], _ => rfl
  | [], _ :: _, h => by simp [tagOK] at h
  | _ :: _, [], h => by simp [tagOK] at h
  | _ :: ls, _ :: ts, h => by
    simp only [tagOK] at h
    simp [tagOK_length R ls ts h.2]

theorem leavesL_append : ∀ (a b : List Tree), Tree.leavesL (a ++ b) = Tree.leavesL a ++ Tree.leavesL b
  | [], b => by simp [Tree.leavesL]
  | t :: ts, b => by simp [Tree.leavesL, leavesL_append ts b, List.append_assoc]

theorem toksOf_append : ∀ (a b : List Tree) (x y : List Tok), toksOf a = some x → toksOf b = some y →
    toksOf (a ++ b) = some (x ++ y)
  | [], b, x, y, ha, hb => by
    simp only [toksOf, Option.some.injEq] at ha
    subst ha
    simpa using hb
  | t :: ts, b, x, y, ha, hb => by
    simp only [toksOf, List.cons_append] at ha ⊢
    cases ht : tokOf t with
    | none => simp [ht] at ha
    | some tk =>
      cases hts : toksOf ts with
      | none => simp [ht, hts] at ha
      | some xs =>
        simp only [ht, hts, Option.some.injEq] at ha
        subst ha
        simp [toksOf_append ts b xs y hts hb]

theorem validL_append (G : Grammar) (R : RegexOracle) : ∀ (a b : List Tree),
    ValidL G R a → ValidL G R b → ValidL G R (a ++ b)
  | [], _, _, hb => by simpa using hb
  | t :: ts, b, ha, hb => by
    simp only [List.cons_append, ValidL] at ha ⊢
    exact ⟨ha.1, validL_append G R ts b ha.2 hb⟩

section
variable (G : Grammar) (R : RegexOracle)

/-- a forest is a well-formed piece of a derivation: valid trees, tokens, tags -/
def Piece (P : List Tok → Prop) (f : Tagged) : Prop :=
  ValidL G R f.1 ∧ (∃ toks, toksOf f.1 = some toks ∧ P toks) ∧ tagOK R (Tree.leavesL f.1) f.2

theorem piece_cat {P Q S : List Tok → Prop} (hPQ : ∀ x y, P x → Q y → S (x ++ y)) {a b : Tagged}
    (ha : Piece G R P a) (hb : Piece G R Q b) : Piece G R S (catT a b) := by
  obtain ⟨va, ⟨x, hx, px⟩, ta⟩ := ha
  obtain ⟨vb, ⟨y, hy, qy⟩, tb⟩ := hb
  refine ⟨validL_append G R _ _ va vb, ⟨x ++ y, toksOf_append _ _ _ _ hx hy, hPQ x y px qy⟩, ?_⟩
  simp only [catT, leavesL_append]
  exact tagOK_append R _ _ _ _ ta tb

theorem mem_of_mem_takeO {α : Type} {lim : Option Nat} {l : List α} {x : α} (h : x ∈ takeO lim l) : x ∈ l := by
  cases lim with
  | none => exact h
  | some n => exact List.mem_of_mem_take h

theorem mem_prodT {lim : Option Nat} {xs ys : List Tagged} {f : Tagged} (h : f ∈ prodT lim xs ys) :
    ∃ a ∈ xs, ∃ b ∈ ys, f = catT a b := by
  have := mem_of_mem_takeO h
  rw [List.mem_flatMap] at this
  obtain ⟨a, ha, hb⟩ := this
  rw [List.mem_map] at hb
  obtain ⟨b, hb, rfl⟩ := hb
  exact ⟨a, ha, b, hb, rfl⟩

theorem mem_rotate {α : Type} {l : List α} {r : Nat} {x : α} (h : x ∈ rotate l r) : x ∈ l := by
  unfold rotate at h
  rw [List.mem_append] at h
  rcases h with h | h
  · exact List.mem_of_mem_drop h
  · exact List.mem_of_mem_take h

theorem powT_piece {n : Node} {lim : Option Nat} {xs : List Tagged}
    (hxs : ∀ g ∈ xs, Piece G R (fun v => Matches R n v) g) :
    ∀ (k : Nat) (f : Tagged), f ∈ powT lim xs k → Piece G R (fun v => RepOf (fun u => Matches R n u) k v) f
  | 0, f, h => by
    simp only [powT, List.mem_singleton] at h
    subst h
    exact ⟨by simp [ValidL], ⟨[], by simp [toksOf], rfl⟩, by simp [Tree.leavesL, tagOK]⟩
  | k + 1, f, h => by
    simp only [powT] at h
    obtain ⟨a, ha, b, hb, rfl⟩ := mem_prodT h
    exact piece_cat G R (fun x y px qy => ⟨x, y, rfl, px, qy⟩) (hxs a ha) (powT_piece hxs k b hb)

/-- what the forests of the non-terminals must satisfy -/
def NTOK (ntf : String → Option String → Option String → List Tagged) : Prop :=
  ∀ s a r f, f ∈ ntf s a r → Piece G R (fun v => v = [.ntk s]) f

variable {inst : Inst} {c : Nat} {lim : Option Nat} {rot : Nat} {ntf : String → Option String → Option String → List Tagged}

mutual
theorem enumWith_piece (hI : InstOK R inst) (hnt : NTOK G R ntf) : ∀ (n : Node) (f : Tagged),
    f ∈ enumWith inst c lim rot ntf n → Piece G R (fun v => Matches R n v) f
  | .term (.lit l), f, h => by
    simp only [enumWith, List.mem_singleton] at h
    subst h
    refine ⟨by simp [ValidL, Valid, Tree.leaf], ⟨[.leaf l], by simp [toksOf, tokOf, Tree.leaf], ?_⟩, ?_⟩
    · exact ⟨.leaf l, rfl, by simp [termOk]⟩
    · simp [Tree.leavesL, Tree.leaves, Tree.leaf, tagOK]
  | .term (.regex id), f, h => by
    simp only [enumWith] at h
    have := mem_of_mem_takeO h
    rw [List.mem_map] at this
    obtain ⟨l, hl, rfl⟩ := this
    have hR := hI id l hl
    refine ⟨by simp [ValidL, Valid, Tree.leaf], ⟨[.leaf l], by simp [toksOf, tokOf, Tree.leaf], ?_⟩, ?_⟩
    · exact ⟨.leaf l, rfl, by simp [termOk, hR]⟩
    · simp [Tree.leavesL, Tree.leaves, Tree.leaf, tagOK, hR]
  | .nt name a r, f, h => by
    simp only [enumWith] at h
    obtain ⟨v, ⟨toks, ht, rfl⟩, tg⟩ := hnt name a r f h
    exact ⟨v, ⟨_, ht, by simp [Matches]⟩, tg⟩
  | .alt _ ns, f, h => by
    simp only [enumWith] at h
    have := mem_rotate (mem_of_mem_takeO h)
    obtain ⟨v, ⟨toks, ht, hm⟩, tg⟩ := enumAny_piece hI hnt ns f this
    exact ⟨v, ⟨toks, ht, by simpa [Matches] using hm⟩, tg⟩
  | .cat _ ns, f, h => by
    simp only [enumWith] at h
    obtain ⟨v, ⟨toks, ht, hm⟩, tg⟩ := enumCat_piece hI hnt ns f h
    exact ⟨v, ⟨toks, ht, by simpa [Matches] using hm⟩, tg⟩
  | .rep _ _ n min max, f, h => by
    simp only [enumWith] at h
    have := mem_of_mem_takeO h
    rw [List.mem_flatMap] at this
    obtain ⟨k, hk, hf⟩ := this
    rw [List.mem_filter] at hk
    have hb : inBounds min max k := by simpa using hk.2
    obtain ⟨v, ⟨toks, ht, hm⟩, tg⟩ :=
      powT_piece G R (fun g hg => enumWith_piece hI hnt n g hg) k f hf
    exact ⟨v, ⟨toks, ht, by simp only [Matches]; exact ⟨k, hb, hm⟩⟩, tg⟩
theorem enumAny_piece (hI : InstOK R inst) (hnt : NTOK G R ntf) : ∀ (ns : List Node) (f : Tagged),
    f ∈ enumAny inst c lim rot ntf ns → Piece G R (fun v => MatchesAny R ns v) f
  | [], f, h => by simp [enumAny] at h
  | n :: ns, f, h => by
    simp only [enumAny, List.mem_append] at h
    rcases h with h | h
    · obtain ⟨v, ⟨toks, ht, hm⟩, tg⟩ := enumWith_piece hI hnt n f h
      exact ⟨v, ⟨toks, ht, by simp only [MatchesAny]; exact Or.inl hm⟩, tg⟩
    · obtain ⟨v, ⟨toks, ht, hm⟩, tg⟩ := enumAny_piece hI hnt ns f h
      exact ⟨v, ⟨toks, ht, by simp only [MatchesAny]; exact Or.inr hm⟩, tg⟩
theorem enumCat_piece (hI : InstOK R inst) (hnt : NTOK G R ntf) : ∀ (ns : List Node) (f : Tagged),
    f ∈ enumCat inst c lim rot ntf ns → Piece G R (fun v => MatchesCat R ns v) f
  | [], f, h => by
    simp only [enumCat, List.mem_singleton] at h
    subst h
    exact ⟨by simp [ValidL], ⟨[], by simp [toksOf], by simp [MatchesCat]⟩, by simp [Tree.leavesL, tagOK]⟩
  | n :: ns, f, h => by
    simp only [enumCat] at h
    obtain ⟨a, ha, b, hb, rfl⟩ := mem_prodT h
    exact piece_cat G R (fun x y px qy => by simp only [MatchesCat]; exact ⟨x, y, rfl, px, qy⟩)
      (enumWith_piece hI hnt n a ha) (enumCat_piece hI hnt ns b hb)
end

theorem enumNT_ok (hI : InstOK R inst) : ∀ d : Nat, NTOK G R (enumNT G inst c lim rot d)
  | 0 => by intro s a r f h; simp [enumNT] at h
  | d + 1 => by
    intro s a r f h
    simp only [enumNT] at h
    cases hr : G.rule s with
    | none => simp [hr] at h
    | some body =>
      simp only [hr, List.mem_map] at h
      obtain ⟨g, hg, rfl⟩ := h
      obtain ⟨v, ⟨toks, ht, hm⟩, tg⟩ := enumWith_piece G R hI (enumNT_ok hI d) body g hg
      refine ⟨?_, ⟨[.ntk s], by simp [toksOf, tokOf], rfl⟩, ?_⟩
      · simp only [ValidL, Valid, and_true]
        exact ⟨⟨body, toks, hr, ht, hm⟩, v⟩
      · simpa [Tree.leavesL, Tree.leaves] using tg

end

/-! ### bounded completeness: without truncation every bounded derivation is listed -/

theorem mem_rotate_of_mem {α : Type} {l : List α} {r : Nat} {x : α} (h : x ∈ l) : x ∈ rotate l r := by
  unfold rotate
  rw [List.mem_append]
  have := List.take_append_drop (r % (l.length + 1)) l
  rw [← this, List.mem_append] at h
  exact h.symm

theorem mem_prodT_none {xs ys : List Tagged} {a b : Tagged} (ha : a ∈ xs) (hb : b ∈ ys) :
    catT a b ∈ prodT none xs ys := by
  simp only [prodT, takeO, List.mem_flatMap, List.mem_map]
  exact ⟨a, ha, b, hb, rfl⟩

theorem mem_powT_none {P : Tagged → Prop} {xs : List Tagged} (hP : ∀ g, P g → g ∈ xs) :
    ∀ (k : Nat) (f : Tagged), PowR P k f → f ∈ powT none xs k
  | 0, f, h => by
    simp only [PowR] at h
    subst h
    simp [powT]
  | k + 1, f, h => by
    simp only [PowR] at h
    obtain ⟨a, b, ha, hb, rfl⟩ := h
    simp only [powT]
    exact mem_prodT_none (hP a ha) (mem_powT_none hP k b hb)

section
variable {inst : Inst} {c rot : Nat} {ntP : String → Option String → Option String → Tagged → Prop}
  {ntf : String → Option String → Option String → List Tagged}

mutual
theorem enumWith_complete (hnt : ∀ s a r f, ntP s a r f → f ∈ ntf s a r) : ∀ (n : Node) (f : Tagged),
    DerWith inst c ntP n f → f ∈ enumWith inst c none rot ntf n
  | .term (.lit l), f, h => by
    simp only [DerWith] at h
    subst h
    simp [enumWith]
  | .term (.regex id), f, h => by
    simp only [DerWith] at h
    obtain ⟨l, hl, rfl⟩ := h
    simp only [enumWith, takeO, List.mem_map]
    exact ⟨l, hl, rfl⟩
  | .nt name a r, f, h => by
    simp only [DerWith] at h
    simp only [enumWith]
    exact hnt name a r f h
  | .alt _ ns, f, h => by
    simp only [DerWith] at h
    simp only [enumWith, takeO]
    exact mem_rotate_of_mem (enumAny_complete hnt ns f h)
  | .cat _ ns, f, h => by
    simp only [DerWith] at h
    simp only [enumWith]
    exact enumCat_complete hnt ns f h
  | .rep _ _ n min max, f, h => by
    simp only [DerWith] at h
    obtain ⟨k, hk, hb, hp⟩ := h
    simp only [enumWith, takeO, List.mem_flatMap, List.mem_filter, List.mem_range]
    refine ⟨k, ⟨by omega, by simpa using hb⟩, ?_⟩
    exact mem_powT_none (fun g hg => enumWith_complete hnt n g hg) k f hp
theorem enumAny_complete (hnt : ∀ s a r f, ntP s a r f → f ∈ ntf s a r) : ∀ (ns : List Node) (f : Tagged),
    DerAny inst c ntP ns f → f ∈ enumAny inst c none rot ntf ns
  | [], f, h => by simp [DerAny] at h
  | n :: ns, f, h => by
    simp only [DerAny] at h
    simp only [enumAny, List.mem_append]
    rcases h with h | h
    · exact Or.inl (enumWith_complete hnt n f h)
    · exact Or.inr (enumAny_complete hnt ns f h)
theorem enumCat_complete (hnt : ∀ s a r f, ntP s a r f → f ∈ ntf s a r) : ∀ (ns : List Node) (f : Tagged),
    DerCat inst c ntP ns f → f ∈ enumCat inst c none rot ntf ns
  | [], f, h => by
    simp only [DerCat] at h
    subst h
    simp [enumCat]
  | n :: ns, f, h => by
    simp only [DerCat] at h
    obtain ⟨a, b, ha, hb, rfl⟩ := h
    simp only [enumCat]
    exact mem_prodT_none (enumWith_complete hnt n a ha) (enumCat_complete hnt ns b hb)
end

theorem enumNT_complete (G : Grammar) : ∀ (d : Nat) (s : String) (a r : Option String) (f : Tagged),
    DerNT G inst c d s a r f → f ∈ enumNT G inst c none rot d s a r
  | 0, s, a, r, f, h => by simp [DerNT] at h
  | d + 1, s, a, r, f, h => by
    simp only [DerNT] at h
    obtain ⟨body, g, hr, hg, rfl⟩ := h
    simp only [enumNT, hr, List.mem_map]
    exact ⟨g, enumWith_complete (fun s' a' r' f' hf' => enumNT_complete G d s' a' r' f' hf') body g hg, rfl⟩

end

end Enum
end FV
