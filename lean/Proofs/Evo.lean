/-
Validity preservation of the evolution-level operators of `Model/Evo.lean`
(`crossover`, `mutate`, `fixIndividual`), from the lemmas about the operators they call (`Proofs/Fuzz.lean`).
-/
import Model.Evo
import Proofs.Fuzz
namespace FV
namespace Evo

/-- `Grammar.fuzz` returns a derivation (the statement of `C01_fuzz_valid`, needed here below `Props/`) -/
theorem fuzzStart_valid (G : FGrammar) (R : RegexOracle) (fuel : Nat) (start : String) (path : List String)
    (b : Int) (tape tape' : Tape) (t : Tree) (htape : TapeOk G.erase R tape)
    (h : fuzzStart G fuel start path b tape = some (t, tape')) :
    Valid G.erase R t ∧ TapeOk G.erase R tape' := by
  unfold fuzzStart at h
  split at h
  · rename_i t0 tp h0
    simp only [Option.some.injEq, Prod.mk.injEq] at h
    obtain ⟨rfl, rfl⟩ := h
    obtain ⟨⟨w, hw, hm, hv⟩, ht⟩ := expand_spec G R fuel _ path false b tape _ _ htape h0
    exact ⟨hv.1, ht⟩
  · simp at h

theorem avalid_ofTree {G : Grammar} {R : RegexOracle} {t : Tree} (h : Valid G R t) : AValid G R (ATree.ofTree t) := by
  unfold AValid
  rw [erase_ofTree]
  exact h

/-! ### crossover -/

theorem crossover_valid (G : Grammar) (R : RegexOracle) (fuel : Nat) (p1 p2 c1 c2 : ATree) (sym : String)
    (k1 k2 : Nat) (h1 : AValid G R p1) (h2 : AValid G R p2) (h : crossover fuel p1 p2 sym k1 k2 = .ok c1 c2) :
    (AValid G R c1 ∧ c1.sym = p1.sym) ∧ (AValid G R c2 ∧ c2.sym = p2.sym) := by
  unfold crossover at h
  simp only at h
  split at h
  · simp at h
  · split at h
    · simp at h
    · split at h
      · rename_i q1 q2 hq1 hq2
        split at h
        · rename_i node1 node2 hn1 hn2
          split at h
          · rename_i x1 x2 hc1 hc2
            simp only [XRes.ok.injEq] at h
            obtain ⟨rfl, rfl⟩ := h
            have v1 : AValid G R node1 := subAt_valid _ _ _ h1 hn1
            have v2 : AValid G R node2 := subAt_valid _ _ _ h2 hn2
            have r1 := (replM_valid (G := G) (R := R) (repl := [(q1, node2)])
              (fun e he => by rw [List.mem_singleton.1 he]; exact v2) fuel).1 [] p1 _ h1 hc1
            have r2 := (replM_valid (G := G) (R := R) (repl := [(q2, node1)])
              (fun e he => by rw [List.mem_singleton.1 he]; exact v1) fuel).1 [] p2 _ h2 hc2
            exact ⟨⟨r1.2, r1.1⟩, ⟨r2.2, r2.1⟩⟩
          · simp at h
        · simp at h
      · simp at h

/-! ### mutation -/

theorem mutate_valid (G : FGrammar) (R : RegexOracle) (fuelF fuelR : Nat) (ind m : ATree)
    (failing : List (List Nat)) (maxNodes : Int) (i j : Nat) (tape rest : Tape)
    (hv : AValid G.erase R ind) (htape : TapeOk G.erase R tape)
    (h : mutate G fuelF fuelR ind failing maxNodes i j tape = .ok m rest) :
    AValid G.erase R m ∧ m.sym = ind.sym ∧ TapeOk G.erase R rest := by
  unfold mutate at h
  split at h
  · simp at h
  · split at h
    · simp at h
    · rename_i q hq
      split at h
      · simp at h
      · rename_i node hnode
        simp only at h
        split at h
        · simp at h
        · rename_i t tp hf
          split at h
          · rename_i m' hm
            simp only [MRes.ok.injEq] at h
            obtain ⟨rfl, rfl⟩ := h
            obtain ⟨vt, htp⟩ := fuzzStart_valid G R fuelF _ _ _ tape tp t htape hf
            have r := (replM_valid (G := G.erase) (R := R) (repl := [(q, ATree.ofTree t)])
              (fun e he => by rw [List.mem_singleton.1 he]; exact avalid_ofTree vt) fuelR).1 [] ind _ hv hm
            exact ⟨r.2, r.1, htp⟩
          · simp at h

/-- when there is nothing to mutate the individual is returned as it is -/
theorem mutate_same_iff (G : FGrammar) (fuelF fuelR : Nat) (ind : ATree) (failing : List (List Nat))
    (maxNodes : Int) (i j : Nat) (tape : Tape) :
    mutate G fuelF fuelR ind failing maxNodes i j tape = .same ↔ mutCands ind failing = [] := by
  unfold mutate
  constructor
  · intro h
    split at h
    · rename_i he; simpa using he
    · split at h
      · simp at h
      · split at h
        · simp at h
        · simp only at h
          split at h
          · simp at h
          · split at h <;> simp at h
  · intro h; simp [h]

/-! ### read-only marks leave the structure alone -/

mutual
theorem erase_markAll : ∀ t : ATree, (markAll t).erase = t.erase
  | .mk s a r ro o ks => by simp [markAll, ATree.erase, eraseL_markAllL ks]
theorem eraseL_markAllL : ∀ ts : List ATree, ATree.eraseL (markAllL ts) = ATree.eraseL ts
  | [] => rfl
  | t :: ts => by simp [markAllL, ATree.eraseL, erase_markAll t, eraseL_markAllL ts]
end

theorem eraseL_set : ∀ (ks : List ATree) (i : Nat) (k k' : ATree), ks[i]? = some k → k'.erase = k.erase →
    ATree.eraseL (ks.take i ++ [k'] ++ ks.drop (i + 1)) = ATree.eraseL ks
  | [], i, k, k', h, _ => by simp at h
  | x :: ks, 0, k, k', h, he => by
    simp only [List.getElem?_cons_zero, Option.some.injEq] at h
    subst h
    simp [ATree.eraseL, he]
  | x :: ks, i + 1, k, k', h, he => by
    have := eraseL_set ks i k k' (by simpa using h) he
    simp only [List.take_succ_cons, List.cons_append, List.drop_succ_cons, ATree.eraseL] at this ⊢
    rw [this]

theorem erase_markPath (all : Bool) : ∀ (p : List Nat) (t t' : ATree) (entered : Bool),
    markPath all t p entered = some t' → t'.erase = t.erase
  | [], t, t', entered, h => by
    simp only [markPath, Option.some.injEq] at h
    subst h
    split
    · exact erase_markAll t
    · split
      · cases t; simp [ATree.erase]
      · rfl
  | i :: p, .mk s a r ro o ks, t', entered, h => by
    simp only [markPath] at h
    split at h
    · simp at h
    · rename_i k hk
      split at h
      · simp at h
      · rename_i k' hk'
        simp only [Option.some.injEq] at h
        subst h
        have := erase_markPath all p k k' true hk'
        simp only [ATree.erase]
        rw [eraseL_set ks i k k' hk this]

/-! ### suggestions -/

/-- what must hold of a `RepetitionBoundsSuggestion` for its edited copy of the parent to be a derivation:
    with the trailing iterations dropped (resp. with `goal - bound` new iterations of the body spliced in
    behind `_ending_rep_tree`'s iteration) the parent's children still spell out its rule.  Section 3 of
    `Props/C01.lean` gives this when the tags mark whole iterations and the new count is within the bounds. -/
def RepOk (G : FGrammar) (R : RegexOracle) (ind : ATree) (ending : List Nat) (boundLen goalLen iter : Nat)
    (id : String) (allowFull : Bool) (node : FNode) : Prop :=
  ∀ parent, ind.subAt ending.dropLast = some parent →
    (goalLen ≤ boundLen →
      AValid G.erase R (deleteReps id iter
        (boundLen - (if goalLen = 0 ∧ allowFull = false then 1 else goalLen)) parent)) ∧
    (goalLen > boundLen → ∀ idx f body, ending.getLast? = some idx →
      (∃ i k d mn mx, node = .rep i k d body mn mx) →
      (∃ toks, toksOf f = some toks ∧ RepOf (fun v => Matches R body.erase v) (goalLen - boundLen) toks) →
      ValidL G.erase R f → AValid G.erase R (insertKids id iter idx (ATree.ofTreeL f) parent))

mutual
def SuggOk (G : FGrammar) (R : RegexOracle) (ind : ATree) : Sugg → Prop
  | .nop => True
  | .given repl => ∀ e ∈ repl, AValid G.erase R e.2
  | .all ss => SuggOkL G R ind ss
  | .first ss => SuggOkL G R ind ss
  | .rep e _ _ bl gl it id af node => RepOk G R ind e bl gl it id af node
def SuggOkL (G : FGrammar) (R : RegexOracle) (ind : ATree) : List Sugg → Prop
  | [] => True
  | s :: ss => SuggOk G R ind s ∧ SuggOkL G R ind ss
end

theorem repRepl_valid (G : FGrammar) (R : RegexOracle) (fuel : Nat) (ind : ATree) (e sv ev : List Nat)
    (bl gl it : Nat) (id : String) (af : Bool) (node : FNode) (tape tape' : Tape)
    (repl : List (List Nat × ATree)) (hv : AValid G.erase R ind) (htape : TapeOk G.erase R tape)
    (hok : RepOk G R ind e bl gl it id af node)
    (h : repRepl G fuel ind e sv ev bl gl it id af node tape = some (repl, tape')) :
    (∀ x ∈ repl, AValid G.erase R x.2) ∧ TapeOk G.erase R tape' := by
  unfold repRepl at h
  simp only at h
  split at h
  · rename_i parent endTree idx hp he hi
    obtain ⟨hdel, hins⟩ := hok parent hp
    split at h
    · rename_i hgt
      -- insert
      split at h
      · rename_i i k d body mn mx
        split at h
        · rename_i f rest hf
          simp only [Option.some.injEq, Prod.mk.injEq] at h
          obtain ⟨rfl, rfl⟩ := h
          unfold insertFuzz at hf
          split at hf
          · obtain ⟨⟨kk, w, hw, hr, _, _, hovr, hvl⟩, ht⟩ :=
              expandRep_spec (expand_spec G R fuel) body mn true _ false (gl - bl) _ _ _ _ _ _
                (tapeOk_tail htape) hf
            have hk : kk = gl - bl := hovr rfl
            subst hk
            refine ⟨?_, ht⟩
            intro x hx
            rw [List.mem_singleton.1 hx]
            exact hins hgt idx f body hi ⟨i, k, d, mn, mx, rfl⟩ ⟨w, hw, hr⟩ hvl
          · simp at hf
        · simp at h
      · simp at h
    · rename_i hle
      have hle' : gl ≤ bl := by omega
      have hd := hdel hle'
      generalize hgoal : (if gl = 0 ∧ af = false then 1 else gl) = goal at h hd
      by_cases h1 : goal = bl
      · simp only [h1, if_true, Option.some.injEq, Prod.mk.injEq] at h
        obtain ⟨rfl, rfl⟩ := h
        exact ⟨by simp, htape⟩
      · simp only [h1, if_false] at h
        by_cases h0 : goal = 0
        · -- full delete: the copy of the first common node, with the parent replaced and read-only marks
          simp only [h0, if_true] at h
          split at h
          · simp at h
          · rename_i firstNode hfn
            split at h
            · simp at h
            · rename_i r0 hr0
              split at h
              · simp at h
              · rename_i r1 hr1
                split at h
                · simp at h
                · rename_i r2 hr2
                  split at h
                  · simp at h
                  · rename_i r3 hr3
                    simp only [Option.some.injEq, Prod.mk.injEq] at h
                    obtain ⟨rfl, rfl⟩ := h
                    refine ⟨?_, htape⟩
                    intro x hx
                    rw [List.mem_singleton.1 hx]
                    have vf : AValid G.erase R firstNode := subAt_valid _ _ _ hv hfn
                    rw [h0] at hd
                    have v0 := ((replM_valid (G := G.erase) (R := R)
                      (repl := [(e.dropLast, deleteReps id it (bl - 0) parent)])
                      (fun y hy => by rw [List.mem_singleton.1 hy]; exact hd) fuel).1 _ firstNode _ vf hr0).2
                    unfold AValid at v0 ⊢
                    simp only
                    rw [erase_markPath true _ _ _ _ hr3, erase_markPath true _ _ _ _ hr2,
                      erase_markPath false _ _ _ _ hr1]
                    exact v0
        · simp only [h0, if_false, Option.some.injEq, Prod.mk.injEq] at h
          obtain ⟨rfl, rfl⟩ := h
          refine ⟨?_, htape⟩
          intro x hx
          rw [List.mem_singleton.1 hx]
          exact hd
  · simp at h

mutual
theorem getRepl_valid (G : FGrammar) (R : RegexOracle) (fuel : Nat) (ind : ATree) (hv : AValid G.erase R ind) :
    ∀ (s : Sugg) (tape tape' : Tape) (repl : List (List Nat × ATree)), TapeOk G.erase R tape →
      SuggOk G R ind s → getRepl G fuel ind s tape = some (repl, tape') →
      (∀ x ∈ repl, AValid G.erase R x.2) ∧ TapeOk G.erase R tape'
  | .nop, tape, tape', repl, ht, _, h => by
    simp only [getRepl, Option.some.injEq, Prod.mk.injEq] at h
    obtain ⟨rfl, rfl⟩ := h
    exact ⟨by simp, ht⟩
  | .given r, tape, tape', repl, ht, hok, h => by
    simp only [getRepl, Option.some.injEq, Prod.mk.injEq] at h
    obtain ⟨rfl, rfl⟩ := h
    exact ⟨hok, ht⟩
  | .all ss, tape, tape', repl, ht, hok, h => by
    simp only [getRepl] at h
    exact getReplAll_valid G R fuel ind hv ss tape tape' repl ht hok h
  | .first ss, tape, tape', repl, ht, hok, h => by
    simp only [getRepl] at h
    exact getReplFirst_valid G R fuel ind hv ss tape tape' repl ht hok h
  | .rep e sv ev bl gl it id af node, tape, tape', repl, ht, hok, h => by
    simp only [getRepl] at h
    exact repRepl_valid G R fuel ind e sv ev bl gl it id af node tape tape' repl hv ht hok h
theorem getReplAll_valid (G : FGrammar) (R : RegexOracle) (fuel : Nat) (ind : ATree) (hv : AValid G.erase R ind) :
    ∀ (ss : List Sugg) (tape tape' : Tape) (repl : List (List Nat × ATree)), TapeOk G.erase R tape →
      SuggOkL G R ind ss → getReplAll G fuel ind ss tape = some (repl, tape') →
      (∀ x ∈ repl, AValid G.erase R x.2) ∧ TapeOk G.erase R tape'
  | [], tape, tape', repl, ht, _, h => by
    simp only [getReplAll, Option.some.injEq, Prod.mk.injEq] at h
    obtain ⟨rfl, rfl⟩ := h
    exact ⟨by simp, ht⟩
  | s :: ss, tape, tape', repl, ht, hok, h => by
    simp only [getReplAll] at h
    split at h
    · simp at h
    · rename_i r t1 h1
      split at h
      · simp at h
      · rename_i rs t2 h2
        simp only [Option.some.injEq, Prod.mk.injEq] at h
        obtain ⟨rfl, rfl⟩ := h
        obtain ⟨a1, b1⟩ := getRepl_valid G R fuel ind hv s tape t1 r ht hok.1 h1
        obtain ⟨a2, b2⟩ := getReplAll_valid G R fuel ind hv ss t1 _ rs b1 hok.2 h2
        refine ⟨?_, b2⟩
        intro x hx
        rcases List.mem_append.1 hx with hx | hx
        · exact a1 x hx
        · exact a2 x hx
theorem getReplFirst_valid (G : FGrammar) (R : RegexOracle) (fuel : Nat) (ind : ATree) (hv : AValid G.erase R ind) :
    ∀ (ss : List Sugg) (tape tape' : Tape) (repl : List (List Nat × ATree)), TapeOk G.erase R tape →
      SuggOkL G R ind ss → getReplFirst G fuel ind ss tape = some (repl, tape') →
      (∀ x ∈ repl, AValid G.erase R x.2) ∧ TapeOk G.erase R tape'
  | [], tape, tape', repl, ht, _, h => by
    simp only [getReplFirst, Option.some.injEq, Prod.mk.injEq] at h
    obtain ⟨rfl, rfl⟩ := h
    exact ⟨by simp, ht⟩
  | s :: ss, tape, tape', repl, ht, hok, h => by
    simp only [getReplFirst] at h
    split at h
    · simp at h
    · rename_i r t1 h1
      obtain ⟨a1, b1⟩ := getRepl_valid G R fuel ind hv s tape t1 r ht hok.1 h1
      split at h
      · exact getReplFirst_valid G R fuel ind hv ss t1 tape' repl b1 hok.2 h
      · simp only [Option.some.injEq, Prod.mk.injEq] at h
        obtain ⟨rfl, rfl⟩ := h
        exact ⟨a1, b1⟩
end

theorem fix_valid (G : FGrammar) (R : RegexOracle) (fuel : Nat) (ind ind' : ATree) (sugg : Option Sugg)
    (tape tape' : Tape) (n : Nat) (hv : AValid G.erase R ind) (htape : TapeOk G.erase R tape)
    (hok : ∀ s, sugg = some s → SuggOk G R ind s)
    (h : fixIndividual G fuel ind sugg tape = some ((ind', n), tape')) :
    AValid G.erase R ind' ∧ ind'.sym = ind.sym ∧ TapeOk G.erase R tape' := by
  unfold fixIndividual at h
  split at h
  · simp only [Option.some.injEq, Prod.mk.injEq] at h
    obtain ⟨⟨rfl, _⟩, rfl⟩ := h
    exact ⟨hv, rfl, htape⟩
  · rename_i s
    split at h
    · simp at h
    · rename_i repl t1 h1
      split at h
      · rename_i x hx
        simp only [Option.some.injEq, Prod.mk.injEq] at h
        obtain ⟨⟨rfl, _⟩, rfl⟩ := h
        obtain ⟨a1, b1⟩ := getRepl_valid G R fuel ind hv s tape t1 repl htape (hok s rfl) h1
        have r := (replM_valid (G := G.erase) (R := R) (repl := repl) a1 fuel).1 [] ind _ hv hx
        exact ⟨r.2, r.1, b1⟩
      · simp at h

end Evo
end FV
