/-
Helper lemmas about `Model/Float53.lean` (used by Props/C03.lean).

Main facts
* `toRat_rnd_natCast` : every natural number below 2^53 is representable — rounding it is exact;
* `fadd_ofNat`, `fmul_one_ofNat`, `fdiv_self_ofNat`, `foldAdd_ones`, `pySum_ones` : the arithmetic an
  all-satisfied tree goes through is exact;
* `float_table` : a finite cross-check of the model against Lean's own `Float` (`decide +kernel`) —
  a TEST of the model, not part of any proof.
-/
import Model.Float53
namespace FV.F

/-! ## powers of two, small facts -/

theorem two_zpow_nat (k : Nat) : (2 : Rat) ^ (k : Int) = ((2 ^ k : Nat) : Rat) := by
  rw [Rat.zpow_natCast, Rat.natCast_pow]; rfl

theorem half_not_lt_zero : ¬ ((1 : Rat) / 2 < 0) := by decide +kernel
theorem zero_ne_half : ((0 : Rat) == (1 : Rat) / 2) = false := by decide +kernel
theorem log2_one' : Nat.log2 1 = 0 := by decide +kernel

theorem natCast_ne_zero {n : Nat} (h0 : n ≠ 0) : (n : Rat) ≠ 0 :=
  fun h => h0 (Rat.natCast_eq_zero_iff.1 h)

/-! ## naturals below 2^53 are representable -/

theorem ilog2_natCast (n : Nat) (h0 : n ≠ 0) : ilog2 (n : Rat) = (n.log2 : Int) := by
  unfold ilog2
  simp only [Rat.num_natCast, Rat.den_natCast, Int.natAbs_natCast, log2_one']
  have h1 : ((n.log2 : Int) - ((0 : Nat) : Int)) = (n.log2 : Int) := by omega
  rw [h1, two_zpow_nat]
  have h2 : ((2 ^ n.log2 : Nat) : Rat) ≤ (n : Rat) := Rat.natCast_le_natCast.2 (Nat.log2_self_le h0)
  simp only [h2, if_true]

/-- the mantissa a natural number is scaled to lies in `[2^52, 2^53)` -/
theorem scaled_lt (n : Nat) (h0 : n ≠ 0) (h : n < 2 ^ 53) :
    n.log2 ≤ 52 ∧ n * 2 ^ (52 - n.log2) < 2 ^ 53 ∧ 2 ^ 52 ≤ n * 2 ^ (52 - n.log2) := by
  have hl : n.log2 < 53 := (Nat.log2_lt h0).2 h
  have hu : n < 2 ^ (n.log2 + 1) := Nat.lt_log2_self
  have hlo : 2 ^ n.log2 ≤ n := Nat.log2_self_le h0
  refine ⟨by omega, ?_, ?_⟩
  · calc n * 2 ^ (52 - n.log2) < 2 ^ (n.log2 + 1) * 2 ^ (52 - n.log2) :=
          Nat.mul_lt_mul_of_lt_of_le hu (Nat.le_refl _) (Nat.pow_pos (by decide))
      _ = 2 ^ 53 := by rw [← Nat.pow_add]; congr 1; omega
  · calc 2 ^ 52 = 2 ^ n.log2 * 2 ^ (52 - n.log2) := by rw [← Nat.pow_add]; congr 1; omega
      _ ≤ n * 2 ^ (52 - n.log2) := Nat.mul_le_mul_right _ hlo

theorem rndPos_natCast (n : Nat) (h0 : n ≠ 0) (h : n < 2 ^ 53) :
    rndPos (n : Rat) = (n * 2 ^ (52 - n.log2), (n.log2 : Int) - 52) := by
  obtain ⟨hl, hlt, _⟩ := scaled_lt n h0 h
  unfold rndPos
  simp only [ilog2_natCast n h0]
  have he : -((n.log2 : Int) - 52) = ((52 - n.log2 : Nat) : Int) := by omega
  rw [he, two_zpow_nat, ← Rat.natCast_mul]
  have hfl : ((n * 2 ^ (52 - n.log2) : Nat) : Rat).floor.toNat = n * 2 ^ (52 - n.log2) := by
    rw [← Rat.intCast_natCast, Rat.floor_intCast, Int.toNat_natCast]
  simp only [hfl, Rat.sub_self, half_not_lt_zero, zero_ne_half, decide_false, Bool.false_and,
    Bool.or_false]
  have hne : (n * 2 ^ (52 - n.log2) == 2 ^ 53) = false := by
    simp; omega
  simp [hne]

/-- the double of a natural number below 2^53, explicitly (canonical form) -/
theorem rnd_natCast (n : Nat) (h0 : n ≠ 0) (h : n < 2 ^ 53) :
    rnd (n : Rat) = ⟨false, n * 2 ^ (52 - n.log2), (n.log2 : Int) - 52⟩ := by
  unfold rnd
  have h1 : ((n : Rat) == 0) = false := by simpa using natCast_ne_zero h0
  have h2 : ¬ ((n : Rat) < 0) := Rat.not_lt.2 Rat.natCast_nonneg
  simp only [h1, h2, rndPos_natCast n h0 h, if_false, Bool.false_eq_true]

theorem rnd_zero : rnd 0 = zero := by decide +kernel
theorem rnd_one : rnd 1 = one := by decide +kernel
theorem toRat_zero : zero.toRat = 0 := by decide +kernel
theorem toRat_one : one.toRat = 1 := by decide +kernel

/-- `rnd_of_representable` for naturals: rounding a natural below 2^53 is exact -/
theorem toRat_rnd_natCast (n : Nat) (h : n < 2 ^ 53) : (rnd (n : Rat)).toRat = (n : Rat) := by
  by_cases h0 : n = 0
  · subst h0
    have : rnd ((0 : Nat) : Rat) = ⟨false, 0, 0⟩ := by decide +kernel
    rw [this]; decide +kernel
  · obtain ⟨hl, _, _⟩ := scaled_lt n h0 h
    rw [rnd_natCast n h0 h]
    simp only [toRat, if_false, Bool.false_eq_true]
    have he : ((n.log2 : Int) - 52) = -((52 - n.log2 : Nat) : Int) := by omega
    rw [he, Rat.zpow_neg, two_zpow_nat, Rat.natCast_mul]
    have : ((2 ^ (52 - n.log2) : Nat) : Rat) ≠ 0 :=
      natCast_ne_zero (Nat.pos_iff_ne_zero.1 (Nat.pow_pos (by decide)))
    grind

theorem toRat_ofNat (n : Nat) (h : n < 2 ^ 53) : (ofNat n).toRat = (n : Rat) :=
  toRat_rnd_natCast n h

theorem ofNat_zero : ofNat 0 = zero := by decide +kernel
theorem ofNat_one : ofNat 1 = one := by decide +kernel

theorem ofNat_canonical (n : Nat) (h : n < 2 ^ 53) : canonical (ofNat n) = true := by
  by_cases h0 : n = 0
  · subst h0; decide +kernel
  · obtain ⟨_, h1, h2⟩ := scaled_lt n h0 h
    unfold ofNat; rw [rnd_natCast n h0 h]
    simp [canonical, h1, h2]

theorem ofNat_neg (n : Nat) (h : n < 2 ^ 53) : (ofNat n).neg = false := by
  by_cases h0 : n = 0
  · subst h0; decide +kernel
  · unfold ofNat; rw [rnd_natCast n h0 h]

theorem fabs_ofNat (n : Nat) (h : n < 2 ^ 53) : fabs (ofNat n) = ofNat n := by
  have := ofNat_neg n h
  unfold fabs
  cases hx : ofNat n with
  | mk s m e => rw [hx] at this; simp at this; simp [this]

/-! ## the operations on naturals -/

theorem fadd_ofNat (a b : Nat) (h : a + b < 2 ^ 53) : fadd (ofNat a) (ofNat b) = ofNat (a + b) := by
  unfold fadd
  rw [toRat_ofNat a (by omega), toRat_ofNat b (by omega), ← Rat.natCast_add]
  rfl

theorem fmul_ofNat (a b : Nat) (ha : a < 2 ^ 53) (hb : b < 2 ^ 53) :
    fmul (ofNat a) (ofNat b) = ofNat (a * b) := by
  unfold fmul
  rw [toRat_ofNat a ha, toRat_ofNat b hb, ← Rat.natCast_mul]
  rfl

theorem fmul_one_ofNat (a : Nat) (h : a < 2 ^ 53) : fmul one (ofNat a) = ofNat a := by
  unfold fmul
  rw [toRat_one, toRat_ofNat a h, Rat.one_mul]
  rfl

theorem fdiv_self_ofNat (a : Nat) (h0 : 0 < a) (h : a < 2 ^ 53) : fdiv (ofNat a) (ofNat a) = one := by
  unfold fdiv
  rw [toRat_ofNat a h]
  have hne : (a : Rat) ≠ 0 := natCast_ne_zero (by omega)
  have : (a : Rat) / (a : Rat) = 1 := by grind
  rw [this, rnd_one]

theorem fdiv_ofNat_one (a : Nat) (h : a < 2 ^ 53) : fdiv (ofNat a) one = ofNat a := by
  unfold fdiv
  rw [toRat_ofNat a h, toRat_one]
  have : (a : Rat) / 1 = (a : Rat) := by grind
  rw [this]; rfl

theorem fge_one_one : fge one one = true := by decide +kernel
theorem fle_one_one : fle one one = true := by decide +kernel
theorem fgt_one_one : fgt one one = false := by decide +kernel
theorem feq_one_one : feq one one = true := by decide +kernel
theorem ofDecimal_one : ofDecimal 10 1 = one := by decide +kernel
theorem ofDecimal_zero : ofDecimal 0 1 = zero := by decide +kernel

/-! ## sums of ones -/

/-- `acc += 1.0` n times, starting from the double of `k`, is the double of `k + n` (exact) -/
theorem foldAdd_ones (n k : Nat) (h : k + n < 2 ^ 53) :
    foldAdd (ofNat k) (ones n) = ofNat (k + n) := by
  induction n generalizing k with
  | zero => simp [foldAdd, ones]
  | succ n ih =>
    have h1 : fadd (ofNat k) one = ofNat (k + 1) := by
      rw [← ofNat_one]; exact fadd_ofNat k 1 (by omega)
    have := ih (k + 1) (by omega)
    simp only [foldAdd, ones, List.replicate_succ, List.foldl_cons] at this ⊢
    rw [h1, this]; congr 1; omega

/-- the same for a list of `some 1.0` folded with "skip what raised" -/
theorem foldOk_some_ones (n k : Nat) (h : k + n < 2 ^ 53) :
    foldOk (fun acc x => fadd acc x) (ofNat k) (List.replicate n (some one)) = ofNat (k + n) := by
  induction n generalizing k with
  | zero => simp [foldOk]
  | succ n ih =>
    have h1 : fadd (ofNat k) one = ofNat (k + 1) := by
      rw [← ofNat_one]; exact fadd_ofNat k 1 (by omega)
    have := ih (k + 1) (by omega)
    simp only [foldOk, List.replicate_succ, List.foldl_cons] at this ⊢
    rw [h1, this]; congr 1; omega

/-- one Neumaier step on ones keeps the compensation at zero -/
theorem neumaier_step (k : Nat) (hk : 0 < k) (h : k + 1 < 2 ^ 53) :
    fadd zero (fadd (fsub (ofNat k) (fadd (ofNat k) one)) one) = zero := by
  have h1 : fadd (ofNat k) one = ofNat (k + 1) := by
    rw [← ofNat_one]; exact fadd_ofNat k 1 (by omega)
  rw [h1]
  have h2 : fsub (ofNat k) (ofNat (k + 1)) = rnd (-1) := by
    unfold fsub
    rw [toRat_ofNat k (by omega), toRat_ofNat (k + 1) h, Rat.natCast_add]
    congr 1
    have : ((1 : Nat) : Rat) = 1 := rfl
    grind
  have h3 : (rnd (-1)).toRat = -1 := by decide +kernel
  have h4 : fadd (rnd (-1)) one = zero := by
    unfold fadd; rw [h3, toRat_one]
    have : (-1 : Rat) + 1 = 0 := by decide +kernel
    rw [this, rnd_zero]
  rw [h2, h4]
  decide +kernel

theorem neumaierLoop_ones (n k : Nat) (hk : 0 < k) (h : k + n < 2 ^ 53) :
    neumaierLoop (ones n) (ofNat k) zero = (ofNat (k + n), zero) := by
  induction n generalizing k with
  | zero => simp [neumaierLoop, ones]
  | succ n ih =>
    have h1 : fadd (ofNat k) one = ofNat (k + 1) := by
      rw [← ofNat_one]; exact fadd_ofNat k 1 (by omega)
    have hle : fle (fabs one) (fabs (ofNat k)) = true := by
      rw [fabs_ofNat k (by omega)]
      have : fabs one = one := by decide +kernel
      rw [this]
      unfold fle
      rw [toRat_one, toRat_ofNat k (by omega)]
      have : (1 : Rat) ≤ (k : Rat) := by
        have : ((1 : Nat) : Rat) ≤ (k : Rat) := Rat.natCast_le_natCast.2 hk
        exact this
      simp [this]
    have hs := neumaier_step k hk (by omega)
    have := ih (k + 1) (by omega) (by omega)
    simp only [ones, List.replicate_succ, neumaierLoop] at this ⊢
    simp only [hle, if_true, hs]
    rw [h1, this]
    congr 2; omega

/-- CPython's `sum` of `n ≥ 1` ones is the double of `n` -/
theorem pySum_ones (n : Nat) (h0 : 0 < n) (h : n < 2 ^ 53) : pySum (ones n) = ofNat n := by
  obtain ⟨n', rfl⟩ : ∃ n', n = n' + 1 := ⟨n - 1, by omega⟩
  have h1 : fadd zero one = ofNat 1 := by decide +kernel
  have := neumaierLoop_ones n' 1 (by omega) (by omega)
  simp only [ones, List.replicate_succ, pySum] at this ⊢
  rw [h1, this]
  have hz : (zero.m != 0) = false := by decide +kernel
  simp only [hz]
  simp; congr 1; omega

/-! ## a test of the model against Lean's kernel `Float` (finite table, `decide +kernel`) -/

/-- the IEEE-754 bit pattern of a (normal or zero) model value -/
def toBits (f : F) : Nat :=
  if f.m == 0 then 0 else
  (if f.neg then 2 ^ 63 else 0) + (f.e + 1075).toNat * 2 ^ 52 + (f.m - 2 ^ 52)

def tblOperands : List (Nat × Nat) :=
  [(1, 3), (1, 6), (5, 6), (2, 3), (1, 10), (7, 9), (22, 7), (1, 49), (123456789, 1000), (9007199254740991, 3),
   (3, 9007199254740991), (1, 1)]

/-- model side: for each `(a, b)`: `a/b`, `a/b + b/a`, `(a/b) * (a/b)`, `(a/b) / 3`, `a/b - b/a` -/
def tblModel : List (List Nat) := tblOperands.map fun (a, b) =>
  let x := fdiv (ofNat a) (ofNat b)
  let y := fdiv (ofNat b) (ofNat a)
  [toBits x, toBits (fadd x y), toBits (fmul x x), toBits (fdiv x (ofNat 3)), toBits (fsub x y)]

def tblFloat : List (List Nat) := tblOperands.map fun (a, b) =>
  let x := Float.ofNat a / Float.ofNat b
  let y := Float.ofNat b / Float.ofNat a
  [x.toBits.toNat, (x + y).toBits.toNat, (x * x).toBits.toNat, (x / Float.ofNat 3).toBits.toNat,
   (x - y).toBits.toNat]

/-- TEST of the model (not used by any proof): on this table the model computes the same bit patterns
    as Lean's kernel `Float` -/
theorem float_table : tblModel = tblFloat := by decide +kernel

end FV.F
