/-
Order and error lemmas for `rnd` of `Model/Float53.lean` (used by Proofs/EmitFloat.lean, Props/C02.lean).
Nothing in the model is changed; C03's `Proofs/Float53.lean` is only imported.

* `two_zpow_ilog2_le`, `lt_two_zpow_ilog2_succ`   `ilog2 a = ⌊log2 a⌋`
* `rnd_pos_spec`          `rnd x = n' * 2^e` with `2^52 ≤ x * 2^-e < 2^53`, `|n' - x * 2^-e| ≤ 1/2`, and `n'`
                          between the integers enclosing `x * 2^-e`
* `toRat_rnd_le_mul`, `mul_le_toRat_rnd`   relative error: `x (1 - 2^-53) ≤ rnd x ≤ x (1 + 2^-53)` for `x ≥ 0`
                          (every magnitude: the model has no subnormals)
* `toRat_rnd_le_repr`, `repr_le_toRat_rnd`, `toRat_rnd_repr`   rounding never crosses a double `K * 2^E`
                          (`K < 2^53`), and fixes it
* `rnd_mono`              `x ≤ y → rnd x ≤ rnd y`

Imports single Mathlib tactic modules (the model itself and every driver stay Mathlib-free).
-/
import Proofs.Float53
import Mathlib.Tactic.Linarith
import Mathlib.Tactic.Positivity
import Mathlib.Tactic.Ring
import Mathlib.Tactic.NormNum
namespace FV.F

/-- the unit roundoff of binary64, `2^-53` -/
def u : Rat := 1 / 9007199254740992

theorem u_eq : u = 1 / (2 : Rat) ^ (53 : Nat) := by norm_num [u]

theorem toRat_mk_false (m : Nat) (e : Int) : (F.mk false m e).toRat = (m : Rat) * (2 : Rat) ^ e := by
  simp [toRat]

theorem toRat_mk_true (m : Nat) (e : Int) : (F.mk true m e).toRat = -((m : Rat) * (2 : Rat) ^ e) := by
  simp [toRat]

/-! ## `ilog2` is a lower bound of the binary logarithm -/

theorem two_zpow_ilog2_le (a : Rat) (ha : 0 < a) : (2 : Rat) ^ (ilog2 a) ≤ a := by
  unfold ilog2
  extract_lets l0
  split
  · assumption
  · have hnum : 0 < a.num := Rat.num_pos.2 ha
    have hp0 : a.num.natAbs ≠ 0 := by omega
    have h1 : 2 ^ a.num.natAbs.log2 ≤ a.num.natAbs := Nat.log2_self_le hp0
    have h2 : a.den < 2 ^ (a.den.log2 + 1) := Nat.lt_log2_self
    have hden : (0 : Rat) < (a.den : Rat) := by exact_mod_cast a.den_pos
    have hnumcast : (a.num : Rat) = ((a.num.natAbs : Nat) : Rat) := by
      have : (a.num : Int) = ((a.num.natAbs : Nat) : Int) := by omega
      rw [this]; simp
    have ha' : a = ((a.num.natAbs : Nat) : Rat) / (a.den : Rat) := by
      rw [← hnumcast]; exact (Rat.num_div_den a).symm
    have hl : l0 - 1 = ((a.num.natAbs.log2 : Nat) : Int) - ((a.den.log2 + 1 : Nat) : Int) := by
      simp only [l0]; push_cast; ring
    rw [hl, zpow_sub₀ (by norm_num), zpow_natCast, zpow_natCast]
    refine le_of_le_of_eq ?_ ha'.symm
    rw [div_le_div_iff₀ (by positivity) hden]
    have : 2 ^ a.num.natAbs.log2 * a.den ≤ a.num.natAbs * 2 ^ (a.den.log2 + 1) :=
      Nat.mul_le_mul h1 (Nat.le_of_lt h2)
    exact_mod_cast this

theorem lt_two_zpow_ilog2_succ (a : Rat) (ha : 0 < a) : a < (2 : Rat) ^ (ilog2 a + 1) := by
  have hnum : 0 < a.num := Rat.num_pos.2 ha
  have hp0 : a.num.natAbs ≠ 0 := by omega
  have h1 : a.num.natAbs < 2 ^ (a.num.natAbs.log2 + 1) := Nat.lt_log2_self
  have h2 : 2 ^ a.den.log2 ≤ a.den := Nat.log2_self_le (Nat.ne_of_gt a.den_pos)
  have hden : (0 : Rat) < (a.den : Rat) := by exact_mod_cast a.den_pos
  have hnumcast : (a.num : Rat) = ((a.num.natAbs : Nat) : Rat) := by
    have : (a.num : Int) = ((a.num.natAbs : Nat) : Int) := by omega
    rw [this]; simp
  have ha' : a = ((a.num.natAbs : Nat) : Rat) / (a.den : Rat) := by
    rw [← hnumcast]; exact (Rat.num_div_den a).symm
  -- a < 2^(l0 + 1)
  have hup : a < (2 : Rat) ^ (((a.num.natAbs.log2 : Nat) : Int) - ((a.den.log2 : Nat) : Int) + 1) := by
    have hl : ((a.num.natAbs.log2 : Nat) : Int) - ((a.den.log2 : Nat) : Int) + 1 =
        ((a.num.natAbs.log2 + 1 : Nat) : Int) - ((a.den.log2 : Nat) : Int) := by push_cast; ring
    rw [hl, zpow_sub₀ (by norm_num), zpow_natCast, zpow_natCast]
    refine lt_of_eq_of_lt ha' ?_
    rw [div_lt_div_iff₀ hden (by positivity : (0 : Rat) < (2 : Rat) ^ a.den.log2)]
    have : a.num.natAbs * 2 ^ a.den.log2 < 2 ^ (a.num.natAbs.log2 + 1) * a.den :=
      Nat.mul_lt_mul_of_lt_of_le h1 h2 a.den_pos
    exact_mod_cast this
  unfold ilog2
  extract_lets l0
  split
  · exact hup
  · rename_i hnot
    have : l0 - 1 + 1 = l0 := by ring
    rw [this]
    exact not_le.1 hnot

/-! ## what `rndPos` computes -/

/-- for a positive `a`: `rndPos a` denotes `n' * 2^e` where, with `s = a * 2^-e ≥ 2^52`, `n'` is an integer
    within 1/2 of `s` that lies between the integers enclosing `s` -/
theorem rndPos_spec (a : Rat) (ha : 0 < a) :
    ∃ (n' : Nat) (e : Int),
      ((rndPos a).1 : Rat) * (2 : Rat) ^ (rndPos a).2 = (n' : Rat) * (2 : Rat) ^ e ∧
      (2 : Rat) ^ (52 : Nat) ≤ a * (2 : Rat) ^ (-e) ∧
      (n' : Rat) ≤ a * (2 : Rat) ^ (-e) + 1 / 2 ∧ a * (2 : Rat) ^ (-e) - 1 / 2 ≤ (n' : Rat) ∧
      (∀ k : Int, a * (2 : Rat) ^ (-e) ≤ (k : Rat) → (n' : Int) ≤ k) ∧
      (∀ k : Int, (k : Rat) ≤ a * (2 : Rat) ^ (-e) → k ≤ (n' : Int)) ∧
      a * (2 : Rat) ^ (-e) < (2 : Rat) ^ (53 : Nat) := by
  unfold rndPos
  extract_lets e s n frac up n'
  have hs : (2 : Rat) ^ (52 : Nat) ≤ s := by
    have h1 := two_zpow_ilog2_le a ha
    have h2 : (0 : Rat) < (2 : Rat) ^ (-e) := zpow_pos (by norm_num) _
    have h3 : (2 : Rat) ^ (ilog2 a) * (2 : Rat) ^ (-e) = (2 : Rat) ^ (52 : Nat) := by
      rw [← zpow_add₀ (by norm_num), ← zpow_natCast]
      congr 1; simp only [e]; push_cast; ring
    calc (2 : Rat) ^ (52 : Nat) = (2 : Rat) ^ (ilog2 a) * (2 : Rat) ^ (-e) := h3.symm
      _ ≤ a * (2 : Rat) ^ (-e) := mul_le_mul_of_nonneg_right h1 (le_of_lt h2)
  have hs53 : s < (2 : Rat) ^ (53 : Nat) := by
    have h1 := lt_two_zpow_ilog2_succ a ha
    have h2 : (0 : Rat) < (2 : Rat) ^ (-e) := zpow_pos (by norm_num) _
    have h3 : (2 : Rat) ^ (ilog2 a + 1) * (2 : Rat) ^ (-e) = (2 : Rat) ^ (53 : Nat) := by
      rw [← zpow_add₀ (by norm_num), ← zpow_natCast]
      congr 1; simp only [e]; push_cast; ring
    calc s = a * (2 : Rat) ^ (-e) := rfl
      _ < (2 : Rat) ^ (ilog2 a + 1) * (2 : Rat) ^ (-e) := mul_lt_mul_of_pos_right h1 h2
      _ = (2 : Rat) ^ (53 : Nat) := h3
  have hs0 : (0 : Rat) ≤ s := le_trans (by norm_num : (0 : Rat) ≤ (2 : Rat) ^ (52 : Nat)) hs
  have hfl0 : 0 ≤ s.floor := Rat.le_floor_iff.2 (by exact_mod_cast hs0)
  have hnI : (n : Int) = s.floor := Int.toNat_of_nonneg hfl0
  have hnR : (n : Rat) = (s.floor : Rat) := by rw [← hnI]; simp
  have hle : (n : Rat) ≤ s := by rw [hnR]; exact Rat.floor_le s
  have hlt : s < (n : Rat) + 1 := by
    have := Rat.lt_floor_add_one s
    rw [hnR]; push_cast at this; exact this
  have hup1 : up = true → (1 : Rat) / 2 ≤ frac := by
    intro h
    simp only [up, Bool.or_eq_true, decide_eq_true_eq, Bool.and_eq_true, beq_iff_eq] at h
    rcases h with h | ⟨h, _⟩
    · exact le_of_lt h
    · exact le_of_eq h.symm
  have hup0 : up = false → frac ≤ (1 : Rat) / 2 := by
    intro h
    simp only [up, Bool.or_eq_false_iff, decide_eq_false_iff_not] at h
    exact not_lt.1 h.1
  have hval : ((if (n' == 2 ^ 53) = true then (2 ^ 52, e + 1) else (n', e) : Nat × Int).1 : Rat) *
      (2 : Rat) ^ (if (n' == 2 ^ 53) = true then (2 ^ 52, e + 1) else (n', e) : Nat × Int).2 =
      (n' : Rat) * (2 : Rat) ^ e := by
    split
    · rename_i h
      have h' : n' = 2 ^ 53 := by simpa using h
      rw [h']
      simp only []
      rw [zpow_add₀ (by norm_num)]
      push_cast
      ring
    · rfl
  have hn'1 : up = true → n' = n + 1 := by intro h; simp only [n', h, if_true]
  have hn'0 : up = false → n' = n := by intro h; simp only [n', h, Bool.false_eq_true, if_false]
  have hsdef : s = a * (2 : Rat) ^ (-e) := rfl
  have hfdef : frac = s - (n : Rat) := rfl
  refine ⟨n', e, hval, hs, ?_, ?_, ?_, ?_, hs53⟩ <;> rw [← hsdef]
  all_goals clear hval
  all_goals clear_value n' up frac n s
  · cases hu : up with
    | true =>
      have := hup1 hu
      rw [hn'1 hu]; push_cast; linarith
    | false => rw [hn'0 hu]; linarith
  · cases hu : up with
    | true => rw [hn'1 hu]; push_cast; linarith
    | false =>
      have := hup0 hu
      rw [hn'0 hu]; linarith
  · intro k hk
    cases hu : up with
    | true =>
      have := hup1 hu
      have h1 : (n : Rat) < (k : Rat) := by linarith
      have h2 : (n : Int) < k := by exact_mod_cast h1
      rw [hn'1 hu]; push_cast; omega
    | false =>
      have h1 : (n : Rat) ≤ (k : Rat) := by linarith
      have h2 : (n : Int) ≤ k := by exact_mod_cast h1
      rw [hn'0 hu]; exact h2
  · intro k hk
    have h1 : k ≤ s.floor := Rat.le_floor_iff.2 hk
    cases hu : up with
    | true => rw [hn'1 hu]; push_cast; omega
    | false => rw [hn'0 hu]; omega

/-! ## what `rnd` computes -/

theorem rnd_of_pos (x : Rat) (hx : 0 < x) : rnd x = ⟨false, (rndPos x).1, (rndPos x).2⟩ := by
  unfold rnd
  have h1 : (x == 0) = false := by simpa using ne_of_gt hx
  have h2 : ¬ (x < 0) := not_lt.2 (le_of_lt hx)
  simp only [h1, h2, if_false, Bool.false_eq_true]

theorem rnd_of_neg (x : Rat) (hx : x < 0) : rnd x = ⟨true, (rndPos (-x)).1, (rndPos (-x)).2⟩ := by
  unfold rnd
  have h1 : (x == 0) = false := by simpa using ne_of_lt hx
  simp only [h1, hx, if_true, if_false, Bool.false_eq_true]

theorem toRat_rnd_neg (x : Rat) (hx : x < 0) : (rnd x).toRat = -(rnd (-x)).toRat := by
  rw [rnd_of_neg x hx, rnd_of_pos (-x) (by linarith), toRat_mk_true, toRat_mk_false]

/-- `rnd x` for positive `x`, as a nearest integer multiple of `2^e` with `x * 2^-e ≥ 2^52` -/
theorem rnd_pos_spec (x : Rat) (hx : 0 < x) :
    ∃ (n' : Nat) (e : Int),
      (rnd x).toRat = (n' : Rat) * (2 : Rat) ^ e ∧
      (2 : Rat) ^ (52 : Nat) ≤ x * (2 : Rat) ^ (-e) ∧
      (n' : Rat) ≤ x * (2 : Rat) ^ (-e) + 1 / 2 ∧ x * (2 : Rat) ^ (-e) - 1 / 2 ≤ (n' : Rat) ∧
      (∀ k : Int, x * (2 : Rat) ^ (-e) ≤ (k : Rat) → (n' : Int) ≤ k) ∧
      (∀ k : Int, (k : Rat) ≤ x * (2 : Rat) ^ (-e) → k ≤ (n' : Int)) ∧
      x * (2 : Rat) ^ (-e) < (2 : Rat) ^ (53 : Nat) := by
  obtain ⟨n', e, h1, h2⟩ := rndPos_spec x hx
  exact ⟨n', e, by rw [rnd_of_pos x hx, toRat_mk_false, h1], h2⟩

theorem zpow_neg_mul_self (e : Int) : (2 : Rat) ^ (-e) * (2 : Rat) ^ e = 1 := by
  rw [← zpow_add₀ (by norm_num)]; simp

theorem toRat_rnd_nonneg (x : Rat) (hx : 0 ≤ x) : 0 ≤ (rnd x).toRat := by
  rcases eq_or_lt_of_le hx with h | h
  · rw [← h, rnd_zero, toRat_zero]
  · obtain ⟨n', e, hv, _⟩ := rnd_pos_spec x h
    rw [hv]
    have : (0 : Rat) < (2 : Rat) ^ e := zpow_pos (by norm_num) _
    positivity

theorem toRat_rnd_nonpos (x : Rat) (hx : x ≤ 0) : (rnd x).toRat ≤ 0 := by
  rcases eq_or_lt_of_le hx with h | h
  · rw [h, rnd_zero, toRat_zero]
  · rw [toRat_rnd_neg x h]
    have := toRat_rnd_nonneg (-x) (by linarith)
    linarith

/-- **relative error, upper side**: rounding a non-negative number increases it by at most the factor
    `1 + 2^-53` (the model has no subnormals, so this holds for every magnitude) -/
theorem toRat_rnd_le_mul (x : Rat) (hx : 0 ≤ x) : (rnd x).toRat ≤ x * (1 + u) := by
  rcases eq_or_lt_of_le hx with h | h
  · rw [← h, rnd_zero, toRat_zero]; simp
  · obtain ⟨n', e, hv, hs, hup, _⟩ := rnd_pos_spec x h
    rw [hv]
    have hP : (0 : Rat) < (2 : Rat) ^ e := zpow_pos (by norm_num) _
    have hQP := zpow_neg_mul_self e
    generalize (2 : Rat) ^ e = P at *
    generalize (2 : Rat) ^ (-e) = Q at *
    have h1 : (n' : Rat) * P ≤ (x * Q + 1 / 2) * P := mul_le_mul_of_nonneg_right hup (le_of_lt hP)
    have h2 : (x * Q) * P = x := by rw [mul_assoc, hQP, mul_one]
    have h3 : (2 : Rat) ^ (52 : Nat) * P ≤ (x * Q) * P := mul_le_mul_of_nonneg_right hs (le_of_lt hP)
    rw [h2] at h3
    have hu : u = 1 / (2 : Rat) ^ (53 : Nat) := u_eq
    rw [hu]
    norm_num at h3 ⊢
    linarith

/-- **relative error, lower side** -/
theorem mul_le_toRat_rnd (x : Rat) (hx : 0 ≤ x) : x * (1 - u) ≤ (rnd x).toRat := by
  rcases eq_or_lt_of_le hx with h | h
  · rw [← h, rnd_zero, toRat_zero]; simp
  · obtain ⟨n', e, hv, hs, _, hlo, _⟩ := rnd_pos_spec x h
    rw [hv]
    have hP : (0 : Rat) < (2 : Rat) ^ e := zpow_pos (by norm_num) _
    have hQP := zpow_neg_mul_self e
    generalize (2 : Rat) ^ e = P at *
    generalize (2 : Rat) ^ (-e) = Q at *
    have h1 : (x * Q - 1 / 2) * P ≤ (n' : Rat) * P := mul_le_mul_of_nonneg_right hlo (le_of_lt hP)
    have h2 : (x * Q) * P = x := by rw [mul_assoc, hQP, mul_one]
    have h3 : (2 : Rat) ^ (52 : Nat) * P ≤ (x * Q) * P := mul_le_mul_of_nonneg_right hs (le_of_lt hP)
    rw [h2] at h3
    have hu : u = 1 / (2 : Rat) ^ (53 : Nat) := u_eq
    rw [hu]
    norm_num at h3 ⊢
    linarith

/-- **monotone rounding against a representable bound**: a value `K * 2^E` with `K < 2^53` is a double
    (up to the exponent range the model does not bound); whatever lies below it rounds to something
    below it.  (`rnd` is monotone and fixes representable values; this is the form the proofs use.) -/
theorem toRat_rnd_le_repr (x : Rat) (K : Nat) (E : Int) (hK : K < 2 ^ 53)
    (h : x ≤ (K : Rat) * (2 : Rat) ^ E) : (rnd x).toRat ≤ (K : Rat) * (2 : Rat) ^ E := by
  have hE : (0 : Rat) < (2 : Rat) ^ E := zpow_pos (by norm_num) _
  have hy : (0 : Rat) ≤ (K : Rat) * (2 : Rat) ^ E := by positivity
  rcases le_or_gt x 0 with hx | hx
  · exact le_trans (toRat_rnd_nonpos x hx) hy
  · obtain ⟨n', e, hv, hs, _, _, hceil, _⟩ := rnd_pos_spec x hx
    rw [hv]
    have hP : (0 : Rat) < (2 : Rat) ^ e := zpow_pos (by norm_num) _
    have hQ : (0 : Rat) < (2 : Rat) ^ (-e) := zpow_pos (by norm_num) _
    have hsy : x * (2 : Rat) ^ (-e) ≤ (K : Rat) * (2 : Rat) ^ E * (2 : Rat) ^ (-e) :=
      mul_le_mul_of_nonneg_right h (le_of_lt hQ)
    have hEe : (2 : Rat) ^ E * (2 : Rat) ^ (-e) = (2 : Rat) ^ (E - e) := by
      rw [← zpow_add₀ (by norm_num)]; congr 1
    rw [mul_assoc, hEe] at hsy
    rcases le_or_gt e E with hle | hlt
    · -- the bound is an integer multiple of 2^e
      obtain ⟨j, hj⟩ : ∃ j : Nat, E - e = (j : Int) := ⟨(E - e).toNat, by omega⟩
      rw [hj, zpow_natCast] at hsy
      have hk : x * (2 : Rat) ^ (-e) ≤ (((K * 2 ^ j : Nat) : Int) : Rat) := by
        push_cast; exact hsy
      have hn := hceil _ hk
      have hn' : (n' : Rat) ≤ (K : Rat) * (2 : Rat) ^ j := by
        have : n' ≤ K * 2 ^ j := by exact_mod_cast hn
        exact_mod_cast this
      have : (2 : Rat) ^ E = (2 : Rat) ^ j * (2 : Rat) ^ e := by
        rw [← zpow_natCast, ← zpow_add₀ (by norm_num)]; congr 1; omega
      rw [this, ← mul_assoc]
      exact mul_le_mul_of_nonneg_right hn' (le_of_lt hP)
    · -- the bound is below 2^52 * 2^e: impossible
      exfalso
      have h1 : (2 : Rat) ^ (E - e) ≤ (2 : Rat) ^ (-1 : Int) :=
        zpow_le_zpow_right₀ (by norm_num) (by omega)
      have h2 : (K : Rat) * (2 : Rat) ^ (E - e) ≤ (K : Rat) * (2 : Rat) ^ (-1 : Int) :=
        mul_le_mul_of_nonneg_left h1 (by positivity)
      have h3 : (K : Rat) < (9007199254740992 : Rat) := by exact_mod_cast hK
      have c52 : (2 : Rat) ^ (52 : Nat) = 4503599627370496 := by norm_num
      have chalf : (2 : Rat) ^ (-1 : Int) = 1 / 2 := by norm_num
      rw [c52] at hs
      rw [chalf] at h2
      linarith

theorem toRat_rnd_le_natCast (x : Rat) (K : Nat) (hK : K < 2 ^ 53) (h : x ≤ (K : Rat)) :
    (rnd x).toRat ≤ (K : Rat) := by
  have := toRat_rnd_le_repr x K 0 hK (by simpa using h)
  simpa using this

theorem toRat_rnd_le_dyadic (x : Rat) (K B : Nat) (hK : K < 2 ^ 53)
    (h : x ≤ (K : Rat) / (2 : Rat) ^ B) : (rnd x).toRat ≤ (K : Rat) / (2 : Rat) ^ B := by
  have e : (K : Rat) / (2 : Rat) ^ B = (K : Rat) * (2 : Rat) ^ (-(B : Int)) := by
    rw [zpow_neg, zpow_natCast]; rfl
  rw [e] at h ⊢
  exact toRat_rnd_le_repr x K _ hK h

/-- the lower counterpart: whatever lies above a double rounds to something above it -/
theorem repr_le_toRat_rnd (x : Rat) (K : Nat) (E : Int) (hK : K < 2 ^ 53)
    (h : (K : Rat) * (2 : Rat) ^ E ≤ x) : (K : Rat) * (2 : Rat) ^ E ≤ (rnd x).toRat := by
  have hE : (0 : Rat) < (2 : Rat) ^ E := zpow_pos (by norm_num) _
  have hy : (0 : Rat) ≤ (K : Rat) * (2 : Rat) ^ E := by positivity
  rcases eq_or_lt_of_le (le_trans hy h) with hx | hx
  · rw [← hx, rnd_zero, toRat_zero]; rw [← hx] at h; exact h
  · obtain ⟨n', e, hv, hs, _, _, _, hfloor, _⟩ := rnd_pos_spec x hx
    rw [hv]
    have hP : (0 : Rat) < (2 : Rat) ^ e := zpow_pos (by norm_num) _
    have hQ : (0 : Rat) < (2 : Rat) ^ (-e) := zpow_pos (by norm_num) _
    rcases le_or_gt e E with hle | hlt
    · have hsy : (K : Rat) * (2 : Rat) ^ E * (2 : Rat) ^ (-e) ≤ x * (2 : Rat) ^ (-e) :=
        mul_le_mul_of_nonneg_right h (le_of_lt hQ)
      have hEe : (2 : Rat) ^ E * (2 : Rat) ^ (-e) = (2 : Rat) ^ (E - e) := by
        rw [← zpow_add₀ (by norm_num)]; congr 1
      rw [mul_assoc, hEe] at hsy
      obtain ⟨j, hj⟩ : ∃ j : Nat, E - e = (j : Int) := ⟨(E - e).toNat, by omega⟩
      rw [hj, zpow_natCast] at hsy
      have hk : (((K * 2 ^ j : Nat) : Int) : Rat) ≤ x * (2 : Rat) ^ (-e) := by
        push_cast; exact hsy
      have hn := hfloor _ hk
      have hn' : (K : Rat) * (2 : Rat) ^ j ≤ (n' : Rat) := by
        have : K * 2 ^ j ≤ n' := by exact_mod_cast hn
        exact_mod_cast this
      have : (2 : Rat) ^ E = (2 : Rat) ^ j * (2 : Rat) ^ e := by
        rw [← zpow_natCast, ← zpow_add₀ (by norm_num)]; congr 1; omega
      rw [this, ← mul_assoc]
      exact mul_le_mul_of_nonneg_right hn' (le_of_lt hP)
    · -- K * 2^E < 2^53 * 2^E ≤ 2^52 * 2^e ≤ n' * 2^e
      have hn2 : ((2 ^ 52 : Nat) : Int) ≤ (n' : Int) := hfloor _ (by push_cast; exact hs)
      have hn2' : (2 : Rat) ^ (52 : Nat) ≤ (n' : Rat) := by
        have : 2 ^ 52 ≤ n' := by exact_mod_cast hn2
        exact_mod_cast this
      have hK' : (K : Rat) ≤ (2 : Rat) ^ (53 : Nat) := by
        have : K ≤ 2 ^ 53 := by omega
        exact_mod_cast this
      have hpow : (2 : Rat) ^ (53 : Nat) * (2 : Rat) ^ E ≤ (2 : Rat) ^ (52 : Nat) * (2 : Rat) ^ e := by
        have h3 : (2 : Rat) ^ (53 : Nat) * (2 : Rat) ^ E = (2 : Rat) ^ (52 : Nat) * (2 : Rat) ^ (E + 1) := by
          rw [zpow_add₀ (by norm_num)]; norm_num; ring
        rw [h3]
        exact mul_le_mul_of_nonneg_left (zpow_le_zpow_right₀ (by norm_num) (by omega)) (by norm_num)
      calc (K : Rat) * (2 : Rat) ^ E ≤ (2 : Rat) ^ (53 : Nat) * (2 : Rat) ^ E :=
            mul_le_mul_of_nonneg_right hK' (le_of_lt hE)
        _ ≤ (2 : Rat) ^ (52 : Nat) * (2 : Rat) ^ e := hpow
        _ ≤ (n' : Rat) * (2 : Rat) ^ e := mul_le_mul_of_nonneg_right hn2' (le_of_lt hP)

/-- **`rnd` fixes every double**: `K * 2^E` with `K < 2^53` is rounded to itself -/
theorem toRat_rnd_repr (K : Nat) (E : Int) (hK : K < 2 ^ 53) :
    (rnd ((K : Rat) * (2 : Rat) ^ E)).toRat = (K : Rat) * (2 : Rat) ^ E :=
  le_antisymm (toRat_rnd_le_repr _ K E hK (le_refl _)) (repr_le_toRat_rnd _ K E hK (le_refl _))

/-! ## `rnd` is monotone -/

theorem rnd_mono_pos (x y : Rat) (hx : 0 < x) (hxy : x ≤ y) : (rnd x).toRat ≤ (rnd y).toRat := by
  rcases eq_or_lt_of_le hxy with rfl | hlt
  · exact le_refl _
  have hy : 0 < y := lt_of_lt_of_le hx hxy
  obtain ⟨n1, e1, hv1, hs1, hup1, _, hceil1, _, hlt1⟩ := rnd_pos_spec x hx
  obtain ⟨n2, e2, hv2, hs2, _, hlo2, _, hfloor2, hlt2⟩ := rnd_pos_spec y hy
  rw [hv1, hv2]
  have hP1 : (0 : Rat) < (2 : Rat) ^ e1 := zpow_pos (by norm_num) _
  have hP2 : (0 : Rat) < (2 : Rat) ^ e2 := zpow_pos (by norm_num) _
  have hQ1 : (0 : Rat) < (2 : Rat) ^ (-e1) := zpow_pos (by norm_num) _
  have hQ2 : (0 : Rat) < (2 : Rat) ^ (-e2) := zpow_pos (by norm_num) _
  have c52 : (2 : Rat) ^ (52 : Nat) = 4503599627370496 := by norm_num
  have c53 : (2 : Rat) ^ (53 : Nat) = 9007199254740992 := by norm_num
  -- x = s1 * 2^e1, y = s2 * 2^e2
  have hx' : x * (2 : Rat) ^ (-e1) * (2 : Rat) ^ e1 = x := by
    rw [mul_assoc, zpow_neg_mul_self, mul_one]
  have hy' : y * (2 : Rat) ^ (-e2) * (2 : Rat) ^ e2 = y := by
    rw [mul_assoc, zpow_neg_mul_self, mul_one]
  rcases lt_trichotomy e1 e2 with hlt12 | heq | hgt
  · -- different binades: n1 * 2^e1 ≤ 2^53 * 2^e1 ≤ 2^52 * 2^e2 ≤ n2 * 2^e2
    have hn1 : (n1 : Int) ≤ ((2 ^ 53 : Nat) : Int) :=
      hceil1 _ (by push_cast; exact le_of_lt hlt1)
    have hn1' : (n1 : Rat) ≤ (2 : Rat) ^ (53 : Nat) := by
      have : n1 ≤ 2 ^ 53 := by exact_mod_cast hn1
      exact_mod_cast this
    have hn2 : ((2 ^ 52 : Nat) : Int) ≤ (n2 : Int) :=
      hfloor2 _ (by push_cast; exact hs2)
    have hn2' : (2 : Rat) ^ (52 : Nat) ≤ (n2 : Rat) := by
      have : 2 ^ 52 ≤ n2 := by exact_mod_cast hn2
      exact_mod_cast this
    have hpow : (2 : Rat) ^ (53 : Nat) * (2 : Rat) ^ e1 ≤ (2 : Rat) ^ (52 : Nat) * (2 : Rat) ^ e2 := by
      have h1 : (2 : Rat) ^ (53 : Nat) * (2 : Rat) ^ e1 = (2 : Rat) ^ (52 : Nat) * (2 : Rat) ^ (e1 + 1) := by
        rw [zpow_add₀ (by norm_num)]; norm_num; ring
      rw [h1]
      exact mul_le_mul_of_nonneg_left (zpow_le_zpow_right₀ (by norm_num) (by omega)) (by norm_num)
    calc (n1 : Rat) * (2 : Rat) ^ e1 ≤ (2 : Rat) ^ (53 : Nat) * (2 : Rat) ^ e1 :=
          mul_le_mul_of_nonneg_right hn1' (le_of_lt hP1)
      _ ≤ (2 : Rat) ^ (52 : Nat) * (2 : Rat) ^ e2 := hpow
      _ ≤ (n2 : Rat) * (2 : Rat) ^ e2 := mul_le_mul_of_nonneg_right hn2' (le_of_lt hP2)
  · -- same binade: compare the integer mantissas
    subst heq
    have hs12 : x * (2 : Rat) ^ (-e1) < y * (2 : Rat) ^ (-e1) := mul_lt_mul_of_pos_right hlt hQ1
    have hn : (n1 : Int) ≤ (n2 : Int) := by
      by_contra hc
      have hc' : (n2 : Int) + 1 ≤ (n1 : Int) := by omega
      -- s1 > n2 (else the ceiling property gives n1 ≤ n2)
      have h1 : ¬ (x * (2 : Rat) ^ (-e1) ≤ ((n2 : Int) : Rat)) := fun h => hc (hceil1 _ h)
      have h2 : ((n2 : Rat) + 1) ≤ (n1 : Rat) := by exact_mod_cast hc'
      push_cast at h1
      linarith
    have hn' : (n1 : Rat) ≤ (n2 : Rat) := by exact_mod_cast hn
    exact mul_le_mul_of_nonneg_right hn' (le_of_lt hP1)
  · -- e2 < e1 is impossible: x ≥ 2^52 * 2^e1 ≥ 2^53 * 2^e2 > y
    exfalso
    have h1 : (2 : Rat) ^ (52 : Nat) * (2 : Rat) ^ e1 ≤ x := by
      have := mul_le_mul_of_nonneg_right hs1 (le_of_lt hP1)
      rwa [hx'] at this
    have h2 : y < (2 : Rat) ^ (53 : Nat) * (2 : Rat) ^ e2 := by
      have := mul_lt_mul_of_pos_right hlt2 hP2
      rwa [hy'] at this
    have hpow : (2 : Rat) ^ (53 : Nat) * (2 : Rat) ^ e2 ≤ (2 : Rat) ^ (52 : Nat) * (2 : Rat) ^ e1 := by
      have h3 : (2 : Rat) ^ (53 : Nat) * (2 : Rat) ^ e2 = (2 : Rat) ^ (52 : Nat) * (2 : Rat) ^ (e2 + 1) := by
        rw [zpow_add₀ (by norm_num)]; norm_num; ring
      rw [h3]
      exact mul_le_mul_of_nonneg_left (zpow_le_zpow_right₀ (by norm_num) (by omega)) (by norm_num)
    linarith

/-- **rounding is monotone** -/
theorem rnd_mono (x y : Rat) (hxy : x ≤ y) : (rnd x).toRat ≤ (rnd y).toRat := by
  rcases lt_trichotomy x 0 with hx | hx | hx
  · rcases lt_or_ge y 0 with hy | hy
    · rw [toRat_rnd_neg x hx, toRat_rnd_neg y hy]
      have := rnd_mono_pos (-y) (-x) (by linarith) (by linarith)
      linarith
    · exact le_trans (toRat_rnd_nonpos x (le_of_lt hx)) (toRat_rnd_nonneg y hy)
  · subst hx
    rw [rnd_zero, toRat_zero]
    exact toRat_rnd_nonneg y hxy
  · exact rnd_mono_pos x y hx hxy

end FV.F
