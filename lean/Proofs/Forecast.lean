/-
Helper lemmas for E6 / forecasting (C19): inversion of `GM`, correctness of the lazy-unfolding
nullability / derivative tables under a no-left-recursion certificate, soundness of the
productivity table, correctness of the emptiness test.
-/
import Model.Forecast
import Proofs.IR
namespace FV
namespace Fc

/-! ### inversion of `GM` -/

theorem GM_term {G : Grammar} {t : Term} {w : List Msg} : ¬ GM G (.term t) w := by
  intro h; cases h

theorem GM_msg_iff {G : Grammar} {name s : String} {r : Option String} {w : List Msg} :
    GM G (.nt name (some s) r) w ↔ w = [⟨s, r, name⟩] := by
  constructor
  · intro h; cases h; rfl
  · rintro rfl; exact GM.msg name s r

theorem GM_nt_iff {G : Grammar} {name : String} {r : Option String} {w : List Msg} :
    GM G (.nt name none r) w ↔ ∃ body, G.rule name = some body ∧ GM G body w := by
  constructor
  · intro h
    cases h with
    | unfold _ _ body _ hr hb => exact ⟨body, hr, hb⟩
  · rintro ⟨body, hr, hb⟩; exact GM.unfold name r body w hr hb

theorem GM_alt_iff {G : Grammar} {id : String} {ns : List Node} {w : List Msg} :
    GM G (.alt id ns) w ↔ ∃ n, n ∈ ns ∧ GM G n w := by
  constructor
  · intro h
    cases h with
    | alt _ _ n _ hm hn => exact ⟨n, hm, hn⟩
  · rintro ⟨n, hm, hn⟩; exact GM.alt id ns n w hm hn

theorem GM_cat_nil_iff {G : Grammar} {id : String} {w : List Msg} :
    GM G (.cat id []) w ↔ w = [] := by
  constructor
  · intro h; cases h; rfl
  · rintro rfl; exact GM.catNil id

theorem GM_cat_cons_iff {G : Grammar} {id : String} {n : Node} {ns : List Node} {w : List Msg} :
    GM G (.cat id (n :: ns)) w ↔ ∃ w1 w2, w = w1 ++ w2 ∧ GM G n w1 ∧ GM G (.cat id ns) w2 := by
  constructor
  · intro h
    cases h with
    | catCons _ _ _ w1 w2 h1 h2 => exact ⟨w1, w2, rfl, h1, h2⟩
  · rintro ⟨w1, w2, rfl, h1, h2⟩; exact GM.catCons id n ns w1 w2 h1 h2

theorem GM_rep_inv {G : Grammar} {id : String} {kind : RepKind} {n : Node} {min : Nat}
    {max : Option Nat} {w : List Msg} :
    GM G (.rep id kind n min max) w ↔
      (min = 0 ∧ w = []) ∨
      (max ≠ some 0 ∧ ∃ w1 w2, w = w1 ++ w2 ∧ GM G n w1 ∧
        GM G (.rep id kind n (min - 1) (predMax max)) w2) := by
  constructor
  · intro h
    cases h with
    | repNil => exact Or.inl ⟨rfl, rfl⟩
    | repCons _ _ _ _ _ w1 w2 hm h1 h2 => exact Or.inr ⟨hm, w1, w2, rfl, h1, h2⟩
  · rintro (⟨rfl, rfl⟩ | ⟨hm, w1, w2, rfl, h1, h2⟩)
    · exact GM.repNil id kind n max
    · exact GM.repCons id kind n min max w1 w2 hm h1 h2

theorem GM_eps_iff {G : Grammar} {w : List Msg} : GM G Node.eps w ↔ w = [] := GM_cat_nil_iff

theorem GM_empty {G : Grammar} {w : List Msg} : ¬ GM G Node.empty w := by
  intro h
  obtain ⟨n, hm, _⟩ := GM_alt_iff.1 h
  cases hm

/-- the identifier of a concatenation is irrelevant -/
theorem GM_cat_id {G : Grammar} (id id' : String) : ∀ (ns : List Node) (w : List Msg),
    GM G (.cat id ns) w → GM G (.cat id' ns) w
  | [], w, h => by rw [GM_cat_nil_iff] at h ⊢; exact h
  | n :: ns, w, h => by
    obtain ⟨w1, w2, rfl, h1, h2⟩ := GM_cat_cons_iff.1 h
    exact GM_cat_cons_iff.2 ⟨w1, w2, rfl, h1, GM_cat_id id id' ns w2 h2⟩

theorem GM_cat_id_iff {G : Grammar} (id id' : String) (ns : List Node) (w : List Msg) :
    GM G (.cat id ns) w ↔ GM G (.cat id' ns) w :=
  ⟨GM_cat_id id id' ns w, GM_cat_id id' id ns w⟩

theorem append_eq_nil_left {α : Type} {a b : List α} (h : [] = a ++ b) : a = [] := by
  cases a with
  | nil => rfl
  | cons x xs => simp at h

theorem append_eq_nil_right {α : Type} {a b : List α} (h : [] = a ++ b) : b = [] := by
  cases a with
  | nil => simpa using h.symm
  | cons x xs => simp at h

/-! ### `consumes` is a sound syntactic approximation of "not nullable" -/

mutual
theorem consumes_not_nil (G : Grammar) : ∀ n : Node, consumes n = true → ¬ GM G n []
  | .term _, _ => GM_term
  | .nt name s r, hc => by
    cases s with
    | none => simp [consumes] at hc
    | some s => intro h; have := GM_msg_iff.1 h; simp at this
  | .alt _ ns, hc => by
    simp only [consumes] at hc
    intro h
    obtain ⟨n, hm, hn⟩ := GM_alt_iff.1 h
    exact consumesAll_not_nil G ns hc n hm hn
  | .cat id ns, hc => by
    simp only [consumes] at hc
    exact consumesAny_not_nil G ns id hc
  | .rep _ _ n min max, hc => by
    simp only [consumes, Bool.and_eq_true, decide_eq_true_eq] at hc
    intro h
    rcases GM_rep_inv.1 h with ⟨h0, _⟩ | ⟨_, w1, w2, he, h1, _⟩
    · omega
    · have := append_eq_nil_left he
      subst this
      exact consumes_not_nil G n hc.2 h1
theorem consumesAll_not_nil (G : Grammar) : ∀ ns : List Node, consumesAll ns = true →
    ∀ n, n ∈ ns → ¬ GM G n []
  | [], _, n, hm => by cases hm
  | a :: as, hc, n, hm => by
    simp only [consumesAll, Bool.and_eq_true] at hc
    rcases List.mem_cons.1 hm with ha | hm'
    · rw [ha]; exact consumes_not_nil G a hc.1
    · exact consumesAll_not_nil G as hc.2 n hm'
theorem consumesAny_not_nil (G : Grammar) : ∀ (ns : List Node) (id : String), consumesAny ns = true →
    ¬ GM G (.cat id ns) []
  | [], _, hc => by simp [consumesAny] at hc
  | a :: as, id, hc => by
    simp only [consumesAny, Bool.or_eq_true] at hc
    intro h
    obtain ⟨w1, w2, he, h1, h2⟩ := GM_cat_cons_iff.1 h
    have e1 := append_eq_nil_left he
    have e2 := append_eq_nil_right he
    subst e1 e2
    rcases hc with hc | hc
    · exact consumes_not_nil G a hc h1
    · exact consumesAny_not_nil G as id hc h2
end

/-! ### nullability -/

/-- `ν` is right about nonterminal `name` -/
def NuOk (G : Grammar) (ν : String → Bool) (name : String) : Prop :=
  ν name = true ↔ ∃ body, G.rule name = some body ∧ GM G body []

mutual
theorem nullWith_iff (G : Grammar) (ν : String → Bool) : ∀ n : Node,
    (∀ name, name ∈ heads n → NuOk G ν name) → (nullWith ν n = true ↔ GM G n [])
  | .term _, _ => by simp [nullWith, GM_term]
  | .nt name s r, hν => by
    cases s with
    | some s => simp [nullWith, GM_msg_iff]
    | none =>
      have := hν name (by simp [heads])
      simp only [nullWith, Option.isSome_none, Bool.false_eq_true, if_false, GM_nt_iff]
      exact this
  | .alt _ ns, hν => by
    simp only [nullWith, GM_alt_iff]
    exact nullAnyWith_iff G ν ns (by simpa [heads] using hν)
  | .cat id ns, hν => by
    simp only [nullWith]
    exact nullAllWith_iff G ν ns id (by simpa [heads] using hν)
  | .rep id kind n min max, hν => by
    have ih := nullWith_iff G ν n (by simpa [heads] using hν)
    simp only [nullWith, Bool.and_eq_true, Bool.or_eq_true, beq_iff_eq]
    constructor
    · rintro ⟨hb, h⟩
      rcases h with h0 | hn
      · subst h0; exact GM.repNil id kind n max
      · -- `min` empty iterations
        have hn' := ih.1 hn
        clear hν ih hn
        induction min generalizing max with
        | zero => exact GM.repNil id kind n max
        | succ k ihk =>
          have hmax : max ≠ some 0 := by
            intro h0; subst h0; simp [boundsOk] at hb
          have hb' : boundsOk k (predMax max) = true := by
            cases max with
            | none => rfl
            | some mx => simp [boundsOk, predMax] at hb ⊢; omega
          have := GM.repCons id kind n (k + 1) max [] [] hmax hn' (by simpa using ihk (predMax max) hb')
          simpa using this
    · intro h
      -- bounds: any derivation of a repetition implies boundsOk
      have hb : boundsOk min max = true := by
        clear ih hν
        generalize hw : ([] : List Msg) = w at h
        clear hw
        induction min generalizing max w with
        | zero => cases max <;> simp [boundsOk]
        | succ k ihk =>
          rcases GM_rep_inv.1 h with ⟨h0, _⟩ | ⟨hm, w1, w2, _, _, h2⟩
          · omega
          · have h2' : GM G (.rep id kind n k (predMax max)) w2 := by simpa using h2
            have := ihk _ _ h2'
            cases max with
            | none => rfl
            | some mx =>
              simp only [boundsOk, predMax, decide_eq_true_eq] at this ⊢
              have hmx : mx ≠ 0 := fun h0 => hm (by rw [h0])
              omega
      refine ⟨hb, ?_⟩
      by_cases h0 : min = 0
      · exact Or.inl h0
      · right
        rcases GM_rep_inv.1 h with ⟨h0', _⟩ | ⟨_, w1, w2, he, h1, _⟩
        · exact absurd h0' h0
        · have := append_eq_nil_left he
          subst this
          exact ih.2 h1
theorem nullAnyWith_iff (G : Grammar) (ν : String → Bool) : ∀ ns : List Node,
    (∀ name, name ∈ headsAlt ns → NuOk G ν name) →
    (nullAnyWith ν ns = true ↔ ∃ n, n ∈ ns ∧ GM G n [])
  | [], _ => by simp [nullAnyWith]
  | a :: as, hν => by
    have h1 := nullWith_iff G ν a (fun name hm => hν name (by simp [headsAlt, hm]))
    have h2 := nullAnyWith_iff G ν as (fun name hm => hν name (by simp [headsAlt, hm]))
    simp only [nullAnyWith, Bool.or_eq_true, h1, h2, List.mem_cons]
    constructor
    · rintro (h | ⟨n, hm, hn⟩)
      · exact ⟨a, Or.inl rfl, h⟩
      · exact ⟨n, Or.inr hm, hn⟩
    · rintro ⟨n, rfl | hm, hn⟩
      · exact Or.inl hn
      · exact Or.inr ⟨n, hm, hn⟩
theorem nullAllWith_iff (G : Grammar) (ν : String → Bool) : ∀ (ns : List Node) (id : String),
    (∀ name, name ∈ headsCat ns → NuOk G ν name) →
    (nullAllWith ν ns = true ↔ GM G (.cat id ns) [])
  | [], _, _ => by simp [nullAllWith, GM_cat_nil_iff]
  | a :: as, id, hν => by
    by_cases hc : consumes a = true
    · have h1 := nullWith_iff G ν a (fun name hm => hν name (by simp [headsCat, hc, hm]))
      have hna : ¬ GM G a [] := consumes_not_nil G a hc
      have : nullWith ν a = false := by
        cases hx : nullWith ν a with
        | false => rfl
        | true => exact absurd (h1.1 hx) hna
      simp only [nullAllWith, this, Bool.false_and, Bool.false_eq_true, false_iff]
      intro h
      obtain ⟨w1, w2, he, h1', _⟩ := GM_cat_cons_iff.1 h
      have := append_eq_nil_left he
      subst this
      exact hna h1'
    · have hc' : consumes a = false := by simpa using hc
      have h1 := nullWith_iff G ν a (fun name hm => hν name (by simp [headsCat, hc', hm]))
      have h2 := nullAllWith_iff G ν as id (fun name hm => hν name (by simp [headsCat, hc', hm]))
      simp only [nullAllWith, Bool.and_eq_true, h1, h2]
      constructor
      · rintro ⟨ha, hb⟩
        exact GM_cat_cons_iff.2 ⟨[], [], rfl, ha, hb⟩
      · intro h
        obtain ⟨w1, w2, he, ha, hb⟩ := GM_cat_cons_iff.1 h
        have e1 := append_eq_nil_left he
        have e2 := append_eq_nil_right he
        subst e1 e2
        exact ⟨ha, hb⟩
end


/-! ### the no-left-recursion certificate -/

/-- `rank` strictly decreases from a rule to the nonterminals in head position of its body, and is
    below `F` on every defined nonterminal -/
def NoLeftRec (G : Grammar) (rank : String → Nat) (F : Nat) : Prop :=
  ∀ name body, G.rule name = some body → rank name < F ∧ ∀ h, h ∈ heads body → rank h < rank name

theorem rule_mem {G : Grammar} {name : String} {body : Node} (h : G.rule name = some body) :
    (name, body) ∈ G.rules := by
  unfold Grammar.rule at h
  cases hf : G.rules.find? (fun p => p.1 == name) with
  | none => simp [hf] at h
  | some p =>
    simp only [hf, Option.some.injEq] at h
    have hm := List.mem_of_find?_eq_some hf
    have hp := List.find?_some hf
    simp only [beq_iff_eq] at hp
    cases p with
    | mk a b =>
      simp only at h hp
      subst h hp
      exact hm

theorem rankOk_sound {G : Grammar} {rank : String → Nat} {F : Nat} (h : rankOk G rank F = true) :
    NoLeftRec G rank F := by
  intro name body hr
  have hm := rule_mem hr
  unfold rankOk at h
  have := (List.all_eq_true.1 h) (name, body) hm
  simp only [Bool.and_eq_true, decide_eq_true_eq, List.all_eq_true] at this
  exact ⟨this.1, fun x hx => this.2 x hx⟩

theorem nullTab_ok {G : Grammar} {rank : String → Nat} {F : Nat} (hL : NoLeftRec G rank F) :
    ∀ f name, (G.rule name = none ∨ rank name < f) → NuOk G (nullTab G f) name
  | 0, name, h => by
    rcases h with h | h
    · simp [NuOk, nullTab, h]
    · omega
  | f + 1, name, h => by
    unfold NuOk
    cases hr : G.rule name with
    | none => simp [nullTab, hr]
    | some body =>
      simp only [nullTab, hr, Option.some.injEq, exists_eq_left']
      have hrk : rank name < f + 1 := by
        rcases h with h | h
        · simp [hr] at h
        · exact h
      apply nullWith_iff G (nullTab G f) body
      intro x hx
      apply nullTab_ok hL f x
      right
      have := (hL name body hr).2 x hx
      omega

theorem nullTab_ok_all {G : Grammar} {rank : String → Nat} {F : Nat} (hL : NoLeftRec G rank F)
    (name : String) : NuOk G (nullTab G F) name := by
  apply nullTab_ok hL
  cases hr : G.rule name with
  | none => exact Or.inl rfl
  | some body => exact Or.inr (hL name body hr).1

theorem nullG_iff {G : Grammar} {rank : String → Nat} {F : Nat} (hL : NoLeftRec G rank F)
    (n : Node) : nullG G F n = true ↔ GM G n [] :=
  nullWith_iff G (nullTab G F) n (fun name _ => nullTab_ok_all hL name)

/-! ### derivative -/

theorem isMsg_iff {m : Msg} {name s : String} {r : Option String} :
    isMsg m name (some s) r = true ↔ m = ⟨s, r, name⟩ := by
  cases m with
  | mk ms mr mt =>
    simp only [isMsg, Bool.and_eq_true, decide_eq_true_eq, Option.some.injEq, Msg.mk.injEq]
    constructor
    · rintro ⟨⟨h1, h2⟩, h3⟩; exact ⟨h1.symm, h2.symm, h3.symm⟩
    · rintro ⟨h1, h2, h3⟩; exact ⟨⟨h1.symm, h2.symm⟩, h3.symm⟩

theorem GM_rep_boundsOk {G : Grammar} {id : String} {kind : RepKind} {n : Node} :
    ∀ (min : Nat) (max : Option Nat) (w : List Msg),
    GM G (.rep id kind n min max) w → boundsOk min max = true
  | 0, max, _, _ => by cases max <;> simp [boundsOk]
  | k + 1, max, w, h => by
    rcases GM_rep_inv.1 h with ⟨h0, _⟩ | ⟨hm, w1, w2, _, _, h2⟩
    · omega
    · have h2' : GM G (.rep id kind n k (predMax max)) w2 := by simpa using h2
      have := GM_rep_boundsOk k (predMax max) w2 h2'
      cases max with
      | none => rfl
      | some mx =>
        simp only [boundsOk, predMax, decide_eq_true_eq] at this ⊢
        have hmx : mx ≠ 0 := fun h0 => hm (by rw [h0])
        omega

/-- a repetition that starts with message `m`: skip the leading empty iterations -/
theorem GM_rep_cons_split {G : Grammar} {id : String} {kind : RepKind} {n : Node}
    {x : Node} {y : List Msg} (h : GM G x y) :
    ∀ (min : Nat) (max : Option Nat) (m : Msg) (w : List Msg),
      x = .rep id kind n min max → y = m :: w →
      ∃ w1 w2, w = w1 ++ w2 ∧ GM G n (m :: w1) ∧
        GM G (.rep id kind n (min - 1) (predMax max)) w2 ∧ max ≠ some 0 := by
  induction h with
  | msg => intro _ _ _ _ hx; cases hx
  | unfold => intro _ _ _ _ hx; cases hx
  | alt => intro _ _ _ _ hx; cases hx
  | catNil => intro _ _ _ _ hx; cases hx
  | catCons => intro _ _ _ _ hx; cases hx
  | repNil => intro _ _ _ _ _ hy; cases hy
  | repCons id' kind' n' min' max' w1 w2 hm h1 h2 _ ih2 =>
    intro min max m w hx hy
    cases hx
    cases w1 with
    | nil =>
      simp only [List.nil_append] at hy
      obtain ⟨u1, u2, hu, hu1, hu2, hm2⟩ := ih2 _ _ m w rfl hy
      refine ⟨u1, u2, hu, hu1, ?_, hm⟩
      have := GM.repCons _ _ _ _ _ [] u2 hm2 h1 hu2
      simpa using this
    | cons a w1' =>
      simp only [List.cons_append, List.cons.injEq] at hy
      obtain ⟨rfl, rfl⟩ := hy
      exact ⟨w1', w2, rfl, h1, h2, hm⟩

/-- `δ` is right about nonterminal `name` -/
def DeltaOk (G : Grammar) (δ : String → Node) (m : Msg) (name : String) : Prop :=
  ∀ w, GM G (δ name) w ↔ ∃ body, G.rule name = some body ∧ GM G body (m :: w)

mutual
theorem derivWith_iff (G : Grammar) (ν : String → Bool) (δ : String → Node) (m : Msg)
    (hν : ∀ name, NuOk G ν name) : ∀ (n : Node) (w : List Msg),
    (∀ name, name ∈ heads n → DeltaOk G δ m name) →
    (GM G (derivWith ν δ m n) w ↔ GM G n (m :: w))
  | .term _, w, _ => by
    simp only [derivWith]
    exact ⟨fun h => absurd h GM_empty, fun h => absurd h GM_term⟩
  | .nt name s r, w, hδ => by
    cases s with
    | some s =>
      simp only [derivWith, Option.isSome_some, if_true, GM_msg_iff]
      by_cases hm : isMsg m name (some s) r = true
      · simp only [hm, if_true, GM_eps_iff]
        have := isMsg_iff.1 hm
        subst this
        simp
      · simp only [hm]
        constructor
        · intro h; exact absurd h GM_empty
        · intro h
          simp only [List.cons.injEq] at h
          exact absurd (isMsg_iff.2 h.1) hm
    | none =>
      simp only [derivWith, Option.isSome_none, Bool.false_eq_true, if_false, GM_nt_iff]
      exact hδ name (by simp [heads]) w
  | .alt id ns, w, hδ => by
    simp only [derivWith, GM_alt_iff]
    exact derivAltWith_iff G ν δ m hν ns w (by simpa [heads] using hδ)
  | .cat id ns, w, hδ => by
    simp only [derivWith]
    exact derivCatWith_iff G ν δ m hν ns id w (by simpa [heads] using hδ)
  | .rep id kind n min max, w, hδ => by
    have ih := derivWith_iff G ν δ m hν n
    have hδ' : ∀ name, name ∈ heads n → DeltaOk G δ m name := by simpa [heads] using hδ
    simp only [derivWith]
    by_cases hb : (boundsOk min max && (max != some 0)) = true
    · simp only [hb, if_true]
      simp only [Bool.and_eq_true, bne_iff_ne, ne_eq] at hb
      constructor
      · intro h
        obtain ⟨w1, w2, rfl, h1, h2⟩ := GM_cat_cons_iff.1 h
        obtain ⟨w3, w4, rfl, h3, h4⟩ := GM_cat_cons_iff.1 h2
        have := GM_cat_nil_iff.1 h4
        subst this
        have := GM.repCons id kind n min max (m :: w1) w3 hb.2 ((ih w1 hδ').1 h1) h3
        simpa using this
      · intro h
        obtain ⟨w1, w2, rfl, h1, h2, _⟩ := GM_rep_cons_split h min max m w rfl rfl
        exact GM_cat_cons_iff.2 ⟨w1, w2, rfl, (ih w1 hδ').2 h1,
          GM_cat_cons_iff.2 ⟨w2, [], by simp, h2, GM_cat_nil_iff.2 rfl⟩⟩
    · simp only [hb]
      constructor
      · intro h; exact absurd h GM_empty
      · intro h
        exfalso
        apply hb
        obtain ⟨_, _, _, _, _, hm⟩ := GM_rep_cons_split h min max m w rfl rfl
        simp only [Bool.and_eq_true, bne_iff_ne, ne_eq]
        exact ⟨GM_rep_boundsOk min max _ h, hm⟩
theorem derivAltWith_iff (G : Grammar) (ν : String → Bool) (δ : String → Node) (m : Msg)
    (hν : ∀ name, NuOk G ν name) : ∀ (ns : List Node) (w : List Msg),
    (∀ name, name ∈ headsAlt ns → DeltaOk G δ m name) →
    ((∃ n, n ∈ derivAltWith ν δ m ns ∧ GM G n w) ↔ ∃ n, n ∈ ns ∧ GM G n (m :: w))
  | [], w, _ => by simp [derivAltWith]
  | a :: as, w, hδ => by
    have h1 := derivWith_iff G ν δ m hν a w (fun name hm => hδ name (by simp [headsAlt, hm]))
    have h2 := derivAltWith_iff G ν δ m hν as w (fun name hm => hδ name (by simp [headsAlt, hm]))
    simp only [derivAltWith, List.mem_cons]
    constructor
    · rintro ⟨n, rfl | hm, hn⟩
      · exact ⟨a, Or.inl rfl, h1.1 hn⟩
      · obtain ⟨n', hm', hn'⟩ := h2.1 ⟨n, hm, hn⟩
        exact ⟨n', Or.inr hm', hn'⟩
    · rintro ⟨n, hm, hn⟩
      rcases hm with hm | hm
      · rw [hm] at hn
        exact ⟨_, Or.inl rfl, h1.2 hn⟩
      · obtain ⟨n', hm', hn'⟩ := h2.2 ⟨n, hm, hn⟩
        exact ⟨n', Or.inr hm', hn'⟩
theorem derivCatWith_iff (G : Grammar) (ν : String → Bool) (δ : String → Node) (m : Msg)
    (hν : ∀ name, NuOk G ν name) : ∀ (ns : List Node) (id : String) (w : List Msg),
    (∀ name, name ∈ headsCat ns → DeltaOk G δ m name) →
    (GM G (derivCatWith ν δ m ns) w ↔ GM G (.cat id ns) (m :: w))
  | [], id, w, _ => by
    simp only [derivCatWith, GM_cat_nil_iff]
    exact ⟨fun h => absurd h GM_empty, fun h => by simp at h⟩
  | a :: as, id, w, hδ => by
    have hnull := nullWith_iff G ν a (fun name _ => hν name)
    simp only [derivCatWith]
    by_cases hc : consumes a = true
    · -- `a` cannot be skipped
      have iha := derivWith_iff G ν δ m hν a
      have hδa : ∀ name, name ∈ heads a → DeltaOk G δ m name :=
        fun name hm => hδ name (by simp [headsCat, hc, hm])
      have hna : nullWith ν a = false := by
        cases hx : nullWith ν a with
        | false => rfl
        | true => exact absurd (hnull.1 hx) (consumes_not_nil G a hc)
      simp only [hna, Bool.false_eq_true, if_false]
      constructor
      · intro h
        obtain ⟨w1, w2, rfl, h1, h2⟩ := GM_cat_cons_iff.1 h
        exact GM_cat_cons_iff.2 ⟨m :: w1, w2, rfl, (iha w1 hδa).1 h1, GM_cat_id _ _ _ _ h2⟩
      · intro h
        obtain ⟨u1, u2, he, h1, h2⟩ := GM_cat_cons_iff.1 h
        cases u1 with
        | nil => exact absurd h1 (consumes_not_nil G a hc)
        | cons x u1' =>
          simp only [List.cons_append, List.cons.injEq] at he
          obtain ⟨rfl, rfl⟩ := he
          exact GM_cat_cons_iff.2 ⟨u1', u2, rfl, (iha u1' hδa).2 h1, GM_cat_id _ _ _ _ h2⟩
    · have hc' : consumes a = false := by simpa using hc
      have iha := derivWith_iff G ν δ m hν a
      have hδa : ∀ name, name ∈ heads a → DeltaOk G δ m name :=
        fun name hm => hδ name (by simp [headsCat, hc', hm])
      have ihc := derivCatWith_iff G ν δ m hν as id w
        (fun name hm => hδ name (by simp [headsCat, hc', hm]))
      by_cases hn : nullWith ν a = true
      · simp only [hn, if_true, GM_alt_iff]
        constructor
        · rintro ⟨x, hx, hgx⟩
          simp only [List.mem_cons, List.not_mem_nil, or_false] at hx
          rcases hx with rfl | rfl
          · obtain ⟨w1, w2, rfl, h1, h2⟩ := GM_cat_cons_iff.1 hgx
            exact GM_cat_cons_iff.2 ⟨m :: w1, w2, rfl, (iha w1 hδa).1 h1, GM_cat_id _ _ _ _ h2⟩
          · exact GM_cat_cons_iff.2 ⟨[], m :: w, rfl, hnull.1 hn, ihc.1 hgx⟩
        · intro h
          obtain ⟨u1, u2, he, h1, h2⟩ := GM_cat_cons_iff.1 h
          cases u1 with
          | nil =>
            simp only [List.nil_append] at he
            subst he
            exact ⟨derivCatWith ν δ m as, by simp, ihc.2 h2⟩
          | cons x u1' =>
            simp only [List.cons_append, List.cons.injEq] at he
            obtain ⟨rfl, rfl⟩ := he
            exact ⟨.cat "" (derivWith ν δ m a :: as), by simp,
              GM_cat_cons_iff.2 ⟨u1', u2, rfl, (iha u1' hδa).2 h1, GM_cat_id _ _ _ _ h2⟩⟩
      · simp only [hn]
        constructor
        · intro h
          obtain ⟨w1, w2, rfl, h1, h2⟩ := GM_cat_cons_iff.1 h
          exact GM_cat_cons_iff.2 ⟨m :: w1, w2, rfl, (iha w1 hδa).1 h1, GM_cat_id _ _ _ _ h2⟩
        · intro h
          obtain ⟨u1, u2, he, h1, h2⟩ := GM_cat_cons_iff.1 h
          cases u1 with
          | nil => exact absurd (hnull.2 h1) hn
          | cons x u1' =>
            simp only [List.cons_append, List.cons.injEq] at he
            obtain ⟨rfl, rfl⟩ := he
            exact GM_cat_cons_iff.2 ⟨u1', u2, rfl, (iha u1' hδa).2 h1, GM_cat_id _ _ _ _ h2⟩
end

theorem derivTab_ok {G : Grammar} {rank : String → Nat} {F : Nat} (hL : NoLeftRec G rank F)
    (m : Msg) : ∀ f name, (G.rule name = none ∨ rank name < f) → DeltaOk G (derivTab G F m f) m name
  | 0, name, h => by
    intro w
    rcases h with h | h
    · simp only [derivTab, h]
      exact ⟨fun hh => absurd hh GM_empty, fun ⟨_, hh, _⟩ => by simp at hh⟩
    · omega
  | f + 1, name, h => by
    intro w
    cases hr : G.rule name with
    | none =>
      simp only [derivTab, hr]
      exact ⟨fun hh => absurd hh GM_empty, fun ⟨_, hh, _⟩ => by simp at hh⟩
    | some body =>
      simp only [derivTab, hr, Option.some.injEq, exists_eq_left']
      have hrk : rank name < f + 1 := by
        rcases h with h | h
        · simp [hr] at h
        · exact h
      apply derivWith_iff G (nullTab G F) (derivTab G F m f) m (nullTab_ok_all hL) body w
      intro x hx
      apply derivTab_ok hL m f x
      right
      have := (hL name body hr).2 x hx
      omega

theorem derivG_iff {G : Grammar} {rank : String → Nat} {F : Nat} (hL : NoLeftRec G rank F)
    (n : Node) (m : Msg) (w : List Msg) : GM G (derivG G F n m) w ↔ GM G n (m :: w) := by
  apply derivWith_iff G (nullTab G F) (derivTab G F m F) m (nullTab_ok_all hL) n w
  intro x _
  apply derivTab_ok hL m F x
  cases hr : G.rule x with
  | none => exact Or.inl rfl
  | some body => exact Or.inr (hL x body hr).1

theorem derivs_iff {G : Grammar} {rank : String → Nat} {F : Nat} (hL : NoLeftRec G rank F) :
    ∀ (h : List Msg) (n : Node) (w : List Msg), GM G (derivs G F n h) w ↔ GM G n (h ++ w)
  | [], n, w => by simp [derivs]
  | m :: h, n, w => by
    have := derivs_iff hL h (derivG G F n m) w
    simp only [derivs, List.foldl_cons] at this ⊢
    rw [this, derivG_iff hL]
    simp


/-! ### emptiness -/

/-- `k` copies of a word of the body fill a repetition whose bounds are consistent -/
theorem GM_rep_fill {G : Grammar} {id : String} {kind : RepKind} {n : Node} {w0 : List Msg}
    (h0 : GM G n w0) : ∀ (min : Nat) (max : Option Nat), boundsOk min max = true →
    ∃ w, GM G (.rep id kind n min max) w
  | 0, max, _ => ⟨[], GM.repNil id kind n max⟩
  | k + 1, max, hb => by
    have hmax : max ≠ some 0 := by
      intro h; subst h; simp [boundsOk] at hb
    have hb' : boundsOk k (predMax max) = true := by
      cases max with
      | none => rfl
      | some mx => simp [boundsOk, predMax] at hb ⊢; omega
    obtain ⟨w, hw⟩ := GM_rep_fill h0 k (predMax max) hb'
    exact ⟨w0 ++ w, GM.repCons id kind n (k + 1) max w0 w hmax h0 (by simpa using hw)⟩

/-- nonterminal `name` derives some interaction -/
def NtNonEmpty (G : Grammar) (name : String) : Prop := ∃ body w, G.rule name = some body ∧ GM G body w

mutual
theorem nonEmptyWith_sound (G : Grammar) (π : String → Bool)
    (hπ : ∀ name, π name = true → NtNonEmpty G name) : ∀ n : Node,
    nonEmptyWith π n = true → ∃ w, GM G n w
  | .term _, h => by simp [nonEmptyWith] at h
  | .nt name s r, h => by
    cases s with
    | some s => exact ⟨_, GM.msg name s r⟩
    | none =>
      simp only [nonEmptyWith, Option.isSome_none, Bool.false_eq_true, if_false] at h
      obtain ⟨body, w, hr, hw⟩ := hπ name h
      exact ⟨w, GM.unfold name r body w hr hw⟩
  | .alt id ns, h => by
    simp only [nonEmptyWith] at h
    obtain ⟨n, hm, w, hw⟩ := nonEmptyAnyWith_sound G π hπ ns h
    exact ⟨w, GM.alt id ns n w hm hw⟩
  | .cat id ns, h => by
    simp only [nonEmptyWith] at h
    exact nonEmptyAllWith_sound G π hπ ns id h
  | .rep id kind n min max, h => by
    simp only [nonEmptyWith, Bool.and_eq_true, Bool.or_eq_true, beq_iff_eq] at h
    rcases h.2 with h0 | hn
    · subst h0; exact ⟨[], GM.repNil id kind n max⟩
    · obtain ⟨w0, h0⟩ := nonEmptyWith_sound G π hπ n hn
      exact GM_rep_fill h0 min max h.1
theorem nonEmptyAnyWith_sound (G : Grammar) (π : String → Bool)
    (hπ : ∀ name, π name = true → NtNonEmpty G name) : ∀ ns : List Node,
    nonEmptyAnyWith π ns = true → ∃ n, n ∈ ns ∧ ∃ w, GM G n w
  | [], h => by simp [nonEmptyAnyWith] at h
  | a :: as, h => by
    simp only [nonEmptyAnyWith, Bool.or_eq_true] at h
    rcases h with h | h
    · exact ⟨a, by simp, nonEmptyWith_sound G π hπ a h⟩
    · obtain ⟨n, hm, hw⟩ := nonEmptyAnyWith_sound G π hπ as h
      exact ⟨n, by simp [hm], hw⟩
theorem nonEmptyAllWith_sound (G : Grammar) (π : String → Bool)
    (hπ : ∀ name, π name = true → NtNonEmpty G name) : ∀ (ns : List Node) (id : String),
    nonEmptyAllWith π ns = true → ∃ w, GM G (.cat id ns) w
  | [], id, _ => ⟨[], GM.catNil id⟩
  | a :: as, id, h => by
    simp only [nonEmptyAllWith, Bool.and_eq_true] at h
    obtain ⟨w1, h1⟩ := nonEmptyWith_sound G π hπ a h.1
    obtain ⟨w2, h2⟩ := nonEmptyAllWith_sound G π hπ as id h.2
    exact ⟨w1 ++ w2, GM.catCons id a as w1 w2 h1 h2⟩
end

mutual
theorem nonEmptyWith_complete (G : Grammar) (π : String → Bool)
    (hπ : ∀ name, NtNonEmpty G name → π name = true) : ∀ (n : Node) (w : List Msg),
    GM G n w → nonEmptyWith π n = true
  | .term _, _, h => absurd h GM_term
  | .nt name s r, w, h => by
    cases s with
    | some s => simp [nonEmptyWith]
    | none =>
      simp only [nonEmptyWith, Option.isSome_none, Bool.false_eq_true, if_false]
      obtain ⟨body, hr, hb⟩ := GM_nt_iff.1 h
      exact hπ name ⟨body, w, hr, hb⟩
  | .alt id ns, w, h => by
    simp only [nonEmptyWith]
    obtain ⟨n, hm, hn⟩ := GM_alt_iff.1 h
    exact nonEmptyAnyWith_complete G π hπ ns n w hm hn
  | .cat id ns, w, h => by
    simp only [nonEmptyWith]
    exact nonEmptyAllWith_complete G π hπ ns id w h
  | .rep id kind n min max, w, h => by
    simp only [nonEmptyWith, Bool.and_eq_true, Bool.or_eq_true, beq_iff_eq]
    refine ⟨GM_rep_boundsOk min max w h, ?_⟩
    rcases GM_rep_inv.1 h with ⟨h0, _⟩ | ⟨_, w1, w2, _, h1, _⟩
    · exact Or.inl h0
    · exact Or.inr (nonEmptyWith_complete G π hπ n w1 h1)
theorem nonEmptyAnyWith_complete (G : Grammar) (π : String → Bool)
    (hπ : ∀ name, NtNonEmpty G name → π name = true) : ∀ (ns : List Node) (n : Node) (w : List Msg),
    n ∈ ns → GM G n w → nonEmptyAnyWith π ns = true
  | [], _, _, hm, _ => by cases hm
  | a :: as, n, w, hm, h => by
    simp only [nonEmptyAnyWith, Bool.or_eq_true]
    rcases List.mem_cons.1 hm with ha | hm'
    · left; rw [ha] at h; exact nonEmptyWith_complete G π hπ a w h
    · right; exact nonEmptyAnyWith_complete G π hπ as n w hm' h
theorem nonEmptyAllWith_complete (G : Grammar) (π : String → Bool)
    (hπ : ∀ name, NtNonEmpty G name → π name = true) : ∀ (ns : List Node) (id : String) (w : List Msg),
    GM G (.cat id ns) w → nonEmptyAllWith π ns = true
  | [], _, _, _ => rfl
  | a :: as, id, w, h => by
    simp only [nonEmptyAllWith, Bool.and_eq_true]
    obtain ⟨w1, w2, _, h1, h2⟩ := GM_cat_cons_iff.1 h
    exact ⟨nonEmptyWith_complete G π hπ a w1 h1, nonEmptyAllWith_complete G π hπ as id w2 h2⟩
end

/-- every rule of the grammar derives some interaction -/
def Productive (G : Grammar) : Prop := ∀ name body, G.rule name = some body → ∃ w, GM G body w

theorem prodTab_sound (G : Grammar) : ∀ f name, prodTab G f name = true → NtNonEmpty G name
  | 0, _, h => by simp [prodTab] at h
  | f + 1, name, h => by
    cases hr : G.rule name with
    | none => simp [prodTab, hr] at h
    | some body =>
      simp only [prodTab, hr] at h
      obtain ⟨w, hw⟩ := nonEmptyWith_sound G (prodTab G f) (prodTab_sound G f) body h
      exact ⟨body, w, hr, hw⟩

theorem productiveB_sound {G : Grammar} {F : Nat} (h : productiveB G F = true) : Productive G := by
  intro name body hr
  have hm := rule_mem hr
  have := (List.all_eq_true.1 h) (name, body) hm
  obtain ⟨body', w, hr', hw⟩ := prodTab_sound G F name this
  rw [hr] at hr'
  cases hr'
  exact ⟨w, hw⟩

theorem nonEmpty_iff {G : Grammar} (hP : Productive G) (n : Node) :
    nonEmpty G n = true ↔ ∃ w, GM G n w := by
  constructor
  · apply nonEmptyWith_sound
    intro name h
    cases hr : G.rule name with
    | none => simp [hr] at h
    | some body =>
      obtain ⟨w, hw⟩ := hP name body hr
      exact ⟨body, w, hr, hw⟩
  · rintro ⟨w, hw⟩
    apply nonEmptyWith_complete G _ _ n w hw
    rintro name ⟨body, _, hr, _⟩
    simp [hr]

/-! ### every message of an interaction is a message atom of the grammar -/

theorem mem_msgsOfL {n : Node} {ns : List Node} {m : Msg} (hn : n ∈ ns) (hm : m ∈ msgsOf n) :
    m ∈ msgsOfL ns := by
  induction ns with
  | nil => cases hn
  | cons a as ih =>
    simp only [msgsOfL, List.mem_append]
    rcases List.mem_cons.1 hn with rfl | h
    · exact Or.inl hm
    · exact Or.inr (ih h)

theorem GM_msgs_mem {G : Grammar} {n : Node} {w : List Msg} (h : GM G n w) :
    ∀ m, m ∈ w → m ∈ msgsOf n ∨ ∃ p, p ∈ G.rules ∧ m ∈ msgsOf p.2 := by
  induction h with
  | msg name s r => intro m hm; left; simpa [msgsOf] using hm
  | unfold name r body w hr _ ih =>
    intro m hm
    rcases ih m hm with h | h
    · exact Or.inr ⟨(name, body), rule_mem hr, h⟩
    · exact Or.inr h
  | alt id ns n w hn _ ih =>
    intro m hm
    rcases ih m hm with h | h
    · left; simp only [msgsOf]; exact mem_msgsOfL hn h
    · exact Or.inr h
  | catNil => intro m hm; cases hm
  | catCons id n ns w1 w2 _ _ ih1 ih2 =>
    intro m hm
    rcases List.mem_append.1 hm with hm | hm
    · rcases ih1 m hm with h | h
      · left; simp only [msgsOf, msgsOfL, List.mem_append]; exact Or.inl h
      · exact Or.inr h
    · rcases ih2 m hm with h | h
      · left; simp only [msgsOf, msgsOfL, List.mem_append] at h ⊢; exact Or.inr h
      · exact Or.inr h
  | repNil => intro m hm; cases hm
  | repCons id kind n min max w1 w2 _ _ _ ih1 ih2 =>
    intro m hm
    rcases List.mem_append.1 hm with hm | hm
    · rcases ih1 m hm with h | h
      · left; simpa [msgsOf] using h
      · exact Or.inr h
    · rcases ih2 m hm with h | h
      · left; simpa [msgsOf] using h
      · exact Or.inr h

theorem mem_allMsgs {G : Grammar} {n : Node} {w : List Msg} (h : GM G n w) (m : Msg) (hm : m ∈ w) :
    m ∈ allMsgs G n := by
  simp only [allMsgs, List.mem_append, List.mem_flatMap]
  rcases GM_msgs_mem h m hm with h | ⟨p, hp, hmp⟩
  · exact Or.inl h
  · exact Or.inr ⟨p, hp, hmp⟩

end Fc
end FV
