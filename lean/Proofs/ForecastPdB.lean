/-
`pdB` (Model/Forecast.lean) decides `PD`: a spine is accepted exactly when it is the right spine of a message-level
partial derivation of the history.  The check evaluates it on the spines of the partial trees the real prefix parse
yields (`PositionsExact.sound`, observed per run).
-/
import Proofs.ForecastPos
namespace FV
namespace Fc

theorem matchB_iff {G : Grammar} {rank : String → Nat} {F : Nat} (hL : NoLeftRec G rank F) (n : Node)
    (u : List Msg) : matchB G F n u = true ↔ GM G n u := by
  unfold matchB
  rw [nullG_iff hL, derivs_iff hL]
  simp

theorem mem_splits {h h1 h2 : List Msg} : (h1, h2) ∈ splits h ↔ h = h1 ++ h2 := by
  unfold splits
  simp only [List.mem_map, List.mem_range, Prod.mk.injEq]
  constructor
  · rintro ⟨i, _, rfl, rfl⟩
    exact (List.take_append_drop i h).symm
  · rintro rfl
    exact ⟨h1.length, by simp only [List.length_append]; omega, by simp, by simp⟩

/-- exactly `k` iterations -/
theorem exact_rep_iff {G : Grammar} (id : String) (kind : RepKind) (n : Node) (k : Nat) (u : List Msg) :
    GM G (.rep id kind n k (some k)) u ↔ RepM (GM G n) k u := by
  rw [GM_rep_iff_repM]
  constructor
  · rintro ⟨j, hj, hr⟩
    have := hj.1
    have := hj.2 k rfl
    have : j = k := by omega
    subst this
    exact hr
  · intro hr
    exact ⟨k, ⟨Nat.le_refl _, fun mx hmx => by cases hmx; exact Nat.le_refl _⟩, hr⟩

theorem any_splits {h : List Msg} {f : List Msg × List Msg → Bool} :
    (splits h).any f = true ↔ ∃ h1 h2, h = h1 ++ h2 ∧ f (h1, h2) = true := by
  rw [List.any_eq_true]
  constructor
  · rintro ⟨⟨h1, h2⟩, hm, hf⟩
    exact ⟨h1, h2, mem_splits.1 hm, hf⟩
  · rintro ⟨h1, h2, he, hf⟩
    exact ⟨(h1, h2), mem_splits.2 he, hf⟩

/-- **the checker decides `PD`** -/
theorem pdB_iff {G : Grammar} {rank : String → Nat} {F : Nat} (hL : NoLeftRec G rank F) :
    ∀ (p : Pos) (n : Node) (h : List Msg), pdB G F n h p = true ↔ PD G n h p
  | .msg, n, h => by
    constructor
    · intro hb
      cases n with
      | nt name s r =>
        cases s with
        | some s =>
          simp only [pdB, decide_eq_true_eq] at hb
          subst hb
          exact PD.msg name s r
        | none => simp [pdB] at hb
      | term _ => simp [pdB] at hb
      | alt _ _ => simp [pdB] at hb
      | cat _ _ => simp [pdB] at hb
      | rep _ _ _ _ _ => simp [pdB] at hb
    · intro hp
      cases hp
      simp [pdB]
  | .nt p, n, h => by
    constructor
    · intro hb
      cases n with
      | nt name s r =>
        cases s with
        | some s => simp [pdB] at hb
        | none =>
          cases hr : G.rule name with
          | none => simp [pdB, hr] at hb
          | some body =>
            simp only [pdB, hr] at hb
            exact PD.nt name r body h p hr ((pdB_iff hL p body h).1 hb)
      | term _ => simp [pdB] at hb
      | alt _ _ => simp [pdB] at hb
      | cat _ _ => simp [pdB] at hb
      | rep _ _ _ _ _ => simp [pdB] at hb
    · intro hp
      cases hp with
      | nt name r body _ _ hr hb =>
        simp only [pdB, hr]
        exact (pdB_iff hL p body h).2 hb
  | .alt i p, n, h => by
    constructor
    · intro hb
      cases n with
      | alt id ns =>
        cases hn : ns[i]? with
        | none => simp [pdB, hn] at hb
        | some n' =>
          simp only [pdB, hn] at hb
          exact PD.alt id ns i n' h p hn ((pdB_iff hL p n' h).1 hb)
      | term _ => simp [pdB] at hb
      | nt _ s _ => cases s <;> simp [pdB] at hb
      | cat _ _ => simp [pdB] at hb
      | rep _ _ _ _ _ => simp [pdB] at hb
    · intro hp
      cases hp with
      | alt id ns _ n' _ _ hn hb =>
        simp only [pdB, hn]
        exact (pdB_iff hL p n' h).2 hb
  | .cat i p, n, h => by
    constructor
    · intro hb
      cases n with
      | cat id ns =>
        cases hn : ns[i]? with
        | none => simp [pdB, hn] at hb
        | some n' =>
          simp only [pdB, hn] at hb
          obtain ⟨h1, h2, rfl, hf⟩ := any_splits.1 hb
          simp only [Bool.and_eq_true] at hf
          exact PD.cat id ns i n' h1 h2 p hn ((matchB_iff hL _ _).1 hf.1) ((pdB_iff hL p n' h2).1 hf.2)
      | term _ => simp [pdB] at hb
      | nt _ s _ => cases s <;> simp [pdB] at hb
      | alt _ _ => simp [pdB] at hb
      | rep _ _ _ _ _ => simp [pdB] at hb
    · intro hp
      obtain ⟨i', n', h1, h2, p', he, id, ns, rfl, rfl, hn, hl, hp'⟩ := PD_cat_inv_any hp
      cases he
      simp only [pdB, hn]
      apply any_splits.2
      refine ⟨h1, h2, rfl, ?_⟩
      simp only [Bool.and_eq_true]
      exact ⟨(matchB_iff hL _ _).2 hl, (pdB_iff hL p n' h2).2 hp'⟩
  | .rep k p, n, h => by
    constructor
    · intro hb
      cases n with
      | rep id kind n' min max =>
        simp only [pdB, Bool.and_eq_true] at hb
        obtain ⟨hmax, hany⟩ := hb
        obtain ⟨h1, h2, rfl, hf⟩ := any_splits.1 hany
        simp only [Bool.and_eq_true] at hf
        refine PD.rep id kind n' min max k h1 h2 p ?_ ((exact_rep_iff id kind n' k h1).1 ((matchB_iff hL _ _).1 hf.1))
          ((pdB_iff hL p n' h2).1 hf.2)
        intro mx hmx
        subst hmx
        simpa using hmax
      | term _ => simp [pdB] at hb
      | nt _ s _ => cases s <;> simp [pdB] at hb
      | alt _ _ => simp [pdB] at hb
      | cat _ _ => simp [pdB] at hb
    · intro hp
      obtain ⟨id, kind, n', min, max, rfl, hrest⟩ := PD_rep_node hp
      rcases PD_rep_inv hp with ⟨he, _⟩ | ⟨k', h1, h2, p', he, rfl, hb, hrep, hp'⟩
      · cases he
      · cases he
        simp only [pdB, Bool.and_eq_true]
        refine ⟨?_, ?_⟩
        · cases max with
          | none => rfl
          | some mx => simpa using hb mx rfl
        · apply any_splits.2
          refine ⟨h1, h2, rfl, ?_⟩
          simp only [Bool.and_eq_true]
          exact ⟨(matchB_iff hL _ _).2 ((exact_rep_iff id kind n' k h1).2 hrep), (pdB_iff hL p n' h2).2 hp'⟩
  | .rep0, n, h => by
    constructor
    · intro hb
      cases n with
      | rep id kind n' min max =>
        simp only [pdB, List.isEmpty_iff] at hb
        subst hb
        exact PD.rep0 id kind n' min max
      | term _ => simp [pdB] at hb
      | nt _ s _ => cases s <;> simp [pdB] at hb
      | alt _ _ => simp [pdB] at hb
      | cat _ _ => simp [pdB] at hb
    · intro hp
      cases hp
      simp [pdB]

end Fc
end FV
