/-
The non-exploring mode of `ContinuingNodeVisitor` (`walkPosWith` in Model/Forecast.lean): the walk along the right
spine of a partial derivation tree.

  `PD G n h p`     message-level partial derivation: the history `h` is consumed by a partial derivation of node `n`
                   whose path along the last child at every level is `p`; everything to the left of that path is a
                   complete derivation.  The path ends at the last message (`Pos.tight`) or descends further into
                   children that matched nothing.
  `After G n p w`  the completions of such a partial derivation: `w` turns it into a derivation of `n`.

  `PD_after_GM`    cut + completion is a derivation:            PD n h p → After n p w → GM n (h ++ w)
  `GM_cut`         every derivation can be cut after `h ≠ []`:  GM n (h ++ w) → ∃ p tight, PD n h p ∧ After n p w
  `walkPos_after`  the visitor along `p` offers exactly the first messages of the completions of `p` and returns
                   `continue_exploring` exactly when `p` is complete as it stands
  `codeNextsOn_iff` hence: the union of the visitor's options over a set of positions that is sound (`⊆ PD`) and
                   holds every tight partial derivation is the set of continuations.
-/
import Proofs.ForecastWalk
import Proofs.ForecastRep
namespace FV
namespace Fc

/-- upper bound that is left after `j` iterations -/
def subMax (max : Option Nat) (j : Nat) : Option Nat := max.map (· - j)

/-- the path ends at the last message of the history (no descent into children that matched nothing) -/
def Pos.tight : Pos → Bool
  | .msg => true
  | .nt p => p.tight
  | .alt _ p => p.tight
  | .cat _ p => p.tight
  | .rep _ p => p.tight
  | .rep0 => false

/-- **message-level partial derivation** of the history `h` from node `n`, with right spine `p` -/
inductive PD (G : Grammar) : Node → List Msg → Pos → Prop
  | msg (name s r) : PD G (.nt name (some s) r) [⟨s, r, name⟩] .msg
  | nt (name r body h p) : G.rule name = some body → PD G body h p → PD G (.nt name none r) h (.nt p)
  | alt (id ns i n h p) : ns[i]? = some n → PD G n h p → PD G (.alt id ns) h (.alt i p)
  | cat (id ns i n h1 h2 p) : ns[i]? = some n → GM G (.cat id (ns.take i)) h1 → PD G n h2 p →
      PD G (.cat id ns) (h1 ++ h2) (.cat i p)
  | rep (id kind n min max k h1 h2 p) : (∀ mx, max = some mx → k + 1 ≤ mx) → RepM (GM G n) k h1 →
      PD G n h2 p → PD G (.rep id kind n min max) (h1 ++ h2) (.rep k p)
  | rep0 (id kind n min max) : PD G (.rep id kind n min max) [] .rep0

/-- the completions of a partial derivation -/
inductive After (G : Grammar) : Node → Pos → List Msg → Prop
  | msg (name s r) : After G (.nt name (some s) r) .msg []
  | nt (name r body p w) : G.rule name = some body → After G body p w → After G (.nt name none r) (.nt p) w
  | alt (id ns i n p w) : ns[i]? = some n → After G n p w → After G (.alt id ns) (.alt i p) w
  | cat (id ns i n p w1 w2) : ns[i]? = some n → After G n p w1 → GM G (.cat id (ns.drop (i + 1))) w2 →
      After G (.cat id ns) (.cat i p) (w1 ++ w2)
  | rep (id kind n min max k p w1 w2) : After G n p w1 →
      GM G (.rep id kind n (min - (k + 1)) (subMax max (k + 1))) w2 →
      After G (.rep id kind n min max) (.rep k p) (w1 ++ w2)
  | rep0 (id kind n min max w) : GM G (.rep id kind n min max) w → After G (.rep id kind n min max) .rep0 w

/-! ### inversion of `After` -/

theorem After_msg_iff {G : Grammar} {name s : String} {r : Option String} {w : List Msg} :
    After G (.nt name (some s) r) .msg w ↔ w = [] := by
  constructor
  · intro h; cases h; rfl
  · rintro rfl; exact After.msg name s r

theorem After_nt_iff {G : Grammar} {name : String} {r : Option String} {body : Node} {p : Pos} {w : List Msg}
    (hr : G.rule name = some body) : After G (.nt name none r) (.nt p) w ↔ After G body p w := by
  constructor
  · intro h
    cases h with
    | nt _ _ body' _ _ hr' hb => rw [hr] at hr'; cases hr'; exact hb
  · intro h; exact After.nt name r body p w hr h

theorem After_alt_iff {G : Grammar} {id : String} {ns : List Node} {i : Nat} {n : Node} {p : Pos} {w : List Msg}
    (hn : ns[i]? = some n) : After G (.alt id ns) (.alt i p) w ↔ After G n p w := by
  constructor
  · intro h
    cases h with
    | alt _ _ _ n' _ _ hn' hb => rw [hn] at hn'; cases hn'; exact hb
  · intro h; exact After.alt id ns i n p w hn h

theorem After_cat_iff {G : Grammar} {id : String} {ns : List Node} {i : Nat} {n : Node} {p : Pos} {w : List Msg}
    (hn : ns[i]? = some n) :
    After G (.cat id ns) (.cat i p) w ↔
      ∃ w1 w2, w = w1 ++ w2 ∧ After G n p w1 ∧ GM G (.cat id (ns.drop (i + 1))) w2 := by
  constructor
  · intro h
    cases h with
    | cat _ _ _ n' _ w1 w2 hn' hb hr => rw [hn] at hn'; cases hn'; exact ⟨w1, w2, rfl, hb, hr⟩
  · rintro ⟨w1, w2, rfl, hb, hr⟩; exact After.cat id ns i n p w1 w2 hn hb hr

theorem After_rep_iff {G : Grammar} {id : String} {kind : RepKind} {n : Node} {min : Nat} {max : Option Nat}
    {k : Nat} {p : Pos} {w : List Msg} :
    After G (.rep id kind n min max) (.rep k p) w ↔
      ∃ w1 w2, w = w1 ++ w2 ∧ After G n p w1 ∧
        GM G (.rep id kind n (min - (k + 1)) (subMax max (k + 1))) w2 := by
  constructor
  · intro h
    cases h with
    | rep _ _ _ _ _ _ _ w1 w2 hb hr => exact ⟨w1, w2, rfl, hb, hr⟩
  · rintro ⟨w1, w2, rfl, hb, hr⟩; exact After.rep id kind n min max k p w1 w2 hb hr

theorem After_rep0_iff {G : Grammar} {id : String} {kind : RepKind} {n : Node} {min : Nat} {max : Option Nat}
    {w : List Msg} : After G (.rep id kind n min max) .rep0 w ↔ GM G (.rep id kind n min max) w := by
  constructor
  · intro h; cases h with | rep0 _ _ _ _ _ _ hg => exact hg
  · intro h; exact After.rep0 id kind n min max w h

/-! ### inversion of `PD` -/

theorem PD_msg_inv {G : Grammar} {name s : String} {r : Option String} {h : List Msg} {p : Pos}
    (hp : PD G (.nt name (some s) r) h p) : h = [⟨s, r, name⟩] ∧ p = .msg := by
  generalize hx : Node.nt name (some s) r = x at hp
  cases hp <;> cases hx
  exact ⟨rfl, rfl⟩

theorem PD_nt_inv {G : Grammar} {name : String} {r : Option String} {h : List Msg} {p : Pos}
    (hp : PD G (.nt name none r) h p) : ∃ body p', p = .nt p' ∧ G.rule name = some body ∧ PD G body h p' := by
  generalize hx : Node.nt name none r = x at hp
  cases hp <;> cases hx
  exact ⟨_, _, rfl, by assumption, by assumption⟩

theorem PD_alt_inv {G : Grammar} {id : String} {ns : List Node} {h : List Msg} {p : Pos}
    (hp : PD G (.alt id ns) h p) : ∃ i n p', p = .alt i p' ∧ ns[i]? = some n ∧ PD G n h p' := by
  generalize hx : Node.alt id ns = x at hp
  cases hp <;> cases hx
  exact ⟨_, _, _, rfl, by assumption, by assumption⟩

theorem PD_cat_inv {G : Grammar} {id : String} {ns : List Node} {h : List Msg} {p : Pos}
    (hp : PD G (.cat id ns) h p) : ∃ i n h1 h2 p', p = .cat i p' ∧ h = h1 ++ h2 ∧ ns[i]? = some n ∧
      GM G (.cat id (ns.take i)) h1 ∧ PD G n h2 p' := by
  generalize hx : Node.cat id ns = x at hp
  cases hp <;> cases hx
  exact ⟨_, _, _, _, _, rfl, rfl, by assumption, by assumption, by assumption⟩

theorem PD_rep_inv {G : Grammar} {id : String} {kind : RepKind} {n : Node} {min : Nat} {max : Option Nat}
    {h : List Msg} {p : Pos} (hp : PD G (.rep id kind n min max) h p) :
    (p = .rep0 ∧ h = []) ∨ ∃ k h1 h2 p', p = .rep k p' ∧ h = h1 ++ h2 ∧ (∀ mx, max = some mx → k + 1 ≤ mx) ∧
      RepM (GM G n) k h1 ∧ PD G n h2 p' := by
  generalize hx : Node.rep id kind n min max = x at hp
  cases hp <;> cases hx
  · exact Or.inr ⟨_, _, _, _, rfl, rfl, by assumption, by assumption, by assumption⟩
  · exact Or.inl ⟨rfl, rfl⟩

/-- a position `.cat i p` only fits a concatenation -/
theorem PD_cat_inv_any {G : Grammar} {n : Node} {h : List Msg} {i : Nat} {p : Pos} (hp : PD G n h (.cat i p)) :
    ∃ i' n' h1 h2 p', (Pos.cat i p = Pos.cat i' p') ∧ (∃ id ns, n = .cat id ns ∧ h = h1 ++ h2 ∧ ns[i']? = some n' ∧
      GM G (.cat id (ns.take i')) h1 ∧ PD G n' h2 p') := by
  generalize hx : Pos.cat i p = x at hp
  cases hp <;> cases hx
  exact ⟨_, _, _, _, _, rfl, _, _, rfl, rfl, by assumption, by assumption, by assumption⟩

/-- a position `.rep k p` only fits a repetition -/
theorem PD_rep_node {G : Grammar} {n : Node} {h : List Msg} {k : Nat} {p : Pos} (hp : PD G n h (.rep k p)) :
    ∃ id kind n' min max, n = .rep id kind n' min max ∧ True := by
  generalize hx : Pos.rep k p = x at hp
  cases hp <;> cases hx
  exact ⟨_, _, _, _, _, rfl, trivial⟩

/-- a partial derivation whose spine ends at a message has consumed at least that message -/
theorem PD_tight_ne {G : Grammar} {n : Node} {h : List Msg} {p : Pos} (hp : PD G n h p) :
    p.tight = true → h ≠ [] := by
  induction hp with
  | msg => intro _; simp
  | nt _ _ _ _ _ _ _ ih => exact ih
  | alt _ _ _ _ _ _ _ _ ih => exact ih
  | cat _ _ _ _ _ _ _ _ _ _ ih => intro ht; have := ih ht; simp [this]
  | rep _ _ _ _ _ _ _ _ _ _ _ _ ih => intro ht; have := ih ht; simp [this]
  | rep0 => intro ht; simp [Pos.tight] at ht

/-! ### lists and concatenations -/

theorem split_at {α : Type} : ∀ {ns : List α} {i : Nat} {n : α}, ns[i]? = some n →
    ns = ns.take i ++ n :: ns.drop (i + 1)
  | [], i, n, h => by simp at h
  | a :: as, 0, n, h => by
    simp only [List.getElem?_cons_zero, Option.some.injEq] at h
    subst h
    simp
  | a :: as, i + 1, n, h => by
    simp only [List.getElem?_cons_succ] at h
    have := split_at h
    simp only [List.take_succ_cons, List.drop_succ_cons, List.cons_append, List.cons.injEq, true_and]
    exact this

theorem GM_cat_append {G : Grammar} (id : String) : ∀ (as bs : List Node) (u v : List Msg),
    GM G (.cat id as) u → GM G (.cat id bs) v → GM G (.cat id (as ++ bs)) (u ++ v)
  | [], bs, u, v, hu, hv => by
    have := GM_cat_nil_iff.1 hu
    subst this
    simpa using hv
  | a :: as, bs, u, v, hu, hv => by
    obtain ⟨u1, u2, rfl, h1, h2⟩ := GM_cat_cons_iff.1 hu
    have := GM_cat_append id as bs u2 v h2 hv
    have e : u1 ++ u2 ++ v = u1 ++ (u2 ++ v) := by simp
    rw [e]
    exact GM.catCons id a (as ++ bs) u1 (u2 ++ v) h1 this

theorem mem_of_getElem?' {α : Type} {ns : List α} {i : Nat} {n : α} (h : ns[i]? = some n) : n ∈ ns :=
  List.mem_of_getElem? h

/-! ### cut + completion = derivation -/

theorem PD_after_GM {G : Grammar} {n : Node} {h : List Msg} {p : Pos} (hpd : PD G n h p) :
    ∀ w, After G n p w → GM G n (h ++ w) := by
  induction hpd with
  | msg name s r =>
    intro w ha
    have := After_msg_iff.1 ha
    subst this
    exact GM.msg name s r
  | nt name r body h p hr _ ih =>
    intro w ha
    exact GM.unfold name r body _ hr (ih w ((After_nt_iff hr).1 ha))
  | alt id ns i n h p hn _ ih =>
    intro w ha
    exact GM.alt id ns n _ (mem_of_getElem?' hn) (ih w ((After_alt_iff hn).1 ha))
  | cat id ns i n h1 h2 p hn hl _ ih =>
    intro w ha
    obtain ⟨w1, w2, rfl, hb, hr⟩ := (After_cat_iff hn).1 ha
    have h1' := ih w1 hb
    have hcons : GM G (.cat id (n :: ns.drop (i + 1))) ((h2 ++ w1) ++ w2) :=
      GM.catCons id n _ _ _ h1' hr
    have := GM_cat_append id _ _ _ _ hl hcons
    rw [← split_at hn] at this
    have e : h1 ++ h2 ++ (w1 ++ w2) = h1 ++ (h2 ++ w1 ++ w2) := by simp
    rw [e]
    exact this
  | rep id kind n min max k h1 h2 p hb hk _ ih =>
    intro w ha
    obtain ⟨w1, w2, rfl, hb', hr⟩ := After_rep_iff.1 ha
    have h1' := ih w1 hb'
    obtain ⟨j, hj, hrj⟩ := (GM_rep_iff_repM G id kind n w2 _ _).1 hr
    have hone : RepM (GM G n) (1 + j) ((h2 ++ w1) ++ w2) := RepM_append 1 j _ _ (RepM_one h1') hrj
    have hall := RepM_append k (1 + j) _ _ hk hone
    refine (GM_rep_iff_repM G id kind n _ min max).2 ⟨k + (1 + j), ⟨?_, ?_⟩, ?_⟩
    · have := hj.1; omega
    · intro mx hmx
      have h1 := hb mx hmx
      have h2 := hj.2 (mx - (k + 1)) (by simp [subMax, hmx])
      omega
    · have e : h1 ++ h2 ++ (w1 ++ w2) = h1 ++ (h2 ++ w1 ++ w2) := by simp
      rw [e]
      exact hall
  | rep0 id kind n min max =>
    intro w ha
    simpa using After_rep0_iff.1 ha

/-! ### every derivation can be cut behind a non-empty history, tightly -/

theorem subMax_one (max : Option Nat) : subMax max 1 = predMax max := by
  cases max <;> rfl

theorem subMax_pred (max : Option Nat) (j : Nat) : subMax (predMax max) j = subMax max (j + 1) := by
  cases max with
  | none => rfl
  | some m => simp only [subMax, predMax, Option.map_some, Option.some.injEq]; omega

theorem GM_cut {G : Grammar} {n : Node} {u : List Msg} (hg : GM G n u) :
    ∀ h w, u = h ++ w → h ≠ [] → ∃ p, p.tight = true ∧ PD G n h p ∧ After G n p w := by
  induction hg with
  | msg name s r =>
    intro h w he hne
    cases h with
    | nil => exact absurd rfl hne
    | cons x h' =>
      simp only [List.cons_append, List.cons.injEq] at he
      obtain ⟨rfl, he'⟩ := he
      have e1 := append_eq_nil_left he'
      have e2 := append_eq_nil_right he'
      subst e1 e2
      exact ⟨.msg, rfl, PD.msg name s r, After.msg name s r⟩
  | unfold name r body u hr _ ih =>
    intro h w he hne
    obtain ⟨p, ht, hp, ha⟩ := ih h w he hne
    exact ⟨.nt p, ht, PD.nt name r body h p hr hp, After.nt name r body p w hr ha⟩
  | alt id ns n u hm _ ih =>
    intro h w he hne
    obtain ⟨p, ht, hp, ha⟩ := ih h w he hne
    obtain ⟨i, hi⟩ := List.mem_iff_getElem?.1 hm
    exact ⟨.alt i p, ht, PD.alt id ns i n h p hi hp, After.alt id ns i n p w hi ha⟩
  | catNil id =>
    intro h w he hne
    exact absurd (append_eq_nil_left he) hne
  | catCons id n ns w1 w2 h1 h2 ih1 ih2 =>
    intro h w he hne
    rcases List.append_eq_append_iff.1 he with ⟨a', rfl, rfl⟩ | ⟨c', rfl, rfl⟩
    · by_cases ha' : a' = []
      · subst ha'
        have hne1 : w1 ≠ [] := by simpa using hne
        obtain ⟨p, ht, hp, ha⟩ := ih1 w1 [] (by simp) hne1
        refine ⟨.cat 0 p, ht, ?_, ?_⟩
        · have := PD.cat id (n :: ns) 0 n [] w1 p rfl (by simpa using GM.catNil id) hp
          simpa using this
        · have := After.cat id (n :: ns) 0 n p [] w rfl ha (by simpa using h2)
          simpa using this
      · obtain ⟨p', ht, hp, ha⟩ := ih2 a' w rfl ha'
        cases hp with
        | cat _ _ i n' g1 g2 p'' hn' hl hp'' =>
          refine ⟨.cat (i + 1) p'', ht, ?_, ?_⟩
          · have := PD.cat id (n :: ns) (i + 1) n' (w1 ++ g1) g2 p'' (by simpa using hn')
              (by simpa using GM.catCons id n (ns.take i) w1 g1 h1 hl) hp''
            simpa using this
          · obtain ⟨u1, u2, rfl, hb, hr⟩ := (After_cat_iff hn').1 ha
            exact After.cat id (n :: ns) (i + 1) n' p'' u1 u2 (by simpa using hn') hb (by simpa using hr)
    · obtain ⟨p, ht, hp, ha⟩ := ih1 h c' rfl hne
      refine ⟨.cat 0 p, ht, ?_, ?_⟩
      · have := PD.cat id (n :: ns) 0 n [] h p rfl (by simpa using GM.catNil id) hp
        simpa using this
      · exact After.cat id (n :: ns) 0 n p c' w2 rfl ha (by simpa using h2)
  | repNil id kind n max =>
    intro h w he hne
    exact absurd (append_eq_nil_left he) hne
  | repCons id kind n min max w1 w2 hmax h1 h2 ih1 ih2 =>
    intro h w he hne
    have hb1 : ∀ mx, max = some mx → 0 + 1 ≤ mx := by
      intro mx hmx
      have : mx ≠ 0 := fun h0 => hmax (by rw [hmx, h0])
      omega
    have h2' : GM G (.rep id kind n (min - (0 + 1)) (subMax max (0 + 1))) w2 := by
      rw [Nat.zero_add, subMax_one]; exact h2
    rcases List.append_eq_append_iff.1 he with ⟨a', rfl, rfl⟩ | ⟨c', rfl, rfl⟩
    · by_cases ha' : a' = []
      · subst ha'
        have hne1 : w1 ≠ [] := by simpa using hne
        obtain ⟨p, ht, hp, ha⟩ := ih1 w1 [] (by simp) hne1
        refine ⟨.rep 0 p, ht, ?_, ?_⟩
        · have := PD.rep id kind n min max 0 [] w1 p hb1 rfl hp
          simpa using this
        · have := After.rep id kind n min max 0 p [] w ha h2'
          simpa using this
      · obtain ⟨p', ht, hp, ha⟩ := ih2 a' w rfl ha'
        cases hp with
        | rep0 => exact absurd rfl ha'
        | rep _ _ _ _ _ k g1 g2 p'' hb hk hp'' =>
          refine ⟨.rep (k + 1) p'', ht, ?_, ?_⟩
          · have := PD.rep id kind n min max (k + 1) (w1 ++ g1) g2 p'' (by
              intro mx hmx
              have := hb (mx - 1) (by simp [predMax, hmx])
              have : mx ≠ 0 := fun h0 => hmax (by rw [hmx, h0])
              omega) ⟨w1, g1, rfl, h1, hk⟩ hp''
            simpa using this
          · obtain ⟨u1, u2, rfl, hb', hr⟩ := After_rep_iff.1 ha
            refine After.rep id kind n min max (k + 1) p'' u1 u2 hb' ?_
            rw [subMax_pred] at hr
            have e : min - 1 - (k + 1) = min - (k + 1 + 1) := by omega
            rw [e] at hr
            exact hr
    · obtain ⟨p, ht, hp, ha⟩ := ih1 h c' rfl hne
      refine ⟨.rep 0 p, ht, ?_, ?_⟩
      · have := PD.rep id kind n min max 0 [] h p hb1 rfl hp
        simpa using this
      · exact After.rep id kind n min max 0 p c' w2 ha h2'

/-! ### the visitor along a partial derivation -/

theorem walkRepCore_fst (min : Nat) (max : Option Nat) (t : Nat) (o : List Msg) (c : Bool) (o2 : List Msg)
    (c2 : Bool) :
    (walkRepCore min max t (o, c) (o2, c2)).1 = if (c && repHasRoom max t) = true then o ++ o2 else o := by
  unfold walkRepCore
  cases c <;> cases repHasRoom max t <;> cases c2 <;> by_cases hm : t ≥ min <;> simp [hm]

theorem walkRepCore_snd (min : Nat) (max : Option Nat) (t : Nat) (o : List Msg) (c : Bool) (o2 : List Msg)
    (c2 : Bool) :
    (walkRepCore min max t (o, c) (o2, c2)).2 = (c && (!repHasRoom max t || (c2 || decide (min ≤ t)))) := by
  unfold walkRepCore
  cases c <;> cases repHasRoom max t <;> cases c2 <;> by_cases hm : t ≥ min <;> simp [hm] <;> omega

theorem walkOkAlt_get {G : Grammar} : ∀ {ns : List Node} {i : Nat} {n : Node},
    walkOkAlt G ns = true → ns[i]? = some n → walkOk G n = true
  | [], i, n, _, h => by simp at h
  | a :: as, 0, n, hk, h => by
    simp only [List.getElem?_cons_zero, Option.some.injEq] at h
    subst h
    simp only [walkOkAlt, Bool.and_eq_true] at hk
    exact hk.1
  | a :: as, i + 1, n, hk, h => by
    simp only [List.getElem?_cons_succ] at h
    simp only [walkOkAlt, Bool.and_eq_true] at hk
    exact walkOkAlt_get hk.2 h

theorem walkOkCat_get {G : Grammar} : ∀ {ns : List Node} {i : Nat} {n : Node},
    walkOkCat G ns = true → ns[i]? = some n → walkOk G n = true ∧ walkOkCat G (ns.drop (i + 1)) = true
  | [], i, n, _, h => by simp at h
  | a :: as, 0, n, hk, h => by
    simp only [List.getElem?_cons_zero, Option.some.injEq] at h
    subst h
    simp only [walkOkCat, Bool.and_eq_true] at hk
    exact ⟨hk.1.1, by simpa using hk.2⟩
  | a :: as, i + 1, n, hk, h => by
    simp only [List.getElem?_cons_succ] at h
    simp only [walkOkCat, Bool.and_eq_true] at hk
    simpa using walkOkCat_get hk.2 h

/-- what is left of a repetition after `t` iterations (`t` within the upper bound): the visit of a fresh
    iteration is right about it when there is room for one, and nothing but the end can follow when there is not -/
theorem rep_rest {G : Grammar} (hP : Productive G) (ω : String → Walk) (hω : ∀ name, WalkNt G ω name)
    (id : String) (kind : RepKind) (n : Node) (min : Nat) (max : Option Nat) (t : Nat)
    (hb : boundsOk min max = true) (ht : ∀ mx, max = some mx → t ≤ mx) (hkn : walkOk G n = true) :
    (repHasRoom max t = true →
      (∀ m, m ∈ (walkNewWith ω n).1 ↔ ∃ w, GM G (.rep id kind n (min - t) (subMax max t)) (m :: w)) ∧
      (((walkNewWith ω n).2 || decide (min ≤ t)) = true ↔ GM G (.rep id kind n (min - t) (subMax max t)) [])) ∧
    (repHasRoom max t = false → ∀ u, GM G (.rep id kind n (min - t) (subMax max t)) u ↔ u = []) ∧
    ((∃ w0, GM G n w0) → ∃ w, GM G (.rep id kind n (min - t) (subMax max t)) w) := by
  have hb' : boundsOk (min - t) (subMax max t) = true := by
    cases max with
    | none => rfl
    | some mx =>
      simp only [boundsOk, subMax, Option.map_some, decide_eq_true_eq] at hb ⊢
      have := ht mx rfl
      omega
  refine ⟨?_, ?_, ?_⟩
  · intro hroom
    have hmax' : subMax max t ≠ some 0 := by
      cases max with
      | none => simp [subMax]
      | some mx =>
        simp only [repHasRoom, decide_eq_true_eq] at hroom
        simp only [subMax, Option.map_some, ne_eq, Option.some.injEq]
        omega
    have hkR : walkOk G (.rep id kind n (min - t) (subMax max t)) = true := by
      simp only [walkOk, Bool.and_eq_true, bne_iff_ne, ne_eq]
      exact ⟨⟨hb', hmax'⟩, hkn⟩
    have := walkNewWith_ok G hP ω (.rep id kind n (min - t) (subMax max t)) (fun name _ => hω name) hkR
    rw [walkNewWith_rep ω id kind n _ _ hmax'] at this
    have e : decide (min - t = 0) = decide (min ≤ t) := by
      by_cases h : min ≤ t
      · have : min - t = 0 := by omega
        simp [h, this]
      · have : ¬ (min - t = 0) := by omega
        simp [h, this]
    rw [e] at this
    exact this
  · intro hroom u
    cases max with
    | none => simp [repHasRoom] at hroom
    | some mx =>
      simp only [repHasRoom, decide_eq_false_iff_not] at hroom
      have h1 := ht mx rfl
      have hmx : mx - t = 0 := by omega
      have hmin : min - t = 0 := by
        simp only [boundsOk, decide_eq_true_eq] at hb
        omega
      simp only [subMax, Option.map_some, hmx, hmin]
      rw [GM_rep_inv]
      constructor
      · rintro (⟨_, h⟩ | ⟨h, _⟩)
        · exact h
        · exact absurd rfl h
      · rintro rfl; exact Or.inl ⟨rfl, rfl⟩
  · rintro ⟨w0, h0⟩
    exact GM_rep_fill h0 _ _ hb'

/-- **the visitor along a partial derivation offers exactly the first messages of its completions**, and
    returns `continue_exploring = True` exactly when the partial derivation is complete as it stands -/
theorem walkPos_after {G : Grammar} (hP : Productive G) (hW : WalkCert G) (ω : String → Walk)
    (hω : ∀ name, WalkNt G ω name) {n : Node} {h : List Msg} {p : Pos} (hpd : PD G n h p) :
    walkOk G n = true →
    (∀ m, m ∈ (walkPosWith ω G n p).1 ↔ ∃ w, After G n p (m :: w)) ∧
    ((walkPosWith ω G n p).2 = true ↔ After G n p []) := by
  induction hpd with
  | msg name s r =>
    intro _
    simp only [walkPosWith, After_msg_iff]
    simp
  | nt name r body h p hr _ ih =>
    intro _
    have := ih (hW name body hr)
    simp only [walkPosWith, hr, After_nt_iff hr]
    exact this
  | alt id ns i n h p hn _ ih =>
    intro hk
    simp only [walkOk] at hk
    have := ih (walkOkAlt_get hk hn)
    simp only [walkPosWith, hn, After_alt_iff hn]
    exact this
  | cat id ns i n h1 h2 p hn _ hp ih =>
    intro hk
    simp only [walkOk] at hk
    obtain ⟨hkn, hkr⟩ := walkOkCat_get hk hn
    have ih' := ih hkn
    have hrest := walkNewCat_ok G hP ω (ns.drop (i + 1)) id (fun name _ => hω name) hkr
    obtain ⟨wr, hwr⟩ := cat_word hP id (ns.drop (i + 1)) hkr
    simp only [walkPosWith, hn]
    cases hwp : walkPosWith ω G n p with
    | mk o c =>
      cases hwc : walkNewCat ω (ns.drop (i + 1)) with
      | mk o2 c2 =>
        rw [hwp] at ih'
        rw [hwc] at hrest
        simp only at ih' hrest
        cases c with
        | true =>
          have hnil : After G n p [] := ih'.2.1 rfl
          simp only [if_true]
          constructor
          · intro m
            rw [List.mem_append, ih'.1 m, hrest.1 m]
            constructor
            · rintro (⟨w, hw⟩ | ⟨w, hw⟩)
              · exact ⟨w ++ wr, (After_cat_iff hn).2 ⟨m :: w, wr, rfl, hw, hwr⟩⟩
              · exact ⟨w, (After_cat_iff hn).2 ⟨[], m :: w, rfl, hnil, hw⟩⟩
            · rintro ⟨w, hw⟩
              obtain ⟨u1, u2, he, hu1, hu2⟩ := (After_cat_iff hn).1 hw
              cases u1 with
              | nil =>
                simp only [List.nil_append] at he
                subst he
                exact Or.inr ⟨w, hu2⟩
              | cons x u1' =>
                simp only [List.cons_append, List.cons.injEq] at he
                obtain ⟨rfl, rfl⟩ := he
                exact Or.inl ⟨u1', hu1⟩
          · rw [hrest.2]
            constructor
            · intro hg; exact (After_cat_iff hn).2 ⟨[], [], rfl, hnil, hg⟩
            · intro ha
              obtain ⟨u1, u2, he, _, hu2⟩ := (After_cat_iff hn).1 ha
              have := append_eq_nil_right he
              subst this
              exact hu2
        | false =>
          have hnn : ¬ After G n p [] := fun ha => by
            have := ih'.2.2 ha
            cases this
          simp only [Bool.false_eq_true, if_false]
          constructor
          · intro m
            rw [ih'.1 m]
            constructor
            · rintro ⟨w, hw⟩
              exact ⟨w ++ wr, (After_cat_iff hn).2 ⟨m :: w, wr, rfl, hw, hwr⟩⟩
            · rintro ⟨w, hw⟩
              obtain ⟨u1, u2, he, hu1, _⟩ := (After_cat_iff hn).1 hw
              cases u1 with
              | nil => exact absurd hu1 hnn
              | cons x u1' =>
                simp only [List.cons_append, List.cons.injEq] at he
                obtain ⟨rfl, rfl⟩ := he
                exact ⟨u1', hu1⟩
          · constructor
            · intro hc; cases hc
            · intro ha
              obtain ⟨u1, u2, he, hu1, _⟩ := (After_cat_iff hn).1 ha
              have := append_eq_nil_left he
              subst this
              exact absurd hu1 hnn
  | rep id kind n min max k h1 h2 p hb _ hp ih =>
    intro hk
    simp only [walkOk, Bool.and_eq_true, bne_iff_ne, ne_eq] at hk
    obtain ⟨⟨hbo, _⟩, hkn⟩ := hk
    have ih' := ih hkn
    obtain ⟨hroomT, hroomF, hfill⟩ := rep_rest hP ω hω id kind n min max (k + 1) hbo hb hkn
    simp only [walkPosWith]
    cases hwp : walkPosWith ω G n p with
    | mk o c =>
      cases hwn : walkNewWith ω n with
      | mk o2 c2 =>
        rw [hwp] at ih'
        rw [hwn] at hroomT
        simp only at ih' hroomT
        rw [walkRepCore_fst, walkRepCore_snd]
        -- a completion of the last iteration can be followed by the remaining iterations
        have hext : ∀ m w, After G n p (m :: w) →
            ∃ w', After G (.rep id kind n min max) (.rep k p) (m :: w') := by
          intro m w hw
          obtain ⟨wr, hwr⟩ := hfill ⟨_, PD_after_GM hp _ hw⟩
          exact ⟨w ++ wr, After_rep_iff.2 ⟨m :: w, wr, rfl, hw, hwr⟩⟩
        cases c with
        | false =>
          have hnn : ¬ After G n p [] := fun ha => by
            have := ih'.2.2 ha
            cases this
          simp only [Bool.false_and, Bool.false_eq_true, if_false]
          constructor
          · intro m
            rw [ih'.1 m]
            constructor
            · rintro ⟨w, hw⟩; exact hext m w hw
            · rintro ⟨w, hw⟩
              obtain ⟨u1, u2, he, hu1, _⟩ := After_rep_iff.1 hw
              cases u1 with
              | nil => exact absurd hu1 hnn
              | cons x u1' =>
                simp only [List.cons_append, List.cons.injEq] at he
                obtain ⟨rfl, rfl⟩ := he
                exact ⟨u1', hu1⟩
          · constructor
            · intro hc; cases hc
            · intro ha
              obtain ⟨u1, u2, he, hu1, _⟩ := After_rep_iff.1 ha
              have := append_eq_nil_left he
              subst this
              exact absurd hu1 hnn
        | true =>
          have hnil : After G n p [] := ih'.2.1 rfl
          cases hroom : repHasRoom max (k + 1) with
          | true =>
            obtain ⟨hfirst, hnull⟩ := hroomT hroom
            simp only [Bool.and_self, if_true, Bool.not_true, Bool.false_or, Bool.true_and]
            constructor
            · intro m
              rw [List.mem_append, ih'.1 m, hfirst m]
              constructor
              · rintro (⟨w, hw⟩ | ⟨w, hw⟩)
                · exact hext m w hw
                · exact ⟨w, After_rep_iff.2 ⟨[], m :: w, rfl, hnil, hw⟩⟩
              · rintro ⟨w, hw⟩
                obtain ⟨u1, u2, he, hu1, hu2⟩ := After_rep_iff.1 hw
                cases u1 with
                | nil =>
                  simp only [List.nil_append] at he
                  subst he
                  exact Or.inr ⟨w, hu2⟩
                | cons x u1' =>
                  simp only [List.cons_append, List.cons.injEq] at he
                  obtain ⟨rfl, rfl⟩ := he
                  exact Or.inl ⟨u1', hu1⟩
            · rw [hnull]
              constructor
              · intro hg; exact After_rep_iff.2 ⟨[], [], rfl, hnil, hg⟩
              · intro ha
                obtain ⟨u1, u2, he, _, hu2⟩ := After_rep_iff.1 ha
                have := append_eq_nil_right he
                subst this
                exact hu2
          | false =>
            have hend := hroomF hroom
            simp only [Bool.and_false, Bool.false_eq_true, if_false, Bool.not_false, Bool.true_or,
              Bool.and_self, true_iff]
            constructor
            · intro m
              rw [ih'.1 m]
              constructor
              · rintro ⟨w, hw⟩
                exact ⟨w, After_rep_iff.2 ⟨m :: w, [], by simp, hw, (hend []).2 rfl⟩⟩
              · rintro ⟨w, hw⟩
                obtain ⟨u1, u2, he, hu1, hu2⟩ := After_rep_iff.1 hw
                have := (hend u2).1 hu2
                subst this
                simp only [List.append_nil] at he
                subst he
                exact ⟨w, hu1⟩
            · exact After_rep_iff.2 ⟨[], [], rfl, hnil, (hend []).2 rfl⟩
  | rep0 id kind n min max =>
    intro hk
    have := walkNewWith_ok G hP ω (.rep id kind n min max) (fun name _ => hω name) hk
    simp only [walkNewWith] at this
    simp only [walkPosWith, After_rep0_iff]
    exact this

/-! ### the forecast over a set of partial derivations -/

/-- what the forecast needs of the partial trees the prefix parse hands to the visitor (their right spines `ps`):
    every one of them is a partial derivation of the history (SOUNDNESS of the prefix parse), and every derivation
    that extends the history extends one of them (COMPLETENESS of the prefix parse: it completes one of the
    partial derivations handed over).  Between the two the set is free: how far a yielded tree descends into
    children that matched nothing, and which of several partial derivations with the same completions is
    yielded, does not matter. -/
structure PositionsExact (G : Grammar) (start : Node) (h : List Msg) (ps : List Pos) : Prop where
  sound : ∀ p, p ∈ ps → PD G start h p
  complete : ∀ w, GM G start (h ++ w) → ∃ p, p ∈ ps ∧ After G start p w

/-- sufficient for completeness (non-empty history): every partial derivation whose spine ends at the last
    message is handed over -/
theorem PositionsExact.of_tight {G : Grammar} {start : Node} {h : List Msg} {ps : List Pos} (hne : h ≠ [])
    (hs : ∀ p, p ∈ ps → PD G start h p) (ht : ∀ p, p.tight = true → PD G start h p → p ∈ ps) :
    PositionsExact G start h ps :=
  ⟨hs, fun w hw => by
    obtain ⟨p, hpt, hpd, ha⟩ := GM_cut hw h w rfl hne
    exact ⟨p, ht p hpt hpd, ha⟩⟩

theorem NoLeftRec.mono {G : Grammar} {rank : String → Nat} {F F' : Nat} (hL : NoLeftRec G rank F)
    (hF : F ≤ F') : NoLeftRec G rank F' := by
  intro name body hr
  have := hL name body hr
  exact ⟨by omega, this.2⟩

theorem codeNextsOn_iff {G : Grammar} {rank : String → Nat} {F : Nat} {start : Node} (hL : NoLeftRec G rank F)
    (hP : Productive G) (hW : WalkCert G) (hn : walkOk G start = true) {h : List Msg}
    {ps : List Pos} (hE : PositionsExact G start h ps) (m : Msg) :
    m ∈ codeNextsOn G F start ps ↔ Cont G start h m := by
  have hω : ∀ name, WalkNt G (walkNewTab G F []) name := fun name => walkNewTab_ok_all hL hP hW name
  unfold codeNextsOn dedupM Cont
  simp only [List.mem_eraseDups, List.mem_flatMap]
  constructor
  · rintro ⟨p, hp, hm⟩
    have hpd := hE.sound p hp
    obtain ⟨w, hw⟩ := ((walkPos_after hP hW _ hω hpd hn).1 m).1 hm
    exact ⟨w, PD_after_GM hpd _ hw⟩
  · rintro ⟨w, hw⟩
    obtain ⟨p, hp, ha⟩ := hE.complete (m :: w) hw
    exact ⟨p, hp, ((walkPos_after hP hW _ hω (hE.sound p hp) hn).1 m).2 ⟨w, ha⟩⟩

theorem codeNexts_cons (G : Grammar) (F : Nat) (start : Node) (x : Msg) (h : List Msg) :
    codeNexts G F start (x :: h) = codeNextsOn G F start (positions G F start (x :: h)) := rfl

end Fc
end FV
