/-
`positions` (Model/Forecast.lean) is COMPLETE for the message-level partial derivations, given enough fuel: every
derivation that extends a non-empty history `h` completes a spine that `positions G F start h` computes
(`positions_complete`: the half `PositionsExact.complete` for the model's own positions), provided
`(h.length + 1) * B ≤ F` where `B` bounds the ranks of the no-left-recursion certificate.

  * `CPD` - compact partial derivations: the spine ends at the last message, and inside a repetition every complete
    iteration before the spine is non-empty (`RepNE`); `GM_cut_compact`: every derivation that extends `h ≠ []` can
    be cut into one (empty iterations in front of the spine are moved behind it);
  * `fullWith_complete` / `fullTab_complete`: the complete matches with remainder find every derivation, the
    tables with fuel above the measure `word length * B + rank` (a nonterminal is unfolded either in head position -
    the rank drops - or after a message has been consumed - the word gets shorter);
  * `posWith_complete` / `posTab_complete`: every compact partial derivation is computed.
-/
import Proofs.ForecastPosSound
namespace FV
namespace Fc

/-! ### compact partial derivations -/

/-- `k` non-empty iterations -/
def RepNE (P : List Msg → Prop) : Nat → List Msg → Prop
  | 0, w => w = []
  | k + 1, w => ∃ w1 w2, w = w1 ++ w2 ∧ w1 ≠ [] ∧ P w1 ∧ RepNE P k w2

theorem RepNE_len {P : List Msg → Prop} : ∀ (k : Nat) (w : List Msg), RepNE P k w → k ≤ w.length
  | 0, _, _ => Nat.zero_le _
  | k + 1, w, h => by
    obtain ⟨w1, w2, rfl, hne, _, h2⟩ := h
    have := RepNE_len k w2 h2
    have : 0 < w1.length := List.length_pos_iff.2 hne
    simp only [List.length_append]
    omega

inductive CPD (G : Grammar) : Node → List Msg → Pos → Prop
  | msg (name s r) : CPD G (.nt name (some s) r) [⟨s, r, name⟩] .msg
  | nt (name r body h p) : G.rule name = some body → CPD G body h p → CPD G (.nt name none r) h (.nt p)
  | alt (id ns i n h p) : ns[i]? = some n → CPD G n h p → CPD G (.alt id ns) h (.alt i p)
  | cat (id ns i n h1 h2 p) : ns[i]? = some n → GM G (.cat id (ns.take i)) h1 → CPD G n h2 p →
      CPD G (.cat id ns) (h1 ++ h2) (.cat i p)
  | rep (id kind n min max k h1 h2 p) : (∀ mx, max = some mx → k + 1 ≤ mx) → RepNE (GM G n) k h1 →
      CPD G n h2 p → CPD G (.rep id kind n min max) (h1 ++ h2) (.rep k p)

theorem CPD_ne {G : Grammar} {n : Node} {h : List Msg} {p : Pos} (hp : CPD G n h p) : h ≠ [] := by
  induction hp with
  | msg => simp
  | nt _ _ _ _ _ _ _ ih => exact ih
  | alt _ _ _ _ _ _ _ _ ih => exact ih
  | cat _ _ _ _ _ _ _ _ _ _ ih => simp [ih]
  | rep _ _ _ _ _ _ _ _ _ _ _ _ ih => simp [ih]

theorem predMax_subMax (max : Option Nat) (j : Nat) : predMax (subMax max j) = subMax (predMax max) j := by
  cases max with
  | none => rfl
  | some m => simp only [subMax, predMax, Option.map_some, Option.some.injEq]; omega

/-- every derivation that extends a non-empty history can be cut behind it into a compact partial derivation -/
theorem GM_cut_compact {G : Grammar} {n : Node} {u : List Msg} (hg : GM G n u) :
    ∀ h w, u = h ++ w → h ≠ [] → ∃ p, CPD G n h p ∧ After G n p w := by
  induction hg with
  | msg name s r =>
    intro h w he hne
    cases h with
    | nil => exact absurd rfl hne
    | cons x h' =>
      simp only [List.cons_append, List.cons.injEq] at he
      obtain ⟨rfl, he'⟩ := he
      have e1 := append_eq_nil_left he'
      have e2 := append_eq_nil_right he'
      subst e1 e2
      exact ⟨.msg, CPD.msg name s r, After.msg name s r⟩
  | unfold name r body u hr _ ih =>
    intro h w he hne
    obtain ⟨p, hp, ha⟩ := ih h w he hne
    exact ⟨.nt p, CPD.nt name r body h p hr hp, After.nt name r body p w hr ha⟩
  | alt id ns n u hm _ ih =>
    intro h w he hne
    obtain ⟨p, hp, ha⟩ := ih h w he hne
    obtain ⟨i, hi⟩ := List.mem_iff_getElem?.1 hm
    exact ⟨.alt i p, CPD.alt id ns i n h p hi hp, After.alt id ns i n p w hi ha⟩
  | catNil id =>
    intro h w he hne
    exact absurd (append_eq_nil_left he) hne
  | catCons id n ns w1 w2 h1 h2 ih1 ih2 =>
    intro h w he hne
    rcases List.append_eq_append_iff.1 he with ⟨a', rfl, rfl⟩ | ⟨c', rfl, rfl⟩
    · by_cases ha' : a' = []
      · subst ha'
        have hne1 : w1 ≠ [] := by simpa using hne
        obtain ⟨p, hp, ha⟩ := ih1 w1 [] (by simp) hne1
        refine ⟨.cat 0 p, ?_, ?_⟩
        · have := CPD.cat id (n :: ns) 0 n [] w1 p rfl (by simpa using GM.catNil id) hp
          simpa using this
        · have := After.cat id (n :: ns) 0 n p [] w rfl ha (by simpa using h2)
          simpa using this
      · obtain ⟨p', hp, ha⟩ := ih2 a' w rfl ha'
        cases hp with
        | cat _ _ i n' g1 g2 p'' hn' hl hp'' =>
          refine ⟨.cat (i + 1) p'', ?_, ?_⟩
          · have := CPD.cat id (n :: ns) (i + 1) n' (w1 ++ g1) g2 p'' (by simpa using hn')
              (by simpa using GM.catCons id n (ns.take i) w1 g1 h1 hl) hp''
            simpa using this
          · obtain ⟨u1, u2, rfl, hb, hr⟩ := (After_cat_iff hn').1 ha
            exact After.cat id (n :: ns) (i + 1) n' p'' u1 u2 (by simpa using hn') hb (by simpa using hr)
    · obtain ⟨p, hp, ha⟩ := ih1 h c' rfl hne
      refine ⟨.cat 0 p, ?_, ?_⟩
      · have := CPD.cat id (n :: ns) 0 n [] h p rfl (by simpa using GM.catNil id) hp
        simpa using this
      · exact After.cat id (n :: ns) 0 n p c' w2 rfl ha (by simpa using h2)
  | repNil id kind n max =>
    intro h w he hne
    exact absurd (append_eq_nil_left he) hne
  | repCons id kind n min max w1 w2 hmax h1 h2 ih1 ih2 =>
    intro h w he hne
    have hb1 : ∀ mx, max = some mx → 0 + 1 ≤ mx := by
      intro mx hmx
      have : mx ≠ 0 := fun h0 => hmax (by rw [hmx, h0])
      omega
    have h2' : GM G (.rep id kind n (min - (0 + 1)) (subMax max (0 + 1))) w2 := by
      rw [Nat.zero_add, subMax_one]; exact h2
    rcases List.append_eq_append_iff.1 he with ⟨a', rfl, rfl⟩ | ⟨c', rfl, rfl⟩
    · by_cases ha' : a' = []
      · subst ha'
        have hne1 : w1 ≠ [] := by simpa using hne
        obtain ⟨p, hp, ha⟩ := ih1 w1 [] (by simp) hne1
        refine ⟨.rep 0 p, ?_, ?_⟩
        · have := CPD.rep id kind n min max 0 [] w1 p hb1 rfl hp
          simpa using this
        · have := After.rep id kind n min max 0 p [] w ha h2'
          simpa using this
      · obtain ⟨p', hp, ha⟩ := ih2 a' w rfl ha'
        cases hp with
        | rep _ _ _ _ _ k g1 g2 p'' hb hk hp'' =>
          have hbk : ∀ mx, max = some mx → k + 1 + 1 ≤ mx := by
            intro mx hmx
            have := hb (mx - 1) (by simp [predMax, hmx])
            have : mx ≠ 0 := fun h0 => hmax (by rw [hmx, h0])
            omega
          obtain ⟨u1, u2, rfl, hb', hr⟩ := After_rep_iff.1 ha
          by_cases hw1 : w1 = []
          · -- an empty iteration in front of the spine: it is moved behind it
            subst hw1
            refine ⟨.rep k p'', ?_, ?_⟩
            · have := CPD.rep id kind n min max k g1 g2 p'' (by
                intro mx hmx; have := hbk mx hmx; omega) hk hp''
              simpa using this
            · refine After.rep id kind n min max k p'' u1 u2 hb' ?_
              have hne0 : subMax max (k + 1) ≠ some 0 := by
                cases max with
                | none => simp [subMax]
                | some mx =>
                  have := hbk mx rfl
                  simp only [subMax, Option.map_some, ne_eq, Option.some.injEq]
                  omega
              have := GM.repCons id kind n (min - (k + 1)) (subMax max (k + 1)) [] u2 hne0 h1 (by
                rw [predMax_subMax]
                have e : min - (k + 1) - 1 = min - 1 - (k + 1) := by omega
                rw [e]
                exact hr)
              simpa using this
          · refine ⟨.rep (k + 1) p'', ?_, ?_⟩
            · have := CPD.rep id kind n min max (k + 1) (w1 ++ g1) g2 p'' hbk ⟨w1, g1, rfl, hw1, h1, hk⟩ hp''
              simpa using this
            · refine After.rep id kind n min max (k + 1) p'' u1 u2 hb' ?_
              rw [subMax_pred] at hr
              have e : min - 1 - (k + 1) = min - (k + 1 + 1) := by omega
              rw [e] at hr
              exact hr
    · obtain ⟨p, hp, ha⟩ := ih1 h c' rfl hne
      refine ⟨.rep 0 p, ?_, ?_⟩
      · have := CPD.rep id kind n min max 0 [] h p hb1 rfl hp
        simpa using this
      · exact After.rep id kind n min max 0 p c' w2 ha h2'

/-! ### the fuel measure -/

theorem mul_mono_len {a b : Nat} (B : Nat) (h : a ≤ b) : a * B ≤ b * B := Nat.mul_le_mul_right B h

theorem mul_step_len {a b : Nat} (B : Nat) (h : a < b) : a * B + B ≤ b * B := by
  have := Nat.mul_le_mul_right B (Nat.succ_le_of_lt h)
  rw [Nat.succ_mul] at this
  exact this

/-- every nonterminal with a rule has a rank below `B` -/
def RankB (G : Grammar) (rank : String → Nat) (B : Nat) : Prop := ∀ x, G.rule x ≠ none → rank x < B

theorem NoLeftRec.rankB {G : Grammar} {rank : String → Nat} {B : Nat} (hL : NoLeftRec G rank B) :
    RankB G rank B := by
  intro x hx
  cases hr : G.rule x with
  | none => exact absurd hr hx
  | some body => exact (hL x body hr).1

/-- the table `φ` finds every derivation of a nonterminal whose measure `word length * B + rank` is below `M` -/
def FullGood (G : Grammar) (rank : String → Nat) (B : Nat) (φ : String → List Msg → List (List Msg))
    (M : Nat) : Prop :=
  ∀ x v r, GM G (.nt x none none) v → v.length * B + rank x < M → r ∈ φ x (v ++ r)

/-- what is asked of the fuel `M` for a list of head nonterminals and a word of length `len` -/
def Below (G : Grammar) (rank : String → Nat) (B : Nat) (hs : List String) (len M : Nat) : Prop :=
  len * B ≤ M ∧ ∀ x, x ∈ hs → G.rule x ≠ none → len * B + rank x < M

theorem Below.mono {G : Grammar} {rank : String → Nat} {B : Nat} {hs hs' : List String} {len len' M : Nat}
    (h : Below G rank B hs len M) (hl : len' ≤ len) (hsub : ∀ x, x ∈ hs' → x ∈ hs) :
    Below G rank B hs' len' M := by
  have := mul_mono_len B hl
  refine ⟨by have := h.1; omega, ?_⟩
  intro x hx hr
  have := h.2 x (hsub x hx) hr
  omega

/-- behind a message the word is shorter: every nonterminal is below the fuel -/
theorem Below.shorter {G : Grammar} {rank : String → Nat} {B : Nat} {hs hs' : List String} {len len' M : Nat}
    (hB : RankB G rank B) (h : Below G rank B hs len M) (hl : len' < len) : Below G rank B hs' len' M := by
  have := mul_step_len B hl
  refine ⟨by have := h.1; omega, ?_⟩
  intro x _ hr
  have := hB x hr
  have := h.1
  omega

theorem heads_sub_alt {n : Node} {ns : List Node} (hn : n ∈ ns) : ∀ x, x ∈ heads n → x ∈ headsAlt ns := by
  induction ns with
  | nil => cases hn
  | cons a as ih =>
    intro x hx
    simp only [headsAlt, List.mem_append]
    rcases List.mem_cons.1 hn with rfl | h
    · exact Or.inl hx
    · exact Or.inr (ih h x hx)

theorem GM_nt_has_rule {G : Grammar} {x : String} {r : Option String} {v : List Msg}
    (h : GM G (.nt x none r) v) : G.rule x ≠ none := by
  obtain ⟨body, hb, _⟩ := GM_nt_iff.1 h
  rw [hb]; simp

/-! ### complete matches find every derivation -/

/-- the count of a repetition can be lowered to the number of its non-empty iterations (or anything above) -/
theorem RepM_drop_empty {P : List Msg → Prop} : ∀ (j : Nat) (u : List Msg), RepM P j u →
    ∃ j0, j0 ≤ u.length ∧ j0 ≤ j ∧ ∀ j', j0 ≤ j' → j' ≤ j → RepM P j' u
  | 0, u, h => ⟨0, Nat.zero_le _, Nat.le_refl _, fun j' _ h2 => by
      have : j' = 0 := by omega
      subst this; exact h⟩
  | j + 1, u, h => by
    obtain ⟨w1, w2, rfl, h1, h2⟩ := h
    obtain ⟨j0, hl, hj, hall⟩ := RepM_drop_empty j w2 h2
    by_cases hw : w1 = []
    · subst hw
      refine ⟨j0, by simpa using hl, by omega, ?_⟩
      intro j' h0 h1'
      by_cases hj' : j' ≤ j
      · simpa using hall j' h0 hj'
      · have : j' = j + 1 := by omega
        subst this
        exact ⟨[], w2, rfl, h1, h2⟩
    · have hpos : 0 < w1.length := List.length_pos_iff.2 hw
      refine ⟨j0 + 1, by simp only [List.length_append]; omega, by omega, ?_⟩
      intro j' h0 h1'
      obtain ⟨j'', rfl⟩ : ∃ j'', j' = j'' + 1 := ⟨j' - 1, by omega⟩
      exact ⟨w1, w2, rfl, h1, hall j'' (by omega) (by omega)⟩

theorem iterRemAux_complete {G : Grammar} {n : Node} (step : List Msg → List (List Msg)) (len : Nat)
    (hstep : ∀ b c, GM G n b → b.length ≤ len → c ∈ step (b ++ c)) (min maxv : Nat) :
    ∀ (d fuel k : Nat) (inps : List (List Msg)) (i u r : List Msg), i ∈ inps → i = u ++ r →
      RepM (GM G n) d u → u.length ≤ len → min ≤ k + d → k + d ≤ maxv → d < fuel →
      r ∈ iterRemAux step min maxv fuel k inps
  | 0, fuel, k, inps, i, u, r, hi, he, hr, _, hmin, hmax, hf => by
    obtain ⟨fuel', rfl⟩ : ∃ f', fuel = f' + 1 := ⟨fuel - 1, by omega⟩
    simp only [RepM] at hr
    subst hr
    simp only [List.nil_append] at he
    subst he
    simp only [iterRemAux, List.mem_append]
    left
    have : min ≤ k ∧ k ≤ maxv := ⟨by omega, by omega⟩
    simp [this, hi]
  | d + 1, fuel, k, inps, i, u, r, hi, he, hr, hl, hmin, hmax, hf => by
    obtain ⟨fuel', rfl⟩ : ∃ f', fuel = f' + 1 := ⟨fuel - 1, by omega⟩
    obtain ⟨w1, u', rfl, h1, hr'⟩ := hr
    simp only [List.length_append] at hl
    simp only [iterRemAux, List.mem_append]
    right
    have hne : ¬ inps.isEmpty = true := by
      intro hemp
      have := List.isEmpty_iff.1 hemp
      subst this
      cases hi
    have hc : k < maxv ∧ ¬ inps.isEmpty = true := ⟨by omega, hne⟩
    rw [if_pos hc]
    have hi' : u' ++ r ∈ (inps.flatMap step).eraseDups := by
      rw [List.mem_eraseDups, List.mem_flatMap]
      refine ⟨i, hi, ?_⟩
      rw [he, List.append_assoc]
      exact hstep w1 (u' ++ r) h1 (by omega)
    exact iterRemAux_complete step len hstep min maxv d fuel' (k + 1) _ (u' ++ r) u' r hi' rfl hr' (by omega)
      (by omega) (by omega) (by omega)

mutual
theorem fullWith_complete (G : Grammar) (rank : String → Nat) (B : Nat)
    (φ : String → List Msg → List (List Msg)) (M : Nat) (hB : RankB G rank B) (hφ : FullGood G rank B φ M) :
    ∀ (n : Node) (u r : List Msg), GM G n u → Below G rank B (heads n) u.length M → r ∈ fullWith φ n (u ++ r)
  | .term _, u, r, hg, _ => absurd hg GM_term
  | .nt name s rc, u, r, hg, hb => by
    cases s with
    | some s =>
      have := GM_msg_iff.1 hg
      subst this
      simp [fullWith, isMsg]
    | none =>
      simp only [fullWith, Option.isSome_none, Bool.false_eq_true, if_false]
      exact hφ name u r ((GM_nt_recipient rc none).1 hg) (hb.2 name (by simp [heads]) (GM_nt_has_rule hg))
  | .alt id ns, u, r, hg, hb => by
    simp only [fullWith]
    obtain ⟨n, hn, hgn⟩ := GM_alt_iff.1 hg
    exact fullAltWith_complete G rank B φ M hB hφ ns n u r hn hgn (by simpa [heads] using hb)
  | .cat id ns, u, r, hg, hb => by
    simp only [fullWith]
    exact fullCatWith_complete G rank B φ M hB hφ ns id [u ++ r] (u ++ r) u r (by simp) rfl hg
      (by simpa [heads] using hb)
  | .rep id kind n min max, u, r, hg, hb => by
    simp only [fullWith]
    obtain ⟨j, hj, hrj⟩ := (GM_rep_iff_repM G id kind n u min max).1 hg
    obtain ⟨j0, hl0, hj0, hall⟩ := RepM_drop_empty j u hrj
    have hb' : Below G rank B (heads n) u.length M := by simpa [heads] using hb
    -- the count used: the number of non-empty iterations, but at least `min`
    have hjm := hj.1
    obtain ⟨J, hJ1, hJ2, hJ3, hJ4⟩ : ∃ J, min ≤ J ∧ j0 ≤ J ∧ J ≤ j ∧ J ≤ u.length + min :=
      ⟨Nat.max min j0, Nat.le_max_left _ _, Nat.le_max_right _ _, Nat.max_le.2 ⟨hjm, hj0⟩,
        Nat.max_le.2 ⟨by omega, by omega⟩⟩
    refine iterRemAux_complete (fullWith φ n) u.length ?_ min _ J _ 0 [u ++ r] (u ++ r) u r
      (by simp) rfl (hall J hJ2 hJ3) (Nat.le_refl _) ?_ ?_ ?_
    · intro b c hgb hlb
      exact fullWith_complete G rank B φ M hB hφ n b c hgb (hb'.mono hlb (fun _ h => h))
    · omega
    · cases max with
      | none => simp only [parseMax, List.length_append]; omega
      | some mx =>
        have := hj.2 mx rfl
        simp only [parseMax]; omega
    · simp only [List.length_append]; omega
theorem fullAltWith_complete (G : Grammar) (rank : String → Nat) (B : Nat)
    (φ : String → List Msg → List (List Msg)) (M : Nat) (hB : RankB G rank B) (hφ : FullGood G rank B φ M) :
    ∀ (ns : List Node) (n : Node) (u r : List Msg), n ∈ ns → GM G n u →
      Below G rank B (headsAlt ns) u.length M → r ∈ fullAltWith φ ns (u ++ r)
  | [], _, _, _, hn, _, _ => by cases hn
  | a :: as, n, u, r, hn, hg, hb => by
    simp only [fullAltWith, List.mem_append]
    rcases List.mem_cons.1 hn with h | hn'
    · left
      rw [h] at hg
      exact fullWith_complete G rank B φ M hB hφ a u r hg
        (hb.mono (Nat.le_refl _) (fun x hx => by simp [headsAlt, hx]))
    · right
      exact fullAltWith_complete G rank B φ M hB hφ as n u r hn' hg
        (hb.mono (Nat.le_refl _) (fun x hx => by simp [headsAlt, hx]))
theorem fullCatWith_complete (G : Grammar) (rank : String → Nat) (B : Nat)
    (φ : String → List Msg → List (List Msg)) (M : Nat) (hB : RankB G rank B) (hφ : FullGood G rank B φ M) :
    ∀ (ns : List Node) (id : String) (inps : List (List Msg)) (i u r : List Msg), i ∈ inps → i = u ++ r →
      GM G (.cat id ns) u → Below G rank B (headsCat ns) u.length M → r ∈ fullCatWith φ ns inps
  | [], id, inps, i, u, r, hi, he, hg, _ => by
    have := GM_cat_nil_iff.1 hg
    subst this
    simp only [List.nil_append] at he
    subst he
    simpa [fullCatWith] using hi
  | a :: as, id, inps, i, u, r, hi, he, hg, hb => by
    obtain ⟨u1, u2, rfl, h1, h2⟩ := GM_cat_cons_iff.1 hg
    simp only [fullCatWith]
    simp only [List.length_append] at hb
    have hba : Below G rank B (heads a) u1.length M :=
      hb.mono (by omega) (fun x hx => by
        by_cases hc : consumes a = true <;> simp [headsCat, hc, hx])
    have hi' : u2 ++ r ∈ (inps.flatMap (fullWith φ a)).eraseDups := by
      rw [List.mem_eraseDups, List.mem_flatMap]
      refine ⟨i, hi, ?_⟩
      rw [he, List.append_assoc]
      exact fullWith_complete G rank B φ M hB hφ a u1 (u2 ++ r) h1 hba
    have hbas : Below G rank B (headsCat as) u2.length M := by
      by_cases hc : consumes a = true
      · have hne : u1 ≠ [] := fun h0 => consumes_not_nil G a hc (h0 ▸ h1)
        have : 0 < u1.length := List.length_pos_iff.2 hne
        exact hb.shorter hB (by omega)
      · exact hb.mono (by omega) (fun x hx => by simp [headsCat, hc, hx])
    exact fullCatWith_complete G rank B φ M hB hφ as id _ (u2 ++ r) u2 r hi' rfl h2 hbas
end

/-- the table of complete matches at fuel `f` finds every derivation whose measure is below `f` -/
theorem fullTab_complete {G : Grammar} {rank : String → Nat} {B : Nat} (hL : NoLeftRec G rank B) :
    ∀ f, FullGood G rank B (fullTab G f) f
  | 0 => by intro x v r _ h; omega
  | f + 1 => by
    intro x v r hg hm
    obtain ⟨body, hr, hb⟩ := GM_nt_iff.1 hg
    simp only [fullTab, hr]
    refine fullWith_complete G rank B (fullTab G f) f hL.rankB (fullTab_complete hL f) body v r hb ⟨by omega, ?_⟩
    intro y hy _
    have := (hL x body hr).2 y hy
    omega

theorem FullGood.mono {G : Grammar} {rank : String → Nat} {B : Nat} {φ : String → List Msg → List (List Msg)}
    {M M' : Nat} (h : FullGood G rank B φ M) (hm : M' ≤ M) : FullGood G rank B φ M' :=
  fun x v r hg hlt => h x v r hg (by omega)

/-! ### every compact partial derivation is computed -/

theorem Below.of_big {G : Grammar} {rank : String → Nat} {B : Nat} (hB : RankB G rank B) (hs : List String)
    {len M : Nat} (h : (len + 1) * B ≤ M) : Below G rank B hs len M := by
  rw [Nat.succ_mul] at h
  refine ⟨by omega, ?_⟩
  intro x _ hr
  have := hB x hr
  omega

/-- the table `ψ` holds every compact partial derivation of a rule body whose measure is below `M`
    (histories of at most `L` messages) -/
def PosGood (G : Grammar) (rank : String → Nat) (B L : Nat) (ψ : String → List Msg → List Pos) (M : Nat) : Prop :=
  ∀ x body inp p, G.rule x = some body → CPD G body inp p → inp.length ≤ L →
    inp.length * B + rank x < M → p ∈ ψ x inp

theorem posRepAux_complete {G : Grammar} {n : Node} (step : List Msg → List (List Msg))
    (pos : List Msg → List Pos) (eps : List Pos) (len : Nat)
    (hstep : ∀ b c, GM G n b → b.length ≤ len → c ∈ step (b ++ c)) (maxv : Nat) :
    ∀ (d fuel k : Nat) (inps : List (List Msg)) (r h1 h2 : List Msg) (p' : Pos), r ∈ inps → r = h1 ++ h2 →
      h2 ≠ [] → RepNE (GM G n) d h1 → h1.length ≤ len → k + d < maxv → d < fuel → p' ∈ pos h2 →
      Pos.rep (k + d) p' ∈ posRepAux step pos eps maxv fuel k inps
  | 0, fuel, k, inps, r, h1, h2, p', hr, he, hne, hrep, _, hk, hf, hp => by
    obtain ⟨fuel', rfl⟩ : ∃ f', fuel = f' + 1 := ⟨fuel - 1, by omega⟩
    simp only [RepNE] at hrep
    subst hrep
    simp only [List.nil_append] at he
    subst he
    have hk' : k < maxv := by omega
    simp only [posRepAux, hk', if_true, List.mem_append, Nat.add_zero]
    left; left
    rw [List.mem_flatMap]
    refine ⟨r, ?_, List.mem_map.2 ⟨p', hp, rfl⟩⟩
    rw [List.mem_filter]
    refine ⟨hr, ?_⟩
    cases r with
    | nil => exact absurd rfl hne
    | cons _ _ => simp
  | d + 1, fuel, k, inps, r, h1, h2, p', hr, he, hne, hrep, hl, hk, hf, hp => by
    obtain ⟨fuel', rfl⟩ : ∃ f', fuel = f' + 1 := ⟨fuel - 1, by omega⟩
    obtain ⟨w1, h1', rfl, _, hg1, hrep'⟩ := hrep
    simp only [List.length_append] at hl
    have hk' : k < maxv := by omega
    simp only [posRepAux, hk', if_true, List.mem_append]
    right
    have hr' : h1' ++ h2 ∈ ((inps.flatMap step).eraseDups).filter (fun r => ¬ r.isEmpty) := by
      rw [List.mem_filter, List.mem_eraseDups, List.mem_flatMap]
      refine ⟨⟨r, hr, ?_⟩, ?_⟩
      · rw [he, List.append_assoc]
        exact hstep w1 (h1' ++ h2) hg1 (by omega)
      · cases h2 with
        | nil => exact absurd rfl hne
        | cons _ _ => cases h1' <;> simp
    have := posRepAux_complete step pos eps len hstep maxv d fuel' (k + 1) _ (h1' ++ h2) h1' h2 p' hr' rfl hne
      hrep' (by omega) (by omega) (by omega) hp
    have e : k + (d + 1) = k + 1 + d := by omega
    rw [e]
    exact this

mutual
theorem posWith_complete (G : Grammar) (rank : String → Nat) (B L : Nat)
    (φ : String → List Msg → List (List Msg)) (ψ : String → List Msg → List Pos) (ε : String → List Pos)
    (Mφ M : Nat) (hB : RankB G rank B) (hφ : FullGood G rank B φ Mφ) (hψ : PosGood G rank B L ψ M)
    (hL : (L + 1) * B ≤ Mφ) :
    ∀ (n : Node) (inp : List Msg) (p : Pos), CPD G n inp p → inp.length ≤ L →
      Below G rank B (heads n) inp.length M → p ∈ posWith φ ψ ε n inp
  | .term _, inp, p, hp, _, _ => by cases hp
  | .nt name s rc, inp, p, hp, hl, hb => by
    cases s with
    | some s =>
      cases hp
      simp [posWith, isMsg]
    | none =>
      cases hp with
      | nt _ _ body _ p' hr hbody =>
        simp only [posWith, Option.isSome_none, Bool.false_eq_true, if_false, List.mem_map]
        refine ⟨p', hψ name body inp p' hr hbody hl (hb.2 name (by simp [heads]) (by rw [hr]; simp)), rfl⟩
  | .alt id ns, inp, p, hp, hl, hb => by
    cases hp with
    | alt _ _ i n' _ p' hn' hp' =>
      simp only [posWith]
      have := posAltWith_complete G rank B L φ ψ ε Mφ M hB hφ hψ hL ns 0 i n' inp p' hn' hp' hl
        (by simpa [heads] using hb)
      simpa using this
  | .cat id ns, inp, p, hp, hl, hb => by
    cases hp with
    | cat _ _ i n' h1 h2 p' hn' hleft hp' =>
      simp only [posWith]
      have := posCatWith_complete G rank B L φ ψ ε Mφ M hB hφ hψ hL ns id 0 [h1 ++ h2] (h1 ++ h2) i n' h1 h2 p'
        (by simp) rfl hn' hleft hp' hl (by simpa [heads] using hb)
      simpa using this
  | .rep id kind n min max, inp, p, hp, hl, hb => by
    cases hp with
    | rep _ _ _ _ _ k h1 h2 p' hbd hrep hp' =>
      simp only [posWith]
      have hb' : Below G rank B (heads n) (h1 ++ h2).length M := by simpa [heads] using hb
      simp only [List.length_append] at hl hb'
      have hin : p' ∈ posWith φ ψ ε n h2 :=
        posWith_complete G rank B L φ ψ ε Mφ M hB hφ hψ hL n h2 p' hp' (by omega)
          (hb'.mono (by omega) (fun _ h => h))
      have hklen := RepNE_len k h1 hrep
      have := posRepAux_complete (fullWith φ n) (posWith φ ψ ε n) (epsWith φ ε n) (h1 ++ h2).length
        (fun b c hgb hlb => fullWith_complete G rank B φ Mφ hB hφ n b c hgb
          (Below.of_big hB _ (Nat.le_trans (Nat.mul_le_mul_right B (by
            simp only [List.length_append] at hlb; omega)) hL)))
        (parseMax max ((h1 ++ h2).length + 1)) k ((h1 ++ h2).length + 1) 0 [h1 ++ h2] (h1 ++ h2) h1 h2 p'
        (by simp) rfl (CPD_ne hp') hrep (by simp) (by
          cases max with
          | none => simp only [parseMax, List.length_append]; omega
          | some mx => have := hbd mx rfl; simp only [parseMax]; omega)
        (by simp only [List.length_append]; omega) hin
      simpa using this
theorem posAltWith_complete (G : Grammar) (rank : String → Nat) (B L : Nat)
    (φ : String → List Msg → List (List Msg)) (ψ : String → List Msg → List Pos) (ε : String → List Pos)
    (Mφ M : Nat) (hB : RankB G rank B) (hφ : FullGood G rank B φ Mφ) (hψ : PosGood G rank B L ψ M)
    (hL : (L + 1) * B ≤ Mφ) :
    ∀ (ns : List Node) (i0 j : Nat) (n' : Node) (inp : List Msg) (p' : Pos), ns[j]? = some n' →
      CPD G n' inp p' → inp.length ≤ L → Below G rank B (headsAlt ns) inp.length M →
      Pos.alt (i0 + j) p' ∈ posAltWith φ ψ ε ns i0 inp
  | [], _, j, _, _, _, hn, _, _, _ => by simp at hn
  | a :: as, i0, 0, n', inp, p', hn, hp, hl, hb => by
    simp only [List.getElem?_cons_zero, Option.some.injEq] at hn
    rw [← hn] at hp
    simp only [posAltWith, List.mem_append, List.mem_map, Nat.add_zero]
    left
    exact ⟨p', posWith_complete G rank B L φ ψ ε Mφ M hB hφ hψ hL a inp p' hp hl
      (hb.mono (Nat.le_refl _) (fun x hx => by simp [headsAlt, hx])), rfl⟩
  | a :: as, i0, j + 1, n', inp, p', hn, hp, hl, hb => by
    simp only [List.getElem?_cons_succ] at hn
    simp only [posAltWith, List.mem_append]
    right
    have := posAltWith_complete G rank B L φ ψ ε Mφ M hB hφ hψ hL as (i0 + 1) j n' inp p' hn hp hl
      (hb.mono (Nat.le_refl _) (fun x hx => by simp [headsAlt, hx]))
    have e : i0 + (j + 1) = i0 + 1 + j := by omega
    rw [e]
    exact this
theorem posCatWith_complete (G : Grammar) (rank : String → Nat) (B L : Nat)
    (φ : String → List Msg → List (List Msg)) (ψ : String → List Msg → List Pos) (ε : String → List Pos)
    (Mφ M : Nat) (hB : RankB G rank B) (hφ : FullGood G rank B φ Mφ) (hψ : PosGood G rank B L ψ M)
    (hL : (L + 1) * B ≤ Mφ) :
    ∀ (ns : List Node) (id : String) (i0 : Nat) (inps : List (List Msg)) (r : List Msg) (j : Nat) (n' : Node)
      (h1 h2 : List Msg) (p' : Pos), r ∈ inps → r = h1 ++ h2 → ns[j]? = some n' →
      GM G (.cat id (ns.take j)) h1 → CPD G n' h2 p' → r.length ≤ L →
      Below G rank B (headsCat ns) r.length M →
      Pos.cat (i0 + j) p' ∈ posCatWith φ ψ ε ns i0 inps
  | [], _, _, _, _, j, _, _, _, _, _, _, hn, _, _, _, _ => by simp at hn
  | a :: as, id, i0, inps, r, 0, n', h1, h2, p', hr, he, hn, hleft, hp, hl, hb => by
    simp only [List.getElem?_cons_zero, Option.some.injEq] at hn
    rw [← hn] at hp
    have h1nil : h1 = [] := by simpa using GM_cat_nil_iff.1 (by simpa using hleft)
    subst h1nil
    simp only [List.nil_append] at he
    subst he
    simp only [posCatWith, List.mem_append, Nat.add_zero]
    left; left
    rw [List.mem_flatMap]
    refine ⟨r, ?_, List.mem_map.2 ⟨p', ?_, rfl⟩⟩
    · rw [List.mem_filter]
      refine ⟨hr, ?_⟩
      have := CPD_ne hp
      cases r with
      | nil => exact absurd rfl this
      | cons _ _ => simp
    · exact posWith_complete G rank B L φ ψ ε Mφ M hB hφ hψ hL a r p' hp hl
        (hb.mono (Nat.le_refl _) (fun x hx => by
          by_cases hc : consumes a = true <;> simp [headsCat, hc, hx]))
  | a :: as, id, i0, inps, r, j + 1, n', h1, h2, p', hr, he, hn, hleft, hp, hl, hb => by
    simp only [List.getElem?_cons_succ] at hn
    have hleft' : GM G (.cat id (a :: as.take j)) h1 := by simpa using hleft
    obtain ⟨u0, h1', rfl, hg0, hrest⟩ := GM_cat_cons_iff.1 hleft'
    subst he
    simp only [List.length_append] at hl hb
    simp only [posCatWith, List.mem_append]
    right
    have hr' : h1' ++ h2 ∈ (inps.flatMap (fullWith φ a)).eraseDups := by
      rw [List.mem_eraseDups, List.mem_flatMap]
      refine ⟨_, hr, ?_⟩
      rw [List.append_assoc]
      exact fullWith_complete G rank B φ Mφ hB hφ a u0 (h1' ++ h2) hg0
        (Below.of_big hB _ (Nat.le_trans (Nat.mul_le_mul_right B (by omega)) hL))
    have hb' : Below G rank B (headsCat as) (h1' ++ h2).length M := by
      simp only [List.length_append]
      by_cases hc : consumes a = true
      · have hne : u0 ≠ [] := fun h0 => consumes_not_nil G a hc (h0 ▸ hg0)
        have : 0 < u0.length := List.length_pos_iff.2 hne
        exact hb.shorter hB (by omega)
      · exact hb.mono (by omega) (fun x hx => by simp [headsCat, hc, hx])
    have := posCatWith_complete G rank B L φ ψ ε Mφ M hB hφ hψ hL as id (i0 + 1) _ (h1' ++ h2) j n' h1' h2 p'
      hr' rfl hn hrest hp (by simp only [List.length_append]; omega) hb'
    have e : i0 + (j + 1) = i0 + 1 + j := by omega
    rw [e]
    exact this
end

/-- the table of positions at fuel `f` holds every compact partial derivation whose measure is below `f` -/
theorem posTab_complete {G : Grammar} {rank : String → Nat} {B L F : Nat} (hL : NoLeftRec G rank B)
    (hF : (L + 1) * B ≤ F) : ∀ f, PosGood G rank B L (posTab G F f) f
  | 0 => by intro x body inp p _ _ _ h; omega
  | f + 1 => by
    intro x body inp p hr hp hl hm
    simp only [posTab, hr]
    refine posWith_complete G rank B L (fullTab G F) (posTab G F f) (epsTab G F F) F f hL.rankB
      (fullTab_complete hL F) (posTab_complete hL hF f) hF body inp p hp hl ⟨by omega, ?_⟩
    intro y hy _
    have := (hL x body hr).2 y hy
    omega

/-- **every derivation that extends a non-empty history completes a spine that `positions` computes**, when
    the fuel of the tables is at least `(h.length + 1) * B` (`B`: bound of the ranks) -/
theorem positions_complete {G : Grammar} {rank : String → Nat} {B F : Nat} (hL : NoLeftRec G rank B)
    (start : Node) (h : List Msg) (hne : h ≠ []) (hF : (h.length + 1) * B ≤ F) (w : List Msg)
    (hg : GM G start (h ++ w)) : ∃ p, p ∈ positions G F start h ∧ After G start p w := by
  obtain ⟨p, hp, ha⟩ := GM_cut_compact hg h w rfl hne
  refine ⟨p, ?_, ha⟩
  unfold positions
  rw [List.mem_eraseDups]
  exact posWith_complete G rank B h.length (fullTab G F) (posTab G F F) (epsTab G F F) F F hL.rankB
    (fullTab_complete hL F) (posTab_complete hL hF F) hF start h p hp (Nat.le_refl _)
    (Below.of_big hL.rankB _ hF)

/-- `PositionsExact` holds of the model's own specification of the prefix parse -/
theorem positions_exact {G : Grammar} {rank : String → Nat} {B F : Nat} (hL : NoLeftRec G rank B)
    (hW : WalkCert G) {start : Node} (hn : walkOk G start = true) (h : List Msg) (hne : h ≠ [])
    (hF : (h.length + 1) * B ≤ F) : PositionsExact G start h (positions G F start h) :=
  ⟨positions_sound hW hn F h, positions_complete hL start h hne hF⟩

end Fc
end FV
