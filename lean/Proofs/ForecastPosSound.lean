/-
`positions` (Model/Forecast.lean: the executable specification of the prefix parse that `codeNexts` walks) is SOUND
for the message-level partial derivations: every spine it computes is a `PD` of the history - for every fuel.
This is the half `PositionsExact.sound` for the model's own positions; with `walkPos_after` / `PD_after_GM` it gives
"the model of the code offers only continuations" for every history (`codeNexts_sound`).
-/
import Proofs.ForecastPos
namespace FV
namespace Fc

/-! ### complete matches (`fullWith`) -/

/-- `φ` (the complete matches of a nonterminal) only returns remainders behind a derivation -/
def FullOk (G : Grammar) (φ : String → List Msg → List (List Msg)) : Prop :=
  ∀ name inp r, r ∈ φ name inp → ∃ u, inp = u ++ r ∧ GM G (.nt name none none) u

theorem iterRemAux_sound {G : Grammar} {n : Node} (step : List Msg → List (List Msg))
    (hstep : ∀ inp r, r ∈ step inp → ∃ u, inp = u ++ r ∧ GM G n u) (min maxv : Nat) :
    ∀ (fuel k : Nat) (inps : List (List Msg)) (r : List Msg), r ∈ iterRemAux step min maxv fuel k inps →
      ∃ j i u, k ≤ j ∧ min ≤ j ∧ j ≤ maxv ∧ i ∈ inps ∧ i = u ++ r ∧ RepM (GM G n) (j - k) u
  | 0, _, _, _, h => by simp [iterRemAux] at h
  | fuel + 1, k, inps, r, h => by
    simp only [iterRemAux, List.mem_append] at h
    rcases h with h | h
    · split at h
      · rename_i hc
        exact ⟨k, r, [], Nat.le_refl _, hc.1, hc.2, h, rfl, by simp [RepM]⟩
      · simp at h
    · split at h
      · obtain ⟨j, i', u', hkj, hmin, hmax, hi', hu', hr⟩ :=
          iterRemAux_sound step hstep min maxv fuel (k + 1) _ r h
        rw [List.mem_eraseDups, List.mem_flatMap] at hi'
        obtain ⟨i, hi, hi'⟩ := hi'
        obtain ⟨u0, hu0, hg0⟩ := hstep i i' hi'
        refine ⟨j, i, u0 ++ u', by omega, hmin, hmax, hi, by rw [hu0, hu']; simp, ?_⟩
        have e : j - k = (j - (k + 1)) + 1 := by omega
        rw [e]
        exact ⟨u0, u', rfl, hg0, hr⟩
      · simp at h

mutual
theorem fullWith_sound (G : Grammar) (φ : String → List Msg → List (List Msg)) (hφ : FullOk G φ) :
    ∀ (n : Node) (inp r : List Msg), r ∈ fullWith φ n inp → ∃ u, inp = u ++ r ∧ GM G n u
  | .term _, inp, r, h => by simp [fullWith] at h
  | .nt name s rc, inp, r, h => by
    cases s with
    | some s =>
      cases inp with
      | nil => simp [fullWith] at h
      | cons m rest =>
        simp only [fullWith, Option.isSome_some, if_true] at h
        by_cases hm : isMsg m name (some s) rc = true
        · simp only [hm, if_true, List.mem_singleton] at h
          subst h
          have := isMsg_iff.1 hm
          subst this
          exact ⟨[_], rfl, GM.msg name s rc⟩
        · simp [hm] at h
    | none =>
      simp only [fullWith, Option.isSome_none, Bool.false_eq_true, if_false] at h
      obtain ⟨u, hu, hg⟩ := hφ name inp r h
      exact ⟨u, hu, (GM_nt_recipient none rc).1 hg⟩
  | .alt id ns, inp, r, h => by
    simp only [fullWith] at h
    obtain ⟨n, hn, u, hu, hg⟩ := fullAltWith_sound G φ hφ ns inp r h
    exact ⟨u, hu, GM.alt id ns n u hn hg⟩
  | .cat id ns, inp, r, h => by
    simp only [fullWith] at h
    obtain ⟨i, hi, u, hu, hg⟩ := fullCatWith_sound G φ hφ ns id [inp] r h
    simp only [List.mem_singleton] at hi
    subst hi
    exact ⟨u, hu, hg⟩
  | .rep id kind n min max, inp, r, h => by
    simp only [fullWith] at h
    obtain ⟨j, i, u, _, hmin, hmax, hi, hu, hr⟩ :=
      iterRemAux_sound (fullWith φ n) (fun a b hab => fullWith_sound G φ hφ n a b hab) min _ _ 0 [inp] r h
    simp only [List.mem_singleton] at hi
    subst hi
    refine ⟨u, hu, (GM_rep_iff_repM G id kind n u min max).2 ⟨j, ⟨hmin, ?_⟩, by simpa using hr⟩⟩
    intro mx hmx
    subst hmx
    simpa [parseMax] using hmax
theorem fullAltWith_sound (G : Grammar) (φ : String → List Msg → List (List Msg)) (hφ : FullOk G φ) :
    ∀ (ns : List Node) (inp r : List Msg), r ∈ fullAltWith φ ns inp →
      ∃ n, n ∈ ns ∧ ∃ u, inp = u ++ r ∧ GM G n u
  | [], _, _, h => by simp [fullAltWith] at h
  | a :: as, inp, r, h => by
    simp only [fullAltWith, List.mem_append] at h
    rcases h with h | h
    · exact ⟨a, by simp, fullWith_sound G φ hφ a inp r h⟩
    · obtain ⟨n, hn, hu⟩ := fullAltWith_sound G φ hφ as inp r h
      exact ⟨n, by simp [hn], hu⟩
theorem fullCatWith_sound (G : Grammar) (φ : String → List Msg → List (List Msg)) (hφ : FullOk G φ) :
    ∀ (ns : List Node) (id : String) (inps : List (List Msg)) (r : List Msg), r ∈ fullCatWith φ ns inps →
      ∃ i, i ∈ inps ∧ ∃ u, i = u ++ r ∧ GM G (.cat id ns) u
  | [], id, inps, r, h => by
    simp only [fullCatWith] at h
    exact ⟨r, h, [], rfl, GM.catNil id⟩
  | a :: as, id, inps, r, h => by
    simp only [fullCatWith] at h
    obtain ⟨i', hi', u', hu', hg'⟩ := fullCatWith_sound G φ hφ as id _ r h
    rw [List.mem_eraseDups, List.mem_flatMap] at hi'
    obtain ⟨i, hi, hi'⟩ := hi'
    obtain ⟨u0, hu0, hg0⟩ := fullWith_sound G φ hφ a i i' hi'
    exact ⟨i, hi, u0 ++ u', by rw [hu0, hu']; simp, GM.catCons id a as u0 u' hg0 hg'⟩
end

theorem fullTab_sound (G : Grammar) : ∀ f, FullOk G (fullTab G f)
  | 0 => by intro name inp r h; simp [fullTab] at h
  | f + 1 => by
    intro name inp r h
    cases hr : G.rule name with
    | none => simp [fullTab, hr] at h
    | some body =>
      simp only [fullTab, hr] at h
      obtain ⟨u, hu, hg⟩ := fullWith_sound G (fullTab G f) (fullTab_sound G f) body inp r h
      exact ⟨u, hu, GM.unfold name none body u hr hg⟩

/-- the body can be matched against nothing: it derives the empty interaction -/
theorem full_nil {G : Grammar} {φ : String → List Msg → List (List Msg)} (hφ : FullOk G φ) {n : Node}
    (h : (fullWith φ n []).contains [] = true) : GM G n [] := by
  have hm : [] ∈ fullWith φ n [] := by simpa using h
  obtain ⟨u, hu, hg⟩ := fullWith_sound G φ hφ n [] [] hm
  have := append_eq_nil_left hu
  subst this
  exact hg

/-! ### ε-positions (`epsWith`) -/

def EpsOk (G : Grammar) (ε : String → List Pos) : Prop :=
  ∀ name p, p ∈ ε name → ∃ body, G.rule name = some body ∧ PD G body [] p

mutual
theorem epsWith_sound (G : Grammar) (φ : String → List Msg → List (List Msg)) (ε : String → List Pos)
    (hφ : FullOk G φ) (hε : EpsOk G ε) :
    ∀ (n : Node), walkOk G n = true → ∀ p, p ∈ epsWith φ ε n → PD G n [] p
  | .term _, _, p, h => by simp [epsWith] at h
  | .nt name s rc, _, p, h => by
    cases s with
    | some s => simp [epsWith] at h
    | none =>
      simp only [epsWith, Option.isSome_none, Bool.false_eq_true, if_false, List.mem_map] at h
      obtain ⟨p', hp', rfl⟩ := h
      obtain ⟨body, hr, hpd⟩ := hε name p' hp'
      exact PD.nt name rc body [] p' hr hpd
  | .alt id ns, hk, p, h => by
    simp only [walkOk] at hk
    simp only [epsWith] at h
    obtain ⟨j, n', p', rfl, hn', hpd⟩ := epsAltWith_sound G φ ε hφ hε ns 0 hk p h
    simpa using PD.alt id ns j n' [] p' hn' hpd
  | .cat id ns, hk, p, h => by
    simp only [walkOk] at hk
    simp only [epsWith] at h
    obtain ⟨j, n', p', rfl, hn', hl, hpd⟩ := epsCatWith_sound G φ ε hφ hε ns 0 id hk p h
    simpa using PD.cat id ns j n' [] [] p' hn' hl hpd
  | .rep id kind n min max, hk, p, h => by
    simp only [walkOk, Bool.and_eq_true, bne_iff_ne, ne_eq] at hk
    obtain ⟨⟨_, hmax⟩, hkn⟩ := hk
    simp only [epsWith, List.mem_append, List.mem_map] at h
    rcases h with (h | ⟨p', hp', rfl⟩) | h
    · split at h
      · simp only [List.mem_singleton] at h
        subst h
        exact PD.rep0 id kind n min max
      · simp at h
    · have hpd := epsWith_sound G φ ε hφ hε n hkn p' hp'
      have := PD.rep id kind n min max 0 [] [] p' (by
        intro mx hmx
        have : mx ≠ 0 := fun h0 => hmax (by rw [hmx, h0])
        omega) rfl hpd
      simpa using this
    · split at h
      · rename_i hc
        simp only [List.mem_map] at h
        obtain ⟨p', hp', rfl⟩ := h
        have hpd := epsWith_sound G φ ε hφ hε n hkn p' hp'
        have hnil : GM G n [] := full_nil hφ hc.1
        have := PD.rep id kind n min max 1 [] [] p' (by
          intro mx hmx
          have h0 : mx ≠ 0 := fun h0 => hmax (by rw [hmx, h0])
          have h1 : mx ≠ 1 := fun h1 => hc.2 (by rw [hmx, h1])
          omega) ⟨[], [], rfl, hnil, rfl⟩ hpd
        simpa using this
      · simp at h
theorem epsAltWith_sound (G : Grammar) (φ : String → List Msg → List (List Msg)) (ε : String → List Pos)
    (hφ : FullOk G φ) (hε : EpsOk G ε) :
    ∀ (ns : List Node) (i : Nat), walkOkAlt G ns = true → ∀ p, p ∈ epsAltWith φ ε ns i →
      ∃ j n' p', p = .alt (i + j) p' ∧ ns[j]? = some n' ∧ PD G n' [] p'
  | [], _, _, p, h => by simp [epsAltWith] at h
  | a :: as, i, hk, p, h => by
    simp only [walkOkAlt, Bool.and_eq_true] at hk
    simp only [epsAltWith, List.mem_append, List.mem_map] at h
    rcases h with ⟨p', hp', rfl⟩ | h
    · exact ⟨0, a, p', rfl, rfl, epsWith_sound G φ ε hφ hε a hk.1 p' hp'⟩
    · obtain ⟨j, n', p', rfl, hn', hpd⟩ := epsAltWith_sound G φ ε hφ hε as (i + 1) hk.2 p h
      exact ⟨j + 1, n', p', by congr 1; omega, by simpa using hn', hpd⟩
theorem epsCatWith_sound (G : Grammar) (φ : String → List Msg → List (List Msg)) (ε : String → List Pos)
    (hφ : FullOk G φ) (hε : EpsOk G ε) :
    ∀ (ns : List Node) (i : Nat) (id : String), walkOkCat G ns = true → ∀ p, p ∈ epsCatWith φ ε ns i →
      ∃ j n' p', p = .cat (i + j) p' ∧ ns[j]? = some n' ∧ GM G (.cat id (ns.take j)) [] ∧ PD G n' [] p'
  | [], _, _, _, p, h => by simp [epsCatWith] at h
  | a :: as, i, id, hk, p, h => by
    simp only [walkOkCat, Bool.and_eq_true] at hk
    simp only [epsCatWith, List.mem_append, List.mem_map] at h
    rcases h with ⟨p', hp', rfl⟩ | h
    · exact ⟨0, a, p', rfl, rfl, by simpa using GM.catNil id, epsWith_sound G φ ε hφ hε a hk.1.1 p' hp'⟩
    · split at h
      · rename_i hc
        obtain ⟨j, n', p', rfl, hn', hl, hpd⟩ := epsCatWith_sound G φ ε hφ hε as (i + 1) id hk.2 p h
        refine ⟨j + 1, n', p', by congr 1; omega, by simpa using hn', ?_, hpd⟩
        have := GM.catCons id a (as.take j) [] [] (full_nil hφ hc) hl
        simpa using this
      · simp at h
end

theorem epsTab_sound (G : Grammar) (hW : WalkCert G) (F : Nat) : ∀ f, EpsOk G (epsTab G F f)
  | 0 => by intro name p h; simp [epsTab] at h
  | f + 1 => by
    intro name p h
    cases hr : G.rule name with
    | none => simp [epsTab, hr] at h
    | some body =>
      simp only [epsTab, hr] at h
      exact ⟨body, rfl, epsWith_sound G _ _ (fullTab_sound G F) (epsTab_sound G hW F f) body (hW name body hr) p h⟩

/-! ### positions (`posWith`) -/

def PosOk (G : Grammar) (ψ : String → List Msg → List Pos) : Prop :=
  ∀ name inp p, p ∈ ψ name inp → ∃ body, G.rule name = some body ∧ PD G body inp p

theorem posRepAux_sound {G : Grammar} {n : Node} (step : List Msg → List (List Msg))
    (pos : List Msg → List Pos) (eps : List Pos)
    (hstep : ∀ inp r, r ∈ step inp → ∃ u, inp = u ++ r ∧ GM G n u)
    (hpos : ∀ inp p, p ∈ pos inp → PD G n inp p) (heps : ∀ p, p ∈ eps → PD G n [] p) (maxv : Nat) :
    ∀ (fuel k : Nat) (inps : List (List Msg)) (p : Pos), p ∈ posRepAux step pos eps maxv fuel k inps →
      ∃ r j p' h1 h2, r ∈ inps ∧ k ≤ j ∧ j < maxv ∧ p = .rep j p' ∧ r = h1 ++ h2 ∧
        RepM (GM G n) (j - k) h1 ∧ PD G n h2 p'
  | 0, _, _, _, h => by simp [posRepAux] at h
  | fuel + 1, k, inps, p, h => by
    simp only [posRepAux] at h
    split at h
    · rename_i hk
      simp only [List.mem_append, List.mem_flatMap, List.mem_filter, List.mem_map] at h
      rcases h with (⟨r, ⟨hr, _⟩, p', hp', rfl⟩ | h) | h
      · exact ⟨r, k, p', [], r, hr, Nat.le_refl _, hk, rfl, rfl, by simp [RepM], hpos r p' hp'⟩
      · split at h
        · rename_i hc
          simp only [List.mem_map] at h
          obtain ⟨p', hp', rfl⟩ := h
          have hm : [] ∈ (inps.flatMap step).eraseDups := by simpa using hc.1
          rw [List.mem_eraseDups, List.mem_flatMap] at hm
          obtain ⟨r, hr, hr'⟩ := hm
          obtain ⟨u0, hu0, hg0⟩ := hstep r [] hr'
          refine ⟨r, k + 1, p', u0, [], hr, by omega, hc.2, rfl, hu0, ?_, heps p' hp'⟩
          have e : k + 1 - k = 0 + 1 := by omega
          rw [e]
          exact ⟨u0, [], by simp, hg0, rfl⟩
        · simp at h
      · obtain ⟨r', j, p', h1, h2, hr', hkj, hj, rfl, he, hrep, hpd⟩ :=
          posRepAux_sound step pos eps hstep hpos heps maxv fuel (k + 1) _ p h
        rw [List.mem_filter, List.mem_eraseDups, List.mem_flatMap] at hr'
        obtain ⟨⟨r, hr, hrr'⟩, _⟩ := hr'
        obtain ⟨u0, hu0, hg0⟩ := hstep r r' hrr'
        refine ⟨r, j, p', u0 ++ h1, h2, hr, by omega, hj, rfl, by rw [hu0, he]; simp, ?_, hpd⟩
        have e : j - k = (j - (k + 1)) + 1 := by omega
        rw [e]
        exact ⟨u0, h1, rfl, hg0, hrep⟩
    · simp at h

mutual
theorem posWith_sound (G : Grammar) (φ : String → List Msg → List (List Msg))
    (ψ : String → List Msg → List Pos) (ε : String → List Pos)
    (hφ : FullOk G φ) (hψ : PosOk G ψ) (hε : EpsOk G ε) :
    ∀ (n : Node), walkOk G n = true → ∀ inp p, p ∈ posWith φ ψ ε n inp → PD G n inp p
  | .term _, _, inp, p, h => by simp [posWith] at h
  | .nt name s rc, _, inp, p, h => by
    cases s with
    | some s =>
      simp only [posWith, Option.isSome_some, if_true] at h
      split at h
      · rename_i m
        by_cases hm : isMsg m name (some s) rc = true
        · simp only [hm, if_true, List.mem_singleton] at h
          subst h
          have := isMsg_iff.1 hm
          subst this
          exact PD.msg name s rc
        · simp [hm] at h
      · simp at h
    | none =>
      simp only [posWith, Option.isSome_none, Bool.false_eq_true, if_false, List.mem_map] at h
      obtain ⟨p', hp', rfl⟩ := h
      obtain ⟨body, hr, hpd⟩ := hψ name inp p' hp'
      exact PD.nt name rc body inp p' hr hpd
  | .alt id ns, hk, inp, p, h => by
    simp only [walkOk] at hk
    simp only [posWith] at h
    obtain ⟨j, n', p', rfl, hn', hpd⟩ := posAltWith_sound G φ ψ ε hφ hψ hε ns 0 hk inp p h
    simpa using PD.alt id ns j n' inp p' hn' hpd
  | .cat id ns, hk, inp, p, h => by
    simp only [walkOk] at hk
    simp only [posWith] at h
    obtain ⟨r, j, n', p', h1, h2, hr, rfl, hn', he, hl, hpd⟩ :=
      posCatWith_sound G φ ψ ε hφ hψ hε ns 0 id hk [inp] p h
    simp only [List.mem_singleton] at hr
    subst hr
    subst he
    simpa using PD.cat id ns j n' h1 h2 p' hn' hl hpd
  | .rep id kind n min max, hk, inp, p, h => by
    simp only [walkOk, Bool.and_eq_true, bne_iff_ne, ne_eq] at hk
    obtain ⟨_, hkn⟩ := hk
    simp only [posWith] at h
    obtain ⟨r, j, p', h1, h2, hr, _, hj, rfl, he, hrep, hpd⟩ :=
      posRepAux_sound (fullWith φ n) (posWith φ ψ ε n) (epsWith φ ε n)
        (fun a b hab => fullWith_sound G φ hφ n a b hab)
        (fun a b hab => posWith_sound G φ ψ ε hφ hψ hε n hkn a b hab)
        (fun b hb => epsWith_sound G φ ε hφ hε n hkn b hb) _ _ 0 [inp] p h
    simp only [List.mem_singleton] at hr
    subst hr
    subst he
    refine PD.rep id kind n min max j h1 h2 p' ?_ (by simpa using hrep) hpd
    intro mx hmx
    subst hmx
    simp only [parseMax] at hj
    omega
theorem posAltWith_sound (G : Grammar) (φ : String → List Msg → List (List Msg))
    (ψ : String → List Msg → List Pos) (ε : String → List Pos)
    (hφ : FullOk G φ) (hψ : PosOk G ψ) (hε : EpsOk G ε) :
    ∀ (ns : List Node) (i : Nat), walkOkAlt G ns = true → ∀ inp p, p ∈ posAltWith φ ψ ε ns i inp →
      ∃ j n' p', p = .alt (i + j) p' ∧ ns[j]? = some n' ∧ PD G n' inp p'
  | [], _, _, inp, p, h => by simp [posAltWith] at h
  | a :: as, i, hk, inp, p, h => by
    simp only [walkOkAlt, Bool.and_eq_true] at hk
    simp only [posAltWith, List.mem_append, List.mem_map] at h
    rcases h with ⟨p', hp', rfl⟩ | h
    · exact ⟨0, a, p', rfl, rfl, posWith_sound G φ ψ ε hφ hψ hε a hk.1 inp p' hp'⟩
    · obtain ⟨j, n', p', rfl, hn', hpd⟩ := posAltWith_sound G φ ψ ε hφ hψ hε as (i + 1) hk.2 inp p h
      exact ⟨j + 1, n', p', by congr 1; omega, by simpa using hn', hpd⟩
theorem posCatWith_sound (G : Grammar) (φ : String → List Msg → List (List Msg))
    (ψ : String → List Msg → List Pos) (ε : String → List Pos)
    (hφ : FullOk G φ) (hψ : PosOk G ψ) (hε : EpsOk G ε) :
    ∀ (ns : List Node) (i : Nat) (id : String), walkOkCat G ns = true →
      ∀ (inps : List (List Msg)) (p : Pos), p ∈ posCatWith φ ψ ε ns i inps →
      ∃ r j n' p' h1 h2, r ∈ inps ∧ p = .cat (i + j) p' ∧ ns[j]? = some n' ∧ r = h1 ++ h2 ∧
        GM G (.cat id (ns.take j)) h1 ∧ PD G n' h2 p'
  | [], _, _, _, inps, p, h => by simp [posCatWith] at h
  | a :: as, i, id, hk, inps, p, h => by
    simp only [walkOkCat, Bool.and_eq_true] at hk
    simp only [posCatWith, List.mem_append, List.mem_flatMap, List.mem_filter, List.mem_map] at h
    rcases h with (⟨r, ⟨hr, _⟩, p', hp', rfl⟩ | h) | h
    · exact ⟨r, 0, a, p', [], r, hr, rfl, rfl, rfl, by simpa using GM.catNil id,
        posWith_sound G φ ψ ε hφ hψ hε a hk.1.1 r p' hp'⟩
    · split at h
      · rename_i hc
        simp only [List.mem_map] at h
        obtain ⟨p', hp', rfl⟩ := h
        have hm : [] ∈ inps := by simpa using hc
        exact ⟨[], 0, a, p', [], [], hm, rfl, rfl, rfl, by simpa using GM.catNil id,
          epsWith_sound G φ ε hφ hε a hk.1.1 p' hp'⟩
      · simp at h
    · obtain ⟨r', j, n', p', h1, h2, hr', rfl, hn', he, hl, hpd⟩ :=
        posCatWith_sound G φ ψ ε hφ hψ hε as (i + 1) id hk.2 _ p h
      rw [List.mem_eraseDups, List.mem_flatMap] at hr'
      obtain ⟨r, hr, hrr'⟩ := hr'
      obtain ⟨u0, hu0, hg0⟩ := fullWith_sound G φ hφ a r r' hrr'
      refine ⟨r, j + 1, n', p', u0 ++ h1, h2, hr, by congr 1; omega, by simpa using hn',
        by rw [hu0, he]; simp, ?_, hpd⟩
      simpa using GM.catCons id a (as.take j) u0 h1 hg0 hl
end

theorem posTab_sound (G : Grammar) (hW : WalkCert G) (F : Nat) : ∀ f, PosOk G (posTab G F f)
  | 0 => by intro name inp p h; simp [posTab] at h
  | f + 1 => by
    intro name inp p h
    cases hr : G.rule name with
    | none => simp [posTab, hr] at h
    | some body =>
      simp only [posTab, hr] at h
      exact ⟨body, rfl, posWith_sound G _ _ _ (fullTab_sound G F) (posTab_sound G hW F f)
        (epsTab_sound G hW F F) body (hW name body hr) inp p h⟩

/-- **every spine `positions` computes is a message-level partial derivation of the history** (every fuel) -/
theorem positions_sound {G : Grammar} (hW : WalkCert G) {start : Node} (hn : walkOk G start = true) (F : Nat)
    (h : List Msg) (p : Pos) (hp : p ∈ positions G F start h) : PD G start h p := by
  unfold positions at hp
  rw [List.mem_eraseDups] at hp
  exact posWith_sound G _ _ _ (fullTab_sound G F) (posTab_sound G hW F F) (epsTab_sound G hW F F) start hn h p hp

/-- hence **the model of the code offers only continuations**, whatever the history and the fuel of the position
    tables: each offered message is the first message of a completion of a partial derivation of the history -/
theorem codeNexts_sound {G : Grammar} {rank : String → Nat} {F : Nat} {start : Node} (hL : NoLeftRec G rank F)
    (hP : Productive G) (hW : WalkCert G) (hn : walkOk G start = true) (h : List Msg) (m : Msg)
    (hm : m ∈ codeNexts G F start h) : Cont G start h m := by
  have hω : ∀ name, WalkNt G (walkNewTab G F []) name := fun name => walkNewTab_ok_all hL hP hW name
  cases h with
  | nil =>
    unfold codeNexts dedupM at hm
    simp only [List.mem_eraseDups] at hm
    obtain ⟨w, hw⟩ := ((walkNewWith_ok G hP _ start (fun name _ => hω name) hn).1 m).1 hm
    exact ⟨w, by simpa using hw⟩
  | cons x t =>
    rw [codeNexts_cons] at hm
    unfold codeNextsOn dedupM at hm
    simp only [List.mem_eraseDups, List.mem_flatMap] at hm
    obtain ⟨p, hp, hmp⟩ := hm
    have hpd := positions_sound hW hn F (x :: t) p hp
    obtain ⟨w, hw⟩ := ((walkPos_after hP hW _ hω hpd hn).1 m).1 hmp
    exact ⟨w, PD_after_GM hpd _ hw⟩

end Fc
end FV
