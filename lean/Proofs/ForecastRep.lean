/-
Repetitions at message level (C19): `RepM P k w` - `w` is `k` iterations of `P` -, a repetition node describes
exactly the counts within its bounds (`GM_rep_iff_repM`), and the protocol fragment `a{min,max} e` used by the
repetition-bound theorems of Props/C19.lean.
-/
import Proofs.Forecast
namespace FV
namespace Fc

/-- message atom for a message -/
def atom (m : Msg) : Node := .nt m.type (some m.sender) m.recipient

/-- `k` iterations -/
def RepM (P : List Msg → Prop) : Nat → List Msg → Prop
  | 0, w => w = []
  | k + 1, w => ∃ w1 w2, w = w1 ++ w2 ∧ P w1 ∧ RepM P k w2

/-- a repetition describes exactly: some count `k` within the declared bounds, `k` iterations of the
    body (`max = none`: unbounded) — the same clause as `Matches` of the E2 core -/
theorem GM_rep_iff_repM (G : Grammar) (id : String) (kind : RepKind) (n : Node) (w : List Msg) :
    ∀ (min : Nat) (max : Option Nat),
    GM G (.rep id kind n min max) w ↔ ∃ k, inBounds min max k ∧ RepM (GM G n) k w := by
  intro min max
  constructor
  · intro h
    generalize hx : Node.rep id kind n min max = x at h
    induction h generalizing min max with
    | msg => cases hx
    | unfold => cases hx
    | alt => cases hx
    | catNil => cases hx
    | catCons => cases hx
    | repNil id' kind' n' max' =>
      cases hx
      exact ⟨0, ⟨Nat.le_refl _, fun _ _ => Nat.zero_le _⟩, rfl⟩
    | repCons id' kind' n' min' max' w1 w2 hm h1 _ _ ih2 =>
      cases hx
      obtain ⟨k, hk, hr⟩ := ih2 _ _ rfl
      exact ⟨k + 1, predMax_bounds hm hk, w1, w2, rfl, h1, hr⟩
  · rintro ⟨k, hk, hr⟩
    induction k generalizing min max w with
    | zero =>
      have : min = 0 := by have := hk.1; omega
      subst this
      simp only [RepM] at hr
      subst hr
      exact GM.repNil id kind n max
    | succ k ih =>
      obtain ⟨w1, w2, rfl, h1, h2⟩ := hr
      have hmax : max ≠ some 0 := by
        intro h0; subst h0; have := hk.2 0 rfl; omega
      exact GM.repCons id kind n min max w1 w2 hmax h1 (ih w2 _ _ (bounds_predMax hk) h2)

theorem repM_atom (a : Msg) (G : Grammar) : ∀ (k : Nat) (w : List Msg),
    RepM (GM G (atom a)) k w ↔ w = List.replicate k a
  | 0, w => by simp [RepM]
  | k + 1, w => by
    simp only [RepM, atom, GM_msg_iff, List.replicate_succ]
    constructor
    · rintro ⟨w1, w2, rfl, rfl, h2⟩
      rw [(repM_atom a G k w2).1 h2]
      cases a; rfl
    · rintro rfl
      refine ⟨[a], List.replicate k a, ?_, ?_, (repM_atom a G k _).2 rfl⟩
      · rfl
      · cases a; rfl

/-- comparing `a^k x w'` with `a^j e` when `a ≠ e` -/
theorem replicate_cmp {a e x : Msg} (hne : a ≠ e) : ∀ (k j : Nat) (w' : List Msg),
    List.replicate k a ++ x :: w' = List.replicate j a ++ [e] ↔
      (x = e ∧ w' = [] ∧ j = k) ∨ (x = a ∧ k < j ∧ w' = List.replicate (j - k - 1) a ++ [e])
  | 0, 0, w' => by simp
  | 0, j + 1, w' => by
    simp only [List.replicate_zero, List.nil_append, List.replicate_succ, List.cons_append,
      List.cons.injEq, Nat.zero_lt_succ, true_and]
    constructor
    · rintro ⟨rfl, rfl⟩; right; simp
    · rintro (⟨_, _, h⟩ | ⟨rfl, h⟩)
      · omega
      · simpa using h
  | k + 1, 0, w' => by
    simp only [List.replicate_succ, List.cons_append, List.replicate_zero, List.nil_append,
      List.cons.injEq]
    constructor
    · rintro ⟨h, _⟩; exact absurd h hne
    · rintro (⟨_, _, h⟩ | ⟨_, h, _⟩) <;> omega
  | k + 1, j + 1, w' => by
    have := replicate_cmp (x := x) hne k j w'
    simp only [List.replicate_succ, List.cons_append, List.cons.injEq, true_and]
    rw [this]
    constructor
    · rintro (⟨h1, h2, h3⟩ | ⟨h1, h2, h3⟩)
      · exact Or.inl ⟨h1, h2, by omega⟩
      · refine Or.inr ⟨h1, by omega, ?_⟩
        have : j + 1 - (k + 1) - 1 = j - k - 1 := by omega
        rw [this]; exact h3
    · rintro (⟨h1, h2, h3⟩ | ⟨h1, h2, h3⟩)
      · exact Or.inl ⟨h1, h2, by omega⟩
      · refine Or.inr ⟨h1, by omega, ?_⟩
        have : j + 1 - (k + 1) - 1 = j - k - 1 := by omega
        rw [this] at h3; exact h3

/-- the protocol fragment `a{min,max} e` -/
def repThenExit (a e : Msg) (min : Nat) (max : Option Nat) : Node :=
  .cat "c" [.rep "r" .braces (atom a) min max, atom e]

theorem repThenExit_lang (G : Grammar) (a e : Msg) (min : Nat) (max : Option Nat) (w : List Msg) :
    GM G (repThenExit a e min max) w ↔ ∃ j, inBounds min max j ∧ w = List.replicate j a ++ [e] := by
  unfold repThenExit
  simp only [GM_cat_cons_iff, GM_cat_nil_iff, GM_rep_iff_repM, repM_atom]
  constructor
  · rintro ⟨w1, w2, rfl, ⟨j, hj, rfl⟩, w3, w4, rfl, h3, rfl⟩
    have : w3 = [e] := by
      have := GM_msg_iff.1 (show GM G (.nt e.type (some e.sender) e.recipient) w3 from h3)
      rw [this]
    subst this
    exact ⟨j, hj, by simp⟩
  · rintro ⟨j, hj, rfl⟩
    refine ⟨List.replicate j a, [e], rfl, ⟨j, hj, rfl⟩, [e], [], by simp, ?_, rfl⟩
    exact GM_msg_iff.2 rfl

theorem RepM_append {P : List Msg → Prop} : ∀ (k j : Nat) (u v : List Msg),
    RepM P k u → RepM P j v → RepM P (k + j) (u ++ v)
  | 0, j, u, v, hu, hv => by
    simp only [RepM] at hu
    subst hu
    simpa using hv
  | k + 1, j, u, v, hu, hv => by
    obtain ⟨w1, w2, rfl, h1, h2⟩ := hu
    have := RepM_append k j w2 v h2 hv
    have e : k + 1 + j = (k + j) + 1 := by omega
    rw [e]
    exact ⟨w1, w2 ++ v, by simp, h1, this⟩

theorem RepM_one {P : List Msg → Prop} {w : List Msg} (h : P w) : RepM P 1 w :=
  ⟨w, [], by simp, h, rfl⟩

end Fc
end FV
