/-
Slicing a protocol grammar to a set of parties (C19 (d)): the language of the sliced grammar is the
visible projection of the language of the grammar.

`sliceG` (Model/Forecast.lean) models `slice_parties` / `PacketTruncator` line by line: rounds over all
rules; in a round every rule body is truncated with the names deleted in the previous round
(`truncNode`), rules whose body is deleted are removed.  One round is a language-preserving step
(`trunc_fwd`, `trunc_bwd`) between the grammars "remaining rules + the just-deleted names as ε-rules";
the loop composes the rounds (`sliceLoop_spec`).
-/
import Proofs.Forecast
namespace FV
namespace Fc

/-! ### projection -/

theorem project_append (cfg : SliceCfg) (a b : List Msg) :
    project cfg (a ++ b) = project cfg a ++ project cfg b := by
  simp [project]

theorem project_idem (cfg : SliceCfg) (w : List Msg) : project cfg (project cfg w) = project cfg w := by
  simp [project, List.filter_filter]

theorem project_nil (cfg : SliceCfg) : project cfg [] = [] := rfl

/-! ### the visitor on message atoms -/

theorem truncMsg_nt (cfg : SliceCfg) (D : List String) (name : String) (r : Option String) :
    truncMsg cfg D name none r = D.contains name := by
  unfold truncMsg
  by_cases h : D.contains name = true
  · simp only [h, if_true]
  · simp only [h]
    cases cfg.ignoreRecv <;> simp

theorem truncMsg_msg (cfg : SliceCfg) (D : List String) (name s : String) (r : Option String)
    (h : D.contains name = false) :
    truncMsg cfg D name (some s) r = !visible cfg ⟨s, r, name⟩ := by
  unfold truncMsg visible
  simp only [h]
  cases cfg.ignoreRecv with
  | true => simp
  | false =>
    cases r with
    | none => simp
    | some r => simp

/-! ### `truncKids` -/

theorem truncKids_nil (cfg : SliceCfg) (D : List String) : truncKids cfg D [] = [] := by
  simp [truncKids]

theorem truncKids_cons_none {cfg : SliceCfg} {D : List String} {n : Node} {ns : List Node}
    (h : truncNode cfg D n = none) : truncKids cfg D (n :: ns) = truncKids cfg D ns := by
  simp [truncKids, h]

theorem truncKids_cons_some {cfg : SliceCfg} {D : List String} {n x : Node} {ns : List Node}
    (h : truncNode cfg D n = some x) : truncKids cfg D (n :: ns) = x :: truncKids cfg D ns := by
  simp [truncKids, h]

theorem mem_truncKids {cfg : SliceCfg} {D : List String} {x : Node} : ∀ {ns : List Node},
    x ∈ truncKids cfg D ns ↔ ∃ n, n ∈ ns ∧ truncNode cfg D n = some x
  | [] => by simp [truncKids_nil]
  | n :: ns => by
    have ih := @mem_truncKids cfg D x ns
    cases h : truncNode cfg D n with
    | none =>
      rw [truncKids_cons_none h, ih]
      constructor
      · rintro ⟨m, hm, hx⟩; exact ⟨m, List.mem_cons_of_mem _ hm, hx⟩
      · rintro ⟨m, hm, hx⟩
        rcases List.mem_cons.1 hm with rfl | hm
        · rw [h] at hx; cases hx
        · exact ⟨m, hm, hx⟩
    | some y =>
      rw [truncKids_cons_some h, List.mem_cons, ih]
      constructor
      · rintro (rfl | ⟨m, hm, hx⟩)
        · exact ⟨n, List.mem_cons_self, h⟩
        · exact ⟨m, List.mem_cons_of_mem _ hm, hx⟩
      · rintro ⟨m, hm, hx⟩
        rcases List.mem_cons.1 hm with rfl | hm
        · rw [h] at hx; cases hx; exact Or.inl rfl
        · exact Or.inr ⟨m, hm, hx⟩

theorem truncKids_length_le (cfg : SliceCfg) (D : List String) : ∀ ns : List Node,
    (truncKids cfg D ns).length ≤ ns.length
  | [] => by simp [truncKids_nil]
  | n :: ns => by
    have ih := truncKids_length_le cfg D ns
    cases h : truncNode cfg D n with
    | none => rw [truncKids_cons_none h]; simp; omega
    | some y => rw [truncKids_cons_some h]; simp; omega

/-- a deleted child makes the list shorter -/
theorem truncKids_length_lt {cfg : SliceCfg} {D : List String} : ∀ {ns : List Node} {n : Node},
    n ∈ ns → truncNode cfg D n = none → (truncKids cfg D ns).length < ns.length
  | [], _, hm, _ => by cases hm
  | a :: as, n, hm, hn => by
    have hle := truncKids_length_le cfg D as
    cases h : truncNode cfg D a with
    | none => rw [truncKids_cons_none h]; simp; omega
    | some y =>
      rw [truncKids_cons_some h]
      rcases List.mem_cons.1 hm with rfl | hm
      · rw [h] at hn; cases hn
      · have := truncKids_length_lt hm hn
        simp; omega

/-- a shorter list has a deleted child -/
theorem truncKids_exists_deleted {cfg : SliceCfg} {D : List String} : ∀ {ns : List Node},
    (truncKids cfg D ns).length ≠ ns.length → ∃ n, n ∈ ns ∧ truncNode cfg D n = none
  | [], h => by simp [truncKids_nil] at h
  | a :: as, h => by
    cases ha : truncNode cfg D a with
    | none => exact ⟨a, List.mem_cons_self, ha⟩
    | some y =>
      rw [truncKids_cons_some ha] at h
      have : (truncKids cfg D as).length ≠ as.length := by
        intro he; apply h; simp [he]
      obtain ⟨n, hm, hn⟩ := truncKids_exists_deleted this
      exact ⟨n, List.mem_cons_of_mem _ hm, hn⟩

theorem truncKids_eq_nil {cfg : SliceCfg} {D : List String} {ns : List Node}
    (h : truncKids cfg D ns = []) : ∀ n, n ∈ ns → truncNode cfg D n = none := by
  intro n hm
  cases hn : truncNode cfg D n with
  | none => rfl
  | some x =>
    have : x ∈ truncKids cfg D ns := mem_truncKids.2 ⟨n, hm, hn⟩
    rw [h] at this; cases this

/-! ### inversion of `truncNode` -/

theorem altResult_alt {id : String} {k : Nat} {vis : List Node} {x : Node}
    (h : altResult id k vis = some x) : ∃ xs, x = .alt id xs := by
  unfold altResult at h
  split at h
  · cases h
  · split at h
    · cases h; exact ⟨_, rfl⟩
    · cases h; exact ⟨_, rfl⟩

theorem altRest_cases (id : String) (vis : List Node) :
    (∃ x, vis = [x] ∧ altRest id vis = x) ∨ altRest id vis = .alt (visId id) vis := by
  unfold altRest
  split
  · exact Or.inl ⟨_, rfl, rfl⟩
  · exact Or.inr rfl

theorem trunc_nt_inv {cfg : SliceCfg} {D : List String} {n : Node} {name : String}
    {s r : Option String} (h : truncNode cfg D n = some (.nt name s r)) :
    n = .nt name s r ∧ truncMsg cfg D name s r = false := by
  cases n with
  | term t => simp [truncNode] at h
  | nt name' s' r' =>
    simp only [truncNode] at h
    split at h
    · cases h
    · rename_i hf
      cases h
      exact ⟨rfl, by simpa using hf⟩
  | alt id ns =>
    simp only [truncNode] at h
    obtain ⟨xs, hx⟩ := altResult_alt h
    cases hx
  | cat id ns =>
    simp only [truncNode] at h
    split at h <;> cases h
  | rep id kind n1 min max =>
    simp only [truncNode] at h
    split at h <;> cases h

theorem trunc_alt_inv {cfg : SliceCfg} {D : List String} {n : Node} {id : String} {xs : List Node}
    (h : truncNode cfg D n = some (.alt id xs)) :
    ∃ ns, n = .alt id ns ∧ altResult id ns.length (truncKids cfg D ns) = some (.alt id xs) := by
  cases n with
  | term t => simp [truncNode] at h
  | nt name' s' r' =>
    simp only [truncNode] at h
    split at h <;> cases h
  | alt id' ns =>
    simp only [truncNode] at h
    obtain ⟨xs', hx⟩ := altResult_alt h
    cases hx
    exact ⟨ns, rfl, h⟩
  | cat id' ns =>
    simp only [truncNode] at h
    split at h <;> cases h
  | rep id' kind n1 min max =>
    simp only [truncNode] at h
    split at h <;> cases h

theorem trunc_cat_inv {cfg : SliceCfg} {D : List String} {n : Node} {id : String} {xs : List Node}
    (h : truncNode cfg D n = some (.cat id xs)) :
    ∃ ns, n = .cat id ns ∧ truncKids cfg D ns = xs ∧ xs ≠ [] := by
  cases n with
  | term t => simp [truncNode] at h
  | nt name' s' r' =>
    simp only [truncNode] at h
    split at h <;> cases h
  | alt id' ns =>
    simp only [truncNode] at h
    obtain ⟨xs', hx⟩ := altResult_alt h
    cases hx
  | cat id' ns =>
    simp only [truncNode] at h
    split at h
    · cases h
    · rename_i hne
      cases h
      refine ⟨ns, rfl, rfl, ?_⟩
      intro he
      rw [he] at hne
      simp at hne
  | rep id' kind n1 min max =>
    simp only [truncNode] at h
    split at h <;> cases h

theorem trunc_rep_inv {cfg : SliceCfg} {D : List String} {n : Node} {id : String} {kind : RepKind}
    {x1 : Node} {min : Nat} {max : Option Nat}
    (h : truncNode cfg D n = some (.rep id kind x1 min max)) :
    ∃ n1, n = .rep id kind n1 min max ∧ truncNode cfg D n1 = some x1 := by
  cases n with
  | term t => simp [truncNode] at h
  | nt name' s' r' =>
    simp only [truncNode] at h
    split at h <;> cases h
  | alt id' ns =>
    simp only [truncNode] at h
    obtain ⟨xs', hx⟩ := altResult_alt h
    cases hx
  | cat id' ns =>
    simp only [truncNode] at h
    split at h <;> cases h
  | rep id' kind' n1 min' max' =>
    simp only [truncNode] at h
    split at h
    · cases h
    · rename_i y hy
      cases h
      exact ⟨n1, rfl, hy⟩

theorem trunc_rep {cfg : SliceCfg} {D : List String} (id : String) (kind : RepKind) (n1 : Node)
    (min : Nat) (max : Option Nat) :
    truncNode cfg D (.rep id kind n1 min max) =
      (truncNode cfg D n1).map (fun y => .rep id kind y min max) := by
  simp only [truncNode]
  cases truncNode cfg D n1 <;> rfl

theorem trunc_cat {cfg : SliceCfg} {D : List String} (id : String) (ns : List Node) :
    truncNode cfg D (.cat id ns) =
      if (truncKids cfg D ns).isEmpty then none else some (.cat id (truncKids cfg D ns)) := by
  simp only [truncNode]

theorem trunc_alt {cfg : SliceCfg} {D : List String} (id : String) (ns : List Node) :
    truncNode cfg D (.alt id ns) = altResult id ns.length (truncKids cfg D ns) := by
  simp only [truncNode]

/-! ### side conditions -/

/-- no message type of the node is unfolded as a nonterminal of `A` -/
def NoRule (A : Grammar) (n : Node) : Prop := ∀ m, m ∈ msgsOf n → A.rule m.type = none

theorem NoRule_alt_mem {A : Grammar} {id : String} {ns : List Node} {n : Node}
    (h : NoRule A (.alt id ns)) (hm : n ∈ ns) : NoRule A n := by
  intro m hmm
  apply h
  simp only [msgsOf]
  exact mem_msgsOfL hm hmm

theorem NoRule_cat_mem {A : Grammar} {id : String} {ns : List Node} {n : Node}
    (h : NoRule A (.cat id ns)) (hm : n ∈ ns) : NoRule A n := by
  intro m hmm
  apply h
  simp only [msgsOf]
  exact mem_msgsOfL hm hmm

theorem NoRule_cat_tail {A : Grammar} {id : String} {n : Node} {ns : List Node}
    (h : NoRule A (.cat id (n :: ns))) : NoRule A (.cat id ns) := by
  intro m hmm
  apply h
  simp only [msgsOf, msgsOfL, List.mem_append] at hmm ⊢
  exact Or.inr hmm

theorem NoRule_rep_body {A : Grammar} {id : String} {kind : RepKind} {n : Node} {min : Nat}
    {max : Option Nat} (h : NoRule A (.rep id kind n min max)) : NoRule A n := by
  intro m hmm
  apply h
  simpa [msgsOf] using hmm

theorem NoRule_rep_bounds {A : Grammar} {id : String} {kind : RepKind} {n : Node} {min min' : Nat}
    {max max' : Option Nat} (h : NoRule A (.rep id kind n min max)) :
    NoRule A (.rep id kind n min' max') := by
  intro m hmm
  apply h
  simpa [msgsOf] using hmm

theorem wfL_mem : ∀ {ns : List Node} {n : Node}, wfL ns = true → n ∈ ns → wf n = true
  | [], _, _, hm => by cases hm
  | a :: as, n, h, hm => by
    simp only [wfL, Bool.and_eq_true] at h
    rcases List.mem_cons.1 hm with rfl | hm
    · exact h.1
    · exact wfL_mem h.2 hm

theorem wfL_of_mem : ∀ {ns : List Node}, (∀ n, n ∈ ns → wf n = true) → wfL ns = true
  | [], _ => by simp [wfL]
  | a :: as, h => by
    simp only [wfL, Bool.and_eq_true]
    exact ⟨h a List.mem_cons_self, wfL_of_mem (fun n hn => h n (List.mem_cons_of_mem _ hn))⟩

theorem boundsOk_pred {min : Nat} {max : Option Nat} (hb : boundsOk min max = true)
    (hm : max ≠ some 0) : boundsOk (min - 1) (predMax max) = true := by
  cases max with
  | none => rfl
  | some mx =>
    simp only [boundsOk, predMax, decide_eq_true_eq] at hb ⊢
    omega

/-! ### one round -/

/-- the grammars before (`A`) and after (`B`) a round that truncates with the deleted names `D` -/
structure RoundHyp (cfg : SliceCfg) (D : List String) (A B : Grammar) : Prop where
  /-- the names deleted in the previous round stand for the empty interaction -/
  hD : ∀ d, d ∈ D → A.rule d = some Node.eps
  /-- every other rule is truncated; a rule whose body is deleted stands for the empty interaction -/
  hB : ∀ name, name ∉ D →
    B.rule name = (A.rule name).map (fun b => (truncNode cfg D b).getD Node.eps)
  hwf : ∀ name body, A.rule name = some body → wf body = true
  hnr : ∀ name body, A.rule name = some body → NoRule A body

theorem not_mem_of_norule {cfg : SliceCfg} {D : List String} {A B : Grammar}
    (H : RoundHyp cfg D A B) {name : String} (h : A.rule name = none) : D.contains name = false := by
  cases hc : D.contains name with
  | false => rfl
  | true =>
    have := H.hD name (by simpa using hc)
    rw [h] at this; cases this

theorem GM_opt_nil {G : Grammar} (oid : String) (x : Node) : GM G (.rep oid .opt x 0 (some 1)) [] :=
  GM.repNil oid .opt x (some 1)

theorem GM_opt_of {G : Grammar} (oid : String) {x : Node} {w : List Msg} (h : GM G x w) :
    GM G (.rep oid .opt x 0 (some 1)) w := by
  have := GM.repCons oid .opt x 0 (some 1) w [] (by simp) h (GM.repNil oid .opt x (some 0))
  simpa using this

/-- a word of the grammar goes to its visible part in the truncated grammar; the words of a deleted
    node are invisible -/
theorem trunc_fwd {cfg : SliceCfg} {D : List String} {A B : Grammar} (H : RoundHyp cfg D A B)
    {n : Node} {w : List Msg} (h : GM A n w) : NoRule A n →
    (∀ n', truncNode cfg D n = some n' → GM B n' (project cfg w)) ∧
    (truncNode cfg D n = none → project cfg w = []) := by
  induction h with
  | msg name s r =>
    intro hnr
    have hrule : A.rule name = none := hnr ⟨s, r, name⟩ (by simp [msgsOf])
    have hD := not_mem_of_norule H hrule
    have ht := truncMsg_msg cfg D name s r hD
    constructor
    · intro n' hn'
      simp only [truncNode, ht] at hn'
      split at hn'
      · cases hn'
      · rename_i hv
        cases hn'
        have hv' : visible cfg ⟨s, r, name⟩ = true := by simpa using hv
        simp only [project, List.filter_cons, hv', if_true, List.filter_nil]
        exact GM.msg name s r
    · intro hn
      simp only [truncNode, ht] at hn
      split at hn
      · rename_i hv
        have hv' : visible cfg ⟨s, r, name⟩ = false := by simpa using hv
        simp [project, hv']
      · cases hn
  | unfold name r body w hr hb ih =>
    intro _
    have ihb := ih (H.hnr name body hr)
    have ht := truncMsg_nt cfg D name r
    by_cases hc : D.contains name = true
    · -- a name deleted in the previous round: its rule is ε
      have he := H.hD name (by simpa using hc)
      rw [hr] at he
      cases he
      have hw := GM_eps_iff.1 hb
      subst hw
      constructor
      · intro n' hn'
        simp only [truncNode, ht, hc, if_true] at hn'
        cases hn'
      · intro _; rfl
    · have hc' : D.contains name = false := by simpa using hc
      have hB := H.hB name (by simpa using hc')
      rw [hr] at hB
      simp only [Option.map_some] at hB
      constructor
      · intro n' hn'
        simp only [truncNode, ht, hc', Bool.false_eq_true, if_false, Option.some.injEq] at hn'
        subst hn'
        cases hb' : truncNode cfg D body with
        | some b' =>
          rw [hb'] at hB
          exact GM.unfold name r _ _ hB (ihb.1 b' hb')
        | none =>
          rw [hb'] at hB
          rw [ihb.2 hb']
          exact GM.unfold name r _ _ hB (GM_eps_iff.2 rfl)
      · intro hn
        simp only [truncNode, ht, hc', Bool.false_eq_true, if_false] at hn
        cases hn
  | alt id ns n0 w hm _ ih =>
    intro hnr
    have ih0 := ih (NoRule_alt_mem hnr hm)
    rw [trunc_alt]
    constructor
    · intro n' hn'
      unfold altResult at hn'
      split at hn'
      · cases hn'
      · rename_i hne
        cases h0 : truncNode cfg D n0 with
        | some x0 =>
          have hx0 : x0 ∈ truncKids cfg D ns := mem_truncKids.2 ⟨n0, hm, h0⟩
          have hg := ih0.1 x0 h0
          split at hn'
          · cases hn'
            exact GM.alt id _ x0 _ hx0 hg
          · cases hn'
            refine GM.alt id _ _ _ List.mem_cons_self (GM_opt_of _ ?_)
            unfold altRest
            split
            · rename_i x hx
              rw [hx] at hx0
              simp only [List.mem_cons, List.not_mem_nil, or_false] at hx0
              rw [← hx0]; exact hg
            · exact GM.alt _ _ x0 _ hx0 hg
        | none =>
          have hlt := truncKids_length_lt hm h0
          rw [ih0.2 h0]
          split at hn'
          · rename_i he; omega
          · cases hn'
            exact GM.alt id _ _ _ List.mem_cons_self (GM_opt_nil _ _)
    · intro hn
      unfold altResult at hn
      split at hn
      · rename_i he
        have he' : truncKids cfg D ns = [] := by simpa using he
        exact ih0.2 (truncKids_eq_nil he' n0 hm)
      · split at hn <;> cases hn
  | catNil id =>
    intro _
    constructor
    · intro n' hn'
      simp [trunc_cat, truncKids_nil] at hn'
    · intro _; rfl
  | catCons id n0 ns w1 w2 _ _ ih1 ih2 =>
    intro hnr
    have i1 := ih1 (NoRule_cat_mem hnr List.mem_cons_self)
    have i2 := ih2 (NoRule_cat_tail hnr)
    rw [trunc_cat] at i2
    -- the tail, whether it is deleted or not
    have htail : GM B (.cat id (truncKids cfg D ns)) (project cfg w2) := by
      by_cases he : (truncKids cfg D ns).isEmpty = true
      · have he' : truncKids cfg D ns = [] := by simpa using he
        rw [i2.2 (by simp [he]), he']
        exact GM.catNil id
      · exact i2.1 _ (by simp [he])
    rw [trunc_cat, project_append]
    cases h0 : truncNode cfg D n0 with
    | some x0 =>
      rw [truncKids_cons_some h0]
      constructor
      · intro n' hn'
        simp only [List.isEmpty_cons, Bool.false_eq_true, if_false, Option.some.injEq] at hn'
        subst hn'
        exact GM.catCons id x0 _ _ _ (i1.1 x0 h0) htail
      · intro hn; simp at hn
    | none =>
      rw [truncKids_cons_none h0, i1.2 h0, List.nil_append]
      exact i2
  | repNil id kind n1 max =>
    intro _
    rw [trunc_rep]
    constructor
    · intro n' hn'
      cases h1 : truncNode cfg D n1 with
      | none => rw [h1] at hn'; cases hn'
      | some y =>
        rw [h1] at hn'
        cases hn'
        exact GM.repNil id kind y max
    · intro _; rfl
  | repCons id kind n1 min max w1 w2 hmax _ _ ih1 ih2 =>
    intro hnr
    have i1 := ih1 (NoRule_rep_body hnr)
    have i2 := ih2 (NoRule_rep_bounds hnr)
    rw [trunc_rep] at i2 ⊢
    rw [project_append]
    cases h1 : truncNode cfg D n1 with
    | none =>
      rw [h1] at i2
      constructor
      · intro n' hn'; cases hn'
      · intro _
        rw [i1.2 h1, i2.2 rfl]; rfl
    | some y =>
      rw [h1] at i2
      constructor
      · intro n' hn'
        cases hn'
        exact GM.repCons id kind y min max _ _ hmax (i1.1 y h1) (i2.1 _ rfl)
      · intro hn; cases hn

/-! ### a deleted node has a word (and all its words are invisible) -/

mutual
theorem deleted_word {cfg : SliceCfg} {D : List String} {A B : Grammar} (H : RoundHyp cfg D A B) :
    ∀ n : Node, wf n = true → truncNode cfg D n = none → ∃ w, GM A n w
  | .term t, _, h => by simp [truncNode] at h
  | .nt name s r, _, h => by
    cases s with
    | some s => exact ⟨_, GM.msg name s r⟩
    | none =>
      simp only [truncNode, truncMsg_nt] at h
      split at h
      · rename_i hc
        have := H.hD name (by simpa using hc)
        exact ⟨[], GM.unfold name r _ _ this (GM_eps_iff.2 rfl)⟩
      · cases h
  | .alt id [], hw, _ => by simp [wf] at hw
  | .alt id (a :: as), hw, h => by
    rw [trunc_alt] at h
    unfold altResult at h
    split at h
    · rename_i he
      have he' : truncKids cfg D (a :: as) = [] := by simpa using he
      have ha := truncKids_eq_nil he' a List.mem_cons_self
      simp only [wf, wfL, Bool.and_eq_true] at hw
      obtain ⟨w, hw'⟩ := deleted_word H a hw.2.1 ha
      exact ⟨w, GM.alt id _ a w List.mem_cons_self hw'⟩
    · split at h <;> cases h
  | .cat id ns, hw, h => by
    rw [trunc_cat] at h
    split at h
    · rename_i he
      have he' : truncKids cfg D ns = [] := by simpa using he
      simp only [wf] at hw
      exact deleted_words H ns id hw (truncKids_eq_nil he')
    · cases h
  | .rep id kind n1 min max, hw, h => by
    rw [trunc_rep] at h
    simp only [wf, Bool.and_eq_true] at hw
    cases h1 : truncNode cfg D n1 with
    | some y => rw [h1] at h; cases h
    | none =>
      obtain ⟨w0, h0⟩ := deleted_word H n1 hw.2 h1
      exact GM_rep_fill h0 min max hw.1
theorem deleted_words {cfg : SliceCfg} {D : List String} {A B : Grammar} (H : RoundHyp cfg D A B) :
    ∀ (ns : List Node) (id : String), wfL ns = true → (∀ n, n ∈ ns → truncNode cfg D n = none) →
    ∃ w, GM A (.cat id ns) w
  | [], id, _, _ => ⟨[], GM.catNil id⟩
  | a :: as, id, hw, h => by
    simp only [wfL, Bool.and_eq_true] at hw
    obtain ⟨w1, h1⟩ := deleted_word H a hw.1 (h a List.mem_cons_self)
    obtain ⟨w2, h2⟩ := deleted_words H as id hw.2 (fun n hn => h n (List.mem_cons_of_mem _ hn))
    exact ⟨w1 ++ w2, GM.catCons id a as w1 w2 h1 h2⟩
end

/-- side conditions on a node -/
def Good (A : Grammar) (n : Node) : Prop := wf n = true ∧ NoRule A n

theorem deleted_word_invisible {cfg : SliceCfg} {D : List String} {A B : Grammar}
    (H : RoundHyp cfg D A B) {n : Node} (hg : Good A n) (h : truncNode cfg D n = none) :
    ∃ w, GM A n w ∧ project cfg w = [] := by
  obtain ⟨w, hw⟩ := deleted_word H n hg.1 h
  exact ⟨w, hw, (trunc_fwd H hw hg.2).2 h⟩

theorem Good_alt_mem {A : Grammar} {id : String} {ns : List Node} {n : Node}
    (h : Good A (.alt id ns)) (hm : n ∈ ns) : Good A n := by
  refine ⟨?_, NoRule_alt_mem h.2 hm⟩
  have := h.1
  simp only [wf, Bool.and_eq_true] at this
  exact wfL_mem this.2 hm

theorem Good_cat_mem {A : Grammar} {id : String} {ns : List Node} {n : Node}
    (h : Good A (.cat id ns)) (hm : n ∈ ns) : Good A n := by
  refine ⟨?_, NoRule_cat_mem h.2 hm⟩
  have := h.1
  simp only [wf] at this
  exact wfL_mem this hm

/-- all children deleted: the concatenation has an invisible word -/
theorem cat_all_deleted {cfg : SliceCfg} {D : List String} {A B : Grammar} (H : RoundHyp cfg D A B)
    (id : String) : ∀ ns : List Node, (∀ n, n ∈ ns → Good A n) → truncKids cfg D ns = [] →
    ∃ w, GM A (.cat id ns) w ∧ project cfg w = []
  | [], _, _ => ⟨[], GM.catNil id, rfl⟩
  | a :: as, hg, h => by
    have ha := truncKids_eq_nil h a List.mem_cons_self
    rw [truncKids_cons_none ha] at h
    obtain ⟨w1, h1, p1⟩ := deleted_word_invisible H (hg a List.mem_cons_self) ha
    obtain ⟨w2, h2, p2⟩ := cat_all_deleted H id as (fun n hn => hg n (List.mem_cons_of_mem _ hn)) h
    exact ⟨w1 ++ w2, GM.catCons id a as w1 w2 h1 h2, by rw [project_append, p1, p2]; rfl⟩

/-! ### backward: every word of the truncated grammar is the visible part of a word of the grammar -/

/-- the four shapes in which truncated nodes occur inside a derivation of the truncated grammar -/
structure BwdClaim (cfg : SliceCfg) (D : List String) (A : Grammar) (x : Node) (w : List Msg) : Prop where
  /-- `x` is a truncated node -/
  node : ∀ n, Good A n → truncNode cfg D n = some x → ∃ w', GM A n w' ∧ project cfg w' = w
  /-- `x` is an alternative of truncated children (`Alternative(visible, …)`) -/
  alts : ∀ id ns, (∀ n, n ∈ ns → Good A n) → x = .alt id (truncKids cfg D ns) →
    ∃ n0, n0 ∈ ns ∧ ∃ w', GM A n0 w' ∧ project cfg w' = w
  /-- `x` is a concatenation of truncated children -/
  cats : ∀ id ns, (∀ n, n ∈ ns → Good A n) → x = .cat id (truncKids cfg D ns) →
    ∃ w', GM A (.cat id ns) w' ∧ project cfg w' = w
  /-- `x` is an option (the `Option(rest, …)` of `visitAlternative`, or any other): the claims for its body -/
  opt : ∀ oid k x1 mx, x = .rep oid k x1 0 (some mx) → mx ≤ 1 →
    w = [] ∨ ((∀ n, Good A n → truncNode cfg D n = some x1 → ∃ w', GM A n w' ∧ project cfg w' = w) ∧
      (∀ id ns, (∀ n, n ∈ ns → Good A n) → x1 = .alt id (truncKids cfg D ns) →
        ∃ n0, n0 ∈ ns ∧ ∃ w', GM A n0 w' ∧ project cfg w' = w))

theorem trunc_bwd {cfg : SliceCfg} {D : List String} {A B : Grammar} (H : RoundHyp cfg D A B)
    {x : Node} {w : List Msg} (h : GM B x w) : BwdClaim cfg D A x w := by
  induction h with
  | msg name s r =>
    refine ⟨?_, ?_, ?_, ?_⟩
    · intro n hg hn
      obtain ⟨rfl, ht⟩ := trunc_nt_inv hn
      have hrule : A.rule name = none := hg.2 ⟨s, r, name⟩ (by simp [msgsOf])
      have hD := not_mem_of_norule H hrule
      rw [truncMsg_msg cfg D name s r hD] at ht
      have hv : visible cfg ⟨s, r, name⟩ = true := by simpa using ht
      exact ⟨_, GM.msg name s r, by simp [project, hv]⟩
    · intro id ns _ hx; cases hx
    · intro id ns _ hx; cases hx
    · intro oid k x1 mx hx; cases hx
  | unfold name r body' w hr hb ih =>
    refine ⟨?_, ?_, ?_, ?_⟩
    · intro n hg hn
      obtain ⟨rfl, ht⟩ := trunc_nt_inv hn
      rw [truncMsg_nt] at ht
      have hB := H.hB name (by simpa using ht)
      rw [hr] at hB
      cases ha : A.rule name with
      | none => rw [ha] at hB; cases hB
      | some body =>
        rw [ha] at hB
        simp only [Option.map_some, Option.some.injEq] at hB
        have hgb : Good A body := ⟨H.hwf name body ha, H.hnr name body ha⟩
        cases hb' : truncNode cfg D body with
        | some b' =>
          rw [hb'] at hB
          simp only [Option.getD_some] at hB
          subst hB
          obtain ⟨w', hw', hp⟩ := ih.node body hgb hb'
          exact ⟨w', GM.unfold name r body w' ha hw', hp⟩
        | none =>
          rw [hb'] at hB
          simp only [Option.getD_none] at hB
          subst hB
          have := GM_eps_iff.1 hb
          subst this
          obtain ⟨w', hw', hp⟩ := deleted_word_invisible H hgb hb'
          exact ⟨w', GM.unfold name r body w' ha hw', hp⟩
    · intro id ns _ hx; cases hx
    · intro id ns _ hx; cases hx
    · intro oid k x1 mx hx; cases hx
  | alt id xs x0 w hm _ ih =>
    refine ⟨?_, ?_, ?_, ?_⟩
    · intro n hg hn
      obtain ⟨ns, rfl, hr⟩ := trunc_alt_inv hn
      have hgk : ∀ n, n ∈ ns → Good A n := fun n hn => Good_alt_mem hg hn
      unfold altResult at hr
      split at hr
      · cases hr
      · split at hr
        · -- every child is visible
          cases hr
          obtain ⟨n0, hn0, ht0⟩ := mem_truncKids.1 hm
          obtain ⟨w', hw', hp⟩ := ih.node n0 (hgk n0 hn0) ht0
          exact ⟨w', GM.alt id ns n0 w' hn0 hw', hp⟩
        · -- some child is invisible: the rest is optional
          rename_i hlen
          cases hr
          simp only [List.mem_cons, List.not_mem_nil, or_false] at hm
          rcases ih.opt _ _ _ _ hm (Nat.le_refl 1) with hnil | ⟨hnode, halts⟩
          · obtain ⟨nd, hnd, htd⟩ := truncKids_exists_deleted hlen
            obtain ⟨w', hw', hp⟩ := deleted_word_invisible H (hgk nd hnd) htd
            exact ⟨w', GM.alt id ns nd w' hnd hw', by rw [hp, hnil]⟩
          · rcases altRest_cases id (truncKids cfg D ns) with ⟨x1, hx1, he⟩ | he
            · rw [he] at hnode
              have hx1m : x1 ∈ truncKids cfg D ns := by rw [hx1]; exact List.mem_cons_self
              obtain ⟨n1, hn1, ht1⟩ := mem_truncKids.1 hx1m
              obtain ⟨w', hw', hp⟩ := hnode n1 (hgk n1 hn1) ht1
              exact ⟨w', GM.alt id ns n1 w' hn1 hw', hp⟩
            · obtain ⟨n0, hn0, w', hw', hp⟩ := halts (visId id) ns hgk he
              exact ⟨w', GM.alt id ns n0 w' hn0 hw', hp⟩
    · intro id' ns hgk hx
      cases hx
      obtain ⟨n0, hn0, ht0⟩ := mem_truncKids.1 hm
      obtain ⟨w', hw', hp⟩ := ih.node n0 (hgk n0 hn0) ht0
      exact ⟨n0, hn0, w', hw', hp⟩
    · intro id' ns _ hx; cases hx
    · intro oid k x1 mx hx; cases hx
  | catNil id =>
    refine ⟨?_, ?_, ?_, ?_⟩
    · intro n hg hn
      obtain ⟨ns, rfl, _, hne⟩ := trunc_cat_inv hn
      exact absurd rfl hne
    · intro id' ns _ hx; cases hx
    · intro id' ns hgk hx
      simp only [Node.cat.injEq] at hx
      obtain ⟨rfl, hnil⟩ := hx
      exact cat_all_deleted H id ns hgk hnil.symm
    · intro oid k x1 mx hx; cases hx
  | catCons id x0 xs w1 w2 _ _ ih1 ih2 =>
    have hcats : ∀ ns : List Node, (∀ n, n ∈ ns → Good A n) → truncKids cfg D ns = x0 :: xs →
        ∃ w', GM A (.cat id ns) w' ∧ project cfg w' = w1 ++ w2 := by
      intro ns
      induction ns with
      | nil => intro _ hk; simp [truncKids_nil] at hk
      | cons a as iha =>
        intro hgk hk
        have hgas : ∀ n, n ∈ as → Good A n := fun n hn => hgk n (List.mem_cons_of_mem _ hn)
        cases ha : truncNode cfg D a with
        | none =>
          rw [truncKids_cons_none ha] at hk
          obtain ⟨wa, hwa, hpa⟩ := deleted_word_invisible H (hgk a List.mem_cons_self) ha
          obtain ⟨w', hw', hp⟩ := iha hgas hk
          exact ⟨wa ++ w', GM.catCons id a as wa w' hwa hw', by rw [project_append, hpa, hp]; rfl⟩
        | some y =>
          rw [truncKids_cons_some ha] at hk
          simp only [List.cons.injEq] at hk
          obtain ⟨rfl, hxs⟩ := hk
          obtain ⟨wa, hwa, hpa⟩ := ih1.node a (hgk a List.mem_cons_self) ha
          obtain ⟨w', hw', hp⟩ := ih2.cats id as hgas (by rw [hxs])
          exact ⟨wa ++ w', GM.catCons id a as wa w' hwa hw', by rw [project_append, hpa, hp]⟩
    refine ⟨?_, ?_, ?_, ?_⟩
    · intro n hg hn
      obtain ⟨ns, rfl, hk, _⟩ := trunc_cat_inv hn
      exact hcats ns (fun n hn => Good_cat_mem hg hn) hk
    · intro id' ns _ hx; cases hx
    · intro id' ns hgk hx
      simp only [Node.cat.injEq] at hx
      obtain ⟨rfl, hk⟩ := hx
      exact hcats ns hgk hk.symm
    · intro oid k x1 mx hx; cases hx
  | repNil id kind x1 max =>
    refine ⟨?_, ?_, ?_, ?_⟩
    · intro n hg hn
      obtain ⟨n1, rfl, _⟩ := trunc_rep_inv hn
      exact ⟨[], GM.repNil id kind n1 max, rfl⟩
    · intro id' ns _ hx; cases hx
    · intro id' ns _ hx; cases hx
    · intro oid k x1' mx _ _; exact Or.inl rfl
  | repCons id kind x1 min max w1 w2 hmax _ h2 ih1 ih2 =>
    refine ⟨?_, ?_, ?_, ?_⟩
    · intro n hg hn
      obtain ⟨n1, rfl, ht1⟩ := trunc_rep_inv hn
      have hw := hg.1
      simp only [wf, Bool.and_eq_true] at hw
      have hg1 : Good A n1 := ⟨hw.2, NoRule_rep_body hg.2⟩
      have hg2 : Good A (.rep id kind n1 (min - 1) (predMax max)) :=
        ⟨by simp only [wf, Bool.and_eq_true]; exact ⟨boundsOk_pred hw.1 hmax, hw.2⟩,
         NoRule_rep_bounds hg.2⟩
      obtain ⟨wa, hwa, hpa⟩ := ih1.node n1 hg1 ht1
      obtain ⟨wb, hwb, hpb⟩ := ih2.node _ hg2 (by rw [trunc_rep, ht1]; rfl)
      exact ⟨wa ++ wb, GM.repCons id kind n1 min max wa wb hmax hwa hwb, by rw [project_append, hpa, hpb]⟩
    · intro id' ns _ hx; cases hx
    · intro id' ns _ hx; cases hx
    · intro oid k x1' mx hx hmx
      simp only [Node.rep.injEq] at hx
      obtain ⟨rfl, rfl, rfl, rfl, rfl⟩ := hx
      have hmx1 : mx = 1 := by
        have : mx ≠ 0 := fun h0 => hmax (by rw [h0])
        omega
      subst hmx1
      -- the rest of the option is empty
      have hw2 : w2 = [] := by
        rcases GM_rep_inv.1 h2 with ⟨_, hnil⟩ | ⟨hne, _⟩
        · exact hnil
        · exact absurd rfl hne
      subst hw2
      right
      rw [List.append_nil]
      exact ⟨ih1.node, ih1.alts⟩

/-- one round, at the level of nonterminals -/
theorem round_nt {cfg : SliceCfg} {D : List String} {A B : Grammar} (H : RoundHyp cfg D A B)
    {name : String} (r : Option String) (hnd : D.contains name = false) (w : List Msg) :
    GM B (.nt name none r) w ↔ ∃ w', GM A (.nt name none r) w' ∧ project cfg w' = w := by
  have ht : truncNode cfg D (.nt name none r) = some (.nt name none r) := by
    simp only [truncNode, truncMsg_nt, hnd, Bool.false_eq_true, if_false]
  constructor
  · intro h
    exact (trunc_bwd H h).node _ ⟨rfl, fun m hm => by simp [msgsOf] at hm⟩ ht
  · rintro ⟨w', hw', rfl⟩
    exact (trunc_fwd H hw' (fun m hm => by simp [msgsOf] at hm)).1 _ ht

/-! ### truncation preserves the side conditions -/

mutual
theorem wf_trunc (cfg : SliceCfg) (D : List String) : ∀ (n x : Node), wf n = true →
    truncNode cfg D n = some x → wf x = true
  | .term t, x, _, h => by
    simp only [truncNode, Option.some.injEq] at h
    subst h; rfl
  | .nt name s r, x, _, h => by
    simp only [truncNode] at h
    split at h
    · cases h
    · cases h; rfl
  | .alt id ns, x, hw, h => by
    rw [trunc_alt] at h
    simp only [wf, Bool.and_eq_true] at hw
    have hk := wfL_truncKids cfg D ns hw.2
    unfold altResult at h
    split at h
    · cases h
    · rename_i hne
      have hne' : (!(truncKids cfg D ns).isEmpty) = true := by simpa using hne
      split at h
      · cases h
        simp only [wf, Bool.and_eq_true]
        exact ⟨hne', hk⟩
      · cases h
        have hrest : wf (altRest id (truncKids cfg D ns)) = true := by
          rcases altRest_cases id (truncKids cfg D ns) with ⟨x1, hx1, he⟩ | he
          · rw [he]
            rw [hx1] at hk
            simp only [wfL, Bool.and_eq_true] at hk
            exact hk.1
          · rw [he]
            simp only [wf, Bool.and_eq_true]
            exact ⟨hne', hk⟩
        simp [wf, wfL, boundsOk, hrest]
  | .cat id ns, x, hw, h => by
    rw [trunc_cat] at h
    split at h
    · cases h
    · cases h
      simp only [wf] at hw ⊢
      exact wfL_truncKids cfg D ns hw
  | .rep id kind n1 min max, x, hw, h => by
    rw [trunc_rep] at h
    simp only [wf, Bool.and_eq_true] at hw
    cases h1 : truncNode cfg D n1 with
    | none => rw [h1] at h; cases h
    | some y =>
      rw [h1] at h
      cases h
      simp only [wf, Bool.and_eq_true]
      exact ⟨hw.1, wf_trunc cfg D n1 y hw.2 h1⟩
theorem wfL_truncKids (cfg : SliceCfg) (D : List String) : ∀ ns : List Node, wfL ns = true →
    wfL (truncKids cfg D ns) = true
  | [], _ => by simp [truncKids_nil, wfL]
  | a :: as, hw => by
    simp only [wfL, Bool.and_eq_true] at hw
    cases ha : truncNode cfg D a with
    | none =>
      rw [truncKids_cons_none ha]
      exact wfL_truncKids cfg D as hw.2
    | some y =>
      rw [truncKids_cons_some ha]
      simp only [wfL, Bool.and_eq_true]
      exact ⟨wf_trunc cfg D a y hw.1 ha, wfL_truncKids cfg D as hw.2⟩
end

mutual
theorem msgsOf_trunc (cfg : SliceCfg) (D : List String) : ∀ (n x : Node) (m : Msg),
    truncNode cfg D n = some x → m ∈ msgsOf x → m ∈ msgsOf n
  | .term t, x, m, h, hm => by
    simp only [truncNode, Option.some.injEq] at h
    subst h; exact hm
  | .nt name s r, x, m, h, hm => by
    simp only [truncNode] at h
    split at h
    · cases h
    · cases h; exact hm
  | .alt id ns, x, m, h, hm => by
    rw [trunc_alt] at h
    simp only [msgsOf]
    apply msgsOfL_truncKids cfg D ns m
    unfold altResult at h
    split at h
    · cases h
    · split at h
      · cases h
        simpa [msgsOf] using hm
      · cases h
        simp only [msgsOf, msgsOfL, List.append_nil] at hm
        rcases altRest_cases id (truncKids cfg D ns) with ⟨x1, hx1, he⟩ | he
        · rw [he] at hm
          rw [hx1]
          simp only [msgsOfL, List.append_nil]
          exact hm
        · rw [he] at hm
          simpa [msgsOf] using hm
  | .cat id ns, x, m, h, hm => by
    rw [trunc_cat] at h
    split at h
    · cases h
    · cases h
      simp only [msgsOf] at hm ⊢
      exact msgsOfL_truncKids cfg D ns m hm
  | .rep id kind n1 min max, x, m, h, hm => by
    rw [trunc_rep] at h
    cases h1 : truncNode cfg D n1 with
    | none => rw [h1] at h; cases h
    | some y =>
      rw [h1] at h
      cases h
      simp only [msgsOf] at hm ⊢
      exact msgsOf_trunc cfg D n1 y m h1 hm
theorem msgsOfL_truncKids (cfg : SliceCfg) (D : List String) : ∀ (ns : List Node) (m : Msg),
    m ∈ msgsOfL (truncKids cfg D ns) → m ∈ msgsOfL ns
  | [], m, hm => by simpa [truncKids_nil] using hm
  | a :: as, m, hm => by
    simp only [msgsOfL, List.mem_append]
    cases ha : truncNode cfg D a with
    | none =>
      rw [truncKids_cons_none ha] at hm
      exact Or.inr (msgsOfL_truncKids cfg D as m hm)
    | some y =>
      rw [truncKids_cons_some ha] at hm
      simp only [msgsOfL, List.mem_append] at hm
      rcases hm with hm | hm
      · exact Or.inl (msgsOf_trunc cfg D a y m ha hm)
      · exact Or.inr (msgsOfL_truncKids cfg D as m hm)
end

/-! ### rule lookup -/

abbrev mkG (R : List (String × Node)) : Grammar := { rules := R }

theorem rule_nil (name : String) : (mkG []).rule name = none := by
  simp [Grammar.rule]

theorem rule_cons (k : String) (b : Node) (R : List (String × Node)) (name : String) :
    (mkG ((k, b) :: R)).rule name = if k = name then some b else (mkG R).rule name := by
  unfold Grammar.rule
  simp only [List.find?_cons]
  by_cases h : k = name
  · simp [h]
  · have : (k == name) = false := by simpa using h
    simp [this, h]

theorem rule_append (X Y : List (String × Node)) (name : String) :
    (mkG (X ++ Y)).rule name =
      match (mkG X).rule name with
      | some b => some b
      | none => (mkG Y).rule name := by
  induction X with
  | nil => simp [rule_nil]
  | cons p X ih =>
    obtain ⟨k, b⟩ := p
    rw [List.cons_append, rule_cons, rule_cons]
    by_cases h : k = name
    · simp [h]
    · simp only [h, if_false]; exact ih

theorem rule_eps_list (D : List String) (name : String) :
    (mkG (D.map (fun d => (d, Node.eps)))).rule name = if D.contains name then some Node.eps else none := by
  induction D with
  | nil => simp [rule_nil]
  | cons d D ih =>
    rw [List.map_cons, rule_cons, ih]
    by_cases h : d = name
    · simp [h]
    · have h' : ¬ name = d := fun e => h e.symm
      simp [h, h']

theorem rule_none_iff (R : List (String × Node)) (name : String) :
    (mkG R).rule name = none ↔ name ∉ R.map (·.1) := by
  induction R with
  | nil => simp [rule_nil]
  | cons p R ih =>
    obtain ⟨k, b⟩ := p
    rw [rule_cons]
    by_cases h : k = name
    · simp [h]
    · have h' : ¬ name = k := fun e => h e.symm
      simp [h, h', ih]

/-- the grammar of a state of the loop: the remaining rules, and the names deleted in the last round as
    ε-rules (they are still referenced) -/
def stG (R : List (String × Node)) (D : List String) : Grammar :=
  mkG (R ++ D.map (fun d => (d, Node.eps)))

theorem stG_rule (R : List (String × Node)) (D : List String) (name : String) :
    (stG R D).rule name =
      match (mkG R).rule name with
      | some b => some b
      | none => if D.contains name then some Node.eps else none := by
  unfold stG
  rw [rule_append, rule_eps_list]

theorem stG_nil (R : List (String × Node)) : stG R [] = mkG R := by
  simp [stG]

/-! ### one round over the rules -/

theorem sliceRound_cons_some {cfg : SliceCfg} {D : List String} {name : String} {body b' : Node}
    (rest : List (String × Node)) (h : truncNode cfg D body = some b') :
    sliceRound cfg D ((name, body) :: rest) =
      ((name, b') :: (sliceRound cfg D rest).1, (sliceRound cfg D rest).2) := by
  simp only [sliceRound, h]

theorem sliceRound_cons_none {cfg : SliceCfg} {D : List String} {name : String} {body : Node}
    (rest : List (String × Node)) (h : truncNode cfg D body = none) :
    sliceRound cfg D ((name, body) :: rest) =
      ((sliceRound cfg D rest).1, name :: (sliceRound cfg D rest).2) := by
  simp only [sliceRound, h]

theorem nodupB_cons (k : String) (ks : List String) :
    nodupB (k :: ks) = true ↔ k ∉ ks ∧ nodupB ks = true := by
  simp [nodupB]

structure RoundSpec (cfg : SliceCfg) (D : List String) (R : List (String × Node)) : Prop where
  rule : ∀ name, (mkG (sliceRound cfg D R).1).rule name = ((mkG R).rule name).bind (truncNode cfg D)
  del : ∀ name, name ∈ (sliceRound cfg D R).2 ↔
    ∃ body, (mkG R).rule name = some body ∧ truncNode cfg D body = none
  len : (sliceRound cfg D R).1.length + (sliceRound cfg D R).2.length = R.length
  nodup : nodupB ((sliceRound cfg D R).1.map (·.1)) = true

theorem sliceRound_spec (cfg : SliceCfg) (D : List String) : ∀ R : List (String × Node),
    nodupB (R.map (·.1)) = true → RoundSpec cfg D R
  | [], _ => by
    refine ⟨?_, ?_, ?_, ?_⟩ <;> simp [sliceRound, rule_nil, nodupB]
  | (k, b) :: rest, hnd => by
    rw [List.map_cons, nodupB_cons] at hnd
    have ih := sliceRound_spec cfg D rest hnd.2
    have hk : (mkG rest).rule k = none := (rule_none_iff rest k).2 hnd.1
    have hk1 : (mkG (sliceRound cfg D rest).1).rule k = none := by rw [ih.rule, hk]; rfl
    have hk2 : k ∉ (sliceRound cfg D rest).2 := by
      intro hm
      obtain ⟨body, hb, _⟩ := (ih.del k).1 hm
      rw [hk] at hb; cases hb
    cases hb : truncNode cfg D b with
    | some b' =>
      have e := sliceRound_cons_some (name := k) rest hb
      refine ⟨?_, ?_, ?_, ?_⟩ <;> rw [e]
      · intro name
        simp only [rule_cons]
        by_cases h : k = name
        · simp [h, hb]
        · simp only [h, if_false]; exact ih.rule name
      · intro name
        simp only [rule_cons]
        by_cases h : k = name
        · subst h
          simp only [if_true, Option.some.injEq, exists_eq_left', hb]
          constructor
          · intro hm; exact absurd hm hk2
          · intro hc; cases hc
        · simp only [h, if_false]; exact ih.del name
      · simp only [List.length_cons]; have := ih.len; omega
      · simp only [List.map_cons]
        rw [nodupB_cons]
        exact ⟨(rule_none_iff _ k).1 hk1, ih.nodup⟩
    | none =>
      have e := sliceRound_cons_none (name := k) rest hb
      refine ⟨?_, ?_, ?_, ?_⟩ <;> rw [e]
      · intro name
        simp only [rule_cons]
        by_cases h : k = name
        · subst h
          simp only [if_true, Option.bind_some, hb]
          exact hk1
        · simp only [h, if_false]; exact ih.rule name
      · intro name
        simp only [rule_cons, List.mem_cons]
        by_cases h : k = name
        · subst h
          simp [hb]
        · have h' : ¬ name = k := fun e => h e.symm
          simp only [h, h', if_false, false_or]; exact ih.del name
      · simp only [List.length_cons]; have := ih.len; omega
      · exact ih.nodup

/-! ### the loop -/

/-- invariant of `slice_parties`' loop, relative to the grammar `G` that is being sliced -/
structure Inv (cfg : SliceCfg) (G : Grammar) (R : List (String × Node)) (D : List String) : Prop where
  nodup : nodupB (R.map (·.1)) = true
  disj : ∀ d, d ∈ D → (mkG R).rule d = none
  sub : ∀ name, (mkG R).rule name ≠ none → G.rule name ≠ none
  dsub : ∀ d, d ∈ D → G.rule d ≠ none
  good : ∀ name body, (mkG R).rule name = some body →
    wf body = true ∧ ∀ m, m ∈ msgsOf body → G.rule m.type = none
  sem : ∀ name r w, (mkG R).rule name ≠ none →
    ((∃ v, GM (stG R D) (.nt name none r) v ∧ project cfg v = w) ↔
      (∃ w', GM G (.nt name none r) w' ∧ project cfg w' = w))
  del : ∀ name r, G.rule name ≠ none → (mkG R).rule name = none →
    ∀ w', GM G (.nt name none r) w' → project cfg w' = []

/-- what the loop establishes -/
structure Final (cfg : SliceCfg) (G : Grammar) (R : List (String × Node)) : Prop where
  sem : ∀ name r w, (mkG R).rule name ≠ none →
    (GM (mkG R) (.nt name none r) w ↔ ∃ w', GM G (.nt name none r) w' ∧ project cfg w' = w)
  del : ∀ name r, G.rule name ≠ none → (mkG R).rule name = none →
    ∀ w', GM G (.nt name none r) w' → project cfg w' = []
  sub : ∀ name, (mkG R).rule name ≠ none → G.rule name ≠ none

theorem wf_eps : wf Node.eps = true := by simp [Node.eps, wf, wfL]

theorem roundHyp_of_inv {cfg : SliceCfg} {G : Grammar} {R : List (String × Node)} {D : List String}
    (I : Inv cfg G R D) :
    RoundHyp cfg D (stG R D) (stG (sliceRound cfg D R).1 (sliceRound cfg D R).2) := by
  have S := sliceRound_spec cfg D R I.nodup
  refine ⟨?_, ?_, ?_, ?_⟩
  · intro d hd
    rw [stG_rule, I.disj d hd]
    simp [hd]
  · intro name hnd
    have hc : D.contains name = false := by simpa using hnd
    rw [stG_rule, stG_rule, S.rule]
    cases hr : (mkG R).rule name with
    | none =>
      have : ¬ name ∈ (sliceRound cfg D R).2 := by
        intro hm
        obtain ⟨body, hb, _⟩ := (S.del name).1 hm
        rw [hr] at hb; cases hb
      simp [hnd, this]
    | some body =>
      cases hb : truncNode cfg D body with
      | some b' => simp [hb]
      | none =>
        have : name ∈ (sliceRound cfg D R).2 := (S.del name).2 ⟨body, hr, hb⟩
        simp [hb, this]
  · intro name body hr
    rw [stG_rule] at hr
    cases hR : (mkG R).rule name with
    | some b =>
      rw [hR] at hr
      cases hr
      exact (I.good name _ hR).1
    | none =>
      rw [hR] at hr
      simp only at hr
      split at hr
      · cases hr; exact wf_eps
      · cases hr
  · intro name body hr m hm
    rw [stG_rule] at hr
    have hbody : ∀ m, m ∈ msgsOf body → G.rule m.type = none := by
      cases hR : (mkG R).rule name with
      | some b =>
        rw [hR] at hr
        cases hr
        exact (I.good name _ hR).2
      | none =>
        rw [hR] at hr
        simp only at hr
        split at hr
        · cases hr; intro m hm; simp [Node.eps, msgsOf, msgsOfL] at hm
        · cases hr
    have hg := hbody m hm
    rw [stG_rule]
    have h1 : (mkG R).rule m.type = none := by
      cases hx : (mkG R).rule m.type with
      | none => rfl
      | some b => exact absurd hg (I.sub m.type (by rw [hx]; simp))
    have h2 : D.contains m.type = false := by
      cases hx : D.contains m.type with
      | false => rfl
      | true => exact absurd hg (I.dsub m.type (by simpa using hx))
    have h2' : m.type ∉ D := by simpa using h2
    simp [h1, h2']

theorem inv_step {cfg : SliceCfg} {G : Grammar} {R : List (String × Node)} {D : List String}
    (I : Inv cfg G R D) : Inv cfg G (sliceRound cfg D R).1 (sliceRound cfg D R).2 ∧
      (∀ name r w, (mkG (sliceRound cfg D R).1).rule name ≠ none →
        (GM (stG (sliceRound cfg D R).1 (sliceRound cfg D R).2) (.nt name none r) w ↔
          ∃ w', GM G (.nt name none r) w' ∧ project cfg w' = w)) := by
  have S := sliceRound_spec cfg D R I.nodup
  have H := roundHyp_of_inv I
  -- a surviving rule was a rule, and is not one of the names deleted before
  have hsurv : ∀ name, (mkG (sliceRound cfg D R).1).rule name ≠ none →
      (mkG R).rule name ≠ none ∧ D.contains name = false := by
    intro name hne
    rw [S.rule] at hne
    have h1 : (mkG R).rule name ≠ none := by
      intro h0; rw [h0] at hne; exact hne rfl
    refine ⟨h1, ?_⟩
    cases hc : D.contains name with
    | false => rfl
    | true => exact absurd (I.disj name (by simpa using hc)) h1
  have hsem : ∀ name r w, (mkG (sliceRound cfg D R).1).rule name ≠ none →
      (GM (stG (sliceRound cfg D R).1 (sliceRound cfg D R).2) (.nt name none r) w ↔
        ∃ w', GM G (.nt name none r) w' ∧ project cfg w' = w) := by
    intro name r w hne
    obtain ⟨h1, hc⟩ := hsurv name hne
    rw [round_nt H r hc w]
    exact I.sem name r w h1
  refine ⟨⟨S.nodup, ?_, ?_, ?_, ?_, ?_, ?_⟩, hsem⟩
  · intro d hd
    obtain ⟨body, hb, ht⟩ := (S.del d).1 hd
    rw [S.rule, hb]
    exact ht
  · intro name hne
    exact I.sub name (hsurv name hne).1
  · intro d hd
    obtain ⟨body, hb, _⟩ := (S.del d).1 hd
    exact I.sub d (by rw [hb]; simp)
  · intro name b' hr
    rw [S.rule] at hr
    cases hR : (mkG R).rule name with
    | none => rw [hR] at hr; cases hr
    | some body =>
      rw [hR] at hr
      simp only [Option.bind_some] at hr
      have hg := I.good name body hR
      exact ⟨wf_trunc cfg D body b' hg.1 hr,
        fun m hm => hg.2 m (msgsOf_trunc cfg D body b' m hr hm)⟩
  · intro name r w hne
    constructor
    · rintro ⟨v, hv, rfl⟩
      obtain ⟨w', hw', hp⟩ := (hsem name r v hne).1 hv
      exact ⟨w', hw', by rw [← hp, project_idem]⟩
    · rintro ⟨w', hw', rfl⟩
      exact ⟨project cfg w', (hsem name r _ hne).2 ⟨w', hw', rfl⟩, project_idem cfg w'⟩
  · intro name r hG hnone w' hw'
    cases hR : (mkG R).rule name with
    | none => exact I.del name r hG hR w' hw'
    | some body =>
      rw [S.rule, hR] at hnone
      simp only [Option.bind_some] at hnone
      -- every word of `name` in the state grammar is invisible
      have hinv : ∀ v, GM (stG R D) (.nt name none r) v → project cfg v = [] := by
        intro v hv
        obtain ⟨body', hb', hgb⟩ := GM_nt_iff.1 hv
        rw [stG_rule, hR] at hb'
        cases hb'
        exact (trunc_fwd H hgb (H.hnr name body (by rw [stG_rule, hR]))).2 hnone
      obtain ⟨v, hv, hp⟩ := (I.sem name r (project cfg w') (by rw [hR]; simp)).2 ⟨w', hw', rfl⟩
      rw [← hp, hinv v hv]

theorem sliceLoop_spec {cfg : SliceCfg} {G : Grammar} : ∀ (fuel : Nat) (D : List String)
    (R : List (String × Node)), R.length < fuel → Inv cfg G R D → Final cfg G (sliceLoop cfg fuel D R)
  | 0, _, _, h, _ => by omega
  | fuel + 1, D, R, hlen, I => by
    have hl := (sliceRound_spec cfg D R I.nodup).len
    obtain ⟨I', hsem⟩ := inv_step I
    unfold sliceLoop
    cases hs : sliceRound cfg D R with
    | mk rs ds =>
      rw [hs] at I' hsem hl
      simp only at I' hsem hl ⊢
      by_cases he : ds.isEmpty = true
      · simp only [he, if_true]
        have hds : ds = [] := by simpa using he
        subst hds
        rw [stG_nil] at hsem
        exact ⟨hsem, I'.del, I'.sub⟩
      · simp only [he]
        apply sliceLoop_spec fuel ds rs _ I'
        have hpos : 0 < ds.length := by
          cases ds with
          | nil => simp at he
          | cons a as => simp
        omega

theorem inv_init {cfg : SliceCfg} {G : Grammar} (hc : sliceCert G = true) : Inv cfg G G.rules [] := by
  unfold sliceCert at hc
  simp only [Bool.and_eq_true, List.all_eq_true] at hc
  have hG : mkG G.rules = G := rfl
  refine ⟨hc.1, ?_, ?_, ?_, ?_, ?_, ?_⟩
  · intro d hd; cases hd
  · intro name h; exact h
  · intro d hd; cases hd
  · intro name body hr
    have hm := rule_mem (G := G) hr
    have := hc.2 (name, body) hm
    simp only [Bool.and_eq_true, List.all_eq_true, Option.isNone_iff_eq_none] at this
    exact ⟨this.1, fun m hm => this.2 m hm⟩
  · intro name r w _
    rw [stG_nil, hG]
  · intro name r h1 h2
    exact absurd h2 h1

/-- **slicing commutes with projection**: under the certificate, the interactions of a nonterminal that
    survives `slice_parties` are exactly the visible parts of its interactions in the grammar; the
    interactions of a deleted nonterminal are invisible -/
theorem sliceG_spec {cfg : SliceCfg} {G : Grammar} (hc : sliceCert G = true) :
    Final cfg G (sliceG cfg G).rules := by
  unfold sliceG
  exact sliceLoop_spec (G.rules.length + 1) [] G.rules (Nat.lt_succ_self _) (inv_init hc)

end Fc
end FV
