/-
The exploring mode of `ContinuingNodeVisitor` (`walkNew…` in Model/Forecast.lean: `current_tree[-1] is None`)
computes the FIRST set and the nullability of a node: the options it collects are exactly the messages that
can start an interaction of the node, and it returns `continue_exploring = True` exactly when the node
derives the empty interaction.  For the empty history this is the whole forecast (`codeNexts … []`).
-/
import Proofs.Forecast
namespace FV
namespace Fc

/-- a repetition derives the empty interaction iff its bounds are consistent and it may be skipped or its
    body derives the empty interaction -/
theorem GM_rep_nil_iff {G : Grammar} {id : String} {kind : RepKind} {n : Node} :
    ∀ (min : Nat) (max : Option Nat),
    GM G (.rep id kind n min max) [] ↔ boundsOk min max = true ∧ (min = 0 ∨ GM G n []) := by
  intro min max
  constructor
  · intro h
    refine ⟨GM_rep_boundsOk min max [] h, ?_⟩
    by_cases h0 : min = 0
    · exact Or.inl h0
    · right
      rcases GM_rep_inv.1 h with ⟨h0', _⟩ | ⟨_, w1, w2, he, h1, _⟩
      · exact absurd h0' h0
      · have := append_eq_nil_left he
        subst this
        exact h1
  · rintro ⟨hb, h⟩
    rcases h with h0 | hn
    · subst h0; exact GM.repNil id kind n max
    · induction min generalizing max with
      | zero => exact GM.repNil id kind n max
      | succ k ihk =>
        have hmax : max ≠ some 0 := by
          intro h0; subst h0; simp [boundsOk] at hb
        have hb' : boundsOk k (predMax max) = true := by
          cases max with
          | none => rfl
          | some mx => simp [boundsOk, predMax] at hb ⊢; omega
        have := GM.repCons id kind n (k + 1) max [] [] hmax hn (by simpa using ihk (predMax max) hb')
        simpa using this

/-- `ω` (the visit of a nonterminal's rule) is right about nonterminal `name` -/
def WalkNt (G : Grammar) (ω : String → Walk) (name : String) : Prop :=
  (∀ m, m ∈ (ω name).1 ↔ ∃ w, GM G (.nt name none none) (m :: w)) ∧
  ((ω name).2 = true ↔ GM G (.nt name none none) [])

theorem GM_nt_recipient {G : Grammar} {name : String} (r r' : Option String) {w : List Msg} :
    GM G (.nt name none r) w ↔ GM G (.nt name none r') w := by
  rw [GM_nt_iff, GM_nt_iff]

theorem GM_nt_rule {G : Grammar} {name : String} {body : Node} (hr : G.rule name = some body)
    (r : Option String) (w : List Msg) : GM G (.nt name none r) w ↔ GM G body w := by
  rw [GM_nt_iff]
  constructor
  · rintro ⟨b, hb, h⟩
    rw [hr] at hb; cases hb; exact h
  · intro h; exact ⟨body, hr, h⟩

theorem GM_nt_norule {G : Grammar} {name : String} (hr : G.rule name = none)
    (r : Option String) (w : List Msg) : ¬ GM G (.nt name none r) w := by
  rw [GM_nt_iff]
  rintro ⟨b, hb, _⟩
  rw [hr] at hb; cases hb

/-- the children of a concatenation that passed `walkOkCat` can all be completed -/
theorem cat_word {G : Grammar} (hP : Productive G) (id : String) : ∀ ns : List Node,
    walkOkCat G ns = true → ∃ w, GM G (.cat id ns) w
  | [], _ => ⟨[], GM.catNil id⟩
  | a :: as, h => by
    simp only [walkOkCat, Bool.and_eq_true] at h
    obtain ⟨w1, h1⟩ := (nonEmpty_iff hP a).1 h.1.2
    obtain ⟨w2, h2⟩ := cat_word hP id as h.2
    exact ⟨w1 ++ w2, GM.catCons id a as w1 w2 h1 h2⟩

theorem repHasRoom_zero {max : Option Nat} (hmax : max ≠ some 0) : repHasRoom max 0 = true := by
  cases max with
  | none => rfl
  | some m =>
    simp only [repHasRoom, decide_eq_true_eq]
    have : m ≠ 0 := fun h => hmax (by rw [h])
    omega

theorem walkRepCore_zero (min : Nat) {max : Option Nat} (hmax : max ≠ some 0) (fresh : Walk) :
    walkRepCore min max 0 ([], true) fresh = (fresh.1, fresh.2 || decide (min = 0)) := by
  obtain ⟨o, c⟩ := fresh
  simp only [walkRepCore, repHasRoom_zero hmax]
  cases c with
  | true => simp
  | false =>
    by_cases h0 : min = 0
    · simp [h0]
    · have : ¬ (0 ≥ min) := by omega
      simp [h0, this]

theorem walkNewWith_rep (ω : String → Walk) (id : String) (kind : RepKind) (n : Node)
    (min : Nat) (max : Option Nat) (hmax : max ≠ some 0) :
    walkNewWith ω (.rep id kind n min max) =
      ((walkNewWith ω n).1, (walkNewWith ω n).2 || decide (min = 0)) := by
  simp only [walkNewWith]
  exact walkRepCore_zero min hmax _

theorem walkNewAlt_cons (ω : String → Walk) (a : Node) (as : List Node) :
    walkNewAlt ω (a :: as) =
      ((walkNewWith ω a).1 ++ (walkNewAlt ω as).1,
       (walkNewWith ω a).2 || (walkNewAlt ω as).2) := by
  simp only [walkNewAlt]

theorem walkNewCat_cons (ω : String → Walk) (a : Node) (as : List Node) :
    walkNewCat ω (a :: as) =
      if (walkNewWith ω a).2 then
        ((walkNewWith ω a).1 ++ (walkNewCat ω as).1, (walkNewCat ω as).2)
      else ((walkNewWith ω a).1, false) := by
  simp only [walkNewCat]

mutual
theorem walkNewWith_ok (G : Grammar) (hP : Productive G) (ω : String → Walk) :
    ∀ n : Node, (∀ name, name ∈ heads n → WalkNt G ω name) → walkOk G n = true →
    (∀ m, m ∈ (walkNewWith ω n).1 ↔ ∃ w, GM G n (m :: w)) ∧
    ((walkNewWith ω n).2 = true ↔ GM G n [])
  | .term t, _, _ => by
    simp only [walkNewWith]
    refine ⟨fun m => ?_, ?_⟩
    · constructor
      · intro h; cases h
      · rintro ⟨_, h⟩; exact absurd h GM_term
    · constructor
      · intro h; cases h
      · intro h; exact absurd h GM_term
  | .nt name s r, hω, _ => by
    cases s with
    | some s =>
      simp only [walkNewWith, GM_msg_iff]
      constructor
      · intro m
        simp only [List.mem_cons, List.not_mem_nil, or_false, List.cons.injEq]
        constructor
        · rintro rfl; exact ⟨[], rfl, rfl⟩
        · rintro ⟨_, h, _⟩; exact h
      · simp
    | none =>
      have := hω name (by simp [heads])
      simp only [walkNewWith]
      refine ⟨fun m => ?_, ?_⟩
      · rw [this.1 m]
        constructor
        · rintro ⟨w, h⟩; exact ⟨w, (GM_nt_recipient none r).1 h⟩
        · rintro ⟨w, h⟩; exact ⟨w, (GM_nt_recipient r none).1 h⟩
      · rw [this.2]; exact GM_nt_recipient none r
  | .alt id ns, hω, hk => by
    simp only [walkOk] at hk
    have := walkNewAlt_ok G hP ω ns (by simpa [heads] using hω) hk
    simp only [walkNewWith, GM_alt_iff]
    refine ⟨fun m => ?_, this.2⟩
    rw [this.1 m]
    constructor
    · rintro ⟨n, hn, w, h⟩; exact ⟨w, n, hn, h⟩
    · rintro ⟨w, n, hn, h⟩; exact ⟨n, hn, w, h⟩
  | .cat id ns, hω, hk => by
    simp only [walkOk] at hk
    have := walkNewCat_ok G hP ω ns id (by simpa [heads] using hω) hk
    simp only [walkNewWith]
    exact this
  | .rep id kind n min max, hω, hk => by
    simp only [walkOk, Bool.and_eq_true, bne_iff_ne, ne_eq] at hk
    obtain ⟨⟨hb, hmax⟩, hkn⟩ := hk
    have ih := walkNewWith_ok G hP ω n (by simpa [heads] using hω) hkn
    rw [walkNewWith_rep ω id kind n min max hmax]
    constructor
    · intro m
      rw [ih.1 m]
      constructor
      · rintro ⟨w1, h1⟩
        have hb' : boundsOk (min - 1) (predMax max) = true := by
          cases max with
          | none => rfl
          | some mx =>
            simp only [boundsOk, predMax, decide_eq_true_eq] at hb ⊢
            have : mx ≠ 0 := fun h0 => hmax (by rw [h0])
            omega
        obtain ⟨w2, h2⟩ := GM_rep_fill (id := id) (kind := kind) h1 (min - 1) (predMax max) hb'
        exact ⟨w1 ++ w2, GM.repCons id kind n min max (m :: w1) w2 hmax h1 h2⟩
      · rintro ⟨w, h⟩
        obtain ⟨w1, w2, _, h1, _, _⟩ := GM_rep_cons_split h min max m w rfl rfl
        exact ⟨w1, h1⟩
    · rw [GM_rep_nil_iff]
      simp only [Bool.or_eq_true, decide_eq_true_eq, ih.2]
      constructor
      · rintro (h | h)
        · exact ⟨hb, Or.inr h⟩
        · exact ⟨hb, Or.inl h⟩
      · rintro ⟨_, h | h⟩
        · exact Or.inr h
        · exact Or.inl h
theorem walkNewAlt_ok (G : Grammar) (hP : Productive G) (ω : String → Walk) :
    ∀ ns : List Node, (∀ name, name ∈ headsAlt ns → WalkNt G ω name) → walkOkAlt G ns = true →
    (∀ m, m ∈ (walkNewAlt ω ns).1 ↔ ∃ n, n ∈ ns ∧ ∃ w, GM G n (m :: w)) ∧
    ((walkNewAlt ω ns).2 = true ↔ ∃ n, n ∈ ns ∧ GM G n [])
  | [], _, _ => by simp [walkNewAlt]
  | a :: as, hω, hk => by
    simp only [walkOkAlt, Bool.and_eq_true] at hk
    have h1 := walkNewWith_ok G hP ω a (fun name hm => hω name (by simp [headsAlt, hm])) hk.1
    have h2 := walkNewAlt_ok G hP ω as (fun name hm => hω name (by simp [headsAlt, hm])) hk.2
    rw [walkNewAlt_cons]
    constructor
    · intro m
      simp only [List.mem_append, h1.1 m, h2.1 m, List.mem_cons]
      constructor
      · rintro (h | ⟨n, hn, h⟩)
        · exact ⟨a, Or.inl rfl, h⟩
        · exact ⟨n, Or.inr hn, h⟩
      · rintro ⟨n, rfl | hn, h⟩
        · exact Or.inl h
        · exact Or.inr ⟨n, hn, h⟩
    · simp only [Bool.or_eq_true, h1.2, h2.2, List.mem_cons]
      constructor
      · rintro (h | ⟨n, hn, h⟩)
        · exact ⟨a, Or.inl rfl, h⟩
        · exact ⟨n, Or.inr hn, h⟩
      · rintro ⟨n, rfl | hn, h⟩
        · exact Or.inl h
        · exact Or.inr ⟨n, hn, h⟩
theorem walkNewCat_ok (G : Grammar) (hP : Productive G) (ω : String → Walk) :
    ∀ (ns : List Node) (id : String), (∀ name, name ∈ headsCat ns → WalkNt G ω name) →
    walkOkCat G ns = true →
    (∀ m, m ∈ (walkNewCat ω ns).1 ↔ ∃ w, GM G (.cat id ns) (m :: w)) ∧
    ((walkNewCat ω ns).2 = true ↔ GM G (.cat id ns) [])
  | [], id, _, _ => by
    simp only [walkNewCat, GM_cat_nil_iff]
    simp
  | a :: as, id, hω, hk => by
    have hk' := hk
    simp only [walkOkCat, Bool.and_eq_true] at hk'
    obtain ⟨⟨hka, _⟩, hkas⟩ := hk'
    have h1 := walkNewWith_ok G hP ω a (fun name hm => hω name (by
      by_cases hc : consumes a = true <;> simp [headsCat, hc, hm])) hka
    obtain ⟨wr, hwr⟩ := cat_word hP id as hkas
    rw [walkNewCat_cons]
    by_cases hc1 : (walkNewWith ω a).2 = true
    · -- `a` may be skipped: the walk goes on
      have hnil : GM G a [] := h1.2.1 hc1
      have hcons : consumes a = false := by
        cases hx : consumes a with
        | false => rfl
        | true => exact absurd hnil (consumes_not_nil G a hx)
      have h2 := walkNewCat_ok G hP ω as id (fun name hm => hω name (by simp [headsCat, hcons, hm])) hkas
      simp only [hc1, if_true]
      constructor
      · intro m
        simp only [List.mem_append, h1.1 m, h2.1 m]
        constructor
        · rintro (⟨w1, hw1⟩ | ⟨w2, hw2⟩)
          · exact ⟨w1 ++ wr, GM.catCons id a as (m :: w1) wr hw1 hwr⟩
          · exact ⟨w2, GM.catCons id a as [] (m :: w2) hnil hw2⟩
        · rintro ⟨w, hw⟩
          obtain ⟨u1, u2, he, hu1, hu2⟩ := GM_cat_cons_iff.1 hw
          cases u1 with
          | nil =>
            simp only [List.nil_append] at he
            subst he
            exact Or.inr ⟨w, hu2⟩
          | cons x u1' =>
            simp only [List.cons_append, List.cons.injEq] at he
            obtain ⟨rfl, rfl⟩ := he
            exact Or.inl ⟨u1', hu1⟩
      · rw [h2.2]
        constructor
        · intro h; exact GM.catCons id a as [] [] hnil h
        · intro h
          obtain ⟨u1, u2, he, _, hu2⟩ := GM_cat_cons_iff.1 h
          have := append_eq_nil_right he
          subst this
          exact hu2
    · -- `a` consumes a message: the walk stops behind its options
      have hnn : ¬ GM G a [] := fun h => hc1 (h1.2.2 h)
      simp only [hc1, Bool.false_eq_true, if_false]
      constructor
      · intro m
        rw [h1.1 m]
        constructor
        · rintro ⟨w1, hw1⟩
          exact ⟨w1 ++ wr, GM.catCons id a as (m :: w1) wr hw1 hwr⟩
        · rintro ⟨w, hw⟩
          obtain ⟨u1, u2, he, hu1, _⟩ := GM_cat_cons_iff.1 hw
          cases u1 with
          | nil => exact absurd hu1 hnn
          | cons x u1' =>
            simp only [List.cons_append, List.cons.injEq] at he
            obtain ⟨rfl, rfl⟩ := he
            exact ⟨u1', hu1⟩
      · constructor
        · intro h; cases h
        · intro h
          obtain ⟨u1, u2, he, hu1, _⟩ := GM_cat_cons_iff.1 h
          have := append_eq_nil_left he
          subst this
          exact absurd hu1 hnn
end

/-- every rule body passes `walkOk` -/
def WalkCert (G : Grammar) : Prop := ∀ name body, G.rule name = some body → walkOk G body = true

theorem walkCert_sound {G : Grammar} (h : walkCert G = true) : WalkCert G := by
  intro name body hr
  have hm := rule_mem hr
  exact (List.all_eq_true.1 h) (name, body) hm

/-- the table of exploring visits is right about every nonterminal whose rank lies below the fuel and below the
    ranks of the nonterminals whose exploring visit is open (`seen`): under `NoLeftRec` the re-entry guard of
    `PathFinder.onNonTerminalNodeVisit` never fires -/
theorem walkNewTab_ok {G : Grammar} {rank : String → Nat} {F : Nat} (hL : NoLeftRec G rank F)
    (hP : Productive G) (hW : WalkCert G) :
    ∀ f seen name, (∀ s, s ∈ seen → rank name < rank s) → (G.rule name = none ∨ rank name < f) →
      WalkNt G (walkNewTab G f seen) name
  | 0, seen, name, _, h => by
    rcases h with h | h
    · refine ⟨fun m => ?_, ?_⟩
      · simp only [walkNewTab]
        constructor
        · intro hm; cases hm
        · rintro ⟨w, hw⟩; exact absurd hw (GM_nt_norule h none _)
      · simp only [walkNewTab]
        constructor
        · intro hm; cases hm
        · intro hw; exact absurd hw (GM_nt_norule h none _)
    · omega
  | f + 1, seen, name, hs, h => by
    have hns : seen.contains name = false := by
      cases hc : seen.contains name with
      | false => rfl
      | true =>
        have hm : name ∈ seen := by simpa using hc
        have := hs name hm
        omega
    cases hr : G.rule name with
    | none =>
      refine ⟨fun m => ?_, ?_⟩
      · simp only [walkNewTab, hns, hr]
        constructor
        · intro hm; simp at hm
        · rintro ⟨w, hw⟩; exact absurd hw (GM_nt_norule hr none _)
      · simp only [walkNewTab, hns, hr]
        constructor
        · intro hm; simp at hm
        · intro hw; exact absurd hw (GM_nt_norule hr none _)
    | some body =>
      have hrk : rank name < f + 1 := by
        rcases h with h | h
        · simp [hr] at h
        · exact h
      have key := walkNewWith_ok G hP (walkNewTab G f (name :: seen)) body (by
        intro x hx
        have hlt := (hL name body hr).2 x hx
        apply walkNewTab_ok hL hP hW f (name :: seen) x
        · intro s hsm
          rcases List.mem_cons.1 hsm with rfl | hsm
          · exact hlt
          · have := hs s hsm
            omega
        · right
          omega) (hW name body hr)
      refine ⟨fun m => ?_, ?_⟩
      · simp only [walkNewTab, hns, hr, Bool.false_eq_true, if_false]
        rw [key.1 m]
        constructor
        · rintro ⟨w, hw⟩; exact ⟨w, (GM_nt_rule hr none _).2 hw⟩
        · rintro ⟨w, hw⟩; exact ⟨w, (GM_nt_rule hr none _).1 hw⟩
      · simp only [walkNewTab, hns, hr, Bool.false_eq_true, if_false]
        rw [key.2]
        exact (GM_nt_rule hr none _).symm

theorem walkNewTab_ok_all {G : Grammar} {rank : String → Nat} {F : Nat} (hL : NoLeftRec G rank F)
    (hP : Productive G) (hW : WalkCert G) (name : String) :
    WalkNt G (walkNewTab G F []) name := by
  apply walkNewTab_ok hL hP hW
  · intro s hs; cases hs
  · cases hr : G.rule name with
    | none => exact Or.inl rfl
    | some body => exact Or.inr (hL name body hr).1

end Fc
end FV
