/-
Helper lemmas for `Props/C01.lean`: partial correctness of the budgeted expansion `expand`
(`Model/Fuzz.lean`) with respect to `Matches` / `Valid` (`Model/IR.lean`), validity preservation of
`replM`, algebra of `RepOf` (dropping / inserting whole iterations).
-/
import Model.Fuzz
import Proofs.IR
namespace FV

/-! ### token sequences and validity of forests -/

theorem toksOf_append : ∀ {f g : List Tree} {a b : List Tok},
    toksOf f = some a → toksOf g = some b → toksOf (f ++ g) = some (a ++ b)
  | [], g, a, b, hf, hg => by
    simp only [toksOf, Option.some.injEq] at hf
    subst hf
    simpa using hg
  | t :: f, g, a, b, hf, hg => by
    simp only [toksOf, List.cons_append] at hf ⊢
    cases ht : tokOf t with
    | none => simp [ht] at hf
    | some x =>
      cases hr : toksOf f with
      | none => simp [ht, hr] at hf
      | some y =>
        simp only [ht, hr, Option.some.injEq] at hf
        subst hf
        simp [toksOf_append hr hg]

theorem toksOf_append_inv : ∀ {f g : List Tree} {w : List Tok},
    toksOf (f ++ g) = some w → ∃ a b, toksOf f = some a ∧ toksOf g = some b ∧ w = a ++ b
  | [], g, w, h => ⟨[], w, rfl, by simpa using h, rfl⟩
  | t :: f, g, w, h => by
    simp only [toksOf, List.cons_append] at h ⊢
    cases ht : tokOf t with
    | none => simp [ht] at h
    | some x =>
      cases hr : toksOf (f ++ g) with
      | none => simp [ht, hr] at h
      | some y =>
        simp only [ht, hr, Option.some.injEq] at h
        obtain ⟨a, b, ha, hb, rfl⟩ := toksOf_append_inv hr
        subst h
        exact ⟨x :: a, b, by simp [ha], hb, rfl⟩

theorem validL_append {G : Grammar} {R : RegexOracle} : ∀ {f g : List Tree},
    ValidL G R f → ValidL G R g → ValidL G R (f ++ g)
  | [], _, _, hg => hg
  | _ :: _, _, hf, hg => ⟨hf.1, validL_append hf.2 hg⟩

theorem validL_append_inv {G : Grammar} {R : RegexOracle} : ∀ {f g : List Tree},
    ValidL G R (f ++ g) → ValidL G R f ∧ ValidL G R g
  | [], _, h => ⟨trivial, h⟩
  | _ :: _, _, h => ⟨⟨h.1, (validL_append_inv h.2).1⟩, (validL_append_inv h.2).2⟩

theorem validL_of_mem {G : Grammar} {R : RegexOracle} : ∀ {f : List Tree} {t : Tree},
    ValidL G R f → t ∈ f → Valid G R t
  | _ :: _, t, h, hm => by
    rcases List.mem_cons.1 hm with rfl | hm
    · exact h.1
    · exact validL_of_mem h.2 hm

theorem validL_of_forall {G : Grammar} {R : RegexOracle} : ∀ {f : List Tree},
    (∀ t ∈ f, Valid G R t) → ValidL G R f
  | [], _ => trivial
  | t :: f, h => ⟨h t (List.mem_cons_self ..), validL_of_forall (fun u hu => h u (List.mem_cons_of_mem _ hu))⟩

/-! ### RepOf: whole iterations can be appended, split off, dropped, inserted -/

theorem repOf_append {P : List Tok → Prop} : ∀ {a b : Nat} {u v : List Tok},
    RepOf P a u → RepOf P b v → RepOf P (a + b) (u ++ v)
  | 0, b, u, v, hu, hv => by
    simp only [RepOf] at hu
    subst hu
    simpa using hv
  | a + 1, b, u, v, hu, hv => by
    obtain ⟨w1, w2, rfl, hp, hr⟩ := hu
    have : a + 1 + b = (a + b) + 1 := by omega
    rw [this]
    exact ⟨w1, w2 ++ v, by simp, hp, repOf_append hr hv⟩

theorem repOf_split {P : List Tok → Prop} : ∀ (a b : Nat) {w : List Tok},
    RepOf P (a + b) w → ∃ u v, w = u ++ v ∧ RepOf P a u ∧ RepOf P b v
  | 0, b, w, h => ⟨[], w, rfl, rfl, by simpa using h⟩
  | a + 1, b, w, h => by
    have : a + 1 + b = (a + b) + 1 := by omega
    rw [this] at h
    obtain ⟨w1, w2, rfl, hp, hr⟩ := h
    obtain ⟨u, v, rfl, hu, hv⟩ := repOf_split a b hr
    exact ⟨w1 ++ u, v, by simp, ⟨w1, u, rfl, hp, hu⟩, hv⟩

theorem repOf_one {P : List Tok → Prop} {w : List Tok} (h : P w) : RepOf P 1 w :=
  ⟨w, [], by simp, h, rfl⟩

/-- congruence of a concatenation in one position -/
theorem matchesCat_middle {R : RegexOracle} : ∀ {ns1 : List Node} {n : Node} {ns2 : List Node}
    {w1 w w2 : List Tok}, MatchesCat R ns1 w1 → Matches R n w → MatchesCat R ns2 w2 →
    MatchesCat R (ns1 ++ n :: ns2) (w1 ++ w ++ w2)
  | [], n, ns2, w1, w, w2, h1, h, h2 => by
    simp only [MatchesCat] at h1
    subst h1
    exact ⟨w, w2, by simp, h, h2⟩
  | m :: ns1, n, ns2, w1, w, w2, h1, h, h2 => by
    obtain ⟨x, y, rfl, hx, hy⟩ := h1
    exact ⟨x, y ++ w ++ w2, by simp, hx, matchesCat_middle hy h h2⟩

/-! ### erasing distances -/

theorem erase_rule (G : FGrammar) (s : String) :
    G.erase.rule s = (G.rule s).map FNode.erase := by
  unfold FGrammar.erase Grammar.rule FGrammar.rule
  simp only
  induction G.rules with
  | nil => simp
  | cons p ps ih =>
    simp only [List.map_cons, List.find?_cons]
    cases hp : (p.1 == s) with
    | true => simp
    | false => simpa using ih

theorem matchesAny_of_mem {R : RegexOracle} : ∀ {ns : List FNode} {c : FNode} {w : List Tok},
    c ∈ ns → Matches R c.erase w → MatchesAny R (FNode.eraseL ns) w
  | n :: ns, c, w, hm, h => by
    simp only [FNode.eraseL, MatchesAny]
    rcases List.mem_cons.1 hm with rfl | hm
    · exact Or.inl h
    · exact Or.inr (matchesAny_of_mem hm h)

theorem altCands_mem {ns : List FNode} {b : Int} {k : Nat} {c : FNode}
    (h : (altCands ns b).1[k]? = some c) : c ∈ ns := by
  have hm : c ∈ (altCands ns b).1 := List.mem_of_getElem? h
  unfold altCands at hm
  simp only at hm
  split at hm
  · exact (List.mem_filter.1 hm).1
  · exact (List.mem_filter.1 hm).1

/-! ### the specification of a fuzz call -/

def ChoiceOk (G : Grammar) (R : RegexOracle) : Choice → Prop
  | .regex id l => R id l = true
  | .gen t => Valid G R t
  | _ => True

/-- every regex instance on the tape is a full match of its regex (oracle), every generator result is
    a derivation (parser soundness, C04) -/
def TapeOk (G : Grammar) (R : RegexOracle) (tape : Tape) : Prop := ∀ c ∈ tape, ChoiceOk G R c

theorem tapeOk_tail {G : Grammar} {R : RegexOracle} {c : Choice} {t : Tape}
    (h : TapeOk G R (c :: t)) : TapeOk G R t := fun x hx => h x (List.mem_cons_of_mem _ hx)

/-- the children appended by a fuzz call spell out one expansion of the node, and are derivations -/
def Good (G : Grammar) (R : RegexOracle) (n : Node) (f : List Tree) : Prop :=
  ∃ toks, toksOf f = some toks ∧ Matches R n toks ∧ ValidL G R f

def RecSpec (G : FGrammar) (R : RegexOracle) (rec : Rec) : Prop :=
  ∀ n path inMsg b tape f tape', TapeOk G.erase R tape → rec n path inMsg b tape = some (f, tape') →
    Good G.erase R n.erase f ∧ TapeOk G.erase R tape'

theorem expandCat_spec {G : FGrammar} {R : RegexOracle} {rec : Rec} (hrec : RecSpec G R rec)
    (all : List FNode) (d : Nat) (path : List String) (inMsg : Bool) :
    ∀ (rest : List FNode) (i : Nat) (b : Int) (tape : Tape) (f : List Tree) (tape' : Tape),
      TapeOk G.erase R tape → expandCat rec all d path inMsg i rest b tape = some (f, tape') →
      (∃ toks, toksOf f = some toks ∧ MatchesCat R (FNode.eraseL rest) toks ∧ ValidL G.erase R f)
        ∧ TapeOk G.erase R tape'
  | [], i, b, tape, f, tape', ht, h => by
    simp only [expandCat, Option.some.injEq, Prod.mk.injEq] at h
    obtain ⟨rfl, rfl⟩ := h
    exact ⟨⟨[], rfl, by simp [FNode.eraseL, MatchesCat], trivial⟩, ht⟩
  | n :: rest, i, b, tape, f, tape', ht, h => by
    simp only [expandCat] at h
    split at h
    · simp at h
    · rename_i f1 t1 h1
      split at h
      · simp at h
      · rename_i fs t2 h2
        simp only [Option.some.injEq, Prod.mk.injEq] at h
        obtain ⟨rfl, rfl⟩ := h
        obtain ⟨⟨w1, hw1, hm1, hv1⟩, ht1⟩ := hrec _ _ _ _ _ _ _ ht h1
        obtain ⟨⟨w2, hw2, hm2, hv2⟩, ht2⟩ := expandCat_spec hrec all d path inMsg rest _ _ _ _ _ ht1 h2
        refine ⟨⟨w1 ++ w2, toksOf_append hw1 hw2, ?_, validL_append hv1 hv2⟩, ht2⟩
        simp only [FNode.eraseL, MatchesCat]
        exact ⟨w1, w2, rfl, hm1, hm2⟩

theorem expandRep_spec {G : FGrammar} {R : RegexOracle} {rec : Rec} (hrec : RecSpec G R rec)
    (n : FNode) (mn : Nat) (ovr : Bool) (path : List String) (inMsg : Bool) :
    ∀ (rem rep : Nat) (resv b : Int) (tape : Tape) (f : List Tree) (tape' : Tape),
      TapeOk G.erase R tape → expandRep rec n mn ovr path inMsg rep rem resv b tape = some (f, tape') →
      (∃ k toks, toksOf f = some toks ∧ RepOf (fun v => Matches R n.erase v) k toks ∧ k ≤ rem
          ∧ (mn ≤ rep + k ∨ k = rem) ∧ (ovr = true → k = rem) ∧ ValidL G.erase R f)
        ∧ TapeOk G.erase R tape'
  | 0, rep, resv, b, tape, f, tape', ht, h => by
    simp only [expandRep, Option.some.injEq, Prod.mk.injEq] at h
    obtain ⟨rfl, rfl⟩ := h
    exact ⟨⟨0, [], rfl, rfl, Nat.le_refl _, Or.inr rfl, fun _ => rfl, trivial⟩, ht⟩
  | rem + 1, rep, resv, b, tape, f, tape', ht, h => by
    -- one more iteration of the body with budget `bn`, then the rest of the loop
    have step : ∀ (bn resv' : Int), (match rec n path inMsg bn tape with
        | none => none
        | some (f, tape') =>
          match expandRep rec n mn ovr path inMsg (rep + 1) rem resv' (b - (Tree.sizeL f : Nat)) tape' with
          | none => none
          | some (fs, tape'') => some (f ++ fs, tape'')) = some (f, tape') →
        (∃ k toks, toksOf f = some toks ∧ RepOf (fun v => Matches R n.erase v) k toks ∧ k ≤ rem + 1
          ∧ (mn ≤ rep + k ∨ k = rem + 1) ∧ (ovr = true → k = rem + 1) ∧ ValidL G.erase R f)
          ∧ TapeOk G.erase R tape' := by
      intro bn resv' h
      split at h
      · simp at h
      · rename_i f1 t1 h1
        split at h
        · simp at h
        · rename_i fs t2 h2
          simp only [Option.some.injEq, Prod.mk.injEq] at h
          obtain ⟨rfl, rfl⟩ := h
          obtain ⟨⟨w1, hw1, hm1, hv1⟩, ht1⟩ := hrec _ _ _ _ _ _ _ ht h1
          obtain ⟨⟨k, w2, hw2, hr2, hk, hmin, hovr, hv2⟩, ht2⟩ :=
            expandRep_spec hrec n mn ovr path inMsg rem _ _ _ _ _ _ ht1 h2
          refine ⟨⟨k + 1, w1 ++ w2, toksOf_append hw1 hw2, ⟨w1, w2, rfl, hm1, hr2⟩, by omega, ?_,
            fun ho => by have := hovr ho; omega, validL_append hv1 hv2⟩, ht2⟩
          rcases hmin with h | h
          · left; omega
          · right; omega
    simp only [expandRep] at h
    split at h
    · split at h
      · simp only [Option.some.injEq, Prod.mk.injEq] at h
        obtain ⟨rfl, rfl⟩ := h
        rename_i hstop
        simp only [Bool.and_eq_true, decide_eq_true_eq] at hstop
        exact ⟨⟨0, [], rfl, rfl, Nat.zero_le _, Or.inl (by omega), fun ho => by simp [ho] at hstop,
          trivial⟩, ht⟩
      · exact step _ _ h
    · exact step _ _ h

theorem expandDeps_spec {G : FGrammar} {R : RegexOracle} {rec : Rec} (hrec : RecSpec G R rec)
    (path : List String) (b : Int) :
    ∀ (ds : List String) (tape tape' : Tape), TapeOk G.erase R tape →
      expandDeps rec path b ds tape = some tape' → TapeOk G.erase R tape'
  | [], tape, tape', ht, h => by
    simp only [expandDeps, Option.some.injEq] at h
    subst h
    exact ht
  | d :: ds, tape, tape', ht, h => by
    simp only [expandDeps] at h
    split at h
    · simp at h
    · rename_i f1 t1 h1
      exact expandDeps_spec hrec path b ds _ _ (hrec _ _ _ _ _ _ _ ht h1).2 h

/-- one level of `fuzz()` is correct if the recursive calls are -/
theorem expandNode_spec {G : FGrammar} {R : RegexOracle} {rec : Rec} (hrec : RecSpec G R rec) :
    RecSpec G R (expandNode G rec) := by
  intro n path inMsg b tape f tape' ht h
  cases n with
  | term t d key =>
    cases t with
    | lit l =>
      simp only [expandNode, Option.some.injEq, Prod.mk.injEq] at h
      obtain ⟨rfl, rfl⟩ := h
      refine ⟨⟨[.leaf l], rfl, ?_, ⟨rfl, trivial⟩⟩, ht⟩
      simp only [FNode.erase, Matches]
      exact ⟨.leaf l, rfl, by simp [termOk]⟩
    | regex id =>
      simp only [expandNode] at h
      split at h
      · rename_i id' l rest
        split at h
        · rename_i hid
          simp only [Option.some.injEq, Prod.mk.injEq] at h
          obtain ⟨rfl, rfl⟩ := h
          have hc : ChoiceOk G.erase R (.regex id' l) := ht _ (List.mem_cons_self ..)
          refine ⟨⟨[.leaf l], rfl, ?_, ⟨rfl, trivial⟩⟩, tapeOk_tail ht⟩
          simp only [FNode.erase, Matches]
          exact ⟨.leaf l, rfl, by subst hid; simpa [termOk, ChoiceOk] using hc⟩
        · simp at h
      · simp at h
  | nt name snd rcp d =>
    simp only [expandNode] at h
    split at h
    · simp at h
    · rename_i body hbody
      have hrule : G.erase.rule name = some body.erase := by rw [erase_rule, hbody]; rfl
      split at h
      · -- generator branch
        rename_i ds hds
        split at h
        · simp at h
        · rename_i t1 h1
          have ht1 := expandDeps_spec hrec _ _ ds _ _ ht h1
          split at h
          · rename_i g a r kids rest
            split at h
            · rename_i hg
              simp only [Option.some.injEq, Prod.mk.injEq] at h
              obtain ⟨rfl, rfl⟩ := h
              have hc : ChoiceOk G.erase R (.gen (.mk (.nt g) a r kids)) := ht1 _ (List.mem_cons_self ..)
              simp only [ChoiceOk, Valid] at hc
              subst hg
              refine ⟨⟨[.ntk g], rfl, by simp [FNode.erase, Matches], ⟨?_, trivial⟩⟩, tapeOk_tail ht1⟩
              simpa only [Valid] using hc
            · simp at h
          · simp at h
      · -- ordinary expansion of the symbol's rule
        split at h
        · simp at h
        · rename_i kids t1 h1
          simp only [Option.some.injEq, Prod.mk.injEq] at h
          obtain ⟨rfl, rfl⟩ := h
          obtain ⟨⟨w, hw, hm, hv⟩, ht1⟩ := hrec _ _ _ _ _ _ _ ht h1
          refine ⟨⟨[.ntk name], rfl, by simp [FNode.erase, Matches], ⟨?_, trivial⟩⟩, ht1⟩
          simp only [Valid]
          exact ⟨⟨body.erase, w, hrule, hw, hm⟩, hv⟩
  | alt id d ns =>
    simp only [expandNode] at h
    split at h
    · rename_i k rest
      split at h
      · rename_i c hc
        obtain ⟨⟨w, hw, hm, hv⟩, ht1⟩ := hrec _ _ _ _ _ _ _ (tapeOk_tail ht) h
        refine ⟨⟨w, hw, ?_, hv⟩, ht1⟩
        simp only [FNode.erase, Matches]
        exact matchesAny_of_mem (altCands_mem hc) hm
      · simp at h
    · simp at h
  | cat id d ns =>
    simp only [expandNode] at h
    obtain ⟨⟨w, hw, hm, hv⟩, ht1⟩ := expandCat_spec hrec ns d path inMsg ns 0 b tape f tape' ht h
    exact ⟨⟨w, hw, by simpa only [FNode.erase, Matches] using hm, hv⟩, ht1⟩
  | rep id kind d n mn mx =>
    simp only [expandNode] at h
    split at h
    · rename_i goal rest
      split at h
      · rename_i hgoal
        obtain ⟨⟨k, w, hw, hr, hk, hmin, _, hv⟩, ht1⟩ :=
          expandRep_spec hrec n mn false path inMsg goal 0 _ _ _ _ _ (tapeOk_tail ht) h
        refine ⟨⟨w, hw, ?_, hv⟩, ht1⟩
        simp only [FNode.erase, Matches]
        refine ⟨k, ⟨by omega, ?_⟩, hr⟩
        intro m hm
        subst hm
        have := hgoal.2
        simp only [Option.getD_some] at this
        omega
      · simp at h
    · simp at h

/-- **partial correctness of budgeted expansion**, for every recursion bound -/
theorem expand_spec (G : FGrammar) (R : RegexOracle) : ∀ fuel, RecSpec G R (expand G fuel)
  | 0 => by
    intro n path inMsg b tape f tape' _ h
    simp [expand] at h
  | fuel + 1 => by
    simp only [expand]
    exact expandNode_spec (expand_spec G R fuel)

/-! ### annotated trees -/

theorem erase_tok (t : ATree) : tokOf t.erase = match t.sym with
    | .term l => some (.leaf l) | .nt n => some (.ntk n) | .slice => none := by
  cases t with
  | mk s a r ro o ks => cases s <;> simp [ATree.erase, ATree.sym, tokOf]

theorem eraseL_append : ∀ (a b : List ATree), ATree.eraseL (a ++ b) = ATree.eraseL a ++ ATree.eraseL b
  | [], b => rfl
  | t :: a, b => by simp [ATree.eraseL, eraseL_append a b]

theorem eraseL_mem : ∀ {ks : List ATree} {t : ATree}, t ∈ ks → t.erase ∈ ATree.eraseL ks
  | k :: ks, t, h => by
    simp only [ATree.eraseL, List.mem_cons]
    rcases List.mem_cons.1 h with rfl | h
    · exact Or.inl rfl
    · exact Or.inr (eraseL_mem h)

theorem erase_ofTree : ∀ t : Tree, (ATree.ofTree t).erase = t
  | .mk s a r ks => by simp [ATree.ofTree, ATree.erase, eraseL_ofTreeL ks]
where eraseL_ofTreeL : ∀ ks : List Tree, ATree.eraseL (ATree.ofTreeL ks) = ks
  | [] => rfl
  | t :: ts => by simp [ATree.ofTreeL, ATree.eraseL, erase_ofTree t, eraseL_ofTreeL ts]

/-- validity of an annotated tree = validity of its structure -/
def AValid (G : Grammar) (R : RegexOracle) (t : ATree) : Prop := Valid G R t.erase

theorem subAt_valid {G : Grammar} {R : RegexOracle} : ∀ (p : List Nat) (t u : ATree),
    AValid G R t → t.subAt p = some u → AValid G R u
  | [], t, u, hv, h => by
    simp only [ATree.subAt, Option.some.injEq] at h
    subst h; exact hv
  | i :: p, .mk s a r ro o ks, u, hv, h => by
    simp only [ATree.subAt] at h
    split at h
    · rename_i k hk
      have hmem : k ∈ ks := List.mem_of_getElem? hk
      have hkv : AValid G R k := by
        unfold AValid at hv ⊢
        cases s with
        | term l =>
          simp only [ATree.erase, Valid] at hv
          cases ks with
          | nil => simp at hmem
          | cons x xs => simp [ATree.eraseL] at hv
        | nt n =>
          simp only [ATree.erase, Valid] at hv
          exact validL_of_mem hv.2 (eraseL_mem hmem)
        | slice => simp [ATree.erase, Valid] at hv
      exact subAt_valid p k u hkv h
    · simp at h

/-! ### replace_multiple keeps derivations -/

/-- all replacement trees are derivations -/
def ReplOk (G : Grammar) (R : RegexOracle) (repl : List (List Nat × ATree)) : Prop :=
  ∀ e ∈ repl, AValid G R e.2

theorem lookupRepl_mem {repl : List (List Nat × ATree)} {p : List Nat} {r : ATree}
    (h : lookupRepl repl p = some r) : ∃ e ∈ repl, e.2 = r := by
  unfold lookupRepl at h
  split at h
  · rename_i e he
    simp only [Option.some.injEq] at h
    exact ⟨e, List.mem_reverse.1 (List.mem_of_find?_eq_some he), h⟩
  · simp at h

/-- the statement proved by induction on the walk's bound: the result has the same symbol as the
    node it stands for and is a derivation -/
theorem replM_valid {G : Grammar} {R : RegexOracle} {repl : List (List Nat × ATree)}
    (hrepl : ReplOk G R repl) :
    ∀ (fuel : Nat),
      (∀ cur t t', AValid G R t → replM repl fuel cur t = some t' → t'.sym = t.sym ∧ AValid G R t') ∧
      (∀ cur i ts ts', ValidL G R (ATree.eraseL ts) → replL repl fuel cur i ts = some ts' →
        toksOf (ATree.eraseL ts') = toksOf (ATree.eraseL ts) ∧ ValidL G R (ATree.eraseL ts'))
  | 0 => ⟨by intro cur t t' _ h; simp [replM] at h, by intro cur i ts ts' _ h; simp [replL] at h⟩
  | fuel + 1 => by
    have ih := replM_valid hrepl fuel
    -- rebuilding a valid node over children with the same tokens
    have rebuild : ∀ (s : Sym) (a r a' r' : Option String) (ro ro' : Bool) (o o' : List Tag)
        (ks ks'' : List ATree) (cur : List Nat),
        AValid G R (.mk s a r ro o ks) → replL repl fuel cur 0 ks = some ks'' →
        AValid G R (.mk s a' r' ro' o' ks'') := by
      intro s a r a' r' ro ro' o o' ks ks'' cur hv hl
      unfold AValid at hv ⊢
      cases s with
      | term l =>
        simp only [ATree.erase, Valid] at hv ⊢
        cases ks with
        | nil =>
          cases fuel with
          | zero => simp [replL] at hl
          | succ f => simp only [replL, Option.some.injEq] at hl; subst hl; rfl
        | cons x xs => simp [ATree.eraseL] at hv
      | nt n =>
        simp only [ATree.erase, Valid] at hv ⊢
        obtain ⟨⟨body, toks, hb, htk, hm⟩, hvl⟩ := hv
        obtain ⟨h1, h2⟩ := ih.2 cur 0 ks ks'' hvl hl
        exact ⟨⟨body, toks, hb, by rw [h1]; exact htk, hm⟩, h2⟩
      | slice => simp [ATree.erase, Valid] at hv
    refine ⟨?_, ?_⟩
    · intro cur t t' hv h
      cases t with
      | mk s a r ro o ks =>
        simp only [replM] at h
        split at h
        · rename_i s' a' r' ro' o' ks' hlk
          split at h
          · rename_i hcond
            obtain ⟨hs, hro⟩ := hcond
            split at h
            · rename_i ks'' hl
              simp only [Option.some.injEq] at h
              subst h
              obtain ⟨e, he, hr⟩ := lookupRepl_mem hlk
              have hrv : AValid G R (.mk s' a' r' ro' o' ks') := hr ▸ hrepl e he
              exact ⟨by simp [ATree.sym, hs], rebuild s' a' r' a' r' ro' ro' o' o ks' ks'' cur hrv hl⟩
            · simp at h
          · split at h
            · rename_i ks'' hl
              simp only [Option.some.injEq] at h
              subst h
              exact ⟨rfl, rebuild s a r a r ro ro o o ks ks'' cur hv hl⟩
            · simp at h
        · split at h
          · rename_i ks'' hl
            simp only [Option.some.injEq] at h
            subst h
            exact ⟨rfl, rebuild s a r a r ro ro o o ks ks'' cur hv hl⟩
          · simp at h
    · intro cur i ts ts' hv h
      cases ts with
      | nil =>
        simp only [replL, Option.some.injEq] at h
        subst h
        exact ⟨rfl, trivial⟩
      | cons t ts =>
        simp only [replL] at h
        split at h
        · rename_i t1 ts1 h1 h2
          simp only [Option.some.injEq] at h
          subst h
          simp only [ATree.eraseL, ValidL] at hv
          obtain ⟨hs, hv1⟩ := ih.1 _ t t1 hv.1 h1
          obtain ⟨htk, hv2⟩ := ih.2 _ _ ts ts1 hv.2 h2
          refine ⟨?_, ?_⟩
          · simp only [ATree.eraseL, toksOf, erase_tok, hs, htk]
          · simp only [ATree.eraseL, ValidL]
            exact ⟨hv1, hv2⟩
        · simp at h

/-- a key whose replacement has another symbol, or whose node is read-only, is not replaced:
    the node keeps its own fields -/
theorem replM_refuses {repl : List (List Nat × ATree)} {fuel : Nat} {cur : List Nat}
    {s : Sym} {a r : Option String} {ro : Bool} {o : List Tag} {ks : List ATree} {t' : ATree}
    (hno : ∀ x, lookupRepl repl cur = some x → ¬ (s = x.sym ∧ ro = false))
    (h : replM repl (fuel + 1) cur (.mk s a r ro o ks) = some t') :
    ∃ ks', replL repl fuel cur 0 ks = some ks' ∧ t' = .mk s a r ro o ks' := by
  simp only [replM] at h
  split at h
  · rename_i s' a' r' ro' o' ks' hlk
    split at h
    · rename_i hc
      exact absurd hc (hno _ hlk)
    · split at h
      · rename_i ks'' hl
        simp only [Option.some.injEq] at h
        exact ⟨ks'', hl, h.symm⟩
      · simp at h
  · split at h
    · rename_i ks'' hl
      simp only [Option.some.injEq] at h
      exact ⟨ks'', hl, h.symm⟩
    · simp at h

/-- with no applicable key anywhere the walk is the identity -/
theorem replM_nil : ∀ (fuel : Nat),
    (∀ cur t t', replM [] fuel cur t = some t' → t' = t) ∧
    (∀ cur i ts ts', replL [] fuel cur i ts = some ts' → ts' = ts)
  | 0 => ⟨by intro _ _ _ h; simp [replM] at h, by intro _ _ _ _ h; simp [replL] at h⟩
  | fuel + 1 => by
    have ih := replM_nil fuel
    refine ⟨?_, ?_⟩
    · intro cur t t' h
      cases t with
      | mk s a r ro o ks =>
        simp only [replM, lookupRepl, List.reverse_nil, List.find?_nil] at h
        split at h
        · rename_i ks'' hl
          simp only [Option.some.injEq] at h
          rw [← h, ih.2 _ _ _ _ hl]
        · simp at h
    · intro cur i ts ts' h
      cases ts with
      | nil => simp only [replL, Option.some.injEq] at h; exact h.symm
      | cons t ts =>
        simp only [replL] at h
        split at h
        · rename_i t1 ts1 h1 h2
          simp only [Option.some.injEq] at h
          rw [← h, ih.1 _ _ _ h1, ih.2 _ _ _ _ h2]
        · simp at h

end FV
