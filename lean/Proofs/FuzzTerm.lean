/-
Termination of budgeted expansion (`Node.fuzz`), for the model `expandF` of `Model/FuzzT.lean`.

* `expandF_toOption`   : `expandF` is `expand` with the reason for "no result" kept apart
* `expandF_no_fuel`    : on a grammar whose distances satisfy `WellDist` (what `prime()` leaves behind,
                         `Proofs/PrimeGrammar.lean`) and that has no generators, a recursion bound above
                         `phi` is never hit.  `phi` is `depthBound` (a function of the grammar alone) once
                         the budget is exhausted (`b ≤ 0`), and `(draws + 1) · depthBound` otherwise.
-/
import Model.FuzzT
import Proofs.Fuzz
import Proofs.PrimeGrammar
namespace FV
namespace Term

/-! ### `expandF` refines `expand` -/

theorem expandCatF_toOption {recF : RecF} {rec : Rec}
    (h : ∀ n p i b t, (recF n p i b t).toOption = rec n p i b t)
    (all : List FNode) (d : Nat) (path : List String) (inMsg : Bool) :
    ∀ (rest : List FNode) (i : Nat) (b : Int) (tape : Tape),
      (expandCatF recF all d path inMsg i rest b tape).toOption = expandCat rec all d path inMsg i rest b tape
  | [], i, b, tape => rfl
  | n :: rest, i, b, tape => by
    simp only [expandCatF, expandCat]
    rw [← h]
    cases hr : recF n path inMsg (if (n.dist : Int) ≥ b then 0 else b - reserved all d i n) tape with
    | stuck => simp [Out.toOption]
    | fuel => simp [Out.toOption]
    | ok x =>
      obtain ⟨f, t'⟩ := x
      simp only [Out.toOption]
      rw [← expandCatF_toOption h all d path inMsg rest (i + 1) _ t']
      cases expandCatF recF all d path inMsg (i + 1) rest (b - (Tree.sizeL f : Nat)) t' with
      | stuck => simp [Out.toOption]
      | fuel => simp [Out.toOption]
      | ok y => simp [Out.toOption]

theorem expandRepF_toOption {recF : RecF} {rec : Rec}
    (h : ∀ n p i b t, (recF n p i b t).toOption = rec n p i b t)
    (n : FNode) (mn : Nat) (ovr : Bool) (path : List String) (inMsg : Bool) :
    ∀ (rem rep : Nat) (resv b : Int) (tape : Tape),
      (expandRepF recF n mn ovr path inMsg rep rem resv b tape).toOption
        = expandRep rec n mn ovr path inMsg rep rem resv b tape
  | 0, rep, resv, b, tape => rfl
  | rem + 1, rep, resv, b, tape => by
    have step : ∀ (bn resv' : Int),
        (match recF n path inMsg bn tape with
          | .stuck => Out.stuck
          | .fuel => Out.fuel
          | .ok (f, tape') =>
            match expandRepF recF n mn ovr path inMsg (rep + 1) rem resv' (b - (Tree.sizeL f : Nat)) tape' with
            | .stuck => Out.stuck
            | .fuel => Out.fuel
            | .ok (fs, tape'') => Out.ok (f ++ fs, tape'')).toOption
        = (match rec n path inMsg bn tape with
          | none => none
          | some (f, tape') =>
            match expandRep rec n mn ovr path inMsg (rep + 1) rem resv' (b - (Tree.sizeL f : Nat)) tape' with
            | none => none
            | some (fs, tape'') => some (f ++ fs, tape'')) := by
      intro bn resv'
      rw [← h]
      cases hr : recF n path inMsg bn tape with
      | stuck => simp [Out.toOption]
      | fuel => simp [Out.toOption]
      | ok x =>
        obtain ⟨f, t'⟩ := x
        simp only [Out.toOption]
        rw [← expandRepF_toOption h n mn ovr path inMsg rem (rep + 1) resv' _ t']
        cases expandRepF recF n mn ovr path inMsg (rep + 1) rem resv' (b - (Tree.sizeL f : Nat)) t' with
        | stuck => simp [Out.toOption]
        | fuel => simp [Out.toOption]
        | ok y => simp [Out.toOption]
    simp only [expandRepF, expandRep]
    split
    · split
      · rfl
      · exact step _ _
    · exact step _ _

theorem expandDepsF_toOption {recF : RecF} {rec : Rec}
    (h : ∀ n p i b t, (recF n p i b t).toOption = rec n p i b t) (path : List String) (b : Int) :
    ∀ (ds : List String) (tape : Tape),
      (expandDepsF recF path b ds tape).toOption = expandDeps rec path b ds tape
  | [], tape => rfl
  | d :: ds, tape => by
    simp only [expandDepsF, expandDeps]
    rw [← h]
    cases hr : recF (.nt d none none 0) path false b tape with
    | stuck => simp [Out.toOption]
    | fuel => simp [Out.toOption]
    | ok x =>
      obtain ⟨f, t'⟩ := x
      simp only [Out.toOption]
      exact expandDepsF_toOption h path b ds t'

theorem genStep_toOption (name : String) (snd rcp : Option String) (t' : Tape) :
    (match t' with
      | .gen (.mk (.nt g) _ _ kids) :: rest =>
        if g = name then Out.ok ([Tree.mk (.nt name) snd rcp kids], rest) else Out.stuck
      | _ => Out.stuck).toOption
    = (match t' with
      | .gen (.mk (.nt g) _ _ kids) :: rest =>
        if g = name then some ([Tree.mk (.nt name) snd rcp kids], rest) else none
      | _ => none) := by
  cases t' with
  | nil => rfl
  | cons c rest =>
    cases c with
    | gen t =>
      cases t with
      | mk sy a r kids =>
        cases sy with
        | nt g => by_cases hgn : g = name <;> simp [hgn, Out.toOption]
        | term l => rfl
        | slice => rfl
    | _ => rfl

theorem expandNodeF_toOption (G : FGrammar) {recF : RecF} {rec : Rec}
    (h : ∀ n p i b t, (recF n p i b t).toOption = rec n p i b t) :
    ∀ n p i b t, (expandNodeF G recF n p i b t).toOption = expandNode G rec n p i b t := by
  intro n path inMsg b tape
  cases n with
  | term t d key =>
    cases t with
    | lit l => rfl
    | regex id =>
      cases tape with
      | nil => rfl
      | cons c rest =>
        cases c with
        | regex id' l =>
          simp only [expandNodeF, expandNode]
          by_cases hid : id' = id <;> simp [hid, Out.toOption]
        | _ => rfl
  | nt name snd rcp d =>
    simp only [expandNodeF, expandNode]
    cases G.rule name with
    | none => simp [Out.toOption]
    | some body =>
      simp only
      cases G.useGen (path ++ [name]) name with
      | some ds =>
        simp only
        rw [← expandDepsF_toOption h]
        cases expandDepsF recF (path ++ [name]) (b - 1) ds tape with
        | stuck => simp [Out.toOption]
        | fuel => simp [Out.toOption]
        | ok t' =>
          simp only [Out.toOption]
          exact genStep_toOption name snd rcp t'
      | none =>
        simp only
        rw [← h]
        cases recF body (path ++ [name]) (inMsg || (!inMsg && snd.isSome)) (b - 1) tape with
        | stuck => simp [Out.toOption]
        | fuel => simp [Out.toOption]
        | ok x => obtain ⟨f, t'⟩ := x; simp [Out.toOption]
  | alt id d ns =>
    cases tape with
    | nil => rfl
    | cons c rest =>
      cases c with
      | alt k =>
        simp only [expandNodeF, expandNode]
        cases hc : (altCands ns b).1[k]? with
        | some c => exact h _ _ _ _ _
        | none => rfl
      | _ => rfl
  | cat id d ns =>
    simp only [expandNodeF, expandNode]
    exact expandCatF_toOption h ns d path inMsg ns 0 b tape
  | rep id kd d n mn mx =>
    cases tape with
    | nil => rfl
    | cons c rest =>
      cases c with
      | rep goal =>
        simp only [expandNodeF, expandNode]
        by_cases hgoal : mn ≤ goal ∧ goal ≤ mx.getD G.cap
        · simp only [hgoal, and_self, if_true]
          exact expandRepF_toOption h n mn false path inMsg goal 0 d b rest
        · simp only [hgoal, if_false]; rfl
      | _ => rfl

/-- **`expandF` is `expand`**: same results, `none` split into `stuck` and `fuel` -/
theorem expandF_toOption (G : FGrammar) : ∀ (fuel : Nat) n p i b t,
    (expandF G fuel n p i b t).toOption = expand G fuel n p i b t
  | 0 => fun _ _ _ _ _ => rfl
  | fuel + 1 => by
    simp only [expandF, expand]
    exact expandNodeF_toOption G (expandF_toOption G fuel)

theorem fuzzStartF_toOption (G : FGrammar) (fuel : Nat) (start : String) (path : List String) (b : Int)
    (tape : Tape) : (fuzzStartF G fuel start path b tape).toOption = fuzzStart G fuel start path b tape := by
  unfold fuzzStartF fuzzStart
  rw [← expandF_toOption]
  cases expandF G fuel (.nt start none none 0) path false b tape with
  | stuck => simp [Out.toOption]
  | fuel => simp [Out.toOption]
  | ok x =>
    obtain ⟨f, t'⟩ := x
    cases f with
    | nil => simp [Out.toOption]
    | cons a f => cases f <;> simp [Out.toOption]

/-! ### the tape only gets shorter -/

def TapeLe (recF : RecF) : Prop :=
  ∀ n p i b t f t', recF n p i b t = .ok (f, t') → t'.length ≤ t.length

theorem expandCatF_tapeLe {recF : RecF} (h : TapeLe recF) (all : List FNode) (d : Nat) (path : List String)
    (inMsg : Bool) : ∀ (rest : List FNode) (i : Nat) (b : Int) (tape : Tape) (f : List Tree) (t' : Tape),
      expandCatF recF all d path inMsg i rest b tape = .ok (f, t') → t'.length ≤ tape.length
  | [], i, b, tape, f, t', hh => by
    simp only [expandCatF, Out.ok.injEq, Prod.mk.injEq] at hh
    rw [← hh.2]; exact Nat.le_refl _
  | n :: rest, i, b, tape, f, t', hh => by
    simp only [expandCatF] at hh
    split at hh
    · simp at hh
    · simp at hh
    · rename_i f1 t1 h1
      split at hh
      · simp at hh
      · simp at hh
      · rename_i fs t2 h2
        simp only [Out.ok.injEq, Prod.mk.injEq] at hh
        have a1 := h _ _ _ _ _ _ _ h1
        have a2 := expandCatF_tapeLe h all d path inMsg rest _ _ _ _ _ h2
        rw [← hh.2]; omega

theorem expandRepF_tapeLe {recF : RecF} (h : TapeLe recF) (n : FNode) (mn : Nat) (ovr : Bool)
    (path : List String) (inMsg : Bool) : ∀ (rem rep : Nat) (resv b : Int) (tape : Tape) (f : List Tree)
      (t' : Tape), expandRepF recF n mn ovr path inMsg rep rem resv b tape = .ok (f, t') →
      t'.length ≤ tape.length
  | 0, rep, resv, b, tape, f, t', hh => by
    simp only [expandRepF, Out.ok.injEq, Prod.mk.injEq] at hh
    rw [← hh.2]; exact Nat.le_refl _
  | rem + 1, rep, resv, b, tape, f, t', hh => by
    have step : ∀ (bn resv' : Int),
        (match recF n path inMsg bn tape with
          | .stuck => Out.stuck
          | .fuel => Out.fuel
          | .ok (f, tape') =>
            match expandRepF recF n mn ovr path inMsg (rep + 1) rem resv' (b - (Tree.sizeL f : Nat)) tape' with
            | .stuck => Out.stuck
            | .fuel => Out.fuel
            | .ok (fs, tape'') => Out.ok (f ++ fs, tape'')) = .ok (f, t') → t'.length ≤ tape.length := by
      intro bn resv' hh
      split at hh
      · simp at hh
      · simp at hh
      · rename_i f1 t1 h1
        split at hh
        · simp at hh
        · simp at hh
        · rename_i fs t2 h2
          simp only [Out.ok.injEq, Prod.mk.injEq] at hh
          have a1 := h _ _ _ _ _ _ _ h1
          have a2 := expandRepF_tapeLe h n mn ovr path inMsg rem _ _ _ _ _ _ h2
          rw [← hh.2]; omega
    simp only [expandRepF] at hh
    split at hh
    · split at hh
      · simp only [Out.ok.injEq, Prod.mk.injEq] at hh
        rw [← hh.2]; exact Nat.le_refl _
      · exact step _ _ hh
    · exact step _ _ hh

theorem expandDepsF_tapeLe {recF : RecF} (h : TapeLe recF) (path : List String) (b : Int) :
    ∀ (ds : List String) (tape t' : Tape), expandDepsF recF path b ds tape = .ok t' → t'.length ≤ tape.length
  | [], tape, t', hh => by
    simp only [expandDepsF, Out.ok.injEq] at hh
    rw [← hh]; exact Nat.le_refl _
  | d :: ds, tape, t', hh => by
    simp only [expandDepsF] at hh
    split at hh
    · simp at hh
    · simp at hh
    · rename_i f1 t1 h1
      have a1 := h _ _ _ _ _ _ _ h1
      have a2 := expandDepsF_tapeLe h path b ds _ _ hh
      omega

theorem expandNodeF_tapeLe (G : FGrammar) {recF : RecF} (h : TapeLe recF) : TapeLe (expandNodeF G recF) := by
  intro n path inMsg b tape f t' hh
  cases n with
  | term t d key =>
    cases t with
    | lit l =>
      simp only [expandNodeF, Out.ok.injEq, Prod.mk.injEq] at hh
      rw [← hh.2]; exact Nat.le_refl _
    | regex id =>
      simp only [expandNodeF] at hh
      split at hh
      · split at hh
        · simp only [Out.ok.injEq, Prod.mk.injEq] at hh
          rw [← hh.2]; simp
        · simp at hh
      · simp at hh
  | nt name snd rcp d =>
    simp only [expandNodeF] at hh
    split at hh
    · simp at hh
    · split at hh
      · split at hh
        · simp at hh
        · simp at hh
        · rename_i t1 h1
          have a1 := expandDepsF_tapeLe h _ _ _ _ _ h1
          split at hh
          · split at hh
            · simp only [Out.ok.injEq, Prod.mk.injEq] at hh
              rw [← hh.2]; simp at a1 ⊢; omega
            · simp at hh
          · simp at hh
      · split at hh
        · simp at hh
        · simp at hh
        · rename_i kids t1 h1
          simp only [Out.ok.injEq, Prod.mk.injEq] at hh
          have a1 := h _ _ _ _ _ _ _ h1
          rw [← hh.2]; exact a1
  | alt id d ns =>
    simp only [expandNodeF] at hh
    split at hh
    · split at hh
      · have a1 := h _ _ _ _ _ _ _ hh
        simp at a1 ⊢; omega
      · simp at hh
    · simp at hh
  | cat id d ns =>
    simp only [expandNodeF] at hh
    exact expandCatF_tapeLe h ns d path inMsg ns 0 b tape f t' hh
  | rep id kd d n mn mx =>
    simp only [expandNodeF] at hh
    split at hh
    · split at hh
      · have a1 := expandRepF_tapeLe h n mn false path inMsg _ _ _ _ _ _ _ hh
        simp at a1 ⊢; omega
      · simp at hh
    · simp at hh

theorem expandF_tapeLe (G : FGrammar) : ∀ fuel, TapeLe (expandF G fuel)
  | 0 => by intro n p i b t f t' hh; simp [expandF] at hh
  | fuel + 1 => by
    simp only [expandF]
    exact expandNodeF_tapeLe G (expandF_tapeLe G fuel)

/-! ### the nodes of a grammar -/

/-- `Sub x n`: the node `x` occurs in `n` -/
inductive Sub (x : FNode) : FNode → Prop
  | refl : Sub x x
  | kid {c n : FNode} : c ∈ n.kids → Sub x c → Sub x n

def InG (G : FGrammar) (n : FNode) : Prop := ∃ r ∈ G.rules, Sub n r.2

theorem InG.kid {G : FGrammar} {n c : FNode} (h : InG G n) (hc : c ∈ n.kids) : InG G c := by
  obtain ⟨r, hr, hs⟩ := h
  refine ⟨r, hr, ?_⟩
  clear hr
  generalize r.2 = m at hs ⊢
  induction hs with
  | refl => exact Sub.kid hc Sub.refl
  | kid hk _ ih => exact Sub.kid hk ih

theorem sizeL_mem : ∀ {ns : List FNode} {c : FNode}, c ∈ ns → c.size ≤ FNode.sizeL ns
  | n :: ns, c, h => by
    simp only [FNode.sizeL]
    rcases List.mem_cons.1 h with rfl | h
    · omega
    · have := sizeL_mem h; omega

theorem kid_size {n c : FNode} (h : c ∈ n.kids) : c.size < n.size := by
  cases n with
  | term _ _ _ => simp [FNode.kids] at h
  | nt _ _ _ _ => simp [FNode.kids] at h
  | alt _ _ ns => simp only [FNode.kids] at h; have := sizeL_mem h; simp only [FNode.size]; omega
  | cat _ _ ns => simp only [FNode.kids] at h; have := sizeL_mem h; simp only [FNode.size]; omega
  | rep _ _ _ m _ _ =>
    simp only [FNode.kids, List.mem_singleton] at h
    subst h; simp only [FNode.size]; omega

theorem sub_size {x n : FNode} (h : Sub x n) : x.size ≤ n.size := by
  induction h with
  | refl => exact Nat.le_refl _
  | kid hk _ ih => have := kid_size hk; omega

theorem dist_le_maxDist (n : FNode) : n.dist ≤ n.maxDist := by
  cases n <;> simp only [FNode.dist, FNode.maxDist] <;> first | exact Nat.le_refl _ | exact Nat.le_max_left _ _

theorem maxDistL_mem : ∀ {ns : List FNode} {c : FNode}, c ∈ ns → c.maxDist ≤ FNode.maxDistL ns
  | n :: ns, c, h => by
    simp only [FNode.maxDistL]
    rcases List.mem_cons.1 h with rfl | h
    · exact Nat.le_max_left _ _
    · exact Nat.le_trans (maxDistL_mem h) (Nat.le_max_right _ _)

theorem kid_maxDist {n c : FNode} (h : c ∈ n.kids) : c.maxDist ≤ n.maxDist := by
  cases n with
  | term _ _ _ => simp [FNode.kids] at h
  | nt _ _ _ _ => simp [FNode.kids] at h
  | alt _ _ ns =>
    simp only [FNode.kids] at h
    exact Nat.le_trans (maxDistL_mem h) (Nat.le_max_right _ _)
  | cat _ _ ns =>
    simp only [FNode.kids] at h
    exact Nat.le_trans (maxDistL_mem h) (Nat.le_max_right _ _)
  | rep _ _ _ m _ _ =>
    simp only [FNode.kids, List.mem_singleton] at h
    subst h; exact Nat.le_max_right _ _

theorem sub_maxDist {x n : FNode} (h : Sub x n) : x.maxDist ≤ n.maxDist := by
  induction h with
  | refl => exact Nat.le_refl _
  | kid hk _ ih => exact Nat.le_trans ih (kid_maxDist hk)

theorem maxOver_mem (f : FNode → Nat) : ∀ {rs : List (String × FNode)} {r : String × FNode},
    r ∈ rs → f r.2 ≤ maxOver f rs
  | x :: rs, r, h => by
    simp only [maxOver]
    rcases List.mem_cons.1 h with rfl | h
    · exact Nat.le_max_left _ _
    · exact Nat.le_trans (maxOver_mem f h) (Nat.le_max_right _ _)

theorem wdl_mem {G : FGrammar} : ∀ {ns : List FNode} {c : FNode}, WDL G ns → c ∈ ns → WD G c
  | n :: ns, c, h, hc => by
    simp only [WDL] at h
    rcases List.mem_cons.1 hc with rfl | hc
    · exact h.1
    · exact wdl_mem h.2 hc

theorem wd_kid {G : FGrammar} {n c : FNode} (h : WD G n) (hc : c ∈ n.kids) : WD G c := by
  cases n with
  | term _ _ _ => simp [FNode.kids] at hc
  | nt _ _ _ _ => simp [FNode.kids] at hc
  | alt _ _ ns => simp only [WD] at h; exact wdl_mem h.2.2 hc
  | cat _ _ ns => simp only [WD] at h; exact wdl_mem h.2 hc
  | rep _ _ _ m _ _ =>
    simp only [FNode.kids, List.mem_singleton] at hc
    subst hc; simp only [WD] at h; exact h.2

theorem wd_inG {G : FGrammar} (hwd : WellDist G) {n : FNode} (h : InG G n) : WD G n := by
  obtain ⟨r, hr, hs⟩ := h
  have h0 := hwd r hr
  clear hr
  generalize r.2 = m at hs h0
  induction hs with
  | refl => exact h0
  | kid hk _ ih => exact ih (wd_kid h0 hk)

theorem rule_inG {G : FGrammar} {name : String} {body : FNode} (h : G.rule name = some body) : InG G body := by
  unfold FGrammar.rule at h
  split at h
  · rename_i p hp
    simp only [Option.some.injEq] at h
    subst h
    exact ⟨p, List.mem_of_find?_eq_some hp, Sub.refl⟩
  · simp at h

/-! ### the measure -/

/-- depth still needed below a node once the budget is exhausted: a `min = 0` repetition returns at
    once; otherwise the distance (weighted by the grammar's width, so that going from a symbol to its
    rule pays for the rule's size) plus the node's own size -/
def mu (W : Nat) (n : FNode) : Nat := if n.isSink = true then n.size else W * n.dist + n.size

def phi (G : FGrammar) (n : FNode) (b : Int) (tape : Tape) : Nat :=
  (if b ≤ 0 then 0 else tape.length) * G.depthBound + mu G.width n

theorem size_lt_width {G : FGrammar} {n : FNode} (h : InG G n) : n.size < G.width := by
  obtain ⟨r, hr, hs⟩ := h
  have h1 := sub_size hs
  have h2 := maxOver_mem FNode.size hr
  unfold FGrammar.width
  omega

theorem mu_lt_depthBound {G : FGrammar} {n : FNode} (h : InG G n) : mu G.width n < G.depthBound := by
  have hs := size_lt_width h
  obtain ⟨r, hr, hsub⟩ := h
  have h1 : n.dist ≤ maxOver FNode.maxDist G.rules :=
    Nat.le_trans (dist_le_maxDist n) (Nat.le_trans (sub_maxDist hsub) (maxOver_mem FNode.maxDist hr))
  unfold mu FGrammar.depthBound
  have h2 : G.width * n.dist ≤ G.width * maxOver FNode.maxDist G.rules := Nat.mul_le_mul_left _ h1
  have h3 : G.width * (maxOver FNode.maxDist G.rules + 1)
      = G.width * maxOver FNode.maxDist G.rules + G.width := Nat.mul_succ _ _
  split
  · have : 0 ≤ G.width * maxOver FNode.maxDist G.rules := Nat.zero_le _
    omega
  · omega

theorem mu_lt_of_part {W : Nat} {n c : FNode} (hs : c.size < n.size) (hn : n.isSink = false)
    (hd : c.dist ≤ n.dist) : mu W c < mu W n := by
  unfold mu
  simp only [hn, Bool.false_eq_true, if_false]
  have : W * c.dist ≤ W * n.dist := Nat.mul_le_mul_left _ hd
  split <;> omega

/-- same tape or shorter, exhaustion inherited, smaller `mu` -/
theorem phi_lt_part {G : FGrammar} {n c : FNode} {b b' : Int} {t t' : Tape} (hmu : mu G.width c < mu G.width n)
    (hb : b ≤ 0 → b' ≤ 0) (ht : t'.length ≤ t.length) : phi G c b' t' < phi G n b t := by
  unfold phi
  have hf : (if b' ≤ 0 then 0 else t'.length) ≤ (if b ≤ 0 then 0 else t.length) := by
    by_cases h0 : b ≤ 0
    · simp [h0, hb h0]
    · simp only [h0, if_false]; split <;> omega
  have := Nat.mul_le_mul_right G.depthBound hf
  omega

/-- a draw was consumed while the budget was not exhausted -/
theorem phi_lt_draw {G : FGrammar} {n c : FNode} {b b' : Int} {t t' : Tape} (hc : mu G.width c < G.depthBound)
    (hb : ¬ b ≤ 0) (ht : t'.length < t.length) : phi G c b' t' < phi G n b t := by
  unfold phi
  simp only [hb, if_false]
  have hf : (if b' ≤ 0 then 0 else t'.length) ≤ t'.length := by split <;> omega
  have h1 := Nat.mul_le_mul_right G.depthBound hf
  have h2 : (t'.length + 1) * G.depthBound ≤ t.length * G.depthBound := Nat.mul_le_mul_right _ ht
  have h3 : (t'.length + 1) * G.depthBound = t'.length * G.depthBound + G.depthBound := Nat.succ_mul _ _
  omega

theorem not_sink_of_ne_rep {n : FNode} (h : ∀ id k d m mx, n ≠ .rep id k d m 0 mx) : n.isSink = false := by
  cases n with
  | rep id k d m mn mx =>
    cases mn with
    | zero => exact absurd rfl (h id k d m mx)
    | succ mn => rfl
  | _ => rfl

/-! ### no recursion bound above `phi` is ever hit -/

theorem useGen_none {G : FGrammar} (hg : G.gens = []) (path : List String) (s : String) :
    G.useGen path s = none := by
  simp [FGrammar.useGen, FGrammar.deps, hg]

/-- with an exhausted budget no alternative is "in range": the minimum-distance ones are the candidates -/
theorem altCands_exhausted {ns : List FNode} {b : Int} (hb : b ≤ 0) :
    altCands ns b = (ns.filter (fun x => x.dist ≤ minDist ns), 0) := by
  unfold altCands
  have : ns.filter (fun x => decide ((x.dist : Int) < b)) = [] := by
    rw [List.filter_eq_nil_iff]
    intro x _
    simp only [decide_eq_true_eq]
    omega
  simp [this]

section
variable (G : FGrammar) (recF : RecF) (F : Nat)

theorem catF_no_fuel (hwd : WellDist G)
    (hrec : ∀ c path inMsg b t, InG G c → phi G c b t < F → recF c path inMsg b t ≠ .fuel)
    (hle : TapeLe recF) (n : FNode) (hn : InG G n) (id : String) (d : Nat) (ns : List FNode)
    (hnn : n = .cat id d ns) (path : List String) (inMsg : Bool) (b : Int) (tape : Tape)
    (hphi : phi G n b tape < F + 1) :
    ∀ (rest : List FNode) (i : Nat) (b' : Int) (t' : Tape), (∀ c ∈ rest, c ∈ ns) → (b ≤ 0 → b' ≤ 0) →
      t'.length ≤ tape.length → expandCatF recF ns d path inMsg i rest b' t' ≠ .fuel
  | [], i, b', t', _, _, _ => by simp [expandCatF]
  | c :: rest, i, b', t', hsub, hb, ht => by
    have hcm : c ∈ ns := hsub c (List.mem_cons_self ..)
    have hck : c ∈ n.kids := by rw [hnn]; exact hcm
    have hcg : InG G c := hn.kid hck
    have hwdn : WD G n := wd_inG hwd hn
    have hcd : c.dist ≤ n.dist := by
      rw [hnn] at hwdn ⊢
      simp only [WD] at hwdn
      exact hwdn.1 c hcm
    have hmu : mu G.width c < mu G.width n :=
      mu_lt_of_part (kid_size hck) (by rw [hnn]; rfl) hcd
    simp only [expandCatF]
    -- the budget handed to the part
    have hcall : ∀ bn : Int, (b ≤ 0 → bn ≤ 0) → recF c path inMsg bn t' ≠ .fuel := by
      intro bn hbn
      apply hrec c path inMsg bn t' hcg
      have := phi_lt_part (G := G) hmu hbn ht
      omega
    have hbn : b ≤ 0 → (if (c.dist : Int) ≥ b' then (0 : Int) else b' - reserved ns d i c) ≤ 0 := by
      intro h0
      have := hb h0
      have : (c.dist : Int) ≥ b' := by omega
      simp [this]
    split
    · simp
    · rename_i hh; exact absurd hh (hcall _ hbn)
    · rename_i f1 t1 h1
      have hrest := catF_no_fuel hwd hrec hle n hn id d ns hnn path inMsg b tape hphi rest (i + 1)
        (b' - (Tree.sizeL f1 : Nat)) t1 (fun x hx => hsub x (List.mem_cons_of_mem _ hx))
        (fun h0 => by have := hb h0; omega) (Nat.le_trans (hle _ _ _ _ _ _ _ h1) ht)
      split
      · simp
      · rename_i hh; exact absurd hh hrest
      · simp

theorem repF_no_fuel (hwd : WellDist G)
    (hrec : ∀ c path inMsg b t, InG G c → phi G c b t < F → recF c path inMsg b t ≠ .fuel)
    (hle : TapeLe recF) (n : FNode) (hn : InG G n) (id : String) (kd : RepKind) (d : Nat) (body : FNode)
    (mn : Nat) (mx : Option Nat) (hnn : n = .rep id kd d body mn mx) (path : List String) (inMsg : Bool)
    (b : Int) (c0 : Choice) (rest : Tape) (hphi : phi G n b (c0 :: rest) < F + 1) :
    ∀ (rem rep : Nat) (resv b' : Int) (t' : Tape), (b ≤ 0 → b' ≤ 0) → t'.length ≤ rest.length →
      expandRepF recF body mn false path inMsg rep rem resv b' t' ≠ .fuel
  | 0, rep, resv, b', t', _, _ => by simp [expandRepF]
  | rem + 1, rep, resv, b', t', hb, ht => by
    have hck : body ∈ n.kids := by rw [hnn]; simp [FNode.kids]
    have hcg : InG G body := hn.kid hck
    have hwdn : WD G n := wd_inG hwd hn
    -- a call on the body: either a draw was consumed with budget left, or the budget is exhausted and
    -- the repetition has a positive minimum
    have hcall : ∀ bn : Int, (b ≤ 0 → bn ≤ 0 ∧ 1 ≤ mn) → recF body path inMsg bn t' ≠ .fuel := by
      intro bn hbn
      apply hrec body path inMsg bn t' hcg
      by_cases h0 : b ≤ 0
      · obtain ⟨h1, h2⟩ := hbn h0
        have hcd : body.dist ≤ n.dist := by
          rw [hnn] at hwdn ⊢
          simp only [WD] at hwdn
          exact hwdn.1 h2
        have hns : n.isSink = false := by
          rw [hnn]; cases mn with
          | zero => omega
          | succ m => rfl
        have hmu := mu_lt_of_part (W := G.width) (kid_size hck) hns hcd
        have := phi_lt_part (G := G) (b := b) (b' := bn) (t := c0 :: rest) (t' := t') hmu (fun _ => h1)
          (by simp; omega)
        omega
      · have := phi_lt_draw (G := G) (n := n) (c := body) (b := b) (b' := bn) (t := c0 :: rest) (t' := t')
          (mu_lt_depthBound hcg) h0 (by simp; omega)
        omega
    have hnext : ∀ (f1 : List Tree) (t1 : Tape) (bn resv' : Int), recF body path inMsg bn t' = .ok (f1, t1) →
        expandRepF recF body mn false path inMsg (rep + 1) rem resv' (b' - (Tree.sizeL f1 : Nat)) t1 ≠ .fuel := by
      intro f1 t1 bn resv' h1
      exact repF_no_fuel hwd hrec hle n hn id kd d body mn mx hnn path inMsg b c0 rest hphi rem (rep + 1) resv'
        (b' - (Tree.sizeL f1 : Nat)) t1 (fun h0 => by have := hb h0; omega)
        (Nat.le_trans (hle _ _ _ _ _ _ _ h1) ht)
    simp only [expandRepF]
    split
    · rename_i hge
      split
      · simp
      · rename_i hstop
        have hmn : 1 ≤ mn := by
          simp only [Bool.not_false, Bool.and_true, decide_eq_true_eq] at hstop
          omega
        split
        · simp
        · rename_i hh; exact absurd hh (hcall 0 (fun _ => ⟨Int.le_refl _, hmn⟩))
        · rename_i f1 t1 h1
          have := hnext f1 t1 0 resv h1
          split
          · simp
          · rename_i hh; exact absurd hh this
          · simp
    · rename_i hlt
      have hbpos : ¬ b ≤ 0 := by
        intro h0
        have := hb h0
        omega
      split
      · simp
      · rename_i hh; exact absurd hh (hcall _ (fun h0 => absurd h0 hbpos))
      · rename_i f1 t1 h1
        have := hnext f1 t1 _ (resv - body.dist) h1
        split
        · simp
        · rename_i hh; exact absurd hh this
        · simp

/-- one level of `fuzz()`: if the recursive calls stay within the bound `F`, this call stays within `F + 1` -/
theorem expandNodeF_no_fuel (hwd : WellDist G) (hg : G.gens = [])
    (hrec : ∀ c path inMsg b t, InG G c → phi G c b t < F → recF c path inMsg b t ≠ .fuel)
    (hle : TapeLe recF) :
    ∀ n path inMsg b tape, InG G n → phi G n b tape < F + 1 → expandNodeF G recF n path inMsg b tape ≠ .fuel := by
  intro n path inMsg b tape hn hphi
  have hwdn : WD G n := wd_inG hwd hn
  cases n with
  | term t d key =>
    cases t with
    | lit l => simp [expandNodeF]
    | regex id =>
      simp only [expandNodeF]
      split
      · split <;> simp
      · simp
  | nt name snd rcp d =>
    simp only [expandNodeF]
    cases hr : G.rule name with
    | none => simp
    | some body =>
      simp only [useGen_none hg]
      simp only [WD] at hwdn
      obtain ⟨hd1, body', hb', hrel⟩ := hwdn
      rw [hr, Option.some.injEq] at hb'
      subst hb'
      have hbg : InG G body := rule_inG hr
      have hsz := size_lt_width hbg
      have hmu : mu G.width body < mu G.width (.nt name snd rcp d) := by
        have e1 : mu G.width (.nt name snd rcp d) = G.width * d + 1 := by
          simp [mu, FNode.isSink, FNode.dist, FNode.size]
        rw [e1]
        have hW : G.width * 1 ≤ G.width * d := Nat.mul_le_mul_left _ hd1
        by_cases hbs : body.isSink = true
        · have e2 : mu G.width body = body.size := by simp [mu, hbs]
          rw [e2]; omega
        · have e2 : mu G.width body = G.width * body.dist + body.size := by simp [mu, hbs]
          rw [e2]
          rcases hrel with h1 | h1
          · exact absurd h1 hbs
          · have : G.width * (body.dist + 1) ≤ G.width * d := Nat.mul_le_mul_left _ h1
            have e : G.width * (body.dist + 1) = G.width * body.dist + G.width := Nat.mul_succ _ _
            omega
      have := phi_lt_part (G := G) (b := b) (b' := b - 1) (t := tape) (t' := tape) hmu (fun h0 => by omega)
        (Nat.le_refl _)
      have hcall := hrec body (path ++ [name]) (inMsg || (!inMsg && snd.isSome)) (b - 1) tape hbg (by omega)
      split
      · simp
      · rename_i hh; exact absurd hh hcall
      · simp
  | alt id d ns =>
    simp only [expandNodeF]
    split
    · rename_i k rest
      split
      · rename_i c hc
        have hcm : c ∈ ns := altCands_mem hc
        have hck : c ∈ (FNode.alt id d ns).kids := hcm
        have hcg : InG G c := hn.kid hck
        apply hrec c path inMsg _ rest hcg
        by_cases h0 : b ≤ 0
        · -- exhausted: a minimum-distance alternative, budget 0
          rw [altCands_exhausted h0] at hc ⊢
          have hcf : c ∈ ns.filter (fun x => x.dist ≤ minDist ns) := List.mem_of_getElem? hc
          have hcd : c.dist ≤ minDist ns := by simpa using (List.mem_filter.1 hcf).2
          simp only [WD] at hwdn
          have hmu : mu G.width c < mu G.width (.alt id d ns) :=
            mu_lt_of_part (kid_size hck) rfl (show c.dist ≤ d by omega)
          have := phi_lt_part (G := G) (b := b) (b' := 0) (t := FV.Choice.alt k :: rest) (t' := rest) hmu
            (fun _ => Int.le_refl _) (by simp)
          show phi G c 0 rest < F
          omega
        · have := phi_lt_draw (G := G) (n := .alt id d ns) (c := c) (b := b) (b' := (altCands ns b).2)
            (t := FV.Choice.alt k :: rest) (t' := rest) (mu_lt_depthBound hcg) h0 (by simp)
          omega
      · simp
    · simp
  | cat id d ns =>
    simp only [expandNodeF]
    exact catF_no_fuel G recF F hwd hrec hle _ hn id d ns rfl path inMsg b tape hphi ns 0 b tape
      (fun _ h => h) (fun h => h) (Nat.le_refl _)
  | rep id kd d body mn mx =>
    simp only [expandNodeF]
    split
    · rename_i goal rest
      split
      · exact repF_no_fuel G recF F hwd hrec hle _ hn id kd d body mn mx rfl path inMsg b _ rest hphi goal 0 d b
          rest (fun h => h) (Nat.le_refl _)
      · simp
    · simp

end

/-- **budgeted expansion stays within the recursion bound `phi`** — for every node of the grammar, every
    budget and every tape -/
theorem expandF_no_fuel (G : FGrammar) (hwd : WellDist G) (hg : G.gens = []) : ∀ (fuel : Nat) n path inMsg b tape,
    InG G n → phi G n b tape < fuel → expandF G fuel n path inMsg b tape ≠ .fuel
  | 0 => by intro n path inMsg b tape _ h; omega
  | fuel + 1 => by
    simp only [expandF]
    exact expandNodeF_no_fuel G (expandF G fuel) fuel hwd hg
      (fun c path inMsg b t hc hp => expandF_no_fuel G hwd hg fuel c path inMsg b t hc hp)
      (expandF_tapeLe G fuel)

/-- `Grammar.fuzz(start, max_nodes)`: the dummy `NonTerminalNode(start)` on top costs one more level -/
theorem fuzzStartF_no_fuel (G : FGrammar) (hwd : WellDist G) (hg : G.gens = []) (fuel : Nat) (start : String)
    (path : List String) (b : Int) (tape : Tape)
    (hf : (if b ≤ 1 then 0 else tape.length) * G.depthBound + G.depthBound + 2 ≤ fuel) :
    fuzzStartF G fuel start path b tape ≠ .fuel := by
  unfold fuzzStartF
  cases fuel with
  | zero => omega
  | succ fuel =>
    have : expandF G (fuel + 1) (.nt start none none 0) path false b tape ≠ .fuel := by
      simp only [expandF, expandNodeF]
      cases hr : G.rule start with
      | none => simp
      | some body =>
        simp only [useGen_none hg]
        have hbg : InG G body := rule_inG hr
        have hmu := mu_lt_depthBound hbg
        have hcall := expandF_no_fuel G hwd hg fuel body (path ++ [start]) (false || (!false && (none : Option String).isSome))
          (b - 1) tape hbg (by
            unfold phi
            have e : (if b - 1 ≤ 0 then 0 else tape.length) = (if b ≤ 1 then 0 else tape.length) := by
              by_cases h1 : b ≤ 1
              · have : b - 1 ≤ 0 := by omega
                simp [h1, this]
              · have : ¬ b - 1 ≤ 0 := by omega
                simp [h1, this]
            rw [e]; omega)
        split
        · simp
        · rename_i hh; exact absurd hh hcall
        · simp
    split
    · simp
    · simp
    · simp
    · rename_i hh; exact absurd hh this

end Term
end FV
