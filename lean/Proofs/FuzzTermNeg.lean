/-
A bound on the recursion depth of budgeted expansion in terms of the budget alone does not exist:
on `<start> ::= <a>` ; `<a> ::= ("(" <a> ")")*` with `max_nodes = 50` the draws
`randint → 2`, (first iteration: inner `randint → 0`), second iteration: the same again … keep the budget of the
`Star` at 48 for ever (`Repetition.fuzz` hands iterations beyond `min` MORE than it has: `reserved_max_nodes`
goes negative).
-/
import Model.FuzzT
namespace FV
namespace Neg

def lp : FNode := .term (.lit (.text [40])) 1 0
def rp : FNode := .term (.lit (.text [41])) 1 1
def ntA : FNode := .nt "<a>" none none 1
def catN : FNode := .cat "c" 4 [lp, ntA, rp]
def starN : FNode := .rep "s" .star 1 catN 0 none

/-- `<start> ::= <a>` ; `<a> ::= ("(" <a> ")")*` with the distances the real `prime()` computes -/
def exN : FGrammar := { rules := [("<start>", ntA), ("<a>", starN)], gens := [], cap := 20 }

/-- the draws: `k` times (`randint → 2`, inner `randint → 0`), then `randint → 0` -/
def spine : Nat → Tape
  | 0 => [.rep 0]
  | k + 1 => .rep 2 :: .rep 0 :: spine k

theorem r0 : reserved [lp, ntA, rp] 4 0 lp = 3 := by decide
theorem r1 : reserved [lp, ntA, rp] 4 1 ntA = 2 := by decide
theorem r2 : reserved [lp, ntA, rp] 4 2 rp = 1 := by decide
theorem ruleA : exN.rule "<a>" = some starN := by rfl
theorem ruleS : exN.rule "<start>" = some ntA := by rfl
theorem noGen (p : List String) (s : String) : exN.useGen p s = none := by
  simp [FGrammar.useGen, FGrammar.deps, exN]

theorem eLp (n : Nat) (p : List String) (i : Bool) (b : Int) (t : Tape) :
    expandF exN (n + 1) lp p i b t = .ok ([Tree.leaf (.text [40])], t) := by
  simp [expandF, expandNodeF, lp]
theorem eRp (n : Nat) (p : List String) (i : Bool) (b : Int) (t : Tape) :
    expandF exN (n + 1) rp p i b t = .ok ([Tree.leaf (.text [41])], t) := by
  simp [expandF, expandNodeF, rp]

theorem eNt (n : Nat) (p : List String) (i : Bool) (b : Int) (t : Tape) :
    expandF exN (n + 1) ntA p i b t =
      match expandF exN n starN (p ++ ["<a>"]) i (b - 1) t with
      | .stuck => .stuck
      | .fuel => .fuel
      | .ok (kids, t') => .ok ([.mk (.nt "<a>") none none kids], t') := by
  simp [expandF, expandNodeF, ntA, ruleA, noGen]
  cases expandF exN n starN (p ++ ["<a>"]) i (b - 1) t <;> rfl

theorem eStar (n : Nat) (p : List String) (i : Bool) (b : Int) (g : Nat) (t : Tape) (hg : g ≤ 20) :
    expandF exN (n + 1) starN p i b (.rep g :: t) = expandRepF (expandF exN n) catN 0 false p i 0 g 1 b t := by
  simp [expandF, expandNodeF, starN, exN, hg]

theorem eCat (n : Nat) (p : List String) (i : Bool) (b : Int) (t : Tape) :
    expandF exN (n + 1) catN p i b t = expandCatF (expandF exN n) [lp, ntA, rp] 4 p i 0 [lp, ntA, rp] b t := by
  simp [expandF, expandNodeF, catN]

theorem lpDist : lp.dist = 1 := rfl
theorem ntDist : ntA.dist = 1 := rfl
theorem rpDist : rp.dist = 1 := rfl
theorem catDist : catN.dist = 4 := rfl

/-- the concatenation `"(" <a> ")"` with more than 4 nodes of budget: the `Star` below gets `B - 4` -/
theorem eCat3 (n : Nat) (p : List String) (i : Bool) (B : Int) (hB : 4 < B) (t : Tape) :
    expandF exN (n + 3) catN p i B t =
      match expandF exN (n + 1) starN (p ++ ["<a>"]) i (B - 4) t with
      | .stuck => .stuck
      | .fuel => .fuel
      | .ok (kids, t') =>
        .ok ([Tree.leaf (.text [40]), .mk (.nt "<a>") none none kids, Tree.leaf (.text [41])], t') := by
  rw [eCat]
  simp only [expandCatF, eLp, eRp, eNt, lpDist, ntDist, rpDist, Nat.zero_add, Nat.reduceAdd, r0, r1, r2]
  have h1 : ¬ ((1 : Nat) : Int) ≥ B - ((Tree.sizeL [Tree.leaf (.text [40])] : Nat) : Int) := by
    simp [Tree.sizeL, Tree.size, Tree.leaf]; omega
  simp only [h1, if_false]
  have e : B - ((Tree.sizeL [Tree.leaf (.text [40])] : Nat) : Int) - 2 - 1 = B - 4 := by
    simp [Tree.sizeL, Tree.size, Tree.leaf]; omega
  rw [e]
  cases expandF exN (n + 1) starN (p ++ ["<a>"]) i (B - 4) t with
  | stuck => rfl
  | fuel => rfl
  | ok x => obtain ⟨kids, t'⟩ := x; simp

theorem eStar0 (n : Nat) (p : List String) (i : Bool) (b : Int) (X : Tape) :
    expandF exN (n + 1) starN p i b (.rep 0 :: X) = .ok ([], X) := by
  rw [eStar _ _ _ _ _ _ (by omega)]
  simp [expandRepF]

/-- one level of the spine: three levels further down sits the same `Star` with the same budget 48 -/
theorem step (n : Nat) (X : Tape) (p : List String) (i : Bool)
    (h : expandF exN (n + 1) starN (p ++ ["<a>"]) i 48 X = .fuel) :
    expandF exN (n + 4) starN p i 48 (.rep 2 :: .rep 0 :: X) = .fuel := by
  rw [eStar _ _ _ _ _ _ (by omega)]
  -- first iteration: budget 48 - (1 - 4) = 51 for the body, 47 for the `Star` inside, which draws 0
  have it1 : expandF exN (n + 3) catN p i (48 - ((1 : Int) - (4 : Nat))) (.rep 0 :: X)
      = .ok ([Tree.leaf (.text [40]), .mk (.nt "<a>") none none [], Tree.leaf (.text [41])], X) := by
    rw [eCat3 _ _ _ _ (by omega)]
    have e : (48 - ((1 : Int) - (4 : Nat)) - 4) = 47 := by omega
    rw [e, eStar0]
  -- second iteration: budget (48 - 3) - (1 - 4 - 4) = 52 for the body, 48 for the `Star` inside
  have it2 : expandF exN (n + 3) catN p i (48 - (3 : Nat) - ((1 : Int) - (4 : Nat) - (4 : Nat))) X = .fuel := by
    rw [eCat3 _ _ _ _ (by omega)]
    have e : (48 - ((3 : Nat) : Int) - ((1 : Int) - (4 : Nat) - (4 : Nat)) - 4) = 48 := by omega
    rw [e, h]
  have hs : Tree.sizeL [Tree.leaf (.text [40]), .mk (.nt "<a>") none none [], Tree.leaf (.text [41])] = 3 := by
    rfl
  simp only [expandRepF, catDist]
  have c1 : ¬ (((4 : Nat) : Int) ≥ 48) := by omega
  simp only [c1, if_false, it1, hs]
  have c2 : ¬ (((4 : Nat) : Int) ≥ 48 - ((3 : Nat) : Int)) := by omega
  simp only [c2, if_false, it2]

theorem rep_first_fuel (rec : RecF) (p : List String) (i : Bool) (t : Tape)
    (h : rec catN p i (48 - ((1 : Int) - (4 : Nat))) t = .fuel) :
    expandRepF rec catN 0 false p i 0 2 1 48 t = .fuel := by
  simp only [expandRepF, catDist]
  have c1 : ¬ (((4 : Nat) : Int) ≥ 48) := by omega
  simp only [c1, if_false, h]

theorem cat_fuel1 (p : List String) (i : Bool) (b : Int) (t : Tape) : expandF exN 1 catN p i b t = .fuel := by
  rw [show (1 : Nat) = 0 + 1 from rfl, eCat]
  simp [expandCatF, expandF]

theorem cat_fuel2 (p : List String) (i : Bool) (b : Int) (t : Tape) : expandF exN 2 catN p i b t = .fuel := by
  rw [show (2 : Nat) = 1 + 1 from rfl, eCat]
  simp only [expandCatF]
  rw [show (1 : Nat) = 0 + 1 from rfl]
  simp only [eLp, eNt]
  simp [expandF]

/-- with recursion bound `f ≤ 3k` the spine of length `k` is not finished -/
theorem spine_fuel : ∀ (k f : Nat) (p : List String) (i : Bool), f ≤ 3 * k →
    expandF exN f starN p i 48 (spine k) = .fuel
  | 0, f, p, i, hf => by
    have : f = 0 := by omega
    subst this; rfl
  | k + 1, 0, p, i, _ => rfl
  | k + 1, 1, p, i, _ => by
    simp only [spine]
    rw [show (1 : Nat) = 0 + 1 from rfl, eStar _ _ _ _ _ _ (by omega)]
    exact rep_first_fuel _ _ _ _ rfl
  | k + 1, 2, p, i, _ => by
    simp only [spine]
    rw [show (2 : Nat) = 1 + 1 from rfl, eStar _ _ _ _ _ _ (by omega)]
    exact rep_first_fuel _ _ _ _ (cat_fuel1 _ _ _ _)
  | k + 1, 3, p, i, _ => by
    simp only [spine]
    rw [show (3 : Nat) = 2 + 1 from rfl, eStar _ _ _ _ _ _ (by omega)]
    exact rep_first_fuel _ _ _ _ (cat_fuel2 _ _ _ _)
  | k + 1, n + 4, p, i, hf => by
    simp only [spine]
    exact step n (spine k) p i (spine_fuel k (n + 1) _ i (by omega))

theorem fuzz_spine_fuel (F : Nat) : fuzzStartF exN F "<start>" ["<start>"] 50 (spine F) = .fuel := by
  unfold fuzzStartF
  have : expandF exN F (.nt "<start>" none none 0) ["<start>"] false 50 (spine F) = .fuel := by
    cases F with
    | zero => rfl
    | succ m =>
      simp only [expandF, expandNodeF, ruleS, noGen]
      cases m with
      | zero => rfl
      | succ m' =>
        have := spine_fuel (m' + 2) m' (["<start>"] ++ ["<start>"] ++ ["<a>"]) false (by omega)
        rw [eNt]
        simp only [Bool.false_or, Bool.not_false, Bool.true_and, Option.isSome_none]
        have e : ((50 : Int) - 1 - 1) = 48 := by omega
        rw [e, this]
  rw [this]

end Neg
end FV
