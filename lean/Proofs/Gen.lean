/-
Helper lemmas for `Props/C16.lean` (model: `Model/Gen.lean`).
-/
import Model.Gen
namespace FV.Gen
open GTree

/-- the parser returns children whose text is the value it was given (its fit with the rule is C04/C05) -/
def ParseFits (parse : Parser) : Prop := ∀ s v kids, parse s v = some kids → textL kids = v

mutual
theorem allRO_setRO : ∀ t : GTree, allRO (setRO true t) = true
  | .leaf _ _ => rfl
  | .node _ _ kids srcs => by simp [setRO, allRO, allROL_setROL kids, allROL_setROL srcs]
theorem allROL_setROL : ∀ ts : List GTree, allROL (setROL true ts) = true
  | [] => rfl
  | t :: ts => by simp [setROL, allROL, allRO_setRO t, allROL_setROL ts]
end

mutual
theorem text_setRO (b : Bool) : ∀ t : GTree, (setRO b t).text = t.text
  | .leaf _ _ => rfl
  | .node _ _ kids _ => by simp [setRO, text, textL_setROL b kids]
theorem textL_setROL (b : Bool) : ∀ ts : List GTree, textL (setROL b ts) = textL ts
  | [] => rfl
  | t :: ts => by simp [setROL, textL, text_setRO b t, textL_setROL b ts]
end

mutual
theorem genInv_mono {S : Spec} {log log' : Log} (h : ∀ e ∈ log, e ∈ log') :
    ∀ (path : List String) (t : GTree), GenInv S log path t → GenInv S log' path t
  | _, .leaf _ _, _ => trivial
  | path, .node s r kids srcs, hi => by
    simp only [GenInv] at hi ⊢
    split
    · rename_i ps hu
      simp only [hu] at hi
      obtain ⟨⟨⟨args, ha, hm⟩, hro⟩, hs⟩ := hi
      exact ⟨⟨⟨args, ha, h _ hm⟩, hro⟩, genInvL_mono h _ srcs hs⟩
    · rename_i hu
      simp only [hu] at hi
      exact ⟨genInvL_mono h _ kids hi.1, genInvL_mono h _ srcs hi.2⟩
theorem genInvL_mono {S : Spec} {log log' : Log} (h : ∀ e ∈ log, e ∈ log') :
    ∀ (path : List String) (ts : List GTree), GenInvL S log path ts → GenInvL S log' path ts
  | _, [], _ => trivial
  | path, t :: ts, hi => ⟨genInv_mono h path t hi.1, genInvL_mono h path ts hi.2⟩
end

mutual
theorem genInvB_iff (S : Spec) (log : Log) : ∀ (path : List String) (t : GTree),
    genInvB S log path t = true ↔ GenInv S log path t
  | _, .leaf _ _ => by simp [genInvB, GenInv]
  | path, .node s r kids srcs => by
    simp only [genInvB, GenInv]
    split
    · rename_i ps hu
      simp only [Bool.and_eq_true, genInvLB_iff S log _ srcs]
      apply and_congr_left
      intro _
      apply and_congr_left
      intro _
      cases ha : argsOf ps srcs with
      | none => simp
      | some args => simp
    · simp only [Bool.and_eq_true, genInvLB_iff S log _ kids, genInvLB_iff S log _ srcs]
theorem genInvLB_iff (S : Spec) (log : Log) : ∀ (path : List String) (ts : List GTree),
    genInvLB S log path ts = true ↔ GenInvL S log path ts
  | _, [] => by simp [genInvLB, GenInvL]
  | path, t :: ts => by
    simp only [genInvLB, GenInvL, Bool.and_eq_true, genInvB_iff S log path t, genInvLB_iff S log path ts]
end

theorem genInvL_get {S : Spec} {log : Log} {path : List String} : ∀ {ts : List GTree} {i : Nat} {k : GTree},
    GenInvL S log path ts → ts[i]? = some k → GenInv S log path k
  | t :: ts, 0, k, h, hk => by
    simp only [List.getElem?_cons_zero, Option.some.injEq] at hk
    subst hk; exact h.1
  | t :: ts, i + 1, k, h, hk => by
    simp only [List.getElem?_cons_succ] at hk
    exact genInvL_get h.2 hk

theorem genInvL_set {S : Spec} {log : Log} {path : List String} : ∀ {ts : List GTree} {i : Nat} {x : GTree},
    GenInvL S log path ts → GenInv S log path x → GenInvL S log path (ts.set i x)
  | [], _, _, _, _ => by simp [GenInvL]
  | t :: ts, 0, x, h, hx => by simp only [List.set_cons_zero, GenInvL]; exact ⟨hx, h.2⟩
  | t :: ts, i + 1, x, h, hx => by
    simp only [List.set_cons_succ, GenInvL]
    exact ⟨h.1, genInvL_set h.2 hx⟩

theorem set_self : ∀ {ts : List GTree} {i : Nat} {k : GTree}, ts[i]? = some k → ts.set i k = ts
  | t :: ts, 0, k, h => by
    simp only [List.getElem?_cons_zero, Option.some.injEq] at h
    subst h; rfl
  | t :: ts, i + 1, k, h => by
    simp only [List.getElem?_cons_succ] at h
    simp [List.set_cons_succ, set_self h]

/-- placing a tree that meets the invariant at a path outside generated output keeps the invariant -/
theorem putAt_inv {S : Spec} {log : Log} : ∀ (p : List Nat) (path : List String) (t u : GTree),
    GenInv S log path t → NoGenOnPath S path t p → GenInv S log (pathAt path t p) u →
    GenInv S log path (putAt t p u)
  | [], _, _, _, _, _, hu => by simpa [putAt, pathAt] using hu
  | i :: p, path, .leaf v r, u, ht, _, _ => by simpa [putAt] using ht
  | i :: p, path, .node s r kids srcs, u, ht, hn, hu => by
    simp only [NoGenOnPath] at hn
    obtain ⟨hnone, hrest⟩ := hn
    simp only [putAt, pathAt] at hu ⊢
    cases hk : kids[i]? with
    | none => simpa [hk] using ht
    | some k =>
      simp only [hk] at hu hrest ⊢
      simp only [GenInv, hnone] at ht ⊢
      have hkinv := genInvL_get ht.1 hk
      exact ⟨genInvL_set ht.1 (putAt_inv p _ k u hkinv hrest hu), ht.2⟩

mutual
theorem allRO_sub : ∀ (t : GTree) (p : List Nat) (u : GTree), allRO t = true → subAt t p = some u → u.ro = true
  | t, [], u, h, hs => by
    simp only [subAt, Option.some.injEq] at hs
    subst hs
    cases t with
    | leaf v r => simpa [allRO, GTree.ro] using h
    | node s r kids srcs =>
      simp only [allRO, Bool.and_eq_true] at h
      simpa [GTree.ro] using h.1.1
  | .leaf _ _, _ :: _, u, _, hs => by simp [subAt] at hs
  | .node s r kids srcs, i :: p, u, h, hs => by
    simp only [subAt] at hs
    simp only [allRO, Bool.and_eq_true] at h
    cases hk : kids[i]? with
    | none => simp [hk] at hs
    | some k =>
      simp only [hk] at hs
      exact allRO_sub k p u (allROL_get kids i k h.1.2 hk) hs
theorem allROL_get : ∀ (ts : List GTree) (i : Nat) (k : GTree), allROL ts = true → ts[i]? = some k → allRO k = true
  | [], _, _, _, hk => by simp at hk
  | t :: ts, 0, k, h, hk => by
    simp only [List.getElem?_cons_zero, Option.some.injEq] at hk
    simp only [allROL, Bool.and_eq_true] at h
    subst hk; exact h.1
  | t :: ts, i + 1, k, h, hk => by
    simp only [List.getElem?_cons_succ] at hk
    simp only [allROL, Bool.and_eq_true] at h
    exact allROL_get ts i k h.2 hk
end

theorem useGen_params {S : Spec} {path : List String} {s : String} {ps : List String}
    (h : S.useGen path s = some ps) : S.params s = some ps := by
  unfold Spec.useGen at h
  cases hp : S.params s with
  | none => simp [hp] at h
  | some qs =>
    simp only [hp] at h
    split at h
    · simp at h
    · simpa using h

end FV.Gen
