/-
Helper lemmas for the whole-function part of `Props/C16.lean` (model: `Model/GenReplace.lean`).
-/
import Proofs.Gen
import Model.GenReplace
namespace FV.Gen
open GTree

/-! ### `beqShape` -/

mutual
theorem beqShape_refl : ∀ t : GTree, beqShape t t = true
  | .leaf _ _ => by simp [beqShape]
  | .node _ _ ks _ => by simp [beqShape, beqShapeL_refl ks]
theorem beqShapeL_refl : ∀ ts : List GTree, beqShapeL ts ts = true
  | [] => rfl
  | t :: ts => by simp [beqShapeL, beqShape_refl t, beqShapeL_refl ts]
end

mutual
theorem beqShape_text : ∀ t u : GTree, beqShape t u = true → t.text = u.text
  | .leaf v _, .leaf w _, h => by simpa [beqShape, text] using h
  | .node _ _ ks _, .node _ _ ks' _, h => by
    simp only [beqShape, Bool.and_eq_true] at h
    simpa [text] using beqShapeL_textL ks ks' h.2
  | .leaf _ _, .node _ _ _ _, h => by simp [beqShape] at h
  | .node _ _ _ _, .leaf _ _, h => by simp [beqShape] at h
theorem beqShapeL_textL : ∀ ts us : List GTree, beqShapeL ts us = true → textL ts = textL us
  | [], [], _ => rfl
  | t :: ts, u :: us, h => by
    simp only [beqShapeL, Bool.and_eq_true] at h
    simp [textL, beqShape_text t u h.1, beqShapeL_textL ts us h.2]
  | [], _ :: _, h => by simp [beqShapeL] at h
  | _ :: _, [], h => by simp [beqShapeL] at h
end

theorem beqShape_sym? : ∀ t u : GTree, beqShape t u = true → t.sym? = u.sym?
  | .leaf _ _, .leaf _ _, _ => rfl
  | .node s _ _ _, .node s' _ _ _, h => by
    simp only [beqShape, Bool.and_eq_true, beq_iff_eq] at h
    simp [sym?, h.1]
  | .leaf _ _, .node _ _ _ _, h => by simp [beqShape] at h
  | .node _ _ _ _, .leaf _ _, h => by simp [beqShape] at h

theorem findSrc_congr (p : String) : ∀ ts us : List GTree, beqShapeL ts us = true →
    (findSrc p ts).map text = (findSrc p us).map text
  | [], [], _ => rfl
  | t :: ts, u :: us, h => by
    simp only [beqShapeL, Bool.and_eq_true] at h
    have ih := findSrc_congr p ts us h.2
    have hs := beqShape_sym? t u h.1
    have ht := beqShape_text t u h.1
    simp only [findSrc]
    cases h1 : findSrc p ts <;> cases h2 : findSrc p us <;> simp [h1, h2] at ih ⊢
    · rw [hs]; split <;> simp [ht]
    · exact ih
  | [], _ :: _, h => by simp [beqShapeL] at h
  | _ :: _, [], h => by simp [beqShapeL] at h

theorem argsOf_congr (ts us : List GTree) (h : beqShapeL ts us = true) :
    ∀ ps : List String, argsOf ps ts = argsOf ps us
  | [] => rfl
  | p :: ps => by
    have ih := argsOf_congr ts us h ps
    have hf := findSrc_congr p ts us h
    simp only [argsOf, ih]
    cases h1 : findSrc p ts <;> cases h2 : findSrc p us <;> simp [h1, h2] at hf ⊢
    cases argsOf ps us <;> simp [hf]

theorem any_beqShape_of_mem {t : GTree} {ts : List GTree} (h : t ∈ ts) : ts.any (beqShape t) = true :=
  List.any_eq_true.2 ⟨t, h, beqShape_refl t⟩


/-! ### the `self_is_generator_child` loop on a node `GenInv` looks at -/

/-- the context is a real chain of ancestors, and the node is not below a node the grammar uses a generator for
    (going up through child edges only): at every level the node is a source of its parent, or the parent is not
    generator-defined in its place -/
def Searched (S : Spec) : GTree → List Frame → Prop
  | _, [] => True
  | cur, f :: rest =>
    (cur ∈ f.srcs ∨ S.useGen (ctxSyms rest ++ [f.sym]) f.sym = none) ∧ Searched S f.tree rest

theorem isGenChild_false (S : Spec) : ∀ (ctx : List Frame) (cur : GTree), Searched S cur ctx →
    isGenChild S cur ctx = false
  | [], _, _ => rfl
  | f :: rest, cur, h => by
    obtain ⟨h1, h2⟩ := h
    simp only [isGenChild]
    rcases h1 with hm | hn
    · simp [any_beqShape_of_mem hm]
    · split
      · rfl
      · simp only [hn, Option.isSome_none, Bool.and_false]
        exact isGenChild_false S rest f.tree h2

theorem ctxSyms_cons (f : Frame) (ctx : List Frame) : ctxSyms (f :: ctx) = ctxSyms ctx ++ [f.sym] := by
  simp [ctxSyms]

/-! ### a generator call -/

theorem genKids_ok {E : Env} {s : String} {srcs : List GTree} {log : Log} {kids : List GTree} {log' : Log}
    (h : genKids E s srcs log = .ok (kids, log')) :
    ∃ ps args v, E.S.params s = some ps ∧ argsOf ps srcs = some args ∧ E.parse s v = some kids ∧
      log' = ⟨s, args, v⟩ :: log := by
  unfold genKids at h
  split at h
  · simp at h
  · rename_i ps hps
    split at h
    · simp at h
    · rename_i args ha
      split at h
      · simp at h
      · rename_i v hv
        split at h
        · simp at h
        · rename_i k hk
          simp only [Except.ok.injEq, Prod.mk.injEq] at h
          exact ⟨ps, args, v, hps, ha, by rw [hk, h.1], h.2.symm⟩

theorem genKids_mono {E : Env} {s : String} {srcs : List GTree} {log : Log} {kids : List GTree} {log' : Log}
    (h : genKids E s srcs log = .ok (kids, log')) : ∀ e ∈ log, e ∈ log' := by
  obtain ⟨_, _, _, _, _, _, rfl⟩ := genKids_ok h
  intro e he
  exact List.mem_cons_of_mem _ he


/-! ### the log only grows -/

def LogLe (a b : Log) : Prop := ∀ e ∈ a, e ∈ b
theorem LogLe.refl (a : Log) : LogLe a a := fun _ h => h
theorem LogLe.trans {a b c : Log} (h1 : LogLe a b) (h2 : LogLe b c) : LogLe a c := fun e h => h2 e (h1 e h)

theorem pop_mono (E : Env) : ∀ f : Nat,
    (∀ path t log r, deriveSources E f path t log = .ok r → LogLe log r.2) ∧
    (∀ path syms args log r, deriveLoop E f path syms args log = .ok r → LogLe log r.2) ∧
    (∀ path t log r, populate E f path t log = .ok r → LogLe log r.2) ∧
    (∀ path ts log r, populateL E f path ts log = .ok r → LogLe log r.2)
  | 0 => by
    refine ⟨?_, ?_, ?_, ?_⟩ <;> intros <;> rename_i h
    · simp [deriveSources] at h
    · simp [deriveLoop] at h
    · simp [populate] at h
    · simp [populateL] at h
  | f + 1 => by
    obtain ⟨ih1, ih2, ih3, ih4⟩ := pop_mono E f
    refine ⟨?_, ?_, ?_, ?_⟩
    · intro path t log r h
      cases t with
      | leaf v ro => simp [deriveSources] at h
      | node s ro kids srcs =>
        simp only [deriveSources] at h
        split at h
        · simp at h
        · split at h
          · simp only [Except.ok.injEq] at h; subst h; exact LogLe.refl _
          · split at h
            · simp at h
            · split at h
              · simp at h
              · split at h
                · simp at h
                · exact ih2 _ _ _ _ _ h
    · intro path syms args log r h
      cases syms with
      | nil => simp only [deriveLoop, Except.ok.injEq] at h; subst h; exact LogLe.refl _
      | cons sym rest =>
        simp only [deriveLoop] at h
        split at h
        · simp at h
        · rename_i kids log1 hg
          split at h
          · simp at h
          · rename_i kids' log2 hp
            have a := ih4 _ _ _ _ hp
            have b := ih2 _ _ _ _ _ h
            exact LogLe.trans (genKids_mono hg) (LogLe.trans a b)
    · intro path t log r h
      cases t with
      | leaf v ro => simp only [populate, Except.ok.injEq] at h; subst h; exact LogLe.refl _
      | node s ro kids srcs =>
        simp only [populate] at h
        split at h
        · split at h
          · simp at h
          · rename_i srcs' log' hd
            simp only [Except.ok.injEq] at h; subst h
            exact ih1 _ _ _ _ hd
        · split at h
          · simp at h
          · rename_i kids' log' hd
            simp only [Except.ok.injEq] at h; subst h
            exact ih4 _ _ _ _ hd
    · intro path ts log r h
      cases ts with
      | nil => simp only [populateL, Except.ok.injEq] at h; subst h; exact LogLe.refl _
      | cons t ts =>
        simp only [populateL] at h
        split at h
        · simp at h
        · rename_i t' log1 h1
          split at h
          · simp at h
          · rename_i ts' log2 h2
            simp only [Except.ok.injEq] at h; subst h
            have a := ih3 _ _ _ _ h1
            have b := ih4 _ _ _ _ h2
            exact LogLe.trans a b


theorem populateSources_mono {E : Env} {f : Nat} {path : List String} {t : GTree} {log : Log} {r : GTree × Log}
    (h : populateSources E f path t log = .ok r) : LogLe log r.2 :=
  (pop_mono E f).2.2.1 _ _ _ _ h

theorem replace_mono (E : Env) (repl : Repl) : ∀ f : Nat,
    (∀ ctx path t log o, replaceG E repl f ctx path t log = .ok o → LogLe log o.log) ∧
    (∀ ctx path par i ts log o, replaceL E repl f ctx path par i ts log = .ok o → LogLe log o.log)
  | 0 => by
    constructor <;> intros <;> rename_i h
    · simp [replaceG] at h
    · simp [replaceL] at h
  | f + 1 => by
    obtain ⟨ihG, ihL⟩ := replace_mono E repl f
    constructor
    · intro ctx path t log o h
      simp only [replaceG] at h
      split at h
      · simp only [Except.ok.injEq] at h; subst h; exact LogLe.refl _
      · split at h
        · simp at h
        · rename_i o1 h1
          split at h
          · simp at h
          · rename_i u log2 h2
            simp only [Except.ok.injEq] at h; subst h
            have a := ihL _ _ _ _ _ _ _ h1
            have b := populateSources_mono h2
            exact LogLe.trans a b
      · split at h
        · simp only [Except.ok.injEq] at h; subst h; exact LogLe.refl _
        · split at h
          · simp at h
          · rename_i os hs
            split at h
            · simp at h
            · rename_i ok hk
              have a := ihL _ _ _ _ _ _ _ hs
              have b := ihL _ _ _ _ _ _ _ hk
              have ab := LogLe.trans a b
              split at h
              · simp only [Except.ok.injEq] at h; subst h; exact ab
              · split at h
                · split at h
                  · simp only [Except.ok.injEq] at h; subst h; exact ab
                  · split at h
                    · simp at h
                    · rename_i gk log3 hg
                      simp only [Except.ok.injEq] at h; subst h
                      exact LogLe.trans ab (genKids_mono hg)
                · split at h
                  · split at h
                    · simp at h
                    · rename_i srcs2 log3 hd
                      simp only [Except.ok.injEq] at h; subst h
                      have c := (pop_mono E f).1 _ _ _ _ hd
                      exact LogLe.trans ab c
                  · simp only [Except.ok.injEq] at h; subst h; exact ab
    · intro ctx path par i ts log o h
      cases ts with
      | nil => simp only [replaceL, Except.ok.injEq] at h; subst h; exact LogLe.refl _
      | cons t ts =>
        simp only [replaceL] at h
        split at h
        · simp at h
        · rename_i o1 h1
          split at h
          · simp at h
          · rename_i os h2
            simp only [Except.ok.injEq] at h; subst h
            have a := ihG _ _ _ _ _ h1
            have b := ihL _ _ _ _ _ _ _ h2
            exact LogLe.trans a b

end FV.Gen
