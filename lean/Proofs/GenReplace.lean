/-
Helper lemmas for the whole-function part of `Props/C16.lean` (model: `Model/GenReplace.lean`).
-/
import Proofs.Gen
import Model.GenReplace
namespace FV.Gen
open GTree

/-! ### `beqShape` -/

mutual
theorem beqShape_refl : ∀ t : GTree, beqShape t t = true
  | .leaf _ _ => by simp [beqShape]
  | .node _ _ ks _ => by simp [beqShape, beqShapeL_refl ks]
theorem beqShapeL_refl : ∀ ts : List GTree, beqShapeL ts ts = true
  | [] => rfl
  | t :: ts => by simp [beqShapeL, beqShape_refl t, beqShapeL_refl ts]
end

mutual
theorem beqShape_text : ∀ t u : GTree, beqShape t u = true → t.text = u.text
  | .leaf v _, .leaf w _, h => by simpa [beqShape, text] using h
  | .node _ _ ks _, .node _ _ ks' _, h => by
    simp only [beqShape, Bool.and_eq_true] at h
    simpa [text] using beqShapeL_textL ks ks' h.2
  | .leaf _ _, .node _ _ _ _, h => by simp [beqShape] at h
  | .node _ _ _ _, .leaf _ _, h => by simp [beqShape] at h
theorem beqShapeL_textL : ∀ ts us : List GTree, beqShapeL ts us = true → textL ts = textL us
  | [], [], _ => rfl
  | t :: ts, u :: us, h => by
    simp only [beqShapeL, Bool.and_eq_true] at h
    simp [textL, beqShape_text t u h.1, beqShapeL_textL ts us h.2]
  | [], _ :: _, h => by simp [beqShapeL] at h
  | _ :: _, [], h => by simp [beqShapeL] at h
end

mutual
theorem beqTree_eq : ∀ t u : GTree, beqTree t u = true → t = u
  | .leaf v r, .leaf w r', h => by
    simp only [beqTree, Bool.and_eq_true, beq_iff_eq] at h
    rw [h.1, h.2]
  | .node s r ks ss, .node s' r' ks' ss', h => by
    simp only [beqTree, Bool.and_eq_true, beq_iff_eq] at h
    obtain ⟨⟨⟨h1, h2⟩, h3⟩, h4⟩ := h
    rw [h1, h2, beqTreeL_eq ks ks' h3, beqTreeL_eq ss ss' h4]
  | .leaf _ _, .node _ _ _ _, h => by simp [beqTree] at h
  | .node _ _ _ _, .leaf _ _, h => by simp [beqTree] at h
theorem beqTreeL_eq : ∀ ts us : List GTree, beqTreeL ts us = true → ts = us
  | [], [], _ => rfl
  | t :: ts, u :: us, h => by
    simp only [beqTreeL, Bool.and_eq_true] at h
    rw [beqTree_eq t u h.1, beqTreeL_eq ts us h.2]
  | [], _ :: _, h => by simp [beqTreeL] at h
  | _ :: _, [], h => by simp [beqTreeL] at h
end

theorem beqShape_sym? : ∀ t u : GTree, beqShape t u = true → t.sym? = u.sym?
  | .leaf _ _, .leaf _ _, _ => rfl
  | .node s _ _ _, .node s' _ _ _, h => by
    simp only [beqShape, Bool.and_eq_true, beq_iff_eq] at h
    simp [sym?, h.1]
  | .leaf _ _, .node _ _ _ _, h => by simp [beqShape] at h
  | .node _ _ _ _, .leaf _ _, h => by simp [beqShape] at h

theorem findSrc_congr (p : String) : ∀ ts us : List GTree, beqShapeL ts us = true →
    (findSrc p ts).map text = (findSrc p us).map text
  | [], [], _ => rfl
  | t :: ts, u :: us, h => by
    simp only [beqShapeL, Bool.and_eq_true] at h
    have ih := findSrc_congr p ts us h.2
    have hs := beqShape_sym? t u h.1
    have ht := beqShape_text t u h.1
    simp only [findSrc]
    cases h1 : findSrc p ts <;> cases h2 : findSrc p us <;> simp [h1, h2] at ih ⊢
    · rw [hs]; split <;> simp [ht]
    · exact ih
  | [], _ :: _, h => by simp [beqShapeL] at h
  | _ :: _, [], h => by simp [beqShapeL] at h

theorem argsOf_congr (ts us : List GTree) (h : beqShapeL ts us = true) :
    ∀ ps : List String, argsOf ps ts = argsOf ps us
  | [] => rfl
  | p :: ps => by
    have ih := argsOf_congr ts us h ps
    have hf := findSrc_congr p ts us h
    simp only [argsOf, ih]
    cases h1 : findSrc p ts <;> cases h2 : findSrc p us <;> simp [h1, h2] at hf ⊢
    cases argsOf ps us <;> simp [hf]

theorem any_beqShape_of_mem {t : GTree} {ts : List GTree} (h : t ∈ ts) : ts.any (beqShape t) = true :=
  List.any_eq_true.2 ⟨t, h, beqShape_refl t⟩


/-! ### the `self_is_generator_child` loop on a node `GenInv` looks at -/

/-- the context is a real chain of ancestors, and the node is not below a node the grammar uses a generator for
    (going up through child edges only): at every level the node is a source of its parent, or the parent is not
    generator-defined in its place -/
def Searched (S : Spec) : GTree → List Frame → Prop
  | _, [] => True
  | cur, f :: rest =>
    (cur ∈ f.srcs ∨ S.useGen (ctxSyms rest ++ [f.sym]) f.sym = none) ∧ Searched S f.tree rest

theorem isGenChild_false (S : Spec) : ∀ (ctx : List Frame) (cur : GTree), Searched S cur ctx →
    isGenChild S cur ctx = false
  | [], _, _ => rfl
  | f :: rest, cur, h => by
    obtain ⟨h1, h2⟩ := h
    simp only [isGenChild]
    rcases h1 with hm | hn
    · simp [any_beqShape_of_mem hm]
    · split
      · rfl
      · simp only [hn, Option.isSome_none, Bool.and_false]
        exact isGenChild_false S rest f.tree h2

theorem ctxSyms_cons (f : Frame) (ctx : List Frame) : ctxSyms (f :: ctx) = ctxSyms ctx ++ [f.sym] := by
  simp [ctxSyms]

/-! ### a generator call -/

theorem genKids_ok {E : Env} {s : String} {srcs : List GTree} {log : Log} {kids : List GTree} {log' : Log}
    (h : genKids E s srcs log = .ok (kids, log')) :
    ∃ ps args v, E.S.params s = some ps ∧ argsOf ps srcs = some args ∧ E.parse s v = some kids ∧
      log' = ⟨s, args, v⟩ :: log := by
  unfold genKids at h
  split at h
  · simp at h
  · rename_i ps hps
    split at h
    · simp at h
    · rename_i args ha
      split at h
      · simp at h
      · rename_i v hv
        split at h
        · simp at h
        · rename_i k hk
          simp only [Except.ok.injEq, Prod.mk.injEq] at h
          exact ⟨ps, args, v, hps, ha, by rw [hk, h.1], h.2.symm⟩

theorem genKids_mono {E : Env} {s : String} {srcs : List GTree} {log : Log} {kids : List GTree} {log' : Log}
    (h : genKids E s srcs log = .ok (kids, log')) : ∀ e ∈ log, e ∈ log' := by
  obtain ⟨_, _, _, _, _, _, rfl⟩ := genKids_ok h
  intro e he
  exact List.mem_cons_of_mem _ he


/-! ### the log only grows -/

def LogLe (a b : Log) : Prop := ∀ e ∈ a, e ∈ b
theorem LogLe.refl (a : Log) : LogLe a a := fun _ h => h
theorem LogLe.trans {a b c : Log} (h1 : LogLe a b) (h2 : LogLe b c) : LogLe a c := fun e h => h2 e (h1 e h)

theorem pop_mono (E : Env) : ∀ f : Nat,
    (∀ path t log r, deriveSources E f path t log = .ok r → LogLe log r.2) ∧
    (∀ path syms args log r, deriveLoop E f path syms args log = .ok r → LogLe log r.2) ∧
    (∀ path t log r, populate E f path t log = .ok r → LogLe log r.2) ∧
    (∀ path ts log r, populateL E f path ts log = .ok r → LogLe log r.2)
  | 0 => by
    refine ⟨?_, ?_, ?_, ?_⟩ <;> intros <;> rename_i h
    · simp [deriveSources] at h
    · simp [deriveLoop] at h
    · simp [populate] at h
    · simp [populateL] at h
  | f + 1 => by
    obtain ⟨ih1, ih2, ih3, ih4⟩ := pop_mono E f
    refine ⟨?_, ?_, ?_, ?_⟩
    · intro path t log r h
      cases t with
      | leaf v ro => simp [deriveSources] at h
      | node s ro kids srcs =>
        simp only [deriveSources] at h
        split at h
        · simp at h
        · split at h
          · simp only [Except.ok.injEq] at h; subst h; exact LogLe.refl _
          · split at h
            · simp at h
            · split at h
              · simp at h
              · split at h
                · simp at h
                · exact ih2 _ _ _ _ _ h
    · intro path syms args log r h
      cases syms with
      | nil => simp only [deriveLoop, Except.ok.injEq] at h; subst h; exact LogLe.refl _
      | cons sym rest =>
        simp only [deriveLoop] at h
        split at h
        · simp at h
        · rename_i kids log1 hg
          split at h
          · simp at h
          · rename_i kids' log2 hp
            have a : LogLe log1 log2 := by
              split at hp
              · simp only [Except.ok.injEq, Prod.mk.injEq] at hp; rw [hp.2]; exact LogLe.refl _
              · exact ih4 _ _ _ _ hp
            have b := ih2 _ _ _ _ _ h
            exact LogLe.trans (genKids_mono hg) (LogLe.trans a b)
    · intro path t log r h
      cases t with
      | leaf v ro => simp only [populate, Except.ok.injEq] at h; subst h; exact LogLe.refl _
      | node s ro kids srcs =>
        simp only [populate] at h
        split at h
        · split at h
          · simp at h
          · rename_i srcs' log' hd
            simp only [Except.ok.injEq] at h; subst h
            exact ih1 _ _ _ _ hd
        · split at h
          · simp at h
          · rename_i kids' log' hd
            simp only [Except.ok.injEq] at h; subst h
            exact ih4 _ _ _ _ hd
    · intro path ts log r h
      cases ts with
      | nil => simp only [populateL, Except.ok.injEq] at h; subst h; exact LogLe.refl _
      | cons t ts =>
        simp only [populateL] at h
        split at h
        · simp at h
        · rename_i t' log1 h1
          split at h
          · simp at h
          · rename_i ts' log2 h2
            simp only [Except.ok.injEq] at h; subst h
            have a := ih3 _ _ _ _ h1
            have b := ih4 _ _ _ _ h2
            exact LogLe.trans a b


theorem populateSources_mono {E : Env} {f : Nat} {path : List String} {t : GTree} {log : Log} {r : GTree × Log}
    (h : populateSources E f path t log = .ok r) : LogLe log r.2 :=
  (pop_mono E f).2.2.1 _ _ _ _ h

theorem replace_mono (E : Env) (repl : Repl) : ∀ f : Nat,
    (∀ ctx path t log o, replaceG E repl f ctx path t log = .ok o → LogLe log o.log) ∧
    (∀ ctx path par i ts log o, replaceL E repl f ctx path par i ts log = .ok o → LogLe log o.log)
  | 0 => by
    constructor <;> intros <;> rename_i h
    · simp [replaceG] at h
    · simp [replaceL] at h
  | f + 1 => by
    obtain ⟨ihG, ihL⟩ := replace_mono E repl f
    constructor
    · intro ctx path t log o h
      simp only [replaceG] at h
      split at h
      · simp only [Except.ok.injEq] at h; subst h; exact LogLe.refl _
      · split at h
        · simp at h
        · rename_i o1 h1
          split at h
          · simp at h
          · rename_i u log2 h2
            simp only [Except.ok.injEq] at h; subst h
            have a := ihL _ _ _ _ _ _ _ h1
            have b := populateSources_mono h2
            exact LogLe.trans a b
      · split at h
        · simp only [Except.ok.injEq] at h; subst h; exact LogLe.refl _
        · split at h
          · simp at h
          · rename_i os hs
            split at h
            · simp at h
            · rename_i ok hk
              have a := ihL _ _ _ _ _ _ _ hs
              have b := ihL _ _ _ _ _ _ _ hk
              have ab := LogLe.trans a b
              split at h
              · simp only [Except.ok.injEq] at h; subst h; exact ab
              · split at h
                · split at h
                  · simp only [Except.ok.injEq] at h; subst h; exact ab
                  · split at h
                    · simp at h
                    · rename_i gk log3 hg
                      simp only [Except.ok.injEq] at h; subst h
                      exact LogLe.trans ab (genKids_mono hg)
                · split at h
                  · split at h
                    · simp at h
                    · rename_i srcs2 log3 hd
                      simp only [Except.ok.injEq] at h; subst h
                      have c := (pop_mono E f).1 _ _ _ _ hd
                      exact LogLe.trans ab c
                  · simp only [Except.ok.injEq] at h; subst h; exact ab
    · intro ctx path par i ts log o h
      cases ts with
      | nil => simp only [replaceL, Except.ok.injEq] at h; subst h; exact LogLe.refl _
      | cons t ts =>
        simp only [replaceL] at h
        split at h
        · simp at h
        · rename_i o1 h1
          split at h
          · simp at h
          · rename_i os h2
            simp only [Except.ok.injEq] at h; subst h
            have a := ihG _ _ _ _ _ h1
            have b := ihL _ _ _ _ _ _ _ h2
            exact LogLe.trans a b


/-! ### inside generated output (everything read-only) nothing happens -/

theorem target_ro (repl : Repl) (path : List Nat) (t : GTree) (h : t.ro = true) : target repl path t = none := by
  unfold target
  split
  · simp [h]
  · rfl

theorem allRO_ro {t : GTree} (h : allRO t = true) : t.ro = true := by
  cases t with
  | leaf v r => simpa [allRO, GTree.ro] using h
  | node s r kids srcs =>
    simp only [allRO, Bool.and_eq_true] at h
    simpa [GTree.ro] using h.1.1

theorem replace_ro (E : Env) (repl : Repl) : ∀ f : Nat,
    (∀ ctx path t log o, allRO t = true → replaceG E repl f ctx path t log = .ok o →
      o.log = log ∧ o.inst = [] ∧ allRO o.tree = true ∧ beqShape o.tree t = true) ∧
    (∀ ctx path par i ts log o, allROL ts = true → replaceL E repl f ctx path par i ts log = .ok o →
      o.log = log ∧ o.inst = [] ∧ allROL o.trees = true ∧ beqShapeL o.trees ts = true)
  | 0 => by
    constructor <;> intros <;> rename_i h
    · simp [replaceG] at h
    · simp [replaceL] at h
  | f + 1 => by
    obtain ⟨ihG, ihL⟩ := replace_ro E repl f
    constructor
    · intro ctx path t log o hro h
      simp only [replaceG, target_ro repl path t (allRO_ro hro)] at h
      cases t with
      | leaf v r =>
        simp only [Except.ok.injEq] at h; subst h
        exact ⟨rfl, rfl, hro, beqShape_refl _⟩
      | node s r kids srcs =>
        simp only [allRO, Bool.and_eq_true] at hro
        obtain ⟨⟨hr, hk⟩, hs⟩ := hro
        simp only at h
        split at h
        · simp at h
        · rename_i os hos
          obtain ⟨sl, si, sr, sb⟩ := ihL _ _ _ _ _ _ _ hs hos
          split at h
          · simp at h
          · rename_i ok hok
            rw [sl] at hok
            obtain ⟨kl, ki, kr, kb⟩ := ihL _ _ _ _ _ _ _ hk hok
            simp only [sb, kb, Bool.not_true, Bool.false_eq_true, if_false] at h
            split at h
            · simp only [Except.ok.injEq] at h; subst h
              refine ⟨kl, ki, ?_, ?_⟩
              · simp [allRO, hr, kr, allROL]
              · simp [beqShape, kb]
            · simp only [Except.ok.injEq] at h; subst h
              refine ⟨kl, by simp [si, ki], ?_, ?_⟩
              · simp [allRO, hr, kr, sr]
              · simp [beqShape, kb]
    · intro ctx path par i ts log o hro h
      cases ts with
      | nil =>
        simp only [replaceL, Except.ok.injEq] at h; subst h
        exact ⟨rfl, rfl, rfl, rfl⟩
      | cons t ts =>
        simp only [allROL, Bool.and_eq_true] at hro
        simp only [replaceL] at h
        split at h
        · simp at h
        · rename_i o1 h1
          obtain ⟨l1, i1, r1, b1⟩ := ihG _ _ _ _ _ hro.1 h1
          split at h
          · simp at h
          · rename_i os h2
            rw [l1] at h2
            obtain ⟨l2, i2, r2, b2⟩ := ihL _ _ _ _ _ _ _ hro.2 h2
            simp only [Except.ok.injEq] at h; subst h
            exact ⟨l2, by simp [i1, i2], by simp [allROL, r1, r2], by simp [beqShapeL, b1, b2]⟩


/-! ### the whole function keeps the invariant -/

def InstInv (S : Spec) (L : Log) (inst : List Install) : Prop := ∀ i ∈ inst, GenInv S L i.1 i.2
def InstSrc (S : Spec) (inst : List Install) : Prop := ∀ i ∈ inst, srcOKB S i.1 i.2 = true

theorem InstInv.left {S : Spec} {L : Log} {a b : List Install} (h : InstInv S L (a ++ b)) : InstInv S L a :=
  fun i hi => h i (List.mem_append_left _ hi)
theorem InstInv.right {S : Spec} {L : Log} {a b : List Install} (h : InstInv S L (a ++ b)) : InstInv S L b :=
  fun i hi => h i (List.mem_append_right _ hi)
theorem InstSrc.left {S : Spec} {a b : List Install} (h : InstSrc S (a ++ b)) : InstSrc S a :=
  fun i hi => h i (List.mem_append_left _ hi)
theorem InstSrc.right {S : Spec} {a b : List Install} (h : InstSrc S (a ++ b)) : InstSrc S b :=
  fun i hi => h i (List.mem_append_right _ hi)

theorem replaceL_nil {E : Env} {repl : Repl} {f : Nat} {ctx : List Frame} {path : List Nat} {par i : Nat}
    {log : Log} {o : OutL} (h : replaceL E repl f ctx path par i [] log = .ok o) :
    o.trees = [] ∧ o.log = log ∧ o.inst = [] := by
  cases f with
  | zero => simp [replaceL] at h
  | succ f => simp only [replaceL, Except.ok.injEq] at h; subst h; exact ⟨rfl, rfl, rfl⟩

theorem deriveSources_unused {E : Env} {f : Nat} {path : List String} {s : String} {r : Bool}
    {kids srcs : List GTree} {log : Log} {x : List GTree × Log} {ps : List String}
    (hps : E.S.params s = some ps) (hu : E.S.useGen (path ++ [s]) s = none)
    (h : deriveSources E f path (.node s r kids srcs) log = .ok x) : x = ([], log) := by
  cases f with
  | zero => simp [deriveSources] at h
  | succ f =>
    simp only [deriveSources, hps, hu, Except.ok.injEq] at h
    exact h.symm

theorem replace_inv (E : Env) (repl : Repl) (hp : ParseFits E.parse) : ∀ f : Nat,
    (∀ ctx path t log o, Searched E.S t ctx → GenInv E.S log (ctxSyms ctx) t →
      srcOKB E.S (ctxSyms ctx) t = true → replaceG E repl f ctx path t log = .ok o →
      (∀ L, LogLe o.log L → InstInv E.S L o.inst → GenInv E.S L (ctxSyms ctx) o.tree) ∧
      (InstSrc E.S o.inst → srcOKB E.S (ctxSyms ctx) o.tree = true)) ∧
    (∀ ctx path par i ts log o, (∀ t ∈ ts, Searched E.S t ctx) → GenInvL E.S log (ctxSyms ctx) ts →
      srcOKLB E.S (ctxSyms ctx) ts = true → replaceL E repl f ctx path par i ts log = .ok o →
      (∀ L, LogLe o.log L → InstInv E.S L o.inst → GenInvL E.S L (ctxSyms ctx) o.trees) ∧
      (InstSrc E.S o.inst → srcOKLB E.S (ctxSyms ctx) o.trees = true))
  | 0 => by
    constructor <;> intros <;> rename_i h
    · simp [replaceG] at h
    · simp [replaceL] at h
  | f + 1 => by
    obtain ⟨ihG, ihL⟩ := replace_inv E repl hp f
    constructor
    · intro ctx path t log o hsea hinv hsrc h
      simp only [replaceG] at h
      split at h
      · -- a terminal is installed
        simp only [Except.ok.injEq] at h; subst h
        exact ⟨fun L _ hi => hi (ctxSyms ctx, _) (by simp), fun hi => hi (ctxSyms ctx, _) (by simp)⟩
      · -- a copy of the replacement is installed
        split at h
        · simp at h
        · split at h
          · simp at h
          · simp only [Except.ok.injEq] at h; subst h
            exact ⟨fun L _ hi => hi (ctxSyms ctx, _) (by simp), fun hi => hi (ctxSyms ctx, _) (by simp)⟩
      · -- no replacement here
        cases t with
        | leaf v r =>
          simp only [Except.ok.injEq] at h; subst h
          exact ⟨fun _ _ _ => trivial, fun _ => rfl⟩
        | node s r kids srcs =>
          simp only at h
          have hc : ctxSyms ((⟨s, r, kids, srcs⟩ : Frame) :: ctx) = ctxSyms ctx ++ [s] := ctxSyms_cons _ _
          split at h
          · simp at h
          · rename_i os hos
            have mS := (replace_mono E repl f).2 _ _ _ _ _ _ _ hos
            split at h
            · simp at h
            · rename_i ok hok
              have mK := (replace_mono E repl f).2 _ _ _ _ _ _ _ hok
              cases huse : E.S.useGen (ctxSyms ctx ++ [s]) s with
              | some ps =>
                simp only [GenInv, huse] at hinv
                obtain ⟨⟨⟨args, ha, hm⟩, hro⟩, hsI⟩ := hinv
                simp only [srcOKB, huse] at hsrc
                have hps := useGen_params huse
                obtain ⟨sI, sS⟩ := ihL (⟨s, r, kids, srcs⟩ :: ctx) path 1 0 srcs log os
                  (fun t' ht' => ⟨Or.inl ht', hsea⟩) (by rw [hc]; exact hsI) (by rw [hc]; exact hsrc) hos
                rw [hc] at sI sS
                obtain ⟨kl, ki, kr, kb⟩ := (replace_ro E repl f).2 _ _ _ _ _ _ _ hro hok
                simp only [hps, Option.isNone_some, Bool.false_eq_true, if_false] at h
                cases hb : beqShapeL os.trees srcs with
                | true =>
                  simp only [hb, kb, Bool.not_true, Bool.false_eq_true, if_false, Except.ok.injEq] at h
                  subst h
                  constructor
                  · intro L hL hi
                    simp only [GenInv, huse]
                    refine ⟨⟨⟨args, ?_, ?_⟩, kr⟩, sI L ?_ hi.left⟩
                    · rw [argsOf_congr _ _ hb]; exact ha
                    · rw [beqShapeL_textL _ _ kb]
                      exact hL _ (mK _ (mS _ hm))
                    · rw [kl] at hL; exact hL
                  · intro hi
                    simp only [srcOKB, huse]
                    exact sS hi.left
                | false =>
                  simp only [hb, Bool.not_false, if_true, isGenChild_false E.S ctx _ hsea, Bool.false_eq_true,
                    if_false] at h
                  split at h
                  · simp at h
                  · rename_i gk log3 hg
                    simp only [Except.ok.injEq] at h; subst h
                    obtain ⟨ps', args', v, hps', ha', hpk, rfl⟩ := genKids_ok hg
                    have hpseq : ps' = ps := by rw [hps] at hps'; exact (Option.some.inj hps').symm
                    subst hpseq
                    constructor
                    · intro L hL hi
                      simp only [GenInv, huse]
                      refine ⟨⟨⟨args', ha', ?_⟩, allROL_setROL gk⟩, sI L ?_ hi⟩
                      · rw [textL_setROL, hp s v gk hpk]
                        exact hL _ List.mem_cons_self
                      · intro e he
                        exact hL _ (List.mem_cons_of_mem _ (by rw [kl]; exact he))
                    · intro hi
                      simp only [srcOKB, huse]
                      exact sS hi
              | none =>
                simp only [GenInv, huse] at hinv
                obtain ⟨hkI, _⟩ := hinv
                simp only [srcOKB, huse, Bool.and_eq_true, List.isEmpty_iff] at hsrc
                obtain ⟨hse, hks⟩ := hsrc
                subst hse
                obtain ⟨st, sl, si⟩ := replaceL_nil hos
                rw [sl] at hok
                obtain ⟨kI, kS⟩ := ihL (⟨s, r, kids, []⟩ :: ctx) path 0 0 kids log ok
                  (fun t' _ => ⟨Or.inr huse, hsea⟩) (by rw [hc]; exact hkI) (by rw [hc]; exact hks) hok
                rw [hc] at kI kS
                have hfin : ∀ L, LogLe ok.log L → InstInv E.S L ok.inst →
                    GenInv E.S L (ctxSyms ctx) (.node s r ok.trees []) := by
                  intro L hL hi
                  simp only [GenInv, huse]
                  exact ⟨kI L hL hi, trivial⟩
                have hfinS : InstSrc E.S ok.inst → srcOKB E.S (ctxSyms ctx) (.node s r ok.trees []) = true := by
                  intro hi
                  simp only [srcOKB, huse, List.isEmpty_nil, Bool.true_and]
                  exact kS hi
                simp only [st, si, beqShapeL, Bool.not_true, Bool.false_eq_true, if_false, List.nil_append] at h
                split at h
                · simp only [Except.ok.injEq] at h; subst h
                  exact ⟨hfin, hfinS⟩
                · rename_i hpn
                  split at h
                  · split at h
                    · simp at h
                    · rename_i srcs2 log3 hd
                      cases hps : E.S.params s with
                      | none => simp [hps] at hpn
                      | some ps =>
                        have := deriveSources_unused hps huse hd
                        simp only [Prod.mk.injEq] at this
                        obtain ⟨rfl, rfl⟩ := this
                        simp only [Except.ok.injEq] at h; subst h
                        exact ⟨hfin, hfinS⟩
                  · simp only [Except.ok.injEq] at h; subst h
                    exact ⟨hfin, hfinS⟩
    · intro ctx path par i ts log o hsea hinv hsrc h
      cases ts with
      | nil =>
        obtain ⟨st, _, _⟩ := replaceL_nil h
        rw [st]
        exact ⟨fun _ _ _ => trivial, fun _ => rfl⟩
      | cons t ts =>
        simp only [replaceL] at h
        split at h
        · simp at h
        · rename_i o1 h1
          split at h
          · simp at h
          · rename_i os h2
            simp only [Except.ok.injEq] at h; subst h
            have m1 := (replace_mono E repl f).1 _ _ _ _ _ h1
            have m2 := (replace_mono E repl f).2 _ _ _ _ _ _ _ h2
            simp only [srcOKLB, Bool.and_eq_true] at hsrc
            obtain ⟨g1, s1⟩ := ihG ctx _ t log o1 (hsea t List.mem_cons_self) hinv.1 hsrc.1 h1
            obtain ⟨g2, s2⟩ := ihL ctx path par (i + 1) ts o1.log os
              (fun t' ht' => hsea t' (List.mem_cons_of_mem _ ht')) (genInvL_mono m1 _ _ hinv.2) hsrc.2 h2
            constructor
            · intro L hL hi
              exact ⟨g1 L (LogLe.trans m2 hL) hi.left, g2 L hL hi.right⟩
            · intro hi
              simp only [srcOKLB, Bool.and_eq_true]
              exact ⟨s1 hi.left, s2 hi.right⟩


/-! ### generator-free replacements: `populate_sources` has nothing to adopt -/

mutual
theorem genFree_strip (S : Spec) : ∀ t : GTree, genFreeB S (strip t) = genFreeB S t
  | .leaf _ _ => rfl
  | .node _ _ kids _ => by simp [strip, genFreeB, genFreeL_strip S kids]
theorem genFreeL_strip (S : Spec) : ∀ ts : List GTree, genFreeLB S (stripL ts) = genFreeLB S ts
  | [] => rfl
  | t :: ts => by simp [stripL, genFreeLB, genFree_strip S t, genFreeL_strip S ts]
end

theorem useGen_none_of_params {S : Spec} {path : List String} {s : String} (h : S.params s = none) :
    S.useGen path s = none := by
  unfold Spec.useGen
  simp [h]

theorem populate_genfree (E : Env) : ∀ f : Nat,
    (∀ path t log x, genFreeB E.S t = true → populate E f path t log = .ok x → x = (t, log)) ∧
    (∀ path ts log x, genFreeLB E.S ts = true → populateL E f path ts log = .ok x → x = (ts, log))
  | 0 => by
    constructor <;> intros <;> rename_i h
    · simp [populate] at h
    · simp [populateL] at h
  | f + 1 => by
    obtain ⟨ih1, ih2⟩ := populate_genfree E f
    constructor
    · intro path t log x hg h
      cases t with
      | leaf v r => simp only [populate, Except.ok.injEq] at h; exact h.symm
      | node s r kids srcs =>
        simp only [genFreeB, Bool.and_eq_true, Option.isNone_iff_eq_none] at hg
        simp only [populate, useGen_none_of_params hg.1] at h
        split at h
        · simp at h
        · rename_i kids' log' hk
          have := ih2 _ _ _ _ hg.2 hk
          simp only [Prod.mk.injEq] at this
          obtain ⟨rfl, rfl⟩ := this
          simp only [Except.ok.injEq] at h
          exact h.symm
    · intro path ts log x hg h
      cases ts with
      | nil => simp only [populateL, Except.ok.injEq] at h; exact h.symm
      | cons t ts =>
        simp only [genFreeLB, Bool.and_eq_true] at hg
        simp only [populateL] at h
        split at h
        · simp at h
        · rename_i t' log1 h1
          have e1 := ih1 _ _ _ _ hg.1 h1
          simp only [Prod.mk.injEq] at e1
          obtain ⟨rfl, rfl⟩ := e1
          split at h
          · simp at h
          · rename_i ts' log2 h2
            have e2 := ih2 _ _ _ _ hg.2 h2
            simp only [Prod.mk.injEq] at e2
            obtain ⟨rfl, rfl⟩ := e2
            simp only [Except.ok.injEq] at h
            exact h.symm

mutual
theorem genFree_inv (S : Spec) (L : Log) : ∀ (path : List String) (t : GTree), genFreeB S t = true →
    GenInv S L path (strip t) ∧ srcOKB S path (strip t) = true
  | _, .leaf _ _, _ => ⟨trivial, rfl⟩
  | path, .node s r kids srcs, h => by
    simp only [genFreeB, Bool.and_eq_true, Option.isNone_iff_eq_none] at h
    have hu := useGen_none_of_params (path := path ++ [s]) h.1
    obtain ⟨a, b⟩ := genFreeL_inv S L (path ++ [s]) kids h.2
    simp only [strip, GenInv, srcOKB, hu]
    exact ⟨⟨a, trivial⟩, by simpa using b⟩
theorem genFreeL_inv (S : Spec) (L : Log) : ∀ (path : List String) (ts : List GTree), genFreeLB S ts = true →
    GenInvL S L path (stripL ts) ∧ srcOKLB S path (stripL ts) = true
  | _, [], _ => ⟨trivial, rfl⟩
  | path, t :: ts, h => by
    simp only [genFreeLB, Bool.and_eq_true] at h
    obtain ⟨a, b⟩ := genFree_inv S L path t h.1
    obtain ⟨c, d⟩ := genFreeL_inv S L path ts h.2
    simp only [stripL, GenInvL, srcOKLB, Bool.and_eq_true]
    exact ⟨⟨a, c⟩, b, d⟩
end

theorem lookupRepl_mem {p : List Nat} : ∀ {repl : Repl} {r : GTree}, lookupRepl p repl = some r →
    ∃ q, (q, r) ∈ repl
  | [], _, h => by simp [lookupRepl] at h
  | (q, r') :: rest, r, h => by
    simp only [lookupRepl] at h
    split at h
    · rename_i x hx
      simp only [Option.some.injEq] at h; subst h
      obtain ⟨q', hq⟩ := lookupRepl_mem hx
      exact ⟨q', List.mem_cons_of_mem _ hq⟩
    · split at h
      · simp only [Option.some.injEq] at h; subst h
        exact ⟨q, List.mem_cons_self⟩
      · simp at h

theorem target_mem {repl : Repl} {path : List Nat} {t r : GTree} (h : target repl path t = some r) :
    ∃ q, (q, r) ∈ repl := by
  unfold target at h
  split at h
  · rename_i r' hr
    split at h
    · simp only [Option.some.injEq] at h; subst h
      exact lookupRepl_mem hr
    · simp at h
  · simp at h

def ReplFree (S : Spec) (repl : Repl) : Prop := ∀ q r, (q, r) ∈ repl → genFreeB S r = true

/-- on generator-free material with generator-free replacements the result is generator-free -/
theorem replace_genfree (E : Env) (repl : Repl) (hr : ReplFree E.S repl) : ∀ f : Nat,
    (∀ ctx path t log o, genFreeB E.S t = true → replaceG E repl f ctx path t log = .ok o →
      genFreeB E.S o.tree = true) ∧
    (∀ ctx path par i ts log o, genFreeLB E.S ts = true → replaceL E repl f ctx path par i ts log = .ok o →
      genFreeLB E.S o.trees = true)
  | 0 => by
    constructor <;> intros <;> rename_i h
    · simp [replaceG] at h
    · simp [replaceL] at h
  | f + 1 => by
    obtain ⟨ihG, ihL⟩ := replace_genfree E repl hr f
    constructor
    · intro ctx path t log o hg h
      simp only [replaceG] at h
      split at h
      · simp only [Except.ok.injEq] at h; subst h; rfl
      · rename_i s rr ks _ htar
        obtain ⟨q, hq⟩ := target_mem htar
        have hrf := hr _ _ hq
        simp only [genFreeB, Bool.and_eq_true] at hrf
        split at h
        · simp at h
        · rename_i o1 h1
          have g1 := ihL _ _ _ _ _ _ _ hrf.2 h1
          split at h
          · simp at h
          · rename_i u log2 h2
            simp only [Except.ok.injEq] at h; subst h
            have gn : genFreeB E.S (strip (.node s rr o1.trees [])) = true := by
              rw [genFree_strip]; simp [genFreeB, hrf.1, g1]
            have := (populate_genfree E f).1 _ _ _ _ gn h2
            simp only [Prod.mk.injEq] at this
            rw [this.1]; exact gn
      · cases t with
        | leaf v r => simp only [Except.ok.injEq] at h; subst h; rfl
        | node s r kids srcs =>
          simp only [genFreeB, Bool.and_eq_true] at hg
          simp only at h
          split at h
          · simp at h
          · split at h
            · simp at h
            · rename_i ok hok
              have gk := ihL _ _ _ _ _ _ _ hg.2 hok
              simp only [hg.1, if_true, Except.ok.injEq] at h
              subst h
              simp [genFreeB, hg.1, gk]
    · intro ctx path par i ts log o hg h
      cases ts with
      | nil => simp only [replaceL, Except.ok.injEq] at h; subst h; rfl
      | cons t ts =>
        simp only [genFreeLB, Bool.and_eq_true] at hg
        simp only [replaceL] at h
        split at h
        · simp at h
        · rename_i o1 h1
          split at h
          · simp at h
          · rename_i os h2
            simp only [Except.ok.injEq] at h; subst h
            simp [genFreeLB, ihG _ _ _ _ _ hg.1 h1, ihL _ _ _ _ _ _ _ hg.2 h2]

def InstFree (S : Spec) (inst : List Install) : Prop := ∀ i ∈ inst, ∃ x, genFreeB S x = true ∧ i.2 = strip x

theorem InstFree.append {S : Spec} {a b : List Install} (ha : InstFree S a) (hb : InstFree S b) :
    InstFree S (a ++ b) := by
  intro i hi
  rcases List.mem_append.1 hi with h | h
  · exact ha i h
  · exact hb i h

theorem InstFree.nil (S : Spec) : InstFree S [] := by intro i hi; simp at hi

/-- with generator-free replacements every installed copy is a stripped generator-free tree -/
theorem replace_inst_free (E : Env) (repl : Repl) (hr : ReplFree E.S repl) : ∀ f : Nat,
    (∀ ctx path t log o, replaceG E repl f ctx path t log = .ok o → InstFree E.S o.inst) ∧
    (∀ ctx path par i ts log o, replaceL E repl f ctx path par i ts log = .ok o → InstFree E.S o.inst)
  | 0 => by
    constructor <;> intros <;> rename_i h
    · simp [replaceG] at h
    · simp [replaceL] at h
  | f + 1 => by
    obtain ⟨ihG, ihL⟩ := replace_inst_free E repl hr f
    constructor
    · intro ctx path t log o h
      simp only [replaceG] at h
      split at h
      · rename_i v rr htar
        simp only [Except.ok.injEq] at h; subst h
        intro i hi
        simp only [List.mem_singleton] at hi; subst hi
        exact ⟨.leaf v rr, rfl, rfl⟩
      · rename_i s rr ks _ htar
        obtain ⟨q, hq⟩ := target_mem htar
        have hrf := hr _ _ hq
        simp only [genFreeB, Bool.and_eq_true] at hrf
        split at h
        · simp at h
        · rename_i o1 h1
          have g1 := (replace_genfree E repl hr f).2 _ _ _ _ _ _ _ hrf.2 h1
          split at h
          · simp at h
          · rename_i u log2 h2
            simp only [Except.ok.injEq] at h; subst h
            have gn : genFreeB E.S (.node s rr o1.trees []) = true := by simp [genFreeB, hrf.1, g1]
            have gs : genFreeB E.S (strip (.node s rr o1.trees [])) = true := by rw [genFree_strip]; exact gn
            have := (populate_genfree E f).1 _ _ _ _ gs h2
            simp only [Prod.mk.injEq] at this
            intro i hi
            simp only [List.mem_singleton] at hi; subst hi
            exact ⟨_, gn, this.1⟩
      · cases t with
        | leaf v r => simp only [Except.ok.injEq] at h; subst h; exact InstFree.nil _
        | node s r kids srcs =>
          simp only at h
          split at h
          · simp at h
          · rename_i os hos
            have fs := ihL _ _ _ _ _ _ _ hos
            split at h
            · simp at h
            · rename_i ok hok
              have fk := ihL _ _ _ _ _ _ _ hok
              split at h
              · simp only [Except.ok.injEq] at h; subst h; exact fk
              · split at h
                · split at h
                  · simp only [Except.ok.injEq] at h; subst h; exact fk
                  · split at h
                    · simp at h
                    · simp only [Except.ok.injEq] at h; subst h; exact fs
                · split at h
                  · split at h
                    · simp at h
                    · simp only [Except.ok.injEq] at h; subst h; exact fk
                  · simp only [Except.ok.injEq] at h; subst h; exact fs.append fk
    · intro ctx path par i ts log o h
      cases ts with
      | nil => simp only [replaceL, Except.ok.injEq] at h; subst h; exact InstFree.nil _
      | cons t ts =>
        simp only [replaceL] at h
        split at h
        · simp at h
        · rename_i o1 h1
          split at h
          · simp at h
          · rename_i os h2
            simp only [Except.ok.injEq] at h; subst h
            exact (ihG _ _ _ _ _ h1).append (ihL _ _ _ _ _ _ _ h2)

end FV.Gen
