/-
Helper lemmas for E7 / `Model/Globals.lean` (C18).
-/
import Model.Globals
namespace FV.Env

/-! ## tuner growth -/

/-- the effective ceiling of a growth step: `min(max_repetitions, max_safe_repetition)` -/
def capEff (cap1 : Option Nat) (cap2 : Nat) : Nat :=
  match cap1 with
  | some m => min m cap2
  | none => cap2

theorem growWith_closed (inc : Nat → Nat) (cap1 : Option Nat) (cap2 cur : Nat) (h : 1 ≤ inc cur) :
    growWith inc cap1 cap2 cur =
      if cur < capEff cap1 cap2 then min (cur + inc cur) (capEff cap1 cap2) else cur := by
  unfold growWith capEff
  cases cap1 with
  | none => simp only [Nat.min_def]; grind
  | some m => simp only [Nat.min_def]; grind

theorem increment_pos (minInc : Nat) (rate : Dy) (cur : Nat) (h : 1 ≤ minInc) :
    1 ≤ increment minInc rate cur := by
  unfold increment; omega

theorem grow_closed (minInc : Nat) (rate : Dy) (cap1 : Option Nat) (cap2 cur : Nat) (h : 1 ≤ minInc) :
    grow minInc rate cap1 cap2 cur =
      if cur < capEff cap1 cap2 then min (cur + increment minInc rate cur) (capEff cap1 cap2) else cur :=
  growWith_closed _ _ _ _ (increment_pos minInc rate cur h)

theorem grow_mono (minInc : Nat) (rate : Dy) (cap1 : Option Nat) (cap2 cur : Nat) (h : 1 ≤ minInc) :
    cur ≤ grow minInc rate cap1 cap2 cur := by
  rw [grow_closed _ _ _ _ _ h]
  have := increment_pos minInc rate cur h
  simp only [Nat.min_def]; grind

theorem grow_strict (minInc : Nat) (rate : Dy) (cap1 : Option Nat) (cap2 cur : Nat) (h : 1 ≤ minInc)
    (hc : cur < capEff cap1 cap2) : cur < grow minInc rate cap1 cap2 cur := by
  rw [grow_closed _ _ _ _ _ h]
  have := increment_pos minInc rate cur h
  simp only [Nat.min_def]; grind

theorem grow_le (minInc : Nat) (rate : Dy) (cap1 : Option Nat) (cap2 cur : Nat) (h : 1 ≤ minInc) :
    grow minInc rate cap1 cap2 cur ≤ max cur (capEff cap1 cap2) := by
  rw [grow_closed _ _ _ _ _ h]
  simp only [Nat.min_def, Nat.max_def]; grind

theorem grow_ge_succ (minInc : Nat) (rate : Dy) (cap1 : Option Nat) (cap2 cur : Nat) (h : 1 ≤ minInc) :
    min (cur + 1) (capEff cap1 cap2) ≤ max cur (grow minInc rate cap1 cap2 cur) := by
  rw [grow_closed _ _ _ _ _ h]
  have := increment_pos minInc rate cur h
  simp only [Nat.min_def, Nat.max_def]; grind

theorem trajectory_shift (minInc : Nat) (rate : Dy) (cap1 : Option Nat) (cap2 c0 : Nat) :
    ∀ k, trajectory minInc rate cap1 cap2 (grow minInc rate cap1 cap2 c0) k
        = trajectory minInc rate cap1 cap2 c0 (k + 1)
  | 0 => rfl
  | k + 1 => by
    simp only [trajectory]
    rw [trajectory_shift minInc rate cap1 cap2 c0 k]
    simp only [trajectory]

theorem trajectory_lower (minInc : Nat) (rate : Dy) (cap1 : Option Nat) (cap2 c0 : Nat) (h : 1 ≤ minInc)
    (hc : c0 ≤ capEff cap1 cap2) :
    ∀ k, min (c0 + k) (capEff cap1 cap2) ≤ trajectory minInc rate cap1 cap2 c0 k
        ∧ trajectory minInc rate cap1 cap2 c0 k ≤ capEff cap1 cap2
  | 0 => by simp only [trajectory, Nat.min_def]; grind
  | k + 1 => by
    have ih := trajectory_lower minInc rate cap1 cap2 c0 h hc k
    have h1 := grow_ge_succ minInc rate cap1 cap2 (trajectory minInc rate cap1 cap2 c0 k) h
    have h2 := grow_le minInc rate cap1 cap2 (trajectory minInc rate cap1 cap2 c0 k) h
    have h3 := grow_mono minInc rate cap1 cap2 (trajectory minInc rate cap1 cap2 c0 k) h
    simp only [trajectory]
    simp only [Nat.min_def, Nat.max_def] at *
    grind

/-! ## non-interference of the per-grammar design -/

theorem rd_perGrammar (g : Nat) (s : Inst) : rd .perGrammar g s = s.cap := rfl
theorem wr_perGrammar (g : Nat) (s : Inst) (c : Nat) : wr .perGrammar g s c = (g, { s with cap := c }) := rfl

theorem stepInst_perGrammar_global (cfg : Cfg) (dflt : Nat) (dset : Settings) (g : Nat) (s : Inst)
    (a : Act) : (stepInst .perGrammar cfg dflt dset g s a).1 = g := by
  unfold stepInst
  simp only [rd_perGrammar, wr_perGrammar]
  split <;> rfl

theorem stepInst_perGrammar_indep (cfg : Cfg) (dflt : Nat) (dset : Settings) (g g' : Nat) (s : Inst)
    (a : Act) :
    (stepInst .perGrammar cfg dflt dset g s a).2 = (stepInst .perGrammar cfg dflt dset g' s a).2 := by
  unfold stepInst
  simp only [rd_perGrammar, wr_perGrammar]
  split <;> rfl

theorem step_other (cfg : Cfg) (dflt : Nat) (dset : Settings) (loc : CapLoc) (w : World) (op : Op)
    (b : Nat) (h : op.inst ≠ b) : (step loc cfg dflt dset w op).1.inst b = w.inst b := by
  simp only [step, setInst]
  split
  · rename_i hb; exact absurd hb.symm h
  · rfl

theorem step_same (cfg : Cfg) (dflt : Nat) (dset : Settings) (w w' : World) (op : Op)
    (ha : w.inst op.inst = w'.inst op.inst) :
    (step .perGrammar cfg dflt dset w op).2 = (step .perGrammar cfg dflt dset w' op).2 ∧
    (step .perGrammar cfg dflt dset w op).1.inst op.inst
      = (step .perGrammar cfg dflt dset w' op).1.inst op.inst := by
  have hi := stepInst_perGrammar_indep cfg dflt dset w.gcap w'.gcap (w.inst op.inst) op.act
  simp only [step, setInst, if_true]
  rw [← ha]
  exact ⟨congrArg (·.2) hi, congrArg (·.1) hi⟩

theorem obs_cons_same (b : Nat) (o : Out) (rest : List (Nat × Out)) :
    obs b ((b, o) :: rest) = o :: obs b rest := by
  simp [obs, List.filterMap_cons]

theorem obs_cons_other (b i : Nat) (o : Out) (rest : List (Nat × Out)) (h : i ≠ b) :
    obs b ((i, o) :: rest) = obs b rest := by
  simp [obs, List.filterMap_cons, h]

theorem run_isolation (cfg : Cfg) (dflt : Nat) (dset : Settings) (b : Nat) :
    ∀ (h : List Op) (w w' : World), w.inst b = w'.inst b →
      obs b (run .perGrammar cfg dflt dset w h).2
        = obs b (run .perGrammar cfg dflt dset w' (h.filter (fun op => op.inst = b))).2
  | [], _, _, _ => rfl
  | op :: ops, w, w', ha => by
    by_cases hb : op.inst = b
    · have hf : (op :: ops).filter (fun op => op.inst = b) = op :: ops.filter (fun op => op.inst = b) := by
        simp [List.filter_cons, hb]
      rw [hf]
      have hs := step_same cfg dflt dset w w' op (by rw [hb]; exact ha)
      have ih := run_isolation cfg dflt dset b ops (step .perGrammar cfg dflt dset w op).1
        (step .perGrammar cfg dflt dset w' op).1 (by rw [← hb]; exact hs.2)
      simp only [run]
      rw [← hs.1]
      cases (step .perGrammar cfg dflt dset w op).2 with
      | none => exact ih
      | some o => simp only [hb, obs_cons_same]; rw [ih]
    · have hf : (op :: ops).filter (fun op => op.inst = b) = ops.filter (fun op => op.inst = b) := by
        simp [List.filter_cons, hb]
      rw [hf]
      have ih := run_isolation cfg dflt dset b ops (step .perGrammar cfg dflt dset w op).1 w'
        (by rw [step_other cfg dflt dset .perGrammar w op b hb]; exact ha)
      simp only [run]
      cases (step .perGrammar cfg dflt dset w op).2 with
      | none => exact ih
      | some o => rw [obs_cons_other b op.inst o _ hb]; exact ih

/-! ## iteration tags -/

theorem firstIdx_map (f : Nat → Nat) (hf : ∀ x y, f x = f y → x = y) (x : Nat) :
    ∀ l : List Nat, firstIdx (f x) (l.map f) = firstIdx x l
  | [] => rfl
  | y :: ys => by
    simp only [List.map, firstIdx]
    by_cases h : y = x
    · simp [h]
    · have : f y ≠ f x := fun e => h (hf _ _ e)
      simp [h, this, firstIdx_map f hf x ys]

theorem tagPattern_map (f : Nat → Nat) (hf : ∀ x y, f x = f y → x = y) (l : List Nat) :
    tagPattern (l.map f) = tagPattern l := by
  simp only [tagPattern, List.map_map]
  apply List.map_congr_left
  intro x _
  exact firstIdx_map f hf x l

theorem tagsFrom_shift (c : Nat) : ∀ (n d : Nat), tagsFrom (d + c) n = (tagsFrom d n).map (· + c)
  | 0, _ => rfl
  | n + 1, d => by
    simp only [tagsFrom, List.map]
    have := tagsFrom_shift c n (d + 1)
    rw [show d + 1 + c = d + c + 1 by omega] at this
    rw [this]
    congr 1
    omega

end FV.Env
