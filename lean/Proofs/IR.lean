/-
Correctness of the derivative matcher and of the derivation checker of `Model/IR.lean`:
`matchIR R n ts = true ↔ Matches R n ts` and `validB G R t = true ↔ Valid G R t`.
-/
import Model.IR
namespace FV

/-! ### RepOf -/

theorem repOf_nil {P : List Tok → Prop} (h : P []) : ∀ k, RepOf P k []
  | 0 => rfl
  | k + 1 => ⟨[], [], rfl, h, repOf_nil h k⟩

theorem repOf_prepend_empty {P : List Tok → Prop} (h : P []) {k : Nat} {w : List Tok}
    (hr : RepOf P k w) : RepOf P (k + 1) w :=
  ⟨[], w, rfl, h, hr⟩

theorem repOf_pad {P : List Tok → Prop} (h : P []) {a : Nat} {w : List Tok} (hr : RepOf P a w) :
    ∀ d, RepOf P (a + d) w
  | 0 => hr
  | d + 1 => repOf_prepend_empty h (repOf_pad h hr d)

theorem repOf_cons_split {P : List Tok → Prop} {t : Tok} : ∀ (k : Nat) (w : List Tok),
    RepOf P k (t :: w) →
    ∃ w1 w2 k', w = w1 ++ w2 ∧ P (t :: w1) ∧ RepOf P k' w2 ∧ k' + 1 ≤ k ∧ (k' + 1 < k → P [])
  | 0, w, h => by simp [RepOf] at h
  | k + 1, w, h => by
    obtain ⟨u1, u2, he, hp, hr⟩ := h
    cases u1 with
    | nil =>
      simp only [List.nil_append] at he
      subst he
      obtain ⟨w1, w2, k', hw, hp1, hr2, hle, _⟩ := repOf_cons_split k w hr
      exact ⟨w1, w2, k', hw, hp1, hr2, by omega, fun _ => hp⟩
    | cons t' u1' =>
      simp only [List.cons_append, List.cons.injEq] at he
      obtain ⟨rfl, rfl⟩ := he
      exact ⟨u1', u2, k, rfl, hp, hr, by omega, fun h => by omega⟩

theorem repOf_congr {P Q : List Tok → Prop} (h : ∀ w, P w ↔ Q w) : ∀ k w, RepOf P k w ↔ RepOf Q k w
  | 0, w => Iff.rfl
  | k + 1, w => by
    simp only [RepOf]
    constructor
    · rintro ⟨w1, w2, he, hp, hr⟩; exact ⟨w1, w2, he, (h w1).1 hp, (repOf_congr h k w2).1 hr⟩
    · rintro ⟨w1, w2, he, hp, hr⟩; exact ⟨w1, w2, he, (h w1).2 hp, (repOf_congr h k w2).2 hr⟩

/-! ### basic facts -/

theorem matches_eps (R : RegexOracle) (w : List Tok) : Matches R Node.eps w ↔ w = [] := by
  simp [Node.eps, Matches, MatchesCat]

theorem matches_empty (R : RegexOracle) (w : List Tok) : ¬ Matches R Node.empty w := by
  simp [Node.empty, Matches, MatchesAny]

theorem inBounds_of_boundsOk {min : Nat} {max : Option Nat} (h : boundsOk min max = true) :
    inBounds min max min := by
  refine ⟨Nat.le_refl _, ?_⟩
  intro mx hmx
  subst hmx
  simpa [boundsOk] using h

theorem boundsOk_of_inBounds {min k : Nat} {max : Option Nat} (h : inBounds min max k) :
    boundsOk min max = true := by
  cases max with
  | none => rfl
  | some mx =>
    have h1 := h.1
    have := h.2 mx rfl
    simp [boundsOk]; omega

/-! ### nullable -/

mutual
theorem nullable_iff (R : RegexOracle) : ∀ n : Node, nullable n = true ↔ Matches R n []
  | .term t => by simp [nullable, Matches]
  | .nt _ _ _ => by simp [nullable, Matches]
  | .alt _ ns => by simp only [nullable, Matches]; exact nullableAny_iff R ns
  | .cat _ ns => by simp only [nullable, Matches]; exact nullableAll_iff R ns
  | .rep _ _ n min max => by
    have ih := nullable_iff R n
    simp only [nullable, Matches, Bool.and_eq_true, Bool.or_eq_true, beq_iff_eq]
    constructor
    · rintro ⟨hb, h⟩
      rcases h with h0 | hn
      · subst h0
        exact ⟨0, ⟨Nat.le_refl _, fun mx _ => Nat.zero_le _⟩, rfl⟩
      · exact ⟨min, inBounds_of_boundsOk hb, repOf_nil (ih.1 hn) min⟩
    · rintro ⟨k, hk, hr⟩
      refine ⟨boundsOk_of_inBounds hk, ?_⟩
      by_cases h0 : min = 0
      · exact Or.inl h0
      · right
        have hk1 : 1 ≤ k := by have := hk.1; omega
        obtain ⟨k', rfl⟩ : ∃ k', k = k' + 1 := ⟨k - 1, by omega⟩
        obtain ⟨w1, w2, he, hp, _⟩ := hr
        have : w1 = [] := by
          cases w1 with
          | nil => rfl
          | cons a b => simp at he
        subst this
        exact ih.2 hp
theorem nullableAny_iff (R : RegexOracle) : ∀ ns : List Node,
    nullableAny ns = true ↔ MatchesAny R ns []
  | [] => by simp [nullableAny, MatchesAny]
  | n :: ns => by
    simp only [nullableAny, MatchesAny, Bool.or_eq_true, nullable_iff R n, nullableAny_iff R ns]
theorem nullableAll_iff (R : RegexOracle) : ∀ ns : List Node,
    nullableAll ns = true ↔ MatchesCat R ns []
  | [] => by simp [nullableAll, MatchesCat]
  | n :: ns => by
    simp only [nullableAll, MatchesCat, Bool.and_eq_true, nullable_iff R n, nullableAll_iff R ns]
    constructor
    · rintro ⟨h1, h2⟩; exact ⟨[], [], rfl, h1, h2⟩
    · rintro ⟨w1, w2, he, h1, h2⟩
      have h1' : w1 = [] := by
        cases w1 with
        | nil => rfl
        | cons a b => simp at he
      have h2' : w2 = [] := by
        subst h1'; simpa using he.symm
      subst h1' h2'
      exact ⟨h1, h2⟩
end

/-! ### derivative -/

theorem predMax_bounds {min k : Nat} {max : Option Nat} (hmax : max ≠ some 0)
    (h : inBounds (min - 1) (predMax max) k) : inBounds min max (k + 1) := by
  refine ⟨by have := h.1; omega, ?_⟩
  intro mx hmx
  subst hmx
  have := h.2 (mx - 1) rfl
  have : mx ≠ 0 := fun h0 => hmax (by rw [h0])
  omega

theorem bounds_predMax {min k : Nat} {max : Option Nat} (h : inBounds min max (k + 1)) :
    inBounds (min - 1) (predMax max) k := by
  refine ⟨by have := h.1; omega, ?_⟩
  intro mx hmx
  cases max with
  | none => simp [predMax] at hmx
  | some m =>
    simp only [predMax, Option.some.injEq] at hmx
    have := h.2 m rfl
    omega

mutual
theorem deriv_iff (R : RegexOracle) (t : Tok) : ∀ (n : Node) (w : List Tok),
    Matches R (deriv R n t) w ↔ Matches R n (t :: w)
  | .term tm, w => by
    simp only [deriv, Matches]
    by_cases h : termOk R tm t = true
    · simp only [h, if_true, matches_eps]
      constructor
      · rintro rfl; exact ⟨t, rfl, h⟩
      · rintro ⟨tok, he, _⟩; simpa using (List.cons.inj he).2
    · simp only [h]
      constructor
      · intro hm; exact absurd hm (matches_empty R w)
      · rintro ⟨tok, he, hk⟩
        have := (List.cons.inj he).1
        subst this
        exact absurd hk h
  | .nt name _ _, w => by
    simp only [deriv, Matches]
    cases t with
    | leaf l =>
      simp only []
      constructor
      · intro hm; exact absurd hm (matches_empty R w)
      · intro he; simp at he
    | ntk n =>
      simp only []
      by_cases h : n = name
      · subst h; simp [matches_eps]
      · simp only [h]
        constructor
        · intro hm; exact absurd hm (matches_empty R w)
        · intro he; simp at he; exact absurd he.1 h
  | .alt _ ns, w => by
    simp only [deriv, Matches]; exact derivAlt_iff R t ns w
  | .cat _ ns, w => by
    simp only [deriv, Matches]; exact derivCat_iff R t ns w
  | .rep id kind n min max, w => by
    have ih := deriv_iff R t n
    simp only [deriv]
    by_cases hb : (boundsOk min max && (max != some 0)) = true
    · simp only [hb, if_true]
      simp only [Bool.and_eq_true, bne_iff_ne, ne_eq] at hb
      obtain ⟨hbo, hmax⟩ := hb
      simp only [Matches, MatchesCat]
      constructor
      · rintro ⟨w1, w2, rfl, h1, w3, w4, he, ⟨k, hk, hr⟩, hnil⟩
        subst hnil
        simp only [List.append_nil] at he
        subst he
        exact ⟨k + 1, predMax_bounds hmax hk, t :: w1, w2, rfl, (ih w1).1 h1, hr⟩
      · rintro ⟨k, hk, hr⟩
        obtain ⟨w1, w2, k', rfl, hp, hr2, hle, hnull⟩ := repOf_cons_split k w hr
        have hk1 : 1 ≤ k := by omega
        obtain ⟨j, rfl⟩ : ∃ j, k = j + 1 := ⟨k - 1, by omega⟩
        have hbj := bounds_predMax hk
        have hr3 : RepOf (fun v => Matches R n v) j w2 := by
          by_cases hlt : k' + 1 < j + 1
          · have := repOf_pad (hnull hlt) hr2 (j - k')
            have hj : k' + (j - k') = j := by omega
            rwa [hj] at this
          · have : k' = j := by omega
            subst this; exact hr2
        exact ⟨w1, w2, rfl, (ih w1).2 hp, w2, [], by simp, ⟨j, hbj, hr3⟩, rfl⟩
    · simp only [hb]
      constructor
      · intro hm; exact absurd hm (matches_empty R w)
      · rintro ⟨k, hk, hr⟩
        exfalso
        apply hb
        simp only [Bool.and_eq_true, bne_iff_ne, ne_eq]
        refine ⟨boundsOk_of_inBounds hk, ?_⟩
        intro h0
        subst h0
        have hk0 := hk.2 0 rfl
        have : k = 0 := by omega
        subst this
        simp [RepOf] at hr
theorem derivAlt_iff (R : RegexOracle) (t : Tok) : ∀ (ns : List Node) (w : List Tok),
    MatchesAny R (derivAlt R ns t) w ↔ MatchesAny R ns (t :: w)
  | [], w => by simp [derivAlt, MatchesAny]
  | n :: ns, w => by
    simp only [derivAlt, MatchesAny, deriv_iff R t n w, derivAlt_iff R t ns w]
theorem derivCat_iff (R : RegexOracle) (t : Tok) : ∀ (ns : List Node) (w : List Tok),
    Matches R (derivCat R ns t) w ↔ MatchesCat R ns (t :: w)
  | [], w => by
    simp only [derivCat, MatchesCat]
    constructor
    · intro hm; exact absurd hm (matches_empty R w)
    · intro he; simp at he
  | n :: ns, w => by
    have ihn := deriv_iff R t n
    have ihc := derivCat_iff R t ns w
    have hnull := nullable_iff R n
    simp only [derivCat]
    by_cases hn : nullable n = true
    · simp only [hn, if_true, Matches, MatchesAny, MatchesCat, or_false]
      constructor
      · rintro (⟨w1, w2, rfl, h1, h2⟩ | h)
        · exact ⟨t :: w1, w2, rfl, (ihn w1).1 h1, h2⟩
        · exact ⟨[], t :: w, rfl, hnull.1 hn, ihc.1 h⟩
      · rintro ⟨u1, u2, he, h1, h2⟩
        cases u1 with
        | nil =>
          simp only [List.nil_append] at he
          subst he
          exact Or.inr (ihc.2 h2)
        | cons a u1' =>
          simp only [List.cons_append, List.cons.injEq] at he
          obtain ⟨rfl, rfl⟩ := he
          exact Or.inl ⟨u1', u2, rfl, (ihn u1').2 h1, h2⟩
    · simp only [hn, MatchesCat]
      constructor
      · rintro ⟨w1, w2, rfl, h1, h2⟩
        exact ⟨t :: w1, w2, rfl, (ihn w1).1 h1, h2⟩
      · rintro ⟨u1, u2, he, h1, h2⟩
        cases u1 with
        | nil => exact absurd (hnull.2 h1) hn
        | cons a u1' =>
          simp only [List.cons_append, List.cons.injEq] at he
          obtain ⟨rfl, rfl⟩ := he
          exact ⟨u1', u2, rfl, (ihn u1').2 h1, h2⟩
end

/-- **the matcher decides the specification** -/
theorem matchIR_iff (R : RegexOracle) : ∀ (ts : List Tok) (n : Node),
    matchIR R n ts = true ↔ Matches R n ts
  | [], n => by simp [matchIR, nullable_iff R n]
  | t :: ts, n => by
    have := matchIR_iff R ts (deriv R n t)
    simp only [matchIR, List.foldl] at this ⊢
    rw [this, deriv_iff]

/-! ### the derivation checker -/

mutual
theorem validB_iff (G : Grammar) (R : RegexOracle) : ∀ t : Tree, validB G R t = true ↔ Valid G R t
  | .mk (.term _) _ _ kids => by
    cases kids <;> simp [validB, Valid]
  | .mk (.nt s) _ _ kids => by
    simp only [validB, Valid, Bool.and_eq_true, validLB_iff G R kids]
    apply and_congr_left
    intro _
    cases hr : G.rule s with
    | none => simp
    | some body =>
      cases ht : toksOf kids with
      | none => simp
      | some toks => simp [matchIR_iff]
  | .mk .slice _ _ _ => by simp [validB, Valid]
theorem validLB_iff (G : Grammar) (R : RegexOracle) : ∀ ts : List Tree,
    validLB G R ts = true ↔ ValidL G R ts
  | [] => by simp [validLB, ValidL]
  | t :: ts => by
    simp only [validLB, ValidL, Bool.and_eq_true, validB_iff G R t, validLB_iff G R ts]
end

end FV
