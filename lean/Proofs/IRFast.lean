/-
Correctness of the normalising derivative matcher of `Model/IRFast.lean`:
`matchFast R n ts = true ↔ Matches R n ts` and `validFast G R t = true ↔ Valid G R t`.
-/
import Model.IRFast
import Proofs.IR
namespace FV

/-! ### syntactic equality is sound -/

mutual
theorem Node.beq_sound : ∀ (a b : Node), Node.beq a b = true → a = b
  | .term t, .term t', h => by simp only [Node.beq, decide_eq_true_eq] at h; rw [h]
  | .nt a s r, .nt a' s' r', h => by
    simp only [Node.beq, Bool.and_eq_true, decide_eq_true_eq] at h
    obtain ⟨⟨h1, h2⟩, h3⟩ := h
    rw [h1, h2, h3]
  | .alt i ns, .alt i' ns', h => by
    simp only [Node.beq, Bool.and_eq_true, decide_eq_true_eq] at h
    rw [h.1, Node.beqL_sound ns ns' h.2]
  | .cat i ns, .cat i' ns', h => by
    simp only [Node.beq, Bool.and_eq_true, decide_eq_true_eq] at h
    rw [h.1, Node.beqL_sound ns ns' h.2]
  | .rep i k n mn mx, .rep i' k' n' mn' mx', h => by
    simp only [Node.beq, Bool.and_eq_true, decide_eq_true_eq] at h
    obtain ⟨⟨⟨⟨h1, h2⟩, h3⟩, h4⟩, h5⟩ := h
    rw [h1, h2, Node.beq_sound n n' h3, h4, h5]
  | .term _, .nt _ _ _, h | .term _, .alt _ _, h | .term _, .cat _ _, h | .term _, .rep _ _ _ _ _, h
  | .nt _ _ _, .term _, h | .nt _ _ _, .alt _ _, h | .nt _ _ _, .cat _ _, h | .nt _ _ _, .rep _ _ _ _ _, h
  | .alt _ _, .term _, h | .alt _ _, .nt _ _ _, h | .alt _ _, .cat _ _, h | .alt _ _, .rep _ _ _ _ _, h
  | .cat _ _, .term _, h | .cat _ _, .nt _ _ _, h | .cat _ _, .alt _ _, h | .cat _ _, .rep _ _ _ _ _, h
  | .rep _ _ _ _ _, .term _, h | .rep _ _ _ _ _, .nt _ _ _, h | .rep _ _ _ _ _, .alt _ _, h
  | .rep _ _ _ _ _, .cat _ _, h => by simp [Node.beq] at h
theorem Node.beqL_sound : ∀ (as bs : List Node), Node.beqL as bs = true → as = bs
  | [], [], _ => rfl
  | a :: as, b :: bs, h => by
    simp only [Node.beqL, Bool.and_eq_true] at h
    rw [Node.beq_sound a b h.1, Node.beqL_sound as bs h.2]
  | [], _ :: _, h | _ :: _, [], h => by simp [Node.beqL] at h
end

/-! ### alternatives as membership -/

theorem matchesAny_iff (R : RegexOracle) : ∀ (ns : List Node) (w : List Tok),
    MatchesAny R ns w ↔ ∃ n ∈ ns, Matches R n w
  | [], w => by simp [MatchesAny]
  | n :: ns, w => by
    simp only [MatchesAny, matchesAny_iff R ns w, List.mem_cons]
    constructor
    · rintro (h | ⟨m, hm, h⟩)
      · exact ⟨n, Or.inl rfl, h⟩
      · exact ⟨m, Or.inr hm, h⟩
    · rintro ⟨m, rfl | hm, h⟩
      · exact Or.inl h
      · exact Or.inr ⟨m, hm, h⟩

theorem dedup_mem : ∀ (ns : List Node) (n : Node), n ∈ dedupNodes ns ↔ n ∈ ns
  | [], n => by simp [dedupNodes]
  | m :: ns, n => by
    simp only [dedupNodes]
    split
    · rename_i hany
      rw [dedup_mem ns n, List.mem_cons]
      constructor
      · exact Or.inr
      · rintro (rfl | h)
        · obtain ⟨x, hx, hb⟩ := List.any_eq_true.1 hany
          rw [Node.beq_sound _ _ hb]
          exact (dedup_mem ns x).1 hx
        · exact h
    · simp only [List.mem_cons, dedup_mem ns n]

theorem altParts_iff (R : RegexOracle) (n : Node) (w : List Tok) :
    (∃ m ∈ altParts n, Matches R m w) ↔ Matches R n w := by
  cases n with
  | alt id ms => simp only [altParts, Matches, matchesAny_iff]
  | term t => simp [altParts]
  | nt a s r => simp [altParts]
  | cat id ms => simp [altParts]
  | rep id k n mn mx => simp [altParts]

theorem mkAlt_iff (R : RegexOracle) (ns : List Node) (w : List Tok) :
    Matches R (mkAlt ns) w ↔ MatchesAny R ns w := by
  have key : (∃ m ∈ dedupNodes (ns.flatMap altParts), Matches R m w) ↔ MatchesAny R ns w := by
    rw [matchesAny_iff]
    constructor
    · rintro ⟨m, hm, h⟩
      rw [dedup_mem, List.mem_flatMap] at hm
      obtain ⟨n, hn, hmn⟩ := hm
      exact ⟨n, hn, (altParts_iff R n w).1 ⟨m, hmn, h⟩⟩
    · rintro ⟨n, hn, h⟩
      obtain ⟨m, hm, hmw⟩ := (altParts_iff R n w).2 h
      exact ⟨m, (dedup_mem _ _).2 (List.mem_flatMap.2 ⟨n, hn, hm⟩), hmw⟩
  unfold mkAlt
  split
  · rename_i n hn
    rw [← key, hn]
    simp
  · rw [← key]
    simp only [Matches, matchesAny_iff]

/-! ### concatenations -/

theorem matchesCat_append (R : RegexOracle) : ∀ (a b : List Node) (w : List Tok),
    MatchesCat R (a ++ b) w ↔ ∃ w1 w2, w = w1 ++ w2 ∧ MatchesCat R a w1 ∧ MatchesCat R b w2
  | [], b, w => by
    simp only [List.nil_append, MatchesCat]
    constructor
    · intro h; exact ⟨[], w, rfl, rfl, h⟩
    · rintro ⟨w1, w2, rfl, rfl, h⟩; exact h
  | n :: a, b, w => by
    simp only [List.cons_append, MatchesCat]
    constructor
    · rintro ⟨u1, u2, rfl, hn, hr⟩
      obtain ⟨v1, v2, rfl, ha, hb⟩ := (matchesCat_append R a b u2).1 hr
      exact ⟨u1 ++ v1, v2, by simp, ⟨u1, v1, rfl, hn, ha⟩, hb⟩
    · rintro ⟨w1, w2, rfl, ⟨u1, v1, rfl, hn, ha⟩, hb⟩
      exact ⟨u1, v1 ++ w2, by simp, hn, (matchesCat_append R a b _).2 ⟨v1, w2, rfl, ha, hb⟩⟩

theorem catParts_iff (R : RegexOracle) (n : Node) (w : List Tok) :
    MatchesCat R (catParts n) w ↔ Matches R n w := by
  cases n with
  | cat id ms => simp only [catParts, Matches]
  | term t => simp [catParts, MatchesCat]
  | nt a s r => simp [catParts, MatchesCat]
  | alt id ms => simp [catParts, MatchesCat]
  | rep id k n mn mx => simp [catParts, MatchesCat]

theorem flatCat_iff (R : RegexOracle) : ∀ (ns : List Node) (w : List Tok),
    MatchesCat R (ns.flatMap catParts) w ↔ MatchesCat R ns w
  | [], w => by simp [MatchesCat]
  | n :: ns, w => by
    simp only [List.flatMap_cons, matchesCat_append, MatchesCat, catParts_iff, flatCat_iff R ns]

theorem isEmptyNode_no_match (R : RegexOracle) {n : Node} (h : isEmptyNode n = true) (w : List Tok) :
    ¬ Matches R n w := by
  cases n with
  | alt id ms =>
    cases ms with
    | nil => simp [Matches, MatchesAny]
    | cons a b => simp [isEmptyNode] at h
  | term t => simp [isEmptyNode] at h
  | nt a s r => simp [isEmptyNode] at h
  | cat id ms => simp [isEmptyNode] at h
  | rep id k n mn mx => simp [isEmptyNode] at h

theorem matchesCat_no_empty (R : RegexOracle) : ∀ (ns : List Node) (w : List Tok),
    ns.any isEmptyNode = true → ¬ MatchesCat R ns w
  | [], w, h => by simp at h
  | n :: ns, w, h => by
    simp only [List.any_cons, Bool.or_eq_true] at h
    rintro ⟨w1, w2, _, hn, hr⟩
    rcases h with h | h
    · exact isEmptyNode_no_match R h w1 hn
    · exact matchesCat_no_empty R ns w2 h hr

theorem mkCat_iff (R : RegexOracle) (ns : List Node) (w : List Tok) :
    Matches R (mkCat ns) w ↔ MatchesCat R ns w := by
  rw [← flatCat_iff R ns w]
  unfold mkCat
  simp only
  split
  · rename_i hany
    constructor
    · intro h; exact absurd h (matches_empty R w)
    · intro h; exact absurd h (matchesCat_no_empty R _ w hany)
  · split
    · rename_i n hn
      rw [hn]
      simp only [MatchesCat]
      constructor
      · intro h; exact ⟨w, [], by simp, h, rfl⟩
      · rintro ⟨w1, w2, rfl, h, rfl⟩; simpa using h
    · simp only [Matches]

/-! ### the normalised derivative matches what the raw derivative matches -/

mutual
theorem derivN_iff (R : RegexOracle) (t : Tok) : ∀ (n : Node) (w : List Tok),
    Matches R (derivN R n t) w ↔ Matches R (deriv R n t) w
  | .term tm, w => by simp only [derivN, deriv]
  | .nt name _ _, w => by simp only [derivN, deriv]; exact Iff.rfl
  | .alt _ ns, w => by
    simp only [derivN, deriv, mkAlt_iff, Matches]
    exact derivNAlt_iff R t ns w
  | .cat _ ns, w => by
    simp only [derivN, deriv]
    exact derivNCat_iff R t ns w
  | .rep id kind n min max, w => by
    simp only [derivN, deriv]
    split
    · simp only [mkCat_iff, Matches, MatchesCat]
      constructor
      · rintro ⟨w1, w2, he, h1, h2⟩; exact ⟨w1, w2, he, (derivN_iff R t n w1).1 h1, h2⟩
      · rintro ⟨w1, w2, he, h1, h2⟩; exact ⟨w1, w2, he, (derivN_iff R t n w1).2 h1, h2⟩
    · exact Iff.rfl
theorem derivNAlt_iff (R : RegexOracle) (t : Tok) : ∀ (ns : List Node) (w : List Tok),
    MatchesAny R (derivNAlt R ns t) w ↔ MatchesAny R (derivAlt R ns t) w
  | [], w => by simp [derivNAlt, derivAlt]
  | n :: ns, w => by
    simp only [derivNAlt, derivAlt, MatchesAny, derivN_iff R t n w, derivNAlt_iff R t ns w]
theorem derivNCat_iff (R : RegexOracle) (t : Tok) : ∀ (ns : List Node) (w : List Tok),
    Matches R (derivNCat R ns t) w ↔ Matches R (derivCat R ns t) w
  | [], w => by simp only [derivNCat, derivCat]
  | n :: ns, w => by
    have hhead : ∀ v, MatchesCat R (derivN R n t :: ns) v ↔ MatchesCat R (deriv R n t :: ns) v := by
      intro v
      simp only [MatchesCat]
      constructor
      · rintro ⟨w1, w2, he, h1, h2⟩; exact ⟨w1, w2, he, (derivN_iff R t n w1).1 h1, h2⟩
      · rintro ⟨w1, w2, he, h1, h2⟩; exact ⟨w1, w2, he, (derivN_iff R t n w1).2 h1, h2⟩
    simp only [derivNCat, derivCat]
    split
    · simp only [mkAlt_iff, MatchesAny, mkCat_iff, Matches, or_false, hhead w, derivNCat_iff R t ns w]
    · simp only [mkCat_iff, Matches, hhead w]
end

theorem derivN_step (R : RegexOracle) (t : Tok) (n : Node) (w : List Tok) :
    Matches R (derivN R n t) w ↔ Matches R n (t :: w) := by
  rw [derivN_iff, deriv_iff]

/-- **the normalising matcher decides the specification** -/
theorem matchFast_iff (R : RegexOracle) : ∀ (ts : List Tok) (n : Node),
    matchFast R n ts = true ↔ Matches R n ts
  | [], n => by simp [matchFast, nullable_iff R n]
  | t :: ts, n => by
    have := matchFast_iff R ts (derivN R n t)
    simp only [matchFast, List.foldl] at this ⊢
    rw [this, derivN_step]

theorem matchFast_eq_matchIR (R : RegexOracle) (n : Node) (ts : List Tok) :
    matchFast R n ts = matchIR R n ts := by
  have h1 := matchFast_iff R ts n
  have h2 := matchIR_iff R ts n
  cases ha : matchFast R n ts <;> cases hb : matchIR R n ts <;> simp_all

mutual
theorem validFast_iff (G : Grammar) (R : RegexOracle) : ∀ t : Tree, validFast G R t = true ↔ Valid G R t
  | .mk (.term _) _ _ kids => by
    cases kids <;> simp [validFast, Valid]
  | .mk (.nt s) _ _ kids => by
    simp only [validFast, Valid, Bool.and_eq_true, validFastL_iff G R kids]
    apply and_congr_left
    intro _
    cases hr : G.rule s with
    | none => simp
    | some body =>
      cases ht : toksOf kids with
      | none => simp
      | some toks => simp [matchFast_iff]
  | .mk .slice _ _ _ => by simp [validFast, Valid]
theorem validFastL_iff (G : Grammar) (R : RegexOracle) : ∀ ts : List Tree,
    validFastL G R ts = true ↔ ValidL G R ts
  | [] => by simp [validFastL, ValidL]
  | t :: ts => by
    simp only [validFastL, ValidL, Bool.and_eq_true, validFast_iff G R t, validFastL_iff G R ts]
end

end FV
