/-
C13 / the engine of the real closure (`Model/IncrEarley.lean`): basic facts and the case analysis of one step
of the column pass.
-/
import Proofs.Earley
import Proofs.EarleyGrow
import Proofs.Incremental
import Model.IncrEarley
namespace FV
namespace IncrE
open Earley Incr

/-! ### equality of parser trees -/

mutual
theorem PT.beq_eq : ∀ (a b : PT), PT.beq a b = true → a = b
  | .leaf a, .leaf b, h => by
    simp only [PT.beq, decide_eq_true_eq] at h
    rw [h]
  | .node x s r ks, .node y s' r' ks', h => by
    simp only [PT.beq, Bool.and_eq_true, decide_eq_true_eq] at h
    obtain ⟨⟨⟨h1, h2⟩, h3⟩, h4⟩ := h
    rw [h1, h2, h3, PT.beqL_eq ks ks' h4]
  | .leaf _, .node .., h => by simp [PT.beq] at h
  | .node .., .leaf _, h => by simp [PT.beq] at h
theorem PT.beqL_eq : ∀ (a b : List PT), PT.beqL a b = true → a = b
  | [], [], _ => rfl
  | a :: as, b :: bs, h => by
    simp only [PT.beqL, Bool.and_eq_true] at h
    rw [PT.beq_eq a b h.1, PT.beqL_eq as bs h.2]
  | [], _ :: _, h => by simp [PT.beqL] at h
  | _ :: _, [], h => by simp [PT.beqL] at h
end

mutual
theorem PT.beq_refl : ∀ (a : PT), PT.beq a a = true
  | .leaf a => by simp [PT.beq]
  | .node x s r ks => by simp [PT.beq, PT.beqL_refl ks]
theorem PT.beqL_refl : ∀ (a : List PT), PT.beqL a a = true
  | [] => rfl
  | a :: as => by simp [PT.beqL, PT.beq_refl a, PT.beqL_refl as]
end

theorem PT.beqL_iff (a b : List PT) : PT.beqL a b = true ↔ a = b :=
  ⟨PT.beqL_eq a b, fun h => h ▸ PT.beqL_refl a⟩

theorem KI.beq_iff (a b : KI) : KI.beq a b = true ↔ a = b := by
  cases a; cases b
  simp only [KI.beq, Bool.and_eq_true, decide_eq_true_eq, PT.beqL_iff, KI.mk.injEq]

theorem entryBeq_iff (a b : Entry KI) : entryBeq a b = true ↔ a = b := by
  cases a; cases b
  simp only [entryBeq, Bool.and_eq_true, KI.beq_iff, beq_iff_eq, Entry.mk.injEq]
  constructor
  · rintro ⟨⟨⟨h1, h2⟩, h3⟩, h4⟩; exact ⟨h1, h2, h3, h4⟩
  · rintro ⟨h1, h2, h3, h4⟩; exact ⟨⟨⟨h1, h2⟩, h3⟩, h4⟩

/-- `Column.add`'s duplicate test of the code as it is: same core item, same children -/
theorem dup_iff (a b : St) : St.dup .acyclic a b = true ↔ KI.ofSt a = KI.ofSt b := by
  simp only [St.dup, Bool.and_eq_true, decide_eq_true_eq, PT.beqL_iff, KI.ofSt, KI.mk.injEq]

theorem ofSt_toSt (i : KI) (c : Option (Nat × List NT)) : KI.ofSt (i.toSt c) = i := rfl

/-! ### membership by key -/

/-- the column holds a state with this core item and these children -/
def Has (col : Earley.Col) (i : KI) : Prop := ∃ s ∈ col.states, KI.ofSt s = i

theorem any_dup_iff (states : List St) (s : St) :
    states.any (fun x => St.dup .acyclic x s) = true ↔ ∃ x ∈ states, KI.ofSt x = KI.ofSt s := by
  simp only [List.any_eq_true, dup_iff]

/-- a column whose `dot_map` is what `Column.add` makes of its states -/
def ColWf (col : Earley.Col) : Prop := col.dots = col.states.filter (fun s => s.item.sym?.isSome)

theorem colWf_empty : ColWf {} := rfl

theorem colWf_toCol (c : Incr.Col KI) : ColWf (toCol c) := rfl

theorem Col.add_states (col : Earley.Col) (s : St) :
    ((∃ x ∈ col.states, KI.ofSt x = KI.ofSt s) ∧ Col.add .acyclic col s = col) ∨
    ((¬ ∃ x ∈ col.states, KI.ofSt x = KI.ofSt s) ∧ (Col.add .acyclic col s).states = col.states ++ [s]) := by
  unfold Col.add
  by_cases h : (∃ x ∈ col.states, KI.ofSt x = KI.ofSt s)
  · rw [if_pos ((any_dup_iff _ _).mpr h)]
    exact Or.inl ⟨h, rfl⟩
  · rw [if_neg (fun hh => h ((any_dup_iff _ _).mp hh))]
    exact Or.inr ⟨h, rfl⟩

theorem colWf_add {col : Earley.Col} (h : ColWf col) (s : St) : ColWf (Col.add .acyclic col s) := by
  unfold Col.add
  split
  · exact h
  · unfold ColWf at h ⊢
    simp only [List.filter_append, h]
    split <;> rename_i hs
    · simp [hs]
    · simp [hs]

theorem has_add_self (col : Earley.Col) (s : St) : Has (Col.add .acyclic col s) (KI.ofSt s) := by
  unfold Has
  rcases Col.add_states col s with ⟨h, he⟩ | ⟨_, he⟩
  · rw [he]; exact h
  · rw [he]; exact ⟨s, by simp, rfl⟩

/-- the states of a column are a prefix of its states after an admission -/
theorem add_prefix (col : Earley.Col) (s : St) : ∃ l, (Col.add .acyclic col s).states = col.states ++ l := by
  rcases Col.add_states col s with ⟨_, he⟩ | ⟨_, he⟩
  · exact ⟨[], by rw [he]; simp⟩
  · exact ⟨[s], he⟩

theorem has_mono {col col' : Earley.Col} {i : KI} (h : ∃ l, col'.states = col.states ++ l) (hh : Has col i) :
    Has col' i := by
  obtain ⟨l, hl⟩ := h
  obtain ⟨s, hs, hk⟩ := hh
  exact ⟨s, by rw [hl]; exact List.mem_append_left _ hs, hk⟩

theorem mem_add_states {col : Earley.Col} {s x : St} (h : x ∈ (Col.add .acyclic col s).states) :
    x ∈ col.states ∨ x = s := Col.add_states_mem h

/-- `find_dot` in terms of the states -/
theorem findDot_eq {col : Earley.Col} (h : ColWf col) (x : NT) :
    col.findDot x = col.states.filter (fun s => s.item.dotNT? == some x) := by
  unfold Col.findDot
  rw [h, List.filter_filter]
  apply List.filter_congr
  intro s _
  by_cases hd : s.item.dotNT? = some x
  · have : s.item.sym?.isSome = true := by
      unfold Item.dotNT? at hd
      split at hd
      · rename_i heq; simp [heq]
      · cases hd
    simp [hd, this]
  · simp [hd]

theorem mem_findDot_iff {col : Earley.Col} (h : ColWf col) (x : NT) (s : St) :
    s ∈ col.findDot x ↔ s ∈ col.states ∧ s.item.dotNT? = some x := by
  rw [findDot_eq h, List.mem_filter, beq_iff_eq]

/-! ### the table of a pass: the earlier columns and the current one -/

theorem colAt_snoc_lt (D : List Earley.Col) (cur : Earley.Col) (j : Nat) (h : j < D.length) :
    colAt (D ++ [cur]) j = colAt D j := by
  unfold colAt
  simp only [List.getD_eq_getElem?_getD]
  rw [List.getElem?_append_left h]

theorem colAt_snoc_eq (D : List Earley.Col) (cur : Earley.Col) : colAt (D ++ [cur]) D.length = cur := by
  unfold colAt
  simp [List.getD_eq_getElem?_getD]

theorem addAt_snoc (D : List Earley.Col) (cur : Earley.Col) (s : St) :
    addAt .acyclic (D ++ [cur]) D.length s = D ++ [Col.add .acyclic cur s] := by
  unfold addAt
  rw [colAt_snoc_eq]
  simp

/-! ### the configuration of a pass -/

theorem cfgAt_policy (pred : Nat → NT → List (List ESym)) (pd : Bool) (k : Nat) :
    (cfgAt pred pd k).policy = .acyclic := rfl

theorem cfgAt_predDone (pred : Nat → NT → List (List ESym)) (pd : Bool) (k : Nat) :
    (cfgAt pred pd k).predDone = pd := by
  simp [cfgAt, Variant.now]

/-- `advance` of the code as it is: never refuses -/
def advSt (k : Nat) (t s : St) : St :=
  let params : Option String × Option String :=
    match s.item.sym? with
    | some (.n _ a r) => (a, r)
    | _ => (none, none)
  let kids :=
    if t.item.lhs.explicit then s.kids ++ [PT.node t.item.lhs params.1 params.2 t.kids]
    else s.kids ++ t.kids
  let cover : Option (Nat × List NT) :=
    if s.item.origin = t.item.origin then
      let c0 := (coverAt t k).getD []
      let c1 := if t.item.origin = k then (coverAt s k).getD [] else []
      some (k, t.item.lhs :: (c0 ++ c1))
    else s.cover
  { item := s.item.next, kids := kids, cover := cover }

theorem advance_acyclic (k : Nat) (t s : St) : advance .acyclic k t s = some (advSt k t s) := rfl

/-- the key of a completed state: the parent's item moved over the dot, the parent's children followed by the
    completed subtree (or, for an implicit nonterminal, its children) -/
def advKey (t s : KI) : KI :=
  let params : Option String × Option String :=
    match s.item.sym? with
    | some (.n _ a r) => (a, r)
    | _ => (none, none)
  ⟨s.item.next,
    if t.item.lhs.explicit then s.kids ++ [PT.node t.item.lhs params.1 params.2 t.kids]
    else s.kids ++ t.kids⟩

theorem ofSt_advSt (k : Nat) (t s : St) : KI.ofSt (advSt k t s) = advKey (KI.ofSt t) (KI.ofSt s) := rfl

end IncrE
end FV
