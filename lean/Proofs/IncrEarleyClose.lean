/-
C13 / the engine of the real closure: a column pass that comes to its end without the covering cut firing
computes exactly the set `Der` (`closure_spec`).
-/
import Proofs.IncrEarleyInv
namespace FV
namespace IncrE
open Earley Incr

section close
variable (pred : Nat → NT → List (List ESym)) (d : List (Incr.Col KI)) (f : Entry KI → List (Entry KI))
  (seed : Incr.Col KI)

/-! ### the table only grows (any pass, with or without `predict`) -/

theorem cstep_grow {pd : Bool} {x x' : CM} (hsh : Shape d x) (h : CStep pred pd f x x') :
    Shape d x' ∧ (∃ l, x'.cur.states = x.cur.states ++ l) ∧ (∃ li, x'.incs = x.incs ++ li) ∧
      (x.cut = true → x'.cut = true) := by
  have key : ∀ (l : List St), x'.m.k = x.m.k → x'.m.cols = d.map toCol ++ [colAdds x.cur l] →
      (∃ li, x'.incs = x.incs ++ li) →
      (x'.m.idx = x.m.idx ∨ (x'.m.idx = x.m.idx + 1 ∧ x.m.idx < x.cur.states.length)) →
      (x'.iidx = x.iidx ∨ (x'.iidx = x.iidx + 1 ∧ x.iidx < x.incs.length)) →
      Shape d x' ∧ (∃ l, x'.cur.states = x.cur.states ++ l) ∧ (∃ li, x'.incs = x.incs ++ li) := by
    intro l hk hc hi hidx hiidx
    have hsh' := shape_next d hsh l hk hc hi hidx hiidx
    refine ⟨hsh', ?_, hi⟩
    rw [cur_eq d hsh'.k_eq hc]
    exact colAdds_prefix l x.cur
  cases h with
  | frameAdv t s j hf hs hm hr =>
    obtain ⟨h1, h2, h3⟩ := key [advSt x.m.k t s] (by rw [hm]) (by rw [hm]; exact hsh.addAt d _)
      ⟨[], by rw [hr.1]; simp⟩ (Or.inl (by rw [hm])) (Or.inl hr.2.1)
    exact ⟨h1, h2, h3, fun hc => by rw [hr.2.2]; exact hc⟩
  | frameEnd t j hf hs hm hr =>
    obtain ⟨h1, h2, h3⟩ := key [] (by rw [hm]) (by rw [hm]; exact hsh.cols_eq)
      ⟨[], by rw [hr.1]; simp⟩ (Or.inl (by rw [hm])) (Or.inl hr.2.1)
    exact ⟨h1, h2, h3, fun hc => by rw [hr.2.2]; exact hc⟩
  | pend t rest hf hp hm hr =>
    obtain ⟨h1, h2, h3⟩ := key [] (by rw [hm]) (by rw [hm]; exact hsh.cols_eq)
      ⟨[], by rw [hr.1]; simp⟩ (Or.inl (by rw [hm])) (Or.inl hr.2.1)
    exact ⟨h1, h2, h3, fun hc => by rw [hr.2.2, hc]; rfl⟩
  | fin s hf hp hs hfin hm hr =>
    obtain ⟨out, hm⟩ := hm
    obtain ⟨h1, h2, h3⟩ := key [] (by rw [hm]) (by rw [hm]; exact hsh.cols_eq)
      ⟨[], by rw [hr.1]; simp⟩ (Or.inr ⟨by rw [hm], lt_of_getElem? hs⟩) (Or.inl hr.2.1)
    exact ⟨h1, h2, h3, fun hc => by rw [hr.2.2, hc]; rfl⟩
  | pred s X a r hf hp hs hfin hsym hm hr =>
    obtain ⟨h1, h2, h3⟩ := key _ (by rw [hm])
      (by rw [hm]; simp only []; rw [hsh.predAdd d X]) ⟨[], by rw [hr.1]; simp⟩
      (Or.inr ⟨by rw [hm], lt_of_getElem? hs⟩) (Or.inl hr.2.1)
    exact ⟨h1, h2, h3, fun hc => by rw [hr.2.2]; exact hc⟩
  | scan s hf hp hs hw hx =>
    have hspec := addOuts_spec (d.map toCol) s.cover (f (Entry.fresh (KI.ofSt s)))
      { x with m := { x.m with idx := x.m.idx + 1 } } x.cur (by simpa using hsh.k_eq) hsh.cols_eq
    rw [← hx] at hspec
    obtain ⟨e1, e2, e3, e4⟩ := hspec
    obtain ⟨h1, h2, h3⟩ := key _ (by rw [e1]) (by rw [e1]) (by rw [e2]; exact incOuts_prefix _ _)
      (Or.inr ⟨by rw [e1], lt_of_getElem? hs⟩) (Or.inl e3)
    exact ⟨h1, h2, h3, fun hc => by rw [e4]; exact hc⟩
  | inc e hf hp hs he hx =>
    have hspec := addOuts_spec (d.map toCol) none (f e) { x with iidx := x.iidx + 1 } x.cur
      (by simpa using hsh.k_eq) hsh.cols_eq
    rw [← hx] at hspec
    obtain ⟨e1, e2, e3, e4⟩ := hspec
    obtain ⟨h1, h2, h3⟩ := key _ (by rw [e1]) (by rw [e1]) (by rw [e2]; exact incOuts_prefix _ _)
      (Or.inl (by rw [e1])) (Or.inr ⟨e3, lt_of_getElem? he⟩)
    exact ⟨h1, h2, h3, fun hc => by rw [e4]; exact hc⟩
  | skip s hf hp hs hfin hsym hm hr =>
    obtain ⟨h1, h2, h3⟩ := key [] (by rw [hm]) (by rw [hm]; exact hsh.cols_eq)
      ⟨[], by rw [hr.1]; simp⟩ (Or.inr ⟨by rw [hm], lt_of_getElem? hs⟩) (Or.inl hr.2.1)
    exact ⟨h1, h2, h3, fun hc => by rw [hr.2.2]; exact hc⟩

/-! ### the start of a pass -/

theorem cinit_cur : (cinit .acyclic d seed).cur = colAdds {} (ordOuts none seed) := by
  unfold CM.cur cinit
  simp only []
  have := colAt_snoc_eq (d.map toCol)
    ((seed.filter (fun e => !e.inc)).foldl (fun col e => Col.add .acyclic col (e.item.toSt none)) {})
  simp only [List.length_map] at this
  rw [this]
  unfold colAdds ordOuts
  rw [List.foldl_map]

theorem cinit_incs : (cinit .acyclic d seed).incs = incOuts [] seed := rfl

theorem shape_init : Shape d (cinit .acyclic d seed) := by
  refine ⟨rfl, ?_, ?_, Nat.zero_le _, Nat.zero_le _⟩
  · rw [cinit_cur]
    unfold cinit
    simp only []
    unfold colAdds ordOuts
    rw [List.foldl_map]
  · rw [cinit_cur]; exact colAdds_wf _ colWf_empty

/-- the seed is in the table -/
def SeedIn (x : CM) : Prop := ∀ e ∈ seed, HasE x.cur x.incs e

theorem seedIn_init : SeedIn seed (cinit .acyclic d seed) := by
  intro e he
  rw [cinit_cur, cinit_incs]
  exact hasE_outs {} [] none seed e he

theorem inv_init (pd : Bool) : Inv pred pd d f seed (cinit .acyclic d seed) := by
  refine ⟨shape_init d seed, ⟨?_, ?_, ?_, ?_⟩, ?_⟩
  · intro s hs
    rw [cinit_cur] at hs
    rcases colAdds_mem _ _ s hs with h1 | h1
    · simp at h1
    · simp only [ordOuts, List.mem_map, List.mem_filter, Bool.not_eq_true'] at h1
      obtain ⟨e, ⟨he, hi⟩, rfl⟩ := h1
      have := Der.seed (pred := pred) (d := d) (f := f) he
      rw [norm_ord hi] at this
      exact this
  · intro e he
    rw [cinit_incs] at he
    rcases incOuts_mem _ _ e he with h1 | ⟨h1, h2⟩
    · simp at h1
    · have := Der.seed (pred := pred) (d := d) (f := f) h1
      rw [norm_inc h2] at this
      exact ⟨h2, this⟩
  · intro t j hf; cases hf
  · intro t ht; simp [cinit] at ht
  · intro _
    refine ⟨?_, ?_, ?_, ?_, ?_⟩
    · intro i; intros; simp [cinit] at *
    · intro i; intros; simp [cinit] at *
    · intro i; intros; simp [cinit] at *
    · intro i; intros; simp [cinit] at *
    · intro _ i; intros; simp [cinit] at *

/-! ### the run -/

theorem crun_inv {pd : Bool} : ∀ (n : Nat) (x : CM), Shape d x →
    Shape d (crun (cfgAt pred pd d.length) f n x).1 ∧
    (∃ l, (crun (cfgAt pred pd d.length) f n x).1.cur.states = x.cur.states ++ l) ∧
    (∃ li, (crun (cfgAt pred pd d.length) f n x).1.incs = x.incs ++ li) ∧
    (x.cut = true → (crun (cfgAt pred pd d.length) f n x).1.cut = true) ∧
    ((crun (cfgAt pred pd d.length) f n x).2 = true →
      cstep (cfgAt pred pd d.length) f (crun (cfgAt pred pd d.length) f n x).1 = none)
  | 0, x, h => by
    simp only [crun]
    exact ⟨h, ⟨[], by simp⟩, ⟨[], by simp⟩, id, fun hh => by simpa using hh⟩
  | n + 1, x, h => by
    simp only [crun]
    cases hc : cstep (cfgAt pred pd d.length) f x with
    | none => exact ⟨h, ⟨[], by simp⟩, ⟨[], by simp⟩, id, fun _ => hc⟩
    | some x' =>
      simp only []
      obtain ⟨g1, ⟨l1, g2⟩, ⟨li1, g3⟩, g4⟩ := cstep_grow pred d f h (cstep_cases pred pd f h.k_eq hc)
      obtain ⟨i1, ⟨l2, i2⟩, ⟨li2, i3⟩, i4, i5⟩ := crun_inv n x' g1
      exact ⟨i1, ⟨l1 ++ l2, by rw [i2, g2, List.append_assoc]⟩, ⟨li1 ++ li2, by rw [i3, g3, List.append_assoc]⟩,
        fun hh => i4 (g4 hh), i5⟩

theorem seedIn_mono {x x' : CM} (hc : ∃ l, x'.cur.states = x.cur.states ++ l) (hi : ∃ li, x'.incs = x.incs ++ li)
    (h : SeedIn seed x) : SeedIn seed x' :=
  fun e he => hasE_mono hc hi (h e he)

theorem crun_full_inv (pd : Bool) : ∀ (n : Nat) (x : CM), Inv pred pd d f seed x →
    Inv pred pd d f seed (crun (cfgAt pred pd d.length) f n x).1
  | 0, x, h => by simp only [crun]; exact h
  | n + 1, x, h => by
    simp only [crun]
    cases hc : cstep (cfgAt pred pd d.length) f x with
    | none => exact h
    | some x' =>
      simp only []
      exact crun_full_inv pd n x' (inv_step pred pd d f seed h (cstep_cases pred pd f h.shape.k_eq hc))

/-! ### the end of a pass -/

theorem step_next {pd : Bool} {k : Nat} {m : M} (hk : m.k = k)
    (hne : ¬ (m.frame = none ∧ m.pending = [] ∧ (colAt m.cols m.k).states[m.idx]? = none)) :
    ∃ m', step (cfgAt pred pd k) m = .next m' := by
  obtain ⟨cols, kk, idx, frame, pending, out⟩ := m
  simp only at hk hne
  subst hk
  unfold step
  have hnc : ¬ (cfgAt pred pd kk).ncols ≤ kk := by simp [cfgAt]
  simp only [if_neg hnc]
  cases frame with
  | some tj =>
    obtain ⟨t, j⟩ := tj
    simp only
    cases ((colAt cols t.item.origin).findDot t.item.lhs)[j]? with
    | none => exact ⟨_, rfl⟩
    | some s => simp only [cfgAt_policy, advance_acyclic]; exact ⟨_, rfl⟩
  | none =>
    simp only
    cases pending with
    | cons t rest => exact ⟨_, rfl⟩
    | nil =>
      simp only
      cases hs : (colAt cols kk).states[idx]? with
      | none => exact absurd ⟨rfl, rfl, hs⟩ hne
      | some s =>
        simp only
        split
        · exact ⟨_, rfl⟩
        · cases s.item.sym? with
          | none => exact ⟨_, rfl⟩
          | some y =>
            cases y with
            | t tm => simp only [cfgAt]; exact ⟨_, rfl⟩
            | n X a r => exact ⟨_, rfl⟩

/-- a pass is at its end only when nothing is left: no `complete` loop, nothing pending, both worklists
    exhausted -/
theorem cstep_none {pd : Bool} {x : CM} (hk : x.m.k = d.length)
    (h : cstep (cfgAt pred pd d.length) f x = none) :
    x.m.frame = none ∧ x.m.pending = [] ∧ x.cur.states[x.m.idx]? = none ∧ x.incs[x.iidx]? = none := by
  have hdel : ¬ (x.m.frame = none ∧ x.m.pending = [] ∧ (colAt x.m.cols x.m.k).states[x.m.idx]? = none) →
      (match step (cfgAt pred pd d.length) x.m with
        | .next m' => some ({ x with m := m', cut := x.cut || cutNow (cfgAt pred pd d.length) x.m } : CM)
        | _ => none) ≠ none := by
    intro hne
    obtain ⟨m', hm'⟩ := step_next pred (pd := pd) hk hne
    rw [hm']
    simp
  unfold cstep at h
  simp only at h
  cases hf : x.m.frame with
  | some tj =>
    rw [hf] at h
    exact absurd h (hdel (fun hh => by rw [hf] at hh; cases hh.1))
  | none =>
    rw [hf] at h
    cases hp : x.m.pending with
    | cons t rest =>
      rw [hp] at h
      exact absurd h (hdel (fun hh => by rw [hp] at hh; cases hh.2.1))
    | nil =>
      rw [hp] at h
      simp only at h
      cases hs : (colAt x.m.cols x.m.k).states[x.m.idx]? with
      | some s =>
        rw [hs] at h
        simp only at h
        split at h
        · cases h
        · exact absurd h (hdel (fun hh => by rw [hs] at hh; cases hh.2.2))
      | none =>
        rw [hs] at h
        simp only at h
        cases he : x.incs[x.iidx]? with
        | some e => rw [he] at h; cases h
        | none => exact ⟨rfl, rfl, hs, rfl⟩

/-! ### the closed column -/

/-- the machine a pass ends in -/
def finalCM (pd : Bool) (fuel : Nat) : CM := (crun (cfgAt pred pd d.length) f fuel (cinit .acyclic d seed)).1

theorem shortcut_nil {cols : List Earley.Col} {k : Nat} (h : beginnersOf (colAt cols k) = []) :
    shortcut cols k = cols := by
  unfold shortcut; rw [h]; rfl

theorem finalCM_shape (pd : Bool) (fuel : Nat) : Shape d (finalCM pred d f seed pd fuel) :=
  (crun_inv pred d f fuel _ (shape_init d seed)).1

/-- what `ok` says about a full pass -/
theorem closeRun_ok {fuel : Nat} (hok : (closeRun pred true fuel d f seed).ok = true) :
    (closeRun pred true fuel d f seed).col =
      colOut (finalCM pred d f seed true fuel).cur (finalCM pred d f seed true fuel).incs ∧
    cstep (cfgAt pred true d.length) f (finalCM pred d f seed true fuel) = none ∧
    (finalCM pred d f seed true fuel).cut = false ∧
    beginnersOf (finalCM pred d f seed true fuel).cur = [] := by
  unfold CloseRes.ok at hok
  simp only [Bool.and_eq_true, Bool.not_eq_true'] at hok
  obtain ⟨⟨h1, h2⟩, h3⟩ := hok
  have hsh := finalCM_shape pred d f seed true fuel
  have hbeg : beginnersOf (finalCM pred d f seed true fuel).cur = [] := by
    have : (closeRun pred true fuel d f seed).beginners = false := h3
    unfold closeRun at this
    simp only [Bool.true_and, Bool.not_eq_false', List.isEmpty_iff] at this
    have hk := hsh.k_eq
    unfold CM.cur
    rw [hk]
    exact this
  refine ⟨?_, ?_, h2, hbeg⟩
  · unfold closeRun
    simp only [if_true]
    have hb : beginnersOf (colAt (finalCM pred d f seed true fuel).m.cols d.length) = [] := by
      have := hbeg
      unfold CM.cur at this
      rw [hsh.k_eq] at this
      exact this
    have : shortcut (finalCM pred d f seed true fuel).m.cols d.length = (finalCM pred d f seed true fuel).m.cols :=
      shortcut_nil hb
    unfold finalCM at this hsh ⊢
    simp only [cfgAt_policy]
    rw [this]
    unfold CM.cur
    rw [hsh.k_eq]
  · exact (crun_inv pred d f fuel _ (shape_init d seed)).2.2.2.2 h1

theorem mem_colOut {cur : Earley.Col} {incs : List (Entry KI)} {e : Entry KI} :
    e ∈ colOut cur incs ↔ (∃ s ∈ cur.states, e = Entry.fresh (KI.ofSt s)) ∨ e ∈ incs := by
  unfold colOut
  simp only [List.mem_append, List.mem_map]
  constructor
  · rintro (⟨s, hs, rfl⟩ | h)
    · exact Or.inl ⟨s, hs, rfl⟩
    · exact Or.inr h
  · rintro (⟨s, hs, rfl⟩ | h)
    · exact Or.inl ⟨s, hs, rfl⟩
    · exact Or.inr h

theorem hasE_colOut {cur : Earley.Col} {incs : List (Entry KI)} {o : Entry KI} (h : HasE cur incs o) :
    norm o ∈ colOut cur incs := by
  unfold HasE at h
  rw [mem_colOut]
  cases hi : o.inc with
  | true =>
    rw [if_pos hi] at h
    rw [norm_inc hi]; exact Or.inr h
  | false =>
    rw [if_neg (by simp [hi])] at h
    obtain ⟨s, hs, hk⟩ := h
    rw [norm_ord hi, ← hk]
    exact Or.inl ⟨s, hs, rfl⟩

/-- **a pass that comes to its end, without the covering cut firing and with no `*` / `+` right-recursion state
    in the closed column, computes exactly the set `Der`** -/
theorem closure_spec {fuel : Nat} (hok : (closeRun pred true fuel d f seed).ok = true) (e : Entry KI) :
    e ∈ (closeRun pred true fuel d f seed).col ↔ Der pred d f seed e := by
  obtain ⟨hcol, hhalt, hcut, _⟩ := closeRun_ok pred d f seed hok
  have hinv : Inv pred true d f seed (finalCM pred d f seed true fuel) :=
    crun_full_inv pred d f seed true fuel _ (inv_init pred d f seed true)
  have hsh := hinv.shape
  obtain ⟨hfr, hpe, hst, hin⟩ := cstep_none pred d f hsh.k_eq hhalt
  have hprog := hinv.prog hcut
  rw [hfr, hpe] at hprog
  have hseed : SeedIn seed (finalCM pred d f seed true fuel) := by
    obtain ⟨_, g2, g3, _⟩ := crun_inv pred d f (pd := true) fuel _ (shape_init d seed)
    exact seedIn_mono seed g2 g3 (seedIn_init d seed)
  -- both worklists are exhausted
  have hidx : ∀ {i : Nat} {s : St}, (finalCM pred d f seed true fuel).cur.states[i]? = some s →
      i < (finalCM pred d f seed true fuel).m.idx := by
    intro i s h
    have h1 := lt_of_getElem? h
    rw [List.getElem?_eq_none_iff] at hst
    omega
  have hiidx : ∀ {i : Nat} {e : Entry KI}, (finalCM pred d f seed true fuel).incs[i]? = some e →
      i < (finalCM pred d f seed true fuel).iidx := by
    intro i e h
    have h1 := lt_of_getElem? h
    rw [List.getElem?_eq_none_iff] at hin
    omega
  rw [hcol]
  constructor
  · intro he
    rcases mem_colOut.1 he with ⟨s, hs, rfl⟩ | h
    · exact hinv.sound.st s hs
    · exact (hinv.sound.inc e h).2
  · intro he
    induction he with
    | seed he0 => exact hasE_colOut (hseed _ he0)
    | @scan e o _ hsc ho ih =>
      rcases mem_colOut.1 ih with ⟨s, hs, rfl⟩ | h
      · obtain ⟨i, hi, his⟩ := List.mem_iff_getElem.1 hs
        have hget : (finalCM pred d f seed true fuel).cur.states[i]? = some s := by
          rw [List.getElem?_eq_getElem hi, his]
        have hw : wantsTerminal s = true := by
          rcases hsc with h | h
          · cases h
          · exact h
        exact hasE_colOut (hprog.scan i s (hidx hget) hget hw o ho)
      · obtain ⟨i, hi, his⟩ := List.mem_iff_getElem.1 h
        have hget : (finalCM pred d f seed true fuel).incs[i]? = some e := by
          rw [List.getElem?_eq_getElem hi, his]
        exact hasE_colOut (hprog.inc i e (hiidx hget) hget o ho)
    | @pred e X a r rhs _ hi hsym hrhs ih =>
      rcases mem_colOut.1 ih with ⟨s, hs, rfl⟩ | h
      · obtain ⟨i, hi', his⟩ := List.mem_iff_getElem.1 hs
        have hget : (finalCM pred d f seed true fuel).cur.states[i]? = some s := by
          rw [List.getElem?_eq_getElem hi', his]
        obtain ⟨s', hs', hk⟩ := hprog.pred i s X a r (hidx hget) hget hsym rhs hrhs
        rw [mem_colOut]
        exact Or.inl ⟨s', hs', by rw [hk]⟩
      · rw [(hinv.sound.inc e h).1] at hi; cases hi
    | @compPast t s c _ hti hfin hc hs hsi hd ih =>
      rcases mem_colOut.1 ih with ⟨t', ht', rfl⟩ | h
      · obtain ⟨i, hi', his⟩ := List.mem_iff_getElem.1 ht'
        have hget : (finalCM pred d f seed true fuel).cur.states[i]? = some t' := by
          rw [List.getElem?_eq_getElem hi', his]
        have hmem := findDot_toCol_mem hs hsi hd
        rcases hprog.past i t' c (hidx hget) hget hfin hc _ hmem with ⟨s', hs', hk⟩ | ⟨j, q, hh, _, _⟩
        · rw [mem_colOut]
          exact Or.inl ⟨s', hs', by rw [hk]; rfl⟩
        · cases hh
      · rw [(hinv.sound.inc t h).1] at hti; cases hti
    | @compHere t s _ hti hfin ho _ hsi hd iht ihs =>
      rcases mem_colOut.1 iht with ⟨t', ht', rfl⟩ | h
      · rcases mem_colOut.1 ihs with ⟨s', hs', rfl⟩ | h'
        · obtain ⟨i, hi', his⟩ := List.mem_iff_getElem.1 ht'
          have hget : (finalCM pred d f seed true fuel).cur.states[i]? = some t' := by
            rw [List.getElem?_eq_getElem hi', his]
          obtain ⟨i2, hi2, his2⟩ := List.mem_iff_getElem.1 hs'
          have hget2 : (finalCM pred d f seed true fuel).cur.states[i2]? = some s' := by
            rw [List.getElem?_eq_getElem hi2, his2]
          rcases hprog.here rfl i i2 t' s' (hidx hget) (hidx hget2) hget hget2 hfin ho hd with
            ⟨u, hu, hk⟩ | ⟨j, q, hh, _, _⟩ | hh
          · rw [mem_colOut]
            exact Or.inl ⟨u, hu, by rw [hk]; rfl⟩
          · cases hh
          · cases hh
        · rw [(hinv.sound.inc s h').1] at hsi; cases hsi
      · rw [(hinv.sound.inc t h).1] at hti; cases hti

end close

end IncrE
end FV
