/-
C13 / the engine of the real closure: the invariant of a column pass (shape of the table, soundness, progress)
is kept by every step.
-/
import Proofs.IncrEarleyProg
namespace FV
namespace IncrE
open Earley Incr

section inv
variable (pred : Nat → NT → List (List ESym)) (pd : Bool) (d : List (Incr.Col KI)) (f : Entry KI → List (Entry KI))
  (seed : Incr.Col KI)

/-- every state of the table is one the pass is supposed to compute; the `complete` loop and the pending
    completions of `predict` work on finished states of the column -/
structure Sound (x : CM) : Prop where
  st : ∀ s ∈ x.cur.states, Der pred d f seed (Entry.fresh (KI.ofSt s))
  inc : ∀ e ∈ x.incs, e.inc = true ∧ Der pred d f seed e
  frame : ∀ t j, x.m.frame = some (t, j) → t ∈ x.cur.states ∧ t.item.finished = true
  pend : ∀ t ∈ x.m.pending, t ∈ x.cur.states ∧ t.item.finished = true ∧ t.item.origin = d.length

structure Inv (x : CM) : Prop where
  shape : Shape d x
  sound : Sound pred d f seed x
  prog : x.cut = false → ProgC pred pd d f x.cur x.incs x.m.idx x.iidx x.m.frame x.m.pending

theorem cur_eq {x' : CM} {c' : Earley.Col} (hk : x'.m.k = d.length) (hc : x'.m.cols = d.map toCol ++ [c']) :
    x'.cur = c' := by
  unfold CM.cur
  rw [hc, hk]
  have := colAt_snoc_eq (d.map toCol) c'
  simpa using this

theorem Shape.cur_at {x : CM} (h : Shape d x) : colAt x.m.cols d.length = x.cur := by
  unfold CM.cur; rw [h.k_eq]

theorem Shape.addAt {x : CM} (h : Shape d x) (s : St) :
    addAt .acyclic x.m.cols x.m.k s = d.map toCol ++ [colAdds x.cur [s]] := by
  rw [h.cols_eq, h.k_eq]
  have := addAt_snoc (d.map toCol) x.cur s
  rw [show colAdds x.cur [s] = Col.add .acyclic x.cur s from rfl]
  simpa using this

theorem Shape.predAdd {x : CM} (h : Shape d x) (X : NT) (alts : List (List ESym)) :
    predAdd x.m.k X alts x.m.cols = d.map toCol ++ [colAdds x.cur (alts.map (fun rhs =>
      ({ item := { lhs := X, rhs := rhs, dot := 0, origin := d.length }, kids := [] } : St)))] := by
  rw [h.cols_eq, h.k_eq]
  have := predAdd_snoc (d.map toCol) X alts x.cur
  simpa using this

/-- the shape after a step that admits `l` into the column, parks `li`, and moves the indices by at most one
    (only past an element that is there) -/
theorem shape_next {x x' : CM} (h : Shape d x) (l : List St) (hk : x'.m.k = x.m.k)
    (hc : x'.m.cols = d.map toCol ++ [colAdds x.cur l]) (hi : ∃ li, x'.incs = x.incs ++ li)
    (hidx : x'.m.idx = x.m.idx ∨ (x'.m.idx = x.m.idx + 1 ∧ x.m.idx < x.cur.states.length))
    (hiidx : x'.iidx = x.iidx ∨ (x'.iidx = x.iidx + 1 ∧ x.iidx < x.incs.length)) : Shape d x' := by
  have hk' : x'.m.k = d.length := by rw [hk, h.k_eq]
  have hcur := cur_eq d hk' hc
  obtain ⟨l', hl'⟩ := colAdds_prefix l x.cur
  obtain ⟨li, hli⟩ := hi
  refine ⟨hk', by rw [hcur]; exact hc, by rw [hcur]; exact colAdds_wf l h.wf, ?_, ?_⟩
  · rw [hcur, hl']
    have := h.idx_le
    simp only [List.length_append]
    rcases hidx with h1 | ⟨h1, h2⟩ <;> omega
  · rw [hli]
    have := h.iidx_le
    simp only [List.length_append]
    rcases hiidx with h1 | ⟨h1, h2⟩ <;> omega

theorem lt_of_getElem? {α : Type} {l : List α} {i : Nat} {a : α} (h : l[i]? = some a) : i < l.length := by
  rcases Nat.lt_or_ge i l.length with h1 | h1
  · exact h1
  · rw [List.getElem?_eq_none h1] at h; cases h

/-- soundness of the column after admitting states that are all derivable -/
theorem sound_adds {x : CM} (h : Sound pred d f seed x) (l : List St)
    (hl : ∀ s ∈ l, Der pred d f seed (Entry.fresh (KI.ofSt s))) :
    ∀ s ∈ (colAdds x.cur l).states, Der pred d f seed (Entry.fresh (KI.ofSt s)) := by
  intro s hs
  rcases colAdds_mem l _ s hs with h1 | h1
  · exact h.st s h1
  · exact hl s h1

theorem mem_states_adds {cur : Earley.Col} (l : List St) {s : St} (h : s ∈ cur.states) :
    s ∈ (colAdds cur l).states := by
  obtain ⟨l', hl'⟩ := colAdds_prefix l cur
  rw [hl']; exact List.mem_append_left _ h

/-- what the scanner returns for a derivable state is derivable, the ordinary results as states -/
theorem der_ordOuts {e : Entry KI} (he : Der pred d f seed e) (hsc : e.inc = true ∨ e.item.wantsT = true)
    (cover : Option (Nat × List NT)) :
    ∀ s ∈ ordOuts cover (f e), Der pred d f seed (Entry.fresh (KI.ofSt s)) := by
  intro s hs
  simp only [ordOuts, List.mem_map, List.mem_filter, Bool.not_eq_true'] at hs
  obtain ⟨o, ⟨ho, hi⟩, rfl⟩ := hs
  have := Der.scan he hsc ho
  rw [norm_ord hi] at this
  exact this

theorem der_incOuts {x : CM} (h : Sound pred d f seed x) {e : Entry KI} (he : Der pred d f seed e)
    (hsc : e.inc = true ∨ e.item.wantsT = true) :
    ∀ o ∈ incOuts x.incs (f e), o.inc = true ∧ Der pred d f seed o := by
  intro o ho
  rcases incOuts_mem _ _ o ho with h1 | ⟨h1, h2⟩
  · exact h.inc o h1
  · have := Der.scan he hsc h1
    rw [norm_inc h2] at this
    exact ⟨h2, this⟩

theorem hasE_outs (cur : Earley.Col) (incs : List (Entry KI)) (cover : Option (Nat × List NT))
    (outs : List (Entry KI)) : ∀ o ∈ outs, HasE (colAdds cur (ordOuts cover outs)) (incOuts incs outs) o := by
  intro o ho
  unfold HasE
  cases hi : o.inc with
  | true =>
    simp only [if_true]
    exact incOuts_has outs incs o ho hi
  | false =>
    simp only [Bool.false_eq_true, if_false]
    have hm : o.item.toSt cover ∈ ordOuts cover outs := by
      simp only [ordOuts, List.mem_map, List.mem_filter, Bool.not_eq_true']
      exact ⟨o, ⟨ho, hi⟩, rfl⟩
    exact colAdds_has _ cur _ hm

/-- **every step keeps the invariant** -/
theorem inv_step {x x' : CM} (hinv : Inv pred pd d f seed x) (h : CStep pred pd f x x') : Inv pred pd d f seed x' := by
  have hsh := hinv.shape
  have hso := hinv.sound
  cases h with
  | frameAdv t s j hf hs hm hr =>
    obtain ⟨hr1, hr2, hr3⟩ := hr
    have hcols : x'.m.cols = d.map toCol ++ [colAdds x.cur [advSt x.m.k t s]] := by
      rw [hm]; exact hsh.addAt d _
    have hk : x'.m.k = x.m.k := by rw [hm]
    have hsh' : Shape d x' := shape_next d hsh _ hk hcols ⟨[], by rw [hr1]; simp⟩ (Or.inl (by rw [hm]))
      (Or.inl hr2)
    have hcur : x'.cur = colAdds x.cur [advSt x.m.k t s] := cur_eq d hsh'.k_eq hcols
    obtain ⟨htm, htf⟩ := hso.frame t j hf
    -- where the parent comes from
    have hder : Der pred d f seed (Entry.fresh (KI.ofSt (advSt x.m.k t s))) ∧
        (∀ c, d[t.item.origin]? = some c → ((toCol c).findDot t.item.lhs)[j]? = some s) ∧
        (t.item.origin = d.length → (x.cur.findDot t.item.lhs)[j]? = some s) := by
      rcases Nat.lt_trichotomy t.item.origin d.length with ho | ho | ho
      · obtain ⟨c, hc⟩ : ∃ c, d[t.item.origin]? = some c := ⟨d[t.item.origin], by simp [ho]⟩
        rw [hsh.colAt_lt d hc] at hs
        obtain ⟨e, he, hi, rfl, hd⟩ := mem_findDot_toCol (List.mem_of_getElem? hs)
        refine ⟨?_, ?_, fun h => by omega⟩
        · rw [ofSt_advSt]
          exact Der.compPast (t := Entry.fresh (KI.ofSt t)) (hso.st t htm) rfl htf hc he hi hd
        · intro c' hc'
          rw [hc] at hc'; cases hc'; exact hs
      · rw [ho, hsh.cur_at d] at hs
        have hmem := (mem_findDot_iff hsh.wf _ _).1 (List.mem_of_getElem? hs)
        refine ⟨?_, fun c hc => ?_, fun _ => hs⟩
        · rw [ofSt_advSt]
          exact Der.compHere (t := Entry.fresh (KI.ofSt t)) (s := Entry.fresh (KI.ofSt s)) (hso.st t htm) rfl htf ho
            (hso.st s hmem.1) rfl hmem.2
        · rw [ho, List.getElem?_eq_none (Nat.le_refl _)] at hc; cases hc
      · rw [hsh.colAt_gt d ho] at hs
        simp [Col.findDot] at hs
    obtain ⟨hder, hpast, hhere⟩ := hder
    refine ⟨hsh', ⟨?_, ?_, ?_, ?_⟩, ?_⟩
    · rw [hcur]
      exact sound_adds pred d f seed hso _ (fun s' hs' => by
        simp only [List.mem_singleton] at hs'; rw [hs']; exact hder)
    · rw [hr1]; exact hso.inc
    · intro t' j' hf'
      rw [hm] at hf'
      simp only [Option.some.injEq, Prod.mk.injEq] at hf'
      rw [← hf'.1, hcur]
      exact ⟨mem_states_adds _ htm, htf⟩
    · intro t' ht'
      rw [hm] at ht'
      obtain ⟨h1, h2, h3⟩ := hso.pend t' ht'
      rw [hcur]
      exact ⟨mem_states_adds _ h1, h2, h3⟩
    · intro hcut
      rw [hr3] at hcut
      have hp := hinv.prog hcut
      rw [hf] at hp
      rw [hcur, hr1, hr2]
      have hm1 : x'.m.idx = x.m.idx := by rw [hm]
      have hm2 : x'.m.frame = some (t, j + 1) := by rw [hm]
      have hm3 : x'.m.pending = x.m.pending := by rw [hm]
      rw [hm1, hm2, hm3]
      have hw' : ColWf (colAdds x.cur [advSt x.m.k t s]) := colAdds_wf _ hsh.wf
      have hg := progC_grow pred pd d f hsh.wf hw' (colAdds_prefix _ _) (⟨[], by simp⟩ : ∃ l, x.incs = x.incs ++ l) hsh.idx_le hsh.iidx_le hp
      apply progC_frameAdv pred pd d f hpast _ _ hg
      · intro ho
        obtain ⟨l', hl'⟩ := colAdds_prefix [advSt x.m.k t s] x.cur
        obtain ⟨l'', hl''⟩ := findDot_prefix hsh.wf hw' hl' t.item.lhs
        exact getElem?_prefix_some hl'' (hhere ho)
      · rw [← ofSt_advSt x.m.k]
        exact colAdds_has _ _ _ (by simp)
  | frameEnd t j hf hs hm hr =>
    obtain ⟨hr1, hr2, hr3⟩ := hr
    have hcols : x'.m.cols = d.map toCol ++ [colAdds x.cur []] := by
      rw [hm]; exact hsh.cols_eq
    have hsh' : Shape d x' := shape_next d hsh [] (by rw [hm]) hcols ⟨[], by rw [hr1]; simp⟩
      (Or.inl (by rw [hm])) (Or.inl hr2)
    have hcur : x'.cur = x.cur := cur_eq d hsh'.k_eq hcols
    refine ⟨hsh', ⟨by rw [hcur]; exact hso.st, by rw [hr1]; exact hso.inc, ?_, ?_⟩, ?_⟩
    · intro t' j' hf'
      rw [hm] at hf'; cases hf'
    · intro t' ht'
      rw [hm] at ht'
      rw [hcur]; exact hso.pend t' ht'
    · intro hcut
      rw [hr3] at hcut
      have hp := hinv.prog hcut
      rw [hf] at hp
      rw [hcur, hr1, hr2]
      have hm1 : x'.m.idx = x.m.idx := by rw [hm]
      have hm2 : x'.m.frame = none := by rw [hm]
      have hm3 : x'.m.pending = x.m.pending := by rw [hm]
      rw [hm1, hm2, hm3]
      apply progC_frameEnd pred pd d f _ _ hp
      · intro c hc
        rw [hsh.colAt_lt d hc] at hs
        exact hs
      · intro ho
        rw [ho, hsh.cur_at d] at hs
        exact hs
  | pend t rest hf hp hm hr =>
    obtain ⟨hr1, hr2, hr3⟩ := hr
    have hcols : x'.m.cols = d.map toCol ++ [colAdds x.cur []] := by
      rw [hm]; exact hsh.cols_eq
    have hsh' : Shape d x' := shape_next d hsh [] (by rw [hm]) hcols ⟨[], by rw [hr1]; simp⟩
      (Or.inl (by rw [hm])) (Or.inl hr2)
    have hcur : x'.cur = x.cur := cur_eq d hsh'.k_eq hcols
    have htp := hso.pend t (by rw [hp]; simp)
    refine ⟨hsh', ⟨by rw [hcur]; exact hso.st, by rw [hr1]; exact hso.inc, ?_, ?_⟩, ?_⟩
    · intro t' j' hf'
      rw [hm] at hf'
      simp only at hf'
      split at hf'
      · cases hf'
      · simp only [Option.some.injEq, Prod.mk.injEq] at hf'
        rw [← hf'.1, hcur]
        exact ⟨htp.1, htp.2.1⟩
    · intro t' ht'
      rw [hm] at ht'
      rw [hcur]; exact hso.pend t' (by rw [hp]; exact List.mem_cons_of_mem _ ht')
    · intro hcut
      rw [hr3, Bool.or_eq_false_iff] at hcut
      have hpr := hinv.prog hcut.1
      rw [hf, hp] at hpr
      rw [hcur, hr1, hr2]
      have hm1 : x'.m.idx = x.m.idx := by rw [hm]
      have hm2 : x'.m.frame = some (t, 0) := by rw [hm]; simp [hcut.2]
      have hm3 : x'.m.pending = rest := by rw [hm]
      rw [hm1, hm2, hm3]
      exact progC_pend pred pd d f hsh.wf hpr
  | fin s hf hp hs hfin hm hr =>
    obtain ⟨hr1, hr2, hr3⟩ := hr
    obtain ⟨out, hm⟩ := hm
    have hcols : x'.m.cols = d.map toCol ++ [colAdds x.cur []] := by
      rw [hm]; exact hsh.cols_eq
    have hsh' : Shape d x' := shape_next d hsh [] (by rw [hm]) hcols ⟨[], by rw [hr1]; simp⟩
      (Or.inr ⟨by rw [hm], lt_of_getElem? hs⟩) (Or.inl hr2)
    have hcur : x'.cur = x.cur := cur_eq d hsh'.k_eq hcols
    refine ⟨hsh', ⟨by rw [hcur]; exact hso.st, by rw [hr1]; exact hso.inc, ?_, ?_⟩, ?_⟩
    · intro t' j' hf'
      rw [hm] at hf'
      simp only at hf'
      split at hf'
      · cases hf'
      · simp only [Option.some.injEq, Prod.mk.injEq] at hf'
        rw [← hf'.1, hcur]
        exact ⟨List.mem_of_getElem? hs, hfin⟩
    · intro t' ht'
      rw [hm] at ht'
      simp only [hp] at ht'
      cases ht'
    · intro hcut
      rw [hr3, Bool.or_eq_false_iff] at hcut
      have hpr := hinv.prog hcut.1
      rw [hf, hp] at hpr
      rw [hcur, hr1, hr2]
      have hm1 : x'.m.idx = x.m.idx + 1 := by rw [hm]
      have hm2 : x'.m.frame = some (s, 0) := by rw [hm]; simp [hcut.2]
      have hm3 : x'.m.pending = [] := by rw [hm]; exact hp
      rw [hm1, hm2, hm3]
      exact progC_fin pred pd d f hsh.wf hpr hs hfin
  | pred s X a r hf hp hs hfin hsym hm hr =>
    obtain ⟨hr1, hr2, hr3⟩ := hr
    let l : List St := (pred d.length X).map (fun rhs =>
      ({ item := { lhs := X, rhs := rhs, dot := 0, origin := d.length }, kids := [] } : St))
    have hpa : predAdd x.m.k X (pred x.m.k X) x.m.cols = d.map toCol ++ [colAdds x.cur l] := by
      rw [hsh.predAdd d X]; rw [hsh.k_eq]
    have hcols : x'.m.cols = d.map toCol ++ [colAdds x.cur l] := by
      rw [hm]; exact hpa
    have hsh' : Shape d x' := shape_next d hsh l (by rw [hm]) hcols ⟨[], by rw [hr1]; simp⟩
      (Or.inr ⟨by rw [hm], lt_of_getElem? hs⟩) (Or.inl hr2)
    have hcur : x'.cur = colAdds x.cur l := cur_eq d hsh'.k_eq hcols
    have hsm : s ∈ x.cur.states := List.mem_of_getElem? hs
    have hpend : x'.m.pending = if pd then doneOf (colAdds x.cur l) d.length X else [] := by
      rw [hm]
      simp only []
      rw [hpa, hsh.k_eq]
      have := colAt_snoc_eq (d.map toCol) (colAdds x.cur l)
      simp only [List.length_map] at this
      rw [this]
    refine ⟨hsh', ⟨?_, by rw [hr1]; exact hso.inc, ?_, ?_⟩, ?_⟩
    · rw [hcur]
      apply sound_adds pred d f seed hso
      intro s' hs'
      simp only [l, List.mem_map] at hs'
      obtain ⟨rhs, hrhs, rfl⟩ := hs'
      exact Der.pred (e := Entry.fresh (KI.ofSt s)) (hso.st s hsm) rfl hsym hrhs
    · intro t' j' hf'
      rw [hm] at hf'
      simp only [hf] at hf'
      cases hf'
    · intro t' ht'
      rw [hpend] at ht'
      split at ht'
      case isFalse => cases ht'
      unfold doneOf at ht'
      simp only [List.mem_filter, Bool.and_eq_true, decide_eq_true_eq] at ht'
      rw [hcur]
      exact ⟨ht'.1, ht'.2.2, ht'.2.1.1⟩
    · intro hcut
      rw [hr3] at hcut
      have hpr := hinv.prog hcut
      rw [hf, hp] at hpr
      rw [hcur, hr1, hr2, hpend]
      have hm1 : x'.m.idx = x.m.idx + 1 := by rw [hm]
      have hm2 : x'.m.frame = none := by rw [hm]; exact hf
      rw [hm1, hm2]
      have hw' : ColWf (colAdds x.cur l) := colAdds_wf _ hsh.wf
      have hg := progC_grow pred pd d f hsh.wf hw' (colAdds_prefix _ _) (⟨[], by simp⟩ : ∃ l, x.incs = x.incs ++ l) hsh.idx_le hsh.iidx_le hpr
      obtain ⟨l', hl'⟩ := colAdds_prefix l x.cur
      apply progC_pred pred pd d f hg (getElem?_prefix_some hl' hs) hsym
      · intro rhs hrhs
        have hmem : ({ item := { lhs := X, rhs := rhs, dot := 0, origin := d.length }, kids := [] } : St) ∈ l := by
          simp only [l, List.mem_map]
          exact ⟨rhs, hrhs, rfl⟩
        exact colAdds_has l x.cur _ hmem
      · intro hpd t' ht' h1 h2 h3
        rw [if_pos hpd]
        unfold doneOf
        simp only [List.mem_filter, Bool.and_eq_true, decide_eq_true_eq]
        exact ⟨ht', ⟨h2, h3⟩, h1⟩
  | scan s hf hp hs hw hx =>
    have hsm : s ∈ x.cur.states := List.mem_of_getElem? hs
    have hde := hso.st s hsm
    have hsc : (Entry.fresh (KI.ofSt s)).inc = true ∨ (Entry.fresh (KI.ofSt s)).item.wantsT = true :=
      Or.inr (by rw [fresh_item, ← wantsTerminal_ofSt]; exact hw)
    let outs := f (Entry.fresh (KI.ofSt s))
    have hspec := addOuts_spec (d.map toCol) s.cover outs { x with m := { x.m with idx := x.m.idx + 1 } } x.cur
      (by simpa using hsh.k_eq) hsh.cols_eq
    rw [← hx] at hspec
    obtain ⟨h1, h2, h3, h4⟩ := hspec
    have hcols : x'.m.cols = d.map toCol ++ [colAdds x.cur (ordOuts s.cover outs)] := by rw [h1]
    have hsh' : Shape d x' := shape_next d hsh _ (by rw [h1]) hcols (by rw [h2]; exact incOuts_prefix _ _)
      (Or.inr ⟨by rw [h1], lt_of_getElem? hs⟩) (Or.inl h3)
    have hcur : x'.cur = colAdds x.cur (ordOuts s.cover outs) := cur_eq d hsh'.k_eq hcols
    refine ⟨hsh', ⟨?_, ?_, ?_, ?_⟩, ?_⟩
    · rw [hcur]
      exact sound_adds pred d f seed hso _ (der_ordOuts pred d f seed hde hsc s.cover)
    · rw [h2]
      exact der_incOuts pred d f seed hso hde hsc
    · intro t' j' hf'
      rw [h1] at hf'
      simp only [hf] at hf'
      cases hf'
    · intro t' ht'
      rw [h1] at ht'
      simp only [hp] at ht'
      cases ht'
    · intro hcut
      rw [h4] at hcut
      have hpr := hinv.prog hcut
      rw [hf, hp] at hpr
      rw [hcur, h2, h3]
      have hm1 : x'.m.idx = x.m.idx + 1 := by rw [h1]
      have hm2 : x'.m.frame = none := by rw [h1]; exact hf
      have hm3 : x'.m.pending = [] := by rw [h1]; exact hp
      rw [hm1, hm2, hm3]
      have hw' : ColWf (colAdds x.cur (ordOuts s.cover outs)) := colAdds_wf _ hsh.wf
      have hg := progC_grow pred pd d f hsh.wf hw' (colAdds_prefix _ _) (incOuts_prefix outs x.incs)
        hsh.idx_le hsh.iidx_le hpr
      obtain ⟨l', hl'⟩ := colAdds_prefix (ordOuts s.cover outs) x.cur
      exact progC_scan pred pd d f hg (getElem?_prefix_some hl' hs) hw (hasE_outs _ _ _ outs)
  | inc e hf hp hs he hx =>
    have hem : e ∈ x.incs := List.mem_of_getElem? he
    obtain ⟨hei, hde⟩ := hso.inc e hem
    have hsc : e.inc = true ∨ e.item.wantsT = true := Or.inl hei
    let outs := f e
    have hspec := addOuts_spec (d.map toCol) none outs { x with iidx := x.iidx + 1 } x.cur
      (by simpa using hsh.k_eq) hsh.cols_eq
    rw [← hx] at hspec
    obtain ⟨h1, h2, h3, h4⟩ := hspec
    have hcols : x'.m.cols = d.map toCol ++ [colAdds x.cur (ordOuts none outs)] := by rw [h1]
    have hsh' : Shape d x' := shape_next d hsh _ (by rw [h1]) hcols (by rw [h2]; exact incOuts_prefix _ _)
      (Or.inl (by rw [h1])) (Or.inr ⟨h3, lt_of_getElem? he⟩)
    have hcur : x'.cur = colAdds x.cur (ordOuts none outs) := cur_eq d hsh'.k_eq hcols
    refine ⟨hsh', ⟨?_, ?_, ?_, ?_⟩, ?_⟩
    · rw [hcur]
      exact sound_adds pred d f seed hso _ (der_ordOuts pred d f seed hde hsc none)
    · rw [h2]
      exact der_incOuts pred d f seed hso hde hsc
    · intro t' j' hf'
      rw [h1] at hf'
      simp only [hf] at hf'
      cases hf'
    · intro t' ht'
      rw [h1] at ht'
      simp only [hp] at ht'
      cases ht'
    · intro hcut
      rw [h4] at hcut
      have hpr := hinv.prog hcut
      rw [hcur, h2, h3]
      have hm1 : x'.m.idx = x.m.idx := by rw [h1]
      have hm2 : x'.m.frame = x.m.frame := by rw [h1]
      have hm3 : x'.m.pending = x.m.pending := by rw [h1]
      rw [hm1, hm2, hm3]
      have hw' : ColWf (colAdds x.cur (ordOuts none outs)) := colAdds_wf _ hsh.wf
      have hg := progC_grow pred pd d f hsh.wf hw' (colAdds_prefix _ _) (incOuts_prefix outs x.incs)
        hsh.idx_le hsh.iidx_le hpr
      obtain ⟨li, hli⟩ := incOuts_prefix outs x.incs
      exact progC_inc pred pd d f hg (getElem?_prefix_some hli he) (hasE_outs _ _ _ outs)
  | skip s hf hp hs hfin hsym hm hr =>
    obtain ⟨hr1, hr2, hr3⟩ := hr
    have hcols : x'.m.cols = d.map toCol ++ [colAdds x.cur []] := by
      rw [hm]; exact hsh.cols_eq
    have hsh' : Shape d x' := shape_next d hsh [] (by rw [hm]) hcols ⟨[], by rw [hr1]; simp⟩
      (Or.inr ⟨by rw [hm], lt_of_getElem? hs⟩) (Or.inl hr2)
    have hcur : x'.cur = x.cur := cur_eq d hsh'.k_eq hcols
    refine ⟨hsh', ⟨by rw [hcur]; exact hso.st, by rw [hr1]; exact hso.inc, ?_, ?_⟩, ?_⟩
    · intro t' j' hf'
      rw [hm] at hf'
      simp only [hf] at hf'
      cases hf'
    · intro t' ht'
      rw [hm] at ht'
      simp only [hp] at ht'
      cases ht'
    · intro hcut
      rw [hr3] at hcut
      have hpr := hinv.prog hcut
      rw [hf, hp] at hpr
      rw [hcur, hr1, hr2]
      have hm1 : x'.m.idx = x.m.idx + 1 := by rw [hm]
      have hm2 : x'.m.frame = none := by rw [hm]; exact hf
      have hm3 : x'.m.pending = [] := by rw [hm]; exact hp
      rw [hm1, hm2, hm3]
      exact progC_skip pred pd d f hpr hs hfin hsym

end inv

end IncrE
end FV
