/-
C13 / the engine of the real closure satisfies the laws the chunking theorems need (`Engine.LawfulOn`), on the
passes that come to their end without the covering cut firing and without a `*` / `+` right-recursion state in
the closed column.
-/
import Proofs.IncrEarleyClose
namespace FV
namespace IncrE
open Earley Incr

section laws
variable (pred : Nat → NT → List (List ESym)) (fuel : Nat)

/-- the passes the laws are proved for -/
def earleyOk (d : List (Incr.Col KI)) (f : Entry KI → List (Entry KI)) (s : Incr.Col KI) : Prop :=
  (closeRun pred true fuel d f s).ok = true

/-! ### the pass only asks the scanner about states it holds -/

theorem cstep_congr {c : Cfg} {f f' : Entry KI → List (Entry KI)} {x : CM}
    (h : ∀ e ∈ colOut x.cur x.incs, f e = f' e) : cstep c f' x = cstep c f x := by
  unfold cstep
  simp only
  cases hfr : x.m.frame with
  | some tj => rfl
  | none =>
    cases hp : x.m.pending with
    | cons t rest => rfl
    | nil =>
      simp only
      cases hs : (colAt x.m.cols x.m.k).states[x.m.idx]? with
      | none =>
        simp only
        cases he : x.incs[x.iidx]? with
        | none => rfl
        | some e =>
          simp only
          rw [h e (mem_colOut.2 (Or.inr (List.mem_of_getElem? he)))]
      | some s =>
        simp only
        have : f (Entry.fresh (KI.ofSt s)) = f' (Entry.fresh (KI.ofSt s)) :=
          h _ (mem_colOut.2 (Or.inl ⟨s, List.mem_of_getElem? hs, rfl⟩))
        rw [this]

theorem colOut_mono {cur cur' : Earley.Col} {incs incs' : List (Entry KI)}
    (hc : ∃ l, cur'.states = cur.states ++ l) (hi : ∃ li, incs' = incs ++ li) {e : Entry KI}
    (h : e ∈ colOut cur incs) : e ∈ colOut cur' incs' := by
  obtain ⟨l, hl⟩ := hc
  obtain ⟨li, hli⟩ := hi
  rw [mem_colOut] at h ⊢
  rcases h with ⟨s, hs, rfl⟩ | h
  · exact Or.inl ⟨s, by rw [hl]; exact List.mem_append_left _ hs, rfl⟩
  · exact Or.inr (by rw [hli]; exact List.mem_append_left _ h)

theorem crun_congr (d : List (Incr.Col KI)) {pd : Bool} {f f' : Entry KI → List (Entry KI)} :
    ∀ (n : Nat) (x : CM), Shape d x →
      (∀ e ∈ colOut (crun (cfgAt pred pd d.length) f n x).1.cur (crun (cfgAt pred pd d.length) f n x).1.incs,
        f e = f' e) →
      crun (cfgAt pred pd d.length) f' n x = crun (cfgAt pred pd d.length) f n x
  | 0, x, _, h => by
    simp only [crun] at h ⊢
    rw [cstep_congr h]
  | n + 1, x, hsh, h => by
    have hx : ∀ e ∈ colOut x.cur x.incs, f e = f' e := by
      intro e he
      obtain ⟨_, g2, g3, _⟩ := crun_inv pred d f (pd := pd) (n + 1) x hsh
      exact h e (colOut_mono g2 g3 he)
    simp only [crun] at h ⊢
    rw [cstep_congr hx]
    cases hc : cstep (cfgAt pred pd d.length) f x with
    | none => rfl
    | some x' =>
      simp only [hc] at h ⊢
      exact crun_congr d n x' (cstep_grow pred d f hsh (cstep_cases pred pd f hsh.k_eq hc)).1 h

theorem closeRun_congr (d : List (Incr.Col KI)) {f f' : Entry KI → List (Entry KI)} (s : Incr.Col KI)
    (hok : earleyOk pred fuel d f s) (h : ∀ e ∈ (closeRun pred true fuel d f s).col, f e = f' e) :
    closeRun pred true fuel d f' s = closeRun pred true fuel d f s := by
  obtain ⟨hcol, _, _, _⟩ := closeRun_ok pred d f s hok
  rw [hcol] at h
  have := crun_congr pred d (pd := true) (f := f) (f' := f') fuel (cinit .acyclic d s) (shape_init d s) h
  unfold closeRun
  simp only [cfgAt_policy]
  rw [this]

/-! ### well-formedness of the parked states -/

theorem crun_incs_wf (eng : Engine KI) (d : List (Incr.Col KI)) {pd : Bool} {f : Entry KI → List (Entry KI)}
    (hf : ∀ e, e.WF eng → ∀ x ∈ f e, x.WF eng) :
    ∀ (n : Nat) (x : CM), Shape d x → (∀ e ∈ x.incs, e.WF eng) →
      ∀ e ∈ (crun (cfgAt pred pd d.length) f n x).1.incs, e.WF eng
  | 0, x, _, h => by simp only [crun]; exact h
  | n + 1, x, hsh, h => by
    simp only [crun]
    cases hc : cstep (cfgAt pred pd d.length) f x with
    | none => exact h
    | some x' =>
      simp only []
      have hcs := cstep_cases pred pd f hsh.k_eq hc
      apply crun_incs_wf eng d hf n x' (cstep_grow pred d f hsh hcs).1
      cases hcs with
      | frameAdv t s j hf' hs hm hr => rw [hr.1]; exact h
      | frameEnd t j hf' hs hm hr => rw [hr.1]; exact h
      | pend t rest hf' hp hm hr => rw [hr.1]; exact h
      | fin s hf' hp hs hfin hm hr => rw [hr.1]; exact h
      | pred s X a r hf' hp hs hfin hsym hm hr => rw [hr.1]; exact h
      | skip s hf' hp hs hfin hsym hm hr => rw [hr.1]; exact h
      | scan s hf' hp hs hw hx =>
        have hspec := addOuts_spec (d.map toCol) s.cover (f (Entry.fresh (KI.ofSt s)))
          { x with m := { x.m with idx := x.m.idx + 1 } } x.cur (by simpa using hsh.k_eq) hsh.cols_eq
        rw [← hx] at hspec
        rw [hspec.2.1]
        intro e he
        rcases incOuts_mem _ _ e he with h1 | ⟨h1, _⟩
        · exact h e h1
        · exact hf _ (fresh_wf eng _) e h1
      | inc e0 hf' hp hs he hx =>
        have hspec := addOuts_spec (d.map toCol) none (f e0) { x with iidx := x.iidx + 1 } x.cur
          (by simpa using hsh.k_eq) hsh.cols_eq
        rw [← hx] at hspec
        rw [hspec.2.1]
        intro e he'
        rcases incOuts_mem _ _ e he' with h1 | ⟨h1, _⟩
        · exact h e h1
        · exact hf _ (h e0 (List.mem_of_getElem? he)) e h1

theorem closeRun_wf (eng : Engine KI) (pd : Bool) (d : List (Incr.Col KI)) (f : Entry KI → List (Entry KI))
    (s : Incr.Col KI) (hs : ∀ e ∈ s, e.WF eng) (hf : ∀ e, e.WF eng → ∀ x ∈ f e, x.WF eng) :
    ∀ e ∈ (closeRun pred pd fuel d f s).col, e.WF eng := by
  intro e he
  unfold closeRun at he
  simp only at he
  rw [mem_colOut] at he
  rcases he with ⟨st, _, rfl⟩ | he
  · exact fresh_wf eng _
  · apply crun_incs_wf pred eng d hf fuel (cinit .acyclic d s) (shape_init d s) _ e he
    intro e' he'
    rw [cinit_incs] at he'
    rcases incOuts_mem _ _ e' he' with h1 | ⟨h1, _⟩
    · simp at h1
    · exact hs e' h1

/-! ### the laws -/

theorem treesOf_core (c c' : Incr.Col KI) (h : CoreEq c c') : SetEq (treesOf c) (treesOf c') := by
  intro t
  unfold treesOf
  simp only [List.mem_flatMap, List.mem_filter, Bool.and_eq_true, Bool.not_eq_true', decide_eq_true_eq]
  constructor
  · rintro ⟨e, ⟨he, ⟨hi, hf⟩, hl⟩, ht⟩
    have := (h e).mp (mem_core.mpr ⟨he, hi⟩)
    exact ⟨e, ⟨(mem_core.mp this).1, ⟨hi, hf⟩, hl⟩, ht⟩
  · rintro ⟨e, ⟨he, ⟨hi, hf⟩, hl⟩, ht⟩
    have := (h e).mpr (mem_core.mpr ⟨he, hi⟩)
    exact ⟨e, ⟨(mem_core.mp this).1, ⟨hi, hf⟩, hl⟩, ht⟩

/-- the ordinary part of `Der` only depends on the ordinary states of the earlier columns and of the seed, when
    scanning a parked state adds nothing but that state -/
theorem der_core {d d' : List (Incr.Col KI)} {f : Entry KI → List (Entry KI)} {s s' : Incr.Col KI}
    (hd : All2 CoreEq d d') (hs : CoreEq s s')
    (hinc : ∀ e, Der pred d f s e → e.inc = true → ∀ x ∈ f e, x = e) :
    ∀ e, Der pred d f s e → e.inc = false → Der pred d' f s' e := by
  have hlen : d.length = d'.length := forall2_length hd
  intro e he
  induction he with
  | @seed e0 he0 =>
    intro hi
    rw [norm_inc_eq] at hi
    have := (hs e0).mp (mem_core.mpr ⟨he0, hi⟩)
    exact Der.seed (mem_core.mp this).1
  | @scan e0 o he0 hsc ho ih =>
    intro hi
    rw [norm_inc_eq] at hi
    cases hei : e0.inc with
    | true =>
      have := hinc e0 he0 hei o ho
      rw [this, hei] at hi
      cases hi
    | false => exact Der.scan (ih hei) hsc ho
  | @pred e0 X a r rhs he0 hi0 hsym hrhs ih =>
    intro _
    rw [hlen] at hrhs ⊢
    exact Der.pred (ih hi0) hi0 hsym hrhs
  | @compPast t s0 c ht hti hfin hc hs0 hsi hdot ih =>
    intro _
    obtain ⟨c', hc', hcc⟩ : ∃ c', d'[t.item.item.origin]? = some c' ∧ CoreEq c c' := by
      have := all2_get (forall2_coreEq_symm hd) t.item.item.origin c hc
      obtain ⟨c', h1, h2⟩ := this
      exact ⟨c', h1, CoreEq.symm h2⟩
    have := (hcc s0).mp (mem_core.mpr ⟨hs0, hsi⟩)
    exact Der.compPast (ih hti) hti hfin hc' (mem_core.mp this).1 hsi hdot
  | @compHere t s0 ht hti hfin ho hs0 hsi hdot iht ihs =>
    intro _
    rw [hlen] at ho
    exact Der.compHere (iht hti) hti hfin ho (ihs hsi) hsi hdot

theorem earleyEngine_lawful : (earleyEngine pred fuel).LawfulOn (earleyOk pred fuel) := by
  refine ⟨?_, ?_, ?_, ?_, ?_, ?_⟩
  · -- ok_eps
    intro d f f' s hok h
    unfold earleyOk
    rw [closeRun_congr pred fuel d s hok h]
    exact hok
  · -- close_eps
    intro d f f' s hok h
    show SetEq (closeRun pred true fuel d f s).col (closeRun pred true fuel d f' s).col
    rw [closeRun_congr pred fuel d s hok h]
    exact SetEq.refl _
  · -- close_inc
    intro d f s hok h e hi
    show e ∈ (closeRun pred true fuel d f s).col ↔ e ∈ s
    rw [closure_spec pred d f s hok]
    constructor
    · intro hd
      cases hd with
      | @seed e0 he0 =>
        rw [norm_inc_eq] at hi
        rw [norm_inc hi]; exact he0
      | @scan e0 o he0 hsc ho =>
        rw [norm_inc_eq] at hi
        have := h e0 ((closure_spec pred d f s hok e0).mpr he0) o ho
        rw [this] at hi; cases hi
      | pred => cases hi
      | compPast => cases hi
      | compHere => cases hi
    · intro he
      have := Der.seed (pred := pred) (d := d) (f := f) he
      rw [norm_inc hi] at this
      exact this
  · -- close_core
    intro d d' f s s' hok hok' hd hs h h'
    intro e
    rw [mem_core, mem_core]
    show (e ∈ (closeRun pred true fuel d f s).col ∧ _) ↔ (e ∈ (closeRun pred true fuel d' f s').col ∧ _)
    rw [closure_spec pred d f s hok, closure_spec pred d' f s' hok']
    constructor
    · rintro ⟨h1, h2⟩
      refine ⟨der_core pred hd hs ?_ e h1 h2, h2⟩
      intro e0 he0
      exact h e0 ((closure_spec pred d f s hok e0).mpr he0)
    · rintro ⟨h1, h2⟩
      refine ⟨der_core pred (forall2_coreEq_symm hd) hs.symm ?_ e h1 h2, h2⟩
      intro e0 he0
      exact h' e0 ((closure_spec pred d' f s' hok' e0).mpr he0)
  · -- close_wf
    intro d f s hs hf
    exact closeRun_wf pred fuel (earleyEngine pred fuel) true d f s hs hf
  · -- trees_core
    exact treesOf_core

/-! ### `can_continue` -/

/-- the completion-only passes (`can_continue`) the law `close_stuck` is proved for: they come to their end
    and the covering cut does not fire -/
def earleyOkC (d : List (Incr.Col KI)) (s : Incr.Col KI) : Prop :=
  (closeRun (fun _ _ => []) false fuel d (fun _ => []) s).ok = true

theorem wantOf_finished {i : KI} (h : i.item.finished = true) : wantOf i = none := by
  unfold wantOf
  rw [finished_sym? h]

/-- when the completion-only pass ends with finished ordinary states only, everything the full pass computes is
    already in it: nothing is predicted, nothing is scanned -/
theorem der_sub_completeOnly (d : List (Incr.Col KI)) (f : Entry KI → List (Entry KI)) (s : Incr.Col KI)
    (hokc : earleyOkC fuel d s)
    (hfin : ∀ e ∈ (closeRun (fun _ _ => []) false fuel d (fun _ => []) s).col,
      e.inc = false ∧ e.item.item.finished = true) :
    ∀ e, Der pred d f s e → e ∈ (closeRun (fun _ _ => []) false fuel d (fun _ => []) s).col := by
  let P : Nat → NT → List (List ESym) := fun _ _ => []
  let f0 : Entry KI → List (Entry KI) := fun _ => []
  let xf := finalCM P d f0 s false fuel
  have hcol : (closeRun P false fuel d f0 s).col = colOut xf.cur xf.incs := by
    have hsh := finalCM_shape P d f0 s false fuel
    unfold closeRun
    simp only [Bool.false_eq_true, if_false, cfgAt_policy]
    show colOut (colAt xf.m.cols d.length) xf.incs = colOut xf.cur xf.incs
    unfold CM.cur
    rw [hsh.k_eq]
  unfold earleyOkC CloseRes.ok at hokc
  simp only [Bool.and_eq_true, Bool.not_eq_true'] at hokc
  obtain ⟨⟨hhalt, hcut⟩, _⟩ := hokc
  have hhalt' : cstep (cfgAt P false d.length) f0 xf = none :=
    (crun_inv P d f0 (pd := false) fuel _ (shape_init d s)).2.2.2.2 hhalt
  have hinv : Inv P false d f0 s xf := crun_full_inv P d f0 s false fuel _ (inv_init P d f0 s false)
  obtain ⟨hfr, hpe, hst, _⟩ := cstep_none P d f0 hinv.shape.k_eq hhalt'
  have hprog := hinv.prog hcut
  rw [hfr, hpe] at hprog
  have hseed : SeedIn s xf := by
    obtain ⟨_, g2, g3, _⟩ := crun_inv P d f0 (pd := false) fuel _ (shape_init d s)
    exact seedIn_mono s g2 g3 (seedIn_init d s)
  have hidx : ∀ {i : Nat} {st : St}, xf.cur.states[i]? = some st → i < xf.m.idx := by
    intro i st h
    have h1 := lt_of_getElem? h
    rw [List.getElem?_eq_none_iff] at hst
    omega
  rw [hcol] at hfin ⊢
  intro e he
  induction he with
  | seed he0 => exact hasE_colOut (hseed _ he0)
  | @scan e0 o _ hsc _ ih =>
    obtain ⟨h1, h2⟩ := hfin e0 ih
    rcases hsc with h | h
    · rw [h1] at h; cases h
    · unfold KI.wantsT at h
      rw [h2] at h
      simp at h
  | @pred e0 X a r rhs _ _ hsym _ ih =>
    obtain ⟨_, h2⟩ := hfin e0 ih
    rw [finished_sym? h2] at hsym
    cases hsym
  | @compPast t s0 c _ hti hf hc hs0 hsi hd ih =>
    rcases mem_colOut.1 ih with ⟨t', ht', rfl⟩ | h
    · obtain ⟨i, hi', his⟩ := List.mem_iff_getElem.1 ht'
      have hget : xf.cur.states[i]? = some t' := by rw [List.getElem?_eq_getElem hi', his]
      have hmem := findDot_toCol_mem hs0 hsi hd
      rcases hprog.past i t' c (hidx hget) hget hf hc _ hmem with ⟨s', hs', hk⟩ | ⟨j, q, hh, _, _⟩
      · rw [mem_colOut]
        exact Or.inl ⟨s', hs', by rw [hk]; rfl⟩
      · cases hh
    · rw [(hinv.sound.inc t h).1] at hti; cases hti
  | @compHere t s0 _ _ _ _ _ _ hd _ ihs =>
    obtain ⟨_, h2⟩ := hfin s0 ihs
    rw [finished_dotNT? h2] at hd
    cases hd

theorem closeRun_nil (pd : Bool) (d : List (Incr.Col KI)) (f : Entry KI → List (Entry KI)) :
    (closeRun pred pd fuel d f []).col = [] := by
  have hstep : cstep (cfgAt pred pd d.length) f (cinit .acyclic d []) = none := by
    unfold cstep cinit
    simp [colAt, CM.cur]
  have hrun : (crun (cfgAt pred pd d.length) f fuel (cinit .acyclic d [])).1 = cinit .acyclic d [] := by
    cases fuel with
    | zero => rfl
    | succ n => simp only [crun, hstep]
  unfold closeRun
  simp only [cfgAt_policy]
  rw [hrun]
  have hcur : colAt (cinit .acyclic d []).m.cols d.length = {} := by
    simp [cinit, colAt]
  have hbeg : beginnersOf (colAt (cinit .acyclic d []).m.cols d.length) = [] := by
    rw [hcur]; rfl
  cases pd with
  | true =>
    simp only [if_true]
    rw [shortcut_nil hbeg, hcur]
    rfl
  | false =>
    simp only [Bool.false_eq_true, if_false]
    rw [hcur]
    rfl

theorem earleyEngine_lawfulCC :
    (earleyEngine pred fuel).LawfulCCOn (earleyOk pred fuel) (earleyOkC fuel) := by
  refine ⟨?_, ?_, ?_⟩
  · intro d f s hok hokc _ hfin e he
    have hd : Der pred d f s e := (closure_spec pred d f s hok e).mp he
    have hin := der_sub_completeOnly pred fuel d f s hokc hfin e hd
    exact wantOf_finished (hfin e hin).2
  · intro d f
    exact closeRun_nil pred fuel true d f
  · rfl

/-! ### the Boolean run conditions of `Model/IncrEarley.lean` are the conditions of the general theorems -/

section bridge
variable (R : ROracle) (md : Mode)

theorem feedFromOkB_iff (word : Units) : ∀ (n i : Nat) (s : PState KI),
    feedFromOkB pred fuel R md word i n s = true ↔
      feedFromOK (earleyEngine pred fuel) R md (earleyOk pred fuel) word i n s
  | 0, _, _ => by simp [feedFromOkB, feedFromOK]
  | n + 1, i, s => by
    simp only [feedFromOkB, feedFromOK, Bool.and_eq_true]
    rw [feedFromOkB_iff word n (i + 1)]
    exact Iff.rfl

theorem feedOkB_iff (s : PState KI) (word : Units) :
    feedOkB pred fuel R md s word = true ↔ feedOK (earleyEngine pred fuel) R md (earleyOk pred fuel) s word := by
  unfold feedOkB feedOK
  rw [Bool.and_eq_true, feedFromOkB_iff]
  exact Iff.rfl

theorem chunkOkB_iff (s : PState KI) : ∀ rs : List Units,
    chunkOkB pred fuel R md s rs = true ↔ chunkOK (earleyEngine pred fuel) R md (earleyOk pred fuel) s rs
  | [] => by simp [chunkOkB, chunkOK]
  | p :: rs => by
    simp only [chunkOkB, chunkOK, Bool.and_eq_true]
    rw [chunkOkB_iff s rs, feedOkB_iff, feedOkB_iff, feedOkB_iff, feedOkB_iff]
    constructor
    · rintro ⟨⟨⟨⟨h1, h2⟩, h3⟩, h4⟩, h5⟩; exact ⟨h1, h2, h3, h4, h5⟩
    · rintro ⟨h1, h2, h3, h4, h5⟩; exact ⟨⟨⟨⟨h1, h2⟩, h3⟩, h4⟩, h5⟩

theorem ccOkB_iff (s : PState KI) (v : Units) :
    ccOkB pred fuel R md s v = true ↔
      (procOK (earleyEngine pred fuel) R md (earleyOk pred fuel) v 0 s ∧
        earleyOkC fuel s.done (seedAt s.pend s.done.length)) := by
  unfold ccOkB
  rw [Bool.and_eq_true]
  exact Iff.rfl

theorem startState_ready (start : String) : (startState start).Ready (earleyEngine pred fuel) :=
  start_ready _ _

end bridge

end laws

end IncrE
end FV
