/-
C13 / the engine of the real closure: the progress invariant of a column pass — everything the worklist has
visited has its consequences in the table, or they are still owed by the running `complete` loop / the pending
completions of `predict`.
-/
import Proofs.IncrEarleySpec
namespace FV
namespace IncrE
open Earley Incr

section prog
variable (pred : Nat → NT → List (List ESym)) (pd : Bool) (d : List (Incr.Col KI)) (f : Entry KI → List (Entry KI))

/-- the progress invariant over the components of the machine: current column, parked states, the two worklist
    indices, the `complete` frame, the pending completions.  `here` (completions inside the column) is only kept
    by the pass with the completing `predict` (`pd = true`); `can_continue`'s pass (`pd = false`) keeps the rest -/
structure ProgC (cur : Earley.Col) (incs : List (Entry KI)) (idx iidx : Nat) (frame : Option (St × Nat))
    (pending : List St) : Prop where
  scan : ∀ i s, i < idx → cur.states[i]? = some s → wantsTerminal s = true →
      ∀ o ∈ f (Entry.fresh (KI.ofSt s)), HasE cur incs o
  inc : ∀ i e, i < iidx → incs[i]? = some e → ∀ o ∈ f e, HasE cur incs o
  pred : ∀ i s X a r, i < idx → cur.states[i]? = some s → s.item.sym? = some (.n X a r) →
      ∀ rhs ∈ pred d.length X, Has cur ⟨{ lhs := X, rhs := rhs, dot := 0, origin := d.length }, []⟩
  past : ∀ i t c, i < idx → cur.states[i]? = some t → t.item.finished = true → d[t.item.origin]? = some c →
      ∀ s ∈ (toCol c).findDot t.item.lhs, Has cur (advKey (KI.ofSt t) (KI.ofSt s)) ∨
        ∃ j q, frame = some (t, j) ∧ j ≤ q ∧ ((toCol c).findDot t.item.lhs)[q]? = some s
  here : pd = true → ∀ i i' t s, i < idx → i' < idx → cur.states[i]? = some t → cur.states[i']? = some s →
      t.item.finished = true → t.item.origin = d.length → s.item.dotNT? = some t.item.lhs →
      Has cur (advKey (KI.ofSt t) (KI.ofSt s)) ∨
        (∃ j q, frame = some (t, j) ∧ j ≤ q ∧ (cur.findDot t.item.lhs)[q]? = some s) ∨ t ∈ pending

theorem hasE_mono {cur cur' : Earley.Col} {incs incs' : List (Entry KI)} {o : Entry KI}
    (hc : ∃ l, cur'.states = cur.states ++ l) (hi : ∃ l, incs' = incs ++ l) (h : HasE cur incs o) :
    HasE cur' incs' o := by
  unfold HasE at h ⊢
  split
  · rename_i ho
    rw [if_pos ho] at h
    obtain ⟨l, hl⟩ := hi
    rw [hl]; exact List.mem_append_left _ h
  · rename_i ho
    rw [if_neg ho] at h
    exact has_mono hc h

theorem getElem?_prefix {α : Type} {a b l : List α} (h : b = a ++ l) {i : Nat} (hi : i < a.length) :
    b[i]? = a[i]? := by
  rw [h, List.getElem?_append_left hi]

theorem getElem?_prefix_some {α : Type} {a b l : List α} (h : b = a ++ l) {i : Nat} {x : α}
    (hx : a[i]? = some x) : b[i]? = some x := by
  have hi : i < a.length := by
    rcases Nat.lt_or_ge i a.length with h1 | h1
    · exact h1
    · rw [List.getElem?_eq_none h1] at hx; cases hx
  rw [getElem?_prefix h hi, hx]

theorem findDot_prefix {cur cur' : Earley.Col} (hw : ColWf cur) (hw' : ColWf cur') {l : List St}
    (h : cur'.states = cur.states ++ l) (X : NT) : ∃ l', cur'.findDot X = cur.findDot X ++ l' := by
  rw [findDot_eq hw, findDot_eq hw', h, List.filter_append]
  exact ⟨_, rfl⟩

/-- the column and the parked states grow, nothing else changes -/
theorem progC_grow {cur cur' : Earley.Col} {incs incs' : List (Entry KI)} {idx iidx : Nat}
    {frame : Option (St × Nat)} {pending : List St} (hw : ColWf cur) (hw' : ColWf cur')
    (hc : ∃ l, cur'.states = cur.states ++ l) (hi : ∃ l, incs' = incs ++ l)
    (hidx : idx ≤ cur.states.length) (hiidx : iidx ≤ incs.length)
    (h : ProgC pred pd d f cur incs idx iidx frame pending) : ProgC pred pd d f cur' incs' idx iidx frame pending := by
  obtain ⟨l, hl⟩ := hc
  obtain ⟨li, hli⟩ := hi
  have hget : ∀ i, i < idx → cur'.states[i]? = cur.states[i]? := fun i h1 =>
    getElem?_prefix hl (by omega)
  refine ⟨?_, ?_, ?_, ?_, ?_⟩
  · intro i s h1 h2 h3 o ho
    rw [hget i h1] at h2
    exact hasE_mono ⟨l, hl⟩ ⟨li, hli⟩ (h.scan i s h1 h2 h3 o ho)
  · intro i e h1 h2 o ho
    rw [getElem?_prefix hli (by omega)] at h2
    exact hasE_mono ⟨l, hl⟩ ⟨li, hli⟩ (h.inc i e h1 h2 o ho)
  · intro i s X a r h1 h2 h3 rhs hr
    rw [hget i h1] at h2
    exact has_mono ⟨l, hl⟩ (h.pred i s X a r h1 h2 h3 rhs hr)
  · intro i t c h1 h2 h3 h4 s hs
    rw [hget i h1] at h2
    rcases h.past i t c h1 h2 h3 h4 s hs with h5 | h5
    · exact Or.inl (has_mono ⟨l, hl⟩ h5)
    · exact Or.inr h5
  · intro hpd i i' t s h1 h1' h2 h2' h3 h4 h5
    rw [hget i h1] at h2
    rw [hget i' h1'] at h2'
    rcases h.here hpd i i' t s h1 h1' h2 h2' h3 h4 h5 with h6 | ⟨j, q, h6, h7, h8⟩ | h6
    · exact Or.inl (has_mono ⟨l, hl⟩ h6)
    · obtain ⟨l', hl'⟩ := findDot_prefix hw hw' hl t.item.lhs
      exact Or.inr (Or.inl ⟨j, q, h6, h7, getElem?_prefix_some hl' h8⟩)
    · exact Or.inr (Or.inr h6)

/-- one iteration of the `complete` loop: the pair at position `j` is settled -/
theorem progC_frameAdv {cur : Earley.Col} {incs : List (Entry KI)} {idx iidx : Nat} {pending : List St}
    {t s : St} {j : Nat}
    (hpast : ∀ c, d[t.item.origin]? = some c → ((toCol c).findDot t.item.lhs)[j]? = some s)
    (hhere : t.item.origin = d.length → (cur.findDot t.item.lhs)[j]? = some s)
    (hhas : Has cur (advKey (KI.ofSt t) (KI.ofSt s)))
    (h : ProgC pred pd d f cur incs idx iidx (some (t, j)) pending) :
    ProgC pred pd d f cur incs idx iidx (some (t, j + 1)) pending := by
  refine ⟨h.scan, h.inc, h.pred, ?_, ?_⟩
  · intro i t' c h1 h2 h3 h4 s' hs'
    rcases h.past i t' c h1 h2 h3 h4 s' hs' with h5 | ⟨j', q, h6, h7, h8⟩
    · exact Or.inl h5
    · simp only [Option.some.injEq, Prod.mk.injEq] at h6
      obtain ⟨h6a, h6b⟩ := h6
      subst h6a
      rw [← h6b] at h7
      rcases Nat.lt_or_ge j q with hq | hq
      · exact Or.inr ⟨j + 1, q, rfl, hq, h8⟩
      · have : q = j := by omega
        rw [this, hpast c h4] at h8
        cases h8
        exact Or.inl hhas
  · intro hpd i i' t' s' h1 h1' h2 h2' h3 h4 h5
    rcases h.here hpd i i' t' s' h1 h1' h2 h2' h3 h4 h5 with h6 | ⟨j', q, h6, h7, h8⟩ | h6
    · exact Or.inl h6
    · simp only [Option.some.injEq, Prod.mk.injEq] at h6
      obtain ⟨h6a, h6b⟩ := h6
      subst h6a
      rw [← h6b] at h7
      rcases Nat.lt_or_ge j q with hq | hq
      · exact Or.inr (Or.inl ⟨j + 1, q, rfl, hq, h8⟩)
      · have : q = j := by omega
        rw [this, hhere h4] at h8
        cases h8
        exact Or.inl hhas
    · exact Or.inr (Or.inr h6)

/-- the `complete` loop has reached the end of its list -/
theorem progC_frameEnd {cur : Earley.Col} {incs : List (Entry KI)} {idx iidx : Nat} {pending : List St}
    {t : St} {j : Nat}
    (hpast : ∀ c, d[t.item.origin]? = some c → ((toCol c).findDot t.item.lhs)[j]? = none)
    (hhere : t.item.origin = d.length → (cur.findDot t.item.lhs)[j]? = none)
    (h : ProgC pred pd d f cur incs idx iidx (some (t, j)) pending) :
    ProgC pred pd d f cur incs idx iidx none pending := by
  have hnone : ∀ {l : List St} {q : Nat} {s : St}, l[j]? = none → j ≤ q → l[q]? = some s → False := by
    intro l q s h1 h2 h3
    rw [List.getElem?_eq_none_iff] at h1
    have : l[q]? = none := List.getElem?_eq_none (by omega)
    rw [this] at h3; cases h3
  refine ⟨h.scan, h.inc, h.pred, ?_, ?_⟩
  · intro i t' c h1 h2 h3 h4 s' hs'
    rcases h.past i t' c h1 h2 h3 h4 s' hs' with h5 | ⟨j', q, h6, h7, h8⟩
    · exact Or.inl h5
    · simp only [Option.some.injEq, Prod.mk.injEq] at h6
      obtain ⟨h6a, h6b⟩ := h6
      subst h6a
      rw [← h6b] at h7
      exact (hnone (hpast c h4) h7 h8).elim
  · intro hpd i i' t' s' h1 h1' h2 h2' h3 h4 h5
    rcases h.here hpd i i' t' s' h1 h1' h2 h2' h3 h4 h5 with h6 | ⟨j', q, h6, h7, h8⟩ | h6
    · exact Or.inl h6
    · simp only [Option.some.injEq, Prod.mk.injEq] at h6
      obtain ⟨h6a, h6b⟩ := h6
      subst h6a
      rw [← h6b] at h7
      exact (hnone (hhere h4) h7 h8).elim
    · exact Or.inr (Or.inr h6)

/-- the next pending completion of `predict` starts (the cut does not fire) -/
theorem progC_pend {cur : Earley.Col} {incs : List (Entry KI)} {idx iidx : Nat} {t : St} {rest : List St}
    (hw : ColWf cur) (h : ProgC pred pd d f cur incs idx iidx none (t :: rest)) :
    ProgC pred pd d f cur incs idx iidx (some (t, 0)) rest := by
  refine ⟨h.scan, h.inc, h.pred, ?_, ?_⟩
  · intro i t' c h1 h2 h3 h4 s' hs'
    rcases h.past i t' c h1 h2 h3 h4 s' hs' with h5 | ⟨j', q, h6, _, _⟩
    · exact Or.inl h5
    · cases h6
  · intro hpd i i' t' s' h1 h1' h2 h2' h3 h4 h5
    rcases h.here hpd i i' t' s' h1 h1' h2 h2' h3 h4 h5 with h6 | ⟨j', q, h6, _, _⟩ | h6
    · exact Or.inl h6
    · cases h6
    · rcases List.mem_cons.1 h6 with rfl | h6
      · have hmem : s' ∈ cur.findDot t'.item.lhs := by
          rw [mem_findDot_iff hw]
          exact ⟨List.mem_of_getElem? h2', h5⟩
        obtain ⟨q, hq, hqs⟩ := List.mem_iff_getElem.1 hmem
        exact Or.inr (Or.inl ⟨0, q, rfl, Nat.zero_le _, by rw [List.getElem?_eq_getElem hq, hqs]⟩)
      · exact Or.inr (Or.inr h6)

theorem finished_sym? {it : Item} (h : it.finished = true) : it.sym? = none := by
  unfold Item.finished at h
  unfold Item.sym?
  simp only [decide_eq_true_eq] at h
  exact List.getElem?_eq_none h

theorem finished_dotNT? {it : Item} (h : it.finished = true) : it.dotNT? = none := by
  unfold Item.dotNT?
  rw [finished_sym? h]

theorem dotNT?_sym {it : Item} {X : NT} (h : it.dotNT? = some X) : ∃ a r, it.sym? = some (.n X a r) := by
  unfold Item.dotNT? at h
  split at h
  · rename_i x a r heq
    simp only [Option.some.injEq] at h
    subst h
    exact ⟨a, r, heq⟩
  · cases h

theorem sym_dotNT? {it : Item} {X : NT} {a r : Option String} (h : it.sym? = some (.n X a r)) :
    it.dotNT? = some X := by
  unfold Item.dotNT?
  rw [h]

theorem wantsTerminal_sym {s : St} (h : wantsTerminal s = true) :
    s.item.finished = false ∧ ∃ tm, s.item.sym? = some (.t tm) := (wantsTerminal_iff s).mp h

/-- the worklist visits the state `u` at position `idx` (no `complete` loop is running, nothing is pending): what
    has to be supplied is what is owed for `u` -/
theorem progC_visit {cur : Earley.Col} {incs : List (Entry KI)} {idx iidx : Nat} {fr' : Option (St × Nat)}
    {pe' : List St} {u : St} (h : ProgC pred pd d f cur incs idx iidx none []) (hu : cur.states[idx]? = some u)
    (hscan : wantsTerminal u = true → ∀ o ∈ f (Entry.fresh (KI.ofSt u)), HasE cur incs o)
    (hpred : ∀ X a r, u.item.sym? = some (.n X a r) → ∀ rhs ∈ pred d.length X,
      Has cur ⟨{ lhs := X, rhs := rhs, dot := 0, origin := d.length }, []⟩)
    (hpast : ∀ c, u.item.finished = true → d[u.item.origin]? = some c → ∀ s ∈ (toCol c).findDot u.item.lhs,
      Has cur (advKey (KI.ofSt u) (KI.ofSt s)) ∨
        ∃ j q, fr' = some (u, j) ∧ j ≤ q ∧ ((toCol c).findDot u.item.lhs)[q]? = some s)
    (hhereT : pd = true → u.item.finished = true → u.item.origin = d.length → ∀ i' s, i' < idx + 1 →
      cur.states[i']? = some s →
      s.item.dotNT? = some u.item.lhs → Has cur (advKey (KI.ofSt u) (KI.ofSt s)) ∨
        (∃ j q, fr' = some (u, j) ∧ j ≤ q ∧ (cur.findDot u.item.lhs)[q]? = some s) ∨ u ∈ pe')
    (hhereS : pd = true → ∀ i t, i < idx → cur.states[i]? = some t → t.item.finished = true →
      t.item.origin = d.length →
      u.item.dotNT? = some t.item.lhs → Has cur (advKey (KI.ofSt t) (KI.ofSt u)) ∨
        (∃ j q, fr' = some (t, j) ∧ j ≤ q ∧ (cur.findDot t.item.lhs)[q]? = some u) ∨ t ∈ pe') :
    ProgC pred pd d f cur incs (idx + 1) iidx fr' pe' := by
  have hcase : ∀ i, i < idx + 1 → i < idx ∨ i = idx := fun i hi => by omega
  refine ⟨?_, h.inc, ?_, ?_, ?_⟩
  · intro i s h1 h2 h3 o ho
    rcases hcase i h1 with h1 | rfl
    · exact h.scan i s h1 h2 h3 o ho
    · rw [hu] at h2; cases h2; exact hscan h3 o ho
  · intro i s X a r h1 h2 h3 rhs hr
    rcases hcase i h1 with h1 | rfl
    · exact h.pred i s X a r h1 h2 h3 rhs hr
    · rw [hu] at h2; cases h2; exact hpred X a r h3 rhs hr
  · intro i t c h1 h2 h3 h4 s hs
    rcases hcase i h1 with h1 | rfl
    · rcases h.past i t c h1 h2 h3 h4 s hs with h5 | ⟨j, q, h6, _, _⟩
      · exact Or.inl h5
      · cases h6
    · rw [hu] at h2; cases h2; exact hpast c h3 h4 s hs
  · intro hpd i i' t s h1 h1' h2 h2' h3 h4 h5
    rcases hcase i h1 with h1 | rfl
    · rcases hcase i' h1' with h1' | rfl
      · rcases h.here hpd i i' t s h1 h1' h2 h2' h3 h4 h5 with h6 | ⟨j, q, h6, _, _⟩ | h6
        · exact Or.inl h6
        · cases h6
        · cases h6
      · rw [hu] at h2'; cases h2'
        exact hhereS hpd i t h1 h2 h3 h4 h5
    · rw [hu] at h2; cases h2
      exact hhereT hpd h3 h4 i' s h1' h2' h5

/-- … a finished state: its `complete` loop starts -/
theorem progC_fin {cur : Earley.Col} {incs : List (Entry KI)} {idx iidx : Nat} {t : St} (hw : ColWf cur)
    (h : ProgC pred pd d f cur incs idx iidx none []) (ht : cur.states[idx]? = some t)
    (hfin : t.item.finished = true) : ProgC pred pd d f cur incs (idx + 1) iidx (some (t, 0)) [] := by
  apply progC_visit pred pd d f h ht
  · intro hwt
    rw [(wantsTerminal_sym hwt).1] at hfin; cases hfin
  · intro X a r hs
    rw [finished_sym? hfin] at hs; cases hs
  · intro c _ _ s hs
    obtain ⟨q, hq, hqs⟩ := List.mem_iff_getElem.1 hs
    exact Or.inr ⟨0, q, rfl, Nat.zero_le _, by rw [List.getElem?_eq_getElem hq, hqs]⟩
  · intro _ _ _ i' s _ hs hd
    have hmem : s ∈ cur.findDot t.item.lhs := by
      rw [mem_findDot_iff hw]
      exact ⟨List.mem_of_getElem? hs, hd⟩
    obtain ⟨q, hq, hqs⟩ := List.mem_iff_getElem.1 hmem
    exact Or.inr (Or.inl ⟨0, q, rfl, Nat.zero_le _, by rw [List.getElem?_eq_getElem hq, hqs]⟩)
  · intro _ i t' _ _ _ _ hd
    rw [finished_dotNT? hfin] at hd; cases hd

/-- … a state with a nonterminal after the dot: its alternatives are in the column, the finished empty
    derivations of the nonterminal are pending -/
theorem progC_pred {cur : Earley.Col} {incs : List (Entry KI)} {idx iidx : Nat} {s : St} {X : NT}
    {a r : Option String} {pe' : List St}
    (h : ProgC pred pd d f cur incs idx iidx none []) (hs : cur.states[idx]? = some s)
    (hsym : s.item.sym? = some (.n X a r))
    (halts : ∀ rhs ∈ pred d.length X, Has cur ⟨{ lhs := X, rhs := rhs, dot := 0, origin := d.length }, []⟩)
    (hpe : pd = true → ∀ t ∈ cur.states, t.item.finished = true → t.item.origin = d.length → t.item.lhs = X →
      t ∈ pe') :
    ProgC pred pd d f cur incs (idx + 1) iidx none pe' := by
  have hnf : s.item.finished = true → False := fun hfin => by
    rw [finished_sym? hfin] at hsym; cases hsym
  apply progC_visit pred pd d f h hs
  · intro hwt
    obtain ⟨_, tm, htm⟩ := wantsTerminal_sym hwt
    rw [hsym] at htm; cases htm
  · intro X' a' r' hs' rhs hr
    rw [hsym] at hs'
    cases hs'
    exact halts rhs hr
  · intro c hfin; exact (hnf hfin).elim
  · intro _ hfin; exact (hnf hfin).elim
  · intro hpd i t _ ht hfin ho hd
    rw [sym_dotNT? hsym] at hd
    simp only [Option.some.injEq] at hd
    exact Or.inr (Or.inr (hpe hpd t (List.mem_of_getElem? ht) hfin ho hd.symm))

/-- … a state with a terminal after the dot: what the scanner adds to the column is there -/
theorem progC_scan {cur : Earley.Col} {incs : List (Entry KI)} {idx iidx : Nat} {s : St}
    (h : ProgC pred pd d f cur incs idx iidx none []) (hs : cur.states[idx]? = some s)
    (hw : wantsTerminal s = true) (houts : ∀ o ∈ f (Entry.fresh (KI.ofSt s)), HasE cur incs o) :
    ProgC pred pd d f cur incs (idx + 1) iidx none [] := by
  obtain ⟨hnf, tm, htm⟩ := wantsTerminal_sym hw
  apply progC_visit pred pd d f h hs
  · intro _; exact houts
  · intro X a r hs'
    rw [htm] at hs'; cases hs'
  · intro c hfin; rw [hnf] at hfin; cases hfin
  · intro _ hfin; rw [hnf] at hfin; cases hfin
  · intro _ i t _ _ _ _ hd
    obtain ⟨a, r, hh⟩ := dotNT?_sym hd
    rw [htm] at hh; cases hh

/-- … an unfinished state with nothing after the dot -/
theorem progC_skip {cur : Earley.Col} {incs : List (Entry KI)} {idx iidx : Nat} {s : St}
    (h : ProgC pred pd d f cur incs idx iidx none []) (hs : cur.states[idx]? = some s)
    (hnf : s.item.finished = false) (hsym : s.item.sym? = none) :
    ProgC pred pd d f cur incs (idx + 1) iidx none [] := by
  apply progC_visit pred pd d f h hs
  · intro hwt
    obtain ⟨_, tm, htm⟩ := wantsTerminal_sym hwt
    rw [hsym] at htm; cases htm
  · intro X a r hs'
    rw [hsym] at hs'; cases hs'
  · intro c hfin; rw [hnf] at hfin; cases hfin
  · intro _ hfin; rw [hnf] at hfin; cases hfin
  · intro _ i t _ _ _ _ hd
    obtain ⟨a, r, hh⟩ := dotNT?_sym hd
    rw [hsym] at hh; cases hh

/-- the next parked state is scanned -/
theorem progC_inc {cur : Earley.Col} {incs : List (Entry KI)} {idx iidx : Nat} {fr : Option (St × Nat)}
    {pe : List St} {e : Entry KI}
    (h : ProgC pred pd d f cur incs idx iidx fr pe) (he : incs[iidx]? = some e)
    (houts : ∀ o ∈ f e, HasE cur incs o) : ProgC pred pd d f cur incs idx (iidx + 1) fr pe := by
  refine ⟨h.scan, ?_, h.pred, h.past, h.here⟩
  intro i e' h1 h2 o ho
  rcases (show i < iidx ∨ i = iidx by omega) with h1 | rfl
  · exact h.inc i e' h1 h2 o ho
  · rw [he] at h2; cases h2; exact houts o ho

end prog

end IncrE
end FV
