/-
C13 / the engine of the real closure: the set of states a column pass is SUPPOSED to compute (`Der`, an inductive
closure that only mentions the sets of ordinary states of the earlier columns and of the seed), and the part
"every state of the pass is in that set" (soundness; needs nothing of the pass).
-/
import Proofs.IncrEarleyStep
namespace FV
namespace IncrE
open Earley Incr

/-- an ordinary state as the pass stores it: flags reset (`Entry.fresh`); an incomplete state as it is -/
def norm (e : Entry KI) : Entry KI := if e.inc then e else Entry.fresh e.item

/-- a terminal after the dot -/
def KI.wantsT (i : KI) : Bool :=
  !i.item.finished && (match i.item.sym? with | some (.t _) => true | _ => false)

theorem wantsTerminal_ofSt (s : St) : wantsTerminal s = (KI.ofSt s).wantsT := rfl

/-- **what a pass over column `d.length` computes**: the least set of states that contains the seed and is closed
    under the same-column scanner (on incomplete states and on states with a terminal after the dot), prediction,
    and completion — into the ordinary states of an earlier column, or into states of the set itself -/
inductive Der (pred : Nat → NT → List (List ESym)) (d : List (Incr.Col KI)) (f : Entry KI → List (Entry KI))
    (seed : Incr.Col KI) : Entry KI → Prop
  | seed {e : Entry KI} : e ∈ seed → Der pred d f seed (norm e)
  | scan {e o : Entry KI} : Der pred d f seed e → (e.inc = true ∨ e.item.wantsT = true) → o ∈ f e →
      Der pred d f seed (norm o)
  | pred {e : Entry KI} {X : NT} {a r : Option String} {rhs : List ESym} : Der pred d f seed e → e.inc = false →
      e.item.item.sym? = some (.n X a r) → rhs ∈ pred d.length X →
      Der pred d f seed (Entry.fresh ⟨{ lhs := X, rhs := rhs, dot := 0, origin := d.length }, []⟩)
  | compPast {t s : Entry KI} {c : Incr.Col KI} : Der pred d f seed t → t.inc = false →
      t.item.item.finished = true → d[t.item.item.origin]? = some c → s ∈ c → s.inc = false →
      s.item.item.dotNT? = some t.item.item.lhs → Der pred d f seed (Entry.fresh (advKey t.item s.item))
  | compHere {t s : Entry KI} : Der pred d f seed t → t.inc = false → t.item.item.finished = true →
      t.item.item.origin = d.length → Der pred d f seed s → s.inc = false →
      s.item.item.dotNT? = some t.item.item.lhs → Der pred d f seed (Entry.fresh (advKey t.item s.item))

theorem norm_inc {e : Entry KI} (h : e.inc = true) : norm e = e := by simp [norm, h]
theorem norm_ord {e : Entry KI} (h : e.inc = false) : norm e = Entry.fresh e.item := by simp [norm, h]
theorem norm_inc_eq (e : Entry KI) : (norm e).inc = e.inc := by
  unfold norm; cases h : e.inc <;> simp [h, Entry.fresh]
theorem fresh_inc (i : KI) : (Entry.fresh i).inc = false := rfl
theorem fresh_item (i : KI) : (Entry.fresh i).item = i := rfl

/-! ### the table of a pass -/

section pass
variable (pred : Nat → NT → List (List ESym)) (pd : Bool) (d : List (Incr.Col KI)) (f : Entry KI → List (Entry KI))
  (seed : Incr.Col KI)

/-- the earlier columns, the column being processed last; its `dot_map` is that of `Column.add`; the worklist
    indices are inside the lists -/
structure Shape (x : CM) : Prop where
  k_eq : x.m.k = d.length
  cols_eq : x.m.cols = d.map toCol ++ [x.cur]
  wf : ColWf x.cur
  idx_le : x.m.idx ≤ x.cur.states.length
  iidx_le : x.iidx ≤ x.incs.length

theorem Shape.colAt_lt {x : CM} (h : Shape d x) {o : Nat} {c : Incr.Col KI} (hc : d[o]? = some c) :
    colAt x.m.cols o = toCol c := by
  have ho : o < d.length := by
    rcases Nat.lt_or_ge o d.length with h1 | h1
    · exact h1
    · rw [List.getElem?_eq_none h1] at hc; cases hc
  rw [h.cols_eq, colAt_snoc_lt _ _ _ (by simpa using ho)]
  unfold colAt
  simp [List.getD_eq_getElem?_getD, hc]

theorem Shape.colAt_gt {x : CM} (h : Shape d x) {o : Nat} (ho : d.length < o) : colAt x.m.cols o = {} := by
  apply colAt_out
  rw [h.cols_eq]
  simp only [List.length_append, List.length_map, List.length_singleton]
  omega

/-- a state of an earlier column that `find_dot` returns -/
theorem mem_findDot_toCol {c : Incr.Col KI} {X : NT} {s : St} (h : s ∈ (toCol c).findDot X) :
    ∃ e ∈ c, e.inc = false ∧ s = e.item.toSt none ∧ e.item.item.dotNT? = some X := by
  rw [mem_findDot_iff (colWf_toCol c)] at h
  obtain ⟨h1, h2⟩ := h
  simp only [toCol, List.mem_map, List.mem_filter, Bool.not_eq_true'] at h1
  obtain ⟨e, ⟨he, hi⟩, rfl⟩ := h1
  exact ⟨e, he, hi, rfl, h2⟩

theorem findDot_toCol_mem {c : Incr.Col KI} {X : NT} {e : Entry KI} (he : e ∈ c) (hi : e.inc = false)
    (hd : e.item.item.dotNT? = some X) : e.item.toSt none ∈ (toCol c).findDot X := by
  rw [mem_findDot_iff (colWf_toCol c)]
  refine ⟨?_, hd⟩
  simp only [toCol, List.mem_map, List.mem_filter, Bool.not_eq_true']
  exact ⟨e, ⟨he, hi⟩, rfl⟩

/-! ### what `addOuts` does -/

/-- `o` is in the table: parked if it is incomplete, in the column (by key) otherwise -/
def HasE (cur : Earley.Col) (incs : List (Entry KI)) (o : Entry KI) : Prop :=
  if o.inc then o ∈ incs else Has cur o.item

theorem addInc_mem (incs : List (Entry KI)) (e : Entry KI) : e ∈ addInc incs e := by
  unfold addInc
  split
  · rename_i h
    rw [List.any_eq_true] at h
    obtain ⟨x, hx, he⟩ := h
    rw [entryBeq_iff] at he
    rw [← he]; exact hx
  · simp

theorem addInc_prefix (incs : List (Entry KI)) (e : Entry KI) : ∃ l, addInc incs e = incs ++ l := by
  unfold addInc
  split
  · exact ⟨[], by simp⟩
  · exact ⟨[e], rfl⟩

theorem mem_addInc {incs : List (Entry KI)} {e x : Entry KI} (h : x ∈ addInc incs e) : x ∈ incs ∨ x = e := by
  unfold addInc at h
  split at h
  · exact Or.inl h
  · simpa using h

/-! ### admissions into the current column -/

/-- `Column.add` of a list of states -/
def colAdds (cur : Earley.Col) (l : List St) : Earley.Col := l.foldl (Col.add .acyclic) cur

theorem colAdds_nil (cur : Earley.Col) : colAdds cur [] = cur := rfl
theorem colAdds_cons (cur : Earley.Col) (s : St) (l : List St) :
    colAdds cur (s :: l) = colAdds (Col.add .acyclic cur s) l := rfl

theorem colAdds_wf : ∀ (l : List St) {cur : Earley.Col}, ColWf cur → ColWf (colAdds cur l)
  | [], _, h => h
  | s :: l, _, h => colAdds_wf l (colWf_add h s)

theorem colAdds_prefix : ∀ (l : List St) (cur : Earley.Col), ∃ l', (colAdds cur l).states = cur.states ++ l'
  | [], cur => ⟨[], by simp [colAdds_nil]⟩
  | s :: l, cur => by
    obtain ⟨l1, h1⟩ := add_prefix cur s
    obtain ⟨l2, h2⟩ := colAdds_prefix l (Col.add .acyclic cur s)
    exact ⟨l1 ++ l2, by rw [colAdds_cons, h2, h1, List.append_assoc]⟩

theorem colAdds_has : ∀ (l : List St) (cur : Earley.Col) (s : St), s ∈ l → Has (colAdds cur l) (KI.ofSt s)
  | s' :: l, cur, s, h => by
    rw [colAdds_cons]
    rcases List.mem_cons.1 h with rfl | h
    · exact has_mono (colAdds_prefix l _) (has_add_self cur s)
    · exact colAdds_has l _ s h

theorem colAdds_mem : ∀ (l : List St) (cur : Earley.Col) (s : St), s ∈ (colAdds cur l).states →
    s ∈ cur.states ∨ s ∈ l
  | [], _, _, h => Or.inl h
  | s' :: l, cur, s, h => by
    rw [colAdds_cons] at h
    rcases colAdds_mem l _ s h with h1 | h1
    · rcases mem_add_states h1 with h2 | h2
      · exact Or.inl h2
      · exact Or.inr (by rw [h2]; simp)
    · exact Or.inr (List.mem_cons_of_mem _ h1)

theorem predAdd_snoc (D : List Earley.Col) (X : NT) : ∀ (alts : List (List ESym)) (cur : Earley.Col),
    predAdd D.length X alts (D ++ [cur]) = D ++ [colAdds cur (alts.map (fun rhs =>
      ({ item := { lhs := X, rhs := rhs, dot := 0, origin := D.length }, kids := [] } : St)))]
  | [], cur => rfl
  | rhs :: alts, cur => by
    unfold predAdd
    simp only [List.foldl_cons, List.map_cons, colAdds_cons]
    rw [addAt_snoc]
    exact predAdd_snoc D X alts _

/-- the ordinary results of a scan, as states that inherit `cover` -/
def ordOuts (cover : Option (Nat × List NT)) (outs : List (Entry KI)) : List St :=
  (outs.filter (fun o => !o.inc)).map (fun o => o.item.toSt cover)

def incOuts (incs : List (Entry KI)) (outs : List (Entry KI)) : List (Entry KI) :=
  (outs.filter (fun o => o.inc)).foldl addInc incs

theorem addOuts_spec (D : List Earley.Col) (cover : Option (Nat × List NT)) :
    ∀ (outs : List (Entry KI)) (x : CM) (cur : Earley.Col), x.m.k = D.length → x.m.cols = D ++ [cur] →
      (addOuts .acyclic cover x outs).m = { x.m with cols := D ++ [colAdds cur (ordOuts cover outs)] } ∧
      (addOuts .acyclic cover x outs).incs = incOuts x.incs outs ∧
      (addOuts .acyclic cover x outs).iidx = x.iidx ∧ (addOuts .acyclic cover x outs).cut = x.cut
  | [], x, cur, _, hc => by
    refine ⟨?_, rfl, rfl, rfl⟩
    simp only [addOuts, List.foldl_nil, ordOuts, List.filter_nil, List.map_nil, colAdds_nil]
    rw [← hc]
  | o :: outs, x, cur, hk, hc => by
    unfold addOuts
    simp only [List.foldl_cons]
    cases hi : o.inc with
    | true =>
      simp only [if_true]
      have := addOuts_spec D cover outs { x with incs := addInc x.incs o } cur hk hc
      unfold addOuts at this
      obtain ⟨h1, h2, h3, h4⟩ := this
      refine ⟨?_, ?_, h3, h4⟩
      · rw [h1]; simp [ordOuts, hi]
      · rw [h2]; simp [incOuts, hi]
    | false =>
      simp only [Bool.false_eq_true, if_false]
      have hc' : ({ x with m := { x.m with cols := addAt .acyclic x.m.cols x.m.k (o.item.toSt cover) } } : CM).m.cols
          = D ++ [Col.add .acyclic cur (o.item.toSt cover)] := by
        simp only [hc, hk, addAt_snoc]
      have := addOuts_spec D cover outs
        { x with m := { x.m with cols := addAt .acyclic x.m.cols x.m.k (o.item.toSt cover) } } _ hk hc'
      unfold addOuts at this
      obtain ⟨h1, h2, h3, h4⟩ := this
      refine ⟨?_, ?_, h3, h4⟩
      · rw [h1]; simp [ordOuts, hi, colAdds_cons]
      · rw [h2]; simp [incOuts, hi]

theorem incOuts_prefix : ∀ (outs : List (Entry KI)) (incs : List (Entry KI)), ∃ l, incOuts incs outs = incs ++ l
  | [], incs => ⟨[], by simp [incOuts]⟩
  | o :: outs, incs => by
    unfold incOuts
    cases hi : o.inc with
    | true =>
      simp only [List.filter_cons, hi, if_true, List.foldl_cons]
      obtain ⟨l1, h1⟩ := addInc_prefix incs o
      obtain ⟨l2, h2⟩ := incOuts_prefix outs (addInc incs o)
      unfold incOuts at h2
      exact ⟨l1 ++ l2, by rw [h2, h1, List.append_assoc]⟩
    | false =>
      simp only [List.filter_cons, hi, Bool.false_eq_true, if_false]
      exact incOuts_prefix outs incs

theorem incOuts_has : ∀ (outs : List (Entry KI)) (incs : List (Entry KI)) (o : Entry KI), o ∈ outs →
    o.inc = true → o ∈ incOuts incs outs
  | o' :: outs, incs, o, h, hi => by
    unfold incOuts
    rcases List.mem_cons.1 h with rfl | h
    · simp only [List.filter_cons, hi, if_true, List.foldl_cons]
      obtain ⟨l, hl⟩ := incOuts_prefix outs (addInc incs o)
      unfold incOuts at hl
      rw [hl]
      exact List.mem_append_left _ (addInc_mem incs o)
    · cases hi' : o'.inc with
      | true =>
        simp only [List.filter_cons, hi', if_true, List.foldl_cons]
        exact incOuts_has outs _ o h hi
      | false =>
        simp only [List.filter_cons, hi', Bool.false_eq_true, if_false]
        exact incOuts_has outs _ o h hi

theorem incOuts_mem : ∀ (outs : List (Entry KI)) (incs : List (Entry KI)) (e : Entry KI), e ∈ incOuts incs outs →
    e ∈ incs ∨ (e ∈ outs ∧ e.inc = true)
  | [], _, _, h => Or.inl h
  | o :: outs, incs, e, h => by
    unfold incOuts at h
    cases hi : o.inc with
    | true =>
      simp only [List.filter_cons, hi, if_true, List.foldl_cons] at h
      rcases incOuts_mem outs _ e h with h1 | ⟨h1, h2⟩
      · rcases mem_addInc h1 with h3 | h3
        · exact Or.inl h3
        · exact Or.inr ⟨by rw [h3]; simp, by rw [h3]; exact hi⟩
      · exact Or.inr ⟨List.mem_cons_of_mem _ h1, h2⟩
    | false =>
      simp only [List.filter_cons, hi, Bool.false_eq_true, if_false] at h
      rcases incOuts_mem outs _ e h with h1 | ⟨h1, h2⟩
      · exact Or.inl h1
      · exact Or.inr ⟨List.mem_cons_of_mem _ h1, h2⟩

end pass

end IncrE
end FV
