/-
C13 / the engine of the real closure: what one step of the column pass (`cstep`, i.e. `Earley.step` with the
scanning branch replaced) does, case by case.
-/
import Proofs.IncrEarley
namespace FV
namespace IncrE
open Earley Incr

/-- the column that is being processed -/
def CM.cur (x : CM) : Earley.Col := colAt x.m.cols x.m.k

/-- the alternatives `predict` adds for `X` in column `k` -/
def predAdd (k : Nat) (X : NT) (alts : List (List ESym)) (cols : List Earley.Col) : List Earley.Col :=
  alts.foldl (fun cs rhs => addAt .acyclic cs k
    { item := { lhs := X, rhs := rhs, dot := 0, origin := k }, kids := [] }) cols

inductive CStep (pred : Nat → NT → List (List ESym)) (pd : Bool) (f : Entry KI → List (Entry KI)) :
    CM → CM → Prop
  /-- one iteration of the loop of `complete(t, …)` -/
  | frameAdv {x x' : CM} (t s : St) (j : Nat)
      (hf : x.m.frame = some (t, j))
      (hs : ((colAt x.m.cols t.item.origin).findDot t.item.lhs)[j]? = some s)
      (hm : x'.m = { x.m with cols := addAt .acyclic x.m.cols x.m.k (advSt x.m.k t s), frame := some (t, j + 1) })
      (hr : x'.incs = x.incs ∧ x'.iidx = x.iidx ∧ x'.cut = x.cut) : CStep pred pd f x x'
  /-- the loop of `complete(t, …)` ends -/
  | frameEnd {x x' : CM} (t : St) (j : Nat)
      (hf : x.m.frame = some (t, j))
      (hs : ((colAt x.m.cols t.item.origin).findDot t.item.lhs)[j]? = none)
      (hm : x'.m = { x.m with frame := none })
      (hr : x'.incs = x.incs ∧ x'.iidx = x.iidx ∧ x'.cut = x.cut) : CStep pred pd f x x'
  /-- the next `complete(done, …)` of the loop that ends `predict` -/
  | pend {x x' : CM} (t : St) (rest : List St)
      (hf : x.m.frame = none) (hp : x.m.pending = t :: rest)
      (hm : x'.m = { x.m with pending := rest,
                              frame := if cyclicAt .acyclic x.m.k t then none else some (t, 0) })
      (hr : x'.incs = x.incs ∧ x'.iidx = x.iidx ∧ x'.cut = (x.cut || cyclicAt .acyclic x.m.k t)) :
      CStep pred pd f x x'
  /-- a finished state: `complete(state, …)` starts -/
  | fin {x x' : CM} (s : St)
      (hf : x.m.frame = none) (hp : x.m.pending = [])
      (hs : x.cur.states[x.m.idx]? = some s) (hfin : s.item.finished = true)
      (hm : ∃ out, x'.m = { x.m with idx := x.m.idx + 1,
                                     frame := if cyclicAt .acyclic x.m.k s then none else some (s, 0),
                                     out := out })
      (hr : x'.incs = x.incs ∧ x'.iidx = x.iidx ∧ x'.cut = (x.cut || cyclicAt .acyclic x.m.k s)) :
      CStep pred pd f x x'
  /-- a nonterminal after the dot: `predict` -/
  | pred {x x' : CM} (s : St) (X : NT) (a r : Option String)
      (hf : x.m.frame = none) (hp : x.m.pending = [])
      (hs : x.cur.states[x.m.idx]? = some s) (hfin : s.item.finished = false)
      (hsym : s.item.sym? = some (.n X a r))
      (hm : x'.m = { x.m with cols := predAdd x.m.k X (pred x.m.k X) x.m.cols, idx := x.m.idx + 1,
                              pending := if pd then doneOf (colAt (predAdd x.m.k X (pred x.m.k X) x.m.cols) x.m.k)
                                                     x.m.k X else [] })
      (hr : x'.incs = x.incs ∧ x'.iidx = x.iidx ∧ x'.cut = x.cut) : CStep pred pd f x x'
  /-- a terminal after the dot: the same-column scanner -/
  | scan {x x' : CM} (s : St)
      (hf : x.m.frame = none) (hp : x.m.pending = [])
      (hs : x.cur.states[x.m.idx]? = some s) (hw : wantsTerminal s = true)
      (hx : x' = addOuts .acyclic s.cover { x with m := { x.m with idx := x.m.idx + 1 } }
              (f (Entry.fresh (KI.ofSt s)))) : CStep pred pd f x x'
  /-- the ordinary states are exhausted: the next incomplete state is scanned -/
  | inc {x x' : CM} (e : Entry KI)
      (hf : x.m.frame = none) (hp : x.m.pending = [])
      (hs : x.cur.states[x.m.idx]? = none) (he : x.incs[x.iidx]? = some e)
      (hx : x' = addOuts .acyclic none { x with iidx := x.iidx + 1 } (f e)) : CStep pred pd f x x'
  /-- an unfinished state without a symbol after the dot (there is none) -/
  | skip {x x' : CM} (s : St)
      (hf : x.m.frame = none) (hp : x.m.pending = [])
      (hs : x.cur.states[x.m.idx]? = some s) (hfin : s.item.finished = false) (hsym : s.item.sym? = none)
      (hm : x'.m = { x.m with idx := x.m.idx + 1 })
      (hr : x'.incs = x.incs ∧ x'.iidx = x.iidx ∧ x'.cut = x.cut) : CStep pred pd f x x'

theorem wantsTerminal_iff (s : St) :
    wantsTerminal s = true ↔ s.item.finished = false ∧ ∃ tm, s.item.sym? = some (.t tm) := by
  unfold wantsTerminal
  cases hfin : s.item.finished <;> cases hsym : s.item.sym? with
  | none => simp
  | some y => cases y <;> simp

/-- what `Earley.step` does inside a pass -/
theorem delegate_cases (pred : Nat → NT → List (List ESym)) (pd : Bool) (f : Entry KI → List (Entry KI))
    {x x' : CM} {m' : M} (hk : x.m.k = k) (hstep : step (cfgAt pred pd k) x.m = .next m')
    (hx : x' = { x with m := m', cut := x.cut || cutNow (cfgAt pred pd k) x.m })
    (hnt : ∀ s, x.m.frame = none → x.m.pending = [] → x.cur.states[x.m.idx]? = some s → wantsTerminal s = false)
    (hne : ¬ (x.m.frame = none ∧ x.m.pending = [] ∧ x.cur.states[x.m.idx]? = none)) :
    CStep pred pd f x x' := by
  obtain ⟨⟨cols, kk, idx, frame, pending, out⟩, incs, iidx, cut⟩ := x
  simp only [CM.cur] at hk hstep hx hnt hne
  subst hk
  unfold step at hstep
  have hnc : ¬ (cfgAt pred pd kk).ncols ≤ kk := by simp [cfgAt]
  simp only [if_neg hnc] at hstep
  cases frame with
  | some tj =>
    obtain ⟨t, j⟩ := tj
    simp only at hstep
    cases hs : ((colAt cols t.item.origin).findDot t.item.lhs)[j]? with
    | none =>
      rw [hs] at hstep
      simp only [Res.next.injEq] at hstep
      subst hstep
      refine CStep.frameEnd t j rfl hs (by subst hx; rfl) ?_
      simp [hx, cutNow]
    | some s =>
      rw [hs] at hstep
      simp only [cfgAt_policy, advance_acyclic, Res.next.injEq] at hstep
      subst hstep
      refine CStep.frameAdv t s j rfl hs (by subst hx; rfl) ?_
      simp [hx, cutNow]
  | none =>
    simp only at hstep
    cases pending with
    | cons t rest =>
      simp only [cfgAt_policy, Res.next.injEq] at hstep
      subst hstep
      refine CStep.pend t rest rfl rfl (by subst hx; rfl) ?_
      simp [hx, cutNow, cfgAt_policy]
    | nil =>
      simp only at hstep
      cases hs : (colAt cols kk).states[idx]? with
      | none => exact absurd ⟨rfl, rfl, hs⟩ hne
      | some s =>
        rw [hs] at hstep
        simp only at hstep
        cases hfin : s.item.finished with
        | true =>
          rw [hfin] at hstep
          simp only [if_true, cfgAt_policy, Res.next.injEq] at hstep
          subst hstep
          refine CStep.fin s rfl rfl hs hfin ⟨_, by subst hx; rfl⟩ ?_
          simp [hx, cutNow, hs, hfin, cfgAt_policy]
        | false =>
          rw [hfin] at hstep
          simp only [Bool.false_eq_true, if_false] at hstep
          cases hsym : s.item.sym? with
          | none =>
            rw [hsym] at hstep
            simp only [Res.next.injEq] at hstep
            subst hstep
            refine CStep.skip s rfl rfl hs hfin hsym (by subst hx; rfl) ?_
            simp [hx, cutNow, hs, hfin]
          | some y =>
            cases y with
            | t tm =>
              have := hnt s rfl rfl hs
              rw [← Bool.not_eq_true, wantsTerminal_iff] at this
              exact absurd ⟨hfin, tm, hsym⟩ this
            | n X a r =>
              rw [hsym] at hstep
              simp only [cfgAt_policy, cfgAt_predDone, Res.next.injEq] at hstep
              subst hstep
              refine CStep.pred s X a r rfl rfl hs hfin hsym ?_ ?_
              · subst hx; rfl
              · simp [hx, cutNow, hs, hfin]

/-- **one step of the pass, case by case** -/
theorem cstep_cases (pred : Nat → NT → List (List ESym)) (pd : Bool) (f : Entry KI → List (Entry KI))
    {x x' : CM} (hk : x.m.k = k) (h : cstep (cfgAt pred pd k) f x = some x') : CStep pred pd f x x' := by
  have hdel : ∀ m', step (cfgAt pred pd k) x.m = .next m' →
      x' = { x with m := m', cut := x.cut || cutNow (cfgAt pred pd k) x.m } →
      (∀ s, x.m.frame = none → x.m.pending = [] → x.cur.states[x.m.idx]? = some s → wantsTerminal s = false) →
      ¬ (x.m.frame = none ∧ x.m.pending = [] ∧ x.cur.states[x.m.idx]? = none) → CStep pred pd f x x' :=
    fun m' h1 h2 h3 h4 => delegate_cases pred pd f hk h1 h2 h3 h4
  obtain ⟨⟨cols, kk, idx, frame, pending, out⟩, incs, iidx, cut⟩ := x
  unfold cstep at h
  simp only [CM.cur] at h hdel hk
  cases frame with
  | some tj =>
    simp only at h
    cases hstep : step (cfgAt pred pd k) { cols := cols, k := kk, idx := idx, frame := some tj, pending := pending, out := out } with
    | next m' =>
      rw [hstep] at h
      simp only [Option.some.injEq] at h
      exact hdel m' hstep h.symm (fun s hf => by cases hf) (fun hh => by cases hh.1)
    | done m' => rw [hstep] at h; cases h
    | raised m' => rw [hstep] at h; cases h
  | none =>
    cases pending with
    | cons t rest =>
      simp only at h
      cases hstep : step (cfgAt pred pd k) { cols := cols, k := kk, idx := idx, frame := none, pending := t :: rest, out := out } with
      | next m' =>
        rw [hstep] at h
        simp only [Option.some.injEq] at h
        exact hdel m' hstep h.symm (fun s _ hpp => by cases hpp) (fun hh => by cases hh.2.1)
      | done m' => rw [hstep] at h; cases h
      | raised m' => rw [hstep] at h; cases h
    | nil =>
      simp only at h
      cases hs : (colAt cols kk).states[idx]? with
      | none =>
        rw [hs] at h
        simp only at h
        cases he : incs[iidx]? with
        | none => rw [he] at h; cases h
        | some e =>
          rw [he] at h
          simp only [cfgAt_policy, Option.some.injEq] at h
          exact CStep.inc e rfl rfl hs he h.symm
      | some s =>
        rw [hs] at h
        simp only at h
        cases hw : wantsTerminal s with
        | true =>
          rw [hw] at h
          simp only [if_true, cfgAt_policy, Option.some.injEq] at h
          exact CStep.scan s rfl rfl hs hw h.symm
        | false =>
          rw [hw] at h
          simp only [Bool.false_eq_true, if_false] at h
          cases hstep : step (cfgAt pred pd k) { cols := cols, k := kk, idx := idx, frame := none, pending := [], out := out } with
          | next m' =>
            rw [hstep] at h
            simp only [Option.some.injEq] at h
            exact hdel m' hstep h.symm
              (fun s' _ _ hs' => by rw [hs] at hs'; cases hs'; exact hw)
              (fun hh => by rw [hs] at hh; cases hh.2.2)
          | done m' => rw [hstep] at h; cases h
          | raised m' => rw [hstep] at h; cases h

end IncrE
end FV
