/-
Helper lemmas for C13 (`Model/Incremental.lean`): the per-terminal cut lemmas (scanning a terminal with
`rest ++ next` equals scanning it with `rest` and resuming the parked incomplete state with `next`), the laws
assumed of the abstract chart closure, and the two-run simulation behind `feed_append`.
-/
import Model.Incremental
namespace FV
namespace Incr

/-! ### columns as sets -/

def SetEq {α : Type} (a b : List α) : Prop := ∀ x, x ∈ a ↔ x ∈ b

theorem SetEq.refl {α : Type} (a : List α) : SetEq a a := fun _ => Iff.rfl
theorem SetEq.symm {α : Type} {a b : List α} (h : SetEq a b) : SetEq b a := fun x => (h x).symm
theorem SetEq.trans {α : Type} {a b c : List α} (h : SetEq a b) (h' : SetEq b c) : SetEq a c :=
  fun x => (h x).trans (h' x)

variable {ι : Type}

/-- the states of a column that are not parked incomplete-terminal states -/
def core (c : Col ι) : Col ι := c.filter (fun e => !e.inc)

def CoreEq (a b : Col ι) : Prop := SetEq (core a) (core b)

theorem mem_core {c : Col ι} {e : Entry ι} : e ∈ core c ↔ e ∈ c ∧ e.inc = false := by
  simp [core]

theorem CoreEq.refl (a : Col ι) : CoreEq a a := SetEq.refl _
theorem CoreEq.symm {a b : Col ι} (h : CoreEq a b) : CoreEq b a := SetEq.symm h
theorem CoreEq.trans {a b c : Col ι} (h : CoreEq a b) (h' : CoreEq b c) : CoreEq a c :=
  SetEq.trans h h'

theorem SetEq.coreEq {a b : Col ι} (h : SetEq a b) : CoreEq a b := by
  intro x
  simp only [mem_core, h x]

/-- pointwise relation between two lists of equal length -/
inductive All2 {α β : Type} (r : α → β → Prop) : List α → List β → Prop
  | nil : All2 r [] []
  | cons {a b x y} : r a b → All2 r x y → All2 r (a :: x) (b :: y)

theorem forall2_coreEq_refl : ∀ d : List (Col ι), All2 CoreEq d d
  | [] => .nil
  | c :: d => .cons (CoreEq.refl c) (forall2_coreEq_refl d)

theorem forall2_coreEq_symm : ∀ {d d' : List (Col ι)}, All2 CoreEq d d' → All2 CoreEq d' d
  | _, _, .nil => .nil
  | _, _, .cons h t => .cons h.symm (forall2_coreEq_symm t)

theorem forall2_coreEq_trans : ∀ {d d' d'' : List (Col ι)}, All2 CoreEq d d' →
    All2 CoreEq d' d'' → All2 CoreEq d d''
  | _, _, _, .nil, .nil => .nil
  | _, _, _, .cons h t, .cons h' t' => .cons (h.trans h') (forall2_coreEq_trans t t')

theorem forall2_length {α β : Type} {r : α → β → Prop} : ∀ {a : List α} {b : List β},
    All2 r a b → a.length = b.length
  | _, _, .nil => rfl
  | _, _, .cons _ t => by simp [forall2_length t]

theorem forall2_snoc {α β : Type} {r : α → β → Prop} : ∀ {a : List α} {b : List β} {x : α} {y : β},
    All2 r a b → r x y → All2 r (a ++ [x]) (b ++ [y])
  | _, _, _, _, .nil, h => .cons h .nil
  | _, _, _, _, .cons h t, h' => .cons h (forall2_snoc t h')

/-! ### hypotheses on the regular-expression oracle (checked against `re` / `regex` by the harness) -/

/-- The oracle facts under which cutting the input inside a regex match is invisible.
    `full_stable` is the strong one ("an achieved match is not changed by more input"): it holds for
    `ab*c`, `[0-9]{3}`, `[a-z]+;` but fails for `[0-9]+` — see `Props/C13.lean`. -/
structure CutStable (R : ROracle) : Prop where
  /-- a partial match covers all of the available input -/
  part_len : ∀ r z q, R.part r z = some q → q = z.length
  full_le : ∀ r z m, R.full r z = some m → m ≤ z.length
  /-- partial matches are prefix closed -/
  part_prefix : ∀ r x y, R.part r (x ++ y) ≠ none → R.part r x ≠ none
  /-- what a longer full match has consumed so far was a partial match -/
  full_part : ∀ r x y m, R.full r (x ++ y) = some m → x.length < m → R.part r x ≠ none
  /-- more input does not change an achieved non-empty match -/
  full_stable : ∀ r x y m, R.full r x = some m → 0 < m → R.full r (x ++ y) = some m
  /-- no look-ahead beyond the match -/
  full_local : ∀ r x y m, R.full r (x ++ y) = some m → m ≤ x.length → R.full r x = some m

/-! ### well-formed states -/

/-- what every reachable state satisfies: flags reset on ordinary states; an incomplete state remembers
    exactly the length of its prefix, waits for a literal or a regex, and a literal's prefix is proper -/
def Entry.WF (eng : Engine ι) (e : Entry ι) : Prop :=
  (e.inc = false → e.idx = 0 ∧ e.pre = []) ∧
  (e.inc = true → e.idx = e.pre.length ∧
    (∀ l, eng.want e.item = some (.lit l) → e.pre.length < l.length) ∧
    (∀ b, eng.want e.item ≠ some (.bit b)))

theorem Entry.WF.idx_eq {eng : Engine ι} {e : Entry ι} (h : e.WF eng) : e.idx = e.pre.length := by
  cases hi : e.inc with
  | false => obtain ⟨h1, h2⟩ := h.1 hi; simp [h1, h2]
  | true => exact (h.2 hi).1

theorem Entry.WF.checkWord {eng : Engine ι} {e : Entry ι} (h : e.WF eng) (rest : Units) :
    checkWord e rest = e.pre ++ rest := by
  unfold Incr.checkWord
  cases hi : e.inc with
  | false => obtain ⟨_, h2⟩ := h.1 hi; simp [h2]
  | true => simp

theorem Entry.WF.prevLen {eng : Engine ι} {e : Entry ι} (h : e.WF eng) :
    (if e.inc then e.pre.length else 0) = e.pre.length := by
  cases hi : e.inc with
  | false => obtain ⟨_, h2⟩ := h.1 hi; simp [h2]
  | true => simp

theorem fresh_wf (eng : Engine ι) (i : ι) : (Entry.fresh i).WF eng := by
  constructor
  · intro _; exact ⟨rfl, rfl⟩
  · intro h; simp [Entry.fresh] at h

/-- the next symbol is a literal or a regex -/
def wantsBytes (eng : Engine ι) (e : Entry ι) : Prop :=
  (∃ l, eng.want e.item = some (.lit l)) ∨ (∃ r, eng.want e.item = some (.regex r))

/-! ### resuming parked states -/

section
variable (eng : Engine ι) (R : ROracle) (md : Mode)

/-- replace every incomplete state parked in column `bd` by what re-scanning it with `b` produces -/
def resumeAt (bd : Nat) (b : Units) (outs : List (Nat × Entry ι)) : List (Nat × Entry ι) :=
  outs.flatMap (fun p =>
    if p.2.inc = true ∧ p.1 = bd then scanEntry eng R md p.1 p.2 b 0 b.length else [p])

theorem resumeAt_nil (bd : Nat) (b : Units) : resumeAt eng R md bd b [] = [] := rfl

theorem resumeAt_append (bd : Nat) (b : Units) (x y : List (Nat × Entry ι)) :
    resumeAt eng R md bd b (x ++ y) = resumeAt eng R md bd b x ++ resumeAt eng R md bd b y := by
  simp [resumeAt, List.flatMap_append]

theorem resumeAt_single_keep (bd : Nat) (b : Units) (p : Nat × Entry ι) (h : ¬ (p.2.inc = true ∧ p.1 = bd)) :
    resumeAt eng R md bd b [p] = [p] := by
  simp [resumeAt, h]

theorem resumeAt_single_inc (bd : Nat) (b : Units) (e : Entry ι) (h : e.inc = true) :
    resumeAt eng R md bd b [(bd, e)] = scanEntry eng R md bd e b 0 b.length := by
  simp [resumeAt, h]

end

/-! ### literals -/

theorem prefix_of_append_of_le {l x y : Units} (h : l <+: x ++ y) (hl : l.length ≤ x.length) : l <+: x :=
  List.prefix_of_prefix_length_le h (List.prefix_append x y) hl

section lit
variable (eng : Engine ι) (R : ROracle) (md : Mode)

/-- **cut lemma for literals**: scanning with `ra ++ b` = scanning with `ra`, then resuming with `b` -/
theorem scanLit_cut (lit : Units) (k : Nat) (e : Entry ι) (hwf : e.WF eng)
    (hwant : eng.want e.item = some (.lit lit))
    (ra b : Units) (hra : ra ≠ []) (hb : b ≠ []) (w n : Nat) (hlen : ra.length + w = n) :
    scanLit eng.adv md lit k e (ra ++ b) w (n + b.length) =
      resumeAt eng R md (k + 8 * ra.length) b (scanLit eng.adv md lit k e ra w n) := by
  have hidx := hwf.idx_eq
  have hra0 : 0 < ra.length := List.length_pos_iff.mpr hra
  have hb0 : 0 < b.length := List.length_pos_iff.mpr hb
  unfold scanLit
  simp only [hwf.checkWord]
  by_cases h1 : lit <+: e.pre ++ ra
  · -- the literal fits into the first fragment
    have h1' : lit <+: e.pre ++ (ra ++ b) := by
      rw [← List.append_assoc]; exact h1.trans (List.prefix_append _ _)
    have hle : lit.length ≤ (e.pre ++ ra).length := h1.length_le
    have htake : (e.pre ++ (ra ++ b)).take lit.length = (e.pre ++ ra).take lit.length := by
      rw [← List.append_assoc, List.take_append_of_le_length hle]
    simp only [h1, h1', if_true, htake]
    rw [resumeAt_single_keep]
    simp
  · simp only [h1, if_false]
    by_cases h2 : w + lit.length - e.idx < n
    · -- enough input for the whole literal, and it does not match
      have hlt : lit.length < (e.pre ++ ra).length := by simp only [List.length_append]; omega
      have h1' : ¬ lit <+: e.pre ++ (ra ++ b) := by
        intro h
        rw [← List.append_assoc] at h
        exact h1 (prefix_of_append_of_le h (by omega))
      have h2' : w + lit.length - e.idx < n + b.length := by omega
      simp [h1', h2, h2', resumeAt_nil]
    · have hge : (e.pre ++ ra).length ≤ lit.length := by simp only [List.length_append]; omega
      simp only [h2, if_false]
      by_cases h3 : e.pre ++ ra <+: lit
      · -- the first fragment ends inside the literal: an incomplete state is parked
        have hne : (e.pre ++ ra).length ≠ 0 := by simp only [List.length_append]; omega
        have hcond : (e.pre ++ ra <+: lit ∧ (e.pre ++ ra).length ≠ 0) := ⟨h3, hne⟩
        rw [if_pos hcond]
        simp only [List.take_length]
        have htgt : k + ((e.pre ++ ra).length - e.idx) * 8 = k + 8 * ra.length := by
          simp only [List.length_append]; omega
        rw [htgt, resumeAt_single_inc eng R md _ b _ rfl]
        -- the resumed scan
        simp only [scanEntry, hwant, scanLit, Incr.checkWord, if_true, List.append_assoc]
        by_cases h4 : lit <+: e.pre ++ (ra ++ b)
        · rw [if_pos h4, if_pos h4]
          have : k + (lit.length - e.idx) * 8
              = k + 8 * ra.length + (lit.length - (e.pre ++ ra).length) * 8 := by
            simp only [List.length_append] at hge ⊢; omega
          rw [this]
        · rw [if_neg h4, if_neg h4]
          have hc : (w + lit.length - e.idx < n + b.length) ↔
              (0 + lit.length - (e.pre ++ ra).length < b.length) := by
            simp only [List.length_append] at hge ⊢; omega
          by_cases h5 : w + lit.length - e.idx < n + b.length
          · rw [if_pos h5, if_pos (hc.mp h5)]
          · have h5' := fun h => h5 (hc.mpr h)
            rw [if_neg h5, if_neg h5']
            have : k + ((e.pre ++ (ra ++ b)).length - e.idx) * 8
                = k + 8 * ra.length + ((e.pre ++ (ra ++ b)).length - (e.pre ++ ra).length) * 8 := by
              simp only [List.length_append]; omega
            rw [this]
            simp only [List.take_length]
      · -- mismatch inside the first fragment
        have h1' : ¬ lit <+: e.pre ++ (ra ++ b) := by
          intro h
          rw [← List.append_assoc] at h
          exact h3 (List.prefix_of_prefix_length_le (List.prefix_append _ _) h hge)
        have h3' : ¬ e.pre ++ (ra ++ b) <+: lit := by
          intro h
          apply h3
          rw [← List.append_assoc] at h
          exact (List.prefix_append _ _).trans h
        have hn : ¬ (e.pre ++ ra <+: lit ∧ (e.pre ++ ra).length ≠ 0) := fun h => h3 h.1
        have hn' : ¬ (e.pre ++ (ra ++ b) <+: lit ∧ (e.pre ++ (ra ++ b)).length ≠ 0) := fun h => h3' h.1
        rw [if_neg h1', if_neg hn, resumeAt_nil]
        by_cases h5 : w + lit.length - e.idx < n + b.length
        · rw [if_pos h5]
        · rw [if_neg h5, if_neg hn']

end lit

/-! ### literals: targets and well-formedness of what a scan produces -/

section litfacts
variable (eng : Engine ι) (md : Mode)

theorem scanLit_out (lit : Units) (k : Nat) (e : Entry ι) (hwf : e.WF eng)
    (rest : Units) (w len : Nat) (j : Nat) (x : Entry ι)
    (hx : (j, x) ∈ scanLit eng.adv md lit k e rest w len) :
    (x.inc = false ∧ x.idx = 0 ∧ x.pre = [] ∧ j = k + (lit.length - e.pre.length) * 8 ∧
        lit <+: e.pre ++ rest ∧ x.item = eng.adv e.item (mkLeaf md ((e.pre ++ rest).take lit.length))) ∨
    (x.inc = true ∧ x.item = e.item ∧ x.pre = e.pre ++ rest ∧ x.idx = (e.pre ++ rest).length ∧
        j = k + rest.length * 8 ∧ (e.pre ++ rest).length < lit.length ∧ e.pre ++ rest <+: lit) := by
  have hidx := hwf.idx_eq
  unfold scanLit at hx
  simp only [hwf.checkWord] at hx
  by_cases h1 : lit <+: e.pre ++ rest
  · rw [if_pos h1] at hx
    simp only [List.mem_singleton, Prod.mk.injEq] at hx
    obtain ⟨rfl, rfl⟩ := hx
    left
    exact ⟨rfl, rfl, rfl, by rw [hidx], h1, rfl⟩
  · rw [if_neg h1] at hx
    by_cases h2 : w + lit.length - e.idx < len
    · rw [if_pos h2] at hx; simp at hx
    · rw [if_neg h2] at hx
      by_cases h3 : (e.pre ++ rest <+: lit ∧ (e.pre ++ rest).length ≠ 0)
      · rw [if_pos h3] at hx
        simp only [List.mem_singleton, Prod.mk.injEq, List.take_length] at hx
        obtain ⟨rfl, rfl⟩ := hx
        right
        have hlt : (e.pre ++ rest).length < lit.length := by
          rcases Nat.lt_or_ge (e.pre ++ rest).length lit.length with h | h
          · exact h
          · exfalso
            apply h1
            have := List.IsPrefix.eq_of_length_le h3.1 h
            rw [this]
            exact List.prefix_refl _
        refine ⟨rfl, rfl, rfl, rfl, ?_, hlt, h3.1⟩
        simp only [List.length_append]; omega
      · rw [if_neg h3] at hx; simp at hx

end litfacts

/-! ### regular expressions -/

section regex
variable (eng : Engine ι) (R : ROracle) (md : Mode)

/-- the state a full regex match produces -/
def advOut (r k : Nat) (e : Entry ι) (cw : Units) (P : Nat) : List (Nat × Entry ι) :=
  match R.full r cw with
  | some m =>
    if m ≤ P then []
    else [(k + (m - e.idx) * 8, ⟨eng.adv e.item (mkLeaf md (cw.take m)), false, 0, []⟩)]
  | none => []

/-- the incomplete state a partial regex match parks -/
def incOut (r k : Nat) (e : Entry ι) (cw : Units) : List (Nat × Entry ι) :=
  match R.part r cw with
  | some q => [(k + (q - e.idx) * 8, ⟨e.item, true, q, cw.take q⟩)]
  | none => []

/-- under `part_len` the early `return False` of `scan_regex` only fires when nothing would be added -/
theorem scanRegex_nf (hR : CutStable R) (r k : Nat) (e : Entry ι) (hwf : e.WF eng)
    (rest : Units) (w len : Nat) (hlen : rest.length + w = len) :
    scanRegex R eng.adv md r k e rest w len =
      advOut eng R md r k e (e.pre ++ rest) e.pre.length ++ incOut R r k e (e.pre ++ rest) := by
  unfold scanRegex advOut incOut
  simp only [hwf.checkWord, hwf.prevLen]
  cases hp : R.part r (e.pre ++ rest) with
  | none =>
    cases hf : R.full r (e.pre ++ rest) with
    | none => simp
    | some m =>
      by_cases hm : m ≤ e.pre.length
      · simp [hm]
      · simp [hm]
  | some q =>
    have hq := hR.part_len r _ q hp
    have hnot : ¬ (q + w < len) := by
      rw [hq]; simp only [List.length_append]; omega
    cases hf : R.full r (e.pre ++ rest) with
    | none => simp [hnot]
    | some m =>
      by_cases hm : m ≤ e.pre.length
      · simp [hm, hnot]
      · simp [hm]

theorem scanRegex_cut (hR : CutStable R) (r k : Nat) (e : Entry ι) (hwf : e.WF eng)
    (hwant : eng.want e.item = some (.regex r))
    (ra b : Units) (hra : ra ≠ []) (hb : b ≠ []) (w n : Nat) (hlen : ra.length + w = n) :
    scanRegex R eng.adv md r k e (ra ++ b) w (n + b.length) =
      resumeAt eng R md (k + 8 * ra.length) b (scanRegex R eng.adv md r k e ra w n) := by
  have hidx := hwf.idx_eq
  have hra0 : 0 < ra.length := List.length_pos_iff.mpr hra
  have hb0 : 0 < b.length := List.length_pos_iff.mpr hb
  rw [scanRegex_nf eng R md hR r k e hwf (ra ++ b) w (n + b.length) (by simp only [List.length_append]; omega),
    scanRegex_nf eng R md hR r k e hwf ra w n hlen, resumeAt_append]
  -- abbreviations
  have hassoc : e.pre ++ (ra ++ b) = (e.pre ++ ra) ++ b := (List.append_assoc _ _ _).symm
  -- the parked state, if any, and its resumption
  have hinc : resumeAt eng R md (k + 8 * ra.length) b (incOut R r k e (e.pre ++ ra)) =
      (match R.part r (e.pre ++ ra) with
       | some _ => advOut eng R md r (k + 8 * ra.length) ⟨e.item, true, (e.pre ++ ra).length, e.pre ++ ra⟩
            ((e.pre ++ ra) ++ b) (e.pre ++ ra).length ++
          incOut R r (k + 8 * ra.length) ⟨e.item, true, (e.pre ++ ra).length, e.pre ++ ra⟩ ((e.pre ++ ra) ++ b)
       | none => []) := by
    unfold incOut
    cases hp : R.part r (e.pre ++ ra) with
    | none => simp [resumeAt_nil]
    | some q =>
      have hq := hR.part_len r _ q hp
      subst hq
      simp only [List.take_length]
      have htgt : k + ((e.pre ++ ra).length - e.idx) * 8 = k + 8 * ra.length := by
        simp only [List.length_append]; omega
      rw [htgt, resumeAt_single_inc eng R md _ b _ rfl]
      let e0 : Entry ι := ⟨e.item, true, (e.pre ++ ra).length, e.pre ++ ra⟩
      have hwf0 : e0.WF eng := by
        constructor
        · intro h; simp [e0] at h
        · intro _
          refine ⟨rfl, ?_, ?_⟩
          · intro l hl; simp [e0, hwant] at hl
          · intro bb hbb; simp [e0, hwant] at hbb
      have := scanRegex_nf eng R md hR r (k + 8 * ra.length) e0 hwf0 b 0 b.length (by omega)
      simp only [scanEntry, hwant]
      exact this
  rw [hinc]
  -- advanced states of the first fragment are kept as they are
  have hadv : resumeAt eng R md (k + 8 * ra.length) b (advOut eng R md r k e (e.pre ++ ra) e.pre.length) =
      advOut eng R md r k e (e.pre ++ ra) e.pre.length := by
    unfold advOut
    cases hf : R.full r (e.pre ++ ra) with
    | none => simp [resumeAt_nil]
    | some m =>
      by_cases hm : m ≤ e.pre.length
      · simp [hm, resumeAt_nil]
      · simp only [hm, if_false]
        rw [resumeAt_single_keep]
        simp
  rw [hadv]
  -- case analysis on the oracle
  have hlenB : (e.pre ++ ra).length = e.pre.length + ra.length := List.length_append
  have hlenA : (e.pre ++ (ra ++ b)).length = e.pre.length + ra.length + b.length := by
    simp only [List.length_append]; omega
  -- (1) the parked state after the second fragment
  have hclaim1 : incOut R r k e (e.pre ++ (ra ++ b)) =
      (match R.part r (e.pre ++ ra) with
       | some _ => incOut R r (k + 8 * ra.length) ⟨e.item, true, (e.pre ++ ra).length, e.pre ++ ra⟩
            ((e.pre ++ ra) ++ b)
       | none => []) := by
    unfold incOut
    rw [← hassoc]
    cases hpA : R.part r (e.pre ++ (ra ++ b)) with
    | none => cases hpB : R.part r (e.pre ++ ra) <;> rfl
    | some qA =>
      have hqA := hR.part_len r _ qA hpA
      cases hpB : R.part r (e.pre ++ ra) with
      | none =>
        exfalso
        exact hR.part_prefix r (e.pre ++ ra) b (by rw [← hassoc, hpA]; simp) hpB
      | some qB =>
        have : k + (qA - e.idx) * 8 = k + 8 * ra.length + (qA - (e.pre ++ ra).length) * 8 := by
          rw [hqA, hlenA, hlenB]; omega
        simp only [this]
  -- (2) the advanced states
  have hclaim2 : advOut eng R md r k e (e.pre ++ (ra ++ b)) e.pre.length =
      advOut eng R md r k e (e.pre ++ ra) e.pre.length ++
      (match R.part r (e.pre ++ ra) with
       | some _ => advOut eng R md r (k + 8 * ra.length) ⟨e.item, true, (e.pre ++ ra).length, e.pre ++ ra⟩
            ((e.pre ++ ra) ++ b) (e.pre ++ ra).length
       | none => []) := by
    unfold advOut
    rw [← hassoc]
    cases hfA : R.full r (e.pre ++ (ra ++ b)) with
    | none =>
      have hB : (match R.full r (e.pre ++ ra) with
          | some m => if m ≤ e.pre.length then []
            else [(k + (m - e.idx) * 8, (⟨eng.adv e.item (mkLeaf md ((e.pre ++ ra).take m)), false, 0, []⟩ : Entry ι))]
          | none => []) = [] := by
        cases hfB : R.full r (e.pre ++ ra) with
        | none => rfl
        | some m' =>
          by_cases hm' : m' ≤ e.pre.length
          · simp [hm']
          · have := hR.full_stable r (e.pre ++ ra) b m' hfB (by omega)
            rw [← hassoc, hfA] at this
            cases this
      rw [hB]
      cases R.part r (e.pre ++ ra) <;> rfl
    | some m =>
      have hfA' : R.full r ((e.pre ++ ra) ++ b) = some m := by rw [← hassoc]; exact hfA
      by_cases hmB : m ≤ (e.pre ++ ra).length
      · -- the match ends inside the first fragment
        have hfB := hR.full_local r (e.pre ++ ra) b m hfA' hmB
        have htake : (e.pre ++ (ra ++ b)).take m = (e.pre ++ ra).take m := by
          rw [hassoc, List.take_append_of_le_length hmB]
        rw [hfB]
        simp only [hmB, if_true, htake]
        cases R.part r (e.pre ++ ra) <;> simp
      · -- the match ends in the second fragment
        have hmP : ¬ m ≤ e.pre.length := by rw [hlenB] at hmB; omega
        have hB : (match R.full r (e.pre ++ ra) with
            | some m => if m ≤ e.pre.length then []
              else [(k + (m - e.idx) * 8, (⟨eng.adv e.item (mkLeaf md ((e.pre ++ ra).take m)), false, 0, []⟩ : Entry ι))]
            | none => []) = [] := by
          cases hfB : R.full r (e.pre ++ ra) with
          | none => rfl
          | some m' =>
            by_cases hm' : m' ≤ e.pre.length
            · simp [hm']
            · exfalso
              have h1 := hR.full_stable r (e.pre ++ ra) b m' hfB (by omega)
              rw [hfA'] at h1
              have h2 := hR.full_le r _ m' hfB
              cases h1
              exact hmB h2
        rw [hB]
        cases hpB : R.part r (e.pre ++ ra) with
        | none => exact absurd hpB (hR.full_part r (e.pre ++ ra) b m hfA' (by omega))
        | some qB =>
          have : k + (m - e.idx) * 8 = k + 8 * ra.length + (m - (e.pre ++ ra).length) * 8 := by
            rw [hlenB] at hmB ⊢; omega
          simp only [hmP, hmB, if_false, this, List.nil_append]
  rw [hclaim1, hclaim2]
  cases R.part r (e.pre ++ ra) <;> simp

end regex

end Incr
end FV
