/-
Helper lemmas for C13 (`Model/Incremental.lean`): the per-terminal cut lemmas (scanning a terminal with
`rest ++ next` equals scanning it with `rest` and resuming the parked incomplete state with `next`), the laws
assumed of the abstract chart closure, and the two-run simulation behind `feed_append`.
-/
import Model.Incremental
namespace FV
namespace Incr

/-! ### columns as sets -/

def SetEq {α : Type} (a b : List α) : Prop := ∀ x, x ∈ a ↔ x ∈ b

theorem SetEq.refl {α : Type} (a : List α) : SetEq a a := fun _ => Iff.rfl
theorem SetEq.symm {α : Type} {a b : List α} (h : SetEq a b) : SetEq b a := fun x => (h x).symm
theorem SetEq.trans {α : Type} {a b c : List α} (h : SetEq a b) (h' : SetEq b c) : SetEq a c :=
  fun x => (h x).trans (h' x)

variable {ι : Type}

/-- the states of a column that are not parked incomplete-terminal states -/
def core (c : Col ι) : Col ι := c.filter (fun e => !e.inc)

def CoreEq (a b : Col ι) : Prop := SetEq (core a) (core b)

theorem mem_core {c : Col ι} {e : Entry ι} : e ∈ core c ↔ e ∈ c ∧ e.inc = false := by
  simp [core]

theorem CoreEq.refl (a : Col ι) : CoreEq a a := SetEq.refl _
theorem CoreEq.symm {a b : Col ι} (h : CoreEq a b) : CoreEq b a := SetEq.symm h
theorem CoreEq.trans {a b c : Col ι} (h : CoreEq a b) (h' : CoreEq b c) : CoreEq a c :=
  SetEq.trans h h'

theorem SetEq.coreEq {a b : Col ι} (h : SetEq a b) : CoreEq a b := by
  intro x
  simp only [mem_core, h x]

/-- pointwise relation between two lists of equal length -/
inductive All2 {α β : Type} (r : α → β → Prop) : List α → List β → Prop
  | nil : All2 r [] []
  | cons {a b x y} : r a b → All2 r x y → All2 r (a :: x) (b :: y)

theorem forall2_coreEq_refl : ∀ d : List (Col ι), All2 CoreEq d d
  | [] => .nil
  | c :: d => .cons (CoreEq.refl c) (forall2_coreEq_refl d)

theorem forall2_coreEq_symm : ∀ {d d' : List (Col ι)}, All2 CoreEq d d' → All2 CoreEq d' d
  | _, _, .nil => .nil
  | _, _, .cons h t => .cons h.symm (forall2_coreEq_symm t)

theorem forall2_coreEq_trans : ∀ {d d' d'' : List (Col ι)}, All2 CoreEq d d' →
    All2 CoreEq d' d'' → All2 CoreEq d d''
  | _, _, _, .nil, .nil => .nil
  | _, _, _, .cons h t, .cons h' t' => .cons (h.trans h') (forall2_coreEq_trans t t')

theorem forall2_length {α β : Type} {r : α → β → Prop} : ∀ {a : List α} {b : List β},
    All2 r a b → a.length = b.length
  | _, _, .nil => rfl
  | _, _, .cons _ t => by simp [forall2_length t]

theorem forall2_snoc {α β : Type} {r : α → β → Prop} : ∀ {a : List α} {b : List β} {x : α} {y : β},
    All2 r a b → r x y → All2 r (a ++ [x]) (b ++ [y])
  | _, _, _, _, .nil, h => .cons h .nil
  | _, _, _, _, .cons h t, h' => .cons h (forall2_snoc t h')

/-! ### hypotheses on the regular-expression oracle (checked against `re` / `regex` by the harness) -/

/-- The oracle facts under which cutting the input inside a regex match is invisible.
    `full_stable` is the strong one ("an achieved match is not changed by more input"): it holds for
    `ab*c`, `[0-9]{3}`, `[a-z]+;` but fails for `[0-9]+` — see `Props/C13.lean`. -/
structure CutStable (R : ROracle) : Prop where
  /-- a partial match covers all of the available input -/
  part_len : ∀ r z q, R.part r z = some q → q = z.length
  full_le : ∀ r z m, R.full r z = some m → m ≤ z.length
  /-- partial matches are prefix closed -/
  part_prefix : ∀ r x y, R.part r (x ++ y) ≠ none → R.part r x ≠ none
  /-- what a longer full match has consumed so far was a partial match -/
  full_part : ∀ r x y m, R.full r (x ++ y) = some m → x.length < m → R.part r x ≠ none
  /-- more input does not change a match achieved on non-empty input (since 179bde08 a match of length 0
      counts, so this includes "an empty match stays empty") -/
  full_stable : ∀ r x y m, R.full r x = some m → x ≠ [] → R.full r (x ++ y) = some m
  /-- no look-ahead beyond the match -/
  full_local : ∀ r x y m, R.full r (x ++ y) = some m → m ≤ x.length → R.full r x = some m

/-! ### well-formed states -/

/-- what every reachable state satisfies: flags reset on ordinary states; an incomplete state remembers
    exactly the length of its prefix, waits for a literal or a regex, and a literal's prefix is proper -/
def Entry.WF (eng : Engine ι) (e : Entry ι) : Prop :=
  (e.inc = false → e.idx = 0 ∧ e.pre = []) ∧
  (e.inc = true → e.idx = e.pre.length ∧
    (∀ l, eng.want e.item = some (.lit l) → e.pre.length < l.length) ∧
    (∀ b, eng.want e.item ≠ some (.bit b)))

theorem Entry.WF.idx_eq {eng : Engine ι} {e : Entry ι} (h : e.WF eng) : e.idx = e.pre.length := by
  cases hi : e.inc with
  | false => obtain ⟨h1, h2⟩ := h.1 hi; simp [h1, h2]
  | true => exact (h.2 hi).1

theorem Entry.WF.checkWord {eng : Engine ι} {e : Entry ι} (h : e.WF eng) (rest : Units) :
    checkWord e rest = e.pre ++ rest := by
  unfold Incr.checkWord
  cases hi : e.inc with
  | false => obtain ⟨_, h2⟩ := h.1 hi; simp [h2]
  | true => simp

theorem Entry.WF.prevLen {eng : Engine ι} {e : Entry ι} (h : e.WF eng) :
    (if e.inc then e.pre.length else 0) = e.pre.length := by
  cases hi : e.inc with
  | false => obtain ⟨_, h2⟩ := h.1 hi; simp [h2]
  | true => simp

theorem fresh_wf (eng : Engine ι) (i : ι) : (Entry.fresh i).WF eng := by
  constructor
  · intro _; exact ⟨rfl, rfl⟩
  · intro h; simp [Entry.fresh] at h

/-- the next symbol is a literal or a regex -/
def wantsBytes (eng : Engine ι) (e : Entry ι) : Prop :=
  (∃ l, eng.want e.item = some (.lit l)) ∨ (∃ r, eng.want e.item = some (.regex r))

/-! ### resuming parked states -/

section
variable (eng : Engine ι) (R : ROracle) (md : Mode)

/-- replace every incomplete state parked in column `bd` by what re-scanning it with `b` produces -/
def resumeAt (bd : Nat) (b : Units) (outs : List (Nat × Entry ι)) : List (Nat × Entry ι) :=
  outs.flatMap (fun p =>
    if p.2.inc = true ∧ p.1 = bd then scanEntry eng R md p.1 p.2 b 0 b.length else [p])

theorem resumeAt_nil (bd : Nat) (b : Units) : resumeAt eng R md bd b [] = [] := rfl

theorem resumeAt_append (bd : Nat) (b : Units) (x y : List (Nat × Entry ι)) :
    resumeAt eng R md bd b (x ++ y) = resumeAt eng R md bd b x ++ resumeAt eng R md bd b y := by
  simp [resumeAt, List.flatMap_append]

theorem resumeAt_single_keep (bd : Nat) (b : Units) (p : Nat × Entry ι) (h : ¬ (p.2.inc = true ∧ p.1 = bd)) :
    resumeAt eng R md bd b [p] = [p] := by
  simp [resumeAt, h]

theorem resumeAt_single_inc (bd : Nat) (b : Units) (e : Entry ι) (h : e.inc = true) :
    resumeAt eng R md bd b [(bd, e)] = scanEntry eng R md bd e b 0 b.length := by
  simp [resumeAt, h]

end

/-! ### literals -/

theorem prefix_of_append_of_le {l x y : Units} (h : l <+: x ++ y) (hl : l.length ≤ x.length) : l <+: x :=
  List.prefix_of_prefix_length_le h (List.prefix_append x y) hl

section lit
variable (eng : Engine ι) (R : ROracle) (md : Mode)

/-- **cut lemma for literals**: scanning with `ra ++ b` = scanning with `ra`, then resuming with `b` -/
theorem scanLit_cut (lit : Units) (k : Nat) (e : Entry ι) (hwf : e.WF eng)
    (hwant : eng.want e.item = some (.lit lit)) (hk8 : k % 8 = 0)
    (ra b : Units) (hra : ra ≠ []) (hb : b ≠ []) (w n : Nat) (hlen : ra.length + w = n) :
    scanLit eng.adv md lit k e (ra ++ b) w (n + b.length) =
      resumeAt eng R md (k + 8 * ra.length) b (scanLit eng.adv md lit k e ra w n) := by
  have hidx := hwf.idx_eq
  have hra0 : 0 < ra.length := List.length_pos_iff.mpr hra
  have hb0 : 0 < b.length := List.length_pos_iff.mpr hb
  unfold scanLit
  simp only [hwf.checkWord]
  by_cases h1 : lit <+: e.pre ++ ra
  · -- the literal fits into the first fragment
    have h1' : lit <+: e.pre ++ (ra ++ b) := by
      rw [← List.append_assoc]; exact h1.trans (List.prefix_append _ _)
    have hle : lit.length ≤ (e.pre ++ ra).length := h1.length_le
    have htake : (e.pre ++ (ra ++ b)).take lit.length = (e.pre ++ ra).take lit.length := by
      rw [← List.append_assoc, List.take_append_of_le_length hle]
    simp only [h1, h1', if_true, htake]
    rw [resumeAt_single_keep]
    simp
  · simp only [h1, if_false]
    by_cases h2 : w + lit.length - e.idx < n
    · -- enough input for the whole literal, and it does not match
      have hlt : lit.length < (e.pre ++ ra).length := by simp only [List.length_append]; omega
      have h1' : ¬ lit <+: e.pre ++ (ra ++ b) := by
        intro h
        rw [← List.append_assoc] at h
        exact h1 (prefix_of_append_of_le h (by omega))
      have h2' : w + lit.length - e.idx < n + b.length := by omega
      simp [h1', h2, h2', resumeAt_nil]
    · have hge : (e.pre ++ ra).length ≤ lit.length := by simp only [List.length_append]; omega
      simp only [h2, if_false]
      by_cases h3 : e.pre ++ ra <+: lit
      · -- the first fragment ends inside the literal: an incomplete state is parked
        have hne : (e.pre ++ ra).length ≠ 0 := by simp only [List.length_append]; omega
        have hcond : (e.pre ++ ra <+: lit ∧ (e.pre ++ ra).length ≠ 0) := ⟨h3, hne⟩
        rw [if_pos hcond]
        simp only [List.take_length]
        have htgt : k + ((e.pre ++ ra).length - e.idx) * 8 = k + 8 * ra.length := by
          simp only [List.length_append]; omega
        rw [htgt, resumeAt_single_inc eng R md _ b _ rfl]
        -- the resumed scan (the cut is at a byte boundary)
        have hbd8 : ¬ (k + 8 * ra.length) % 8 ≠ 0 := by omega
        simp only [scanEntry, hwant, if_neg hbd8, scanLit, Incr.checkWord, if_true, List.append_assoc]
        by_cases h4 : lit <+: e.pre ++ (ra ++ b)
        · rw [if_pos h4, if_pos h4]
          have : k + (lit.length - e.idx) * 8
              = k + 8 * ra.length + (lit.length - (e.pre ++ ra).length) * 8 := by
            simp only [List.length_append] at hge ⊢; omega
          rw [this]
        · rw [if_neg h4, if_neg h4]
          have hc : (w + lit.length - e.idx < n + b.length) ↔
              (0 + lit.length - (e.pre ++ ra).length < b.length) := by
            simp only [List.length_append] at hge ⊢; omega
          by_cases h5 : w + lit.length - e.idx < n + b.length
          · rw [if_pos h5, if_pos (hc.mp h5)]
          · have h5' := fun h => h5 (hc.mpr h)
            rw [if_neg h5, if_neg h5']
            have : k + ((e.pre ++ (ra ++ b)).length - e.idx) * 8
                = k + 8 * ra.length + ((e.pre ++ (ra ++ b)).length - (e.pre ++ ra).length) * 8 := by
              simp only [List.length_append]; omega
            rw [this]
            simp only [List.take_length]
      · -- mismatch inside the first fragment
        have h1' : ¬ lit <+: e.pre ++ (ra ++ b) := by
          intro h
          rw [← List.append_assoc] at h
          exact h3 (List.prefix_of_prefix_length_le (List.prefix_append _ _) h hge)
        have h3' : ¬ e.pre ++ (ra ++ b) <+: lit := by
          intro h
          apply h3
          rw [← List.append_assoc] at h
          exact (List.prefix_append _ _).trans h
        have hn : ¬ (e.pre ++ ra <+: lit ∧ (e.pre ++ ra).length ≠ 0) := fun h => h3 h.1
        have hn' : ¬ (e.pre ++ (ra ++ b) <+: lit ∧ (e.pre ++ (ra ++ b)).length ≠ 0) := fun h => h3' h.1
        rw [if_neg h1', if_neg hn, resumeAt_nil]
        by_cases h5 : w + lit.length - e.idx < n + b.length
        · rw [if_pos h5]
        · rw [if_neg h5, if_neg hn']

end lit

/-! ### literals: targets and well-formedness of what a scan produces -/

section litfacts
variable (eng : Engine ι) (md : Mode)

theorem scanLit_out (lit : Units) (k : Nat) (e : Entry ι) (hwf : e.WF eng)
    (rest : Units) (w len : Nat) (j : Nat) (x : Entry ι)
    (hx : (j, x) ∈ scanLit eng.adv md lit k e rest w len) :
    (x.inc = false ∧ x.idx = 0 ∧ x.pre = [] ∧ j = k + (lit.length - e.pre.length) * 8 ∧
        lit <+: e.pre ++ rest ∧ x.item = eng.adv e.item (mkLeaf md ((e.pre ++ rest).take lit.length))) ∨
    (x.inc = true ∧ x.item = e.item ∧ x.pre = e.pre ++ rest ∧ x.idx = (e.pre ++ rest).length ∧
        j = k + rest.length * 8 ∧ (e.pre ++ rest).length < lit.length ∧ e.pre ++ rest <+: lit) := by
  have hidx := hwf.idx_eq
  unfold scanLit at hx
  simp only [hwf.checkWord] at hx
  by_cases h1 : lit <+: e.pre ++ rest
  · rw [if_pos h1] at hx
    simp only [List.mem_singleton, Prod.mk.injEq] at hx
    obtain ⟨rfl, rfl⟩ := hx
    left
    exact ⟨rfl, rfl, rfl, by rw [hidx], h1, rfl⟩
  · rw [if_neg h1] at hx
    by_cases h2 : w + lit.length - e.idx < len
    · rw [if_pos h2] at hx; simp at hx
    · rw [if_neg h2] at hx
      by_cases h3 : (e.pre ++ rest <+: lit ∧ (e.pre ++ rest).length ≠ 0)
      · rw [if_pos h3] at hx
        simp only [List.mem_singleton, Prod.mk.injEq, List.take_length] at hx
        obtain ⟨rfl, rfl⟩ := hx
        right
        have hlt : (e.pre ++ rest).length < lit.length := by
          rcases Nat.lt_or_ge (e.pre ++ rest).length lit.length with h | h
          · exact h
          · exfalso
            apply h1
            have := List.IsPrefix.eq_of_length_le h3.1 h
            rw [this]
            exact List.prefix_refl _
        refine ⟨rfl, rfl, rfl, rfl, ?_, hlt, h3.1⟩
        simp only [List.length_append]; omega
      · rw [if_neg h3] at hx; simp at hx

end litfacts

/-! ### regular expressions -/

section regex
variable (eng : Engine ι) (R : ROracle) (md : Mode)

/-- the state a full regex match produces -/
def advOut (r k : Nat) (e : Entry ι) (cw : Units) (P : Nat) : List (Nat × Entry ι) :=
  match R.full r cw with
  | some m =>
    if e.inc = true ∧ m ≤ P then []
    else [(k + (m - e.idx) * 8, ⟨eng.adv e.item (mkLeaf md (cw.take m)), false, 0, []⟩)]
  | none => []

/-- the incomplete state a partial regex match parks -/
def incOut (r k : Nat) (e : Entry ι) (cw : Units) : List (Nat × Entry ι) :=
  match R.part r cw with
  | some q => [(k + (q - e.idx) * 8, ⟨e.item, true, q, cw.take q⟩)]
  | none => []

/-- under `part_len` the early `return False` of `scan_regex` only fires when nothing would be added -/
theorem scanRegex_nf (hR : CutStable R) (r k : Nat) (e : Entry ι) (hwf : e.WF eng)
    (rest : Units) (w len : Nat) (hlen : rest.length + w = len) :
    scanRegex R eng.adv md r k e rest w len =
      advOut eng R md r k e (e.pre ++ rest) e.pre.length ++ incOut R r k e (e.pre ++ rest) := by
  unfold scanRegex advOut incOut
  simp only [hwf.checkWord, hwf.prevLen]
  cases hp : R.part r (e.pre ++ rest) with
  | none =>
    cases hf : R.full r (e.pre ++ rest) with
    | none => simp
    | some m =>
      by_cases hm : e.inc = true ∧ m ≤ e.pre.length
      · simp [hm]
      · have hm' : (e.inc && decide (m ≤ e.pre.length)) = false := by
          cases hi : e.inc <;> simp_all
        simp [hm, hm']
  | some q =>
    have hq := hR.part_len r _ q hp
    have hnot : ¬ (q + w < len) := by
      rw [hq]; simp only [List.length_append]; omega
    cases hf : R.full r (e.pre ++ rest) with
    | none => simp [hnot]
    | some m =>
      by_cases hm : e.inc = true ∧ m ≤ e.pre.length
      · simp [hm, hnot]
      · have hm' : (e.inc && decide (m ≤ e.pre.length)) = false := by
          cases hi : e.inc <;> simp_all
        simp [hm, hm']

theorem scanRegex_cut (hR : CutStable R) (r k : Nat) (e : Entry ι) (hwf : e.WF eng)
    (hwant : eng.want e.item = some (.regex r)) (hk8 : k % 8 = 0)
    (ra b : Units) (hra : ra ≠ []) (hb : b ≠ []) (w n : Nat) (hlen : ra.length + w = n) :
    scanRegex R eng.adv md r k e (ra ++ b) w (n + b.length) =
      resumeAt eng R md (k + 8 * ra.length) b (scanRegex R eng.adv md r k e ra w n) := by
  have hidx := hwf.idx_eq
  have hra0 : 0 < ra.length := List.length_pos_iff.mpr hra
  have hb0 : 0 < b.length := List.length_pos_iff.mpr hb
  rw [scanRegex_nf eng R md hR r k e hwf (ra ++ b) w (n + b.length) (by simp only [List.length_append]; omega),
    scanRegex_nf eng R md hR r k e hwf ra w n hlen, resumeAt_append]
  -- abbreviations
  have hassoc : e.pre ++ (ra ++ b) = (e.pre ++ ra) ++ b := (List.append_assoc _ _ _).symm
  have hne : e.pre ++ ra ≠ [] := by simp [hra]
  -- the parked state, if any, and its resumption
  have hinc : resumeAt eng R md (k + 8 * ra.length) b (incOut R r k e (e.pre ++ ra)) =
      (match R.part r (e.pre ++ ra) with
       | some _ => advOut eng R md r (k + 8 * ra.length) ⟨e.item, true, (e.pre ++ ra).length, e.pre ++ ra⟩
            ((e.pre ++ ra) ++ b) (e.pre ++ ra).length ++
          incOut R r (k + 8 * ra.length) ⟨e.item, true, (e.pre ++ ra).length, e.pre ++ ra⟩ ((e.pre ++ ra) ++ b)
       | none => []) := by
    unfold incOut
    cases hp : R.part r (e.pre ++ ra) with
    | none => simp [resumeAt_nil]
    | some q =>
      have hq := hR.part_len r _ q hp
      subst hq
      simp only [List.take_length]
      have htgt : k + ((e.pre ++ ra).length - e.idx) * 8 = k + 8 * ra.length := by
        simp only [List.length_append]; omega
      rw [htgt, resumeAt_single_inc eng R md _ b _ rfl]
      let e0 : Entry ι := ⟨e.item, true, (e.pre ++ ra).length, e.pre ++ ra⟩
      have hwf0 : e0.WF eng := by
        constructor
        · intro h; simp [e0] at h
        · intro _
          refine ⟨rfl, ?_, ?_⟩
          · intro l hl; simp [e0, hwant] at hl
          · intro bb hbb; simp [e0, hwant] at hbb
      have := scanRegex_nf eng R md hR r (k + 8 * ra.length) e0 hwf0 b 0 b.length (by omega)
      have hbd8 : ¬ (k + 8 * ra.length) % 8 ≠ 0 := by omega
      simp only [scanEntry, hwant, if_neg hbd8]
      exact this
  -- advanced states of the first fragment are kept as they are
  have hadv : resumeAt eng R md (k + 8 * ra.length) b (advOut eng R md r k e (e.pre ++ ra) e.pre.length) =
      advOut eng R md r k e (e.pre ++ ra) e.pre.length := by
    unfold advOut
    cases hf : R.full r (e.pre ++ ra) with
    | none => simp [resumeAt_nil]
    | some m =>
      by_cases hm : e.inc = true ∧ m ≤ e.pre.length
      · simp [hm, resumeAt_nil]
      · simp only [hm, if_false]
        rw [resumeAt_single_keep]
        simp
  -- case analysis on the oracle
  have hlenB : (e.pre ++ ra).length = e.pre.length + ra.length := List.length_append
  have hlenA : (e.pre ++ (ra ++ b)).length = e.pre.length + ra.length + b.length := by
    simp only [List.length_append]; omega
  -- (1) the parked state after the second fragment
  have hclaim1 : incOut R r k e (e.pre ++ (ra ++ b)) =
      (match R.part r (e.pre ++ ra) with
       | some _ => incOut R r (k + 8 * ra.length) ⟨e.item, true, (e.pre ++ ra).length, e.pre ++ ra⟩
            ((e.pre ++ ra) ++ b)
       | none => []) := by
    unfold incOut
    rw [← hassoc]
    cases hpA : R.part r (e.pre ++ (ra ++ b)) with
    | none => cases hpB : R.part r (e.pre ++ ra) <;> rfl
    | some qA =>
      have hqA := hR.part_len r _ qA hpA
      cases hpB : R.part r (e.pre ++ ra) with
      | none =>
        exfalso
        exact hR.part_prefix r (e.pre ++ ra) b (by rw [← hassoc, hpA]; simp) hpB
      | some qB =>
        have : k + (qA - e.idx) * 8 = k + 8 * ra.length + (qA - (e.pre ++ ra).length) * 8 := by
          rw [hqA, hlenA, hlenB]; omega
        simp only [this]
  -- what the first fragment achieved is what the whole input achieves (`full_stable`)
  have hstable : ∀ m', R.full r (e.pre ++ ra) = some m' → R.full r (e.pre ++ (ra ++ b)) = some m' := by
    intro m' h
    rw [hassoc]
    exact hR.full_stable r (e.pre ++ ra) b m' h hne
  -- (2) the advanced states
  have hclaim2 : advOut eng R md r k e (e.pre ++ (ra ++ b)) e.pre.length =
      advOut eng R md r k e (e.pre ++ ra) e.pre.length ++
      (match R.part r (e.pre ++ ra) with
       | some _ => advOut eng R md r (k + 8 * ra.length) ⟨e.item, true, (e.pre ++ ra).length, e.pre ++ ra⟩
            ((e.pre ++ ra) ++ b) (e.pre ++ ra).length
       | none => []) := by
    unfold advOut
    rw [← hassoc]
    cases hfA : R.full r (e.pre ++ (ra ++ b)) with
    | none =>
      cases hfB : R.full r (e.pre ++ ra) with
      | none => cases R.part r (e.pre ++ ra) <;> rfl
      | some m' =>
        have := hstable m' hfB
        rw [hfA] at this
        cases this
    | some m =>
      have hfA' : R.full r ((e.pre ++ ra) ++ b) = some m := by rw [← hassoc]; exact hfA
      by_cases hmB : m ≤ (e.pre ++ ra).length
      · -- the match ends inside the first fragment
        have hfB := hR.full_local r (e.pre ++ ra) b m hfA' hmB
        have htake : (e.pre ++ (ra ++ b)).take m = (e.pre ++ ra).take m := by
          rw [hassoc, List.take_append_of_le_length hmB]
        rw [hfB]
        have hmB' : m ≤ e.pre.length + ra.length := by rw [← hlenB]; exact hmB
        by_cases hc : e.inc = true ∧ m ≤ e.pre.length
        · cases R.part r (e.pre ++ ra) <;> simp [hc, hmB']
        · cases R.part r (e.pre ++ ra) <;> simp [hc, hmB', htake]
      · -- the match ends in the second fragment
        have hmP : ¬ (e.inc = true ∧ m ≤ e.pre.length) := by
          rintro ⟨_, h⟩; rw [hlenB] at hmB; omega
        have hB : R.full r (e.pre ++ ra) = none := by
          cases hfB : R.full r (e.pre ++ ra) with
          | none => rfl
          | some m' =>
            exfalso
            have h1 := hstable m' hfB
            rw [hfA] at h1
            have h2 := hR.full_le r _ m' hfB
            cases h1
            exact hmB h2
        rw [hB]
        cases hpB : R.part r (e.pre ++ ra) with
        | none => exact absurd hpB (hR.full_part r (e.pre ++ ra) b m hfA' (by omega))
        | some qB =>
          have : k + (m - e.idx) * 8 = k + 8 * ra.length + (m - (e.pre ++ ra).length) * 8 := by
            rw [hlenB] at hmB ⊢; omega
          have hmB' : e.pre.length + ra.length < m := by rw [← hlenB]; omega
          simp [hmP, hmB', this]
  rw [hinc, hadv, hclaim1, hclaim2]
  cases R.part r (e.pre ++ ra) <;> simp

theorem scanRegex_out (hR : CutStable R) (r k : Nat) (e : Entry ι) (hwf : e.WF eng)
    (rest : Units) (w len : Nat) (hlen : rest.length + w = len) (j : Nat) (x : Entry ι)
    (hx : (j, x) ∈ scanRegex R eng.adv md r k e rest w len) :
    (x.inc = false ∧ x.idx = 0 ∧ x.pre = [] ∧ ∃ m, R.full r (e.pre ++ rest) = some m ∧
        (e.inc = true → e.pre.length < m) ∧
        m ≤ (e.pre ++ rest).length ∧ j = k + (m - e.pre.length) * 8 ∧
        x.item = eng.adv e.item (mkLeaf md ((e.pre ++ rest).take m))) ∨
    (x.inc = true ∧ x.item = e.item ∧ x.pre = e.pre ++ rest ∧ x.idx = (e.pre ++ rest).length ∧
        j = k + rest.length * 8 ∧ R.part r (e.pre ++ rest) ≠ none) := by
  have hidx := hwf.idx_eq
  rw [scanRegex_nf eng R md hR r k e hwf rest w len hlen, List.mem_append] at hx
  rcases hx with hx | hx
  · left
    unfold advOut at hx
    cases hf : R.full r (e.pre ++ rest) with
    | none => simp [hf] at hx
    | some m =>
      by_cases hm : e.inc = true ∧ m ≤ e.pre.length
      · simp [hf, hm] at hx
      · simp only [hf, hm, if_false, List.mem_singleton, Prod.mk.injEq] at hx
        obtain ⟨rfl, rfl⟩ := hx
        refine ⟨rfl, rfl, rfl, m, rfl, ?_, hR.full_le r _ m hf, by rw [hidx], rfl⟩
        intro hi
        rcases Nat.lt_or_ge e.pre.length m with h | h
        · exact h
        · exact absurd ⟨hi, h⟩ hm
  · right
    unfold incOut at hx
    cases hp : R.part r (e.pre ++ rest) with
    | none => simp [hp] at hx
    | some q =>
      have hq := hR.part_len r _ q hp
      subst hq
      simp only [hp, List.mem_singleton, Prod.mk.injEq, List.take_length] at hx
      obtain ⟨rfl, rfl⟩ := hx
      refine ⟨rfl, rfl, rfl, rfl, ?_, by simp⟩
      simp only [List.length_append]; omega

end regex

/-! ### bits -/

section bits
variable (eng : Engine ι)

theorem scanBit_out (b : Bool) (k : Nat) (e : Entry ι) (rest : Units) (j : Nat) (x : Entry ι)
    (hx : (j, x) ∈ scanBit eng.adv b k e rest) :
    j = k + 1 ∧ x.inc = e.inc ∧ x.idx = e.idx ∧ x.pre = e.pre ∧ rest ≠ [] := by
  unfold scanBit at hx
  cases rest with
  | nil => simp at hx
  | cons u rs =>
    simp only [List.head?_cons] at hx
    split at hx
    · simp at hx
    · split at hx
      · simp only [List.mem_singleton, Prod.mk.injEq] at hx
        obtain ⟨rfl, rfl⟩ := hx
        exact ⟨rfl, rfl, rfl, rfl, by simp⟩
      · simp at hx

theorem scanBit_append (b : Bool) (k : Nat) (e : Entry ι) (ra rb : Units) (hra : ra ≠ []) :
    scanBit eng.adv b k e (ra ++ rb) = scanBit eng.adv b k e ra := by
  cases ra with
  | nil => exact absurd rfl hra
  | cons u rs => simp [scanBit]

end bits

/-! ### one state, all terminal kinds -/

section entry
variable (eng : Engine ι) (R : ROracle) (md : Mode)

theorem wantsBytes_of_lit {e : Entry ι} {l : Units} (h : eng.want e.item = some (.lit l)) : wantsBytes eng e :=
  Or.inl ⟨l, h⟩
theorem wantsBytes_of_regex {e : Entry ι} {r : Nat} (h : eng.want e.item = some (.regex r)) : wantsBytes eng e :=
  Or.inr ⟨r, h⟩

/-- targets and well-formedness of everything one scan produces -/
theorem scanEntry_out (hR : CutStable R) (k : Nat) (e : Entry ι) (hwf : e.WF eng)
    (rest : Units) (w len : Nat) (hlen : rest.length + w = len) (j : Nat) (x : Entry ι)
    (hx : (j, x) ∈ scanEntry eng R md k e rest w len) :
    x.WF eng ∧ (x.inc = true → j = k + 8 * rest.length ∧ wantsBytes eng e) ∧
      (wantsBytes eng e → j ≤ k + 8 * rest.length ∧ k % 8 = 0) ∧
      (¬ wantsBytes eng e → j = k + 1 ∧ rest ≠ []) := by
  unfold scanEntry at hx
  cases hwant : eng.want e.item with
  | none => simp [hwant] at hx
  | some t =>
    cases t with
    | bit b =>
      simp only [hwant] at hx
      obtain ⟨hj, hinc, hidx, hpre, hne⟩ := scanBit_out eng b k e rest j x hx
      have hnb : ¬ wantsBytes eng e := by
        rintro (⟨l, h⟩ | ⟨r, h⟩) <;> simp [hwant] at h
      have heinc : e.inc = false := by
        cases hi : e.inc with
        | false => rfl
        | true => exact absurd hwant ((hwf.2 hi).2.2 b)
      obtain ⟨h1, h2⟩ := hwf.1 heinc
      have hfalse : x.inc = true → False := fun h => by rw [hinc, heinc] at h; cases h
      have hidx0 : x.idx = 0 := by rw [hidx, h1]
      have hpre0 : x.pre = [] := by rw [hpre, h2]
      exact ⟨⟨fun _ => ⟨hidx0, hpre0⟩, fun h => (hfalse h).elim⟩, fun h => (hfalse h).elim,
        fun h => absurd h hnb, fun _ => ⟨hj, hne⟩⟩
    | lit l =>
      simp only [hwant] at hx
      by_cases hk8 : k % 8 ≠ 0
      · rw [if_pos hk8] at hx; simp at hx
      rw [if_neg hk8] at hx
      have hk8' : k % 8 = 0 := by omega
      have hwb := wantsBytes_of_lit eng hwant
      rcases scanLit_out eng md l k e hwf rest w len j x hx with
        ⟨hi, hidx, hpre, hj, hpfx, _⟩ | ⟨hi, hitem, hpre, hidx, hj, hlt, _⟩
      · have hfalse : x.inc = true → False := fun h => by rw [hi] at h; cases h
        refine ⟨⟨fun _ => ⟨hidx, hpre⟩, fun h => (hfalse h).elim⟩, fun h => (hfalse h).elim, fun _ => ⟨?_, hk8'⟩,
          fun h => absurd hwb h⟩
        have := hpfx.length_le
        simp only [List.length_append] at this
        omega
      · have hfalse : x.inc = false → False := fun h => by rw [hi] at h; cases h
        have hwf2 : (∀ l', eng.want x.item = some (.lit l') → x.pre.length < l'.length) ∧
            (∀ b, eng.want x.item ≠ some (.bit b)) := by
          constructor
          · intro l' hl'
            rw [hitem, hwant] at hl'
            cases hl'
            rw [hpre]; exact hlt
          · intro b hb
            rw [hitem, hwant] at hb
            cases hb
        refine ⟨⟨fun h => (hfalse h).elim, fun _ => ⟨?_, hwf2⟩⟩, fun _ => ⟨?_, hwb⟩, fun _ => ⟨?_, hk8'⟩,
          fun h => absurd hwb h⟩
        · rw [hidx, hpre]
        · omega
        · omega
    | regex r =>
      simp only [hwant] at hx
      by_cases hk8 : k % 8 ≠ 0
      · rw [if_pos hk8] at hx; simp at hx
      rw [if_neg hk8] at hx
      have hk8' : k % 8 = 0 := by omega
      have hwb := wantsBytes_of_regex eng hwant
      rcases scanRegex_out eng R md hR r k e hwf rest w len hlen j x hx with
        ⟨hi, hidx, hpre, m, _, hlt, hle, hj, _⟩ | ⟨hi, hitem, hpre, hidx, hj, _⟩
      · have hfalse : x.inc = true → False := fun h => by rw [hi] at h; cases h
        refine ⟨⟨fun _ => ⟨hidx, hpre⟩, fun h => (hfalse h).elim⟩, fun h => (hfalse h).elim, fun _ => ⟨?_, hk8'⟩,
          fun h => absurd hwb h⟩
        simp only [List.length_append] at hle
        omega
      · have hfalse : x.inc = false → False := fun h => by rw [hi] at h; cases h
        have hwf2 : (∀ l', eng.want x.item = some (.lit l') → x.pre.length < l'.length) ∧
            (∀ b, eng.want x.item ≠ some (.bit b)) := by
          constructor
          · intro l' hl'
            rw [hitem, hwant] at hl'
            cases hl'
          · intro b hb
            rw [hitem, hwant] at hb
            cases hb
        refine ⟨⟨fun h => (hfalse h).elim, fun _ => ⟨?_, hwf2⟩⟩, fun _ => ⟨?_, hwb⟩, fun _ => ⟨?_, hk8'⟩,
          fun h => absurd hwb h⟩
        · rw [hidx, hpre]
        · omega
        · omega

/-- what scanning a parked state produces: nothing in an earlier column; in its own column at most itself
    (only when nothing is left of the fragment) -/
theorem scanEntry_inc_out (hR : CutStable R) (k : Nat) (e : Entry ι) (hwf : e.WF eng) (hinc : e.inc = true)
    (rest : Units) (w len : Nat) (hlen : rest.length + w = len) (j : Nat) (x : Entry ι)
    (hx : (j, x) ∈ scanEntry eng R md k e rest w len) :
    (k < j ∧ (rest = [] → x.inc = false)) ∨ (j = k ∧ x = e ∧ rest = []) := by
  obtain ⟨hidx, hlit, hbit⟩ := hwf.2 hinc
  unfold scanEntry at hx
  cases hwant : eng.want e.item with
  | none => simp [hwant] at hx
  | some t =>
    cases t with
    | bit bb => exact absurd hwant (hbit bb)
    | lit l =>
      simp only [hwant] at hx
      by_cases hk8 : k % 8 ≠ 0
      · rw [if_pos hk8] at hx; simp at hx
      rw [if_neg hk8] at hx
      have := hlit l hwant
      rcases scanLit_out eng md l k e hwf rest w len j x hx with
        ⟨hi, _, _, hj, _, _⟩ | ⟨hi, hitem, hpre, hidx', hj, _, _⟩
      · left; exact ⟨by omega, fun _ => hi⟩
      · cases rest with
        | nil =>
          right
          simp only [List.append_nil, List.length_nil, Nat.zero_mul, Nat.add_zero] at hpre hidx' hj
          refine ⟨hj, ?_, rfl⟩
          cases x; cases e
          simp_all
        | cons u rs =>
          left
          simp only [List.length_cons] at hj
          exact ⟨by omega, fun h => by cases h⟩
    | regex r =>
      simp only [hwant] at hx
      by_cases hk8 : k % 8 ≠ 0
      · rw [if_pos hk8] at hx; simp at hx
      rw [if_neg hk8] at hx
      rcases scanRegex_out eng R md hR r k e hwf rest w len hlen j x hx with
        ⟨hi, _, _, m, _, hlt, _, hj, _⟩ | ⟨hi, hitem, hpre, hidx', hj, _⟩
      · left
        have := hlt hinc
        exact ⟨by omega, fun _ => hi⟩
      · cases rest with
        | nil =>
          right
          simp only [List.append_nil, List.length_nil, Nat.zero_mul, Nat.add_zero] at hpre hidx' hj
          refine ⟨hj, ?_, rfl⟩
          cases x; cases e
          simp_all
        | cons u rs =>
          left
          simp only [List.length_cons] at hj
          exact ⟨by omega, fun h => by cases h⟩

/-- resuming a parked state with a non-empty fragment only reaches later columns -/
theorem resume_target_gt (hR : CutStable R) (bd : Nat) (e0 : Entry ι) (hwf : e0.WF eng) (hinc : e0.inc = true)
    (b : Units) (hb : b ≠ []) (j : Nat) (x : Entry ι)
    (hx : (j, x) ∈ scanEntry eng R md bd e0 b 0 b.length) : bd < j := by
  rcases scanEntry_inc_out eng R md hR bd e0 hwf hinc b 0 b.length (by omega) j x hx with h | h
  · exact h.1
  · exact absurd h.2.2 hb

/-- **cut lemma**: scanning a state with `ra ++ b` = scanning it with `ra` and resuming what was parked
    at the end of `ra` with `b` -/
theorem scanEntry_cut (hR : CutStable R) (k : Nat) (e : Entry ι) (hwf : e.WF eng)
    (ra b : Units) (hra : ra ≠ []) (hb : b ≠ []) (w n : Nat) (hlen : ra.length + w = n) (bd : Nat)
    (hbd : wantsBytes eng e → k % 8 = 0 → bd = k + 8 * ra.length) :
    scanEntry eng R md k e (ra ++ b) w (n + b.length) =
      resumeAt eng R md bd b (scanEntry eng R md k e ra w n) := by
  unfold scanEntry
  cases hwant : eng.want e.item with
  | none => simp [resumeAt_nil]
  | some t =>
    cases t with
    | bit bb =>
      simp only []
      rw [scanBit_append eng bb k e ra b hra]
      -- nothing a bit scan produces is parked
      have heinc : e.inc = false := by
        cases hi : e.inc with
        | false => rfl
        | true => exact absurd hwant ((hwf.2 hi).2.2 bb)
      unfold resumeAt
      have : ∀ p ∈ scanBit eng.adv bb k e ra, ¬ (p.2.inc = true ∧ p.1 = bd) := by
        rintro ⟨j, x⟩ hp ⟨h1, _⟩
        have := (scanBit_out eng bb k e ra j x hp).2.1
        rw [this, heinc] at h1
        cases h1
      generalize scanBit eng.adv bb k e ra = outs at this ⊢
      induction outs with
      | nil => rfl
      | cons p ps ih =>
        have hp := this p (by simp)
        have ih' := ih (fun q hq => this q (by simp [hq]))
        simp only [List.flatMap_cons, hp, if_false]
        rw [← ih']
        rfl
    | lit l =>
      simp only []
      by_cases hk8 : k % 8 ≠ 0
      · rw [if_pos hk8, if_pos hk8, resumeAt_nil]
      · rw [if_neg hk8, if_neg hk8, hbd (wantsBytes_of_lit eng hwant) (by omega)]
        exact scanLit_cut eng R md l k e hwf hwant (by omega) ra b hra hb w n hlen
    | regex r =>
      simp only []
      by_cases hk8 : k % 8 ≠ 0
      · rw [if_pos hk8, if_pos hk8, resumeAt_nil]
      · rw [if_neg hk8, if_neg hk8, hbd (wantsBytes_of_regex eng hwant) (by omega)]
        exact scanRegex_cut eng R md hR r k e hwf hwant (by omega) ra b hra hb w n hlen

/-- the word index and the fragment length only matter through what is left of the fragment -/
theorem scanEntry_shift (k : Nat) (e : Entry ι) (a b : Units) (hb : b ≠ []) (w : Nat) :
    scanEntry eng R md k e ((a ++ b).drop (a.length + w)) (a.length + w) (a ++ b).length =
      scanEntry eng R md k e (b.drop w) w b.length := by
  have hb0 : 0 < b.length := List.length_pos_iff.mpr hb
  have hdrop : (a ++ b).drop (a.length + w) = b.drop w := by
    rw [List.drop_append]
    simp
  rw [hdrop]
  unfold scanEntry
  cases eng.want e.item with
  | none => rfl
  | some t =>
    cases t with
    | bit bb => rfl
    | lit l =>
      simp only [scanLit, List.length_append]
      have : (a.length + w + l.length - e.idx < a.length + b.length) ↔ (w + l.length - e.idx < b.length) := by
        omega
      simp only [this]
    | regex r =>
      simp only [scanRegex, List.length_append]
      have : ∀ q : Nat, (q + (a.length + w) < a.length + b.length) ↔ (q + w < b.length) := by
        intro q; omega
      simp only [this]

/-- with nothing left of the fragment the scanners compare `w` with `len` only: `(0, 0)` stands for
    `(len, len)` (how `lastCol` asks) -/
theorem scanEntry_atEnd (k : Nat) (e : Entry ι) (hwf : e.WF eng) (n : Nat) :
    scanEntry eng R md k e [] n n = scanEntry eng R md k e [] 0 0 := by
  have hidx := hwf.idx_eq
  unfold scanEntry
  cases hwant : eng.want e.item with
  | none => rfl
  | some t =>
    cases t with
    | bit bb => rfl
    | lit l =>
      have hle : e.idx ≤ l.length := by
        cases hi : e.inc with
        | false => rw [(hwf.1 hi).1]; omega
        | true => have := (hwf.2 hi).2.1 l hwant; omega
      have h1 : ¬ (n + l.length - e.idx < n) := by omega
      have h2 : ¬ (0 + l.length - e.idx < 0) := by omega
      simp only [scanLit, h1, h2]
    | regex r =>
      have : ∀ q : Nat, (q + n < n) ↔ (q + 0 < 0) := by intro q; omega
      simp only [scanRegex, this]

/-! ### what a scan adds to the column that is being processed -/

theorem mem_sameCol {k : Nat} {outs : List (Nat × Entry ι)} {x : Entry ι} :
    x ∈ sameCol k outs ↔ (k, x) ∈ outs := by
  unfold sameCol
  simp only [List.mem_map, List.mem_filter, beq_iff_eq]
  constructor
  · rintro ⟨⟨j, y⟩, ⟨hm, hj⟩, hy⟩
    simp only at hj hy
    subst hj hy
    exact hm
  · intro h
    exact ⟨(k, x), ⟨h, rfl⟩, rfl⟩

theorem sameCol_append (k : Nat) (x y : List (Nat × Entry ι)) :
    sameCol k (x ++ y) = sameCol k x ++ sameCol k y := by
  simp [sameCol]

theorem sameCol_eq_nil {k : Nat} {outs : List (Nat × Entry ι)} (h : ∀ p ∈ outs, p.1 ≠ k) :
    sameCol k outs = [] := by
  unfold sameCol
  rw [List.map_eq_nil_iff, List.filter_eq_nil_iff]
  intro p hp
  simpa using h p hp

/-- resuming what is parked at the cut does not touch a column before the cut -/
theorem sameCol_resumeAt (hR : CutStable R) {k bd : Nat} {b : Units} (hb : b ≠ []) (hk : k < bd) :
    ∀ (outs : List (Nat × Entry ι)), (∀ p ∈ outs, p.2.WF eng) →
      sameCol k (resumeAt eng R md bd b outs) = sameCol k outs
  | [], _ => rfl
  | p :: ps, hwf => by
    have ih := sameCol_resumeAt hR hb hk ps (fun q hq => hwf q (by simp [hq]))
    have hcons : resumeAt eng R md bd b (p :: ps) =
        resumeAt eng R md bd b [p] ++ resumeAt eng R md bd b ps := resumeAt_append eng R md bd b [p] ps
    have hcons' : sameCol k (p :: ps) = sameCol k [p] ++ sameCol k ps := sameCol_append k [p] ps
    rw [hcons, sameCol_append, ih, hcons']
    congr 1
    by_cases hc : p.2.inc = true ∧ p.1 = bd
    · have h1 : resumeAt eng R md bd b [p] = scanEntry eng R md p.1 p.2 b 0 b.length := by
        simp [resumeAt, hc]
      rw [h1, sameCol_eq_nil, sameCol_eq_nil]
      · intro q hq
        simp only [List.mem_singleton] at hq
        subst hq
        omega
      · rintro ⟨j, x⟩ hq
        have := resume_target_gt eng R md hR p.1 p.2 (hwf p (by simp)) hc.1 b hb j x hq
        simp only
        omega
    · rw [resumeAt_single_keep eng R md bd b p hc]

/-- the same-column scanner sees no difference between the fragment and the whole input before the cut -/
theorem epsScan_cut (hR : CutStable R) (k : Nat) (e : Entry ι) (hwf : e.WF eng)
    (ra b : Units) (hra : ra ≠ []) (hb : b ≠ []) (w n : Nat) (hlen : ra.length + w = n) :
    epsScan eng R md k (ra ++ b) w (n + b.length) e = epsScan eng R md k ra w n e := by
  have hra0 : 0 < ra.length := List.length_pos_iff.mpr hra
  unfold epsScan
  rw [scanEntry_cut eng R md hR k e hwf ra b hra hb w n hlen (k + 8 * ra.length) (fun _ _ => rfl)]
  apply sameCol_resumeAt eng R md hR hb (by omega)
  intro p hp
  exact (scanEntry_out eng R md hR k e hwf ra w n hlen p.1 p.2 hp).1

theorem epsScan_wf (hR : CutStable R) (k : Nat) (rest : Units) (w len : Nat) (hlen : rest.length + w = len)
    (e : Entry ι) (hwf : e.WF eng) : ∀ x ∈ epsScan eng R md k rest w len e, x.WF eng := by
  intro x hx
  rw [epsScan, mem_sameCol] at hx
  exact (scanEntry_out eng R md hR k e hwf rest w len hlen k x hx).1

/-- while something is left of the fragment, nothing is parked in the column that is being processed -/
theorem epsScan_noinc (hR : CutStable R) (k : Nat) (rest : Units) (hrest : rest ≠ []) (w len : Nat)
    (hlen : rest.length + w = len) (e : Entry ι) (hwf : e.WF eng) :
    ∀ x ∈ epsScan eng R md k rest w len e, x.inc = false := by
  intro x hx
  rw [epsScan, mem_sameCol] at hx
  have hr0 : 0 < rest.length := List.length_pos_iff.mpr hrest
  cases hi : x.inc with
  | false => rfl
  | true =>
    have := ((scanEntry_out eng R md hR k e hwf rest w len hlen k x hx).2.1 hi).1
    omega

/-- scanning a parked state adds nothing but the state itself to its column -/
theorem epsScan_inc_self (hR : CutStable R) (k : Nat) (rest : Units) (w len : Nat)
    (hlen : rest.length + w = len) (e : Entry ι) (hwf : e.WF eng) (hinc : e.inc = true) :
    ∀ x ∈ epsScan eng R md k rest w len e, x = e := by
  intro x hx
  rw [epsScan, mem_sameCol] at hx
  rcases scanEntry_inc_out eng R md hR k e hwf hinc rest w len hlen k x hx with h | h
  · omega
  · exact h.2.1

end entry

/-! ### laws assumed of the abstract chart closure -/

/-- What the theorems need of the worklist pass over one column (`f` = what scanning a state adds to the column
    itself).  For the real parser these say:
    the pass calls the scanner on the states it visits and nowhere else (`close_eps`);
    incomplete states are only ever scanned — when the scanner parks nothing in this column, the incomplete
    states of the closed column are those of the seed (`close_inc`);
    which ordinary states the closed column contains depends only on the *sets* of ordinary states of the
    earlier columns and of the seed, not on their order or on parked incomplete states, provided scanning a
    parked state adds at most that state itself (`close_core`: `Column.add` deduplicates, `find_dot` looks up
    states by the non-terminal after the dot);
    prediction and completion produce states with reset flags (`close_wf`).
    `ok d f s` names the passes the laws are claimed for (`Engine.Lawful`: all of them; the engine of the real
    closure, `Model/IncrEarley.lean`: the passes that come to their end within the fuel, in which the covering cut
    does not fire and which leave no `*` / `+` right-recursion state for `place_repetition_shortcut`);
    `ok_eps`: whether a pass is one of them does not depend on what the scanner would do on states the pass
    never holds. -/
structure Engine.LawfulOn (eng : Engine ι)
    (ok : List (Col ι) → (Entry ι → List (Entry ι)) → Col ι → Prop) : Prop where
  ok_eps : ∀ d f f' s, ok d f s → (∀ e ∈ eng.close d f s, f e = f' e) → ok d f' s
  close_eps : ∀ d f f' s, ok d f s → (∀ e ∈ eng.close d f s, f e = f' e) →
    SetEq (eng.close d f s) (eng.close d f' s)
  close_inc : ∀ d f s, ok d f s → (∀ e ∈ eng.close d f s, ∀ x ∈ f e, x.inc = false) →
    ∀ e, e.inc = true → (e ∈ eng.close d f s ↔ e ∈ s)
  close_core : ∀ d d' f s s', ok d f s → ok d' f s' → All2 CoreEq d d' → CoreEq s s' →
    (∀ e ∈ eng.close d f s, e.inc = true → ∀ x ∈ f e, x = e) →
    (∀ e ∈ eng.close d' f s', e.inc = true → ∀ x ∈ f e, x = e) →
    CoreEq (eng.close d f s) (eng.close d' f s')
  close_wf : ∀ d f s, (∀ e ∈ s, e.WF eng) → (∀ e, e.WF eng → ∀ x ∈ f e, x.WF eng) →
    ∀ e ∈ eng.close d f s, e.WF eng
  trees_core : ∀ c c', CoreEq c c' → SetEq (eng.trees c) (eng.trees c')

/-- the laws for every pass -/
abbrev Engine.Lawful (eng : Engine ι) : Prop := eng.LawfulOn (fun _ _ _ => True)

/-- additional laws for `can_continue`: when the completion-only closure of the seed has nothing unfinished,
    prediction has nothing to start from, so no state of the closed column waits for a terminal (the scanner
    adds nothing for a state that waits for no terminal); an empty column stays empty and holds no parse -/
structure Engine.LawfulCCOn (eng : Engine ι)
    (ok : List (Col ι) → (Entry ι → List (Entry ι)) → Col ι → Prop) (okc : List (Col ι) → Col ι → Prop) :
    Prop where
  close_stuck : ∀ d f s, ok d f s → okc d s → (∀ e, eng.want e.item = none → f e = []) →
    (∀ e ∈ eng.completeOnly d s, e.inc = false ∧ eng.finished e.item = true) →
    ∀ e ∈ eng.close d f s, eng.want e.item = none
  close_nil : ∀ d f, eng.close d f [] = []
  trees_nil : eng.trees [] = []

abbrev Engine.LawfulCC (eng : Engine ι) : Prop := eng.LawfulCCOn (fun _ _ _ => True) (fun _ _ => True)

theorem all2_setEq_coreEq : ∀ {d d' : List (Col ι)}, All2 SetEq d d' → All2 CoreEq d d'
  | _, _, .nil => .nil
  | _, _, .cons h t => .cons h.coreEq (all2_setEq_coreEq t)

theorem all2_setEq_refl : ∀ d : List (Col ι), All2 SetEq d d
  | [] => .nil
  | c :: d => .cons (SetEq.refl c) (all2_setEq_refl d)

theorem all2_get {α β : Type} {r : α → β → Prop} : ∀ {x : List α} {y : List β}, All2 r x y →
    ∀ (k : Nat) (c : β), y[k]? = some c → ∃ c', x[k]? = some c' ∧ r c' c
  | _, _, .nil, k, c, h => by simp at h
  | _, _, .cons (a := a) hr t, 0, c, h => by
    simp only [List.getElem?_cons_zero, Option.some.injEq] at h
    subst h
    exact ⟨a, by simp, hr⟩
  | _, _, .cons _ t, k + 1, c, h => by
    simp only [List.getElem?_cons_succ] at h ⊢
    exact all2_get t k c h

/-- what the cut lemmas establish of the same-column scanner `f`: it keeps states well formed, and scanning a
    parked state adds nothing but that state -/
structure EpsOK (eng : Engine ι) (f : Entry ι → List (Entry ι)) : Prop where
  wf : ∀ e, e.WF eng → ∀ x ∈ f e, x.WF eng
  inc_self : ∀ e, e.WF eng → e.inc = true → ∀ x ∈ f e, x = e

/-- ordinary states of the closed column: congruence in the ordinary states of earlier columns and seed -/
theorem close_coreEq {eng : Engine ι} {ok : List (Col ι) → (Entry ι → List (Entry ι)) → Col ι → Prop}
    (hL : eng.LawfulOn ok) {d d' : List (Col ι)} {s s' : Col ι}
    {f : Entry ι → List (Entry ι)} (hf : EpsOK eng f) (hok : ok d f s) (hok' : ok d' f s')
    (hd : All2 CoreEq d d') (hs : CoreEq s s') (hwf : ∀ e ∈ s, e.WF eng) (hwf' : ∀ e ∈ s', e.WF eng) :
    CoreEq (eng.close d f s) (eng.close d' f s') :=
  hL.close_core d d' f s s' hok hok' hd hs
    (fun e he hi => hf.inc_self e (hL.close_wf d f s hwf hf.wf e he) hi)
    (fun e he hi => hf.inc_self e (hL.close_wf d' f s' hwf' hf.wf e he) hi)

/-- all states of the closed column, while something is left of the fragment (`hni`) -/
theorem close_setEq {eng : Engine ι} {ok : List (Col ι) → (Entry ι → List (Entry ι)) → Col ι → Prop}
    (hL : eng.LawfulOn ok) {d d' : List (Col ι)} {s s' : Col ι}
    {f : Entry ι → List (Entry ι)} (hf : EpsOK eng f) (hni : ∀ e, e.WF eng → ∀ x ∈ f e, x.inc = false)
    (hok : ok d f s) (hok' : ok d' f s')
    (hd : All2 CoreEq d d') (hs : SetEq s s') (hwf : ∀ e ∈ s, e.WF eng) :
    SetEq (eng.close d f s) (eng.close d' f s') := by
  have hwf' : ∀ e ∈ s', e.WF eng := fun e he => hwf e ((hs e).mpr he)
  intro x
  cases hi : x.inc with
  | true =>
    rw [hL.close_inc d f s hok (fun e he => hni e (hL.close_wf d f s hwf hf.wf e he)) x hi,
      hL.close_inc d' f s' hok' (fun e he => hni e (hL.close_wf d' f s' hwf' hf.wf e he)) x hi]
    exact hs x
  | false =>
    have := close_coreEq hL hf hok hok' hd hs.coreEq hwf hwf' x
    simp only [mem_core, hi, and_true] at this
    exact this

/-- the closed column under a scanner that agrees with `f` on well-formed states -/
theorem close_eps_setEq {eng : Engine ι} {ok : List (Col ι) → (Entry ι → List (Entry ι)) → Col ι → Prop}
    (hL : eng.LawfulOn ok) {d : List (Col ι)} {s : Col ι}
    {f f' : Entry ι → List (Entry ι)} (hfwf : ∀ e, e.WF eng → ∀ x ∈ f e, x.WF eng)
    (hff : ∀ e, e.WF eng → f e = f' e) (hwf : ∀ e ∈ s, e.WF eng) (hok : ok d f s) :
    SetEq (eng.close d f s) (eng.close d f' s) ∧ ok d f' s :=
  ⟨hL.close_eps d f f' s hok (fun e he => hff e (hL.close_wf d f s hwf hfwf e he)),
   hL.ok_eps d f f' s hok (fun e he => hff e (hL.close_wf d f s hwf hfwf e he))⟩

theorem mem_seedAt {pend : List (Nat × Entry ι)} {k : Nat} {e : Entry ι} :
    e ∈ seedAt pend k ↔ (k, e) ∈ pend := by
  unfold seedAt
  simp only [List.mem_map, List.mem_filter, beq_iff_eq]
  constructor
  · rintro ⟨⟨j, e'⟩, ⟨hm, hj⟩, he⟩
    simp only at hj he
    subst hj he
    exact hm
  · intro h
    exact ⟨(k, e), ⟨h, rfl⟩, rfl⟩

/-! ### states of the incremental parser -/

/-- same ordinary states in every processed column, same scheduled states from the current column on
    ("same complete items, same resumable items") -/
structure PState.Equiv (s t : PState ι) : Prop where
  done : All2 CoreEq s.done t.done
  pend : ∀ j e, s.done.length ≤ j → ((j, e) ∈ s.pend ↔ (j, e) ∈ t.pend)

theorem PState.Equiv.refl (s : PState ι) : s.Equiv s := ⟨forall2_coreEq_refl _, fun _ _ _ => Iff.rfl⟩

theorem PState.Equiv.symm {s t : PState ι} (h : s.Equiv t) : t.Equiv s :=
  ⟨forall2_coreEq_symm h.done, fun j e hj => (h.pend j e (by rw [forall2_length h.done]; exact hj)).symm⟩

theorem PState.Equiv.trans {s t u : PState ι} (h : s.Equiv t) (h' : t.Equiv u) : s.Equiv u :=
  ⟨forall2_coreEq_trans h.done h'.done, fun j e hj =>
    (h.pend j e hj).trans (h'.pend j e (by rw [← forall2_length h.done]; exact hj))⟩

def PState.WF (eng : Engine ι) (s : PState ι) : Prop := ∀ p ∈ s.pend, p.2.WF eng

/-- nothing is scheduled beyond the current column (true after every `consume`) -/
def PState.Settled (s : PState ι) : Prop := ∀ p ∈ s.pend, p.1 ≤ s.done.length

section okdefs
variable (eng : Engine ι) (R : ROracle) (md : Mode)
variable (ok : List (Col ι) → (Entry ι → List (Entry ι)) → Col ι → Prop)

/-! #### the passes of a run that the laws must cover -/

/-- the pass of `procCol` -/
def procOK (word : Units) (w : Nat) (s : PState ι) : Prop :=
  ok s.done (epsScan eng R md s.done.length (word.drop w) w word.length) (seedAt s.pend s.done.length)

/-- the passes of `feedFrom` -/
def feedFromOK (word : Units) : Nat → Nat → PState ι → Prop
  | _, 0, _ => True
  | i, n + 1, s => procOK eng R md ok word (i / 8) s ∧
      feedFromOK word (i + 1) n (procCol eng R md word (i / 8) s)

/-- the pass of `lastCol` (the scan of the exhausted fragment, which yields the complete parses) -/
def lastOK (s : PState ι) : Prop :=
  ok s.done (epsScan eng R md s.done.length [] 0 0) (seedAt s.pend s.done.length)

/-- every pass of `consume(word)` from state `s`: its columns and the scan of the exhausted fragment -/
def feedOK (s : PState ι) (word : Units) : Prop :=
  feedFromOK eng R md ok word 0 (8 * word.length) s ∧ lastOK eng R md ok (feed eng R md s word)

/-- every pass of the runs that the chunking theorem compares (`rs` = the pieces in reverse order): feeding the
    pieces one by one, feeding the concatenation of the first `i` pieces at once, and feeding the next piece
    after that -/
def chunkOK (s : PState ι) : List Units → Prop
  | [] => True
  | p :: rs => chunkOK s rs ∧ feedOK eng R md ok s rs.reverse.flatten ∧
      feedOK eng R md ok s (rs.reverse.flatten ++ p) ∧
      feedOK eng R md ok (feed eng R md s rs.reverse.flatten) p ∧
      feedOK eng R md ok (rs.reverse.foldl (feed eng R md) s) p

theorem feedFromOK_true (word : Units) : ∀ (n i : Nat) (s : PState ι),
    feedFromOK eng R md (fun _ _ _ => True) word i n s
  | 0, _, _ => trivial
  | n + 1, i, s => ⟨trivial, feedFromOK_true word n (i + 1) _⟩

theorem feedOK_true (s : PState ι) (word : Units) : feedOK eng R md (fun _ _ _ => True) s word :=
  ⟨feedFromOK_true eng R md word _ _ _, trivial⟩

theorem chunkOK_true (s : PState ι) : ∀ rs : List Units, chunkOK eng R md (fun _ _ _ => True) s rs
  | [] => trivial
  | _ :: rs => ⟨chunkOK_true s rs, feedOK_true eng R md _ _, feedOK_true eng R md _ _, feedOK_true eng R md _ _,
      feedOK_true eng R md _ _⟩

end okdefs

section runs
variable (eng : Engine ι) (R : ROracle) (md : Mode)
variable {ok : List (Col ι) → (Entry ι → List (Entry ι)) → Col ι → Prop} {okc : List (Col ι) → Col ι → Prop}

/-- the same-column scanner of a column, as the cut lemmas see it -/
theorem epsOK (hR : CutStable R) (k : Nat) (rest : Units) (w len : Nat) (hlen : rest.length + w = len) :
    EpsOK eng (epsScan eng R md k rest w len) :=
  ⟨fun e he => epsScan_wf eng R md hR k rest w len hlen e he,
   fun e he hi => epsScan_inc_self eng R md hR k rest w len hlen e he hi⟩

theorem drop_len {word : Units} {w : Nat} (hw : w ≤ word.length) : (word.drop w).length + w = word.length := by
  simp only [List.length_drop]; omega

theorem drop_ne_nil {word : Units} {w : Nat} (hw : w < word.length) : word.drop w ≠ [] := by
  intro hnil
  have := congrArg List.length hnil
  simp only [List.length_drop, List.length_nil] at this
  omega

theorem procCol_done (word : Units) (w : Nat) (s : PState ι) :
    (procCol eng R md word w s).done = s.done ++
      [eng.close s.done (epsScan eng R md s.done.length (word.drop w) w word.length)
        (seedAt s.pend s.done.length)] := rfl

theorem procCol_pend (word : Units) (w : Nat) (s : PState ι) :
    (procCol eng R md word w s).pend = s.pend ++
      scanCol eng R md (eng.close s.done (epsScan eng R md s.done.length (word.drop w) w word.length)
        (seedAt s.pend s.done.length)) s.done.length word w := rfl

theorem procCol_eq (word : Units) (w : Nat) (s : PState ι) (k : Nat) (hk : s.done.length = k) :
    procCol eng R md word w s =
      ⟨s.done ++ [eng.close s.done (epsScan eng R md k (word.drop w) w word.length) (seedAt s.pend k)],
        s.pend ++ scanCol eng R md
          (eng.close s.done (epsScan eng R md k (word.drop w) w word.length) (seedAt s.pend k)) k word w⟩ := by
  subst hk; rfl

theorem feedFrom_succ_end (word : Units) : ∀ (n i : Nat) (s : PState ι),
    feedFrom eng R md word i (n + 1) s =
      procCol eng R md word ((i + n) / 8) (feedFrom eng R md word i n s)
  | 0, i, s => by simp [feedFrom]
  | n + 1, i, s => by
    have := feedFrom_succ_end word n (i + 1) (procCol eng R md word (i / 8) s)
    simp only [feedFrom] at this ⊢
    rw [this]
    have : i + 1 + n = i + (n + 1) := by omega
    rw [this]

theorem feedFrom_add (word : Units) : ∀ (p q i : Nat) (s : PState ι),
    feedFrom eng R md word i (p + q) s =
      feedFrom eng R md word (i + p) q (feedFrom eng R md word i p s)
  | 0, q, i, s => by simp [feedFrom]
  | p + 1, q, i, s => by
    have : p + 1 + q = (p + q) + 1 := by omega
    rw [this]
    simp only [feedFrom]
    rw [feedFrom_add word p q (i + 1)]
    have : i + 1 + p = i + (p + 1) := by omega
    rw [this]

theorem feedFromOK_add (word : Units) : ∀ (p q i : Nat) (s : PState ι),
    feedFromOK eng R md ok word i (p + q) s ↔
      (feedFromOK eng R md ok word i p s ∧
        feedFromOK eng R md ok word (i + p) q (feedFrom eng R md word i p s))
  | 0, q, i, s => by simp [feedFromOK, feedFrom]
  | p + 1, q, i, s => by
    have : p + 1 + q = (p + q) + 1 := by omega
    rw [this]
    simp only [feedFromOK, feedFrom]
    rw [feedFromOK_add word p q (i + 1)]
    have : i + 1 + p = i + (p + 1) := by omega
    rw [this, and_assoc]

theorem feedFromOK_succ_end (word : Units) (n i : Nat) (s : PState ι) :
    feedFromOK eng R md ok word i (n + 1) s ↔
      (feedFromOK eng R md ok word i n s ∧
        procOK eng R md ok word ((i + n) / 8) (feedFrom eng R md word i n s)) := by
  rw [feedFromOK_add eng R md word n 1 i s]
  simp only [feedFromOK, and_true]

theorem feedFrom_done_length (word : Units) : ∀ (n i : Nat) (s : PState ι),
    (feedFrom eng R md word i n s).done.length = s.done.length + n
  | 0, _, _ => rfl
  | n + 1, i, s => by
    simp only [feedFrom]
    rw [feedFrom_done_length word n, procCol_done]
    simp only [List.length_append, List.length_singleton]
    omega

/-! #### well-formedness is kept -/

theorem mem_scanCol {col : Col ι} {k : Nat} {word : Units} {w : Nat} {p : Nat × Entry ι} :
    p ∈ scanCol eng R md col k word w ↔
      ∃ e ∈ col, p ∈ scanEntry eng R md k e (word.drop w) w word.length := by
  simp [scanCol, List.mem_flatMap]

theorem seed_wf {s : PState ι} (hs : s.WF eng) (k : Nat) : ∀ e ∈ seedAt s.pend k, e.WF eng := by
  intro e he
  rw [mem_seedAt] at he
  exact hs _ he

/-- the states of the column that is being processed are well formed -/
theorem col_wf (hL : eng.LawfulOn ok) (hR : CutStable R) (word : Units) (w : Nat) (hw : w ≤ word.length)
    {s : PState ι} (hs : s.WF eng) (k : Nat) :
    ∀ e ∈ eng.close s.done (epsScan eng R md k (word.drop w) w word.length) (seedAt s.pend k), e.WF eng :=
  hL.close_wf _ _ _ (seed_wf eng hs k) (epsOK eng R md hR k _ w _ (drop_len hw)).wf

theorem procCol_wf (hL : eng.LawfulOn ok) (hR : CutStable R) (word : Units) (w : Nat) (hw : w ≤ word.length)
    {s : PState ι} (hs : s.WF eng) : (procCol eng R md word w s).WF eng := by
  intro q hq
  rw [procCol_pend, List.mem_append] at hq
  rcases hq with hq | hq
  · exact hs q hq
  · rw [mem_scanCol] at hq
    obtain ⟨e, he, hx⟩ := hq
    exact (scanEntry_out eng R md hR _ e (col_wf eng R md hL hR word w hw hs _ e he) _ _ _
      (drop_len hw) q.1 q.2 hx).1

theorem feedFrom_wf (hL : eng.LawfulOn ok) (hR : CutStable R) (word : Units) : ∀ (n i : Nat) {s : PState ι},
    i + n ≤ 8 * word.length → s.WF eng → (feedFrom eng R md word i n s).WF eng
  | 0, _, _, _, h => h
  | n + 1, i, _, hin, h => by
    simp only [feedFrom]
    exact feedFrom_wf hL hR word n (i + 1) (by omega) (procCol_wf eng R md hL hR word (i / 8) (by omega) h)

theorem feed_wf (hL : eng.LawfulOn ok) (hR : CutStable R) {s : PState ι} (hs : s.WF eng) (word : Units) :
    (feed eng R md s word).WF eng :=
  feedFrom_wf eng R md hL hR word _ 0 (by omega) hs

theorem foldl_feed_wf (hL : eng.LawfulOn ok) (hR : CutStable R) : ∀ (pieces : List Units) {s : PState ι},
    s.WF eng → (pieces.foldl (feed eng R md) s).WF eng
  | [], _, h => h
  | p :: ps, _, h => foldl_feed_wf hL hR ps (feed_wf eng R md hL hR h p)

/-! #### congruence -/

theorem procCol_congr (hL : eng.LawfulOn ok) (hR : CutStable R) (word : Units) (w : Nat) (hw : w < word.length)
    {s t : PState ι} (h : s.Equiv t) (hs : s.WF eng)
    (hos : procOK eng R md ok word w s) (hot : procOK eng R md ok word w t) :
    (procCol eng R md word w s).Equiv (procCol eng R md word w t) := by
  have hlen := forall2_length h.done
  unfold procOK at hos hot
  rw [← hlen] at hot
  have hseed : SetEq (seedAt s.pend s.done.length) (seedAt t.pend s.done.length) := by
    intro e
    rw [mem_seedAt, mem_seedAt]
    exact h.pend _ e (Nat.le_refl _)
  have hcol : SetEq
      (eng.close s.done (epsScan eng R md s.done.length (word.drop w) w word.length) (seedAt s.pend s.done.length))
      (eng.close t.done (epsScan eng R md s.done.length (word.drop w) w word.length)
        (seedAt t.pend s.done.length)) :=
    close_setEq hL (epsOK eng R md hR _ _ w _ (drop_len (by omega)))
      (epsScan_noinc eng R md hR _ _ (drop_ne_nil hw) w _ (drop_len (by omega)))
      hos hot h.done hseed (seed_wf eng hs _)
  constructor
  · rw [procCol_done, procCol_done, ← hlen]
    exact forall2_snoc h.done hcol.coreEq
  · intro j e hj
    rw [procCol_done] at hj
    simp only [List.length_append, List.length_singleton] at hj
    rw [procCol_pend, procCol_pend, List.mem_append, List.mem_append, mem_scanCol, mem_scanCol, ← hlen]
    rw [h.pend j e (by omega)]
    constructor
    · rintro (h1 | ⟨e', he', h2⟩)
      · exact Or.inl h1
      · exact Or.inr ⟨e', (hcol e').mp he', h2⟩
    · rintro (h1 | ⟨e', he', h2⟩)
      · exact Or.inl h1
      · exact Or.inr ⟨e', (hcol e').mpr he', h2⟩

theorem feedFrom_congr (hL : eng.LawfulOn ok) (hR : CutStable R) (word : Units) : ∀ (n i : Nat) {s t : PState ι},
    i + n ≤ 8 * word.length → s.Equiv t → s.WF eng →
    feedFromOK eng R md ok word i n s → feedFromOK eng R md ok word i n t →
    (feedFrom eng R md word i n s).Equiv (feedFrom eng R md word i n t)
  | 0, _, _, _, _, h, _, _, _ => h
  | n + 1, i, _, _, hin, h, hs, hos, hot => by
    simp only [feedFrom]
    exact feedFrom_congr hL hR word n (i + 1) (by omega)
      (procCol_congr eng R md hL hR word (i / 8) (by omega) h hs hos.1 hot.1)
      (procCol_wf eng R md hL hR word (i / 8) (by omega) hs) hos.2 hot.2

theorem feed_congr (hL : eng.LawfulOn ok) (hR : CutStable R) (word : Units) {s t : PState ι} (h : s.Equiv t)
    (hs : s.WF eng) (hos : feedOK eng R md ok s word) (hot : feedOK eng R md ok t word) :
    (feed eng R md s word).Equiv (feed eng R md t word) :=
  feedFrom_congr eng R md hL hR word _ 0 (by omega) h hs hos.1 hot.1

theorem lastCol_coreEq (hL : eng.LawfulOn ok) (hR : CutStable R) {s t : PState ι} (h : s.Equiv t)
    (hs : s.WF eng) (ht : t.WF eng) (hos : lastOK eng R md ok s) (hot : lastOK eng R md ok t) :
    CoreEq (lastCol eng R md s) (lastCol eng R md t) := by
  have hlen := forall2_length h.done
  unfold lastOK at hos hot
  unfold lastCol
  rw [← hlen] at hot ⊢
  apply close_coreEq hL (epsOK eng R md hR _ [] 0 0 rfl) hos hot h.done _ (seed_wf eng hs _) (seed_wf eng ht _)
  apply SetEq.coreEq
  intro e
  rw [mem_seedAt, mem_seedAt]
  exact h.pend _ e (Nat.le_refl _)

theorem completeParses_congr (hL : eng.LawfulOn ok) (hR : CutStable R) {s t : PState ι} (h : s.Equiv t)
    (hs : s.WF eng) (ht : t.WF eng) (hos : lastOK eng R md ok s) (hot : lastOK eng R md ok t) :
    SetEq (completeParses eng R md s) (completeParses eng R md t) :=
  hL.trees_core _ _ (lastCol_coreEq eng R md hL hR h hs ht hos hot)

theorem resumable_congr {s t : PState ι} (h : s.Equiv t) : SetEq (resumable s) (resumable t) := by
  have hlen := forall2_length h.done
  intro e
  simp only [resumable, List.mem_filter, mem_seedAt, ← hlen]
  rw [h.pend _ e (Nat.le_refl _)]

/-! #### the second fragment, seen from the whole input -/

theorem procCol_shift (a b : Units) (hb : b ≠ []) (w : Nat) (s : PState ι) :
    procCol eng R md (a ++ b) (a.length + w) s = procCol eng R md b w s := by
  have hdrop : (a ++ b).drop (a.length + w) = b.drop w := by
    rw [List.drop_append]
    simp
  have heps : epsScan eng R md s.done.length ((a ++ b).drop (a.length + w)) (a.length + w) (a ++ b).length =
      epsScan eng R md s.done.length (b.drop w) w b.length := by
    funext e
    unfold epsScan
    rw [scanEntry_shift eng R md _ _ a b hb w]
  unfold procCol scanCol
  simp only [heps, scanEntry_shift eng R md _ _ a b hb w]

theorem procOK_shift (a b : Units) (hb : b ≠ []) (w : Nat) (s : PState ι) :
    procOK eng R md ok (a ++ b) (a.length + w) s ↔ procOK eng R md ok b w s := by
  have hdrop : (a ++ b).drop (a.length + w) = b.drop w := by
    rw [List.drop_append]
    simp
  have heps : epsScan eng R md s.done.length ((a ++ b).drop (a.length + w)) (a.length + w) (a ++ b).length =
      epsScan eng R md s.done.length (b.drop w) w b.length := by
    funext e
    unfold epsScan
    rw [scanEntry_shift eng R md _ _ a b hb w]
  unfold procOK
  rw [heps]

theorem feedFrom_shift (hL : eng.LawfulOn ok) (hR : CutStable R) (a b : Units) (hb : b ≠ []) :
    ∀ (q i : Nat) {s t : PState ι}, i + q ≤ 8 * b.length → s.Equiv t → s.WF eng →
    feedFromOK eng R md ok (a ++ b) (8 * a.length + i) q s → feedFromOK eng R md ok b i q t →
    (feedFrom eng R md (a ++ b) (8 * a.length + i) q s).Equiv (feedFrom eng R md b i q t)
  | 0, _, _, _, _, h, _, _, _ => h
  | q + 1, i, s, t, hiq, h, hs, hos, hot => by
    simp only [feedFrom]
    have hw : (8 * a.length + i) / 8 = a.length + i / 8 := by omega
    obtain ⟨hos1, hos2⟩ := hos
    rw [hw] at hos1 hos2
    rw [procCol_shift eng R md a b hb] at hos2
    rw [hw, procCol_shift eng R md a b hb]
    have hi : 8 * a.length + i + 1 = 8 * a.length + (i + 1) := by omega
    rw [hi] at hos2 ⊢
    exact feedFrom_shift hL hR a b hb q (i + 1) (by omega)
      (procCol_congr eng R md hL hR b (i / 8) (by omega) h hs
        ((procOK_shift eng R md a b hb (i / 8) s).mp hos1) hot.1)
      (procCol_wf eng R md hL hR b (i / 8) (by omega) hs) hos2 hot.2

/-! #### resumption, membership -/

theorem mem_resumeAt {bd : Nat} {b : Units} {outs : List (Nat × Entry ι)} {j : Nat} {x : Entry ι} :
    (j, x) ∈ resumeAt eng R md bd b outs ↔
      ((j, x) ∈ outs ∧ ¬ (x.inc = true ∧ j = bd)) ∨
      ∃ e0, (bd, e0) ∈ outs ∧ e0.inc = true ∧ (j, x) ∈ scanEntry eng R md bd e0 b 0 b.length := by
  unfold resumeAt
  rw [List.mem_flatMap]
  constructor
  · rintro ⟨⟨j', e'⟩, hp, hx⟩
    by_cases hc : (e'.inc = true ∧ j' = bd)
    · simp only [hc, and_self, if_true] at hx
      obtain ⟨h1, h2⟩ := hc
      subst h2
      exact Or.inr ⟨e', hp, h1, hx⟩
    · rw [if_neg hc] at hx
      simp only [List.mem_singleton, Prod.mk.injEq] at hx
      obtain ⟨rfl, rfl⟩ := hx
      exact Or.inl ⟨hp, hc⟩
  · rintro (⟨hp, hc⟩ | ⟨e0, hp, hi, hx⟩)
    · exact ⟨(j, x), hp, by rw [if_neg hc]; simp⟩
    · exact ⟨(bd, e0), hp, by simp only [hi, and_self, if_true]; exact hx⟩

/-- before the cut, resumption changes nothing -/
theorem mem_resumeAt_lt (hR : CutStable R) {bd : Nat} {b : Units} (hb : b ≠ []) {outs : List (Nat × Entry ι)}
    (hwf : ∀ p ∈ outs, p.2.WF eng) {j : Nat} {x : Entry ι} (hj : j < bd) :
    (j, x) ∈ resumeAt eng R md bd b outs ↔ (j, x) ∈ outs := by
  rw [mem_resumeAt]
  constructor
  · rintro (⟨h, _⟩ | ⟨e0, hp, hi, hx⟩)
    · exact h
    · have := resume_target_gt eng R md hR bd e0 (hwf _ hp) hi b hb j x hx
      omega
  · intro h
    exact Or.inl ⟨h, fun hc => by omega⟩

/-- at the cut, exactly the ordinary states stay -/
theorem mem_resumeAt_eq (hR : CutStable R) {bd : Nat} {b : Units} (hb : b ≠ []) {outs : List (Nat × Entry ι)}
    (hwf : ∀ p ∈ outs, p.2.WF eng) {x : Entry ι} :
    (bd, x) ∈ resumeAt eng R md bd b outs ↔ ((bd, x) ∈ outs ∧ x.inc = false) := by
  rw [mem_resumeAt]
  constructor
  · rintro (⟨h, hc⟩ | ⟨e0, hp, hi, hx⟩)
    · refine ⟨h, ?_⟩
      cases hxi : x.inc with
      | false => rfl
      | true => exact absurd ⟨hxi, rfl⟩ hc
    · have := resume_target_gt eng R md hR bd e0 (hwf _ hp) hi b hb bd x hx
      omega
  · rintro ⟨h, hi⟩
    exact Or.inl ⟨h, fun hc => by rw [hi] at hc; cases hc.1⟩

/-! #### the two runs, before the cut -/

/-- run A (the whole input `a ++ b`) and run B (fragment `a` only) after the same number of columns
    before the cut at column `bd`: same columns, and A's schedule is B's schedule with the parked states
    already resumed with `b` -/
structure Sim (bd : Nat) (b : Units) (sA sB : PState ι) : Prop where
  done : All2 SetEq sA.done sB.done
  pend : ∀ j x, sA.done.length ≤ j → ((j, x) ∈ sA.pend ↔ (j, x) ∈ resumeAt eng R md bd b sB.pend)
  wfB : sB.WF eng
  leB : ∀ p ∈ sB.pend, p.1 ≤ bd

theorem sim_init (s : PState ι) (hwf : s.WF eng) (hset : s.Settled) (bd : Nat) (hbd : s.done.length < bd)
    (b : Units) : Sim eng R md bd b s s := by
  refine ⟨all2_setEq_refl _, ?_, hwf, fun p hp => by have := hset p hp; omega⟩
  intro j x _
  rw [mem_resumeAt]
  constructor
  · intro h
    have := hset _ h
    exact Or.inl ⟨h, fun hc => by simp only at this; omega⟩
  · rintro (⟨h, _⟩ | ⟨e0, hp, _, _⟩)
    · exact h
    · have := hset _ hp
      simp only at this; omega

/-- one column before the cut -/
theorem sim_step (hL : eng.LawfulOn ok) (hR : CutStable R) (a b : Units) (hb : b ≠ []) (k0 p : Nat)
    (hp : p < 8 * a.length) (hk0 : k0 % 8 = 0) {sA sB : PState ι}
    (h : Sim eng R md (k0 + 8 * a.length) b sA sB) (hk : sA.done.length = k0 + p)
    (hoA : procOK eng R md ok (a ++ b) (p / 8) sA) (hoB : procOK eng R md ok a (p / 8) sB) :
    Sim eng R md (k0 + 8 * a.length) b (procCol eng R md (a ++ b) (p / 8) sA)
      (procCol eng R md a (p / 8) sB) := by
  have hlen := forall2_length h.done
  have hkB : sB.done.length = k0 + p := by rw [← hlen]; exact hk
  unfold procOK at hoA hoB
  rw [hk] at hoA
  rw [hkB] at hoB
  have hw : p / 8 < a.length := by omega
  rw [procCol_eq eng R md _ _ sA _ hk, procCol_eq eng R md _ _ sB _ hkB]
  -- what is left of `a`
  have hra : a.drop (p / 8) ≠ [] := drop_ne_nil hw
  have hralen : (a.drop (p / 8)).length + p / 8 = a.length := drop_len (by omega)
  have hdropA : (a ++ b).drop (p / 8) = a.drop (p / 8) ++ b :=
    List.drop_append_of_le_length (by omega)
  -- same seed
  have hseed : SetEq (seedAt sA.pend (k0 + p)) (seedAt sB.pend (k0 + p)) := by
    intro e
    rw [mem_seedAt, mem_seedAt, h.pend _ e (by omega)]
    exact mem_resumeAt_lt eng R md hR hb h.wfB (by omega)
  have hseedwfB := seed_wf eng h.wfB (k0 + p)
  have hseedwfA : ∀ e ∈ seedAt sA.pend (k0 + p), e.WF eng := fun e he => hseedwfB e ((hseed e).mp he)
  -- the same-column scanners of the two runs agree on well-formed states
  have hokB := epsOK eng R md hR (k0 + p) (a.drop (p / 8)) (p / 8) a.length hralen
  have hniB := epsScan_noinc eng R md hR (k0 + p) (a.drop (p / 8)) hra (p / 8) a.length hralen
  have hAB : ∀ e, e.WF eng →
      epsScan eng R md (k0 + p) ((a ++ b).drop (p / 8)) (p / 8) (a ++ b).length e =
        epsScan eng R md (k0 + p) (a.drop (p / 8)) (p / 8) a.length e := by
    intro e he
    rw [hdropA, List.length_append]
    exact epsScan_cut eng R md hR (k0 + p) e he _ b hra hb _ _ hralen
  have hfAwf : ∀ e, e.WF eng →
      ∀ x ∈ epsScan eng R md (k0 + p) ((a ++ b).drop (p / 8)) (p / 8) (a ++ b).length e, x.WF eng := by
    intro e he
    rw [hAB e he]
    exact hokB.wf e he
  -- same closed column
  have hcol : SetEq
      (eng.close sA.done (epsScan eng R md (k0 + p) ((a ++ b).drop (p / 8)) (p / 8) (a ++ b).length)
        (seedAt sA.pend (k0 + p)))
      (eng.close sB.done (epsScan eng R md (k0 + p) (a.drop (p / 8)) (p / 8) a.length)
        (seedAt sB.pend (k0 + p))) :=
    (close_eps_setEq hL hfAwf hAB hseedwfA hoA).1.trans
      (close_setEq hL hokB hniB (close_eps_setEq hL hfAwf hAB hseedwfA hoA).2 hoB
        (all2_setEq_coreEq h.done) hseed hseedwfA)
  have hwfcol : ∀ e ∈ eng.close sB.done (epsScan eng R md (k0 + p) (a.drop (p / 8)) (p / 8) a.length)
      (seedAt sB.pend (k0 + p)), e.WF eng :=
    hL.close_wf _ _ _ hseedwfB hokB.wf
  -- the cut lemma for every state of the column
  have hcut : ∀ e ∈ eng.close sB.done (epsScan eng R md (k0 + p) (a.drop (p / 8)) (p / 8) a.length)
      (seedAt sB.pend (k0 + p)),
      scanEntry eng R md (k0 + p) e ((a ++ b).drop (p / 8)) (p / 8) (a ++ b).length =
        resumeAt eng R md (k0 + 8 * a.length) b
          (scanEntry eng R md (k0 + p) e (a.drop (p / 8)) (p / 8) a.length) := by
    intro e he
    rw [hdropA, List.length_append]
    apply scanEntry_cut eng R md hR (k0 + p) e (hwfcol e he) _ b hra hb _ _ hralen
    intro _ h8
    simp only [List.length_drop]
    omega
  refine ⟨?_, ?_, ?_, ?_⟩
  · exact forall2_snoc h.done hcol
  · intro j x hj
    simp only [List.length_append, List.length_singleton] at hj
    simp only []
    rw [resumeAt_append, List.mem_append, List.mem_append, h.pend j x (by omega)]
    apply or_congr Iff.rfl
    rw [mem_scanCol]
    unfold scanCol resumeAt
    rw [List.flatMap_assoc, List.mem_flatMap]
    constructor
    · rintro ⟨e, he, hx⟩
      have heB := (hcol e).mp he
      refine ⟨e, heB, ?_⟩
      have := hcut e heB
      unfold resumeAt at this
      rw [← this]
      exact hx
    · rintro ⟨e, heB, hx⟩
      refine ⟨e, (hcol e).mpr heB, ?_⟩
      have := hcut e heB
      unfold resumeAt at this
      rw [this]
      exact hx
  · intro q hq
    simp only [] at hq
    rw [List.mem_append] at hq
    rcases hq with hq | hq
    · exact h.wfB q hq
    · rw [mem_scanCol] at hq
      obtain ⟨e, he, hx⟩ := hq
      exact (scanEntry_out eng R md hR _ e (hwfcol e he) _ _ _ hralen q.1 q.2 hx).1
  · intro q hq
    simp only [] at hq
    rw [List.mem_append] at hq
    rcases hq with hq | hq
    · exact h.leB q hq
    · rw [mem_scanCol] at hq
      obtain ⟨e, he, hx⟩ := hq
      obtain ⟨_, _, h3, h4⟩ := scanEntry_out eng R md hR _ e (hwfcol e he) _ _ _ hralen q.1 q.2 hx
      by_cases hwb : wantsBytes eng e
      · have := h3 hwb
        simp only [List.length_drop] at this
        omega
      · have := (h4 hwb).1
        omega

/-- all columns before the cut -/
theorem sim_phase1 (hL : eng.LawfulOn ok) (hR : CutStable R) (a b : Units) (hb : b ≠ []) (s : PState ι)
    (hwf : s.WF eng) (hset : s.Settled) (hk0 : s.done.length % 8 = 0) (ha : a ≠ []) :
    ∀ p, p ≤ 8 * a.length → feedFromOK eng R md ok (a ++ b) 0 p s → feedFromOK eng R md ok a 0 p s →
      Sim eng R md (s.done.length + 8 * a.length) b (feedFrom eng R md (a ++ b) 0 p s)
        (feedFrom eng R md a 0 p s)
  | 0, _, _, _ => by
    have : 0 < a.length := List.length_pos_iff.mpr ha
    exact sim_init eng R md s hwf hset _ (by omega) b
  | p + 1, hp, hoA, hoB => by
    rw [feedFromOK_succ_end] at hoA hoB
    simp only [Nat.zero_add] at hoA hoB
    have ih := sim_phase1 hL hR a b hb s hwf hset hk0 ha p (by omega) hoA.1 hoB.1
    rw [feedFrom_succ_end, feedFrom_succ_end]
    simp only [Nat.zero_add]
    have hlenp : (feedFrom eng R md (a ++ b) 0 p s).done.length = s.done.length + p :=
      feedFrom_done_length eng R md _ p 0 s
    exact sim_step eng R md hL hR a b hb s.done.length p (by omega) hk0 ih hlenp hoA.2 hoB.2

/-- the column at the cut: from here on both runs are in equivalent states -/
theorem sim_handover (hL : eng.LawfulOn ok) (hR : CutStable R) (a b : Units) (hb : b ≠ []) (bd : Nat)
    {sA sB : PState ι} (h : Sim eng R md bd b sA sB) (hk : sA.done.length = bd)
    (hoA : procOK eng R md ok (a ++ b) a.length sA) (hoB : procOK eng R md ok b 0 sB) :
    (procCol eng R md (a ++ b) a.length sA).Equiv (procCol eng R md b 0 sB) := by
  have hlen := forall2_length h.done
  have hkB : sB.done.length = bd := by rw [← hlen]; exact hk
  have hb0 : 0 < b.length := List.length_pos_iff.mpr hb
  have hoA' : procOK eng R md ok b 0 sA := by
    have := (procOK_shift eng R md (ok := ok) a b hb 0 sA).mp (by simpa using hoA)
    exact this
  unfold procOK at hoA' hoB
  rw [hk] at hoA'
  rw [hkB] at hoB
  have hsh := procCol_shift eng R md a b hb 0 sA
  simp only [Nat.add_zero] at hsh
  rw [hsh, procCol_eq eng R md _ _ sA _ hk, procCol_eq eng R md _ _ sB _ hkB]
  -- seeds: A has exactly B's ordinary states
  have hseedA : ∀ e, e ∈ seedAt sA.pend bd ↔ (e ∈ seedAt sB.pend bd ∧ e.inc = false) := by
    intro e
    rw [mem_seedAt, mem_seedAt, h.pend _ e (by omega)]
    exact mem_resumeAt_eq eng R md hR hb h.wfB
  have hcore : CoreEq (seedAt sA.pend bd) (seedAt sB.pend bd) := by
    intro e
    simp only [mem_core, hseedA e]
    constructor
    · rintro ⟨⟨h1, _⟩, h2⟩; exact ⟨h1, h2⟩
    · rintro ⟨h1, h2⟩; exact ⟨⟨h1, h2⟩, h2⟩
  have hseedwfB := seed_wf eng h.wfB bd
  have hseedwfA : ∀ e ∈ seedAt sA.pend bd, e.WF eng := fun e he => hseedwfB e ((hseedA e).mp he).1
  have hblen : (b.drop 0).length + 0 = b.length := by simp
  have hbne : b.drop 0 ≠ [] := by simpa using hb
  have hok := epsOK eng R md hR bd (b.drop 0) 0 b.length hblen
  have hni := epsScan_noinc eng R md hR bd (b.drop 0) hbne 0 b.length hblen
  have hdone := all2_setEq_coreEq h.done
  have hcolcore := close_coreEq hL hok hoA' hoB hdone hcore hseedwfA hseedwfB
  have hincA := hL.close_inc sA.done _ (seedAt sA.pend bd) hoA'
    (fun e he => hni e (hL.close_wf _ _ _ hseedwfA hok.wf e he))
  have hincB := hL.close_inc sB.done _ (seedAt sB.pend bd) hoB
    (fun e he => hni e (hL.close_wf _ _ _ hseedwfB hok.wf e he))
  have hnoinc : ∀ e ∈ eng.close sA.done (epsScan eng R md bd (b.drop 0) 0 b.length) (seedAt sA.pend bd),
      e.inc = false := by
    intro e he
    cases hi : e.inc with
    | false => rfl
    | true =>
      have := (hincA e hi).mp he
      rw [hseedA e] at this
      rw [this.2] at hi
      cases hi
  constructor
  · exact forall2_snoc hdone hcolcore
  · intro j x hj
    simp only [List.length_append, List.length_singleton] at hj
    simp only []
    rw [List.mem_append, List.mem_append, mem_scanCol, mem_scanCol, h.pend j x (by omega), mem_resumeAt]
    simp only [List.drop_zero] at hincA hincB hnoinc hcolcore ⊢
    constructor
    · rintro ((⟨h1, _⟩ | ⟨e0, hp, hi, hx⟩) | ⟨e, he, hx⟩)
      · have := h.leB _ h1
        simp only at this; omega
      · right
        refine ⟨e0, ?_, hx⟩
        rw [hincB e0 hi, mem_seedAt]
        exact hp
      · right
        refine ⟨e, ?_, hx⟩
        have hi := hnoinc e he
        have := (hcolcore e).mp (mem_core.mpr ⟨he, hi⟩)
        exact (mem_core.mp this).1
    · rintro (h1 | ⟨e, he, hx⟩)
      · have := h.leB _ h1
        simp only at this; omega
      · cases hi : e.inc with
        | true =>
          left; right
          refine ⟨e, ?_, hi, hx⟩
          have := (hincB e hi).mp he
          rw [mem_seedAt] at this
          exact this
        | false =>
          right
          refine ⟨e, ?_, hx⟩
          have := (hcolcore e).mpr (mem_core.mpr ⟨he, hi⟩)
          exact (mem_core.mp this).1

/-- **feeding `a` and then `b` reaches a state equivalent to feeding `a ++ b`** -/
theorem feed_append (hL : eng.LawfulOn ok) (hR : CutStable R) (s : PState ι) (hwf : s.WF eng) (hset : s.Settled)
    (hk0 : s.done.length % 8 = 0) (a b : Units)
    (hoW : feedOK eng R md ok s (a ++ b)) (hoA : feedOK eng R md ok s a)
    (hoB : feedOK eng R md ok (feed eng R md s a) b) :
    (feed eng R md s (a ++ b)).Equiv (feed eng R md (feed eng R md s a) b) := by
  by_cases hb : b = []
  · subst hb
    simp only [List.append_nil]
    exact PState.Equiv.refl _
  by_cases ha : a = []
  · subst ha
    simp only [List.nil_append]
    exact PState.Equiv.refl _
  have hb0 : 0 < b.length := List.length_pos_iff.mpr hb
  obtain ⟨q, hq⟩ : ∃ q, 8 * b.length = 1 + q := ⟨8 * b.length - 1, by omega⟩
  have hsplitA : 8 * (a ++ b).length = 8 * a.length + (1 + q) := by
    simp only [List.length_append]; omega
  -- the passes of the three runs, split the same way
  have hoW1 := hoW.1
  have hoA1 := hoA.1
  have hoB1 := hoB.1
  unfold feed at hoB1
  rw [hsplitA, feedFromOK_add, feedFromOK_add] at hoW1
  rw [hq, feedFromOK_add] at hoB1
  simp only [Nat.zero_add] at hoW1 hoB1
  obtain ⟨hoW1, hoW2, hoW3⟩ := hoW1
  obtain ⟨hoB2, hoB3⟩ := hoB1
  unfold feed
  have hphase1 := sim_phase1 eng R md hL hR a b hb s hwf hset hk0 ha (8 * a.length) (Nat.le_refl _) hoW1 hoA1
  -- split run A at the cut, and one column later
  rw [hsplitA, feedFrom_add, feedFrom_add, hq, feedFrom_add]
  simp only [Nat.zero_add]
  have hk : (feedFrom eng R md (a ++ b) 0 (8 * a.length) s).done.length = s.done.length + 8 * a.length :=
    feedFrom_done_length eng R md _ _ 0 s
  have hdiv : 8 * a.length / 8 = a.length := by omega
  have hhand := sim_handover eng R md hL hR a b hb _ hphase1 hk
    (by have := hoW2.1; rw [hdiv] at this; exact this) (by have := hoB2.1; simpa using this)
  have h1A : feedFrom eng R md (a ++ b) (8 * a.length) 1 (feedFrom eng R md (a ++ b) 0 (8 * a.length) s) =
      procCol eng R md (a ++ b) a.length (feedFrom eng R md (a ++ b) 0 (8 * a.length) s) := by
    simp only [feedFrom]
    have : 8 * a.length / 8 = a.length := by omega
    rw [this]
  have h1B : feedFrom eng R md b 0 1 (feedFrom eng R md a 0 (8 * a.length) s) =
      procCol eng R md b 0 (feedFrom eng R md a 0 (8 * a.length) s) := by
    simp only [feedFrom]
  rw [h1A, h1B]
  have hwfA : (feedFrom eng R md (a ++ b) 0 (8 * a.length) s).WF eng :=
    feedFrom_wf eng R md hL hR (a ++ b) _ 0 (by simp only [List.length_append]; omega) hwf
  have hwfA1 := procCol_wf eng R md hL hR (a ++ b) a.length (by simp only [List.length_append]; omega) hwfA
  rw [h1A] at hoW3
  rw [h1B] at hoB3
  exact feedFrom_shift eng R md hL hR a b hb _ 1 (by omega) hhand hwfA1 hoW3 hoB3

/-- **any way of cutting the input reaches an equivalent state** -/
theorem chunking (hL : eng.LawfulOn ok) (hR : CutStable R) (s : PState ι) (hwf : s.WF eng) (hset : s.Settled)
    (hk0 : s.done.length % 8 = 0) : ∀ (rs : List Units), chunkOK eng R md ok s rs →
    (feed eng R md s rs.reverse.flatten).Equiv (rs.reverse.foldl (feed eng R md) s)
  | [], _ => by
    simp only [List.reverse_nil, List.flatten_nil, List.foldl_nil]
    exact PState.Equiv.refl _
  | p :: rs, ho => by
    obtain ⟨ho1, ho2, ho3, ho4, ho5⟩ := ho
    simp only [List.reverse_cons, List.flatten_append, List.flatten_cons, List.flatten_nil,
      List.append_nil, List.foldl_append, List.foldl_cons, List.foldl_nil]
    have ih := chunking hL hR s hwf hset hk0 rs ho1
    exact (feed_append eng R md hL hR s hwf hset hk0 _ p ho3 ho2 ho4).trans
      (feed_congr eng R md hL hR p ih (feed_wf eng R md hL hR hwf _) ho4 ho5)

/-! #### `can_continue` -/

/-- nothing is scheduled for the current or a later column -/
def PState.Dead (s : PState ι) : Prop := ∀ p ∈ s.pend, p.1 < s.done.length

theorem seedAt_dead {s : PState ι} (h : s.Dead) : seedAt s.pend s.done.length = [] := by
  apply List.eq_nil_iff_forall_not_mem.mpr
  intro e he
  rw [mem_seedAt] at he
  have := h _ he
  simp only at this; omega

theorem procCol_dead (hC : eng.LawfulCCOn ok okc) (word : Units) (w : Nat) {s : PState ι} (h : s.Dead) :
    (procCol eng R md word w s).Dead := by
  intro p hp
  rw [procCol_pend, seedAt_dead h, hC.close_nil] at hp
  simp only [scanCol, List.flatMap_nil, List.append_nil] at hp
  rw [procCol_done]
  have := h p hp
  simp only [List.length_append, List.length_singleton]
  omega

theorem feedFrom_dead (hC : eng.LawfulCCOn ok okc) (word : Units) : ∀ (n i : Nat) {s : PState ι}, s.Dead →
    (feedFrom eng R md word i n s).Dead
  | 0, _, _, h => h
  | n + 1, i, _, h => by
    simp only [feedFrom]
    exact feedFrom_dead hC word n (i + 1) (procCol_dead eng R md hC word (i / 8) h)

/-- a state that waits for no terminal is not scanned -/
theorem epsScan_want_none (k : Nat) (rest : Units) (w len : Nat) (e : Entry ι) (h : eng.want e.item = none) :
    epsScan eng R md k rest w len e = [] := by
  simp [epsScan, scanEntry, h, sameCol]

/-- **`can_continue() = False` is final**: no non-empty further input yields a complete parse -/
theorem canContinue_false_no_parse (hC : eng.LawfulCCOn ok okc) (s : PState ι) (hset : s.Settled)
    (hcc : canContinue eng s = false) (v : Units) (hv : v ≠ [])
    (hoP : procOK eng R md ok v 0 s) (hoC : okc s.done (seedAt s.pend s.done.length)) :
    completeParses eng R md (feed eng R md s v) = [] := by
  have hv0 : 0 < v.length := List.length_pos_iff.mpr hv
  unfold canContinue at hcc
  split at hcc
  · cases hcc
  · rw [List.any_eq_false] at hcc
    have hstuck := hC.close_stuck s.done (epsScan eng R md s.done.length (v.drop 0) 0 v.length)
      (seedAt s.pend s.done.length) hoP hoC (fun e he => epsScan_want_none eng R md _ _ _ _ e he) (by
      intro e he
      have := hcc e he
      simp only [Bool.or_eq_true, Bool.not_eq_true', not_or, Bool.not_eq_true, Bool.not_eq_false] at this
      exact this)
    -- the first column schedules nothing
    have hfirst : (procCol eng R md v 0 s).Dead := by
      intro p hp
      rw [procCol_pend, List.mem_append] at hp
      rw [procCol_done]
      simp only [List.length_append, List.length_singleton]
      rcases hp with hp | hp
      · have := hset p hp; omega
      · rw [mem_scanCol] at hp
        obtain ⟨e, he, hx⟩ := hp
        simp [scanEntry, hstuck e he] at hx
    have hsplit : 8 * v.length = (8 * v.length - 1) + 1 := by omega
    unfold feed
    have : feedFrom eng R md v 0 (8 * v.length) s =
        feedFrom eng R md v 1 (8 * v.length - 1) (procCol eng R md v 0 s) := by
      conv => lhs; rw [hsplit]
      have : 8 * v.length - 1 + 1 = (8 * v.length - 1).succ := rfl
      simp only [feedFrom]
    rw [this]
    have hdead := feedFrom_dead eng R md hC v (8 * v.length - 1) 1 hfirst
    unfold completeParses lastCol
    rw [seedAt_dead hdead, hC.close_nil, hC.trees_nil]

/-! #### the hypotheses of `feed_append` are invariants of `feed` -/

/-- what `feed_append` asks of the state it starts from -/
structure PState.Ready (eng : Engine ι) (s : PState ι) : Prop where
  wf : s.WF eng
  settled : s.Settled
  bytes : s.done.length % 8 = 0

theorem start_ready (i : ι) : (start i).Ready eng := by
  refine ⟨?_, ?_, rfl⟩
  · intro p hp
    simp only [start, List.mem_singleton] at hp
    subst hp
    exact fresh_wf eng i
  · intro p hp
    simp only [start, List.mem_singleton] at hp
    subst hp
    simp [start]

/-- nothing is ever scheduled beyond the end of the fragment -/
theorem feedFrom_le (hL : eng.LawfulOn ok) (hR : CutStable R) (a : Units) (s : PState ι)
    (hwf : s.WF eng) (hk0 : s.done.length % 8 = 0) (bd : Nat) (hbd : bd = s.done.length + 8 * a.length)
    (hle : ∀ q ∈ s.pend, q.1 ≤ bd) :
    ∀ p, p ≤ 8 * a.length → ∀ q ∈ (feedFrom eng R md a 0 p s).pend, q.1 ≤ bd
  | 0, _ => hle
  | p + 1, hp => by
    have ihle := feedFrom_le hL hR a s hwf hk0 bd hbd hle p (by omega)
    have ihwf : (feedFrom eng R md a 0 p s).WF eng := feedFrom_wf eng R md hL hR a p 0 (by omega) hwf
    have hlenp : (feedFrom eng R md a 0 p s).done.length = s.done.length + p :=
      feedFrom_done_length eng R md _ p 0 s
    rw [feedFrom_succ_end, procCol_eq eng R md _ _ _ _ hlenp]
    simp only [Nat.zero_add]
    have hw : p / 8 < a.length := by omega
    have hralen : (a.drop (p / 8)).length + p / 8 = a.length := drop_len (by omega)
    have hwfcol := col_wf eng R md hL hR a (p / 8) (by omega) ihwf (s.done.length + p)
    intro q hq
    try simp only [] at hq
    rw [List.mem_append] at hq
    rcases hq with hq | hq
    · exact ihle q hq
    · rw [mem_scanCol] at hq
      obtain ⟨e, he, hx⟩ := hq
      obtain ⟨_, _, h3, h4⟩ := scanEntry_out eng R md hR _ e (hwfcol e he) _ _ _ hralen q.1 q.2 hx
      by_cases hwb : wantsBytes eng e
      · have := h3 hwb
        simp only [List.length_drop] at this
        omega
      · have := (h4 hwb).1
        omega

theorem feed_ready (hL : eng.LawfulOn ok) (hR : CutStable R) (s : PState ι) (hs : s.Ready eng) (a : Units) :
    (feed eng R md s a).Ready eng := by
  have hlen : (feedFrom eng R md a 0 (8 * a.length) s).done.length = s.done.length + 8 * a.length :=
    feedFrom_done_length eng R md _ _ 0 s
  have h2 := feedFrom_le eng R md hL hR a s hs.wf hs.bytes _ rfl
    (fun q hq => by have := hs.settled q hq; omega) (8 * a.length) (Nat.le_refl _)
  refine ⟨feed_wf eng R md hL hR hs.wf a, ?_, ?_⟩
  · intro q hq
    unfold feed at hq ⊢
    rw [hlen]
    exact h2 q hq
  · unfold feed
    rw [hlen]
    have := hs.bytes
    omega

end runs

/-! ### the concrete engine: readiness and lawfulness -/

theorem linStart_ready (alts : List (List TTerm)) : (linStart alts).Ready linEngine := by
  refine ⟨?_, ?_, rfl⟩
  · intro p hp
    simp only [linStart, List.mem_map] at hp
    obtain ⟨a, _, rfl⟩ := hp
    exact fresh_wf _ _
  · intro p hp
    simp only [linStart, List.mem_map] at hp
    obtain ⟨a, _, rfl⟩ := hp
    simp [linStart]

theorem flatMap_congr' {α β : Type} {g g' : α → List β} : ∀ (l : List α), (∀ a ∈ l, g a = g' a) →
    l.flatMap g = l.flatMap g'
  | [], _ => rfl
  | a :: l, h => by
    simp only [List.flatMap_cons]
    rw [h a (by simp), flatMap_congr' l (fun b hb => h b (by simp [hb]))]

section lin
variable (f f' : Entry LinItem → List (Entry LinItem))

theorem linReach_self : ∀ (n : Nat) (e : Entry LinItem), e ∈ linReach f n e
  | 0, _ => by simp [linReach]
  | _ + 1, _ => by simp [linReach]

/-- everything reached is the start or was added by the scanner for something reached -/
theorem linReach_mem : ∀ (n : Nat) (e x : Entry LinItem), x ∈ linReach f n e →
    x = e ∨ ∃ e' ∈ linReach f n e, x ∈ f e'
  | 0, e, x, h => by
    simp only [linReach, List.mem_singleton] at h
    exact Or.inl h
  | n + 1, e, x, h => by
    simp only [linReach, List.mem_cons, List.mem_flatMap, List.mem_filter] at h
    rcases h with h | ⟨y, ⟨hy, _⟩, hx⟩
    · exact Or.inl h
    · right
      rcases linReach_mem n y x hx with rfl | ⟨e', he', hx'⟩
      · exact ⟨e, linReach_self f _ _, hy⟩
      · refine ⟨e', ?_, hx'⟩
        simp only [linReach, List.mem_cons, List.mem_flatMap, List.mem_filter]
        exact Or.inr ⟨y, ⟨hy, by assumption⟩, he'⟩

theorem linReach_congr : ∀ (n : Nat) (e : Entry LinItem), (∀ x ∈ linReach f n e, f x = f' x) →
    linReach f n e = linReach f' n e
  | 0, _, _ => rfl
  | n + 1, e, h => by
    have he : f e = f' e := h e (linReach_self f _ _)
    simp only [linReach]
    rw [← he]
    congr 1
    apply flatMap_congr'
    intro y hy
    apply linReach_congr n y
    intro x hx
    apply h
    simp only [linReach, List.mem_cons, List.mem_flatMap]
    exact Or.inr ⟨y, hy, hx⟩

theorem linReach_wf (hf : ∀ e, e.WF linEngine → ∀ x ∈ f e, x.WF linEngine) : ∀ (n : Nat) (e : Entry LinItem),
    e.WF linEngine → ∀ x ∈ linReach f n e, x.WF linEngine
  | 0, e, he, x, hx => by
    simp only [linReach, List.mem_singleton] at hx
    subst hx; exact he
  | n + 1, e, he, x, hx => by
    simp only [linReach, List.mem_cons, List.mem_flatMap, List.mem_filter] at hx
    rcases hx with rfl | ⟨y, ⟨hy, _⟩, hx⟩
    · exact he
    · exact linReach_wf hf n y (hf e he y hy) x hx

/-- nothing but the state itself is reached from a state for which the scanner adds at most itself -/
theorem linReach_stuck (n : Nat) (e : Entry LinItem) (h : ∀ x ∈ f e, x = e) : linReach f n e = [e] := by
  cases n with
  | zero => rfl
  | succ n =>
    simp only [linReach]
    have : (f e).filter (fun x => decide (linMeasure x < linMeasure e)) = [] := by
      rw [List.filter_eq_nil_iff]
      intro x hx
      rw [h x hx]
      simp
    rw [this]
    rfl

theorem mem_linClose {d : List (Col LinItem)} {s : Col LinItem} {x : Entry LinItem} :
    x ∈ linEngine.close d f s ↔ ∃ e ∈ s, x ∈ linReach f (linMeasure e) e := by
  simp [linEngine, List.mem_flatMap]

end lin

theorem linEngine_lawful : linEngine.Lawful := by
  refine ⟨fun _ _ _ _ _ _ => trivial, ?_, ?_, ?_, ?_, ?_⟩
  · -- close_eps
    intro d f f' s _ h x
    rw [mem_linClose, mem_linClose]
    have hc : ∀ e ∈ s, linReach f (linMeasure e) e = linReach f' (linMeasure e) e := by
      intro e he
      apply linReach_congr
      intro y hy
      exact h y ((mem_linClose f).mpr ⟨e, he, hy⟩)
    constructor
    · rintro ⟨e, he, hx⟩; exact ⟨e, he, by rw [← hc e he]; exact hx⟩
    · rintro ⟨e, he, hx⟩; exact ⟨e, he, by rw [hc e he]; exact hx⟩
  · -- close_inc
    intro d f s _ h x hi
    rw [mem_linClose]
    constructor
    · rintro ⟨e, he, hx⟩
      rcases linReach_mem f _ e x hx with rfl | ⟨e', he', hx'⟩
      · exact he
      · have := h e' ((mem_linClose f).mpr ⟨e, he, he'⟩) x hx'
        rw [this] at hi
        cases hi
    · intro hx
      exact ⟨x, hx, linReach_self f _ _⟩
  · -- close_core
    intro d d' f s s' _ _ _ hs h h'
    have key : ∀ (t t' : Col LinItem) (dd : List (Col LinItem)), CoreEq t t' →
        (∀ e ∈ linEngine.close dd f t, e.inc = true → ∀ x ∈ f e, x = e) →
        ∀ x, x ∈ core (linEngine.close dd f t) → x ∈ core (linEngine.close d' f t') := by
      intro t t' dd ht hh x hx
      rw [mem_core, mem_linClose] at hx
      obtain ⟨⟨e, he, hxe⟩, hxi⟩ := hx
      rw [mem_core, mem_linClose]
      refine ⟨?_, hxi⟩
      cases hei : e.inc with
      | true =>
        have hself := hh e ((mem_linClose f).mpr ⟨e, he, linReach_self f _ _⟩) hei
        rw [linReach_stuck f _ e hself, List.mem_singleton] at hxe
        rw [hxe, hei] at hxi
        cases hxi
      | false =>
        have := (ht e).mp (mem_core.mpr ⟨he, hei⟩)
        exact ⟨e, (mem_core.mp this).1, hxe⟩
    intro x
    constructor
    · exact key s s' d hs h x
    · intro hx
      have := key s' s d' hs.symm h' x
      -- the target of `key` is stated for `d'`; the closure ignores the earlier columns
      have hd : ∀ dd t, linEngine.close dd f t = linEngine.close d f t := fun _ _ => rfl
      rw [hd d' s'] at this hx
      rw [hd d' s] at this
      exact this hx
  · -- close_wf
    intro d f s hs hf x hx
    rw [mem_linClose] at hx
    obtain ⟨e, he, hxe⟩ := hx
    exact linReach_wf f hf _ e (hs e he) x hxe
  · -- trees_core
    intro c c' h t
    simp only [linEngine, List.mem_map, List.mem_filter, Bool.and_eq_true, Bool.not_eq_true']
    constructor
    · rintro ⟨e, ⟨he, hi, hr⟩, rfl⟩
      have := (h e).mp (mem_core.mpr ⟨he, hi⟩)
      exact ⟨e, ⟨(mem_core.mp this).1, hi, hr⟩, rfl⟩
    · rintro ⟨e, ⟨he, hi, hr⟩, rfl⟩
      have := (h e).mpr (mem_core.mpr ⟨he, hi⟩)
      exact ⟨e, ⟨(mem_core.mp this).1, hi, hr⟩, rfl⟩

theorem linEngine_lawfulCC : linEngine.LawfulCC := by
  refine ⟨?_, fun _ _ => rfl, rfl⟩
  intro d f s _ _ hf h x hx
  rw [mem_linClose] at hx
  obtain ⟨e, he, hxe⟩ := hx
  have hfin := (h e he).2
  have hwant : linEngine.want e.item = none := by
    simp only [linEngine, List.isEmpty_iff] at hfin ⊢
    rw [hfin]
    rfl
  rw [linReach_stuck f _ e (by rw [hf e hwant]; simp), List.mem_singleton] at hxe
  rw [hxe]
  exact hwant

end Incr
end FV
