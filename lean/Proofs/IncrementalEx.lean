/-
C13, helper file: a concrete regular-expression oracle with a multi-unit match that is `CutStable`
(`r"[0-9]{2}"`), so that the theorems of `Props/C13.lean` have a non-vacuous instance with a cut *inside a
regex match*.
-/
import Proofs.Incremental
namespace FV
namespace Incr

def isDig (c : Nat) : Bool := 48 ≤ c && c ≤ 57

/-- the oracle of `r"[0-9]{2}"`: `re.match` needs two digits; the `regex` module reports a partial match for
    the empty text and one digit, and (`match.end() == len(word)`) for exactly two digits -/
def twoDigits : ROracle where
  full := fun _ z => match z with
    | c1 :: c2 :: _ => if isDig c1 && isDig c2 then some 2 else none
    | _ => none
  part := fun _ z => match z with
    | [] => some 0
    | [c] => if isDig c then some 1 else none
    | [c1, c2] => if isDig c1 && isDig c2 then some 2 else none
    | _ => none

theorem twoDigits_cutStable : CutStable twoDigits := by
  refine ⟨?_, ?_, ?_, ?_, ?_, ?_⟩
  · -- part_len
    intro r z q h
    match z, h with
    | [], h => simp [twoDigits] at h; subst h; rfl
    | [c], h =>
      simp only [twoDigits] at h
      split at h <;> simp_all
    | [c1, c2], h =>
      simp only [twoDigits] at h
      split at h <;> simp_all
    | _ :: _ :: _ :: _, h => simp [twoDigits] at h
  · -- full_le
    intro r z m h
    match z, h with
    | [], h => simp [twoDigits] at h
    | [_], h => simp [twoDigits] at h
    | c1 :: c2 :: t, h =>
      simp only [twoDigits] at h
      split at h
      · simp only [Option.some.injEq] at h; subst h; simp
      · simp at h
  · -- part_prefix
    intro r x y h
    match x, y, h with
    | [], _, _ => simp [twoDigits]
    | [c], [], h => simpa using h
    | [c], [d], h =>
      simp only [twoDigits, List.cons_append, List.nil_append] at h ⊢
      by_cases hc : isDig c = true
      · simp [hc]
      · simp [hc] at h
    | [c], _ :: _ :: _, h => simp [twoDigits] at h
    | [c1, c2], [], h => simpa using h
    | [c1, c2], _ :: _, h => simp [twoDigits] at h
    | _ :: _ :: _ :: _, _, h => simp [twoDigits] at h
  · -- full_part
    intro r x y m h hlt
    match x, h, hlt with
    | [], _, _ => simp [twoDigits]
    | [c], h, _ =>
      match y, h with
      | [], h => simp [twoDigits] at h
      | d :: t, h =>
        simp only [twoDigits, List.cons_append, List.nil_append] at h ⊢
        by_cases hc : isDig c = true
        · simp [hc]
        · simp [hc] at h
    | c1 :: c2 :: t, h, hlt =>
      simp only [twoDigits, List.cons_append] at h
      split at h
      · simp only [Option.some.injEq] at h; subst h; simp at hlt; omega
      · simp at h
  · -- full_stable
    intro r x y m h _
    match x, h with
    | [], h => simp [twoDigits] at h
    | [_], h => simp [twoDigits] at h
    | c1 :: c2 :: t, h => simpa [twoDigits] using h
  · -- full_local
    intro r x y m h hle
    match x, h, hle with
    | [], h, hle =>
      simp only [List.length_nil, Nat.le_zero] at hle
      subst hle
      match y, h with
      | [], h => simp [twoDigits] at h
      | [_], h => simp [twoDigits] at h
      | c1 :: c2 :: t, h =>
        simp only [twoDigits, List.nil_append] at h
        split at h <;> simp_all
    | [c], h, hle =>
      match y, h with
      | [], h => simp [twoDigits] at h
      | d :: t, h =>
        simp only [twoDigits, List.cons_append, List.nil_append] at h
        split at h
        · simp only [Option.some.injEq] at h; subst h; simp at hle
        · simp at h
    | c1 :: c2 :: t, h, _ => simpa [twoDigits] using h

end Incr
end FV
