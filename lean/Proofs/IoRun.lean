/-
Helper lemmas for C20 (the protocol run LTS of Model/IoRun.lean): buffer bookkeeping
(`findNext`, `clearByParty` for an arbitrary fragment filter, then for the (sender, recipient) filter the
current code uses), the run invariant and its preservation by every event — for `Variant.current`, the rule
/repo has since 8c7aa85d / bd6395f0.
-/
import Model.IoRun
namespace FV
namespace Io

/-! ### streams -/

theorem streamBy_nil (k : Frag → Bool) : streamBy k [] = [] := rfl

theorem streamBy_append (k : Frag → Bool) (a b : List Frag) :
    streamBy k (a ++ b) = streamBy k a ++ streamBy k b := by
  simp [streamBy, List.filter_append]

theorem streamBy_cons (k : Frag → Bool) (f : Frag) (l : List Frag) :
    streamBy k (f :: l) = if k f = true then f.data :: streamBy k l else streamBy k l := by
  by_cases h : k f = true <;> simp [streamBy, h]

theorem streamBy_flatten_append (k : Frag → Bool) (u : List (List Frag)) (g : List Frag) :
    streamBy k (u ++ [g]).flatten = streamBy k u.flatten ++ streamBy k g := by
  simp [List.flatten_append, streamBy_append]

theorem streamBy_all (k : Frag → Bool) (g : List Frag) (h : ∀ f ∈ g, k f = true) :
    streamBy k g = g.map (·.data) := by
  unfold streamBy
  rw [List.filter_eq_self.2 h]

theorem streamBy_none (k : Frag → Bool) (g : List Frag) (h : ∀ f ∈ g, k f = false) :
    streamBy k g = [] := by
  unfold streamBy
  rw [List.filter_eq_nil_iff.2]
  · rfl
  · intro f hf; simp [h f hf]

/-- selecting twice: the second filter inside the first -/
theorem streamBy_filter_sub (j k : Frag → Bool) (l : List Frag) (h : ∀ f, j f = true → k f = true) :
    streamBy j (l.filter k) = streamBy j l := by
  unfold streamBy
  rw [List.filter_filter]
  congr 1
  apply List.filter_congr
  intro f _
  by_cases hj : j f = true
  · simp [hj, h f hj]
  · simp [hj]

/-- selecting twice: the two filters exclude each other -/
theorem streamBy_filter_disj (j k : Frag → Bool) (l : List Frag) (h : ∀ f, j f = true → k f = false) :
    streamBy j (l.filter k) = [] := by
  unfold streamBy
  rw [List.filter_filter, List.filter_eq_nil_iff.2]
  · rfl
  · intro f _
    by_cases hj : j f = true
    · simp [hj, h f hj]
    · simp [hj]

/-! ### the (sender, recipient) filter -/

theorem sel_some_iff (p q : Party) (f : Frag) : sel p (some q) f = true ↔ f.sender = p ∧ f.recipient = q := by
  simp [sel]

theorem sel_none_iff (p : Party) (f : Frag) : sel p none f = true ↔ f.sender = p := by
  simp [sel]

theorem sel_same_or_disj (p q p' q' : Party) :
    (∀ f, sel p' (some q') f = true → sel p (some q) f = true) ∨
    (∀ f, sel p' (some q') f = true → sel p (some q) f = false) := by
  by_cases h : p' = p ∧ q' = q
  · left; intro f hf; obtain ⟨rfl, rfl⟩ := h; exact hf
  · right; intro f hf
    rw [sel_some_iff] at hf
    cases hs : sel p (some q) f with
    | false => rfl
    | true =>
      rw [sel_some_iff] at hs
      exact absurd ⟨hf.1.symm.trans hs.1, hf.2.symm.trans hs.2⟩ h

@[simp] theorem rcp_true (r : Party) : rcp true r = some r := rfl
@[simp] theorem rcp_false (r : Party) : rcp false r = none := rfl

/-! ### `_find_next_fragment` -/

theorem findGo_spec (k : Frag → Bool) : ∀ (l : List Frag) (i j d : Nat), findGo k i l = some (j, d) →
    i ≤ j ∧ j - i < l.length ∧ streamBy k (l.take (j - i + 1)) = [d] := by
  intro l
  induction l with
  | nil => intro i j d h; simp [findGo] at h
  | cons f fs ih =>
    intro i j d h
    unfold findGo at h
    by_cases hf : k f = true
    · simp [hf] at h
      obtain ⟨rfl, rfl⟩ := h
      simp [streamBy_cons, hf, streamBy_nil]
    · simp [hf] at h
      obtain ⟨h1, h2, h3⟩ := ih (i + 1) j d h
      refine ⟨by omega, by simp; omega, ?_⟩
      have e : j - i + 1 = (j - (i + 1) + 1) + 1 := by omega
      rw [e, List.take_succ_cons, streamBy_cons]
      simp [hf, h3]

/-- the fragment found is the next one of that (sender, recipient): nothing selected lies between -/
theorem findNext_spec (p : Party) (r : Option Party) (buf : List Frag) (start j d : Nat)
    (h : findNext p r buf start = some (j, d)) :
    start ≤ j ∧ j < buf.length ∧
      streamBy (sel p r) (buf.take (j + 1)) = streamBy (sel p r) (buf.take start) ++ [d] := by
  unfold findNext at h
  obtain ⟨h1, h2, h3⟩ := findGo_spec _ _ _ _ _ h
  simp at h2
  refine ⟨h1, by omega, ?_⟩
  have e : j + 1 = start + (j - start + 1) := by omega
  rw [e, List.take_add, streamBy_append, h3]

theorem findGo_append (k : Frag → Bool) : ∀ (l l' : List Frag) (i : Nat) (r : Nat × Nat),
    findGo k i l = some r → findGo k i (l ++ l') = some r := by
  intro l
  induction l with
  | nil => intro l' i r h; simp [findGo] at h
  | cons f fs ih =>
    intro l' i r h
    simp only [List.cons_append, findGo] at h ⊢
    by_cases hf : k f = true
    · simpa [hf] using h
    · simp only [hf] at h ⊢; exact ih l' (i + 1) r h

/-- a fragment that arrives later does not change which fragment the extraction reads next -/
theorem findNext_append (p : Party) (q : Option Party) (buf : List Frag) (f : Frag) (start : Nat) (r : Nat × Nat)
    (h : findNext p q buf start = some r) : findNext p q (buf ++ [f]) start = some r := by
  unfold findNext at h ⊢
  have hlt : start < buf.length := by
    by_cases hl : start < buf.length
    · exact hl
    · have : buf.drop start = [] := List.drop_eq_nil_of_le (by omega)
      rw [this] at h; simp [findGo] at h
  rw [List.drop_append_of_le_length (by omega)]
  exact findGo_append _ _ _ _ _ h

/-! ### `clear_by_party` -/

theorem clearGo_beyond (k : Frag → Bool) (to : Nat) : ∀ (l : List Frag) (i : Nat), to < i →
    clearGo k to i l = l ∧ removedGo k to i l = [] := by
  intro l
  induction l with
  | nil => intro i _; simp [clearGo, removedGo]
  | cons f fs ih =>
    intro i hi
    have hn : ¬ (k f = true ∧ i ≤ to) := by omega
    obtain ⟨a, b⟩ := ih (i + 1) (by omega)
    simp [clearGo, removedGo, hn, a, b]

theorem clearGo_char (k : Frag → Bool) (to : Nat) : ∀ (l : List Frag) (i : Nat),
    clearGo k to i l = (l.take (to + 1 - i)).filter (fun f => !k f) ++ l.drop (to + 1 - i)
    ∧ removedGo k to i l = (l.take (to + 1 - i)).filter k := by
  intro l
  induction l with
  | nil => intro i; simp [clearGo, removedGo]
  | cons f fs ih =>
    intro i
    by_cases hi : i ≤ to
    · have e : to + 1 - i = (to + 1 - (i + 1)) + 1 := by omega
      obtain ⟨a, b⟩ := ih (i + 1)
      rw [e, List.take_succ_cons, List.drop_succ_cons]
      by_cases hf : k f = true
      · simp [clearGo, removedGo, hf, hi, a, b]
      · simp [clearGo, removedGo, hf, a, b]
    · have z : to + 1 - i = 0 := by omega
      obtain ⟨a, b⟩ := clearGo_beyond k to (f :: fs) i (by omega)
      rw [a, b, z]; simp

/-- what `clear_by_party(p, to, r)` removes: the selected fragments among the first `to+1` entries -/
theorem removedByParty_eq (p : Party) (to : Nat) (r : Option Party) (buf : List Frag) :
    removedByParty p to r buf = (buf.take (to + 1)).filter (sel p r) := by
  simpa [removedByParty] using (clearGo_char (sel p r) to buf 0).2

theorem clearByParty_eq (p : Party) (to : Nat) (r : Option Party) (buf : List Frag) :
    clearByParty p to r buf =
      (buf.take (to + 1)).filter (fun f => !sel p r f) ++ buf.drop (to + 1) := by
  simpa [clearByParty] using (clearGo_char (sel p r) to buf 0).1

theorem removedByParty_sub (p : Party) (to : Nat) (r : Option Party) (buf : List Frag) :
    ∀ f ∈ removedByParty p to r buf, f ∈ buf := by
  intro f hf
  rw [removedByParty_eq] at hf
  exact List.mem_of_mem_take (List.mem_filter.1 hf).1

theorem clearByParty_sub (p : Party) (to : Nat) (r : Option Party) (buf : List Frag) :
    ∀ f ∈ clearByParty p to r buf, f ∈ buf := by
  intro f hf
  rw [clearByParty_eq] at hf
  rcases List.mem_append.1 hf with h | h
  · exact List.mem_of_mem_take (List.mem_filter.1 h).1
  · exact List.mem_of_mem_drop h

theorem removedByParty_sel (p : Party) (to : Nat) (r : Option Party) (buf : List Frag) :
    ∀ f ∈ removedByParty p to r buf, sel p r f = true := by
  intro f hf
  rw [removedByParty_eq] at hf
  exact (List.mem_filter.1 hf).2

theorem removedByParty_data (p : Party) (to : Nat) (r : Option Party) (buf : List Frag) :
    (removedByParty p to r buf).map (·.data) = streamBy (sel p r) (buf.take (to + 1)) := by
  rw [removedByParty_eq]; rfl

/-- what stays keeps its order, and nothing the filter does not select is touched -/
theorem clearByParty_keeps_others (p : Party) (to : Nat) (r : Option Party) (buf : List Frag) (j : Frag → Bool)
    (h : ∀ f, j f = true → sel p r f = false) : streamBy j (clearByParty p to r buf) = streamBy j buf := by
  rw [clearByParty_eq, streamBy_append]
  have : streamBy j ((buf.take (to + 1)).filter (fun f => !sel p r f)) = streamBy j (buf.take (to + 1)) :=
    streamBy_filter_sub j _ _ (fun f hf => by simp [h f hf])
  rw [this, ← streamBy_append, List.take_append_drop]

/-- the bookkeeping identity of one `clear_by_party` with filter `k`, seen through any filter `j` that lies
    inside `k` or excludes it: removed ++ kept = before, in order -/
theorem clear_partition (p : Party) (to : Nat) (r : Option Party) (buf : List Frag) (j : Frag → Bool)
    (hjk : (∀ f, j f = true → sel p r f = true) ∨ (∀ f, j f = true → sel p r f = false)) :
    streamBy j (removedByParty p to r buf) ++ streamBy j (clearByParty p to r buf) = streamBy j buf := by
  rcases hjk with h | h
  · rw [removedByParty_eq, clearByParty_eq, streamBy_append, streamBy_filter_sub j _ _ h]
    have : streamBy j ((buf.take (to + 1)).filter (fun f => !sel p r f)) = [] :=
      streamBy_filter_disj j _ _ (fun f hf => by simp [h f hf])
    rw [this, List.nil_append, ← streamBy_append, List.take_append_drop]
  · rw [clearByParty_keeps_others p to r buf j h, removedByParty_eq, streamBy_filter_disj j _ _ h]
    rfl

/-- for EVERY (sender, recipient) channel, one `clear_by_party(p, to, q)` splits the channel's data into
    removed ++ kept -/
theorem chan_partition (p q p' q' : Party) (to : Nat) (buf : List Frag) :
    chan p' q' (removedByParty p to (some q) buf) ++ chan p' q' (clearByParty p to (some q) buf) = chan p' q' buf :=
  clear_partition p to (some q) buf _ (sel_same_or_disj p q p' q')

/-! ### `complete_parses` -/

theorem mem_setCompl (t : Ty) (i : Nat) (w : List Nat) : ∀ (l : List (Ty × Nat × List Nat)) c,
    c ∈ setCompl t i w l → c = (t, i, w) ∨ c ∈ l := by
  intro l
  induction l with
  | nil => intro c h; simp [setCompl] at h; exact Or.inl h
  | cons e es ih =>
    intro c h
    unfold setCompl at h
    by_cases he : e.1 = t
    · simp [he] at h
      rcases h with h | h
      · exact Or.inl h
      · exact Or.inr (List.mem_cons_of_mem _ h)
    · simp [he] at h
      rcases h with h | h
      · exact Or.inr (h ▸ List.mem_cons_self)
      · rcases ih c h with h | h
        · exact Or.inl h
        · exact Or.inr (List.mem_cons_of_mem _ h)

theorem setCompl_ne_nil (t : Ty) (i : Nat) (w : List Nat) (l : List (Ty × Nat × List Nat)) :
    setCompl t i w l ≠ [] := by
  cases l with
  | nil => simp [setCompl]
  | cons e es => unfold setCompl; by_cases he : e.1 = t <;> simp [he]

theorem feedTypes_spec (S : Spec) (i : Nat) (w : List Nat) : ∀ (ts : List Ty) (compl : List (Ty × Nat × List Nat)),
    (∀ c ∈ (feedTypes S i w ts compl).2, c ∈ compl ∨ (c.1 ∈ ts ∧ c.2 = (i, w) ∧ S.complete c.1 w = true))
    ∧ (∀ t ∈ (feedTypes S i w ts compl).1, t ∈ ts ∧ S.cont t w = true) := by
  intro ts
  induction ts with
  | nil =>
    intro compl
    refine ⟨fun c hc => Or.inl (by simpa [feedTypes] using hc), fun t ht => ?_⟩
    simp [feedTypes] at ht
  | cons t ts ih =>
    intro compl
    unfold feedTypes
    constructor
    · intro c hc
      simp only at hc
      rcases (ih _).1 c hc with h | h
      · by_cases hcpl : S.complete t w = true
        · simp [hcpl] at h
          rcases mem_setCompl t i w compl c h with h | h
          · right; subst h; exact ⟨List.mem_cons_self, rfl, hcpl⟩
          · exact Or.inl h
        · simp [hcpl] at h; exact Or.inl h
      · exact Or.inr ⟨List.mem_cons_of_mem _ h.1, h.2⟩
    · intro u hu
      simp only at hu
      by_cases hct : S.cont t w = true
      · simp [hct] at hu
        rcases hu with rfl | hu
        · exact ⟨List.mem_cons_self, hct⟩
        · have := (ih _).2 u hu
          exact ⟨List.mem_cons_of_mem _ this.1, this.2⟩
      · simp [hct] at hu
        have := (ih _).2 u hu
        exact ⟨List.mem_cons_of_mem _ this.1, this.2⟩

theorem feedTypes_nil (S : Spec) (i : Nat) (w : List Nat) (compl : List (Ty × Nat × List Nat)) :
    feedTypes S i w [] compl = ([], compl) := rfl

theorem bestOf_mem : ∀ (l : List (Ty × Nat × List Nat)) b, bestOf l = some b → b ∈ l := by
  intro l
  induction l with
  | nil => intro b h; simp [bestOf] at h
  | cons e es ih =>
    intro b h
    unfold bestOf at h
    cases hb : bestOf es with
    | none => simp [hb] at h; exact h ▸ List.mem_cons_self
    | some b' =>
      simp [hb] at h
      by_cases hlt : e.2.1 < b'.2.1
      · simp [hlt] at h; exact h ▸ List.mem_cons_of_mem _ (ih b' hb)
      · simp [hlt] at h; exact h ▸ List.mem_cons_self

theorem bestOf_max : ∀ (l : List (Ty × Nat × List Nat)) b, bestOf l = some b → ∀ c ∈ l, c.2.1 ≤ b.2.1 := by
  intro l
  induction l with
  | nil => intro b h; simp [bestOf] at h
  | cons e es ih =>
    intro b h c hc
    unfold bestOf at h
    cases hb : bestOf es with
    | none =>
      simp [hb] at h
      cases es with
      | nil => simp at hc; subst hc; subst h; exact Nat.le_refl _
      | cons e' es' => unfold bestOf at hb; cases h' : bestOf es' <;> simp [h'] at hb; split at hb <;> simp at hb
    | some b' =>
      simp [hb] at h
      have ih' := ih b' hb
      by_cases hlt : e.2.1 < b'.2.1
      · simp [hlt] at h; subst h
        rcases List.mem_cons.1 hc with rfl | hc
        · omega
        · exact ih' c hc
      · simp [hlt] at h; subst h
        rcases List.mem_cons.1 hc with rfl | hc
        · exact Nat.le_refl _
        · have := ih' c hc; omega

theorem bestOf_none : ∀ (l : List (Ty × Nat × List Nat)), bestOf l = none → l = [] := by
  intro l
  cases l with
  | nil => intro _; rfl
  | cons e es =>
    intro h; unfold bestOf at h
    cases hb : bestOf es <;> simp [hb] at h
    split at h <;> simp at h

theorem optFor_spec (opts : List Opt) (p : Party) (t : Ty) (o : Opt) (h : optFor opts p t = some o) :
    o ∈ opts ∧ o.sender = p ∧ o.type = t := by
  unfold optFor at h
  have h1 := List.mem_of_find?_eq_some h
  have h2 := List.find?_some h
  simp at h2
  exact ⟨h1, h2.1, h2.2⟩

/-- a type the recipient filter lets through has a forecast packet that names no recipient or this one -/
theorem addressedTo_spec (opts : List Opt) (p r : Party) (t : Ty) (h : addressedTo opts p r t = true) :
    ∃ o, optFor opts p t = some o ∧ (o.recipient = none ∨ o.recipient = some r) := by
  unfold addressedTo at h
  cases ho : optFor opts p t with
  | none => simp [ho] at h
  | some o =>
    simp [ho] at h
    exact ⟨o, rfl, h⟩

theorem typesFor_addressed (V : Variant) (hV : V.typesByRecipient = true) (opts : List Opt) (p r : Party) :
    ∀ t ∈ typesFor V opts p r, addressedTo opts p r t = true := by
  intro t ht
  simp only [typesFor, hV, if_true] at ht
  exact (List.mem_filter.1 ht).2

/-! ### `_extends_history` -/

/-- what `_extends_history` compares of a message -/
def Msg.key (m : Msg) : Party × Option Party × Ty × List Nat := (m.sender, m.recipient, m.type, m.payload)

theorem sameMsg_key (a b : Msg) (h : sameMsg a b = true) : a.key = b.key := by
  simp [sameMsg] at h
  simp [Msg.key, h]

/-- a candidate that passes `_extends_history` consists of the history's messages plus exactly one -/
theorem extendsB_spec : ∀ (h cand : List Msg), extendsB h cand = true →
    ∃ m, cand.getLast? = some m ∧ cand.map Msg.key = h.map Msg.key ++ [m.key] := by
  intro h
  induction h with
  | nil =>
    intro cand hx
    simp [extendsB] at hx
    match cand, hx with
    | [m], _ => exact ⟨m, rfl, rfl⟩
  | cons a h ih =>
    intro cand hx
    cases cand with
    | nil => simp [extendsB] at hx
    | cons b cand =>
      simp only [extendsB, List.length_cons, List.zip_cons_cons, List.all_cons, Bool.and_eq_true,
        beq_iff_eq] at hx
      obtain ⟨hl, hab, hall⟩ := hx
      have hx' : extendsB h cand = true := by
        simp only [extendsB, Bool.and_eq_true, beq_iff_eq]
        exact ⟨by omega, hall⟩
      obtain ⟨m, hm, hk⟩ := ih cand hx'
      refine ⟨m, ?_, ?_⟩
      · cases cand with
        | nil => simp at hm
        | cons c cs => simpa [List.getLast?_cons_cons] using hm
      · simp [List.map_cons, hk, sameMsg_key a b hab]

theorem extendsB_self_false (h : List Msg) : extendsB h h = false := by
  simp [extendsB]

/-! ### the invariant -/

/-- every step of the history was offered by the forecast for the history before it and passed the
    constraint check on the extended history; a remote message was parsed completely by its type; a
    locally generated one comes from a fuzzer-controlled party -/
inductive Valid (S : Spec) : List Msg → Prop
  | nil : Valid S []
  | snoc (h : List Msg) (m : Msg) : Valid S h → m.opt ∈ S.forecast h → S.ok h m = true →
      (m.remote = true → S.complete m.type m.payload = true) →
      (m.remote = false → S.fuzzer m.sender = true) → Valid S (h ++ [m])

def remoteMsgs (h : List Msg) : List Msg := h.filter (·.remote)

/-- message `m` was built from exactly the fragments `g`; all of them were produced by `m.sender` and
    delivered to ONE party `q`, and that is the recipient `m` is recorded with (when it names one) -/
def Attributed (m : Msg) (g : List Frag) : Prop :=
  m.remote = true ∧ m.payload = g.map (·.data) ∧
    ∃ q, (∀ f ∈ g, f.sender = m.sender ∧ f.recipient = q) ∧ (m.recipient = none ∨ m.recipient = some q)

def Paired : List Msg → List (List Frag) → Prop
  | [], [] => True
  | m :: ms, g :: gs => Attributed m g ∧ Paired ms gs
  | _, _ => False

theorem paired_snoc : ∀ (ms : List Msg) (gs : List (List Frag)) (m : Msg) (g : List Frag),
    Paired ms gs → Attributed m g → Paired (ms ++ [m]) (gs ++ [g]) := by
  intro ms
  induction ms with
  | nil => intro gs m g h a; cases gs with
    | nil => exact ⟨a, trivial⟩
    | cons _ _ => exact h.elim
  | cons m' ms ih => intro gs m g h a; cases gs with
    | nil => exact h.elim
    | cons g' gs => exact ⟨h.1, ih gs m g h.2 a⟩

/-- the messages handed to `party.send`: locally generated, recipient absent or external -/
def transmitted (S : Spec) (h : List Msg) : List (Party × Option Party × Ty × List Nat) :=
  (h.filter (fun m => !m.remote && transmits S m)).map (fun m => (m.sender, m.recipient, m.type, m.payload))

structure ExInv (S : Spec) (s : State) (e : Ex) : Prop where
  opts : e.opts = S.forecast s.history
  pos_le : e.pos ≤ s.buffer.length
  word : e.word = chan e.sender e.recipient (s.buffer.take e.pos)
  compl : ∀ c ∈ e.compl, c.2.1 < e.pos ∧ c.2.2 = chan e.sender e.recipient (s.buffer.take (c.2.1 + 1))
            ∧ S.complete c.1 c.2.2 = true ∧ addressedTo e.opts e.sender e.recipient c.1 = true
  avail : ∀ t ∈ e.avail, addressedTo e.opts e.sender e.recipient t = true
  alive : live s = true

structure RunInv (S : Spec) (s : State) : Prop where
  /-- the history is step by step allowed, checked, parsed -/
  valid : Valid S s.history
  /-- per (sender, recipient) channel: consumed ++ unconsumed = received (in order, each datum once) -/
  once : ∀ p q, chan p q s.used.flatten ++ chan p q s.buffer = chan p q s.recvd
  /-- every remote message (and the one the constraints rejected) is exactly one consumed group, all of whose
      fragments its recorded sender produced and delivered to one party — the recorded recipient, if any -/
  attributed : Paired (remoteMsgs s.history ++ s.rejected.toList) s.used
  /-- `party.send` was called exactly for the locally generated messages with an external recipient -/
  outbox : s.outbox = transmitted S s.history
  /-- remote data comes from external parties -/
  external : ∀ f ∈ s.recvd, S.fuzzer f.sender = false
  rejected_failed : s.rejected.isSome = true → s.failed.isSome = true
  ex : ∀ e, s.ex = some e → ExInv S s e
  /-- nothing is buffered or consumed that was not received -/
  buf_sub : ∀ f ∈ s.buffer, f ∈ s.recvd
  used_sub : ∀ g ∈ s.used, ∀ f ∈ g, f ∈ s.recvd

theorem runInv_init (S : Spec) : RunInv S init := by
  refine ⟨Valid.nil, ?_, ?_, ?_, ?_, ?_, ?_, ?_, ?_⟩ <;>
    simp [init, chan, streamBy, remoteMsgs, Paired, transmitted]

theorem remoteMsgs_snoc (h : List Msg) (m : Msg) :
    remoteMsgs (h ++ [m]) = if m.remote then remoteMsgs h ++ [m] else remoteMsgs h := by
  by_cases hm : m.remote = true <;> simp [remoteMsgs, List.filter_append, hm]

theorem transmitted_snoc (S : Spec) (h : List Msg) (m : Msg) :
    transmitted S (h ++ [m]) =
      if (!m.remote && transmits S m) = true
      then transmitted S h ++ [(m.sender, m.recipient, m.type, m.payload)] else transmitted S h := by
  unfold transmitted
  rw [List.filter_append]
  by_cases hc : (!m.remote && transmits S m) = true
  · simp [hc]
  · simp [hc]

theorem live_failed {s : State} (h : live s = true) : s.failed = none ∧ s.finished = false := by
  unfold live at h
  simp at h
  exact h

theorem rejected_none_of_live {S : Spec} {s : State} (inv : RunInv S s) (hl : live s = true) :
    s.rejected = none := by
  cases hr : s.rejected with
  | none => rfl
  | some m =>
    have := inv.rejected_failed (by simp [hr])
    simp [(live_failed hl).1] at this

/-- `finish` keeps the invariant -/
theorem runInv_finish (S : Spec) (s : State) (e : Ex) (inv : RunInv S s) (he : s.ex = some e) :
    RunInv S (finish Variant.current S s e) := by
  have ei := inv.ex e he
  have hrej : s.rejected = none := rejected_none_of_live inv ei.alive
  cases hb : bestOf e.compl with
  | none =>
    have hf : finish Variant.current S s e = { s with ex := none, failed := some .noParse } := by
      simp only [finish, hb]
    rw [hf]
    exact ⟨inv.valid, inv.once, inv.attributed, inv.outbox, inv.external, by simp, by simp, inv.buf_sub, inv.used_sub⟩
  | some b =>
    obtain ⟨t, i, w⟩ := b
    have hmem := bestOf_mem _ _ hb
    obtain ⟨_, hw, hc, had⟩ := ei.compl _ hmem
    simp only at hw hc had
    obtain ⟨o, ho, horc⟩ := addressedTo_spec _ _ _ _ had
    obtain ⟨homem, hos, hot⟩ := optFor_spec _ _ _ _ ho
    have hatt : Attributed ⟨o.sender, o.recipient, t, w, true⟩
        (removedByParty e.sender i (some e.recipient) s.buffer) := by
      refine ⟨rfl, ?_, e.recipient, ?_, horc⟩
      · simp only; rw [removedByParty_data]; exact hw
      · intro f hf
        have := (sel_some_iff _ _ _).1 (removedByParty_sel _ _ _ _ f hf)
        exact ⟨by simp only; rw [hos]; exact this.1, this.2⟩
    have honce : ∀ p q, chan p q (s.used ++ [removedByParty e.sender i (some e.recipient) s.buffer]).flatten
        ++ chan p q (clearByParty e.sender i (some e.recipient) s.buffer) = chan p q s.recvd := by
      intro p q
      unfold chan
      rw [streamBy_flatten_append, List.append_assoc]
      have := chan_partition e.sender e.recipient p q i s.buffer
      unfold chan at this
      rw [this]
      exact inv.once p q
    have hbs : ∀ f ∈ clearByParty e.sender i (some e.recipient) s.buffer, f ∈ s.recvd :=
      fun f hf => inv.buf_sub f (clearByParty_sub _ _ _ _ f hf)
    have hus : ∀ g ∈ s.used ++ [removedByParty e.sender i (some e.recipient) s.buffer], ∀ f ∈ g, f ∈ s.recvd := by
      intro g hg f hf
      rcases List.mem_append.1 hg with hg | hg
      · exact inv.used_sub g hg f hf
      · simp at hg; subst hg; exact inv.buf_sub f (removedByParty_sub _ _ _ _ f hf)
    have hatt' := inv.attributed
    simp only [hrej, Option.toList, List.append_nil] at hatt'
    by_cases hok : S.ok s.history ⟨o.sender, o.recipient, t, w, true⟩ = true
    · have hf : finish Variant.current S s e = { s with
            ex := none
            buffer := clearByParty e.sender i (some e.recipient) s.buffer
            used := s.used ++ [removedByParty e.sender i (some e.recipient) s.buffer]
            history := s.history ++ [⟨o.sender, o.recipient, t, w, true⟩] } := by
        simp only [finish, hb, ho, hok, if_true, Variant.current, rcp_true]
      rw [hf]
      refine ⟨?_, honce, ?_, ?_, inv.external, ?_, by simp, hbs, hus⟩
      · refine Valid.snoc _ _ inv.valid ?_ hok (fun _ => hc) (by simp)
        have : (⟨o.sender, o.recipient, t, w, true⟩ : Msg).opt = o := by
          cases o; simp [Msg.opt] at hot ⊢; exact hot.symm
        rw [this, ← ei.opts]; exact homem
      · simp only [remoteMsgs_snoc, if_true, hrej, Option.toList, List.append_nil]
        exact paired_snoc _ _ _ _ hatt' hatt
      · simp only [transmitted_snoc]
        simpa using inv.outbox
      · simp [hrej]
    · have hf : finish Variant.current S s e = { s with
            ex := none
            buffer := clearByParty e.sender i (some e.recipient) s.buffer
            used := s.used ++ [removedByParty e.sender i (some e.recipient) s.buffer]
            failed := some .constraint
            rejected := some ⟨o.sender, o.recipient, t, w, true⟩ } := by
        simp only [finish, hb, ho, hok, Variant.current, rcp_true]
        simp
      rw [hf]
      refine ⟨inv.valid, honce, ?_, inv.outbox, inv.external, by simp, by simp, hbs, hus⟩
      simpa [Option.toList] using paired_snoc _ _ _ _ hatt' hatt

/-- ExInv survives a buffer that only grows at the end -/
theorem exInv_recv (S : Spec) (s : State) (e : Ex) (f : Frag) (ei : ExInv S s e)
    (s' : State) (hh : s'.history = s.history) (hb : s'.buffer = s.buffer ++ [f]) (hl : live s' = true) :
    ExInv S s' e := by
  refine ⟨by rw [hh]; exact ei.opts, by rw [hb]; simp; have := ei.pos_le; omega, ?_, ?_, ei.avail, hl⟩
  · rw [hb, List.take_append_of_le_length ei.pos_le]; exact ei.word
  · intro c hc
    obtain ⟨a, b, d, d'⟩ := ei.compl c hc
    refine ⟨a, ?_, d, d'⟩
    rw [hb, List.take_append_of_le_length (by have := ei.pos_le; omega)]; exact b

/-- every enabled event keeps the invariant (for the rule the code has now) -/
theorem runInv_step (S : Spec) (s s' : State) (ev : Event) (inv : RunInv S s)
    (h : step Variant.current S s ev = some s') : RunInv S s' := by
  cases ev with
  | recv f =>
    simp only [step] at h
    split at h
    · rename_i hc
      injection h with h; subst h
      refine ⟨inv.valid, ?_, inv.attributed, inv.outbox, ?_, inv.rejected_failed, ?_, ?_, ?_⟩
      · intro p q; simp only [chan, streamBy_append, ← List.append_assoc]
        have := inv.once p q
        simp only [chan] at this
        rw [this]
      · intro g hg
        rcases List.mem_append.1 hg with hg | hg
        · exact inv.external g hg
        · simp at hg; subst hg; exact hc
      · intro e he
        exact exInv_recv S s e f (inv.ex e he) _ rfl rfl (by simpa [live] using (inv.ex e he).alive)
      · intro g hg
        rcases List.mem_append.1 hg with hg | hg
        · exact List.mem_append_left _ (inv.buf_sub g hg)
        · exact List.mem_append_right _ hg
      · intro g hg f' hf'
        exact List.mem_append_left _ (inv.used_sub g hg f' hf')
    · simp at h
  | fuzzerTurn cand =>
    simp only [step, Variant.current, if_true] at h
    split at h
    · rename_i hc
      obtain ⟨hl, hex, hbuf⟩ := hc
      split at h
      · split at h
        · rename_i m0 hm0
          split at h
          · rename_i hg
            obtain ⟨hfz, hfc, hok⟩ := hg
            injection h with h; subst h
            have hrej : s.rejected = none := rejected_none_of_live inv hl
            refine ⟨Valid.snoc _ _ inv.valid hfc hok (by simp) (fun _ => hfz), inv.once, ?_, ?_,
              inv.external, inv.rejected_failed, ?_, inv.buf_sub, inv.used_sub⟩
            · simp only [remoteMsgs_snoc]; exact inv.attributed
            · simp only [transmitted_snoc, Bool.not_false, Bool.true_and]
              by_cases ht : transmits S { m0 with remote := false } = true
              · simp [ht, inv.outbox]
              · simp [ht, inv.outbox]
            · intro e he; simp at hex; simp [hex] at he
          · simp at h
        · simp at h
      · injection h with h; subst h; exact inv
    · simp at h
  | exStart =>
    simp only [step] at h
    split at h
    · rename_i hc
      split at h
      · rename_i p r hp
        injection h with h; subst h
        refine ⟨inv.valid, inv.once, inv.attributed, inv.outbox, inv.external, inv.rejected_failed, ?_, inv.buf_sub, inv.used_sub⟩
        intro e he
        simp at he; subst he
        exact ⟨rfl, by simp, by simp [chan, streamBy], by simp,
          typesFor_addressed Variant.current rfl _ _ _, by simpa [live] using hc.1⟩
      · simp at h
    · simp at h
  | exStep =>
    simp only [step, Variant.current, rcp_true] at h
    split at h
    · rename_i e he
      split at h
      · rename_i hc
        split at h
        · rename_i i d hfn
          injection h with h; subst h
          have ei := inv.ex e he
          obtain ⟨h1, h2, h3⟩ := findNext_spec _ _ _ _ _ _ hfn
          refine ⟨inv.valid, inv.once, inv.attributed, inv.outbox, inv.external, inv.rejected_failed, ?_, inv.buf_sub, inv.used_sub⟩
          intro e' he'
          simp at he'; subst he'
          refine ⟨ei.opts, by simp; omega, ?_, ?_, ?_, by simpa [live] using hc.1⟩
          · simp only [chan]; rw [h3, ei.word]; rfl
          · intro c hcm
            simp only at hcm
            rcases (feedTypes_spec S i (e.word ++ [d]) e.avail e.compl).1 c hcm with hold | hnew
            · obtain ⟨a, b, d', d''⟩ := ei.compl c hold
              exact ⟨by simp only; omega, b, d', d''⟩
            · obtain ⟨hn0, hn1, hn2⟩ := hnew
              have e1 : c.2.1 = i := by rw [hn1]
              have e2 : c.2.2 = e.word ++ [d] := by rw [hn1]
              refine ⟨by simp only; omega, ?_, by rw [e2]; exact hn2, ei.avail _ hn0⟩
              simp only [chan]
              rw [e1, e2, h3, ei.word]; rfl
          · intro t ht
            simp only at ht
            exact ei.avail t ((feedTypes_spec S i (e.word ++ [d]) e.avail e.compl).2 t ht).1
        · simp at h
      · simp at h
    · simp at h
  | exFinish =>
    simp only [step] at h
    split at h
    · rename_i e he
      split at h
      · injection h with h; subst h; exact runInv_finish S s e inv he
      · simp at h
    · simp at h
  | silence =>
    simp only [step] at h
    split at h
    · rename_i e he
      split at h
      · split at h
        · injection h with h; subst h
          exact ⟨inv.valid, inv.once, inv.attributed, inv.outbox, inv.external, by simp, by simp, inv.buf_sub, inv.used_sub⟩
        · injection h with h; subst h; exact runInv_finish S s e inv he
      · simp at h
    · simp at h
  | unexpected =>
    simp only [step] at h
    split at h
    · injection h with h; subst h
      refine ⟨inv.valid, inv.once, inv.attributed, inv.outbox, inv.external, by simp, ?_, inv.buf_sub, inv.used_sub⟩
      intro e he; rename_i hc; have := hc.2.1; simp at this; simp [this] at he
    · simp at h
  | noMessage =>
    simp only [step] at h
    split at h
    · injection h with h; subst h
      refine ⟨inv.valid, inv.once, inv.attributed, inv.outbox, inv.external, by simp, ?_, inv.buf_sub, inv.used_sub⟩
      intro e he; rename_i hc; have := hc.2.1; simp at this; simp [this] at he
    · simp at h
  | finishRun =>
    simp only [step] at h
    split at h
    · injection h with h; subst h
      refine ⟨inv.valid, inv.once, inv.attributed, inv.outbox, inv.external, inv.rejected_failed, ?_, inv.buf_sub, inv.used_sub⟩
      intro e he; rename_i hc; have := hc.2.1; simp at this; simp [this] at he
    · simp at h

theorem runInv_reachable (S : Spec) (s : State) (h : Reachable Variant.current S s) : RunInv S s := by
  induction h with
  | init => exact runInv_init S
  | step s s' ev _ hs ih => exact runInv_step S s s' ev ih hs

/-! ### consequences used by Props/C20 -/

theorem reachable_runEvents (V : Variant) (S : Spec) : ∀ (evs : List Event) (s s' : State), Reachable V S s →
    runEvents V S s evs = some s' → Reachable V S s' := by
  intro evs
  induction evs with
  | nil => intro s s' hr h; simp [runEvents] at h; exact h ▸ hr
  | cons ev evs ih =>
    intro s s' hr h
    unfold runEvents at h
    cases hs : step V S s ev with
    | none => simp [hs] at h
    | some s1 => simp [hs] at h; exact ih s1 s' (Reachable.step s s1 ev hr hs) h

/-- every entry of a valid history was allowed, checked and (if remote) parsed when it was appended -/
theorem valid_at (S : Spec) (h : List Msg) (hv : Valid S h) : ∀ (h1 : List Msg) (m : Msg) (h2 : List Msg),
    h = h1 ++ m :: h2 →
    m.opt ∈ S.forecast h1 ∧ S.ok h1 m = true ∧ (m.remote = true → S.complete m.type m.payload = true)
      ∧ (m.remote = false → S.fuzzer m.sender = true) := by
  induction hv with
  | nil => intro h1 m h2 e; simp at e
  | snoc h m' hv' a b c d ih =>
    intro h1 m h2 e
    rcases List.eq_nil_or_concat h2 with rfl | ⟨h2', x, rfl⟩
    · have e' : h ++ [m'] = h1 ++ [m] := by simpa using e
      obtain ⟨e1, e2⟩ := List.append_inj' e' rfl
      simp at e2; subst e1; subst e2
      exact ⟨a, b, c, d⟩
    · have e' : h ++ [m'] = (h1 ++ m :: h2') ++ [x] := by simpa using e
      obtain ⟨e1, _⟩ := List.append_inj' e' rfl
      exact ih h1 m h2' e1

theorem valid_prefix (S : Spec) (h : List Msg) (hv : Valid S h) : ∀ (h1 h2 : List Msg),
    h = h1 ++ h2 → Valid S h1 := by
  induction hv with
  | nil => intro h1 h2 e; simp at e; rw [e.1]; exact Valid.nil
  | snoc h m hv' a b c d ih =>
    intro h1 h2 e
    rcases List.eq_nil_or_concat h2 with rfl | ⟨h2', x, rfl⟩
    · simp at e; rw [← e]; exact Valid.snoc h m hv' a b c d
    · have e' : h ++ [m] = (h1 ++ h2') ++ [x] := by simpa using e
      obtain ⟨e1, _⟩ := List.append_inj' e' rfl
      exact ih h1 h2' e1

/-- the payloads recorded for the channel (p, q) — sender `p`, recorded recipient `q` —, concatenated -/
def recorded (p q : Party) (ms : List Msg) : List Nat :=
  (ms.filter (fun m => m.sender = p ∧ m.recipient = some q)).flatMap (·.payload)

/-- when every message of sender `p` names its recipient, what is recorded for (p, q) is exactly what was
    consumed from the channel (p, q) -/
theorem paired_recorded (p q : Party) : ∀ (ms : List Msg) (gs : List (List Frag)), Paired ms gs →
    (∀ m ∈ ms, m.sender = p → m.recipient ≠ none) →
    recorded p q ms = chan p q gs.flatten := by
  intro ms
  induction ms with
  | nil => intro gs h _; cases gs with
    | nil => simp [recorded, chan, streamBy]
    | cons _ _ => exact h.elim
  | cons m ms ih => intro gs h hN; cases gs with
    | nil => exact h.elim
    | cons g gs =>
      obtain ⟨⟨_, hp, q', hs, hr⟩, hrest⟩ := h
      have := ih gs hrest (fun m' hm' => hN m' (List.mem_cons_of_mem _ hm'))
      simp only [List.flatten_cons, chan, streamBy_append]
      simp only [chan] at this
      by_cases hm : m.sender = p ∧ m.recipient = some q
      · -- the group came over (p, q)
        have hq : q' = q := by
          rcases hr with hr | hr
          · exact absurd hr (hN m List.mem_cons_self hm.1)
          · rw [hm.2] at hr; exact (Option.some.inj hr).symm
        have hall : ∀ f ∈ g, sel p (some q) f = true := fun f hf =>
          (sel_some_iff _ _ _).2 ⟨(hs f hf).1.trans hm.1, (hs f hf).2.trans hq⟩
        rw [streamBy_all _ g hall, ← this]
        simp [recorded, hm, hp]
      · -- it came over another channel (or is empty)
        have hnone : ∀ f ∈ g, sel p (some q) f = false := by
          intro f hf
          cases hsel : sel p (some q) f with
          | false => rfl
          | true =>
            rw [sel_some_iff] at hsel
            have hsp : m.sender = p := (hs f hf).1.symm.trans hsel.1
            have hqq : q' = q := (hs f hf).2.symm.trans hsel.2
            rcases hr with hr | hr
            · exact absurd hr (hN m List.mem_cons_self hsp)
            · exact absurd ⟨hsp, by rw [hr, hqq]⟩ hm
        rw [streamBy_none _ g hnone, ← this]
        simp [recorded, hm]

theorem paired_get : ∀ (ms : List Msg) (gs : List (List Frag)), Paired ms gs →
    ∀ m ∈ ms, ∃ g ∈ gs, Attributed m g := by
  intro ms
  induction ms with
  | nil => intro gs _ m hm; simp at hm
  | cons m' ms ih => intro gs h m hm; cases gs with
    | nil => exact h.elim
    | cons g gs =>
      rcases List.mem_cons.1 hm with rfl | hm
      · exact ⟨g, List.mem_cons_self, h.1⟩
      · obtain ⟨g', hg', ha⟩ := ih gs h.2 m hm
        exact ⟨g', List.mem_cons_of_mem _ hg', ha⟩

theorem paired_length : ∀ (ms : List Msg) (gs : List (List Frag)), Paired ms gs → ms.length = gs.length := by
  intro ms
  induction ms with
  | nil => intro gs h; cases gs with
    | nil => rfl
    | cons _ _ => exact h.elim
  | cons m ms ih => intro gs h; cases gs with
    | nil => exact h.elim
    | cons g gs => simp [ih gs h.2]

theorem recvChunk_append (p r : Party) (a b : List Nat) :
    recvChunk p r (a ++ b) = recvChunk p r a ++ recvChunk p r b := by simp [recvChunk]

/-- `finish` leaves the history alone or appends exactly one message (any variant) -/
theorem finish_history (V : Variant) (S : Spec) (s : State) (e : Ex) :
    (finish V S s e).history = s.history ∨ ∃ m, (finish V S s e).history = s.history ++ [m] := by
  unfold finish
  split
  · exact Or.inl rfl
  · split
    · exact Or.inl rfl
    · simp only
      split
      · exact Or.inr ⟨_, rfl⟩
      · exact Or.inl rfl

/-- one event leaves the history alone or appends exactly one message -/
theorem step_history (S : Spec) (s s' : State) (ev : Event) (h : step Variant.current S s ev = some s') :
    s'.history = s.history ∨ ∃ m, s'.history = s.history ++ [m] := by
  have fin := finish_history Variant.current S s
  cases ev <;> simp only [step] at h
  case recv f => split at h <;> simp at h; subst h; exact Or.inl rfl
  case fuzzerTurn cand =>
    simp only [Variant.current, if_true] at h
    split at h
    · split at h
      · split at h
        · split at h <;> simp at h; subst h; exact Or.inr ⟨_, rfl⟩
        · simp at h
      · simp at h; subst h; exact Or.inl rfl
    · simp at h
  case exStart =>
    split at h
    · split at h <;> simp at h; subst h; exact Or.inl rfl
    · simp at h
  case exStep =>
    split at h
    · split at h
      · split at h <;> simp at h; subst h; exact Or.inl rfl
      · simp at h
    · simp at h
  case exFinish =>
    split at h
    · split at h <;> simp at h; subst h; exact fin _
    · simp at h
  case silence =>
    split at h
    · split at h
      · split at h <;> simp at h <;> subst h
        · exact Or.inl rfl
        · exact fin _
      · simp at h
    · simp at h
  case unexpected => split at h <;> simp at h; subst h; exact Or.inl rfl
  case noMessage => split at h <;> simp at h; subst h; exact Or.inl rfl
  case finishRun => split at h <;> simp at h; subst h; exact Or.inl rfl

/-- a failed or finished run takes no further event except data still arriving (any variant) -/
theorem step_dead (V : Variant) (S : Spec) (s : State) (ev : Event) (h : live s = false)
    (hne : ∀ f, ev ≠ .recv f) : step V S s ev = none := by
  have hl : ¬ (live s = true) := by simp [h]
  cases ev <;> simp only [step]
  case recv f => exact absurd rfl (hne f)
  case fuzzerTurn m => simp [hl]
  case exStart => simp [hl]
  case exStep => split <;> simp [hl]
  case exFinish => split <;> simp [hl]
  case silence => split <;> simp [hl]
  case unexpected => simp [hl]
  case noMessage => simp [hl]
  case finishRun => simp [hl]

/-- data arriving changes the buffer (and the ghost record of what was received), nothing else -/
theorem step_recv_effect (V : Variant) (S : Spec) (s s' : State) (f : Frag) (h : step V S s (.recv f) = some s') :
    s' = { s with buffer := s.buffer ++ [f], recvd := s.recvd ++ [f] } := by
  simp only [step] at h
  split at h
  · injection h with h; exact h.symm
  · simp at h

end Io
end FV
