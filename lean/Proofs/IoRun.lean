/-
Helper lemmas for C20 (the protocol run LTS of Model/IoRun.lean): buffer bookkeeping
(`findNext`, `clearByParty`), the run invariant and its preservation by every event.
-/
import Model.IoRun
namespace FV
namespace Io

/-! ### streams -/

theorem streamOf_nil (p : Party) : streamOf p [] = [] := rfl

theorem streamOf_append (p : Party) (a b : List Frag) :
    streamOf p (a ++ b) = streamOf p a ++ streamOf p b := by
  simp [streamOf, List.filter_append]

theorem streamOf_cons (p : Party) (f : Frag) (l : List Frag) :
    streamOf p (f :: l) = if f.sender = p then f.data :: streamOf p l else streamOf p l := by
  by_cases h : f.sender = p <;> simp [streamOf, List.filter_cons, h]

theorem streamOf_flatten_append (p : Party) (u : List (List Frag)) (g : List Frag) :
    streamOf p (u ++ [g]).flatten = streamOf p u.flatten ++ streamOf p g := by
  simp [List.flatten_append, streamOf_append]

/-! ### `_find_next_fragment` -/

theorem findGo_spec (p : Party) : ∀ (l : List Frag) (i j d : Nat), findGo p i l = some (j, d) →
    i ≤ j ∧ j - i < l.length ∧ streamOf p (l.take (j - i + 1)) = [d] := by
  intro l
  induction l with
  | nil => intro i j d h; simp [findGo] at h
  | cons f fs ih =>
    intro i j d h
    unfold findGo at h
    by_cases hf : f.sender = p
    · simp [hf] at h
      obtain ⟨rfl, rfl⟩ := h
      simp [streamOf_cons, hf, streamOf_nil]
    · simp [hf] at h
      obtain ⟨h1, h2, h3⟩ := ih (i + 1) j d h
      refine ⟨by omega, by simp; omega, ?_⟩
      have e : j - i + 1 = (j - (i + 1) + 1) + 1 := by omega
      rw [e, List.take_succ_cons, streamOf_cons]
      simp [hf, h3]

/-- the fragment found is the next one of that sender: nothing of the sender lies between -/
theorem findNext_spec (p : Party) (buf : List Frag) (start j d : Nat)
    (h : findNext p buf start = some (j, d)) :
    start ≤ j ∧ j < buf.length ∧
      streamOf p (buf.take (j + 1)) = streamOf p (buf.take start) ++ [d] := by
  unfold findNext at h
  obtain ⟨h1, h2, h3⟩ := findGo_spec p _ _ _ _ h
  simp at h2
  refine ⟨h1, by omega, ?_⟩
  have e : j + 1 = start + (j - start + 1) := by omega
  rw [e, List.take_add, streamOf_append, h3]

/-! ### `clear_by_party` -/

theorem clearGo_beyond (p : Party) (to : Nat) : ∀ (l : List Frag) (i : Nat), to < i →
    clearGo p to i l = l ∧ removedGo p to i l = [] := by
  intro l
  induction l with
  | nil => intro i _; simp [clearGo, removedGo]
  | cons f fs ih =>
    intro i hi
    have hn : ¬ (f.sender = p ∧ i ≤ to) := by omega
    obtain ⟨a, b⟩ := ih (i + 1) (by omega)
    simp [clearGo, removedGo, hn, a, b]

theorem clearGo_char (p : Party) (to : Nat) : ∀ (l : List Frag) (i : Nat),
    clearGo p to i l = (l.take (to + 1 - i)).filter (fun f => !decide (f.sender = p)) ++ l.drop (to + 1 - i)
    ∧ removedGo p to i l = (l.take (to + 1 - i)).filter (fun f => decide (f.sender = p)) := by
  intro l
  induction l with
  | nil => intro i; simp [clearGo, removedGo]
  | cons f fs ih =>
    intro i
    by_cases hi : i ≤ to
    · have e : to + 1 - i = (to + 1 - (i + 1)) + 1 := by omega
      obtain ⟨a, b⟩ := ih (i + 1)
      rw [e, List.take_succ_cons, List.drop_succ_cons]
      by_cases hf : f.sender = p
      · simp [clearGo, removedGo, hf, hi, a, b, List.filter_cons]
      · simp [clearGo, removedGo, hf, a, b, List.filter_cons]
    · have z : to + 1 - i = 0 := by omega
      obtain ⟨a, b⟩ := clearGo_beyond p to (f :: fs) i (by omega)
      rw [a, b, z]; simp

/-- what `clear_by_party(p, to)` removes: the sender's fragments among the first `to+1` entries -/
theorem removedByParty_eq (p : Party) (to : Nat) (buf : List Frag) :
    removedByParty p to buf = (buf.take (to + 1)).filter (fun f => decide (f.sender = p)) := by
  simpa [removedByParty] using (clearGo_char p to buf 0).2

theorem clearByParty_eq (p : Party) (to : Nat) (buf : List Frag) :
    clearByParty p to buf =
      (buf.take (to + 1)).filter (fun f => !decide (f.sender = p)) ++ buf.drop (to + 1) := by
  simpa [clearByParty] using (clearGo_char p to buf 0).1

theorem removedByParty_sub (p : Party) (to : Nat) (buf : List Frag) :
    ∀ f ∈ removedByParty p to buf, f ∈ buf := by
  intro f hf
  rw [removedByParty_eq] at hf
  exact List.mem_of_mem_take (List.mem_filter.1 hf).1

theorem clearByParty_sub (p : Party) (to : Nat) (buf : List Frag) :
    ∀ f ∈ clearByParty p to buf, f ∈ buf := by
  intro f hf
  rw [clearByParty_eq] at hf
  rcases List.mem_append.1 hf with h | h
  · exact List.mem_of_mem_take (List.mem_filter.1 h).1
  · exact List.mem_of_mem_drop h

theorem removedByParty_sender (p : Party) (to : Nat) (buf : List Frag) :
    ∀ f ∈ removedByParty p to buf, f.sender = p := by
  intro f hf
  rw [removedByParty_eq] at hf
  simpa using (List.mem_filter.1 hf).2

theorem removedByParty_data (p : Party) (to : Nat) (buf : List Frag) :
    (removedByParty p to buf).map (·.data) = streamOf p (buf.take (to + 1)) := by
  rw [removedByParty_eq]; rfl

theorem streamOf_filter_other (p q : Party) (l : List Frag) :
    streamOf q (l.filter (fun f => !decide (f.sender = p))) = if q = p then [] else streamOf q l := by
  unfold streamOf
  rw [List.filter_filter]
  by_cases hq : q = p
  · subst hq
    simp only [if_true, List.map_eq_nil_iff, List.filter_eq_nil_iff]
    intro f _; simp
  · simp only [hq, if_false]
    congr 1
    apply List.filter_congr
    intro f _
    by_cases hf : f.sender = q
    · have : f.sender ≠ p := fun h => hq (hf ▸ h)
      simp [hf, hq]
    · simp [hf]

/-- the bookkeeping identity of one `clear_by_party`: for EVERY party, removed ++ kept = before -/
theorem clear_partition (p q : Party) (to : Nat) (buf : List Frag) :
    streamOf q (removedByParty p to buf) ++ streamOf q (clearByParty p to buf) = streamOf q buf := by
  rw [removedByParty_eq, clearByParty_eq, streamOf_append, streamOf_filter_other]
  by_cases hq : q = p
  · subst hq
    have : streamOf q ((buf.take (to + 1)).filter (fun f => decide (f.sender = q))) = streamOf q (buf.take (to + 1)) := by
      simp [streamOf, List.filter_filter]
    rw [this]; simp
    rw [← streamOf_append, List.take_append_drop]
  · have : streamOf q ((buf.take (to + 1)).filter (fun f => decide (f.sender = p))) = [] := by
      simp only [streamOf, List.filter_filter, List.map_eq_nil_iff, List.filter_eq_nil_iff]
      intro f _; simp; intro h1 h2; exact hq (h1 ▸ h2)
    rw [this]; simp [hq]
    rw [← streamOf_append, List.take_append_drop]

/-! ### `complete_parses` -/

theorem mem_setCompl (t : Ty) (i : Nat) (w : List Nat) : ∀ (l : List (Ty × Nat × List Nat)) c,
    c ∈ setCompl t i w l → c = (t, i, w) ∨ c ∈ l := by
  intro l
  induction l with
  | nil => intro c h; simp [setCompl] at h; exact Or.inl h
  | cons e es ih =>
    intro c h
    unfold setCompl at h
    by_cases he : e.1 = t
    · simp [he] at h
      rcases h with h | h
      · exact Or.inl h
      · exact Or.inr (List.mem_cons_of_mem _ h)
    · simp [he] at h
      rcases h with h | h
      · exact Or.inr (h ▸ List.mem_cons_self)
      · rcases ih c h with h | h
        · exact Or.inl h
        · exact Or.inr (List.mem_cons_of_mem _ h)

theorem setCompl_ne_nil (t : Ty) (i : Nat) (w : List Nat) (l : List (Ty × Nat × List Nat)) :
    setCompl t i w l ≠ [] := by
  cases l with
  | nil => simp [setCompl]
  | cons e es => unfold setCompl; by_cases he : e.1 = t <;> simp [he]

theorem feedTypes_spec (S : Spec) (i : Nat) (w : List Nat) : ∀ (ts : List Ty) (compl : List (Ty × Nat × List Nat)),
    (∀ c ∈ (feedTypes S i w ts compl).2, c ∈ compl ∨ (c.2 = (i, w) ∧ S.complete c.1 w = true))
    ∧ (∀ t ∈ (feedTypes S i w ts compl).1, t ∈ ts ∧ S.cont t w = true) := by
  intro ts
  induction ts with
  | nil =>
    intro compl
    refine ⟨fun c hc => Or.inl (by simpa [feedTypes] using hc), fun t ht => ?_⟩
    simp [feedTypes] at ht
  | cons t ts ih =>
    intro compl
    unfold feedTypes
    constructor
    · intro c hc
      simp only at hc
      rcases (ih _).1 c hc with h | h
      · by_cases hcpl : S.complete t w = true
        · simp [hcpl] at h
          rcases mem_setCompl t i w compl c h with h | h
          · right; subst h; exact ⟨rfl, hcpl⟩
          · exact Or.inl h
        · simp [hcpl] at h; exact Or.inl h
      · exact Or.inr h
    · intro u hu
      simp only at hu
      by_cases hct : S.cont t w = true
      · simp [hct] at hu
        rcases hu with rfl | hu
        · exact ⟨List.mem_cons_self, hct⟩
        · have := (ih _).2 u hu
          exact ⟨List.mem_cons_of_mem _ this.1, this.2⟩
      · simp [hct] at hu
        have := (ih _).2 u hu
        exact ⟨List.mem_cons_of_mem _ this.1, this.2⟩

theorem bestOf_mem : ∀ (l : List (Ty × Nat × List Nat)) b, bestOf l = some b → b ∈ l := by
  intro l
  induction l with
  | nil => intro b h; simp [bestOf] at h
  | cons e es ih =>
    intro b h
    unfold bestOf at h
    cases hb : bestOf es with
    | none => simp [hb] at h; exact h ▸ List.mem_cons_self
    | some b' =>
      simp [hb] at h
      by_cases hlt : e.2.1 < b'.2.1
      · simp [hlt] at h; exact h ▸ List.mem_cons_of_mem _ (ih b' hb)
      · simp [hlt] at h; exact h ▸ List.mem_cons_self

theorem bestOf_max : ∀ (l : List (Ty × Nat × List Nat)) b, bestOf l = some b → ∀ c ∈ l, c.2.1 ≤ b.2.1 := by
  intro l
  induction l with
  | nil => intro b h; simp [bestOf] at h
  | cons e es ih =>
    intro b h c hc
    unfold bestOf at h
    cases hb : bestOf es with
    | none =>
      simp [hb] at h
      cases es with
      | nil => simp at hc; subst hc; subst h; exact Nat.le_refl _
      | cons e' es' => unfold bestOf at hb; cases h' : bestOf es' <;> simp [h'] at hb; split at hb <;> simp at hb
    | some b' =>
      simp [hb] at h
      have ih' := ih b' hb
      by_cases hlt : e.2.1 < b'.2.1
      · simp [hlt] at h; subst h
        rcases List.mem_cons.1 hc with rfl | hc
        · omega
        · exact ih' c hc
      · simp [hlt] at h; subst h
        rcases List.mem_cons.1 hc with rfl | hc
        · exact Nat.le_refl _
        · have := ih' c hc; omega

theorem bestOf_none : ∀ (l : List (Ty × Nat × List Nat)), bestOf l = none → l = [] := by
  intro l
  cases l with
  | nil => intro _; rfl
  | cons e es =>
    intro h; unfold bestOf at h
    cases hb : bestOf es <;> simp [hb] at h
    split at h <;> simp at h

theorem optFor_spec (opts : List Opt) (p : Party) (t : Ty) (o : Opt) (h : optFor opts p t = some o) :
    o ∈ opts ∧ o.sender = p ∧ o.type = t := by
  unfold optFor at h
  have h1 := List.mem_of_find?_eq_some h
  have h2 := List.find?_some h
  simp at h2
  exact ⟨h1, h2.1, h2.2⟩

/-! ### the invariant -/

/-- every step of the history was offered by the forecast for the history before it and passed the
    constraint check on the extended history; a remote message was parsed completely by its type; a
    locally generated one comes from a fuzzer-controlled party -/
inductive Valid (S : Spec) : List Msg → Prop
  | nil : Valid S []
  | snoc (h : List Msg) (m : Msg) : Valid S h → m.opt ∈ S.forecast h → S.ok h m = true →
      (m.remote = true → S.complete m.type m.payload = true) →
      (m.remote = false → S.fuzzer m.sender = true) → Valid S (h ++ [m])

def remoteMsgs (h : List Msg) : List Msg := h.filter (·.remote)

/-- message `m` was built from exactly the fragments `g`, all of them produced by `m.sender` -/
def Attributed (m : Msg) (g : List Frag) : Prop :=
  m.remote = true ∧ m.payload = g.map (·.data) ∧ ∀ f ∈ g, f.sender = m.sender

def Paired : List Msg → List (List Frag) → Prop
  | [], [] => True
  | m :: ms, g :: gs => Attributed m g ∧ Paired ms gs
  | _, _ => False

theorem paired_snoc : ∀ (ms : List Msg) (gs : List (List Frag)) (m : Msg) (g : List Frag),
    Paired ms gs → Attributed m g → Paired (ms ++ [m]) (gs ++ [g]) := by
  intro ms
  induction ms with
  | nil => intro gs m g h a; cases gs with
    | nil => exact ⟨a, trivial⟩
    | cons _ _ => exact h.elim
  | cons m' ms ih => intro gs m g h a; cases gs with
    | nil => exact h.elim
    | cons g' gs => exact ⟨h.1, ih gs m g h.2 a⟩

/-- the messages handed to `party.send`: locally generated, recipient absent or external -/
def transmitted (S : Spec) (h : List Msg) : List (Party × Option Party × Ty × List Nat) :=
  (h.filter (fun m => !m.remote && (match m.recipient with | none => true | some r => !S.fuzzer r))).map
    (fun m => (m.sender, m.recipient, m.type, m.payload))

structure ExInv (S : Spec) (s : State) (e : Ex) : Prop where
  opts : e.opts = S.forecast s.history
  pos_le : e.pos ≤ s.buffer.length
  word : e.word = streamOf e.sender (s.buffer.take e.pos)
  compl : ∀ c ∈ e.compl, c.2.1 < e.pos ∧ c.2.2 = streamOf e.sender (s.buffer.take (c.2.1 + 1))
            ∧ S.complete c.1 c.2.2 = true
  alive : live s = true

structure RunInv (S : Spec) (s : State) : Prop where
  /-- the history is step by step allowed, checked, parsed -/
  valid : Valid S s.history
  /-- per sender: consumed ++ unconsumed = received (in order, each datum once) -/
  once : ∀ p, streamOf p s.used.flatten ++ streamOf p s.buffer = streamOf p s.recvd
  /-- every remote message (and the one the constraints rejected) is exactly one consumed group, all
      of whose fragments its recorded sender produced -/
  attributed : Paired (remoteMsgs s.history ++ s.rejected.toList) s.used
  /-- `party.send` was called exactly for the locally generated messages with an external recipient -/
  outbox : s.outbox = transmitted S s.history
  /-- remote data comes from external parties -/
  external : ∀ f ∈ s.recvd, S.fuzzer f.sender = false
  rejected_failed : s.rejected.isSome = true → s.failed.isSome = true
  ex : ∀ e, s.ex = some e → ExInv S s e
  /-- nothing is buffered or consumed that was not received -/
  buf_sub : ∀ f ∈ s.buffer, f ∈ s.recvd
  used_sub : ∀ g ∈ s.used, ∀ f ∈ g, f ∈ s.recvd

theorem runInv_init (S : Spec) : RunInv S init := by
  refine ⟨Valid.nil, ?_, ?_, ?_, ?_, ?_, ?_, ?_, ?_⟩ <;> simp [init, streamOf, remoteMsgs, Paired, transmitted]

theorem remoteMsgs_snoc (h : List Msg) (m : Msg) :
    remoteMsgs (h ++ [m]) = if m.remote then remoteMsgs h ++ [m] else remoteMsgs h := by
  by_cases hm : m.remote = true <;> simp [remoteMsgs, List.filter_append, hm]

theorem transmitted_snoc (S : Spec) (h : List Msg) (m : Msg) :
    transmitted S (h ++ [m]) =
      if (!m.remote && (match m.recipient with | none => true | some r => !S.fuzzer r)) = true
      then transmitted S h ++ [(m.sender, m.recipient, m.type, m.payload)] else transmitted S h := by
  unfold transmitted
  rw [List.filter_append]
  by_cases hc : (!m.remote && (match m.recipient with | none => true | some r => !S.fuzzer r)) = true
  · simp [hc]
  · simp [hc]

theorem live_failed {s : State} (h : live s = true) : s.failed = none ∧ s.finished = false := by
  unfold live at h
  simp at h
  exact h

/-- `finish` keeps the invariant -/
theorem runInv_finish (S : Spec) (s : State) (e : Ex) (inv : RunInv S s) (he : s.ex = some e) :
    RunInv S (finish S s e) := by
  have ei := inv.ex e he
  have hrej : s.rejected = none := by
    cases hr : s.rejected with
    | none => rfl
    | some m =>
      have := inv.rejected_failed (by simp [hr])
      have l := (live_failed ei.alive).1
      simp [l] at this
  cases hb : bestOf e.compl with
  | none =>
    have hf : finish S s e = { s with ex := none, failed := some .noParse } := by
      simp only [finish, hb]
    rw [hf]
    exact ⟨inv.valid, inv.once, inv.attributed, inv.outbox, inv.external, by simp, by simp, inv.buf_sub, inv.used_sub⟩
  | some b =>
    obtain ⟨t, i, w⟩ := b
    have hmem := bestOf_mem _ _ hb
    obtain ⟨_, hw, hc⟩ := ei.compl _ hmem
    simp only at hw hc
    cases ho : optFor e.opts e.sender t with
    | none =>
      have hf : finish S s e = { s with ex := none, failed := some .noParse } := by
        simp only [finish, hb, ho]
      rw [hf]
      exact ⟨inv.valid, inv.once, inv.attributed, inv.outbox, inv.external, by simp, by simp, inv.buf_sub, inv.used_sub⟩
    | some o =>
      obtain ⟨homem, hos, hot⟩ := optFor_spec _ _ _ _ ho
      have hatt : Attributed ⟨o.sender, o.recipient, t, w, true⟩ (removedByParty e.sender i s.buffer) := by
        refine ⟨rfl, ?_, ?_⟩
        · simp only; rw [removedByParty_data]; exact hw
        · intro f hf; simp only; rw [hos]; exact removedByParty_sender _ _ _ f hf
      have honce : ∀ p, streamOf p (s.used ++ [removedByParty e.sender i s.buffer]).flatten
          ++ streamOf p (clearByParty e.sender i s.buffer) = streamOf p s.recvd := by
        intro p
        rw [streamOf_flatten_append, List.append_assoc, clear_partition, inv.once]
      have hbs : ∀ f ∈ clearByParty e.sender i s.buffer, f ∈ s.recvd :=
        fun f hf => inv.buf_sub f (clearByParty_sub _ _ _ f hf)
      have hus : ∀ g ∈ s.used ++ [removedByParty e.sender i s.buffer], ∀ f ∈ g, f ∈ s.recvd := by
        intro g hg f hf
        rcases List.mem_append.1 hg with hg | hg
        · exact inv.used_sub g hg f hf
        · simp at hg; subst hg; exact inv.buf_sub f (removedByParty_sub _ _ _ f hf)
      have hatt' := inv.attributed
      simp only [hrej, Option.toList, List.append_nil] at hatt'
      by_cases hok : S.ok s.history ⟨o.sender, o.recipient, t, w, true⟩ = true
      · have hf : finish S s e = { s with ex := none
                                          buffer := clearByParty e.sender i s.buffer
                                          used := s.used ++ [removedByParty e.sender i s.buffer]
                                          history := s.history ++ [⟨o.sender, o.recipient, t, w, true⟩] } := by
          simp only [finish, hb, ho, hok, if_true]
        rw [hf]
        refine ⟨?_, honce, ?_, ?_, inv.external, ?_, by simp, hbs, hus⟩
        · refine Valid.snoc _ _ inv.valid ?_ hok (fun _ => hc) (by simp)
          have : (⟨o.sender, o.recipient, t, w, true⟩ : Msg).opt = o := by
            cases o; simp [Msg.opt] at hot ⊢; exact hot.symm
          rw [this, ← ei.opts]; exact homem
        · simp only [remoteMsgs_snoc, if_true, hrej, Option.toList, List.append_nil]
          exact paired_snoc _ _ _ _ hatt' hatt
        · simp only [transmitted_snoc]
          simpa using inv.outbox
        · simp [hrej]
      · have hf : finish S s e = { s with ex := none
                                          buffer := clearByParty e.sender i s.buffer
                                          used := s.used ++ [removedByParty e.sender i s.buffer]
                                          failed := some .constraint
                                          rejected := some ⟨o.sender, o.recipient, t, w, true⟩ } := by
          simp only [finish, hb, ho, hok]
          simp
        rw [hf]
        refine ⟨inv.valid, honce, ?_, inv.outbox, inv.external, by simp, by simp, hbs, hus⟩
        simpa [Option.toList] using paired_snoc _ _ _ _ hatt' hatt

/-- ExInv survives a buffer that only grows at the end -/
theorem exInv_recv (S : Spec) (s : State) (e : Ex) (f : Frag) (ei : ExInv S s e)
    (s' : State) (hh : s'.history = s.history) (hb : s'.buffer = s.buffer ++ [f]) (hl : live s' = true) :
    ExInv S s' e := by
  refine ⟨by rw [hh]; exact ei.opts, by rw [hb]; simp; have := ei.pos_le; omega, ?_, ?_, hl⟩
  · rw [hb, List.take_append_of_le_length ei.pos_le]; exact ei.word
  · intro c hc
    obtain ⟨a, b, d⟩ := ei.compl c hc
    refine ⟨a, ?_, d⟩
    rw [hb, List.take_append_of_le_length (by have := ei.pos_le; omega)]; exact b

/-- every enabled event keeps the invariant -/
theorem runInv_step (S : Spec) (s s' : State) (ev : Event) (inv : RunInv S s)
    (h : step S s ev = some s') : RunInv S s' := by
  cases ev with
  | recv f =>
    simp only [step] at h
    split at h
    · rename_i hc
      injection h with h; subst h
      refine ⟨inv.valid, ?_, inv.attributed, inv.outbox, ?_, inv.rejected_failed, ?_, ?_, ?_⟩
      · intro p; simp only [streamOf_append, ← List.append_assoc, inv.once]
      · intro g hg
        rcases List.mem_append.1 hg with hg | hg
        · exact inv.external g hg
        · simp at hg; subst hg; exact hc.2
      · intro e he
        exact exInv_recv S s e f (inv.ex e he) _ rfl rfl (by simpa [live] using hc.1)
      · intro g hg
        rcases List.mem_append.1 hg with hg | hg
        · exact List.mem_append_left _ (inv.buf_sub g hg)
        · exact List.mem_append_right _ hg
      · intro g hg f' hf'
        exact List.mem_append_left _ (inv.used_sub g hg f' hf')
    · simp at h
  | fuzzerSend m =>
    simp only [step] at h
    split at h
    · rename_i hc
      obtain ⟨hl, hex, hbuf, hrem, hfz, hfc, hok⟩ := hc
      injection h with h; subst h
      have hrej : s.rejected = none := by
        cases hr : s.rejected with
        | none => rfl
        | some m' =>
          have := inv.rejected_failed (by simp [hr])
          simp [(live_failed hl).1] at this
      refine ⟨Valid.snoc _ _ inv.valid hfc hok (by simp [hrem]) (fun _ => hfz), inv.once, ?_, ?_,
        inv.external, inv.rejected_failed, ?_, inv.buf_sub, inv.used_sub⟩
      · simp only [remoteMsgs_snoc, hrem]; exact inv.attributed
      · simp only [transmitted_snoc, hrem, Bool.not_false, Bool.true_and]
        cases hr : m.recipient with
        | none => simp [inv.outbox]
        | some r => by_cases hfr : S.fuzzer r = true <;> simp [hfr, inv.outbox]
      · intro e he; simp at hex; simp [hex] at he
    · simp at h
  | exStart =>
    simp only [step] at h
    split at h
    · rename_i hc
      split at h
      · rename_i p hp
        injection h with h; subst h
        refine ⟨inv.valid, inv.once, inv.attributed, inv.outbox, inv.external, inv.rejected_failed, ?_, inv.buf_sub, inv.used_sub⟩
        intro e he
        simp at he; subst he
        exact ⟨rfl, by simp, by simp [streamOf], by simp, by simpa [live] using hc.1⟩
      · simp at h
    · simp at h
  | exStep =>
    simp only [step] at h
    split at h
    · rename_i e he
      split at h
      · rename_i hc
        split at h
        · rename_i i d hfn
          injection h with h; subst h
          have ei := inv.ex e he
          obtain ⟨h1, h2, h3⟩ := findNext_spec _ _ _ _ _ hfn
          refine ⟨inv.valid, inv.once, inv.attributed, inv.outbox, inv.external, inv.rejected_failed, ?_, inv.buf_sub, inv.used_sub⟩
          intro e' he'
          simp at he'; subst he'
          refine ⟨ei.opts, by simp; omega, ?_, ?_, by simpa [live] using hc.1⟩
          · simp only; rw [h3, ei.word]
          · intro c hcm
            simp only at hcm
            rcases (feedTypes_spec S i (e.word ++ [d]) e.avail e.compl).1 c hcm with hold | hnew
            · obtain ⟨a, b, d'⟩ := ei.compl c hold
              exact ⟨by simp only; omega, b, d'⟩
            · obtain ⟨hn1, hn2⟩ := hnew
              have e1 : c.2.1 = i := by rw [hn1]
              have e2 : c.2.2 = e.word ++ [d] := by rw [hn1]
              refine ⟨by simp only; omega, ?_, by rw [e2]; exact hn2⟩
              rw [e1, e2, h3, ei.word]
        · simp at h
      · simp at h
    · simp at h
  | exFinish =>
    simp only [step] at h
    split at h
    · rename_i e he
      split at h
      · injection h with h; subst h; exact runInv_finish S s e inv he
      · simp at h
    · simp at h
  | silence =>
    simp only [step] at h
    split at h
    · rename_i e he
      split at h
      · split at h
        · injection h with h; subst h
          exact ⟨inv.valid, inv.once, inv.attributed, inv.outbox, inv.external, by simp, by simp, inv.buf_sub, inv.used_sub⟩
        · injection h with h; subst h; exact runInv_finish S s e inv he
      · simp at h
    · simp at h
  | unexpected =>
    simp only [step] at h
    split at h
    · injection h with h; subst h
      refine ⟨inv.valid, inv.once, inv.attributed, inv.outbox, inv.external, by simp, ?_, inv.buf_sub, inv.used_sub⟩
      intro e he; rename_i hc; have := hc.2.1; simp at this; simp [this] at he
    · simp at h
  | noMessage =>
    simp only [step] at h
    split at h
    · injection h with h; subst h
      refine ⟨inv.valid, inv.once, inv.attributed, inv.outbox, inv.external, by simp, ?_, inv.buf_sub, inv.used_sub⟩
      intro e he; rename_i hc; have := hc.2.1; simp at this; simp [this] at he
    · simp at h
  | finishRun =>
    simp only [step] at h
    split at h
    · injection h with h; subst h
      refine ⟨inv.valid, inv.once, inv.attributed, inv.outbox, inv.external, inv.rejected_failed, ?_, inv.buf_sub, inv.used_sub⟩
      intro e he; rename_i hc; have := hc.2.1; simp at this; simp [this] at he
    · simp at h

theorem runInv_reachable (S : Spec) (s : State) (h : Reachable S s) : RunInv S s := by
  induction h with
  | init => exact runInv_init S
  | step s s' ev _ hs ih => exact runInv_step S s s' ev ih hs

/-! ### consequences used by Props/C20 -/

theorem reachable_runEvents (S : Spec) : ∀ (evs : List Event) (s s' : State), Reachable S s →
    runEvents S s evs = some s' → Reachable S s' := by
  intro evs
  induction evs with
  | nil => intro s s' hr h; simp [runEvents] at h; exact h ▸ hr
  | cons ev evs ih =>
    intro s s' hr h
    unfold runEvents at h
    cases hs : step S s ev with
    | none => simp [hs] at h
    | some s1 => simp [hs] at h; exact ih s1 s' (Reachable.step s s1 ev hr hs) h

/-- every entry of a valid history was allowed, checked and (if remote) parsed when it was appended -/
theorem valid_at (S : Spec) (h : List Msg) (hv : Valid S h) : ∀ (h1 : List Msg) (m : Msg) (h2 : List Msg),
    h = h1 ++ m :: h2 →
    m.opt ∈ S.forecast h1 ∧ S.ok h1 m = true ∧ (m.remote = true → S.complete m.type m.payload = true)
      ∧ (m.remote = false → S.fuzzer m.sender = true) := by
  induction hv with
  | nil => intro h1 m h2 e; simp at e
  | snoc h m' hv' a b c d ih =>
    intro h1 m h2 e
    rcases List.eq_nil_or_concat h2 with rfl | ⟨h2', x, rfl⟩
    · have e' : h ++ [m'] = h1 ++ [m] := by simpa using e
      obtain ⟨e1, e2⟩ := List.append_inj' e' rfl
      simp at e2; subst e1; subst e2
      exact ⟨a, b, c, d⟩
    · have e' : h ++ [m'] = (h1 ++ m :: h2') ++ [x] := by simpa using e
      obtain ⟨e1, _⟩ := List.append_inj' e' rfl
      exact ih h1 m h2' e1

theorem valid_prefix (S : Spec) (h : List Msg) (hv : Valid S h) : ∀ (h1 h2 : List Msg),
    h = h1 ++ h2 → Valid S h1 := by
  induction hv with
  | nil => intro h1 h2 e; simp at e; rw [e.1]; exact Valid.nil
  | snoc h m hv' a b c d ih =>
    intro h1 h2 e
    rcases List.eq_nil_or_concat h2 with rfl | ⟨h2', x, rfl⟩
    · simp at e; rw [← e]; exact Valid.snoc h m hv' a b c d
    · have e' : h ++ [m] = (h1 ++ h2') ++ [x] := by simpa using e
      obtain ⟨e1, _⟩ := List.append_inj' e' rfl
      exact ih h1 h2' e1

theorem streamOf_all (p : Party) (g : List Frag) (h : ∀ f ∈ g, f.sender = p) :
    streamOf p g = g.map (·.data) := by
  unfold streamOf
  rw [List.filter_eq_self.2]
  intro f hf; simp [h f hf]

theorem streamOf_none (p q : Party) (g : List Frag) (h : ∀ f ∈ g, f.sender = q) (hpq : q ≠ p) :
    streamOf p g = [] := by
  unfold streamOf
  rw [List.filter_eq_nil_iff.2]
  · rfl
  · intro f hf; simp [h f hf, hpq]

/-- the payloads recorded for sender `p`, concatenated -/
def recorded (p : Party) (ms : List Msg) : List Nat :=
  (ms.filter (fun m => m.sender = p)).flatMap (·.payload)

theorem paired_recorded (p : Party) : ∀ (ms : List Msg) (gs : List (List Frag)), Paired ms gs →
    recorded p ms = streamOf p gs.flatten := by
  intro ms
  induction ms with
  | nil => intro gs h; cases gs with
    | nil => simp [recorded, streamOf]
    | cons _ _ => exact h.elim
  | cons m ms ih => intro gs h; cases gs with
    | nil => exact h.elim
    | cons g gs =>
      obtain ⟨⟨_, hp, hs⟩, hrest⟩ := h
      have := ih gs hrest
      simp only [List.flatten_cons, streamOf_append]
      by_cases hm : m.sender = p
      · rw [streamOf_all p g (fun f hf => (hs f hf).trans hm), ← this]
        simp [recorded, List.filter_cons, hm, hp]
      · rw [streamOf_none p m.sender g hs hm, ← this]
        simp [recorded, List.filter_cons, hm]

theorem paired_get : ∀ (ms : List Msg) (gs : List (List Frag)), Paired ms gs →
    ∀ m ∈ ms, ∃ g ∈ gs, Attributed m g := by
  intro ms
  induction ms with
  | nil => intro gs _ m hm; simp at hm
  | cons m' ms ih => intro gs h m hm; cases gs with
    | nil => exact h.elim
    | cons g gs =>
      rcases List.mem_cons.1 hm with rfl | hm
      · exact ⟨g, List.mem_cons_self, h.1⟩
      · obtain ⟨g', hg', ha⟩ := ih gs h.2 m hm
        exact ⟨g', List.mem_cons_of_mem _ hg', ha⟩

theorem findGo_append (p : Party) : ∀ (l l' : List Frag) (i : Nat) (r : Nat × Nat),
    findGo p i l = some r → findGo p i (l ++ l') = some r := by
  intro l
  induction l with
  | nil => intro l' i r h; simp [findGo] at h
  | cons f fs ih =>
    intro l' i r h
    simp only [List.cons_append, findGo] at h ⊢
    by_cases hf : f.sender = p
    · simpa [hf] using h
    · simp only [hf, if_false] at h ⊢; exact ih l' (i + 1) r h

/-- a fragment that arrives later does not change which fragment the extraction reads next -/
theorem findNext_append (p : Party) (buf : List Frag) (f : Frag) (start : Nat) (r : Nat × Nat)
    (h : findNext p buf start = some r) : findNext p (buf ++ [f]) start = some r := by
  unfold findNext at h ⊢
  have hlt : start < buf.length := by
    by_cases hl : start < buf.length
    · exact hl
    · have : buf.drop start = [] := List.drop_eq_nil_of_le (by omega)
      rw [this] at h; simp [findGo] at h
  rw [List.drop_append_of_le_length (by omega)]
  exact findGo_append p _ _ _ _ h

theorem recvChunk_append (p r : Party) (a b : List Nat) :
    recvChunk p r (a ++ b) = recvChunk p r a ++ recvChunk p r b := by simp [recvChunk]

/-- one event leaves the history alone or appends exactly one message -/
theorem step_history (S : Spec) (s s' : State) (ev : Event) (h : step S s ev = some s') :
    s'.history = s.history ∨ ∃ m, s'.history = s.history ++ [m] := by
  have fin : ∀ e, (finish S s e).history = s.history ∨ ∃ m, (finish S s e).history = s.history ++ [m] := by
    intro e
    unfold finish
    split
    · exact Or.inl rfl
    · split
      · exact Or.inl rfl
      · simp only
        split
        · exact Or.inr ⟨_, rfl⟩
        · exact Or.inl rfl
  cases ev <;> simp only [step] at h
  case recv f => split at h <;> simp at h; subst h; exact Or.inl rfl
  case fuzzerSend m => split at h <;> simp at h; subst h; exact Or.inr ⟨m, rfl⟩
  case exStart =>
    split at h
    · split at h <;> simp at h; subst h; exact Or.inl rfl
    · simp at h
  case exStep =>
    split at h
    · split at h
      · split at h <;> simp at h; subst h; exact Or.inl rfl
      · simp at h
    · simp at h
  case exFinish =>
    split at h
    · split at h <;> simp at h; subst h; exact fin _
    · simp at h
  case silence =>
    split at h
    · split at h
      · split at h <;> simp at h <;> subst h
        · exact Or.inl rfl
        · exact fin _
      · simp at h
    · simp at h
  case unexpected => split at h <;> simp at h; subst h; exact Or.inl rfl
  case noMessage => split at h <;> simp at h; subst h; exact Or.inl rfl
  case finishRun => split at h <;> simp at h; subst h; exact Or.inl rfl

/-- a failed or finished run takes no further event -/
theorem step_dead (S : Spec) (s : State) (ev : Event) (h : live s = false) : step S s ev = none := by
  have hl : ¬ (live s = true) := by simp [h]
  cases ev <;> simp only [step]
  case recv f => simp [hl]
  case fuzzerSend m => simp [hl]
  case exStart => simp [hl]
  case exStep => split <;> simp [hl]
  case exFinish => split <;> simp [hl]
  case silence => split <;> simp [hl]
  case unexpected => simp [hl]
  case noMessage => simp [hl]
  case finishRun => simp [hl]

end Io
end FV
