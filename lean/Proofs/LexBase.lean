/-
Helper lemmas for C14 (`Model/LexBase.lean`): both lexer bases deliver `spec` followed by EOFs,
provided the event stream does not end with a silently skipped newline.
-/
import Model.LexBase
namespace FV.Lex

def nonEof (q : List Tok) : List Tok := q.filter (· != .eof)

/-- EOF tokens sit at the end of the queue only -/
def trailing : List Tok → Bool
  | [] => true
  | .eof :: r => r.all (· == .eof)
  | _ :: r => trailing r

/-- what the C++ base's handling of one raw call adds to the deque -/
def effCpp (r : CRaw) : List Tok := if r.skipInc > 0 then r.pushed else r.pushed ++ [r.ret]

/-! ### list facts -/

theorem nonEof_append (a b : List Tok) : nonEof (a ++ b) = nonEof a ++ nonEof b := by
  simp [nonEof]

theorem nonEof_of_not_mem {q : List Tok} (h : Tok.eof ∉ q) : nonEof q = q := by
  induction q with
  | nil => rfl
  | cons a r ih =>
    simp only [List.mem_cons, not_or] at h
    have : (a != Tok.eof) = true := by
      cases a <;> simp_all
    simp only [nonEof, List.filter_cons, this, if_true]
    congr 1
    exact ih h.2

theorem not_mem_nonEof (q : List Tok) : Tok.eof ∉ nonEof q := by
  simp [nonEof]

theorem nonEof_replicate_dedent (k : Nat) : nonEof (List.replicate k Tok.dedent) = List.replicate k Tok.dedent := by
  apply nonEof_of_not_mem
  intro h
  have := List.eq_of_mem_replicate h
  cases this

theorem all_eof_nonEof {r : List Tok} (h : r.all (· == Tok.eof) = true) : nonEof r = [] := by
  induction r with
  | nil => rfl
  | cons a r ih =>
    simp only [List.all_cons, Bool.and_eq_true] at h
    have ha : a = Tok.eof := by simpa using h.1
    subst ha
    simp only [nonEof, List.filter_cons]
    simpa [nonEof] using ih h.2

theorem trailing_of_not_mem {q : List Tok} (h : Tok.eof ∉ q) : trailing q = true := by
  induction q with
  | nil => rfl
  | cons a r ih =>
    simp only [List.mem_cons, not_or] at h
    cases a with
    | eof => exact absurd rfl h.1
    | newline => exact ih h.2
    | indent => exact ih h.2
    | dedent => exact ih h.2
    | raw _ => exact ih h.2

theorem trailing_append {a b : List Tok} (ha : Tok.eof ∉ a) (hb : trailing b = true) : trailing (a ++ b) = true := by
  induction a with
  | nil => simpa using hb
  | cons x r ih =>
    simp only [List.mem_cons, not_or] at ha
    cases x with
    | eof => exact absurd rfl ha.1
    | newline => exact ih ha.2
    | indent => exact ih ha.2
    | dedent => exact ih ha.2
    | raw _ => exact ih ha.2

theorem trailing_tail {q : List Tok} (h : trailing q = true) : trailing q.tail = true := by
  cases q with
  | nil => rfl
  | cons a r =>
    cases a with
    | eof =>
      simp only [trailing] at h
      simp only [List.tail_cons]
      cases r with
      | nil => rfl
      | cons b r' =>
        simp only [List.all_cons, Bool.and_eq_true] at h
        have hb : b = Tok.eof := by simpa using h.1
        subst hb
        simpa [trailing] using h.2
    | newline => simpa [trailing] using h
    | indent => simpa [trailing] using h
    | dedent => simpa [trailing] using h
    | raw _ => simpa [trailing] using h

theorem trailing_snoc_eof {q : List Tok} (h : trailing q = true) : trailing (q ++ [Tok.eof]) = true := by
  induction q with
  | nil => rfl
  | cons a r ih =>
    cases a with
    | eof =>
      simp only [trailing] at h
      simp only [List.cons_append, trailing, List.all_append, h, Bool.true_and]
      rfl
    | newline => exact ih (by simpa [trailing] using h)
    | indent => exact ih (by simpa [trailing] using h)
    | dedent => exact ih (by simpa [trailing] using h)
    | raw _ => exact ih (by simpa [trailing] using h)

/-- head of the queue = head of its non-EOF part, when EOFs are trailing -/
theorem head_trailing {q : List Tok} (h : trailing q = true) : q.headD .eof = (nonEof q).headD .eof := by
  cases q with
  | nil => rfl
  | cons a r =>
    cases a with
    | eof =>
      simp only [trailing] at h
      have hr := all_eof_nonEof h
      have : nonEof (Tok.eof :: r) = nonEof r := by simp [nonEof]
      rw [this, hr]
      rfl
    | newline => simp [nonEof]
    | indent => simp [nonEof]
    | dedent => simp [nonEof]
    | raw _ => simp [nonEof]

theorem tail_trailing {q : List Tok} (h : trailing q = true) : nonEof q.tail = (nonEof q).tail := by
  cases q with
  | nil => rfl
  | cons a r =>
    cases a with
    | eof =>
      simp only [trailing] at h
      have hr := all_eof_nonEof h
      have : nonEof (Tok.eof :: r) = nonEof r := by simp [nonEof]
      rw [this, List.tail_cons, hr]
      rfl
    | newline => simp [nonEof]
    | indent => simp [nonEof]
    | dedent => simp [nonEof]
    | raw _ => simp [nonEof]

/-! ### the raw step -/

theorem popWhile_length (n : Nat) (ind : List Nat) : (popWhile n ind).1.length + (popWhile n ind).2 = ind.length := by
  induction ind with
  | nil => rfl
  | cons t r ih =>
    simp only [popWhile]
    split
    · simp only [List.length_cons]; omega
    · simp

/-- the C++ base adds to its deque exactly what the Python base appends to `self.tokens` -/
theorem raw_agree : ∀ (evs : List Ev) (ind : List Nat) (op : Int),
    effCpp (cppRaw evs ind op) = (pyRaw evs ind op).em ∧ (cppRaw evs ind op).rest = (pyRaw evs ind op).rest ∧
    (cppRaw evs ind op).ind = (pyRaw evs ind op).ind ∧ (cppRaw evs ind op).op = (pyRaw evs ind op).op ∧
    (cppRaw evs ind op).skipInc ≤ 1 ∧ ((cppRaw evs ind op).skipInc > 0 → (cppRaw evs ind op).pushed ≠ [])
  | [], ind, op => by simp [cppRaw, pyRaw, effCpp]
  | .tok ty :: r, ind, op => by simp [cppRaw, pyRaw, effCpp]
  | .opn ty :: r, ind, op => by simp [cppRaw, pyRaw, effCpp]
  | .cls ty :: r, ind, op => by simp [cppRaw, pyRaw, effCpp]
  | .nl ws la :: r, ind, op => by
    have ih := raw_agree r ind op
    simp only [cppRaw, pyRaw]
    cases onNewline ws la ind op with
    | silent => exact ih
    | same =>
      obtain ⟨h1, h2, h3, h4, h5, h6⟩ := ih
      refine ⟨?_, h2, h3, h4, h5, ?_⟩
      · simp only [effCpp] at h1 ⊢
        split
        · rename_i hs; simp only [hs, if_true] at h1; simp [h1]
        · rename_i hs; simp only [hs, if_false] at h1; simp [← h1]
      · intro _; simp
    | indent n => simp [effCpp]
    | dedent k rest => simp [effCpp]

theorem pyRaw_em_ne_nil : ∀ (evs : List Ev) (ind : List Nat) (op : Int), (pyRaw evs ind op).em ≠ []
  | [], _, _ => by simp [pyRaw]
  | .tok _ :: _, _, _ => by simp [pyRaw]
  | .opn _ :: _, _, _ => by simp [pyRaw]
  | .cls _ :: _, _, _ => by simp [pyRaw]
  | .nl ws la :: r, ind, op => by
    simp only [pyRaw]
    cases onNewline ws la ind op with
    | silent => exact pyRaw_em_ne_nil r ind op
    | same => simp
    | indent n => simp
    | dedent k rest => simp

theorem loudEnd_cons_ne {e : Ev} {r : List Ev} {op : Int} (hr : r ≠ []) :
    loudEnd (e :: r) op = loudEnd r (match e with | .opn _ => op + 1 | .cls _ => op - 1 | _ => op) := by
  cases r with
  | nil => exact absurd rfl hr
  | cons e2 r2 => cases e <;> simp [loudEnd]

/-- the raw step on a stream that does not end silently: a non-EOF token comes first, EOFs (if the end
    was reached) come last, and what is emitted plus what remains is `spec` -/
theorem pyRaw_loud : ∀ (evs : List Ev) (ind : List Nat) (op : Int), evs ≠ [] → loudEnd evs op = true →
    (nonEof (pyRaw evs ind op).em).headD .eof = (pyRaw evs ind op).em.headD .eof ∧
    (pyRaw evs ind op).em.headD .eof ≠ .eof ∧
    nonEof (pyRaw evs ind op).em ++ spec (pyRaw evs ind op).rest (pyRaw evs ind op).ind (pyRaw evs ind op).op
      = spec evs ind op ∧
    loudEnd (pyRaw evs ind op).rest (pyRaw evs ind op).op = true ∧
    ((pyRaw evs ind op).rest ≠ [] → Tok.eof ∉ (pyRaw evs ind op).em) ∧
    trailing (pyRaw evs ind op).em = true
  | [], _, _, h, _ => absurd rfl h
  | .tok ty :: r, ind, op, _, hl => by
    have hl' : loudEnd r op = true := by
      cases r with
      | nil => rfl
      | cons e2 r2 => simpa [loudEnd] using hl
    simp [pyRaw, spec, nonEof, trailing, hl']
  | .opn ty :: r, ind, op, _, hl => by
    have hl' : loudEnd r (op + 1) = true := by
      cases r with
      | nil => rfl
      | cons e2 r2 => simpa [loudEnd] using hl
    simp [pyRaw, spec, nonEof, trailing, hl']
  | .cls ty :: r, ind, op, _, hl => by
    have hl' : loudEnd r (op - 1) = true := by
      cases r with
      | nil => rfl
      | cons e2 r2 => simpa [loudEnd] using hl
    simp [pyRaw, spec, nonEof, trailing, hl']
  | .nl ws la :: r, ind, op, _, hl => by
    have hl' : loudEnd r op = true := by
      cases r with
      | nil => rfl
      | cons e2 r2 => simpa [loudEnd] using hl
    simp only [pyRaw, spec]
    cases hnl : onNewline ws la ind op with
    | silent =>
      -- a silent newline cannot be the last event
      have hr : r ≠ [] := by
        intro hr
        subst hr
        simp only [loudEnd, Bool.not_eq_true', Bool.or_eq_false_iff, decide_eq_false_iff_not] at hl
        simp only [onNewline] at hnl
        split at hnl
        · rename_i hc
          simp only [Bool.or_eq_true, decide_eq_true_eq] at hc
          cases hc with
          | inl h => exact hl.1 h
          | inr h => simp [hl.2] at h
        · split at hnl
          · cases hnl
          · split at hnl <;> cases hnl
      exact pyRaw_loud r ind op hr hl'
    | same =>
      simp only []
      cases r with
      | nil =>
        simp [pyRaw, spec, nonEof, trailing, loudEnd]
      | cons e2 r2 =>
        obtain ⟨_, _, h3, h4, h5, h6⟩ := pyRaw_loud (e2 :: r2) ind op (by simp) hl'
        refine ⟨by simp [nonEof], by simp, ?_, h4, ?_, ?_⟩
        · simp only [nonEof, List.filter_cons] at h3 ⊢
          simp [h3]
        · intro hne
          have := h5 hne
          simp [this]
        · simpa [trailing] using h6
    | indent n =>
      simp [nonEof, trailing, hl']
    | dedent k rest =>
      have hk := nonEof_replicate_dedent k
      have hnm : Tok.eof ∉ List.replicate k Tok.dedent := by
        intro h
        have := List.eq_of_mem_replicate h
        cases this
      simp only [nonEof] at hk
      refine ⟨by simp [nonEof], by simp, ?_, hl', ?_, ?_⟩
      · simp [nonEof, hk]
      · intro _
        simp [hnm]
      · simpa [trailing] using trailing_of_not_mem hnm

/-! ### the machines -/

structure Inv (evs : List Ev) (queue : List Tok) (op : Int) : Prop where
  noEof : evs ≠ [] → Tok.eof ∉ queue
  trail : trailing queue = true
  loud : loudEnd evs op = true

def pyPend (s : PySt) : List Tok := nonEof s.queue ++ spec s.evs s.ind s.op
def cppPend (s : CppSt) : List Tok := nonEof s.queue ++ spec s.evs s.ind s.op

theorem spec_nil_nil (op : Int) : spec [] [] op = [] := by simp [spec]

/-- after the EOF check: queue and stack, and what it means for `pend` -/
theorem eofCheck_spec (evs : List Ev) (queue : List Tok) (ind : List Nat) (op : Int)
    (htr : trailing queue = true) (hne : evs ≠ [] → Tok.eof ∉ queue) :
    nonEof (eofCheck evs queue ind).1 ++ spec evs (eofCheck evs queue ind).2 op = nonEof queue ++ spec evs ind op ∧
    trailing (eofCheck evs queue ind).1 = true ∧
    (evs ≠ [] → Tok.eof ∉ (eofCheck evs queue ind).1) ∧
    (evs = [] → (eofCheck evs queue ind).2 = []) ∧
    (evs ≠ [] → (eofCheck evs queue ind).2 = ind) := by
  cases evs with
  | cons e r =>
    have : eofCheck (e :: r) queue ind = (queue, ind) := by simp [eofCheck]
    rw [this]
    exact ⟨rfl, htr, hne, fun h => absurd h (by simp), fun _ => rfl⟩
  | nil =>
    cases ind with
    | nil =>
      have : eofCheck [] queue [] = (queue, []) := by simp [eofCheck]
      rw [this]
      exact ⟨rfl, htr, fun h => absurd rfl h, fun _ => rfl, fun h => absurd rfl h⟩
    | cons t r =>
      have : eofCheck [] queue (t :: r) =
          (queue.filter (· != .eof) ++ [.newline] ++ List.replicate (t :: r).length .dedent ++ [.eof], []) := by
        simp [eofCheck]
      rw [this]
      have hk := nonEof_replicate_dedent (t :: r).length
      have hnm : Tok.eof ∉ nonEof queue ++ [Tok.newline] ++ List.replicate (t :: r).length Tok.dedent := by
        simp only [List.mem_append, not_or]
        refine ⟨⟨not_mem_nonEof queue, by simp⟩, ?_⟩
        intro h
        have := List.eq_of_mem_replicate h
        cases this
      refine ⟨?_, ?_, fun h => absurd rfl h, fun _ => rfl, fun h => absurd rfl h⟩
      · have h2 : nonEof (queue.filter (· != Tok.eof)) = nonEof queue := by
          simp [nonEof]
        show nonEof (queue.filter (· != Tok.eof) ++ [Tok.newline] ++ List.replicate (t :: r).length Tok.dedent ++ [Tok.eof])
            ++ spec [] [] op = nonEof queue ++ spec [] (t :: r) op
        rw [nonEof_append, nonEof_append, nonEof_append, h2, hk, spec_nil_nil]
        simp [nonEof, spec]
      · have h1 := trailing_append hnm (show trailing [Tok.eof] = true from rfl)
        simpa [nonEof] using h1

theorem py_step (s : PySt) (h : Inv s.evs s.queue s.op) :
    (pyNext s).1 = (pyPend s).headD .eof ∧ pyPend (pyNext s).2 = (pyPend s).tail ∧
    Inv (pyNext s).2.evs (pyNext s).2.queue (pyNext s).2.op := by
  rcases hc : eofCheck s.evs s.queue s.ind with ⟨q, ind1⟩
  have hcs := eofCheck_spec s.evs s.queue s.ind s.op h.trail h.noEof
  rw [hc] at hcs
  simp only at hcs
  obtain ⟨hpend, htr1, hne1, hind0, hindk⟩ := hcs
  simp only [pyNext, hc, pyPend]
  by_cases hev : s.evs = []
  · -- the raw lexer is at the end: it appends one more EOF
    have hi := hind0 hev
    subst hi
    simp only [hev, pyRaw, spec_nil_nil, List.append_nil] at hpend ⊢
    rw [← hpend]
    have ht2 : trailing (q ++ [Tok.eof]) = true := trailing_snoc_eof htr1
    refine ⟨?_, ?_, ?_⟩
    · rw [head_trailing ht2]
      simp [nonEof_append, nonEof]
    · rw [tail_trailing ht2]
      simp [nonEof_append, nonEof]
    · exact ⟨fun hh => absurd rfl hh, trailing_tail ht2, rfl⟩
  · have hi := hindk hev
    subst hi
    have hl := pyRaw_loud s.evs s.ind s.op hev h.loud
    obtain ⟨l1, l2, l3, l4, l5, l6⟩ := hl
    have hq : Tok.eof ∉ q := hne1 hev
    have hqn : nonEof q = q := nonEof_of_not_mem hq
    rw [← hpend, hqn, ← l3]
    have ht2 : trailing (q ++ (pyRaw s.evs s.ind s.op).em) = true := trailing_append hq l6
    refine ⟨?_, ?_, ?_⟩
    · rw [head_trailing ht2, nonEof_append, hqn]
      cases q with
      | cons a r => simp
      | nil =>
        simp only [List.nil_append]
        cases hn : nonEof (pyRaw s.evs s.ind s.op).em with
        | cons a r => simp
        | nil =>
          exfalso
          rw [hn] at l1
          exact l2 (by simpa using l1.symm)
    · rw [tail_trailing ht2, nonEof_append, hqn]
      cases q with
      | cons a r => simp [List.append_assoc]
      | nil =>
        simp only [List.nil_append]
        cases hn : nonEof (pyRaw s.evs s.ind s.op).em with
        | cons a r => simp
        | nil =>
          exfalso
          rw [hn] at l1
          exact l2 (by simpa using l1.symm)
    · refine ⟨?_, trailing_tail ht2, l4⟩
      intro hr hm
      have := l5 hr
      have hm' := List.mem_of_mem_tail hm
      simp only [List.mem_append] at hm'
      cases hm' with
      | inl x => exact hq x
      | inr x => exact this x

theorem cpp_step (s : CppSt) (h : Inv s.evs s.queue s.op) (hs : s.skipLexer = 0) :
    (cppNext s).1 = (cppPend s).headD .eof ∧ cppPend (cppNext s).2 = (cppPend s).tail ∧
    Inv (cppNext s).2.evs (cppNext s).2.queue (cppNext s).2.op ∧ (cppNext s).2.skipLexer = 0 := by
  rcases hc : eofCheck s.evs s.queue s.ind with ⟨q, ind1⟩
  have hcs := eofCheck_spec s.evs s.queue s.ind s.op h.trail h.noEof
  rw [hc] at hcs
  simp only at hcs
  obtain ⟨hpend, htr1, hne1, hind0, hindk⟩ := hcs
  simp only [cppNext, hc, cppPend]
  by_cases hqe : q = []
  · -- the deque is empty: ask the raw lexer
    subst hqe
    simp only [List.isEmpty_nil, if_true, hs, Nat.zero_add]
    have ha := raw_agree s.evs ind1 s.op
    obtain ⟨a1, a2, a3, a4, a5, a6⟩ := ha
    have heff : (if (cppRaw s.evs ind1 s.op).skipInc > 0 then (cppRaw s.evs ind1 s.op).pushed
        else (cppRaw s.evs ind1 s.op).pushed ++ [(cppRaw s.evs ind1 s.op).ret]) = (pyRaw s.evs ind1 s.op).em := by
      simpa [effCpp] using a1
    have hsk : (if (cppRaw s.evs ind1 s.op).skipInc > 0 then (cppRaw s.evs ind1 s.op).skipInc - 1
        else (cppRaw s.evs ind1 s.op).skipInc) = 0 := by
      split <;> omega
    rw [heff, a2, a3, a4, hsk]
    have hn0 : nonEof ([] : List Tok) = [] := rfl
    rw [hn0, List.nil_append] at hpend
    by_cases hev : s.evs = []
    · have hi := hind0 hev
      subst hi
      simp only [hev, pyRaw, spec_nil_nil, List.append_nil] at hpend ⊢
      rw [← hpend]
      refine ⟨by simp, by simp [nonEof], ⟨fun hh => absurd rfl hh, rfl, rfl⟩, trivial⟩
    · have hi := hindk hev
      subst hi
      obtain ⟨l1, l2, l3, l4, l5, l6⟩ := pyRaw_loud s.evs s.ind s.op hev h.loud
      rw [← hpend, ← l3]
      refine ⟨?_, ?_, ?_, rfl⟩
      · rw [head_trailing l6]
        cases hn : nonEof (pyRaw s.evs s.ind s.op).em with
        | cons a r => simp
        | nil =>
          exfalso
          rw [hn] at l1
          exact l2 (by simpa using l1.symm)
      · rw [tail_trailing l6]
        cases hn : nonEof (pyRaw s.evs s.ind s.op).em with
        | cons a r => simp
        | nil =>
          exfalso
          rw [hn] at l1
          exact l2 (by simpa using l1.symm)
      · refine ⟨?_, trailing_tail l6, l4⟩
        intro hr hm
        exact l5 hr (List.mem_of_mem_tail hm)
  · -- tokens are waiting: deliver the first, the raw lexer is not consulted
    have hqe' : q.isEmpty = false := by
      cases q with
      | nil => exact absurd rfl hqe
      | cons a r => rfl
    simp only [hqe', Bool.false_eq_true, if_false]
    rw [← hpend]
    have hne : nonEof q ≠ [] ∨ (nonEof q = [] ∧ spec s.evs ind1 s.op = []) := by
      by_cases hn : nonEof q = []
      · right
        refine ⟨hn, ?_⟩
        -- an all-EOF deque exists only at the very end, after the dedents were delivered
        have hev : s.evs = [] := by
          apply Classical.byContradiction
          intro hev
          have hq := hne1 hev
          rw [nonEof_of_not_mem hq] at hn
          exact hqe hn
        rw [hev, hind0 hev, spec_nil_nil]
      · exact Or.inl hn
    refine ⟨?_, ?_, ?_, hs⟩
    · rw [head_trailing htr1]
      cases hne with
      | inl h1 =>
        cases hn : nonEof q with
        | nil => exact absurd hn h1
        | cons a r => simp
      | inr h1 => simp [h1.1, h1.2]
    · rw [tail_trailing htr1]
      cases hne with
      | inl h1 =>
        cases hn : nonEof q with
        | nil => exact absurd hn h1
        | cons a r => simp
      | inr h1 => simp [h1.1, h1.2]
    · refine ⟨?_, trailing_tail htr1, h.loud⟩
      intro hr hm
      exact hne1 hr (List.mem_of_mem_tail hm)

/-- n tokens of a pending list, EOF for ever after -/
def deliver (l : List Tok) : Nat → List Tok
  | 0 => []
  | n + 1 => l.headD .eof :: deliver l.tail n

theorem py_pulls (n : Nat) : ∀ (s : PySt), Inv s.evs s.queue s.op → pyPulls n s = deliver (pyPend s) n := by
  induction n with
  | zero => intro s _; rfl
  | succ n ih =>
    intro s h
    obtain ⟨h1, h2, h3⟩ := py_step s h
    simp only [pyPulls, deliver, h1, ih _ h3, h2]

theorem cpp_pulls (n : Nat) : ∀ (s : CppSt), Inv s.evs s.queue s.op → s.skipLexer = 0 →
    cppPulls n s = deliver (cppPend s) n := by
  induction n with
  | zero => intro s _ _; rfl
  | succ n ih =>
    intro s h hs
    obtain ⟨h1, h2, h3, h4⟩ := cpp_step s h hs
    simp only [cppPulls, deliver, h1, ih _ h3 h4, h2]

theorem cppNextR_false (s : CppSt) : cppNextR false s = cppNext s := by
  simp [cppNextR, cppNext]

/-- the fixed C++ base makes the same step (under the same invariant) -/
theorem cpp_step_R (b : Bool) (s : CppSt) (h : Inv s.evs s.queue s.op) (hs : s.skipLexer = 0) :
    (cppNextR b s).1 = (cppPend s).headD .eof ∧ cppPend (cppNextR b s).2 = (cppPend s).tail ∧
    Inv (cppNextR b s).2.evs (cppNextR b s).2.queue (cppNextR b s).2.op ∧ (cppNextR b s).2.skipLexer = 0 := by
  cases b with
  | false => rw [cppNextR_false]; exact cpp_step s h hs
  | true =>
    rcases hc : eofCheck s.evs s.queue s.ind with ⟨q, ind1⟩
    by_cases hfire : q.isEmpty = true ∧ (cppRaw s.evs ind1 s.op).rest.isEmpty = true ∧
        (cppRaw s.evs ind1 s.op).ind.isEmpty = false
    · -- the second check fires: the raw lexer has just consumed the last event, blocks are open
      obtain ⟨hq, hrest, hind⟩ := hfire
      have hqe : q = [] := by simpa using hq
      subst hqe
      have hcs := eofCheck_spec s.evs s.queue s.ind s.op h.trail h.noEof
      rw [hc] at hcs
      simp only at hcs
      obtain ⟨hpend, _, _, hind0, hindk⟩ := hcs
      have hn0 : nonEof ([] : List Tok) = [] := rfl
      rw [hn0, List.nil_append] at hpend
      have ha := raw_agree s.evs ind1 s.op
      obtain ⟨a1, a2, a3, a4, a5, a6⟩ := ha
      have hev : s.evs ≠ [] := by
        intro hev
        have hi := hind0 hev
        subst hi
        rw [hev] at hind
        simp [cppRaw] at hind
      have hi := hindk hev
      subst hi
      obtain ⟨l1, l2, l3, l4, l5, l6⟩ := pyRaw_loud s.evs s.ind s.op hev h.loud
      have heff : (if (cppRaw s.evs s.ind s.op).skipInc > 0 then (cppRaw s.evs s.ind s.op).pushed
          else (cppRaw s.evs s.ind s.op).pushed ++ [(cppRaw s.evs s.ind s.op).ret]) = (pyRaw s.evs s.ind s.op).em := by
        simpa [effCpp] using a1
      have hsk : (if (cppRaw s.evs s.ind s.op).skipInc > 0 then (cppRaw s.evs s.ind s.op).skipInc - 1
          else (cppRaw s.evs s.ind s.op).skipInc) = 0 := by
        split <;> omega
      have hrest' : (pyRaw s.evs s.ind s.op).rest = [] := by
        rw [← a2]; simpa using hrest
      have hcs2 := eofCheck_spec [] (pyRaw s.evs s.ind s.op).em (pyRaw s.evs s.ind s.op).ind
        (pyRaw s.evs s.ind s.op).op l6 (fun hh => absurd rfl hh)
      obtain ⟨p1, p2, _, p4, _⟩ := hcs2
      have p4' := p4 rfl
      have hind' : (pyRaw s.evs s.ind s.op).ind.isEmpty = false := by rw [← a3]; exact hind
      have hcond : (true && (pyRaw s.evs s.ind s.op).rest.isEmpty && !(pyRaw s.evs s.ind s.op).ind.isEmpty) = true := by
        simp [hrest', hind']
      simp only [cppNextR, hc, List.isEmpty_nil, if_true, hs, Nat.zero_add, heff, hsk, a2, a3, a4, hcond, cppPend]
      rw [hrest'] at l3 ⊢
      rw [p4', spec_nil_nil, List.append_nil] at p1
      rw [← hpend, ← l3, ← p1, p4', spec_nil_nil, List.append_nil]
      refine ⟨head_trailing p2, tail_trailing p2, ⟨fun hh => absurd rfl hh, trailing_tail p2, rfl⟩, trivial⟩
    · -- otherwise the fixed base does exactly what the base as found does
      have : cppNextR true s = cppNext s := by
        simp only [cppNextR, cppNext, hc]
        by_cases hq : q.isEmpty = true
        · simp only [hq, if_true]
          have : ¬ ((cppRaw s.evs ind1 s.op).rest.isEmpty = true ∧ (cppRaw s.evs ind1 s.op).ind.isEmpty = false) :=
            fun hx => hfire ⟨hq, hx⟩
          have hcond : (true && (cppRaw s.evs ind1 s.op).rest.isEmpty && !(cppRaw s.evs ind1 s.op).ind.isEmpty) = false := by
            cases h1 : (cppRaw s.evs ind1 s.op).rest.isEmpty <;> cases h2 : (cppRaw s.evs ind1 s.op).ind.isEmpty <;>
              simp_all
          simp only [hcond, Bool.false_eq_true, if_false]
        · have hq' : q.isEmpty = false := by simpa using hq
          simp only [hq', Bool.false_eq_true, if_false]
      rw [this]
      exact cpp_step s h hs

theorem cpp_pulls_R (b : Bool) (n : Nat) : ∀ (s : CppSt), Inv s.evs s.queue s.op → s.skipLexer = 0 →
    cppPullsR b n s = deliver (cppPend s) n := by
  induction n with
  | zero => intro s _ _; rfl
  | succ n ih =>
    intro s h hs
    obtain ⟨h1, h2, h3, h4⟩ := cpp_step_R b s h hs
    simp only [cppPullsR, deliver, h1, ih _ h3 h4, h2]

/-! ### INDENT / DEDENT balance of `spec` -/

theorem countTok_cons (t a : Tok) (l : List Tok) :
    countTok t (a :: l) = (if a == t then 1 else 0) + countTok t l := by
  simp only [countTok, List.filter_cons]
  split <;> simp <;> omega

theorem countTok_append (t : Tok) (a b : List Tok) : countTok t (a ++ b) = countTok t a + countTok t b := by
  simp [countTok]

theorem countTok_replicate_self (t : Tok) (k : Nat) : countTok t (List.replicate k t) = k := by
  induction k with
  | zero => rfl
  | succ k ih => simp [List.replicate_succ, countTok_cons, ih]; omega

theorem countTok_replicate_ne (t u : Tok) (k : Nat) (h : (u == t) = false) : countTok t (List.replicate k u) = 0 := by
  induction k with
  | zero => rfl
  | succ k ih => simp [List.replicate_succ, countTok_cons, ih, h]

theorem spec_balanced : ∀ (evs : List Ev) (ind : List Nat) (op : Int),
    countTok .indent (spec evs ind op) + ind.length = countTok .dedent (spec evs ind op)
  | [], ind, op => by
    simp only [spec]
    split
    · rename_i h
      have : ind = [] := by simpa using h
      subst this
      rfl
    · simp only [countTok_cons, countTok_replicate_self, countTok_replicate_ne _ _ _ (show (Tok.dedent == Tok.indent) = false from rfl)]
      simp
  | .tok ty :: r, ind, op => by
    simp only [spec, countTok_cons]
    have := spec_balanced r ind op
    simp at this ⊢
    omega
  | .opn ty :: r, ind, op => by
    simp only [spec, countTok_cons]
    have := spec_balanced r ind (op + 1)
    simp at this ⊢
    omega
  | .cls ty :: r, ind, op => by
    simp only [spec, countTok_cons]
    have := spec_balanced r ind (op - 1)
    simp at this ⊢
    omega
  | .nl ws la :: r, ind, op => by
    simp only [spec]
    cases hnl : onNewline ws la ind op with
    | silent => exact spec_balanced r ind op
    | same =>
      have := spec_balanced r ind op
      simp only [countTok_cons]
      simp at this ⊢
      omega
    | indent n =>
      have := spec_balanced r (n :: ind) op
      simp only [countTok_cons]
      simp at this ⊢
      omega
    | dedent k rest =>
      have := spec_balanced r rest op
      -- `rest` is `ind` with k entries popped
      have hk : rest.length + k = ind.length := by
        simp only [onNewline] at hnl
        split at hnl
        · cases hnl
        · split at hnl
          · cases hnl
          · split at hnl
            · cases hnl
            · cases hnl
              exact popWhile_length _ _
      simp only [countTok_cons, countTok_append, countTok_replicate_self,
        countTok_replicate_ne _ _ _ (show (Tok.dedent == Tok.indent) = false from rfl)]
      simp at this ⊢
      omega

end FV.Lex
