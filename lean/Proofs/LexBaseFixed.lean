/-
Helper lemmas for C14, second part: WITHOUT the guard `loudEnd`.

`Proofs/LexBase.lean` shows that both lexer bases deliver `spec` on streams that do not end with a
silently skipped newline.  Here:
  * the Python base delivers `spec` on EVERY stream (`py_pulls_gen`) — because it is one raw token
    ahead as soon as an indented block is open (`InvP.ahead`), the EOF of a skipped last newline is
    still queued when the end-of-input check runs;
  * the C++ base WITH the second end-of-input check (`cppNextR true`,
    /var/tmp/fixes/C14-eof-after-skipped-newline) delivers `spec` on EVERY stream (`cpp_pulls_fixed`).
-/
import Proofs.LexBase
namespace FV.Lex

theorem onNewline_dedent_nil {ws : List Bool} {la : Bool} {op : Int} {k : Nat} {rest : List Nat}
    (h : onNewline ws la [] op = .dedent k rest) : rest = [] := by
  simp only [onNewline] at h
  split at h
  · cases h
  · split at h
    · cases h
    · split at h
      · cases h
      · cases h
        simp [popWhile]

/-- the raw step on ANY stream: what is emitted (without EOFs) plus what remains is `spec`; EOFs come
    last; a call that emits nothing but EOF consumed only skipped newlines up to the end of the input;
    a call that opens the first block emits at least NEWLINE INDENT -/
theorem pyRaw_gen : ∀ (evs : List Ev) (ind : List Nat) (op : Int),
    nonEof (pyRaw evs ind op).em ++ spec (pyRaw evs ind op).rest (pyRaw evs ind op).ind (pyRaw evs ind op).op
      = spec evs ind op ∧
    trailing (pyRaw evs ind op).em = true ∧
    ((pyRaw evs ind op).rest ≠ [] → Tok.eof ∉ (pyRaw evs ind op).em) ∧
    (nonEof (pyRaw evs ind op).em = [] → (pyRaw evs ind op).ind = ind ∧ (pyRaw evs ind op).rest = []) ∧
    (ind = [] → (pyRaw evs ind op).ind ≠ [] → 2 ≤ (pyRaw evs ind op).em.length)
  | [], ind, op => by
    refine ⟨by simp [pyRaw, nonEof], by simp [pyRaw, trailing], by simp [pyRaw], by simp [pyRaw],
      fun h1 h2 => absurd h1 (by simpa [pyRaw] using h2)⟩
  | .tok ty :: r, ind, op => by
    refine ⟨by simp [pyRaw, spec, nonEof], by simp [pyRaw, trailing], by simp [pyRaw], by simp [pyRaw, nonEof],
      fun h1 h2 => absurd h1 (by simpa [pyRaw] using h2)⟩
  | .opn ty :: r, ind, op => by
    refine ⟨by simp [pyRaw, spec, nonEof], by simp [pyRaw, trailing], by simp [pyRaw], by simp [pyRaw, nonEof],
      fun h1 h2 => absurd h1 (by simpa [pyRaw] using h2)⟩
  | .cls ty :: r, ind, op => by
    refine ⟨by simp [pyRaw, spec, nonEof], by simp [pyRaw, trailing], by simp [pyRaw], by simp [pyRaw, nonEof],
      fun h1 h2 => absurd h1 (by simpa [pyRaw] using h2)⟩
  | .nl ws la :: r, ind, op => by
    have ih := pyRaw_gen r ind op
    simp only [pyRaw, spec]
    cases hnl : onNewline ws la ind op with
    | silent => exact ih
    | same =>
      simp only []
      obtain ⟨h1, h2, h3, _, h6⟩ := ih
      refine ⟨?_, ?_, ?_, ?_, ?_⟩
      · simp only [nonEof, List.filter_cons] at h1 ⊢
        simp [h1]
      · simpa [trailing] using h2
      · intro hne
        have := h3 hne
        simp [this]
      · intro hn
        simp [nonEof] at hn
      · intro hi hne
        have := h6 hi hne
        simp only [List.length_cons]
        omega
    | indent n =>
      refine ⟨by simp [nonEof], by simp [trailing], by simp, by simp [nonEof], by simp⟩
    | dedent k rest =>
      have hk := nonEof_replicate_dedent k
      have hnm : Tok.eof ∉ List.replicate k Tok.dedent := by
        intro h
        have := List.eq_of_mem_replicate h
        cases this
      simp only [nonEof] at hk
      refine ⟨by simp [nonEof, hk], ?_, ?_, by simp [nonEof], ?_⟩
      · simpa [trailing] using trailing_of_not_mem hnm
      · intro _
        simp [hnm]
      · intro hi hne
        subst hi
        exact absurd (onNewline_dedent_nil hnl) hne

/-! ### the Python base, every stream -/

structure InvP (evs : List Ev) (queue : List Tok) (ind : List Nat) : Prop where
  noEof : evs ≠ [] → Tok.eof ∉ queue
  trail : trailing queue = true
  /-- once a block is open the base is (at least) one raw token ahead -/
  ahead : evs ≠ [] → ind ≠ [] → queue ≠ []

theorem eofCheck_cons (e : Ev) (r : List Ev) (queue : List Tok) (ind : List Nat) :
    eofCheck (e :: r) queue ind = (queue, ind) := by simp [eofCheck]

theorem py_step_gen (s : PySt) (h : InvP s.evs s.queue s.ind) :
    (pyNext s).1 = (pyPend s).headD .eof ∧ pyPend (pyNext s).2 = (pyPend s).tail ∧
    InvP (pyNext s).2.evs (pyNext s).2.queue (pyNext s).2.ind := by
  rcases hc : eofCheck s.evs s.queue s.ind with ⟨q, ind1⟩
  have hcs := eofCheck_spec s.evs s.queue s.ind s.op h.trail h.noEof
  rw [hc] at hcs
  simp only at hcs
  obtain ⟨hpend, htr1, hne1, hind0, hindk⟩ := hcs
  simp only [pyNext, hc, pyPend]
  by_cases hev : s.evs = []
  · have hi := hind0 hev
    subst hi
    simp only [hev, pyRaw, spec_nil_nil, List.append_nil] at hpend ⊢
    rw [← hpend]
    have ht2 : trailing (q ++ [Tok.eof]) = true := trailing_snoc_eof htr1
    refine ⟨?_, ?_, ?_⟩
    · rw [head_trailing ht2]
      simp [nonEof]
    · rw [tail_trailing ht2]
      simp [nonEof]
    · exact ⟨fun hh => absurd rfl hh, trailing_tail ht2, fun hh => absurd rfl hh⟩
  · have hi := hindk hev
    subst hi
    -- the check at the top did nothing
    have hq_eq : q = s.queue := by
      cases hs : s.evs with
      | nil => exact absurd hs hev
      | cons e r =>
        rw [hs, eofCheck_cons] at hc
        exact (Prod.mk.inj hc).1.symm
    obtain ⟨g1, g2, g3, g5, g6⟩ := pyRaw_gen s.evs s.ind s.op
    have hq : Tok.eof ∉ q := hne1 hev
    have hqn : nonEof q = q := nonEof_of_not_mem hq
    have hem := pyRaw_em_ne_nil s.evs s.ind s.op
    -- nothing queued and nothing but EOF emitted: no block is open and the input is exhausted
    have hempty : q = [] → nonEof (pyRaw s.evs s.ind s.op).em = [] →
        spec (pyRaw s.evs s.ind s.op).rest (pyRaw s.evs s.ind s.op).ind (pyRaw s.evs s.ind s.op).op = [] := by
      intro hq0 hn
      obtain ⟨e1, e2⟩ := g5 hn
      have hind : s.ind = [] := by
        apply Classical.byContradiction
        intro hi
        exact h.ahead hev hi (by rw [← hq_eq]; exact hq0)
      rw [e1, e2, hind, spec_nil_nil]
    rw [← hpend, hqn, ← g1]
    have ht2 : trailing (q ++ (pyRaw s.evs s.ind s.op).em) = true := trailing_append hq g2
    refine ⟨?_, ?_, ?_⟩
    · rw [head_trailing ht2, nonEof_append, hqn]
      cases hqc : q with
      | cons a r => simp
      | nil =>
        simp only [List.nil_append]
        cases hn : nonEof (pyRaw s.evs s.ind s.op).em with
        | cons a r => simp
        | nil => simp [hempty hqc hn]
    · rw [tail_trailing ht2, nonEof_append, hqn]
      cases hqc : q with
      | cons a r => simp [List.append_assoc]
      | nil =>
        simp only [List.nil_append]
        cases hn : nonEof (pyRaw s.evs s.ind s.op).em with
        | cons a r => simp
        | nil => simp [hempty hqc hn]
    · refine ⟨?_, trailing_tail ht2, ?_⟩
      · intro hr hm
        have := g3 hr
        have hm' := List.mem_of_mem_tail hm
        simp only [List.mem_append] at hm'
        cases hm' with
        | inl x => exact hq x
        | inr x => exact this x
      · intro _ hind'
        cases hqc : q with
        | cons a r =>
          simp only [List.cons_append, List.tail_cons]
          intro habs
          exact hem (List.append_eq_nil_iff.mp habs).2
        | nil =>
          have hind : s.ind = [] := by
            apply Classical.byContradiction
            intro hi
            exact h.ahead hev hi (by rw [← hq_eq]; exact hqc)
          have h2 := g6 hind hind'
          simp only [List.nil_append]
          cases hemc : (pyRaw s.evs s.ind s.op).em with
          | nil => rw [hemc] at h2; simp at h2
          | cons a r =>
            cases r with
            | nil => rw [hemc] at h2; simp at h2
            | cons b r' => simp

theorem py_pulls_gen (n : Nat) : ∀ (s : PySt), InvP s.evs s.queue s.ind → pyPulls n s = deliver (pyPend s) n := by
  induction n with
  | zero => intro s _; rfl
  | succ n ih =>
    intro s h
    obtain ⟨h1, h2, h3⟩ := py_step_gen s h
    simp only [pyPulls, deliver, h1, ih _ h3, h2]

/-! ### the C++ base with the second end-of-input check, every stream -/

structure InvC (evs : List Ev) (queue : List Tok) : Prop where
  noEof : evs ≠ [] → Tok.eof ∉ queue
  trail : trailing queue = true

theorem cpp_step_fixed (s : CppSt) (h : InvC s.evs s.queue) (hs : s.skipLexer = 0) :
    (cppNextR true s).1 = (cppPend s).headD .eof ∧ cppPend (cppNextR true s).2 = (cppPend s).tail ∧
    InvC (cppNextR true s).2.evs (cppNextR true s).2.queue ∧ (cppNextR true s).2.skipLexer = 0 := by
  rcases hc : eofCheck s.evs s.queue s.ind with ⟨q, ind1⟩
  have hcs := eofCheck_spec s.evs s.queue s.ind s.op h.trail h.noEof
  rw [hc] at hcs
  simp only at hcs
  obtain ⟨hpend, htr1, hne1, hind0, hindk⟩ := hcs
  by_cases hqe : q = []
  · -- the deque is empty: ask the raw lexer
    subst hqe
    have ha := raw_agree s.evs ind1 s.op
    obtain ⟨a1, a2, a3, a4, a5, a6⟩ := ha
    have heff : (if (cppRaw s.evs ind1 s.op).skipInc > 0 then (cppRaw s.evs ind1 s.op).pushed
        else (cppRaw s.evs ind1 s.op).pushed ++ [(cppRaw s.evs ind1 s.op).ret]) = (pyRaw s.evs ind1 s.op).em := by
      simpa [effCpp] using a1
    have hsk : (if (cppRaw s.evs ind1 s.op).skipInc > 0 then (cppRaw s.evs ind1 s.op).skipInc - 1
        else (cppRaw s.evs ind1 s.op).skipInc) = 0 := by
      split <;> omega
    have hn0 : nonEof ([] : List Tok) = [] := rfl
    rw [hn0, List.nil_append] at hpend
    obtain ⟨g1, g2, g3, g5, _⟩ := pyRaw_gen s.evs ind1 s.op
    by_cases hfire : (pyRaw s.evs ind1 s.op).rest = [] ∧ (pyRaw s.evs ind1 s.op).ind ≠ []
    · -- the second check fires: the raw lexer has just consumed the last event, blocks are open
      obtain ⟨hrest, hind⟩ := hfire
      have hcs2 := eofCheck_spec [] (pyRaw s.evs ind1 s.op).em (pyRaw s.evs ind1 s.op).ind
        (pyRaw s.evs ind1 s.op).op g2 (fun hh => absurd rfl hh)
      obtain ⟨p1, p2, _, p4, _⟩ := hcs2
      have p4' := p4 rfl
      have hind' : (pyRaw s.evs ind1 s.op).ind.isEmpty = false := by
        cases hx : (pyRaw s.evs ind1 s.op).ind with
        | nil => exact absurd hx hind
        | cons a r => rfl
      have hcond : (true && (pyRaw s.evs ind1 s.op).rest.isEmpty && !(pyRaw s.evs ind1 s.op).ind.isEmpty) = true := by
        simp [hrest, hind']
      simp only [cppNextR, hc, List.isEmpty_nil, if_true, hs, Nat.zero_add, heff, hsk, a2, a3, a4, hcond, cppPend]
      rw [hrest] at g1 ⊢
      rw [p4', spec_nil_nil, List.append_nil] at p1
      rw [← hpend, ← g1, ← p1, p4', spec_nil_nil, List.append_nil]
      exact ⟨head_trailing p2, tail_trailing p2, ⟨fun hh => absurd rfl hh, trailing_tail p2⟩, trivial⟩
    · -- it does not fire: more input is left, or no block is open
      have hcond : (true && (pyRaw s.evs ind1 s.op).rest.isEmpty && !(pyRaw s.evs ind1 s.op).ind.isEmpty) = false := by
        cases h1 : (pyRaw s.evs ind1 s.op).rest with
        | cons a r => simp
        | nil =>
          cases h2 : (pyRaw s.evs ind1 s.op).ind with
          | nil => simp
          | cons a r => exact absurd ⟨h1, by rw [h2]; simp⟩ hfire
      simp only [cppNextR, hc, List.isEmpty_nil, if_true, hs, Nat.zero_add, heff, hsk, a2, a3, a4, hcond, cppPend,
        Bool.false_eq_true, if_false]
      rw [← hpend, ← g1]
      -- nothing but EOF emitted: the input is exhausted and (no fire) no block is open
      have hempty : nonEof (pyRaw s.evs ind1 s.op).em = [] →
          spec (pyRaw s.evs ind1 s.op).rest (pyRaw s.evs ind1 s.op).ind (pyRaw s.evs ind1 s.op).op = [] := by
        intro hn
        obtain ⟨_, e2⟩ := g5 hn
        have hi : (pyRaw s.evs ind1 s.op).ind = [] := by
          apply Classical.byContradiction
          intro hi
          exact hfire ⟨e2, hi⟩
        rw [e2, hi, spec_nil_nil]
      refine ⟨?_, ?_, ⟨?_, trailing_tail g2⟩, trivial⟩
      · rw [head_trailing g2]
        cases hn : nonEof (pyRaw s.evs ind1 s.op).em with
        | cons a r => simp
        | nil => simp [hempty hn]
      · rw [tail_trailing g2]
        cases hn : nonEof (pyRaw s.evs ind1 s.op).em with
        | cons a r => simp
        | nil => simp [hempty hn]
      · intro hr hm
        exact g3 hr (List.mem_of_mem_tail hm)
  · -- tokens are waiting: deliver the first, the raw lexer is not consulted
    have hqe' : q.isEmpty = false := by
      cases q with
      | nil => exact absurd rfl hqe
      | cons a r => rfl
    simp only [cppNextR, hc, cppPend, hqe', Bool.false_eq_true, if_false]
    rw [← hpend]
    have hne : nonEof q ≠ [] ∨ (nonEof q = [] ∧ spec s.evs ind1 s.op = []) := by
      by_cases hn : nonEof q = []
      · right
        refine ⟨hn, ?_⟩
        have hev : s.evs = [] := by
          apply Classical.byContradiction
          intro hev
          have hq := hne1 hev
          rw [nonEof_of_not_mem hq] at hn
          exact hqe hn
        rw [hev, hind0 hev, spec_nil_nil]
      · exact Or.inl hn
    refine ⟨?_, ?_, ?_, hs⟩
    · rw [head_trailing htr1]
      cases hne with
      | inl h1 =>
        cases hn : nonEof q with
        | nil => exact absurd hn h1
        | cons a r => simp
      | inr h1 => simp [h1.1, h1.2]
    · rw [tail_trailing htr1]
      cases hne with
      | inl h1 =>
        cases hn : nonEof q with
        | nil => exact absurd hn h1
        | cons a r => simp
      | inr h1 => simp [h1.1, h1.2]
    · refine ⟨?_, trailing_tail htr1⟩
      intro hr hm
      exact hne1 hr (List.mem_of_mem_tail hm)

theorem cpp_pulls_fixed (n : Nat) : ∀ (s : CppSt), InvC s.evs s.queue → s.skipLexer = 0 →
    cppPullsR true n s = deliver (cppPend s) n := by
  induction n with
  | zero => intro s _ _; rfl
  | succ n ih =>
    intro s h hs
    obtain ⟨h1, h2, h3, h4⟩ := cpp_step_fixed s h hs
    simp only [cppPullsR, deliver, h1, ih _ h3 h4, h2]

/-! ### small facts used by `Props/C14.lean` -/

theorem inv_init (evs : List Ev) (h : loudEnd evs 0 = true) : Inv evs [] 0 :=
  ⟨fun _ => by simp, rfl, h⟩

theorem deliver_ge (l : List Tok) : ∀ n, l.length ≤ n → deliver l n = l ++ List.replicate (n - l.length) .eof := by
  induction l with
  | nil =>
    intro n _
    induction n with
    | zero => rfl
    | succ n ih => simp [deliver, ih, List.replicate_succ]
  | cons a r ih =>
    intro n hn
    cases n with
    | zero => simp at hn
    | succ n =>
      simp only [List.length_cons] at hn
      have := ih n (by omega)
      simp only [deliver, List.headD_cons, List.tail_cons, this, List.length_cons]
      simp

end FV.Lex
