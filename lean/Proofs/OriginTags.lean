/-
Helper lemmas for C12_iteration_ids_renaming: renamings compose, the canonical form is invariant
under injective renamings, and advancing the shared counters shifts the ids of a converted tree.
-/
import Model.OriginTags
namespace FV.PC

theorem Tag.rename_rename (ρ σ : Renaming) (t : Tag) :
    (t.rename ρ).rename σ = t.rename (fun r n => σ r (ρ r n)) := rfl

mutual
theorem OTree.rename_rename (ρ σ : Renaming) : ∀ t : OTree,
    (t.rename ρ).rename σ = t.rename (fun r n => σ r (ρ r n))
  | .mk l tags kids => by
    simp only [OTree.rename, List.map_map]
    rw [OTree.renameL_renameL ρ σ kids]
    congr 1
theorem OTree.renameL_renameL (ρ σ : Renaming) : ∀ ts : List OTree,
    OTree.renameL σ (OTree.renameL ρ ts) = OTree.renameL (fun r n => σ r (ρ r n)) ts
  | [] => rfl
  | t :: ts => by
    simp only [OTree.renameL]
    rw [OTree.rename_rename ρ σ t, OTree.renameL_renameL ρ σ ts]
end

def keyMap (ρ : Renaming) (k : String × Nat) : String × Nat := (k.1, ρ k.1 k.2)

mutual
theorem OTree.keys_rename (ρ : Renaming) : ∀ t : OTree,
    (t.rename ρ).keys = t.keys.map (keyMap ρ)
  | .mk l tags kids => by
    simp only [OTree.rename, OTree.keys, List.map_append, List.map_map]
    rw [OTree.keysL_renameL ρ kids]
    congr 1
theorem OTree.keysL_renameL (ρ : Renaming) : ∀ ts : List OTree,
    OTree.keysL (OTree.renameL ρ ts) = (OTree.keysL ts).map (keyMap ρ)
  | [] => rfl
  | t :: ts => by
    simp only [OTree.renameL, OTree.keysL, List.map_append]
    rw [OTree.keys_rename ρ t, OTree.keysL_renameL ρ ts]
end

-- a renaming only has to agree on the pairs that occur
mutual
theorem OTree.rename_congr (ρ σ : Renaming) : ∀ t : OTree,
    (∀ k ∈ t.keys, ρ k.1 k.2 = σ k.1 k.2) → t.rename ρ = t.rename σ
  | .mk l tags kids => by
    intro h
    simp only [OTree.rename]
    have h1 : tags.map (Tag.rename ρ) = tags.map (Tag.rename σ) := by
      apply List.map_congr_left
      intro tg htg
      have := h tg.key (by simp only [OTree.keys]; exact List.mem_append_left _ (List.mem_map_of_mem htg))
      simp only [Tag.rename, Tag.key] at this ⊢
      rw [this]
    have h2 := OTree.renameL_congr ρ σ kids (fun k hk => h k (by
      simp only [OTree.keys]; exact List.mem_append_right _ hk))
    rw [h1, h2]
theorem OTree.renameL_congr (ρ σ : Renaming) : ∀ ts : List OTree,
    (∀ k ∈ OTree.keysL ts, ρ k.1 k.2 = σ k.1 k.2) → OTree.renameL ρ ts = OTree.renameL σ ts
  | [] => fun _ => rfl
  | t :: ts => by
    intro h
    simp only [OTree.renameL]
    rw [OTree.rename_congr ρ σ t (fun k hk => h k (by
          simp only [OTree.keysL]; exact List.mem_append_left _ hk)),
        OTree.renameL_congr ρ σ ts (fun k hk => h k (by
          simp only [OTree.keysL]; exact List.mem_append_right _ hk))]
end

theorem idxOf_map_inj {α β : Type} [BEq α] [LawfulBEq α] [BEq β] [LawfulBEq β] (f : α → β)
    (l : List α) (x : α) (hinj : ∀ y ∈ l, f y = f x → y = x) :
    (l.map f).idxOf (f x) = l.idxOf x := by
  induction l with
  | nil => rfl
  | cons a l ih =>
    simp only [List.map_cons, List.idxOf_cons]
    by_cases h : a = x
    · subst h; simp
    · have hf : f a ≠ f x := fun e => h (hinj a (List.mem_cons_self) e)
      have hb1 : (f a == f x) = false := by simpa using hf
      have hb2 : (a == x) = false := by simpa using h
      rw [hb1, hb2]
      simp only [cond_false]
      rw [ih (fun y hy => hinj y (List.mem_cons_of_mem _ hy))]

/-- injective on every repetition id -/
def Renaming.Injective (ρ : Renaming) : Prop := ∀ r a b, ρ r a = ρ r b → a = b

theorem keyMap_inj (ρ : Renaming) (h : ρ.Injective) (a b : String × Nat)
    (e : keyMap ρ a = keyMap ρ b) : a = b := by
  obtain ⟨a1, a2⟩ := a
  obtain ⟨b1, b2⟩ := b
  simp only [keyMap, Prod.mk.injEq] at e
  obtain ⟨rfl, e2⟩ := e
  rw [h a1 a2 b2 e2]

theorem normalize_rename (ρ : Renaming) (h : ρ.Injective) (t : OTree) :
    (t.rename ρ).normalize = t.normalize := by
  unfold OTree.normalize
  rw [OTree.rename_rename, OTree.keys_rename]
  apply OTree.rename_congr
  intro k _
  have := idxOf_map_inj (keyMap ρ) t.keys (k.1, k.2) (fun y _ e => keyMap_inj ρ h y _ e)
  simpa [keyMap] using this

/-- distinct iterations stay distinct in the canonical form -/
theorem normalize_injective_on_keys (t : OTree) (a b : String × Nat) (ha : a ∈ t.keys)
    (_hb : b ∈ t.keys) (e : t.keys.idxOf a = t.keys.idxOf b) : a = b := by
  have h1 := List.getElem_idxOf (List.idxOf_lt_length_of_mem ha)
  have hlt : t.keys.idxOf b < t.keys.length := by rw [← e]; exact List.idxOf_lt_length_of_mem ha
  have h2 : t.keys[t.keys.idxOf b]'hlt = b := List.getElem_idxOf hlt
  rw [← h1, ← h2]
  congr 1

/-! ### advancing the counters shifts the ids -/

theorem bump_add (c δ : Counter) (id : String) : bump (c.add δ) id = (bump c id).add δ := by
  funext r
  simp only [bump, Counter.add]
  split <;> omega

theorem shift_injective (δ : Counter) : Renaming.Injective (shiftBy δ) := by
  intro r a b h; simp only [shiftBy] at h; omega

mutual
theorem conv_shift (δ : Counter) : ∀ (t : PTree) (c : Counter) (o : List Tag),
    conv (c.add δ) (o.map (Tag.rename (shiftBy δ))) t
      = ((conv c o t).1.rename (shiftBy δ), (conv c o t).2.add δ)
  | .mk l .plain kids => by
    intro c o
    simp only [conv, OTree.rename]
    have := convL_shift δ kids c (fun _ => []) 0
    simp only [List.map_nil] at this
    rw [this]
  | .mk l .cf kids => by
    intro c o
    simp only [conv, OTree.rename]
    have := convL_shift δ kids c (fun _ => o) 0
    rw [this]
  | .mk l (.rep id) kids => by
    intro c o
    simp only [conv, OTree.rename]
    rw [bump_add]
    have := convL_shift δ kids (bump c id) (fun j => o ++ [⟨id, bump c id id, j⟩]) 0
    simp only [List.map_append, List.map_cons, List.map_nil, Tag.rename, shiftBy] at this ⊢
    simp only [Counter.add] at this ⊢
    rw [this]
theorem convL_shift (δ : Counter) : ∀ (ts : List PTree) (c : Counter) (mk : Nat → List Tag) (j : Nat),
    convL (c.add δ) (fun i => (mk i).map (Tag.rename (shiftBy δ))) j ts
      = (OTree.renameL (shiftBy δ) (convL c mk j ts).1, (convL c mk j ts).2.add δ)
  | [] => by intro c mk j; rfl
  | t :: ts => by
    intro c mk j
    simp only [convL, OTree.renameL]
    rw [conv_shift δ t c (mk j)]
    simp only []
    rw [convL_shift δ ts (conv c (mk j) t).2 mk (j + 1)]
end

end FV.PC
