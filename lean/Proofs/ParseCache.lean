/-
Helper lemmas for Props/C12.lean: the invariant of the parse-cache state machine
("every cached entry equals parseFresh of its key; every miss generator that still owns its parser
registers has yielded a prefix of the fresh forest and will yield the rest").
-/
import Model.ParseCache
namespace FV.PC

variable {T : Type} [DecidableEq T]
set_option linter.unusedSectionVars false
set_option linter.unusedSimpArgs false

/-! ### small facts -/

theorem upd_same {α β : Type} [DecidableEq α] (f : α → β) (a : α) (b : β) : upd f a b a = b := by
  simp [upd]

theorem upd_other {α β : Type} [DecidableEq α] (f : α → β) (a : α) (b : β) (x : α) (h : x ≠ a) :
    upd f a b x = f x := by
  simp [upd, h]

theorem dedupFrom_nextNew (inc cands : List T) :
    dedupFrom inc cands =
      match nextNew inc cands with
      | none => []
      | some (x, rest) => x :: dedupFrom (x :: inc) rest := by
  induction cands with
  | nil => simp [dedupFrom, nextNew]
  | cons c cs ih =>
    by_cases h : c ∈ inc
    · simp only [dedupFrom, nextNew, h, if_true]; exact ih
    · simp only [dedupFrom, nextNew, h, if_false]

theorem nextNew_length (inc cands : List T) (x : T) (rest : List T)
    (h : nextNew inc cands = some (x, rest)) : rest.length < cands.length := by
  induction cands with
  | nil => simp [nextNew] at h
  | cons c cs ih =>
    by_cases hc : c ∈ inc
    · simp only [nextNew, hc, if_true] at h
      have := ih h
      simp only [List.length_cons]; omega
    · simp only [nextNew, hc, if_false, Option.some.injEq, Prod.mk.injEq] at h
      obtain ⟨_, rfl⟩ := h
      simp

theorem dedupFrom_length_le (inc cands : List T) : (dedupFrom inc cands).length ≤ cands.length := by
  induction cands generalizing inc with
  | nil => simp [dedupFrom]
  | cons c cs ih =>
    by_cases hc : c ∈ inc
    · simp only [dedupFrom, hc, if_true, List.length_cons]; have := ih inc; omega
    · simp only [dedupFrom, hc, if_false, List.length_cons]; have := ih (c :: inc); omega

/-- the cache key of the request determines everything the parse depends on: the components the
    source's key leaves out are at their defaults -/
def Keyed (cfg : Config) (r : Req) : Prop :=
  (keyOf cfg r).core = r.core ∧ (keyOf cfg r).mode = r.mode ∧ (r.cf = true → cfg.hitYieldsCf = true)

instance (cfg : Config) (r : Req) : Decidable (Keyed cfg r) := by unfold Keyed; infer_instance

/-- with a complete key every request is keyed -/
theorem keyed_of_complete (cfg : Config) (h : cfg.keyComplete = true) (hy : cfg.hitYieldsCf = true)
    (r : Req) : Keyed cfg r := by
  simp only [Config.keyComplete, Bool.and_eq_true] at h
  obtain ⟨⟨⟨h1, h2⟩, h3⟩, h4⟩ := h
  simp [Keyed, keyOf, Key.core, h1, h2, h3, h4, hy]

def reqOf : Gen T → Option Req
  | .unstarted r => some r
  | .hit r _ => some r
  | .hitLive r _ => some r
  | .miss r _ _ _ _ => some r
  | .done => none

def OpKeyed (cfg : Config) : Op → Prop
  | .start r => Keyed cfg r
  | _ => True

instance (cfg : Config) (op : Op) : Decidable (OpKeyed cfg op) := by
  cases op <;> unfold OpKeyed <;> infer_instance

/-! ### the invariant -/

def Good (cfg : Config) : Prop := cfg.policy = .storeWhenExhausted

instance (cfg : Config) : Decidable (Good cfg) := by unfold Good; infer_instance

/-- what a miss generator in this state will still yield when it is pulled in isolation -/
def remOut (O : Oracle T) (r : Req) : Phase → List T → List T → List T
  | .one, rest, _ => rest ++ (match r.mode with
      | .complete => []
      | .incomplete => dedupFrom [] (O.partialRaw r.core))
  | .two, rest, inc => dedupFrom inc rest

/-- the generator may be pulled without leaving the proved envelope -/
def Active (cfg : Config) (owner : Option Nat) (g : Nat) : Prop :=
  cfg.sharedRegs = true → owner = some g

structure GenOK (cfg : Config) (O : Oracle T) (heap : Nat → Option T) (nHeap : Nat) (regMode : Mode)
    (regInc : List T) (r : Req) (ph : Phase) (rest inc : List T) (acc : List Nat) : Prop where
  bound : ∀ i ∈ acc, i < nHeap
  out : acc.map heap ++ (remOut O r ph rest inc).map some = (freshFull O r.core r.mode).map some
  ph1 : ph = .one → inc = []
  ph2 : ph = .two → r.mode = .incomplete
  regs : cfg.sharedRegs = true → regMode = r.mode ∧ regInc = inc

def CacheOK (O : Oracle T) (s : State T) : Prop :=
  ∀ k ids, s.cache k = some ids →
    (∀ i ∈ ids, i < s.nHeap) ∧ ids.map s.heap = (freshFull O k.core k.mode).map some

/-- the invariant for all generators except (possibly) `g0` -/
def GensOK (cfg : Config) (O : Oracle T) (s : State T) (g0 : Option Nat) : Prop :=
  ∀ g r ph rest inc acc, some g ≠ g0 → s.gens g = some (.miss r ph rest inc acc) →
    Active cfg s.owner g → GenOK cfg O s.heap s.nHeap s.regMode s.regInc r ph rest inc acc

structure Inv (cfg : Config) (O : Oracle T) (s : State T) : Prop where
  cacheOK : CacheOK O s
  gensOK : GensOK cfg O s none

theorem inv_init (cfg : Config) (O : Oracle T) : Inv cfg O (State.init : State T) := by
  constructor
  · intro k ids h; simp [State.init] at h
  · intro g r ph rest inc acc _ h; simp [State.init] at h

omit [DecidableEq T] in
theorem map_upd_fresh (heap : Nat → Option T) (n : Nat) (v : Option T) (ids : List Nat)
    (h : ∀ i ∈ ids, i < n) : ids.map (upd heap n v) = ids.map heap := by
  apply List.map_congr_left
  intro i hi
  have := h i hi
  exact upd_other _ _ _ _ (by omega)

/-- a `GenOK` survives allocation of a new object -/
theorem GenOK.alloc {cfg : Config} {O : Oracle T} {heap : Nat → Option T} {n : Nat} {m : Mode}
    {ri : List T} {r : Req} {ph : Phase} {rest inc : List T} {acc : List Nat}
    (h : GenOK cfg O heap n m ri r ph rest inc acc) (v : Option T) :
    GenOK cfg O (upd heap n v) (n + 1) m ri r ph rest inc acc := by
  refine ⟨fun i hi => Nat.lt_succ_of_lt (h.bound i hi), ?_, h.ph1, h.ph2, h.regs⟩
  rw [map_upd_fresh _ _ _ _ h.bound]; exact h.out

/-! ### steps that do not touch heap, cache, registers or miss generators -/

/-- a state change that keeps heap / cache / registers / owner and changes generators only by
    rebinding `g` to something that is not a miss generator (or that was no miss generator) -/
theorem inv_of_same (cfg : Config) (O : Oracle T) (s s' : State T) (hI : Inv cfg O s)
    (hh : s'.heap = s.heap) (hn : s'.nHeap = s.nHeap) (hc : s'.cache = s.cache)
    (hm : s'.regMode = s.regMode) (hi : s'.regInc = s.regInc) (ho : s'.owner = s.owner)
    (hg : ∀ g r ph rest inc acc, s'.gens g = some (.miss r ph rest inc acc) →
      s.gens g = some (.miss r ph rest inc acc)) : Inv cfg O s' := by
  constructor
  · intro k ids h
    rw [hc] at h
    have := hI.cacheOK k ids h
    rw [hh, hn]; exact this
  · intro g r ph rest inc acc hne h ha
    rw [ho] at ha
    have := hI.gensOK g r ph rest inc acc hne (hg _ _ _ _ _ _ h) ha
    rw [hh, hn, hm, hi]; exact this

omit [DecidableEq T] in
theorem gens_upd_notmiss (gens : Nat → Option (Gen T)) (g : Nat) (x : Gen T)
    (hx : ∀ r ph rest inc acc, x ≠ .miss r ph rest inc acc)
    (g' : Nat) (r : Req) (ph : Phase) (rest inc : List T) (acc : List Nat)
    (h : upd gens g (some x) g' = some (.miss r ph rest inc acc)) :
    gens g' = some (.miss r ph rest inc acc) := by
  by_cases hg : g' = g
  · subst hg
    rw [upd_same] at h
    exact absurd (Option.some.inj h) (hx _ _ _ _ _)
  · rwa [upd_other _ _ _ _ hg] at h

/-! ### yielding and finishing on the uncached path -/

theorem inv_yieldMiss (cfg : Config) (O : Oracle T) (hG : Good cfg) (s : State T) (g : Nat)
    (r : Req) (ph : Phase) (rest inc : List T) (acc : List Nat) (t : T)
    (hc : CacheOK O s) (hgs : GensOK cfg O s (some g))
    (hown : Active cfg s.owner g)
    (hb : ∀ i ∈ acc, i < s.nHeap)
    (hout : acc.map s.heap ++ ((t :: remOut O r ph rest inc).map some)
      = (freshFull O r.core r.mode).map some)
    (h1 : ph = .one → inc = []) (h2 : ph = .two → r.mode = .incomplete)
    (hr : cfg.sharedRegs = true → s.regMode = r.mode ∧ s.regInc = inc) :
    Inv cfg O (yieldMiss cfg O s g r ph rest inc acc t).1 := by
  have hpol : cfg.policy = .storeWhenExhausted := hG
  constructor
  · intro k ids h
    simp only [yieldMiss, handOut, hpol] at h ⊢
    have := hc k ids h
    refine ⟨fun i hi => Nat.lt_succ_of_lt (this.1 i hi), ?_⟩
    rw [map_upd_fresh _ _ _ _ this.1]; exact this.2
  · intro g' r' ph' rest' inc' acc' _ h ha
    simp only [yieldMiss, handOut, hpol] at h ha ⊢
    by_cases hg : g' = g
    · subst hg
      rw [upd_same] at h
      have h := Option.some.inj h
      injection h with e1 e2 e3 e4 e5
      subst e1 e2 e3 e4 e5
      refine ⟨?_, ?_, h1, h2, hr⟩
      · intro i hi
        rcases List.mem_append.1 hi with hi | hi
        · exact Nat.lt_succ_of_lt (hb i hi)
        · simp at hi; omega
      · rw [List.map_append, map_upd_fresh _ _ _ _ hb]
        simp only [List.map_cons, List.map_nil, upd_same]
        simpa [List.append_assoc] using hout
    · rw [upd_other _ _ _ _ hg] at h
      have := hgs g' r' ph' rest' inc' acc' (by simpa using hg) h ha
      exact this.alloc _

theorem inv_finishMiss (cfg : Config) (O : Oracle T) (hG : Good cfg) (s : State T) (g : Nat)
    (r : Req) (acc : List Nat) (hk : Keyed cfg r)
    (hc : CacheOK O s) (hgs : GensOK cfg O s (some g))
    (hb : ∀ i ∈ acc, i < s.nHeap)
    (hout : acc.map s.heap = (freshFull O r.core r.mode).map some) :
    Inv cfg O (finishMiss cfg s g r acc).1 := by
  have hpol : cfg.policy = .storeWhenExhausted := hG
  constructor
  · intro k ids h
    simp only [finishMiss, hpol] at h ⊢
    by_cases hkk : k = keyOf cfg r
    · subst hkk
      rw [upd_same] at h
      have h := Option.some.inj h
      subst h
      rw [hk.1, hk.2.1]
      exact ⟨hb, hout⟩
    · rw [upd_other _ _ _ _ hkk] at h
      exact hc k ids h
  · intro g' r' ph' rest' inc' acc' _ h ha
    simp only [finishMiss, hpol] at h ha ⊢
    by_cases hg : g' = g
    · subst hg
      rw [upd_same] at h
      cases h
    · rw [upd_other _ _ _ _ hg] at h
      exact hgs g' r' ph' rest' inc' acc' (by simpa using hg) h ha

/-- changing `regInc` does not disturb the other generators when `g` owns the shared registers -/
theorem gensOK_setInc (cfg : Config) (O : Oracle T) (s : State T) (g : Nat) (ri : List T)
    (hgs : GensOK cfg O s (some g)) (hown : Active cfg s.owner g) :
    GensOK cfg O (if cfg.sharedRegs then { s with regInc := ri } else s) (some g) := by
  by_cases hs : cfg.sharedRegs = true
  · simp only [hs, if_true]
    intro g' r ph rest inc acc hne h ha
    have ho := hown hs
    have ha' := ha hs
    simp only [ho] at ha'
    exact absurd (by simpa using ha'.symm) (by simpa using hne)
  · have hs' : cfg.sharedRegs = false := by simpa using hs
    simp only [hs', Bool.false_eq_true, if_false]
    exact hgs

theorem inv_scanMiss (cfg : Config) (O : Oracle T) (hG : Good cfg) (s : State T) (g : Nat)
    (r : Req) (cands inc : List T) (acc : List Nat) (hk : Keyed cfg r)
    (hc : CacheOK O s) (hgs : GensOK cfg O s (some g))
    (hown : Active cfg s.owner g)
    (hb : ∀ i ∈ acc, i < s.nHeap)
    (hout : acc.map s.heap ++ (dedupFrom inc cands).map some = (freshFull O r.core r.mode).map some)
    (h2 : r.mode = .incomplete)
    (hr : cfg.sharedRegs = true → s.regMode = r.mode) :
    Inv cfg O (scanMiss cfg O s g r cands inc acc).1 := by
  unfold scanMiss
  rw [dedupFrom_nextNew] at hout
  cases hn : nextNew inc cands with
  | none =>
    simp only [hn] at hout ⊢
    exact inv_finishMiss cfg O hG s g r acc hk hc hgs hb (by simpa using hout)
  | some p =>
    obtain ⟨x, rest'⟩ := p
    simp only [hn] at hout ⊢
    apply inv_yieldMiss cfg O hG
    · intro k ids h
      have : (if cfg.sharedRegs then { s with regInc := x :: inc } else s).cache = s.cache := by
        split <;> rfl
      rw [this] at h
      have := hc k ids h
      have e1 : (if cfg.sharedRegs then { s with regInc := x :: inc } else s).heap = s.heap := by
        split <;> rfl
      have e2 : (if cfg.sharedRegs then { s with regInc := x :: inc } else s).nHeap = s.nHeap := by
        split <;> rfl
      rw [e1, e2]; exact this
    · exact gensOK_setInc cfg O s g (x :: inc) hgs hown
    · have : (if cfg.sharedRegs then { s with regInc := x :: inc } else s).owner = s.owner := by
        split <;> rfl
      rw [this]; exact hown
    · have e2 : (if cfg.sharedRegs then { s with regInc := x :: inc } else s).nHeap = s.nHeap := by
        split <;> rfl
      rw [e2]; exact hb
    · have e1 : (if cfg.sharedRegs then { s with regInc := x :: inc } else s).heap = s.heap := by
        split <;> rfl
      rw [e1]
      simpa [remOut] using hout
    · intro h; cases h
    · intro _; exact h2
    · intro hs
      simp [hs, hr hs]

/-! ### taint bookkeeping (ghost flag) -/

theorem tainted_yieldMiss (cfg : Config) (O : Oracle T) (s : State T) (g : Nat) (r : Req) (ph : Phase)
    (rest inc : List T) (acc : List Nat) (t : T) :
    (yieldMiss cfg O s g r ph rest inc acc t).1.tainted = s.tainted := by
  simp [yieldMiss, handOut]

theorem tainted_finishMiss (cfg : Config) (s : State T) (g : Nat) (r : Req) (acc : List Nat) :
    (finishMiss cfg s g r acc).1.tainted = s.tainted := by
  simp [finishMiss]

theorem tainted_scanMiss (cfg : Config) (O : Oracle T) (s : State T) (g : Nat) (r : Req)
    (cands inc : List T) (acc : List Nat) :
    (scanMiss cfg O s g r cands inc acc).1.tainted = s.tainted := by
  unfold scanMiss
  split
  · exact tainted_finishMiss ..
  · rw [tainted_yieldMiss]; split <;> rfl

theorem tainted_pullMiss (cfg : Config) (O : Oracle T) (s : State T) (g : Nat) (r : Req) (ph : Phase)
    (rest inc : List T) (acc : List Nat) :
    (pullMiss cfg O s g r ph rest inc acc).1.tainted = s.tainted := by
  unfold pullMiss
  cases ph with
  | one =>
    cases rest with
    | nil =>
      simp only []
      split
      · exact tainted_scanMiss ..
      · exact tainted_finishMiss ..
    | cons t rest' => exact tainted_yieldMiss ..
  | two => exact tainted_scanMiss ..

theorem tainted_markResume_mono (cfg : Config) (s : State T) (g : Nat) (h : s.tainted = true) :
    (markResume cfg s g).tainted = true := by
  unfold markResume; split <;> simp [h]

theorem markResume_cases (cfg : Config) (s : State T) (g : Nat) :
    (markResume cfg s g).tainted = true ∨ (Active cfg s.owner g ∧ markResume cfg s g = s) := by
  unfold markResume Active
  by_cases hs : cfg.sharedRegs = true
  · by_cases ho : s.owner = some g
    · right; simp [hs, ho]
    · left; simp [hs, ho]
  · have : cfg.sharedRegs = false := by simpa using hs
    right; simp [this]

theorem tainted_begin (cfg : Config) (O : Oracle T) (s : State T) (g : Nat) (r : Req) :
    (begin cfg O s g r).tainted = s.tainted := by
  unfold begin
  split
  · split
    · rfl
    · split <;> rfl
  · rfl

theorem tainted_pullStarted_mono (cfg : Config) (O : Oracle T) (s : State T) (g : Nat)
    (h : s.tainted = true) : (pullStarted cfg O s g).1.tainted = true := by
  unfold pullStarted
  split
  · split
    · simpa [handOut] using h
    · simpa [stopGen] using h
  · simpa [stopGen] using h
  · split
    · split
      · split
        · simpa [handOut] using h
        · simpa [stopGen] using h
      · simpa [stopGen] using h
    · simpa [stopGen] using h
  · rw [tainted_pullMiss]; exact tainted_markResume_mono cfg s g h
  · exact h

theorem tainted_pull_mono (cfg : Config) (O : Oracle T) (s : State T) (g : Nat)
    (h : s.tainted = true) : (pull cfg O s g).1.tainted = true := by
  unfold pull
  split
  · apply tainted_pullStarted_mono; rw [tainted_begin]; exact h
  · exact tainted_pullStarted_mono cfg O s g h

theorem tainted_mutate_mono (O : Oracle T) (s : State T) (o : Nat) (k : EditKind) (fn : Nat)
    (h : s.tainted = true) : (mutate O s o k fn).tainted = true := by
  unfold mutate
  split
  · exact h
  · simp only []
    split
    · split
      · split
        · rfl
        · exact h
      · exact h
    · exact h

theorem tainted_step_mono (cfg : Config) (O : Oracle T) (s : State T) (op : Op)
    (h : s.tainted = true) : (step cfg O s op).1.tainted = true := by
  cases op with
  | start r => exact h
  | pull g => exact tainted_pull_mono cfg O s g h
  | drop g =>
    simp only [step]
    split
    · exact h
    · exact h
  | mutate o k fn => exact tainted_mutate_mono O s o k fn h

theorem tainted_replayFrom_mono (cfg : Config) (O : Oracle T) (ops : List Op) (s : State T)
    (h : s.tainted = true) : (replayFrom cfg O s ops).tainted = true := by
  induction ops generalizing s with
  | nil => exact h
  | cons op ops ih => exact ih _ (tainted_step_mono cfg O s op h)

/-! ### every live generator's request is keyed -/

def GensKeyed (cfg : Config) (s : State T) : Prop :=
  ∀ g x, s.gens g = some x → ∀ r, reqOf x = some r → Keyed cfg r

theorem gensKeyed_init (cfg : Config) : GensKeyed cfg (State.init : State T) := by
  intro g x h; simp [State.init] at h

theorem gensKeyed_of_gens (cfg : Config) (s s' : State T) (h : GensKeyed cfg s)
    (hg : s'.gens = s.gens) : GensKeyed cfg s' := by
  intro g x hx; rw [hg] at hx; exact h g x hx

theorem gensKeyed_upd (cfg : Config) (s s' : State T) (g : Nat) (x : Gen T) (h : GensKeyed cfg s)
    (hg : s'.gens = upd s.gens g (some x)) (hx : ∀ r, reqOf x = some r → Keyed cfg r) :
    GensKeyed cfg s' := by
  intro g' x' hx' r hr
  rw [hg] at hx'
  by_cases he : g' = g
  · subst he; rw [upd_same] at hx'; cases hx'; exact hx r hr
  · rw [upd_other _ _ _ _ he] at hx'; exact h g' x' hx' r hr

theorem gensKeyed_yieldMiss (cfg : Config) (O : Oracle T) (s : State T) (g : Nat) (r : Req)
    (ph : Phase) (rest inc : List T) (acc : List Nat) (t : T) (h : GensKeyed cfg s)
    (hk : Keyed cfg r) : GensKeyed cfg (yieldMiss cfg O s g r ph rest inc acc t).1 :=
  gensKeyed_upd cfg s _ g (.miss r ph rest inc (acc ++ [s.nHeap])) h (by simp [yieldMiss, handOut])
    (by intro r' hr'; simp only [reqOf, Option.some.injEq] at hr'; subst hr'; exact hk)

theorem gensKeyed_finishMiss (cfg : Config) (s : State T) (g : Nat) (r : Req) (acc : List Nat)
    (h : GensKeyed cfg s) : GensKeyed cfg (finishMiss cfg s g r acc).1 :=
  gensKeyed_upd cfg s _ g .done h (by simp [finishMiss]) (by intro r' hr'; simp [reqOf] at hr')

theorem gensKeyed_scanMiss (cfg : Config) (O : Oracle T) (s : State T) (g : Nat) (r : Req)
    (cands inc : List T) (acc : List Nat) (h : GensKeyed cfg s) (hk : Keyed cfg r) :
    GensKeyed cfg (scanMiss cfg O s g r cands inc acc).1 := by
  unfold scanMiss
  split
  · exact gensKeyed_finishMiss cfg s g r acc h
  · apply gensKeyed_yieldMiss cfg O _ g r _ _ _ _ _ _ hk
    apply gensKeyed_of_gens cfg s _ h
    split <;> rfl

theorem gensKeyed_pullMiss (cfg : Config) (O : Oracle T) (s : State T) (g : Nat) (r : Req)
    (ph : Phase) (rest inc : List T) (acc : List Nat) (h : GensKeyed cfg s) (hk : Keyed cfg r) :
    GensKeyed cfg (pullMiss cfg O s g r ph rest inc acc).1 := by
  unfold pullMiss
  cases ph with
  | one =>
    cases rest with
    | nil =>
      simp only []
      split
      · exact gensKeyed_scanMiss cfg O s g r _ _ acc h hk
      · exact gensKeyed_finishMiss cfg s g r acc h
    | cons t rest' => exact gensKeyed_yieldMiss cfg O s g r .one rest' inc acc t h hk
  | two => exact gensKeyed_scanMiss cfg O s g r rest _ acc h hk

theorem gensKeyed_stopGen (cfg : Config) (s : State T) (g : Nat) (h : GensKeyed cfg s) :
    GensKeyed cfg (stopGen s g).1 :=
  gensKeyed_upd cfg s _ g .done h rfl (by intro r' hr'; simp [reqOf] at hr')

theorem gensKeyed_pullStarted (cfg : Config) (O : Oracle T) (s : State T) (g : Nat)
    (h : GensKeyed cfg s) : GensKeyed cfg (pullStarted cfg O s g).1 := by
  unfold pullStarted
  split
  · rename_i r id rest hgen
    have hk := h g _ hgen r rfl
    split
    · exact gensKeyed_upd cfg s _ g (.hit r rest) h (by simp [handOut])
        (by intro r' hr'; simp only [reqOf, Option.some.injEq] at hr'; subst hr'; exact hk)
    · exact gensKeyed_stopGen cfg s g h
  · exact gensKeyed_stopGen cfg s g h
  · rename_i r pos hgen
    have hk := h g _ hgen r rfl
    split
    · split
      · split
        · exact gensKeyed_upd cfg s _ g (.hitLive r (pos + 1)) h (by simp [handOut])
            (by intro r' hr'; simp only [reqOf, Option.some.injEq] at hr'; subst hr'; exact hk)
        · exact gensKeyed_stopGen cfg s g h
      · exact gensKeyed_stopGen cfg s g h
    · exact gensKeyed_stopGen cfg s g h
  · rename_i r ph rest inc acc hgen
    have hk := h g _ hgen r rfl
    apply gensKeyed_pullMiss cfg O _ g r ph rest inc acc _ hk
    apply gensKeyed_of_gens cfg s _ h
    unfold markResume; split <;> rfl
  · exact h

theorem gensKeyed_begin (cfg : Config) (O : Oracle T) (s : State T) (g : Nat) (r : Req)
    (h : GensKeyed cfg s) (hgen : s.gens g = some (.unstarted r)) :
    GensKeyed cfg (begin cfg O s g r) := by
  have hk := h g _ hgen r rfl
  have hx : ∀ (x : Gen T), reqOf x = some r → ∀ r', reqOf x = some r' → Keyed cfg r' := by
    intro x hx r' hr'; rw [hx] at hr'; cases hr'; exact hk
  unfold begin
  split
  · split
    · exact gensKeyed_upd cfg s _ g _ h rfl (hx _ rfl)
    · split
      · exact gensKeyed_upd cfg s _ g _ h rfl (hx _ rfl)
      · exact gensKeyed_upd cfg s _ g _ h rfl (hx _ rfl)
  · exact gensKeyed_upd cfg s _ g _ h rfl (hx _ rfl)

theorem gensKeyed_step (cfg : Config) (O : Oracle T) (s : State T) (op : Op)
    (h : GensKeyed cfg s) (hop : OpKeyed cfg op) : GensKeyed cfg (step cfg O s op).1 := by
  cases op with
  | start r =>
    exact gensKeyed_upd cfg s _ s.nGens (.unstarted r) h rfl
      (by intro r' hr'; simp only [reqOf, Option.some.injEq] at hr'; subst hr'; exact hop)
  | pull g =>
    simp only [step, pull]
    split
    · rename_i r hgen
      exact gensKeyed_pullStarted cfg O _ g (gensKeyed_begin cfg O s g r h hgen)
    · exact gensKeyed_pullStarted cfg O s g h
  | drop g =>
    simp only [step]
    split
    · exact gensKeyed_upd cfg s _ g .done h rfl (by intro r' hr'; simp [reqOf] at hr')
    · exact h
  | mutate o k fn =>
    apply gensKeyed_of_gens cfg s _ h
    simp only [step]
    unfold mutate
    split
    · rfl
    · simp only []
      split
      · split
        · split <;> rfl
        · rfl
      · rfl

/-! ### every step preserves the invariant as long as the history stays untainted -/

theorem effMode (cfg : Config) (s : State T) (r : Req) (inc : List T)
    (hr : cfg.sharedRegs = true → s.regMode = r.mode ∧ s.regInc = inc) :
    (if cfg.sharedRegs then s.regMode else r.mode) = r.mode ∧
    (if cfg.sharedRegs then s.regInc else inc) = inc := by
  by_cases hs : cfg.sharedRegs = true
  · simp [hs, hr hs]
  · have : cfg.sharedRegs = false := by simpa using hs
    simp [this]

theorem inv_pullMiss (cfg : Config) (O : Oracle T) (hG : Good cfg) (s : State T) (g : Nat)
    (r : Req) (ph : Phase) (rest inc : List T) (acc : List Nat) (hk : Keyed cfg r)
    (hc : CacheOK O s) (hgs : GensOK cfg O s (some g)) (hown : Active cfg s.owner g)
    (hok : GenOK cfg O s.heap s.nHeap s.regMode s.regInc r ph rest inc acc) :
    Inv cfg O (pullMiss cfg O s g r ph rest inc acc).1 := by
  have he := effMode cfg s r inc hok.regs
  unfold pullMiss
  simp only [he.1, he.2]
  cases ph with
  | one =>
    have hinc := hok.ph1 rfl
    subst hinc
    cases rest with
    | nil =>
      simp only []
      have hout := hok.out
      cases hm : r.mode with
      | complete =>
        simp only [remOut, hm, List.nil_append, List.map_nil, List.append_nil] at hout ⊢
        exact inv_finishMiss cfg O hG s g r acc hk hc hgs hok.bound (by rw [hm]; exact hout)
      | incomplete =>
        simp only [remOut, hm, List.nil_append] at hout ⊢
        exact inv_scanMiss cfg O hG s g r _ [] acc hk hc hgs hown hok.bound (by rw [hm]; exact hout) hm
          (fun hs => (hok.regs hs).1)
    | cons t rest' =>
      simp only []
      exact inv_yieldMiss cfg O hG s g r .one rest' [] acc t hc hgs hown hok.bound
        (by simpa [remOut] using hok.out) (fun _ => rfl) (fun h => by cases h) hok.regs
  | two =>
    simp only []
    exact inv_scanMiss cfg O hG s g r rest inc acc hk hc hgs hown hok.bound
      (by simpa [remOut] using hok.out) (hok.ph2 rfl) (fun hs => (hok.regs hs).1)

theorem inv_stopGen (cfg : Config) (O : Oracle T) (s : State T) (g : Nat) (hI : Inv cfg O s) :
    Inv cfg O (stopGen s g).1 := by
  refine inv_of_same cfg O s (stopGen s g).1 hI rfl rfl rfl rfl rfl rfl ?_
  intro g' r ph rest inc acc h
  exact gens_upd_notmiss s.gens g .done (by intros; simp) g' r ph rest inc acc h

theorem inv_hitStep (cfg : Config) (O : Oracle T) (s : State T) (g : Nat) (x : Gen T) (o : Out T)
    (hx : ∀ r ph rest inc acc, x ≠ .miss r ph rest inc acc) (hI : Inv cfg O s) :
    Inv cfg O (handOut { s with gens := upd s.gens g (some x) } o) := by
  refine inv_of_same cfg O s (handOut { s with gens := upd s.gens g (some x) } o) hI
    rfl rfl rfl rfl rfl rfl ?_
  intro g' r ph rest inc acc h
  exact gens_upd_notmiss s.gens g x hx g' r ph rest inc acc h

theorem inv_pullStarted (cfg : Config) (O : Oracle T) (hG : Good cfg) (s : State T) (g : Nat)
    (hK : GensKeyed cfg s) (hI : Inv cfg O s) (ht : (pullStarted cfg O s g).1.tainted = false) :
    Inv cfg O (pullStarted cfg O s g).1 := by
  unfold pullStarted at ht ⊢
  split
  · split
    · exact inv_hitStep cfg O s g _ _ (by intros; simp) hI
    · exact inv_stopGen cfg O s g hI
  · exact inv_stopGen cfg O s g hI
  · split
    · split
      · split
        · exact inv_hitStep cfg O s g _ _ (by intros; simp) hI
        · exact inv_stopGen cfg O s g hI
      · exact inv_stopGen cfg O s g hI
    · exact inv_stopGen cfg O s g hI
  · rename_i r ph rest inc acc hgen
    simp only [hgen] at ht
    rw [tainted_pullMiss] at ht
    rcases markResume_cases cfg s g with hbad | ⟨hown, hm⟩
    · rw [hbad] at ht; cases ht
    · rw [hm]
      exact inv_pullMiss cfg O hG s g r ph rest inc acc (hK g _ hgen r rfl) hI.cacheOK
        (fun g' r' ph' rest' inc' acc' _ h ha => hI.gensOK g' r' ph' rest' inc' acc' (by simp) h ha)
        hown (hI.gensOK g r ph rest inc acc (by simp) hgen hown)
  · exact hI

theorem inv_begin (cfg : Config) (O : Oracle T) (s : State T) (g : Nat) (r : Req)
    (hI : Inv cfg O s) : Inv cfg O (begin cfg O s g r) := by
  unfold begin
  split
  · split
    · refine inv_of_same cfg O s { s with gens := upd s.gens g (some (.hit r [])) } hI
        rfl rfl rfl rfl rfl rfl ?_
      intro g' r' ph rest inc acc h
      exact gens_upd_notmiss s.gens g _ (by intros; simp) g' r' ph rest inc acc h
    · split
      · refine inv_of_same cfg O s { s with gens := upd s.gens g (some (.hit r _)) } hI
          rfl rfl rfl rfl rfl rfl ?_
        intro g' r' ph rest inc acc h
        exact gens_upd_notmiss s.gens g _ (by intros; simp) g' r' ph rest inc acc h
      · refine inv_of_same cfg O s { s with gens := upd s.gens g (some (.hitLive r 0)) } hI
          rfl rfl rfl rfl rfl rfl ?_
        intro g' r' ph rest inc acc h
        exact gens_upd_notmiss s.gens g _ (by intros; simp) g' r' ph rest inc acc h
  · constructor
    · intro k ids h
      exact hI.cacheOK k ids h
    · intro g' r' ph rest inc acc _ h ha
      simp only [] at h ha ⊢
      by_cases hg : g' = g
      · subst hg
        rw [upd_same] at h
        have h := Option.some.inj h
        injection h with e1 e2 e3 e4 e5
        subst e1 e2 e3 e4 e5
        refine ⟨by simp, ?_, fun _ => rfl, (fun h => by cases h), fun _ => ⟨rfl, rfl⟩⟩
        simp only [List.map_nil, List.nil_append, remOut, freshFull]
        cases r.mode <;> rfl
      · rw [upd_other _ _ _ _ hg] at h
        by_cases hs : cfg.sharedRegs = true
        · have := ha hs
          exact absurd (Option.some.inj this).symm hg
        · have hk := hI.gensOK g' r' ph rest inc acc (by simp) h (fun hs' => absurd hs' hs)
          exact ⟨hk.bound, hk.out, hk.ph1, hk.ph2, fun hs' => absurd hs' hs⟩

theorem inv_pull (cfg : Config) (O : Oracle T) (hG : Good cfg) (s : State T) (g : Nat)
    (hK : GensKeyed cfg s) (hI : Inv cfg O s) (ht : (pull cfg O s g).1.tainted = false) :
    Inv cfg O (pull cfg O s g).1 := by
  unfold pull at ht ⊢
  split
  · rename_i r hgen
    simp only [hgen] at ht
    exact inv_pullStarted cfg O hG _ g (gensKeyed_begin cfg O s g r hK hgen) (inv_begin cfg O s g r hI) ht
  · rename_i hne
    split at ht
    · rename_i r hgen; exact absurd hgen (hne r)
    · exact inv_pullStarted cfg O hG s g hK hI ht

theorem inv_mutate (cfg : Config) (O : Oracle T) (s : State T) (o : Nat) (k : EditKind) (fn : Nat)
    (hI : Inv cfg O s) (ht : (mutate O s o k fn).tainted = false) : Inv cfg O (mutate O s o k fn) := by
  unfold mutate at ht ⊢
  cases ho : s.outs o with
  | none => simp only [ho]; exact hI
  | some out =>
    simp only [ho] at ht ⊢
    cases ha : out.alias with
    | none =>
      simp only [ha]
      exact inv_of_same cfg O s _ hI rfl rfl rfl rfl rfl rfl (fun _ _ _ _ _ _ h => h)
    | some i =>
      simp only [ha] at ht ⊢
      by_cases hp : propagates out.share k = true
      · simp only [hp, if_true] at ht ⊢
        cases hv : s.heap i with
        | none =>
          simp only [hv]
          exact inv_of_same cfg O s _ hI rfl rfl rfl rfl rfl rfl (fun _ _ _ _ _ _ h => h)
        | some v => simp [hv] at ht
      · simp only [hp]
        exact inv_of_same cfg O s _ hI rfl rfl rfl rfl rfl rfl (fun _ _ _ _ _ _ h => h)

theorem inv_step (cfg : Config) (O : Oracle T) (hG : Good cfg) (s : State T) (op : Op)
    (hK : GensKeyed cfg s) (hI : Inv cfg O s) (ht : (step cfg O s op).1.tainted = false) : Inv cfg O (step cfg O s op).1 := by
  cases op with
  | start r =>
    refine inv_of_same cfg O s (step cfg O s (.start r)).1 hI rfl rfl rfl rfl rfl rfl ?_
    intro g' r' ph rest inc acc h
    exact gens_upd_notmiss s.gens s.nGens _ (by intros; simp) g' r' ph rest inc acc h
  | pull g => exact inv_pull cfg O hG s g hK hI ht
  | drop g =>
    simp only [step] at ht ⊢
    split
    · exact (inv_stopGen cfg O s g hI)
    · exact hI
  | mutate o k fn => exact inv_mutate cfg O s o k fn hI ht

theorem inv_replayFrom (cfg : Config) (O : Oracle T) (hG : Good cfg) (ops : List Op) (s : State T)
    (hops : ∀ op ∈ ops, OpKeyed cfg op) (hK : GensKeyed cfg s)
    (hI : Inv cfg O s) (ht : (replayFrom cfg O s ops).tainted = false) :
    Inv cfg O (replayFrom cfg O s ops) ∧ GensKeyed cfg (replayFrom cfg O s ops) := by
  induction ops generalizing s with
  | nil => exact ⟨hI, hK⟩
  | cons op ops ih =>
    simp only [replayFrom] at ht ⊢
    have hstep : (step cfg O s op).1.tainted = false := by
      cases h : (step cfg O s op).1.tainted with
      | false => rfl
      | true => rw [tainted_replayFrom_mono cfg O ops _ h] at ht; cases ht
    exact ih _ (fun o ho => hops o (List.mem_cons_of_mem _ ho))
      (gensKeyed_step cfg O s op hK (hops op List.mem_cons_self))
      (inv_step cfg O hG s op hK hI hstep) ht

/-! ### what a generator yields when it is drained -/

theorem drain_succ_some (cfg : Config) (O : Oracle T) (n : Nat) (s : State T) (g : Nat) (t : T)
    (h : (pull cfg O s g).2 = some t) :
    (drain cfg O (n + 1) s g).2 = t :: (drain cfg O n (pull cfg O s g).1 g).2 := by
  simp only [drain]
  generalize pull cfg O s g = p at h ⊢
  obtain ⟨s', o⟩ := p
  simp only at h
  subst h
  rfl

theorem drain_succ_none (cfg : Config) (O : Oracle T) (n : Nat) (s : State T) (g : Nat)
    (h : (pull cfg O s g).2 = none) : (drain cfg O (n + 1) s g).2 = [] := by
  simp only [drain]
  generalize pull cfg O s g = p at h ⊢
  obtain ⟨s', o⟩ := p
  simp only at h
  subst h
  rfl

theorem pull_started (cfg : Config) (O : Oracle T) (s : State T) (g : Nat)
    (h : ∀ r, s.gens g ≠ some (.unstarted r)) : pull cfg O s g = pullStarted cfg O s g := by
  unfold pull
  split
  · rename_i r hgen; exact absurd hgen (h r)
  · rfl

theorem drain_hit (cfg : Config) (O : Oracle T) (r : Req) (g : Nat) :
    ∀ (ids : List Nat) (l : List T) (s : State T) (fuel : Nat),
      s.gens g = some (.hit r ids) → ids.map s.heap = l.map some → ids.length + 1 ≤ fuel →
      (drain cfg O fuel s g).2 = l.map (O.view r.cf) := by
  intro ids
  induction ids with
  | nil =>
    intro l s fuel hg hv hf
    cases l with
    | cons a l => simp at hv
    | nil =>
      cases fuel with
      | zero => simp at hf
      | succ n =>
        apply drain_succ_none
        rw [pull_started cfg O s g (by intro r'; rw [hg]; simp)]
        unfold pullStarted
        simp [hg, stopGen]
  | cons id rest ih =>
    intro l s fuel hg hv hf
    cases l with
    | nil => simp at hv
    | cons v l =>
      simp only [List.map_cons, List.cons.injEq] at hv
      cases fuel with
      | zero => simp at hf
      | succ n =>
        have hp : pull cfg O s g =
            (handOut { s with gens := upd s.gens g (some (.hit r rest)) } (hitOut cfg O r id v),
             some (O.view r.cf v)) := by
          rw [pull_started cfg O s g (by intro r'; rw [hg]; simp)]
          unfold pullStarted
          simp [hg, hv.1]
        rw [drain_succ_some cfg O n s g (O.view r.cf v) (by rw [hp])]
        simp only [List.map_cons, List.cons.injEq, true_and]
        rw [hp]
        apply ih l
        · simp [handOut, upd_same]
        · simpa [handOut] using hv.2
        · simp only [List.length_cons] at hf; omega

theorem yieldMiss_facts (cfg : Config) (O : Oracle T) (s : State T) (g : Nat) (r : Req) (ph : Phase)
    (rest inc : List T) (acc : List Nat) (t : T) :
    (yieldMiss cfg O s g r ph rest inc acc t).2 = some (O.view r.cf t) ∧
    (yieldMiss cfg O s g r ph rest inc acc t).1.gens g = some (.miss r ph rest inc (acc ++ [s.nHeap])) ∧
    (yieldMiss cfg O s g r ph rest inc acc t).1.regMode = s.regMode ∧
    (yieldMiss cfg O s g r ph rest inc acc t).1.regInc = s.regInc := by
  simp [yieldMiss, handOut, upd_same]

/-- what `next()` on an uncached generator gives, when the registers it reads are its own -/
theorem scanMiss_nil (cfg : Config) (O : Oracle T) (s : State T) (g : Nat) (r : Req)
    (cands inc : List T) (acc : List Nat) (h : dedupFrom inc cands = []) :
    (scanMiss cfg O s g r cands inc acc).2 = none := by
  unfold scanMiss
  rw [dedupFrom_nextNew] at h
  cases hn : nextNew inc cands with
  | none => simp [finishMiss]
  | some p => obtain ⟨x, rest'⟩ := p; simp [hn] at h

theorem scanMiss_cons (cfg : Config) (O : Oracle T) (s : State T) (g : Nat) (r : Req)
    (cands inc : List T) (acc : List Nat) (x : T) (xs : List T)
    (h : dedupFrom inc cands = x :: xs) (hm : cfg.sharedRegs = true → s.regMode = r.mode) :
    (scanMiss cfg O s g r cands inc acc).2 = some (O.view r.cf x) ∧
    ∃ rest' acc', (scanMiss cfg O s g r cands inc acc).1.gens g
        = some (.miss r .two rest' (x :: inc) acc') ∧
      dedupFrom (x :: inc) rest' = xs ∧
      (cfg.sharedRegs = true → (scanMiss cfg O s g r cands inc acc).1.regMode = r.mode ∧
        (scanMiss cfg O s g r cands inc acc).1.regInc = x :: inc) := by
  unfold scanMiss
  rw [dedupFrom_nextNew] at h
  cases hn : nextNew inc cands with
  | none => simp [hn] at h
  | some p =>
    obtain ⟨y, rest'⟩ := p
    simp only [hn, List.cons.injEq] at h ⊢
    obtain ⟨rfl, hxs⟩ := h
    have hf := yieldMiss_facts cfg O (if cfg.sharedRegs then { s with regInc := y :: inc } else s)
      g r .two rest' (y :: inc) acc y
    refine ⟨hf.1, rest', _, hf.2.1, hxs, ?_⟩
    intro hs
    rw [hf.2.2.1, hf.2.2.2]
    simp [hs, hm hs]

theorem pullMiss_nil (cfg : Config) (O : Oracle T) (s : State T) (g : Nat) (r : Req) (ph : Phase)
    (rest inc : List T) (acc : List Nat)
    (h1 : ph = .one → inc = []) (hr : cfg.sharedRegs = true → s.regMode = r.mode ∧ s.regInc = inc)
    (h : remOut O r ph rest inc = []) : (pullMiss cfg O s g r ph rest inc acc).2 = none := by
  have he := effMode cfg s r inc hr
  unfold pullMiss
  simp only [he.1, he.2]
  cases ph with
  | one =>
    have := h1 rfl; subst this
    cases rest with
    | cons t rest' => simp [remOut] at h
    | nil =>
      simp only []
      cases hm : r.mode with
      | complete => simp [finishMiss]
      | incomplete =>
        simp only [remOut, hm, List.nil_append] at h
        exact scanMiss_nil cfg O s g r _ [] acc h
  | two => exact scanMiss_nil cfg O s g r rest inc acc (by simpa [remOut] using h)

theorem pullMiss_cons (cfg : Config) (O : Oracle T) (s : State T) (g : Nat) (r : Req) (ph : Phase)
    (rest inc : List T) (acc : List Nat) (x : T) (xs : List T)
    (h1 : ph = .one → inc = []) (h2 : ph = .two → r.mode = .incomplete)
    (hr : cfg.sharedRegs = true → s.regMode = r.mode ∧ s.regInc = inc)
    (h : remOut O r ph rest inc = x :: xs) :
    (pullMiss cfg O s g r ph rest inc acc).2 = some (O.view r.cf x) ∧
    ∃ ph' rest' inc' acc', (pullMiss cfg O s g r ph rest inc acc).1.gens g
        = some (.miss r ph' rest' inc' acc') ∧
      remOut O r ph' rest' inc' = xs ∧ (ph' = .one → inc' = []) ∧ (ph' = .two → r.mode = .incomplete) ∧
      (cfg.sharedRegs = true → (pullMiss cfg O s g r ph rest inc acc).1.regMode = r.mode ∧
        (pullMiss cfg O s g r ph rest inc acc).1.regInc = inc') := by
  have he := effMode cfg s r inc hr
  unfold pullMiss
  simp only [he.1, he.2]
  cases ph with
  | one =>
    have := h1 rfl; subst this
    cases rest with
    | cons t rest' =>
      simp only [remOut, List.cons_append, List.cons.injEq] at h
      obtain ⟨rfl, hxs⟩ := h
      have hf := yieldMiss_facts cfg O s g r .one rest' [] acc t
      refine ⟨hf.1, .one, rest', [], _, hf.2.1, by simpa [remOut] using hxs, fun _ => rfl,
        (fun h => by cases h), ?_⟩
      intro hs
      rw [hf.2.2.1, hf.2.2.2]; exact hr hs
    | nil =>
      simp only []
      cases hm : r.mode with
      | complete => simp [remOut, hm] at h
      | incomplete =>
        simp only [remOut, hm, List.nil_append] at h
        obtain ⟨ho, rest', acc', hg, hd, hregs⟩ :=
          scanMiss_cons cfg O s g r _ [] acc x xs h (fun hs => (hr hs).1)
        exact ⟨ho, .two, rest', [x], acc', hg, by simpa [remOut] using hd, (fun h => by cases h),
          fun _ => rfl, fun hs => by have := hregs hs; rw [hm] at this; exact this⟩
  | two =>
    obtain ⟨ho, rest', acc', hg, hd, hregs⟩ :=
      scanMiss_cons cfg O s g r rest inc acc x xs (by simpa [remOut] using h) (fun hs => (hr hs).1)
    exact ⟨ho, .two, rest', x :: inc, acc', hg, by simpa [remOut] using hd, (fun h => by cases h),
      fun _ => h2 rfl, hregs⟩

theorem markResume_same (cfg : Config) (s : State T) (g : Nat) :
    (markResume cfg s g).gens = s.gens ∧ (markResume cfg s g).regMode = s.regMode ∧
    (markResume cfg s g).regInc = s.regInc := by
  unfold markResume; split <;> simp

theorem drain_miss (cfg : Config) (O : Oracle T) (g : Nat) (r : Req) :
    ∀ (fuel : Nat) (s : State T) (ph : Phase) (rest inc : List T) (acc : List Nat),
      s.gens g = some (.miss r ph rest inc acc) → (ph = .one → inc = []) →
      (ph = .two → r.mode = .incomplete) →
      (cfg.sharedRegs = true → s.regMode = r.mode ∧ s.regInc = inc) →
      (remOut O r ph rest inc).length + 1 ≤ fuel →
      (drain cfg O fuel s g).2 = (remOut O r ph rest inc).map (O.view r.cf) := by
  intro fuel
  induction fuel with
  | zero => intro s ph rest inc acc _ _ _ _ hf; simp at hf
  | succ n ih =>
    intro s ph rest inc acc hg h1 h2 hr hf
    have hp : pull cfg O s g = pullMiss cfg O (markResume cfg s g) g r ph rest inc acc := by
      rw [pull_started cfg O s g (by intro r'; rw [hg]; simp)]
      unfold pullStarted
      simp [hg]
    have hsame := markResume_same cfg s g
    have hr' : cfg.sharedRegs = true →
        (markResume cfg s g).regMode = r.mode ∧ (markResume cfg s g).regInc = inc := by
      intro hs; rw [hsame.2.1, hsame.2.2]; exact hr hs
    cases hrem : remOut O r ph rest inc with
    | nil =>
      simp only [List.map_nil]
      apply drain_succ_none
      rw [hp]
      exact pullMiss_nil cfg O _ g r ph rest inc acc h1 hr' hrem
    | cons x xs =>
      obtain ⟨ho, ph', rest', inc', acc', hg', hrem', h1', h2', hregs'⟩ :=
        pullMiss_cons cfg O (markResume cfg s g) g r ph rest inc acc x xs h1 h2 hr' hrem
      rw [drain_succ_some cfg O n s g (O.view r.cf x) (by rw [hp]; exact ho)]
      simp only [List.map_cons, List.cons.injEq, true_and]
      rw [hp, ← hrem']
      apply ih _ ph' rest' inc' acc' hg' h1' h2' hregs'
      rw [hrem'] ; rw [hrem] at hf; simp only [List.length_cons] at hf; omega

/-- the answer to a new request in a state that satisfies the invariant is the fresh forest -/
theorem answer_of_inv (cfg : Config) (O : Oracle T) (hG : Good cfg) (s : State T)
    (hI : Inv cfg O s) (r : Req) (hk : Keyed cfg r) : answer cfg O s r = parseFresh O r := by
  have hpol : cfg.policy = .storeWhenExhausted := hG
  unfold answer answerFuel parseFresh
  simp only [step]
  generalize hs1 : ({ s with gens := upd s.gens s.nGens (some (.unstarted r)), nGens := s.nGens + 1 }
    : State T) = s1
  have hgen1 : s1.gens s.nGens = some (.unstarted r) := by rw [← hs1]; simp [upd_same]
  have hcache1 : s1.cache = s.cache := by rw [← hs1]
  have hheap1 : s1.heap = s.heap := by rw [← hs1]
  -- the first pull goes through `begin`
  have hpull : ∀ n, (drain cfg O (n + 1) s1 s.nGens).2
      = (drain cfg O (n + 1) (begin cfg O s1 s.nGens r) s.nGens).2 := by
    intro n
    have hb : ∀ r', (begin cfg O s1 s.nGens r).gens s.nGens ≠ some (.unstarted r') := by
      intro r'
      unfold begin
      split
      · split
        · simp [upd_same]
        · split <;> simp [upd_same]
      · simp [upd_same]
    have : pull cfg O s1 s.nGens = pull cfg O (begin cfg O s1 s.nGens r) s.nGens := by
      rw [pull_started cfg O _ _ hb]
      unfold pull
      simp [hgen1]
    unfold drain
    rw [this]
  cases hc : s.cache (keyOf cfg r) with
  | some ids =>
    simp only []
    rw [hpull]
    have hco := hI.cacheOK _ ids hc
    rw [hk.1, hk.2.1] at hco
    have hsil : (r.cf && !cfg.hitYieldsCf) = false := by
      cases hcf : r.cf with
      | false => rfl
      | true => simp [hk.2.2 hcf]
    apply drain_hit cfg O r s.nGens ids _ (begin cfg O s1 s.nGens r)
    · unfold begin; simp [hcache1, hc, hpol, upd_same, hsil]
    · have : (begin cfg O s1 s.nGens r).heap = s.heap := by
        unfold begin; simp [hcache1, hc, hpol, hheap1, hsil]
      rw [this]; exact hco.2
    · omega
  | none =>
    simp only []
    rw [hpull]
    have hrem : remOut O r .one (O.complete r.core) [] = freshFull O r.core r.mode := by
      simp only [remOut, freshFull]
      cases r.mode <;> rfl
    rw [← hrem]
    apply drain_miss cfg O s.nGens r _ (begin cfg O s1 s.nGens r) .one (O.complete r.core) [] []
    · unfold begin; simp [hcache1, hc, upd_same]
    · intro _; rfl
    · intro h; cases h
    · intro _; unfold begin; simp [hcache1, hc]
    · simp only [remOut, List.length_append]
      have := dedupFrom_length_le ([] : List T) (O.partialRaw r.core)
      cases r.mode <;> simp <;> omega

/-! ### handed-out objects never alias the cache when every path copies -/

def NoAlias (s : State T) : Prop := ∀ o out, s.outs o = some out → out.alias = none

theorem noAlias_init : NoAlias (State.init : State T) := by
  intro o out h; simp [State.init] at h

theorem noAlias_of_outs (s s' : State T) (h : NoAlias s) (ho : s'.outs = s.outs) : NoAlias s' := by
  intro o out h'; rw [ho] at h'; exact h o out h'

theorem noAlias_handOut (s : State T) (o : Out T) (h : NoAlias s) (ha : o.alias = none) :
    NoAlias (handOut s o) := by
  intro i out hi
  simp only [handOut] at hi
  by_cases he : i = s.nOuts
  · subst he; rw [upd_same] at hi; cases hi; exact ha
  · rw [upd_other _ _ _ _ he] at hi; exact h i out hi

theorem copies_iff (cfg : Config) (h : cfg.copies = true) :
    cfg.hitCopies = true ∧ cfg.missShare = .none ∧ cfg.missShareCf = .none := by
  simp only [Config.copies, Bool.and_eq_true, decide_eq_true_eq] at h
  exact ⟨h.1.1, h.1.2, h.2⟩

theorem noAlias_yieldMiss (cfg : Config) (O : Oracle T) (hc : cfg.copies = true) (s : State T)
    (g : Nat) (r : Req) (ph : Phase) (rest inc : List T) (acc : List Nat) (t : T) (h : NoAlias s) :
    NoAlias (yieldMiss cfg O s g r ph rest inc acc t).1 := by
  have hcp := copies_iff cfg hc
  unfold yieldMiss
  apply noAlias_handOut
  · exact noAlias_of_outs s _ h rfl
  · simp [hcp.2.1, hcp.2.2]

theorem noAlias_finishMiss (cfg : Config) (s : State T) (g : Nat) (r : Req) (acc : List Nat)
    (h : NoAlias s) : NoAlias (finishMiss cfg s g r acc).1 :=
  noAlias_of_outs s _ h rfl

theorem noAlias_scanMiss (cfg : Config) (O : Oracle T) (hc : cfg.copies = true) (s : State T)
    (g : Nat) (r : Req) (cands inc : List T) (acc : List Nat) (h : NoAlias s) :
    NoAlias (scanMiss cfg O s g r cands inc acc).1 := by
  unfold scanMiss
  split
  · exact noAlias_finishMiss cfg s g r acc h
  · apply noAlias_yieldMiss cfg O hc
    apply noAlias_of_outs s _ h
    split <;> rfl

theorem noAlias_pullMiss (cfg : Config) (O : Oracle T) (hc : cfg.copies = true) (s : State T)
    (g : Nat) (r : Req) (ph : Phase) (rest inc : List T) (acc : List Nat) (h : NoAlias s) :
    NoAlias (pullMiss cfg O s g r ph rest inc acc).1 := by
  unfold pullMiss
  cases ph with
  | one =>
    cases rest with
    | nil =>
      simp only []
      split
      · exact noAlias_scanMiss cfg O hc s g r _ _ acc h
      · exact noAlias_finishMiss cfg s g r acc h
    | cons t rest' => exact noAlias_yieldMiss cfg O hc s g r .one rest' inc acc t h
  | two => exact noAlias_scanMiss cfg O hc s g r rest _ acc h

theorem hitOut_alias (cfg : Config) (O : Oracle T) (hc : cfg.copies = true) (r : Req) (id : Nat) (v : T) :
    (hitOut cfg O r id v).alias = none := by
  simp [hitOut, (copies_iff cfg hc).1]

theorem noAlias_pullStarted (cfg : Config) (O : Oracle T) (hc : cfg.copies = true) (s : State T)
    (g : Nat) (h : NoAlias s) : NoAlias (pullStarted cfg O s g).1 := by
  unfold pullStarted
  split
  · split
    · exact noAlias_handOut _ _ (noAlias_of_outs s _ h rfl) (hitOut_alias cfg O hc _ _ _)
    · exact noAlias_of_outs s _ h rfl
  · exact noAlias_of_outs s _ h rfl
  · split
    · split
      · split
        · exact noAlias_handOut _ _ (noAlias_of_outs s _ h rfl) (hitOut_alias cfg O hc _ _ _)
        · exact noAlias_of_outs s _ h rfl
      · exact noAlias_of_outs s _ h rfl
    · exact noAlias_of_outs s _ h rfl
  · apply noAlias_pullMiss cfg O hc
    apply noAlias_of_outs s _ h
    unfold markResume; split <;> rfl
  · exact h

theorem noAlias_begin (cfg : Config) (O : Oracle T) (s : State T) (g : Nat) (r : Req)
    (h : NoAlias s) : NoAlias (begin cfg O s g r) := by
  apply noAlias_of_outs s _ h
  unfold begin
  split
  · split
    · rfl
    · split <;> rfl
  · rfl

theorem noAlias_mutate (O : Oracle T) (s : State T) (o : Nat) (k : EditKind) (fn : Nat)
    (h : NoAlias s) : NoAlias (mutate O s o k fn) ∧ (mutate O s o k fn).tainted = s.tainted := by
  unfold mutate
  cases ho : s.outs o with
  | none => exact ⟨h, rfl⟩
  | some out =>
    have ha := h o out ho
    simp only [ha]
    refine ⟨?_, trivial⟩
    intro i out' hi
    simp only [] at hi
    by_cases he : i = o
    · subst he; rw [upd_same] at hi; cases hi; rfl
    · rw [upd_other _ _ _ _ he] at hi; exact h i out' hi

theorem noAlias_step (cfg : Config) (O : Oracle T) (hc : cfg.copies = true) (s : State T) (op : Op)
    (h : NoAlias s) : NoAlias (step cfg O s op).1 := by
  cases op with
  | start r => exact noAlias_of_outs s _ h rfl
  | pull g =>
    simp only [step, pull]
    split
    · exact noAlias_pullStarted cfg O hc _ g (noAlias_begin cfg O s g _ h)
    · exact noAlias_pullStarted cfg O hc s g h
  | drop g =>
    simp only [step]
    split
    · exact noAlias_of_outs s _ h rfl
    · exact h
  | mutate o k fn => exact (noAlias_mutate O s o k fn h).1

theorem tainted_pullStarted_eq (cfg : Config) (O : Oracle T) (hs : cfg.sharedRegs = false)
    (s : State T) (g : Nat) : (pullStarted cfg O s g).1.tainted = s.tainted := by
  unfold pullStarted
  split
  · split <;> simp [handOut, stopGen]
  · simp [stopGen]
  · split
    · split
      · split <;> simp [handOut, stopGen]
      · simp [stopGen]
    · simp [stopGen]
  · rw [tainted_pullMiss]; simp [markResume, hs]
  · rfl

theorem tainted_step_eq (cfg : Config) (O : Oracle T) (_hc : cfg.copies = true)
    (hs : cfg.sharedRegs = false) (s : State T) (op : Op) (h : NoAlias s) :
    (step cfg O s op).1.tainted = s.tainted := by
  cases op with
  | start r => rfl
  | pull g =>
    simp only [step, pull]
    split
    · rw [tainted_pullStarted_eq cfg O hs, tainted_begin]
    · exact tainted_pullStarted_eq cfg O hs s g
  | drop g =>
    simp only [step]
    split <;> rfl
  | mutate o k fn => exact (noAlias_mutate O s o k fn h).2

theorem untainted_replayFrom (cfg : Config) (O : Oracle T) (hc : cfg.copies = true)
    (hs : cfg.sharedRegs = false) (ops : List Op) (s : State T) (h : NoAlias s)
    (ht : s.tainted = false) :
    NoAlias (replayFrom cfg O s ops) ∧ (replayFrom cfg O s ops).tainted = false := by
  induction ops generalizing s with
  | nil => exact ⟨h, ht⟩
  | cons op ops ih =>
    simp only [replayFrom]
    exact ih _ (noAlias_step cfg O hc s op h) (by rw [tainted_step_eq cfg O hc hs s op h]; exact ht)

theorem noAlias_replayFrom (cfg : Config) (O : Oracle T) (hc : cfg.copies = true) (ops : List Op)
    (s : State T) (h : NoAlias s) : NoAlias (replayFrom cfg O s ops) := by
  induction ops generalizing s with
  | nil => exact h
  | cons op ops ih => exact ih _ (noAlias_step cfg O hc s op h)

theorem noAlias_replay (cfg : Config) (O : Oracle T) (hc : cfg.copies = true) (ops : List Op) :
    NoAlias (replay cfg O ops) :=
  noAlias_replayFrom cfg O hc ops State.init noAlias_init

end FV.PC
